package main

// C09: execution is bounded - depth, time and memory guards always hold.
//
// Parent mode (common.Main):
//   * depth correspondence (in process): recursion templates (simple / mutual / closure, with random wrappers
//     around the recursive call) x recursion counts x depth limits 10..400; the implementation's outcome
//     (panic "max depth" or not) is compared with the prediction of the extracted machine of model/Guards.v;
//   * size-guard correspondence (child processes with a real GOMEMLIMIT): huge repeat / range / concat operands;
//   * child-process sweep: this binary re-executed in child mode evaluates one program through
//     repl.EvalStringWithOption with MaxDepth, MaxDuration and GOMEMLIMIT set; the parent checks exit status,
//     wall time <= deadline + slack, peak RSS <= factor x limit + base, with a hard kill timeout and an
//     address-space rlimit as a backstop.
// Child mode (C09_CHILD=1): see childMain.

import (
	"context"
	"encoding/json"
	"fmt"
	"io"
	"os"
	"os/exec"
	"path/filepath"
	"runtime/debug"
	"sort"
	"strconv"
	"strings"
	"syscall"
	"time"

	"fortio.org/log"
	"grol.io/grol/eval"
	"grol.io/grol/extensions"
	"grol.io/grol/lexer"
	"grol.io/grol/object"
	"grol.io/grol/parser"
	"grol.io/grol/repl"
	"verifharness/common"
	. "verifharness/common"
)

func main() {
	if os.Getenv("C09_CHILD") == "1" {
		childMain()
		return
	}
	common.Main("C09", runC09)
}

// ---------------------------------------------------------------- child
type childSpec struct {
	Src      string `json:"src,omitempty"`
	Gen      string `json:"gen,omitempty"` // generated source: kind
	N        int    `json:"n,omitempty"`
	MaxDepth int    `json:"max_depth"`
	DurMs    int    `json:"dur_ms"`
	CancelMs int    `json:"cancel_ms,omitempty"` // >0: no MaxDuration; the parent context is cancelled after CancelMs instead
	ASLimit  uint64 `json:"as_limit"`
	Compact  bool   `json:"compact,omitempty"` // Options.Compact: the formatted text EvalOne always builds has no indentation
	MemLimit string `json:"mem_limit,omitempty"`
	// ApiLimit > 0: the memory limit is NOT in the environment; the child sets it with debug.SetMemoryLimit, the way an
	// embedding program (or main() after reading a flag) does
	ApiLimit int64 `json:"api_limit,omitempty"`
	// AutoState > 0: the child first saves a state of ten arrays of AutoState integers through AutoSave into a fresh
	// working directory, measures how long AutoLoad of it takes, then runs the program with AutoLoad on and
	// MaxDuration = DurPct percent of that load time (at least 1 ms).  Bound: load time + MaxDuration + slack.
	Unrestricted  bool   `json:"unrestricted,omitempty"`    // extensions.Config.UnrestrictedIOs: exec and run are registered
	AutoStateText string `json:"auto_state_text,omitempty"` // written to the auto-load file of a fresh working directory, AutoLoad on
	KeepOut   bool `json:"keep_out,omitempty"` // report up to 32 kB of the printed output (ResOut)
	NoReg     bool `json:"no_reg,omitempty"` // Options.NoReg: loop variables and integer parameters in plain variables
	AutoState int `json:"auto_state,omitempty"`
	DurPct    int `json:"dur_pct,omitempty"`
}

type childReport struct {
	WallMs   float64  `json:"wall_ms"`  // duration of EvalStringWithOption
	ParseMs  float64  `json:"parse_ms"` // duration of a separate parse of the same text (front-end share)
	LoadMs   float64  `json:"load_ms"`  // AutoState runs: duration of AutoLoad alone
	DurMs    int      `json:"dur_ms"`   // AutoState runs: the MaxDuration that was used
	Errs     []string `json:"errs"`
	ResLen   int      `json:"res_len"`
	Res      string   `json:"res"` // first 64 bytes of the printed result
	ResOut   string   `json:"res_out,omitempty"`
	HWMkB    int64    `json:"hwm_kb"`
	MemLimit int64    `json:"mem_limit"`
	SrcLen   int      `json:"src_len"`
}

func genSource(kind string, n int) string {
	switch kind {
	case "parens":
		return strings.Repeat("(", n) + "1" + strings.Repeat(")", n)
	case "brackets":
		return strings.Repeat("[", n) + strings.Repeat("]", n)
	case "minus":
		return strings.Repeat("-(", n) + "1" + strings.Repeat(")", n)
	case "bang":
		return strings.Repeat("!", n) + "true"
	case "sum":
		return "x=" + strings.Repeat("1+", n) + "1"
	case "if":
		return strings.Repeat("if true {", n) + "1" + strings.Repeat("}", n)
	case "lambda":
		return strings.Repeat("()=>", n) + "1"
	case "index":
		return "a=[0]\na" + strings.Repeat("[0", n) + strings.Repeat("]", n)
	case "maplit":
		return strings.Repeat("{1:", n) + "1" + strings.Repeat("}", n)
	case "call":
		return "func f(x){x}\n" + strings.Repeat("f(", n) + "1" + strings.Repeat(")", n)
	case "stmts":
		return strings.Repeat("x=1\n", n)
	// definitions (never called) of functions whose body nests n levels, each level having a statement that ends in ] or }
	// followed by another statement: the compact printer (SetCacheKey) formats the whole body in one evaluation step
	case "defnest-if":
		return "f=func(){" + strings.Repeat("x=[1] if true {", n) + "x=[1]" + strings.Repeat("}", n) + "}; 1"
	case "defnest-if-after":
		return "f=func(){" + strings.Repeat("if true {", n) + "1" + strings.Repeat("} y=2 ", n) + "}; 1"
	case "defnest-for":
		return "func f(){" + strings.Repeat("m={} for i=2 {", n) + "m" + strings.Repeat("} a=[1][0] ", n) + "}; 1"
	case "defnest-closure":
		return "f=func(){" + strings.Repeat("m={} return func(){", n) + "0" + strings.Repeat("}", n) + "}; 1"
	case "defnest-lambda":
		return "f=" + strings.Repeat("(a)=>{ t=[a] (b)=>{ t ", n) + "1" + strings.Repeat("} }", n) + "; 1"
	case "defnest-index":
		return "func f(a){" + strings.Repeat("a[0] if a[0]==1 { a[1] ", n) + "a" + strings.Repeat("} a[2] ", n) + "}; 1"
	case "defnest-mixed":
		return "f=func(){" + strings.Repeat("x={1:[2]} for true { if false {1} else {2} y=[x] ", n) + "break" + strings.Repeat("} z=3 ", n) + "}; 1"
	case "defnest-called":
		return "f=func(k){" + strings.Repeat("x=[k] if k>0 {", n) + "x=[1]" + strings.Repeat("}", n) + " x}; f(1); f(0)"
	}
	return "1"
}

func readHWM() int64 {
	b, err := os.ReadFile("/proc/self/status")
	if err != nil {
		return -1
	}
	for _, l := range strings.Split(string(b), "\n") {
		if strings.HasPrefix(l, "VmHWM:") {
			f := strings.Fields(l)
			if len(f) >= 2 {
				v, _ := strconv.ParseInt(f[1], 10, 64)
				return v
			}
		}
	}
	return -1
}

func childMain() {
	b, err := os.ReadFile(os.Getenv("C09_SPEC"))
	if err != nil {
		fmt.Println("child: cannot read spec:", err)
		os.Exit(3)
	}
	var sp childSpec
	if err := json.Unmarshal(b, &sp); err != nil {
		fmt.Println("child: bad spec:", err)
		os.Exit(3)
	}
	if sp.ASLimit > 0 {
		_ = syscall.Setrlimit(syscall.RLIMIT_AS, &syscall.Rlimit{Cur: sp.ASLimit, Max: sp.ASLimit})
	}
	if sp.ApiLimit > 0 {
		debug.SetMemoryLimit(sp.ApiLimit)
	}
	log.SetLogLevelQuiet(log.Critical)
	log.SetOutput(io.Discard)
	if err := extensions.Init(&extensions.Config{HasLoad: true, HasSave: true, UnrestrictedIOs: sp.Unrestricted}); err != nil {
		fmt.Println("child: init:", err)
		os.Exit(3)
	}
	if dn, err := os.Open(os.DevNull); err == nil {
		os.Stdin = dn
	}
	src := sp.Src
	if sp.Gen != "" {
		src = genSource(sp.Gen, sp.N)
	}
	o := repl.EvalStringOptions()
	o.MaxDepth = sp.MaxDepth
	o.MaxDuration = time.Duration(sp.DurMs) * time.Millisecond
	o.Compact = sp.Compact
	o.NoReg = sp.NoReg
	loadMs := 0.0
	if sp.AutoState > 0 {
		dir, err := os.MkdirTemp(".", "autostate")
		if err != nil || os.Chdir(dir) != nil {
			fmt.Println("child: cannot create the working directory:", err)
			os.Exit(3)
		}
		so := repl.EvalStringOptions()
		so.AutoSave = true
		var b strings.Builder
		for i := 0; i < 10; i++ {
			fmt.Fprintf(&b, "sv%d = %d:%d\n", i, i, i+sp.AutoState)
		}
		_, serrs, _ := repl.EvalStringWithOption(context.Background(), so, b.String())
		if st, err := os.Stat(repl.AutoSaveFile); err != nil || st.Size() < int64(sp.AutoState) || len(serrs) > 0 {
			fmt.Println("child: saving the state failed:", err, serrs)
			os.Exit(3)
		}
		lo := repl.EvalStringOptions()
		lo.AutoLoad = true
		tl := time.Now()
		_, lerrs, _ := repl.EvalStringWithOption(context.Background(), lo, "len(sv9)")
		loadMs = float64(time.Since(tl).Microseconds()) / 1000
		if len(lerrs) > 0 {
			fmt.Println("child: loading the state failed:", lerrs)
			os.Exit(3)
		}
		o.AutoLoad = true
		sp.DurMs = max(1, int(loadMs*float64(sp.DurPct)/100))
		o.MaxDuration = time.Duration(sp.DurMs) * time.Millisecond
	}
	if sp.AutoStateText != "" {
		dir, err := os.MkdirTemp(".", "hostile")
		if err != nil || os.Chdir(dir) != nil || os.WriteFile(repl.AutoSaveFile, []byte(sp.AutoStateText), 0o644) != nil {
			fmt.Println("child: cannot prepare the saved state:", err)
			os.Exit(3)
		}
		o.AutoLoad = true
	}
	t0 := time.Now()
	ctx := context.Background()
	if sp.CancelMs > 0 {
		o.MaxDuration = 0
		var cancel context.CancelFunc
		ctx, cancel = context.WithCancel(ctx)
		tm := time.AfterFunc(time.Duration(sp.CancelMs)*time.Millisecond, cancel)
		defer tm.Stop()
	}
	res, errs, _ := repl.EvalStringWithOption(ctx, o, src)
	wall := time.Since(t0)
	rep := childReport{WallMs: float64(wall.Microseconds()) / 1000, ResLen: len(res), Res: trunc(res, 64), HWMkB: readHWM(),
		MemLimit: debug.SetMemoryLimit(-1), SrcLen: len(src), LoadMs: loadMs, DurMs: sp.DurMs}
	if sp.KeepOut {
		rep.ResOut = trunc(res, 32<<10)
	}
	for _, e := range errs {
		if len(e) > 160 {
			e = e[:160]
		}
		rep.Errs = append(rep.Errs, e)
	}
	if sp.Gen != "" { // how much of the wall time is the front end alone
		t1 := time.Now()
		func() {
			defer func() { _ = recover() }()
			p := parser.New(lexer.New(src))
			p.ParseProgram()
		}()
		rep.ParseMs = float64(time.Since(t1).Microseconds()) / 1000
	}
	out, _ := json.Marshal(rep)
	fmt.Println("C09REPORT " + string(out))
}

// ---------------------------------------------------------------- parent: running a child
type childResult struct {
	rep      childReport
	ok       bool // report parsed
	exit     int
	killed   bool // hard timeout
	totalMs  float64
	peakkB   int64 // polled by the parent (covers children that die before reporting)
	stderr   string
	overrun  float64 // wall - deadline, ms
	deadline int
	memLimit string
}

var childSeq int

func runChild(c *Ctx, sp childSpec, memLimit string, hardKill time.Duration) childResult {
	childSeq++
	sp.MemLimit = memLimit
	dir := filepath.Join(c.Out, "child")
	_ = os.MkdirAll(dir, 0o755)
	specFile := filepath.Join(dir, fmt.Sprintf("spec%d.json", childSeq))
	b, _ := json.Marshal(sp)
	_ = os.WriteFile(specFile, b, 0o644)
	defer os.Remove(specFile)
	self, _ := os.Executable()
	ctx, cancel := context.WithTimeout(context.Background(), hardKill)
	defer cancel()
	cmd := exec.CommandContext(ctx, self)
	cmd.Env = append(os.Environ(), "C09_CHILD=1", "C09_SPEC="+specFile, "GOTRACEBACK=single")
	if sp.ApiLimit == 0 {
		cmd.Env = append(cmd.Env, "GOMEMLIMIT="+memLimit)
	} else {
		cmd.Env = append(cmd.Env, "GOMEMLIMIT=") // unset: the limit comes from the API call in the child
	}
	cmd.Dir = dir
	var so, se strings.Builder
	cmd.Stdout, cmd.Stderr = &so, &limitedBuf{max: 4000, b: &se}
	t0 := time.Now()
	res := childResult{deadline: sp.DurMs, memLimit: memLimit}
	if err := cmd.Start(); err != nil {
		res.stderr = err.Error()
		res.exit = -1
		return res
	}
	done := make(chan error, 1)
	go func() { done <- cmd.Wait() }()
	tick := time.NewTicker(20 * time.Millisecond)
	defer tick.Stop()
	var werr error
loop:
	for {
		select {
		case werr = <-done:
			break loop
		case <-tick.C:
			if b, err := os.ReadFile(fmt.Sprintf("/proc/%d/status", cmd.Process.Pid)); err == nil {
				for _, l := range strings.Split(string(b), "\n") {
					if strings.HasPrefix(l, "VmHWM:") {
						f := strings.Fields(l)
						if len(f) >= 2 {
							if v, _ := strconv.ParseInt(f[1], 10, 64); v > res.peakkB {
								res.peakkB = v
							}
						}
					}
				}
			}
		}
	}
	res.totalMs = float64(time.Since(t0).Microseconds()) / 1000
	res.killed = ctx.Err() != nil
	res.stderr = se.String()
	if werr != nil {
		if ee, ok := werr.(*exec.ExitError); ok {
			res.exit = ee.ExitCode()
		} else {
			res.exit = -1
		}
	}
	for _, l := range strings.Split(so.String(), "\n") {
		if strings.HasPrefix(l, "C09REPORT ") {
			if json.Unmarshal([]byte(l[10:]), &res.rep) == nil {
				res.ok = true
			}
		}
	}
	if res.rep.HWMkB > res.peakkB {
		res.peakkB = res.rep.HWMkB
	}
	res.overrun = res.rep.WallMs - float64(sp.DurMs)
	if sp.CancelMs > 0 {
		res.overrun = res.rep.WallMs - float64(sp.CancelMs)
	}
	if sp.AutoState > 0 { // the deadline starts after the saved state is loaded
		res.overrun = res.rep.WallMs - res.rep.LoadMs - float64(res.rep.DurMs)
	}
	return res
}

type limitedBuf struct {
	max int
	b   *strings.Builder
}

func (l *limitedBuf) Write(p []byte) (int, error) {
	if l.b.Len() < l.max {
		n := min(len(p), l.max-l.b.Len())
		l.b.Write(p[:n])
	}
	return len(p), nil
}

func deathReason(stderr string) string {
	switch {
	case strings.Contains(stderr, "stack overflow"), strings.Contains(stderr, "stack exceeds"):
		return "stack-overflow"
	case strings.Contains(stderr, "out of memory"), strings.Contains(stderr, "cannot allocate"):
		return "out-of-memory"
	case strings.Contains(stderr, "panic:"):
		return "uncaught-panic"
	}
	return "other"
}

// budget: the thresholds of the direct oracle
const (
	slackMs     = 1500.0 // "deadline plus a small constant": generous because the sandbox is shared
	rssFactor   = 3.0
	rssBasekB   = 96 << 10 // Go runtime, binary, goroutine stacks of a 400-deep recursion
	asLimit     = uint64(6) << 30
	memLimitStr = "200MiB"
	memLimitkB  = 200 << 10
)

var maxOverrun, maxRSSRatio, maxOverrunClean, maxRSSRatioClean float64

// judge one child run; kind is the program family used in signatures
func judge(c *Ctx, kind string, sp childSpec, r childResult, wantGuard string) {
	cs := fmt.Sprintf("CHILD depth=%d dur=%dms cancel=%dms mem=%s api=%d autostate=%d durpct=%d noreg=%v unrestricted=%v compact=%v gen=%s n=%d src=%s", sp.MaxDepth, sp.DurMs, sp.CancelMs, r.memLimit, sp.ApiLimit, sp.AutoState, sp.DurPct, sp.NoReg, sp.Unrestricted, sp.Compact, sp.Gen, sp.N, Hx([]byte(trunc(sp.Src, 400))))
	c.Count("child:" + kind)
	switch {
	case r.killed:
		c.Fail(kind+":hang", cs, fmt.Sprintf("no exit %.0f ms after start (deadline %d ms); killed", r.totalMs, sp.DurMs))
		return
	case r.exit != 0 || !r.ok:
		c.Fail(kind+":process-death:"+deathReason(r.stderr), cs, fmt.Sprintf("exit %d after %.0f ms: %.300s", r.exit, r.totalMs, r.stderr))
		return
	}
	if r.overrun > maxOverrun {
		maxOverrun = r.overrun
	}
	finding := false
	for _, f := range []string{"nested-source-if", "nested-source-lambda", "frontend-huge-parens", "ext-regsub-quadratic", "deep-stack-default-depth"} {
		finding = finding || strings.HasPrefix(kind, f)
	}
	if !finding {
		if r.overrun > maxOverrunClean {
			maxOverrunClean = r.overrun
		}
		if rr := float64(r.peakkB) / float64(memLimitkB); r.memLimit == memLimitStr && rr > maxRSSRatioClean {
			maxRSSRatioClean = rr
		}
	}
	if r.overrun > slackMs {
		lim, how := sp.DurMs, "deadline"
		if sp.CancelMs > 0 {
			lim, how = sp.CancelMs, "cancellation"
		}
		c.Fail(kind+":deadline-overrun", cs, fmt.Sprintf("no return until %.0f ms after a %d ms %s: evaluation took %.0f ms (front end alone %.0f ms, source %d bytes), ended with: %.80s",
			r.overrun, lim, how, r.rep.WallMs, r.rep.ParseMs, r.rep.SrcLen, strings.Join(r.rep.Errs, "|")))
	}
	limitkB := float64(memLimitkB)
	if strings.HasSuffix(r.memLimit, "GiB") {
		g, _ := strconv.Atoi(strings.TrimSuffix(r.memLimit, "GiB"))
		limitkB = float64(g) * 1024 * 1024
	} else if strings.HasSuffix(r.memLimit, "MiB") {
		g, _ := strconv.Atoi(strings.TrimSuffix(r.memLimit, "MiB"))
		limitkB = float64(g) * 1024
	}
	ratio := float64(r.peakkB) / limitkB
	if ratio > maxRSSRatio {
		maxRSSRatio = ratio
	}
	if float64(r.peakkB) > rssFactor*limitkB+float64(rssBasekB) {
		c.Fail(kind+":rss-over", cs, fmt.Sprintf("peak RSS %d kB with GOMEMLIMIT %s", r.peakkB, r.memLimit))
	}
	first := ""
	if len(r.rep.Errs) > 0 {
		first = r.rep.Errs[0]
	}
	got := "none"
	switch {
	case strings.Contains(first, "max depth"):
		got = "depth"
	case strings.Contains(first, "would exceed memory"):
		got = "memory"
	case strings.Contains(first, "context deadline exceeded"), strings.Contains(first, "context canceled"):
		got = "deadline"
	case strings.HasPrefix(first, "panic:"):
		got = "panic"
		c.Fail(kind+":go-panic", cs, first)
	case first != "":
		got = "error"
	}
	c.Count("child-outcome:" + got)
	c.NonTrivial(kind + "|" + got + "|" + strconv.Itoa(sp.MaxDepth) + "|" + strconv.Itoa(sp.DurMs))
	if wantGuard != "" && !strings.Contains(wantGuard, got) {
		c.Fail(kind+":wrong-guard", cs, "expected one of ["+wantGuard+"], got "+got+": "+first)
	}
}

func trunc(s string, n int) string {
	if len(s) > n {
		return s[:n]
	}
	return s
}

// ---------------------------------------------------------------- depth correspondence
// G mirrors Guards.gexpr; kinds: L I P A F N R Y X B M C Z
type G struct {
	K    byte
	A, B *G
	L    []*G
	L2   []*G
}

func enc(g *G) string {
	list := func(l []*G) string {
		var p []string
		for _, x := range l {
			p = append(p, enc(x))
		}
		return "[" + strings.Join(p, ",") + "]"
	}
	switch g.K {
	case 'L':
		return "L"
	case 'I', 'X':
		return string(g.K) + "(" + enc(g.A) + "," + enc(g.B) + ")"
	case 'P', 'A', 'N', 'R':
		return string(g.K) + "(" + enc(g.A) + ")"
	case 'F':
		return "F(" + enc(g.A) + "," + list(g.L) + ")"
	case 'Y', 'B':
		return string(g.K) + list(g.L)
	case 'M':
		var p []string
		for i := 0; i+1 < len(g.L); i += 2 {
			p = append(p, enc(g.L[i])+":"+enc(g.L[i+1]))
		}
		return "M[" + strings.Join(p, ",") + "]"
	case 'C':
		return "C(" + enc(g.A) + "," + list(g.L) + "," + list(g.L2) + ")"
	case 'Z':
		return "Z(" + enc(g.A) + "," + list(g.L) + ")"
	}
	return "?"
}

var leafG = &G{K: 'L'}

// a wrapper takes an int-valued expression (source text + shape) and returns an int-valued one
type ex struct {
	src string
	g   *G
}

func lf(s string) ex { return ex{s, leafG} }

func wrap(r *Rng, e ex, v string) ex {
	switch r.Intn(13) {
	case 0:
		return ex{"1 + (" + e.src + ")", &G{K: 'I', A: leafG, B: e.g}} // parenthesised: + is left associative
	case 1:
		return ex{"(" + e.src + ") * 2", &G{K: 'I', A: e.g, B: leafG}}
	case 2:
		return ex{"-(" + e.src + ")", &G{K: 'P', A: e.g}}
	case 3:
		return ex{"len([" + e.src + "," + v + "])", &G{K: 'B', L: []*G{{K: 'Y', L: []*G{e.g, leafG}}}}}
	case 4:
		return ex{"[" + v + "," + e.src + "][1]", &G{K: 'X', A: &G{K: 'Y', L: []*G{leafG, e.g}}, B: leafG}}
	case 5:
		return ex{"len({1:" + e.src + "})", &G{K: 'B', L: []*G{{K: 'M', L: []*G{leafG, e.g}}}}}
	case 6:
		return ex{"(if 1==1 {" + e.src + "})", &G{K: 'F', A: &G{K: 'I', A: leafG, B: leafG}, L: []*G{e.g}}}
	case 7:
		return ex{"idf(" + e.src + ")", &G{K: 'C', A: leafG, L: []*G{e.g}, L2: []*G{leafG}}}
	case 8:
		return ex{"(" + e.src + ") + (" + v + " - 1)", &G{K: 'I', A: e.g, B: &G{K: 'I', A: leafG, B: leafG}}}
	case 9:
		return ex{"[" + e.src + "][0]", &G{K: 'X', A: &G{K: 'Y', L: []*G{e.g}}, B: leafG}}
	case 10:
		return ex{"idf(1 + (" + e.src + "))", &G{K: 'C', A: leafG, L: []*G{{K: 'I', A: leafG, B: e.g}}, L2: []*G{leafG}}}
	default:
		return e
	}
}

type template struct {
	name   string
	ndefs  int
	src    func(n int) string
	main   *G
	bf, bg []*G
}

func stmtsEnc(l []*G) string {
	var p []string
	for _, x := range l {
		p = append(p, enc(x))
	}
	return "[" + strings.Join(p, ",") + "]"
}

func mkTemplate(r *Rng) template {
	nw := r.Intn(4)
	build := func(call ex, v string) (string, []*G) {
		e := call
		for i := 0; i < nw; i++ {
			e = wrap(r, e, v)
		}
		var stmts []string
		var gs []*G
		if r.Pct(40) { // a statement before the recursive one
			stmts = append(stmts, "y = "+v+" + 1")
			gs = append(gs, &G{K: 'A', A: &G{K: 'I', A: leafG, B: leafG}})
		}
		switch r.Intn(4) {
		case 0:
			stmts = append(stmts, "return "+e.src)
			gs = append(gs, &G{K: 'R', A: e.g})
		case 1:
			stmts = append(stmts, "z = "+e.src, "z")
			gs = append(gs, &G{K: 'A', A: e.g}, leafG)
		default:
			stmts = append(stmts, e.src)
			gs = append(gs, e.g)
		}
		return strings.Join(stmts, "; "), gs
	}
	recArgs := []*G{{K: 'I', A: leafG, B: leafG}}
	switch r.Intn(3) {
	case 0: // simple recursion
		body, gs := build(ex{"f(n-1)", &G{K: 'Z', A: leafG, L: recArgs}}, "n")
		return template{"rec", 2, func(n int) string {
			return fmt.Sprintf("func idf(x){x}\nfunc f(n){ if n<=0 {return 0}; %s }\nf(%d)", body, n)
		}, &G{K: 'Z', A: leafG, L: []*G{leafG}}, gs, gs}
	case 1: // mutual recursion
		bodyF, gf := build(ex{"g(n-1)", &G{K: 'Z', A: leafG, L: recArgs}}, "n")
		bodyG, gg := build(ex{"f(n-1)", &G{K: 'Z', A: leafG, L: recArgs}}, "n")
		return template{"mutual", 3, func(n int) string {
			return fmt.Sprintf("func idf(x){x}\nfunc f(n){ if n<=0 {return 0}; %s }\nfunc g(n){ if n<=0 {return 0}; %s }\nf(%d)", bodyF, bodyG, n)
		}, &G{K: 'Z', A: leafG, L: []*G{leafG}}, gf, gg}
	default: // nested closures: mk(k) returns a lambda that calls mk(k-1)()
		mkCall := func(arg *G) *G { return &G{K: 'C', A: leafG, L: []*G{arg}, L2: []*G{leafG}} }
		body, gs := build(ex{"mk(k-1)()", &G{K: 'Z', A: mkCall(&G{K: 'I', A: leafG, B: leafG}), L: nil}}, "k")
		return template{"closure", 2, func(n int) string {
			return fmt.Sprintf("func idf(x){x}\nfunc mk(k){ func(){ if k<=0 {return 0}; %s } }\nmk(%d)()", body, n)
		}, &G{K: 'Z', A: mkCall(leafG), L: nil}, gs, gs}
	}
}

// outcome of the implementation: "G depth" | "OK" | "ERR ..."
func depthOutcome(src string, limit int) (res string) {
	defer func() {
		if r := recover(); r != nil {
			m := fmt.Sprint(r)
			if strings.HasPrefix(m, "max depth") {
				res = "G depth"
			} else {
				res = "PANIC " + trunc(m, 80)
			}
		}
	}()
	p := parser.New(lexer.New(src))
	prog := p.ParseProgram()
	if len(p.Errors()) > 0 {
		return "NOPARSE " + trunc(p.Errors()[0], 60)
	}
	s := eval.NewState()
	s.Out, s.LogOut, s.NoLog = io.Discard, io.Discard, true
	s.MaxDepth = limit
	o := s.Eval(prog)
	if o.Type() == object.ERROR {
		return "ERR " + trunc(o.Inspect(), 80)
	}
	return "OK"
}

func depthCorrespondence(c *Ctx) {
	nt := 40
	if c.Thorough() {
		nt = 600
	}
	for i := 0; i < nt; i++ {
		t := mkTemplate(c.R)
		ns := []int{0, 1, 2, 3, 5, 8, 13, 21, 34, 55, 89, 120}
		for _, n := range ns {
			if !c.Thorough() && c.R.Pct(50) {
				continue
			}
			src := t.src(n)
			emit := func(limit int) {
				obs := depthOutcome(src, limit)
				c.Eval()
				c.Case(fmt.Sprintf("DEPTH %d %d %s %s %s %d", limit, t.ndefs, enc(t.main), stmtsEnc(t.bf), stmtsEnc(t.bg), n), obs)
				c.Count("depth:" + t.name + ":" + strings.Fields(obs)[0])
				if !strings.HasPrefix(obs, "G depth") && obs != "OK" {
					c.Fail("depth-template:"+strings.Fields(obs)[0], src, obs)
				}
				c.NonTrivial(fmt.Sprintf("%s|%s|%d|%s", t.name, enc(t.bf[len(t.bf)-1]), n, obs))
			}
			// the smallest limit in 10..400 at which the guard no longer fires (the outcome is monotone in the limit)
			lo, hi := 10, 400
			if depthOutcome(src, hi) != "OK" {
				lo = hi + 1
			} else {
				for lo < hi {
					mid := (lo + hi) / 2
					if depthOutcome(src, mid) == "OK" {
						hi = mid
					} else {
						lo = mid + 1
					}
				}
			}
			for _, l := range []int{lo - 2, lo - 1, lo, lo + 1, 10, 400, 10 + c.R.Intn(391)} {
				if l >= 10 && l <= 400 {
					emit(l)
				}
			}
		}
	}
}

// ---------------------------------------------------------------- programs of the child sweep
type prog struct {
	kind string
	src  string
	want string // acceptable first outcome(s), "" = any non-fatal
}

func sweepPrograms() []prog {
	return []prog{
		{"loop-empty", "for true {}", "deadline"},
		{"loop-count", "n=0; for true {n=n+1}", "deadline"},
		{"loop-int", "for 9223372036854775807 {1}", "deadline"},
		{"loop-range", "for i=0:9223372036854775807 {i}", "deadline"},
		{"loop-nested", "for true { for x=[1,2,3] { for i=0:3 { y=x+i } } }", "deadline"},
		{"loop-calls", "func g(a){a+1}; n=0; for true {n=g(n)}", "deadline"},
		{"loop-catch", "for true { catch(1/0); log(1) }", "deadline"},
		{"loop-ext", `for true { split(join(["a","b","c"],","),","); sprintf("%d",1) }`, "deadline"},
		{"sleep", "sleep(30)", "deadline"},
		{"rec-unbounded", "func f(n){f(n+1)}; f(0)", "depth deadline"},
		{"rec-infix", "func f(n){1+f(n+1)}; f(0)", "depth deadline"},
		{"rec-mutual", "func f(n){g(n+1)}; func g(n){1+f(n+1)}; f(0)", "depth deadline"},
		{"rec-closure", "func mk(k){ func(){ 1+mk(k+1)() } }; mk(0)()", "depth deadline"},
		{"rec-self", "(x=>self(x+1))(0)", "depth deadline"},
		{"rec-in-loop", "func f(n){ for true { f(n+1) } }; f(0)", "depth deadline"},
		{"rec-eval", `func f(n){ eval("f(" + str(n+1) + ")") }; f(0)`, "depth deadline"},
		{"repeat-array-huge", "x=[1,2,3]*6148914691236517206", "memory"},
		{"repeat-array-2", "x=[1,2]*4611686018427387904", "memory"},
		{"repeat-array-empty", "x=[]*4611686018427387904; len(x)", "none"},
		{"repeat-string-huge", `x="abc"*6148914691236517206`, "memory"},
		{"repeat-string-big", `x="abcdefgh"*1000000000`, "memory"},
		{"range-huge", "x=0:4611686018427387904", "memory"},
		{"range-big", "x=0:100000000", "memory"},
		{"concat-double-array", "a=[1]; for true {a=a+a}", "memory deadline"},
		{"concat-double-string", `s="ab"; for true {s=s+s}`, "memory deadline"},
		{"concat-hold-strings", `s="ab"*1000000; a=[]; for true {a=a+[s+"x"]}`, "memory deadline"},
		{"append-grow", "a=[]; for true {a=a+1}", "memory deadline"},
		{"map-grow", "m={}; n=0; for true {m[n]=n; n=n+1}", "memory deadline"},
		{"sprintf-double", `s="ab"; for true {s=sprintf("%s%s",s,s)}`, "memory deadline"},
		{"join-double", `a=["abcdefgh"*1000]*200; for true {a=a+[join(a)]}`, "memory deadline"},
		{"image-new-loop", `n=0; for true {image.new(str(n),1024,1024); n=n+1}`, "memory deadline"},
		// code evaluated in a NEW evaluator state (unjson: blank state; macro bodies: per-call state) or re-entering the
		// same one (eval) must inherit deadline, cancellation and depth
		{"blank-state-loop", `unjson("for true {}")`, "deadline"},
		{"blank-state-loop-in-func", `func f(){ unjson("n=0; for true {n=n+1}") }; f()`, "deadline"},
		{"blank-state-rec", `unjson("func g(){g()};g()")`, "depth deadline"},
		{"blank-state-depth-adds", `func f(n){if n==0 {unjson("func g(n){if n>=300 {return n}; g(n+1)}; g(0)")} else {f(n-1)}}; f(300)`, "depth deadline"},
		{"eval-depth-adds", `func f(n){if n==0 {eval("func g(n){if n>=300 {return n}; g(n+1)}; g(0)")} else {f(n-1)}}; f(300)`, "depth deadline"},
		{"eval-loop", `eval("for true {}")`, "deadline"},
		{"macro-body-loop", `m=macro(a){for true {}; quote(1)}; m(1)`, "deadline"},
		{"macro-body-rec", `m=macro(a){func g(){1+g()}; g(); quote(1)}; m(1)`, "depth deadline"},
		{"macro-depth-adds", `m=macro(a){func g(n){if n>=300 {return n}; g(n+1)}; g(0); quote(1)}; func f(n){if n==0 {eval("m(1)")} else {f(n-1)}}; f(300)`, "depth deadline"},
		{"catch-loop", `catch(eval("for true {}")); for true {}`, "deadline"},
		// loop bodies that leave the iteration early
		{"loop-continue", "for true {continue}", "deadline"},
		{"loop-continue-count", "n=0; for true {n++; continue}", "deadline"},
		{"loop-range-continue", "for i=0:(1<<62) {continue}", "deadline"},
		{"loop-int-continue", "for 4611686018427387904 {continue}", "deadline"},
		{"loop-forin-continue", "a=0:3000; for true {for x=a {continue}}", "deadline"},
		{"image-curve-far", `image.new("i",8,8); image.move_to("i",0,0); image.quad_to("i",1e18,1e18,9e18,9e18); 1`, "error deadline"},
	}
}

// ---------------------------------------------------------------- one long-running FINITE program per evaluator path
// Every looping / recursion construct, alone and nested, with a body that contains no other construct that could
// stop it.  Each program terminates by itself after several seconds (sizes calibrated on this sandbox, see
// natural_ms in the thorough evidence); under a 200..400 ms deadline or cancellation it must come back at once with
// the context error.  A guard missing in any single evaluator path therefore shows as
// "<family>:deadline-overrun  no return until N ms after ..." (or :hang), not as a silently slower run.
func boundedFamilies() []prog {
	const arr = "a=0:3600; "   // 3600 elements: nested twice = 1.3e7 body evaluations
	const arr3 = "a=0:240; "   // nested three times = 1.4e7
	const mp = "m={}; for i=0:3000 {m[i]=i}; " // big map, built by a counted loop
	const str = `s="abcdefghij"*90; `          // 900 bytes (Rest of a string copies it: cubic)
	fs := []prog{
		// for-in over an array value (evalForList), bodies without any call or other loop form
		{"forin-array-2", arr + "n=0; for x=a {for y=a {n=n+1}}; n", ""},
		{"forin-array-3", arr3 + "n=0; for x=a {for y=a {for z=a {n=n+1}}}; n", ""},
		{"forin-array-arith", arr + "for x=a {for y=a {(x*3+y)%7-y/5}}", ""},
		{"forin-array-idxassign", arr + "b=[0,0,0]; for x=a {for y=a {b[1]=y}}; b", ""},
		{"forin-array-mapassign", arr + "t={}; for x=a {for y=a {t.k=y}}; t", ""},
		{"forin-array-strconcat", arr + `for x=a {s=""; for y=a {s=s+"x"}}; len(s)`, ""},
		{"forin-array-if", arr + "n=0; for x=a {for y=a {if y%2==0 {n=n+1} else {n=n-1}}}; n", ""},
		{"forin-array-continue", arr + "for x=a {for y=a {if y>=0 {continue}; 1}}", ""},
		{"forin-array-incr", arr + "n=0; for x=a {for y=a {n++}}; n", ""},
		{"forin-array-prefix", arr + "for x=a {for y=a {-y; !true}}", ""},
		{"forin-array-literals", arr + "for x=a {for y=a {[x,y]; {x:y}}}", ""},
		{"forin-array-index", arr + "for x=a {for y=a {a[y]; a[1:3]}}", ""},
		{"forin-array-builtins", arr + "n=0; for x=a {for y=a {n=n+len(a[0:3])+first(a)+len(rest(a[0:4]))}}; n", ""},
		{"forin-array-catch-quote", arr + "for x=a {for y=a {catch(y); quote(y)}}", ""},
		{"forin-array-in-func", "func run(a){n=0; for x=a {for y=a {n=n+1}}; n}; run(0:3600)", ""},
		{"forin-array-in-lambda", "r=(a)=>{n=0; for x=a {for y=a {n=n+1}}; n}; r(0:3600)", ""},
		{"forin-array-macro", arr + "lp=macro(body){quote(for x=a {for y=a {unquote(body)}})}; n=0; lp(n=n+1); n", ""},
		// for-in over a map / a string / mixed
		{"forin-map-2", mp + "n=0; for kv=m {for kw=m {n=n+1}}; n", ""},
		{"forin-map-value", mp + "n=0; for kv=m {for kw=m {n=n+kw.value}}; n", ""},
		{"forin-string-2", str + "n=0; for c=s {for d=s {n=n+1}}; n", ""},
		{"forin-string-concat", str + `for c=s {t=""; for d=s {t=t+d}}; len(t)`, ""},
		{"forin-mixed-3", "a=0:300; " + `s="abcdefghij"*20; ` + "m={}; for i=0:150 {m[i]=i}; n=0; for x=a {for c=s {for kv=m {n=n+1}}}; n", ""},
		// condition loop, counted loops (finite)
		{"forcond-finite", "n=0; for n<14000000 {n=n+1}; n", ""},
		{"forcond-nested", "i=0; for i<3600 {i=i+1; j=0; for j<3600 {j=j+1}}; i", ""},
		{"forcond-with-forin", arr + "k=0; for k<6000 {k=k+1; for y=a {y}}; k", ""},
		{"forN-finite", "n=0; for 14000000 {n=n+1}; n", ""},
		{"forN-nested", "for 12000 {for 12000 {1}}", ""},
		{"forN-empty", "for 14000 {for 14000 {}}", ""},
		{"forrange-empty", "for i=0:15000 {for j=0:15000 {}}", ""},
		{"forin-array-empty", "a=0:7000; for x=a {for y=a {}}", ""},
		{"forin-array-comment", "a=0:7000; for x=a {for y=a { /* nothing */ }}", ""},
		{"forN-continue", "for 9500 {for 9500 {continue}}", ""},
		{"forrange-continue", "for i=0:9000 {for j=0:9000 {continue}}", ""},
		{"forcond-continue", "n=0; for n<18000000 {n++; continue}; n", ""},
		{"forin-continue-bare", "a=0:6000; for x=a {for y=a {continue}}", ""},
		{"forin-map-continue", "m={}; for i=0:3800 {m[i]=i}; for kv=m {for kw=m {continue}}", ""},
		{"forrange-nested", "n=0; for i=0:5000 {for j=0:5000 {n=i+j}}; n", ""},
		{"forrange-forin", arr + "for i=0:6000 {for y=a {i+y}}", ""},
		{"forin-forrange", arr + "for x=a {for j=0:12000 {x+j}}", ""},
		// recursion that is exponential and not memoizable (reads a global), mutual recursion, lambdas
		{"rec-fib-global", "g=0; func fib(n){g; if n<2 {return n}; fib(n-1)+fib(n-2)}; fib(31)", ""},
		{"rec-mutual-global", "g=0; func ev(n){g; if n==0 {return 1}; od(n-1)+od(n-1)}; func od(n){g; if n==0 {return 0}; ev(n-1)+ev(n-1)}; ev(21)", ""},
		{"forin-lambda-call", "g=1; a=0:2200; n=0; for x=a {for y=a {n=(z=>z+g)(y)}}; n", ""},
		{"forrange-closure", "g=1; mk=(k)=>{()=>k+g}; n=0; for i=0:2000 {for j=0:1000 {n=mk(j)()}}; n", ""},
		{"rec-in-forin", "g=0; func dn(n){g; if n<=0 {return 0}; dn(n-1)}; a=0:3000; for x=a {for y=a[0:40] {dn(20)}}", ""},
	}
	// "error": an operator that receives the context error from an operand may report its own error instead
	// (x[l:r] says "range index not integer"); the run still ends at once.  An error BEFORE the deadline would mean
	// the family is broken: checked where the families are run.
	for i := range fs {
		fs[i].want = "deadline error"
	}
	return fs
}

// Loops whose body gives the evaluator nothing to evaluate: empty, comment-only, a single literal, a nested empty loop.
// The only evalInternal entry per iteration is then the body block itself (counted and list loops) or the condition
// (cond loops): the context test must be reached through exactly that entry.  Huge counts, every loop form, top level
// and inside a function, registers on and off, deadline and cancellation.
type emptyLoop struct {
	kind, src string
	inFunc    bool
}

func emptyBodyLoops() []emptyLoop {
	forms := []struct{ name, hdr string }{
		{"count", "for 1000000000000"},
		{"count-var", "for i = 1000000000000"},
		{"range", "for i = 5:4000000000000000000"},
		{"cond", "for true"},
		{"cond-expr", "for 1 < 2"},
		{"list-in-count", "a=[1,2,3]; for 1000000000000 { for x = a BODY }"},
		{"count-in-list", "a=[1,2,3]; for x = a { for j = 1000000000000 BODY }"},
		{"count-in-count", "for i = 1000000000000 { for j = 1000000000000 BODY }"},
	}
	bodies := []struct{ name, b string }{
		{"empty", "{}"}, {"block-comment", "{ /* spin */ }"}, {"line-comment", "{ // spin\n }"}, {"literal", "{1}"},
		{"nested-empty", "{ for 1000000000000 {} }"}, {"nested-empty-var", "{ for k = 1000000000000 {} }"},
	}
	var out []emptyLoop
	for _, f := range forms {
		for _, b := range bodies {
			src := f.hdr + " " + b.b
			if strings.Contains(f.hdr, "BODY") {
				src = strings.Replace(f.hdr, "BODY", b.b, 1)
			}
			out = append(out, emptyLoop{"loop-" + f.name + "-" + b.name, src, false})
			out = append(out, emptyLoop{"loop-" + f.name + "-" + b.name + "-func", "func spin(n){ " + src + "; n }; spin(3)", true})
		}
	}
	return out
}

// Every registered extension (enumerated at run time, so a future one is covered too) called ONCE, then something that
// only a guard can stop: an extension must leave the deadline, the cancellation, the depth limit and the memory budget
// of the evaluation as they were (read() swaps the context when there is a terminal; sleep, eval, unjson, load, save,
// defun touch the context or a nested state).  No terminal, stdin at EOF.
func extCall(name string, e object.Extension) string {
	var args []string
	for i := 0; i < e.MinArgs; i++ {
		t := object.ANY
		if i < len(e.ArgTypes) {
			t = e.ArgTypes[i]
		}
		switch t {
		case object.INTEGER:
			args = append(args, "3")
		case object.FLOAT:
			args = append(args, "0.01")
		case object.STRING:
			args = append(args, `"x1"`)
		case object.ARRAY:
			args = append(args, "[1,2,3]")
		case object.BOOLEAN:
			args = append(args, "true")
		case object.MAP:
			args = append(args, `{"a":1}`)
		case object.FUNC:
			args = append(args, "func(x){x}")
		default:
			args = append(args, "1")
		}
	}
	return "catch(" + name + "(" + strings.Join(args, ",") + "))"
}

var guardTails = []struct{ name, src, want string }{
	{"loop", "for true {}", "deadline"},
	{"rec", "func f9(n){1+f9(n+1)}; f9(0)", "depth deadline"},
	{"alloc", "x9=[1,2,3]*6148914691236517206; len(x9)", "memory"},
}

func extensionsThenGuards(c *Ctx) {
	exts := object.ExtraFunctions()
	names := make([]string, 0, len(exts))
	for n := range exts {
		names = append(names, n)
	}
	sort.Strings(names)
	c.Extra["extensions_enumerated"] = len(names)
	var all []string
	for _, n := range names {
		all = append(all, extCall(n, exts[n]))
	}
	for _, t := range guardTails { // all of them in one program, then the tail
		for _, wrap := range []string{"%s\n%s", "func w9(){ %s }\nw9()\n%s"} {
			sp := childSpec{Src: fmt.Sprintf(wrap, strings.Join(all, "\n"), t.src), MaxDepth: 300, DurMs: 300, ASLimit: asLimit}
			judge(c, "ext-all-then-"+t.name, sp, runChild(c, sp, memLimitStr, 8*time.Second), t.want)
		}
	}
	// each extension alone (quick: the ones known to touch the context, a nested state or to block; thorough: all)
	known := map[string]bool{"read": true, "sleep": true, "eval": true, "unjson": true, "load": true, "save": true, "defun": true, "eof": true, "time.now": true}
	for i, n := range names {
		for ti, t := range guardTails {
			if !c.Thorough() && !(known[n] && ti == i%len(guardTails) || n == "read") {
				continue
			}
			src := "r9 = " + extCall(n, exts[n]) + "\n" + t.src
			sp := childSpec{Src: src, MaxDepth: 300, DurMs: 200, ASLimit: asLimit}
			judge(c, "ext-then-"+t.name+":"+n, sp, runChild(c, sp, memLimitStr, 8*time.Second), t.want)
			if c.Thorough() && ti == 0 {
				sp = childSpec{Src: src, MaxDepth: 300, CancelMs: 150, ASLimit: asLimit}
				judge(c, "ext-then-"+t.name+":"+n, sp, runChild(c, sp, memLimitStr, 8*time.Second), t.want)
			}
		}
	}
}

// Every registered extension (enumerated at run time) called with the LARGEST arguments the budget admits: arrays of 12M
// elements, strings of 8 MB, arrays of 2M strings (built by `*`), under a short deadline.  An extension callback is one evaluation step: the
// context is not looked at while it runs, so its own run time is the overrun.  Baseline = the same program without the
// call (operand construction only), so a slow machine does not alarm.
const largePrelude = "big = [5,3,9,1,7,2,8,6]*1500000\nsb = \"abcdefgh\"*1000000\nbs = [\"ab\",\"c\"]*1000000\n" +
	// warm-up: the first allocation of a result as large as `big` pays for fresh pages (about 1 s per 200 MB here), which is
	// not the extension's doing; after it the heap has them
	"w9 = big + [0]\nw9 = nil\nw9 = big + [0]\nw9 = nil\n"

func extLargeCall(name string, e object.Extension) string {
	n := max(e.MinArgs, 1) // all declared arguments, optional ones included (json_go's indent, regexp's flag ...)
	if e.MaxArgs >= 0 {
		n = e.MaxArgs
	}
	var args []string
	for i := 0; i < n; i++ {
		t := object.ANY
		if i < len(e.ArgTypes) {
			t = e.ArgTypes[i]
		}
		switch t {
		case object.INTEGER:
			args = append(args, "3")
		case object.FLOAT:
			args = append(args, "0.01")
		case object.STRING:
			args = append(args, "sb")
		case object.ARRAY:
			if name == "join" || name == "defun" {
				args = append(args, "bs")
			} else {
				args = append(args, "big")
			}
		case object.BOOLEAN:
			args = append(args, "true")
		case object.MAP:
			args = append(args, `{"a":big}`)
		case object.FUNC:
			args = append(args, "func(x){x}")
		default:
			args = append(args, "big")
		}
	}
	return "r9 = catch(" + name + "(" + strings.Join(args, ",") + "))\n1"
}

const largeMem = "1GiB"

// reference step: a guarded copy of the 12M-element operand by the evaluator itself (array + element), timed like the
// extension calls and reported in the evidence (ext_large_ref_ms) as a measure of the machine's speed during the run
const refStep = "t0 = time.now()\nw9 = big + 0\nprintln(\"EXTDUR\", \"__ref\", time.now() - t0)\nw9 = nil\n"

func extensionsLargeArgs(c *Ctx) {
	exts := object.ExtraFunctions()
	names := make([]string, 0, len(exts))
	// recorded findings (known_findings.json, ext-large:<name>:*): with operands this large these never come back in
	// reasonable time on the unchanged tree; they would block the batch, so they only run alone, in the thorough tier
	knownSlow := map[string]bool{"regexp": true, "regsub": true, "json_go": true, "defun": true}
	var slowAlone []string
	for n := range exts {
		if n == "sleep" || n == "read" { // their duration is their argument / the input: covered by extensionsThenGuards
			continue
		}
		if knownSlow[n] {
			slowAlone = append(slowAlone, n)
			continue
		}
		names = append(names, n)
	}
	sort.Strings(names)
	sort.Strings(slowAlone)
	// (1) one child: every extension called once on the large operands, each call timed from inside the program.  An
	//     extension call is a single uninterruptible step, so its duration IS the worst overrun it can cause.
	durs := map[string]float64{}
	refused := []string{}
	for start := 0; start < len(names); { // a memory-guard panic inside one call ends the program: resume after it
		var b strings.Builder
		b.WriteString(largePrelude)
		b.WriteString(refStep)
		for _, n := range names[start:] {
			call := strings.TrimSuffix(extLargeCall(n, exts[n]), "\n1")
			fmt.Fprintf(&b, "t0 = time.now()\n%s\nprintln(\"EXTDUR\", %q, time.now() - t0)\nr9 = nil\n", call, n)
		}
		b.WriteString("1")
		sp := childSpec{Src: b.String(), MaxDepth: 300, DurMs: 120000, ASLimit: asLimit, KeepOut: true}
		r := runChild(c, sp, largeMem, 150*time.Second)
		judge(c, "ext-large-all", sp, r, "none memory")
		seen := 0
		for _, l := range strings.Split(r.rep.ResOut, "\n") {
			f := strings.Fields(l)
			if len(f) == 3 && f[0] == "EXTDUR" {
				d, _ := strconv.ParseFloat(f[2], 64)
				name := strings.Trim(f[1], "\"")
				durs[name] = d * 1000
				if name != "__ref" {
					seen++
				}
			}
		}
		if !r.ok {
			break
		}
		if start+seen >= len(names) {
			break
		}
		refused = append(refused, names[start+seen]) // the call that did not come back (memory guard: a legitimate refusal)
		start += seen + 1
	}
	c.Extra["ext_large_step_ms"] = durs
	c.Extra["ext_large_refused_by_memory_guard"] = refused
	if len(durs)-1+len(refused) != len(names) { // (durs still holds the reference step here)
		c.Fail("ext-large-all:incomplete", "all extensions on large operands", fmt.Sprintf("%d timed + %d refused of %d", len(durs), len(refused), len(names)))
	}
	stepBound := slackMs // the reference copy is reported, not used: the minimum of several samples is what absorbs load
	c.Extra["ext_large_ref_ms"] = durs["__ref"]
	c.Extra["ext_large_step_bound_ms"] = stepBound
	delete(durs, "__ref")
	var slow []string
	for _, n := range names {
		if durs[n] > stepBound {
			slow = append(slow, n)
		}
	}
	// (2) those whose single step is longer than the slack are measured again, alone (GC noise of the batch removed); the
	//     smaller of the two samples is the step time.  Thorough: every extension alone as well, and the recorded findings.
	timedAlone := func(n string, kill time.Duration) (float64, childSpec, childResult) {
		call := strings.TrimSuffix(extLargeCall(n, exts[n]), "\n1")
		src := largePrelude + refStep + "t0 = time.now()\n" + call + "\nprintln(\"EXTDUR\", \"" + n + "\", time.now() - t0)\n1"
		sp := childSpec{Src: src, MaxDepth: 300, DurMs: 120000, ASLimit: asLimit, KeepOut: true}
		r := runChild(c, sp, largeMem, kill)
		d, ref := -1.0, 0.0
		for _, l := range strings.Split(r.rep.ResOut, "\n") {
			if f := strings.Fields(l); len(f) == 3 && f[0] == "EXTDUR" {
				v, _ := strconv.ParseFloat(f[2], 64)
				if f[1] == "\"__ref\"" {
					ref = v * 1000
				} else {
					d = v * 1000
				}
			}
		}
		_ = ref
		return d, sp, r
	}
	alone := slow
	if c.Thorough() {
		alone = append(append([]string{}, names...), slowAlone...)
	}
	final := map[string]float64{}
	for _, n := range alone {
		kill := 60 * time.Second
		if knownSlow[n] {
			kill = 12 * time.Second
		}
		d, sp, r := timedAlone(n, kill)
		judge(c, "ext-large:"+n, sp, r, "none memory")
		if d < 0 {
			continue // no timing: killed or refused, judged above
		}
		if b, ok := durs[n]; ok && b < d {
			d = b
		}
		for try := 0; try < 3 && d > stepBound && !knownSlow[n]; try++ { // a loaded sandbox: the smallest of up to five samples counts
			if d2, _, r2 := timedAlone(n, kill); r2.ok && d2 >= 0 && d2 < d {
				d = d2
			}
		}
		final[n] = d
		if d > stepBound {
			c.Fail("ext-large:"+n+":step-overrun", fmt.Sprintf("CHILD depth=300 dur=120000ms cancel=0ms mem=%s api=0 autostate=0 durpct=0 noreg=false compact=false gen= n=0 src=%s", largeMem, Hx([]byte(sp.Src))),
				fmt.Sprintf("one call of %s on the large operands is an uninterruptible step of %.0f ms (bound %.0f ms, smallest of up to five samples): a deadline that fires at its start is overrun by that much", n, d, stepBound))
		}
	}
	c.Extra["ext_large_step_ms_confirmed"] = final
}

// Items reported by a reviewer on the unchanged tree (round 8): each reproduced by a family, then repaired or recorded.
func reviewerItems(c *Ctx) {
	// error objects made while a deep recursion unwinds: every level catches, so every level makes a new context error
	sp := childSpec{Src: "func f(n){catch(f(n+1)); 1}; f(0)", MaxDepth: 0, DurMs: 50}
	judge(c, "deep-stack-catch", sp, runChild(c, sp, "4GiB", 40*time.Second), "deadline depth")
	// a recursive function with a very long body: what is held per level, and what an error costs
	body := strings.Repeat("x=1; ", 5000)
	sp = childSpec{Src: "func f(n){ " + body + " f(n+1) }; f(0)", MaxDepth: 2000, DurMs: 1000, ASLimit: asLimit}
	judge(c, "rec-big-body", sp, runChild(c, sp, memLimitStr, 40*time.Second), "deadline depth")
	// strings grown through extensions
	for _, p := range []prog{
		{"ext-grow-base64", `s="ab"*1000; for true {s=base64(s)}`, "memory deadline"},
		{"ext-grow-json", `s="ab"*1000; for true {s=json(s)}`, "memory deadline"},
		{"ext-grow-json-array", `a=["ab"*1000]; for true {a=[json(a)]}`, "memory deadline"},
	} {
		sp = childSpec{Src: p.src, MaxDepth: 400, DurMs: 500, ASLimit: asLimit}
		judge(c, p.kind, sp, runChild(c, sp, memLimitStr, 20*time.Second), p.want)
	}
	// run / exec (unrestricted IO mode), no terminal: the command must not take the deadline away
	for _, p := range []prog{
		{"run-then-loop", "run(\"true\")\nfor true {}", "deadline"},
		{"exec-then-loop", "exec(\"true\")\nfor true {}", "deadline"},
		{"run-fails-then-loop", "catch(run(\"/nonexistent/cmd\"))\nfor true {}", "deadline"},
		{"run-bad-arg-then-loop", "catch(run(\"true\", 1))\nfor true {}", "deadline"},
	} {
		sp = childSpec{Src: p.src, MaxDepth: 400, DurMs: 300, ASLimit: asLimit, Unrestricted: true}
		judge(c, p.kind, sp, runChild(c, sp, memLimitStr, 8*time.Second), p.want)
	}
	// output is buffered per call (for the memo cache) and copied into the caller's buffer on return: a deep recursion that
	// prints copies everything printed so far at every level while it unwinds
	if c.Thorough() {
		sp = childSpec{Src: "func f(n){println(n); f(n+1)}; f(0)", MaxDepth: 0, DurMs: 500}
		judge(c, "rec-println-unwind", sp, runChild(c, sp, "4GiB", 60*time.Second), "deadline depth")
		// 4M nested parentheses: the recursive-descent parser itself exhausts the Go stack (same family as frontend-huge-parens)
		sp = childSpec{Gen: "parens", N: 4000000, MaxDepth: 100, DurMs: 50}
		judge(c, "frontend-huge-parens", sp, runChild(c, sp, "4GiB", 120*time.Second), "")
		sp = childSpec{Src: `eval("` + strings.Repeat("(", 4000000) + "1" + strings.Repeat(")", 4000000) + `")`, MaxDepth: 100, DurMs: 50}
		judge(c, "frontend-huge-parens", sp, runChild(c, sp, "4GiB", 120*time.Second), "")
		// a saved state is evaluated line by line BEFORE the evaluation context exists and outside any recover
		sp = childSpec{Src: "1", MaxDepth: 400, DurMs: 200, ASLimit: asLimit, AutoStateText: "x=1\nfor true {}\n"}
		judge(c, "autoload-hostile-loop", sp, runChild(c, sp, memLimitStr, 8*time.Second), "")
		sp = childSpec{Src: "1", MaxDepth: 400, DurMs: 200, ASLimit: asLimit, AutoStateText: "func g(){g()}\ng()\n"}
		judge(c, "autoload-hostile-rec", sp, runChild(c, sp, memLimitStr, 30*time.Second), "")
	}
}

// Growing operators in their ASYMMETRIC shapes under a small budget (GOMEMLIMIT=128MiB): a huge operand on one side and a
// tiny one on the other, the results kept alive in a container or along a recursion.  The budget check is on the RESULT,
// whatever the operand sizes: every program must end in the memory guard (or the depth guard / deadline for the
// recursions) with a peak RSS inside the usual bound.
func asymmetricGrowth(c *Ctx) {
	const small = "128MiB"
	n := 12
	if c.Thorough() {
		n = 200
	}
	keep := func(pre, expr string) string {
		return fmt.Sprintf("%s; a=[]; for %d {a = a + [%s]}; len(a)", pre, n, expr)
	}
	bigS := `s="a"*30000000`
	bigA := `b=[0]*2000000`
	bigM := `m={}; for i=0:300000 {m[i]=i}`
	progs := []prog{
		{"asym-string-plus-left", keep(bigS, `s+"x"`), "memory"},
		{"asym-string-plus-right", keep(bigS, `"x"+s`), "memory"},
		{"asym-string-plus-empty", keep(bigS, `s+""`), "memory deadline none"},
		{"asym-string-plus-4096", keep(bigS, `s+("y"*4096)`), "memory"},
		{"asym-string-plus-4097", keep(bigS, `s+("y"*4097)`), "memory"},
		{"asym-string-times-1", keep(bigS, `(s+"x")*1`), "memory"},
		{"asym-string-times-fresh", keep("1", `"a"*30000000`), "memory"},
		{"asym-string-rec", bigS + `; func f(t){f(t+"x")}; f(s)`, "memory depth"},
		{"asym-string-rec-right", bigS + `; func f(t){f("x"+t)}; f(s)`, "memory depth"},
		{"asym-string-sprintf", keep(bigS, `sprintf("%sx", s)`), "memory"},
		{"asym-string-join", keep(bigS, `join([s,"x"])`), "memory"},
		{"asym-array-plus-elem", keep(bigA, `b+1`), "memory"},
		{"asym-array-plus-small", keep(bigA, `b+[1]`), "memory"},
		{"asym-array-small-plus", keep(bigA, `[1]+b`), "memory"},
		{"asym-array-plus-empty", keep(bigA, `b+[]`), "memory deadline none"},
		{"asym-array-times-1", keep(bigA, `(b+[1])*1`), "memory"},
		{"asym-array-times-fresh", keep("1", `[0]*2000000`), "memory"},
		{"asym-array-rec", bigA + `; func f(t){f(t+1)}; f(b)`, "memory depth"},
		{"asym-array-slice", keep(bigA, `b[1:]+[1]`), "memory"},
		{"asym-array-range", keep("1", `0:2000000`), "memory"},
		{"asym-map-plus-small", keep(bigM, `m+{"k":1}`), "memory deadline"},
		{"asym-map-small-plus", keep(bigM, `{"k":1}+m`), "memory deadline"},
		{"asym-map-assign", bigM + fmt.Sprintf(`; a=[]; for j=%d {m[-j-1]=j; a=a+[m]}; len(a)`, n), "memory deadline none"},
	}
	quick := map[string]bool{"asym-string-plus-left": true, "asym-string-plus-right": true, "asym-string-plus-4096": true, "asym-string-rec": true,
		"asym-string-sprintf": true, "asym-array-plus-elem": true, "asym-array-small-plus": true, "asym-array-rec": true, "asym-map-plus-small": true}
	for _, p := range progs {
		if !c.Thorough() && !quick[p.kind] {
			continue
		}
		sp := childSpec{Src: p.src, MaxDepth: 300, DurMs: 8000, ASLimit: asLimit}
		judge(c, p.kind, sp, runChild(c, sp, small, 25*time.Second), p.want)
	}
}

type cfg struct {
	depth, durMs int
}

func runC09(c *Ctx) {
	c.Rule = "child processes: program family x (MaxDepth, MaxDuration) under GOMEMLIMIT=200MiB; non-trivial = distinct (family, guard " +
		"that ended the run, depth limit, deadline); depth correspondence: recursion templates x recursion counts x limits around the " +
		"observed threshold and at 10 / 400 / random"
	log.SetLogLevelQuiet(log.Critical)
	log.SetOutput(io.Discard)
	if err := extensions.Init(&extensions.Config{HasLoad: true, HasSave: true}); err != nil {
		panic(err)
	}
	if c.ReplayCase != "" {
		replay(c)
		return
	}
	if os.Getenv("C09_CALIBRATE") != "" { // maintenance aid: natural run time of every bounded family (no check)
		for _, p := range boundedFamilies() {
			sp := childSpec{Src: p.src, MaxDepth: 400, DurMs: 60000, ASLimit: asLimit}
			r := runChild(c, sp, memLimitStr, 90*time.Second)
			fmt.Printf("calibrate %-28s wall=%8.0f ms peak=%7d kB exit=%d res=%.20q errs=%.80v\n", p.kind, r.rep.WallMs, r.peakkB, r.exit, r.rep.Res, r.rep.Errs)
		}
		return
	}
	// 1. corpus: the witnesses of the defects of the pinned tree (repaired), then the recorded findings
	for _, p := range []prog{
		{"repeat-array-huge", "x=[1,2,3]*6148914691236517206", "memory"},
		{"repeat-array-empty", "x=[]*4611686018427387904; len(x)", "none"},
		{"image-new-loop", `n=0; for true {image.new(str(n),1024,1024); n=n+1}`, "memory deadline"},
	} {
		sp := childSpec{Src: p.src, MaxDepth: 150, DurMs: 1000, ASLimit: asLimit}
		judge(c, p.kind, sp, runChild(c, sp, memLimitStr, 12*time.Second), p.want)
	}
	knownFindings(c)
	defaultDepth(c)
	reviewerItems(c)

	// 2. depth correspondence
	depthCorrespondence(c)

	// 3. size guard correspondence under a real memory limit (operands far from the boundary)
	for _, sc := range []struct {
		line, src string
	}{
		{"REP A 3 6148914691236517206 209715200", "x=[1,2,3]*6148914691236517206; len(x)"},
		{"REP A 3 100 209715200", "x=[1,2,3]*100; len(x)"},
		{"REP A 2 4611686018427387904 209715200", "x=[1,2]*4611686018427387904; len(x)"},
		{"REP A 0 4611686018427387904 209715200", "x=[]*4611686018427387904; len(x)"},
		{"REP S 3 6148914691236517206 209715200", `x="abc"*6148914691236517206; len(x)`},
		{"REP S 8 1000000000 209715200", `x="abcdefgh"*1000000000; len(x)`},
		{"REP S 8 100 209715200", `x="abcdefgh"*100; len(x)`},
		{"RANGE 0 4611686018427387904 209715200", "x=0:4611686018427387904; len(x)"},
		{"RANGE 0 100000000 209715200", "x=0:100000000; len(x)"},
		{"RANGE -5 250 209715200", "x=(-5):250; len(x)"},
		{"RANGE 9223372036854775807 -2 209715200", "x=9223372036854775807:(-2); len(x)"},
		{"CONCAT 9 300 209715200", "x=(0:9)+(0:300); len(x)"},
	} {
		sp := childSpec{Src: sc.src, MaxDepth: 150, DurMs: 2000, ASLimit: asLimit}
		r := runChild(c, sp, memLimitStr, 15*time.Second)
		judge(c, "size-guard", sp, r, "")
		obs := "?"
		if r.ok {
			first := ""
			if len(r.rep.Errs) > 0 {
				first = r.rep.Errs[0]
			}
			switch {
			case strings.Contains(first, "would exceed memory"):
				obs = "G memory"
			case first != "":
				obs = "E"
			default:
				obs = "V " + strings.TrimSpace(lastLine(r))
			}
		}
		c.Case(sc.line, obs)
	}

	// 3b. the same budget when the limit is set through the API (debug.SetMemoryLimit in the embedding program) and
	//     GOMEMLIMIT is absent from the environment: FreeMemory must see the limit in force NOW
	for _, p := range []prog{
		{"api-limit-repeat-string", `x="abcdefgh"*1000000000; len(x)`, "memory"},
		{"api-limit-repeat-array", "x=[1,2,3]*100000000; len(x)", "memory"},
		{"api-limit-range", "x=0:100000000; len(x)", "memory"},
		{"api-limit-double-string", `s="ab"; for true {s=s+s}`, "memory deadline"},
		{"api-limit-double-array", "a=[1]; for true {a=a+a}", "memory deadline"},
		{"api-limit-small-ok", "x=[1,2,3]*1000; len(x)", "none"},
	} {
		sp := childSpec{Src: p.src, MaxDepth: 150, DurMs: 1500, ASLimit: asLimit, ApiLimit: 200 << 20}
		judge(c, p.kind, sp, runChild(c, sp, memLimitStr, 20*time.Second), p.want)
	}

	// 3c. the EvalStringWithOption entry point with AutoLoad of a large saved state in the working directory: the
	//     deadline must hold whether MaxDuration is much smaller than, equal to, or slightly larger than the load time
	for _, p := range []prog{
		{"autoload-loop", "n=0; for true {n=n+1}", "deadline"},
		{"autoload-loop-empty", "for true {}", "deadline"},
		{"autoload-rec", "func f(n){f(n+1)}; f(0)", "depth deadline"},
	} {
		if p.kind == "autoload-rec" && !c.Thorough() {
			continue
		}
		pcts := []int{2, 100}
		if p.kind == "autoload-loop-empty" {
			pcts = []int{130}
		}
		if c.Thorough() {
			pcts = []int{1, 2, 10, 50, 90, 100, 101, 110, 130, 300}
		}
		for _, pct := range pcts {
			sp := childSpec{Src: p.src, MaxDepth: 400, AutoState: 20000, DurPct: pct, ASLimit: asLimit}
			r := runChild(c, sp, memLimitStr, 20*time.Second)
			judge(c, p.kind, sp, r, p.want)
			if r.ok {
				c.Extra["autoload_ms"] = r.rep.LoadMs
			}
		}
	}

	// 3d. growing operators, asymmetric operands, results kept alive, small budget
	asymmetricGrowth(c)

	// 4. child sweep
	cfgs := []cfg{{10, 1}, {150, 60}, {400, 200}}
	if c.Thorough() {
		cfgs = []cfg{{10, 1}, {10, 1000}, {25, 5}, {50, 20}, {100, 50}, {150, 100}, {200, 200}, {300, 500}, {400, 1000}, {1000, 300}, {20000, 1000}}
	}
	for pi, p := range sweepPrograms() {
		for ci, cf := range cfgs {
			if !c.Thorough() && ci == 1 && pi%3 != 0 {
				continue // quick: the middle configuration only for every third family (repetition, not a family, dropped)
			}
			if strings.HasSuffix(p.kind, "-depth-adds") && cf.depth > 400 {
				continue // 300 + 300 nested levels: only limits below 600 make the guard the expected outcome
			}
			sp := childSpec{Src: p.src, MaxDepth: cf.depth, DurMs: cf.durMs, ASLimit: asLimit}
			judge(c, p.kind, sp, runChild(c, sp, memLimitStr, time.Duration(cf.durMs)*time.Millisecond+12*time.Second), p.want)
		}
	}
	// cancellation instants: the same long-running programs under a sweep of deadlines
	durs := []int{1, 3, 8, 21, 55, 144}
	if c.Thorough() {
		durs = nil
		for d := 1; d <= 1000; d = d*5/4 + 1 {
			durs = append(durs, d)
		}
	}
	for _, src := range []prog{
		{"cancel-sweep", "func g(a){ if a>3 {return a}; g(a+1) }; m={}; n=0; for true { n=n+1; m[n%50]=[g(0),str(n)]; for x=m { y=x } }", "deadline"},
		{"cancel-sweep-rec", "func f(n){ if n%2==0 { f(n+1) } else { 1+f(n+1) } }; f(0)", "depth deadline"},
	} {
		for _, d := range durs {
			sp := childSpec{Src: src.src, MaxDepth: 400, DurMs: d, ASLimit: asLimit}
			judge(c, src.kind, sp, runChild(c, sp, memLimitStr, time.Duration(d)*time.Millisecond+12*time.Second), src.want)
		}
	}
	// every registered extension once, then a loop / recursion / allocation that only a guard stops
	extensionsThenGuards(c)

	// every registered extension with the largest arguments the budget admits
	extensionsLargeArgs(c)

	// loops with nothing to evaluate in the body: every form x body, alternating registers on / off and deadline / cancellation
	//   (quick: each (form, body) once, placement and options rotating; thorough: everything)
	for i, el := range emptyBodyLoops() {
		variants := []childSpec{
			{Src: el.src, MaxDepth: 100, DurMs: 100, ASLimit: asLimit},
			{Src: el.src, MaxDepth: 100, DurMs: 100, ASLimit: asLimit, NoReg: true},
			{Src: el.src, MaxDepth: 100, CancelMs: 100, ASLimit: asLimit},
			{Src: el.src, MaxDepth: 100, CancelMs: 100, ASLimit: asLimit, NoReg: true},
		}
		for vi, sp := range variants {
			if !c.Thorough() && (el.inFunc != ((i/2)%2 == 0) || vi != (i/2)%4) {
				continue
			}
			judge(c, el.kind, sp, runChild(c, sp, memLimitStr, 8*time.Second), "deadline")
		}
	}
	// one finite long-running program per evaluator path: deadline and external cancellation
	fams := boundedFamilies()
	for fi, p := range fams {
		dur := 200 + 100*(fi%3)
		if !c.Thorough() {
			dur = 120 + 40*(fi%3)
		}
		sp := childSpec{Src: p.src, MaxDepth: 400, DurMs: dur, ASLimit: asLimit}
		early := func(r childResult, limit int) {
			if r.ok && r.rep.WallMs < 0.5*float64(limit) {
				c.Fail("harness:family-ends-early:"+p.kind, p.src, fmt.Sprintf("ended after %.0f ms, before the %d ms limit: %v", r.rep.WallMs, limit, r.rep.Errs))
			}
		}
		r := runChild(c, sp, memLimitStr, 25*time.Second)
		judge(c, p.kind, sp, r, p.want)
		early(r, dur)
		if c.Thorough() || fi%3 == 0 {
			sp = childSpec{Src: p.src, MaxDepth: 400, CancelMs: 150 + 50*(fi%4), ASLimit: asLimit}
			r = runChild(c, sp, memLimitStr, 25*time.Second)
			judge(c, p.kind, sp, r, p.want)
			early(r, sp.CancelMs)
		}
		if c.Thorough() { // calibration: how long the program runs when nothing stops it (must be well above deadline + slack)
			sp = childSpec{Src: p.src, MaxDepth: 400, DurMs: 40000, ASLimit: asLimit}
			r := runChild(c, sp, memLimitStr, 60*time.Second)
			if r.ok {
				c.Extra["natural_ms_"+p.kind] = r.rep.WallMs
				if len(r.rep.Errs) > 0 && !strings.Contains(r.rep.Errs[0], "context") {
					c.Fail("harness:family-errors:"+p.kind, p.src, r.rep.Errs[0])
				}
				if r.rep.WallMs < 2.5*slackMs {
					c.Count("calibration:too-fast:" + p.kind)
				}
			}
		}
	}
	c.Extra["bounded_families"] = len(fams)
	// definitions of functions with deeply nested bodies (10..30 levels): defining (and formatting the cache key of) a
	// function is one evaluation step, its cost must stay negligible whatever the nesting
	defLevels := []int{12, 20, 26}
	if c.Thorough() {
		defLevels = []int{10, 14, 18, 22, 26, 30}
	}
	for _, g := range []string{"defnest-if", "defnest-if-after", "defnest-for", "defnest-closure", "defnest-lambda", "defnest-index", "defnest-mixed", "defnest-called"} {
		for li, n := range defLevels {
			sp := childSpec{Gen: g, N: n, MaxDepth: 1000, DurMs: 200, ASLimit: asLimit, Compact: li%2 == 1}
			judge(c, g, sp, runChild(c, sp, memLimitStr, 10*time.Second), "none") // no error at all: a definition is instantaneous
		}
	}
	// deeply nested source text: sizes that the front end and the evaluator handle
	depths := []int{1000, 5000}
	if c.Thorough() {
		depths = []int{1000, 5000, 20000, 100000}
	}
	for _, g := range []string{"parens", "brackets", "minus", "bang", "sum", "if", "lambda", "index", "maplit", "call", "stmts"} {
		for _, n := range depths {
			sp := childSpec{Gen: g, N: n, MaxDepth: 400, DurMs: 200, ASLimit: asLimit}
			r := runChild(c, sp, memLimitStr, 40*time.Second)
			judge(c, "nested-source-"+g, sp, r, "")
			if r.ok {
				c.Extra[fmt.Sprintf("nested_%s_%d_wall_ms", g, n)] = r.rep.WallMs
			}
		}
	}
	c.Extra["max_deadline_overrun_ms"] = maxOverrun
	c.Extra["max_rss_over_limit_ratio"] = maxRSSRatio
	c.Extra["max_deadline_overrun_ms_outside_finding_families"] = maxOverrunClean
	c.Extra["max_rss_over_limit_ratio_outside_finding_families"] = maxRSSRatioClean
	c.Extra["children"] = childSeq
	c.Extra["slack_ms"] = slackMs
	c.Extra["rss_rule"] = fmt.Sprintf("peak RSS <= %.0f x GOMEMLIMIT + %d kB", rssFactor, rssBasekB)
	c.Evals += childSeq
}

func lastLine(r childResult) string { return r.rep.Res }

// the findings recorded in known_findings.json (not repaired: design level), reproduced first
func knownFindings(c *Ctx) {
	// (a) statement / block nesting is not counted by the depth guard: Go stack overflow kills the process
	//     (compact formatting, otherwise (b') strikes first)
	// (the deadline must outlast parsing and printing, else the very first evalInternal already returns the context error)
	sp := childSpec{Gen: "if", N: 400000, MaxDepth: 100, DurMs: 20000, Compact: true}
	judge(c, "nested-source-if-compact", sp, runChild(c, sp, "4GiB", 60*time.Second), "")
	// (b) the deadline does not cover the front end: a few MB of nested text take seconds to parse, on a Go
	//     stack of hundreds of MB that no guard accounts for
	sp = childSpec{Gen: "parens", N: 1500000, MaxDepth: 100, DurMs: 50}
	judge(c, "frontend-huge-parens", sp, runChild(c, sp, "4GiB", 60*time.Second), "")
	// (b') EvalOne always formats the program; nested blocks are indented, so the text is quadratic in the nesting depth
	sp = childSpec{Gen: "if", N: 12000, MaxDepth: 100, DurMs: 100, ASLimit: asLimit}
	judge(c, "nested-source-if", sp, runChild(c, sp, memLimitStr, 60*time.Second), "")
	// (c) regsub output is quadratic, unchecked and uninterruptible
	sp = childSpec{Src: `s="ab"*12000; regsub(".",s,s); 1`, MaxDepth: 100, DurMs: 100, ASLimit: asLimit}
	judge(c, "ext-regsub-quadratic", sp, runChild(c, sp, memLimitStr, 30*time.Second), "")
	if c.Thorough() {
		// (d) error construction walks (and prints) the whole call stack: at the default depth limit the
		// return after the deadline takes seconds
		sp = childSpec{Src: "func f(n){f(n+1)}; f(0)", MaxDepth: 150000, DurMs: 3000}
		judge(c, "deep-stack-default-depth", sp, runChild(c, sp, memLimitStr, 120*time.Second), "")
	}
}

// Recursion at the DEFAULT depth limit (MaxDepth = 0 in the options -> eval.DefaultMaxDepth = 150000).  Only State.Eval
// counts depth; when each recursion level also passes through a direct evalInternal call (array element, loop body, call
// argument, if branch, return operand, builtin argument) it uses more Go stack per counted level and the 1 GB Go stack
// limit is hit before the guard: a fatal error instead of the recoverable panic.  Two families of kinds so that the
// recorded finding stays narrow: "default-depth-direct-<shape>" (known finding) and "default-depth-eval-<shape>"
// (every frame of the level is a counted Eval: the guard must fire; a stack overflow there is a new defect).
func defaultDepthShapes(thorough bool) (direct, evalOnly []prog) {
	direct = []prog{
		{"default-depth-direct-array", "f=func(n){[f(n+1)]};f(0)", ""},
		{"default-depth-direct-loop-count", "f=func(n){for i=1 {f(n+1)}};f(0)", ""},
	}
	evalOnly = []prog{
		{"default-depth-eval-plain", "f=func(n){f(n+1)};f(0)", "depth"},
		{"default-depth-eval-infix", "f=func(n){1+f(n+1)};f(0)", "depth"},
	}
	if thorough {
		direct = append(direct, []prog{
			{"default-depth-direct-call-arg", "g=func(x){x};f=func(n){g(f(n+1))};f(0)", ""},
			{"default-depth-direct-if", "f=func(n){if n>=0 {f(n+1)} else {0}};f(0)", ""},
			{"default-depth-direct-if3", "f=func(n){if true {if true {if true {f(n+1)}}}};f(0)", ""},
			{"default-depth-direct-return", "f=func(n){return f(n+1)};f(0)", ""},
			{"default-depth-direct-builtin-arg", "f=func(n){len([f(n+1)])};f(0)", ""},
			{"default-depth-direct-loop-list", "f=func(n){for x=[1] {f(n+1)}};f(0)", ""},
			{"default-depth-direct-loop-cond", "f=func(n){for true {return f(n+1)}};f(0)", ""},
			{"default-depth-direct-catch", "f=func(n){catch(f(n+1))};f(0)", ""},
			{"default-depth-direct-mutual", "f=func(n){[g(n+1)]};g=func(n){if true {f(n+1)}};f(0)", ""},
			{"default-depth-direct-closure", "func mk(k){ func(){ [mk(k+1)()] } }; mk(0)()", ""},
		}...)
		evalOnly = append(evalOnly, []prog{
			{"default-depth-eval-assign", "f=func(n){x=f(n+1)};f(0)", "depth"},
			{"default-depth-eval-prefix", "f=func(n){-f(n+1)};f(0)", "depth"},
			{"default-depth-eval-map-value", "f=func(n){{1:f(n+1)}};f(0)", "depth"},
			{"default-depth-eval-index", "f=func(n){[0,1][f(n+1)]};f(0)", "depth"},
			{"default-depth-eval-mutual", "f=func(n){1+g(n+1)};g=func(n){x=f(n+1)};f(0)", "depth"},
		}...)
	}
	return
}

func defaultDepth(c *Ctx) {
	direct, evalOnly := defaultDepthShapes(c.Thorough())
	for _, p := range append(direct, evalOnly...) {
		sp := childSpec{Src: p.src, MaxDepth: 0, DurMs: 60000}
		judge(c, p.kind, sp, runChild(c, sp, "4GiB", 90*time.Second), p.want)
	}
}

func replay(c *Ctx) {
	// "CHILD depth=.. dur=..ms mem=.. gen=.. n=.. src=<hex>"
	f := strings.Fields(c.ReplayCase)
	sp := childSpec{ASLimit: asLimit}
	mem := memLimitStr
	for _, x := range f {
		k, v, _ := strings.Cut(x, "=")
		switch k {
		case "depth":
			sp.MaxDepth, _ = strconv.Atoi(v)
		case "unrestricted":
			sp.Unrestricted = v == "true"
		case "noreg":
			sp.NoReg = v == "true"
		case "autostate":
			sp.AutoState, _ = strconv.Atoi(v)
		case "durpct":
			sp.DurPct, _ = strconv.Atoi(v)
		case "api":
			sp.ApiLimit, _ = strconv.ParseInt(v, 10, 64)
		case "cancel":
			sp.CancelMs, _ = strconv.Atoi(strings.TrimSuffix(v, "ms"))
		case "dur":
			sp.DurMs, _ = strconv.Atoi(strings.TrimSuffix(v, "ms"))
		case "gen":
			sp.Gen = v
		case "n":
			sp.N, _ = strconv.Atoi(v)
		case "compact":
			sp.Compact = v == "true"
		case "mem":
			mem = v
			if v != memLimitStr {
				sp.ASLimit = 0
			}
		case "src":
			sp.Src = string(Unhx(v))
		}
	}
	if len(f) > 0 && f[0] != "CHILD" { // a depth template source
		fmt.Println(depthOutcome(c.ReplayCase, 100))
		return
	}
	r := runChild(c, sp, mem, 120*time.Second)
	fmt.Printf("replay: exit=%d killed=%v wall=%.0fms peak=%dkB errs=%v stderr=%.300s\n", r.exit, r.killed, r.rep.WallMs, r.peakkB, r.rep.Errs, r.stderr)
	judge(c, "replay", sp, r, "")
}
