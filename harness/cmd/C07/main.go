package main

// C07: no program can crash the evaluator.
//
// Direct oracle (model-free): every program the parser accepts is run through the same steps as
// repl.EvalOne (parse, DefineMacros, ExpandMacros, Eval, Inspect of the result) under recover(); the outcome
// class must be value / language error / one of the two guards.  Any other panic is a failure whose signature
// names the Go run-time error class and the grol function it originated in.
// Correspondence: integer operators, range-index / index / index-assignment bounds, repeat / concat sizes and
// the applyExtension validation loop against the extracted model/Arith.v; the panic-site audit summary.

import (
	"context"
	"fmt"
	"io"
	"math"
	"os"
	"path/filepath"
	"runtime"
	"runtime/debug"
	"sort"
	"strconv"
	"strings"
	"time"
	"unicode/utf8"

	"fortio.org/log"
	"grol.io/grol/ast"
	"grol.io/grol/eval"
	"grol.io/grol/extensions"
	"grol.io/grol/lexer"
	"grol.io/grol/object"
	"grol.io/grol/parser"
	"grol.io/grol/repl"
	"grol.io/grol/token"
	"verifharness/common"
	. "verifharness/common"
)

func main() { common.Main("C07", runC07) }

const (
	nominalFree = int64(1) << 29 // the budget given to the model; cases are insensitive within [2^28, 2^30]
	memLimit    = int64(640) << 20
)

// ---------------------------------------------------------------- evaluation under recover
type outcome struct {
	parsed bool
	class  string // V value, E language error, Gd depth guard, Gm memory guard, P other panic, X parser/printer panic
	pclass string // for P: run-time error class
	origin string // for P: first grol function on the panicking stack
	msg    string
	val    object.Object
	insp   string
}

func classifyPanic(r any) (class, pclass string) {
	msg := fmt.Sprint(r)
	if s, ok := r.(string); ok {
		switch {
		case strings.HasPrefix(s, "max depth"):
			return "Gd", ""
		case strings.HasPrefix(s, "would exceed memory"):
			return "Gm", ""
		case strings.HasPrefix(s, "strings: Repeat output length overflow"):
			return "P", "repeat-overflow"
		case strings.HasPrefix(s, "strings: negative Repeat count"):
			return "P", "repeat-count"
		case strings.HasPrefix(s, "Unexpected type in Cmp"):
			return "P", "assert-cmp"
		case strings.HasPrefix(s, "No more registers"):
			return "P", "assert-registers"
		case strings.HasPrefix(s, "Releasing non last register"):
			return "P", "assert-register-release"
		case strings.HasPrefix(s, "Too many references"), strings.HasPrefix(s, "Self reference"):
			return "P", "assert-reference"
		}
		return "P", "assert-other"
	}
	switch {
	case strings.Contains(msg, "integer divide by zero"):
		return "P", "divide"
	case strings.Contains(msg, "negative shift amount"):
		return "P", "shift"
	case strings.Contains(msg, "slice bounds out of range"):
		return "P", "slice-bounds"
	case strings.Contains(msg, "index out of range"):
		return "P", "index"
	case strings.Contains(msg, "nil pointer dereference"):
		return "P", "nil-deref"
	case strings.Contains(msg, "makeslice"):
		return "P", "makeslice"
	case strings.Contains(msg, "interface conversion"):
		return "P", "type-assert"
	case strings.Contains(msg, "unhashable"):
		return "P", "unhashable"
	case strings.Contains(msg, "nil map"):
		return "P", "nil-map"
	}
	if _, ok := r.(runtime.Error); ok {
		return "P", "runtime-other"
	}
	return "P", "panic-other"
}

func panicOrigin() string {
	pcs := make([]uintptr, 96)
	n := runtime.Callers(3, pcs)
	frames := runtime.CallersFrames(pcs[:n])
	for {
		f, more := frames.Next()
		if strings.HasPrefix(f.Function, "grol.io/grol/") {
			s := strings.TrimPrefix(f.Function, "grol.io/grol/")
			s = strings.ReplaceAll(s, "(*State).", "")
			s = strings.ReplaceAll(s, "(*", "")
			s = strings.ReplaceAll(s, ")", "")
			return s
		}
		if !more {
			break
		}
	}
	return "?"
}

type evalOpts struct {
	maxDepth int
	dur      time.Duration
	pre      func(*eval.State)
}

var evalCount int

// hangs: programs whose evaluation did not come back within the deadline plus hangGrace (the goroutine is
// abandoned: an uncancellable Go-level loop cannot be stopped from outside)
var hangs []string

const hangGrace = 4 * time.Second

func evalSrc(src string, o evalOpts) outcome {
	ch := make(chan outcome, 1)
	go func() { ch <- evalSrcInner(src, o) }()
	select {
	case r := <-ch:
		return r
	case <-time.After(o.dur + hangGrace):
		hangs = append(hangs, src)
		return outcome{parsed: true, class: "H", msg: "no return within deadline + " + hangGrace.String()}
	}
}

func evalSrcInner(src string, o evalOpts) (res outcome) {
	evalCount++
	stage := "parse"
	defer func() {
		if r := recover(); r != nil {
			res.class, res.pclass = classifyPanic(r)
			res.origin = panicOrigin()
			res.msg = fmt.Sprint(r)
			if stage == "parse" || stage == "print" {
				res.parsed = false
				res.class = "X" // front-end panic: C08's domain, reported separately
			}
		}
	}()
	p := parser.New(lexer.New(src))
	prog := p.ParseProgram()
	if len(p.Errors()) > 0 || p.ContinuationNeeded() {
		return outcome{class: "-"}
	}
	res.parsed = true
	stage = "eval"
	s := eval.NewState()
	out := &limitedWriter{max: 1 << 20}
	s.Out, s.LogOut, s.NoLog = out, out, true
	if o.maxDepth > 0 {
		s.MaxDepth = o.maxDepth
	}
	cancel := s.SetContext(context.Background(), o.dur)
	defer cancel()
	if o.pre != nil {
		o.pre(s)
	}
	s.DefineMacros(prog)
	var node ast.Node = prog
	if s.NumMacros() > 0 {
		node = s.ExpandMacros(prog)
	}
	obj := s.Eval(node)
	if obj == nil {
		res.class, res.pclass, res.origin = "P", "nil-object", "eval.Eval"
		return res
	}
	res.val = obj
	res.insp = obj.Inspect() // EvalOne prints it: part of what program text can reach
	if obj.Type() == object.ERROR {
		res.class = "E"
	} else {
		res.class = "V"
	}
	return res
}

type limitedWriter struct{ n, max int }

func (w *limitedWriter) Write(b []byte) (int, error) {
	w.n += len(b)
	return len(b), nil
}

var std = evalOpts{maxDepth: 300, dur: 60 * time.Millisecond}

// correspondence cases are tiny programs whose observation must not depend on the load of the machine: a deadline
// that fires on a busy sandbox would turn a value into the context error (seen once: SLICE M 0 -2^62 6 -> E)
var corr = evalOpts{maxDepth: 300, dur: 5 * time.Second}

// check: the direct oracle on one program; construct is only used in the case text.
func check(c *Ctx, gen, src string, o evalOpts) outcome {
	r := evalSrc(src, o)
	if !r.parsed {
		if r.class == "X" {
			c.Count("frontend-panic(C08)")
		} else {
			c.Count("gen:" + gen + ":noparse")
		}
		return r
	}
	c.Count("gen:" + gen + ":" + r.class)
	c.Count("outcome:" + r.class)
	if r.class == "P" {
		c.Fail("go-panic:"+r.pclass+":"+r.origin, src, gen+": "+r.msg)
	}
	if r.class == "H" {
		c.Fail("hang:uncancellable:"+gen, src, r.msg)
	}
	if r.class != "V" {
		c.NonTrivial(gen + "|" + r.class + "|" + firstWords(r))
	}
	return r
}

func firstWords(r outcome) string {
	s := r.msg
	if r.class == "E" {
		s = r.insp
	}
	// error kind = message with digits and quoted parts removed, truncated
	var b strings.Builder
	for _, ch := range s {
		if ch >= '0' && ch <= '9' {
			continue
		}
		b.WriteRune(ch)
		if b.Len() > 40 {
			break
		}
	}
	return b.String()
}

// ---------------------------------------------------------------- literals
func intLit(v int64) string {
	if v == math.MinInt64 {
		return "(-9223372036854775807-1)"
	}
	if v < 0 {
		return "(" + strconv.FormatInt(v, 10) + ")"
	}
	return strconv.FormatInt(v, 10)
}

var boundaryInts = []int64{0, 1, -1, 2, -2, 3, 7, 8, 9, 10, 62, 63, 64, 65, -63, -64, -65, 255, 256, 257, 4096,
	1 << 31, 1 << 32, -(1 << 32), 1 << 40, 1 << 59, 1 << 60, 1<<60 + 1, 1 << 61, 1 << 62, -(1 << 62),
	4611686018427387904, 6148914691236517206, 3074457345618258603,
	math.MaxInt64, math.MaxInt64 - 1, math.MinInt64, math.MinInt64 + 1}

func tokOrd(op string) int {
	m := map[string]token.Type{"+": token.PLUS, "-": token.MINUS, "*": token.ASTERISK, "/": token.SLASH, "%": token.PERCENT,
		"<<": token.LEFTSHIFT, ">>": token.RIGHTSHIFT, "&": token.BITAND, "|": token.BITOR, "^": token.BITXOR, ":": token.COLON}
	return int(m[op])
}

var intOps = []string{"+", "-", "*", "/", "%", "<<", ">>", "&", "|", "^", ":"}

func freeInWindow() bool {
	f := object.FreeMemory()
	return f >= 1<<28 && f <= 1<<30
}

// canonical observation of an evaluation for the arithmetic correspondence
func obsOf(r outcome, val func(object.Object) string) string {
	switch r.class {
	case "V":
		return "V " + val(r.val)
	case "E":
		return "E"
	case "Gm":
		return "G memory"
	case "Gd":
		return "G depth"
	case "P":
		return "P " + r.pclass
	case "H":
		return "HANG"
	}
	return "? " + r.class
}

func intVal(o object.Object) string {
	switch v := o.(type) {
	case object.Integer:
		return "I" + strconv.FormatInt(v.Value, 10)
	}
	if o.Type() == object.ARRAY {
		els := object.Elements(o)
		if len(els) == 0 {
			return "R 0 -"
		}
		if f, ok := els[0].(object.Integer); ok {
			return fmt.Sprintf("R %d %d", len(els), f.Value)
		}
	}
	return "?" + o.Type().String()
}

// ---------------------------------------------------------------- correspondence: integer operators
func iopCase(c *Ctx, op string, a, b int64) {
	if op == ":" { // only sizes far from the budget boundary (and small enough to build)
		d := new128(b, a)
		if !(d <= 300 || d >= 1<<33) {
			return
		}
	}
	if !freeInWindow() {
		c.Count("skipped:free-out-of-window")
		return
	}
	src := intLit(a) + " " + op + " " + intLit(b)
	r := check(c, "iop:"+op, src, corr)
	if !r.parsed {
		c.Fail("generator:noparse", src, "integer operator program does not parse")
		return
	}
	c.Case(fmt.Sprintf("IOP %d %d %d %d", tokOrd(op), a, b, nominalFree), obsOf(r, intVal))
}

// b - a as a float-safe magnitude class (we only need to know small / huge / negative)
func new128(b, a int64) float64 { return float64(b) - float64(a) }

// ---------------------------------------------------------------- correspondence: slices and indices
type cont struct {
	kind string // S A M N O
	n    int
}

func (k cont) lit() string {
	switch k.kind {
	case "S":
		return strconv.Quote("abcdefghijklmnopqrstuvwxyz"[:k.n])
	case "A":
		var p []string
		for i := 0; i < k.n; i++ {
			p = append(p, strconv.Itoa(i))
		}
		return "[" + strings.Join(p, ",") + "]"
	case "M":
		var p []string
		for i := 0; i < k.n; i++ {
			p = append(p, fmt.Sprintf("%d:%d", i, i))
		}
		return "{" + strings.Join(p, ",") + "}"
	case "N":
		return "nil"
	}
	return "5"
}

// idx operand: integer, "nil", or "f" (a float: not an integer type)
type idx struct {
	isInt bool
	v     int64
	other string
}

func (i idx) lit() string {
	if i.isInt {
		return intLit(i.v)
	}
	if i.other == "nil" {
		return "nil"
	}
	return "1.5"
}
func (i idx) enc() string {
	if i.isInt {
		return strconv.FormatInt(i.v, 10)
	}
	if i.other == "nil" {
		return "nil"
	}
	return "f"
}

// elements of the result as indices into the original container
func elemIdx(kind string) func(object.Object) string {
	return func(o object.Object) string {
		var parts []string
		switch v := o.(type) {
		case object.String:
			for i := 0; i < len(v.Value); i++ {
				parts = append(parts, strconv.Itoa(int(v.Value[i]-'a')))
			}
		case object.Null:
			return "N"
		default:
			if o.Type() == object.ARRAY || o.Type() == object.MAP {
				for _, e := range object.Elements(o) {
					if iv, ok := e.(object.Integer); ok {
						parts = append(parts, strconv.FormatInt(iv.Value, 10))
					} else {
						parts = append(parts, "?")
					}
				}
			} else {
				return "?" + o.Type().String()
			}
		}
		if len(parts) == 0 {
			return "-"
		}
		return strings.Join(parts, ",")
	}
}

func sliceCase(c *Ctx, k cont, l idx, r *idx) {
	rs, renc := "", "-"
	if r != nil {
		rs, renc = r.lit(), r.enc()
	}
	src := "x=" + k.lit() + ";x[" + l.lit() + ":" + rs + "]"
	res := check(c, "slice:"+k.kind, src, corr)
	if !res.parsed {
		c.Fail("generator:noparse", src, "slice program does not parse")
		return
	}
	c.Case(fmt.Sprintf("SLICE %s %d %s %s", k.kind, k.n, l.enc(), renc), obsOf(res, elemIdx(k.kind)))
	// direct oracle: a value result is a contiguous in-bounds window
	if res.class == "V" && (k.kind == "S" || k.kind == "A" || k.kind == "M") {
		e := elemIdx(k.kind)(res.val)
		if e != "-" {
			parts := strings.Split(e, ",")
			first, _ := strconv.Atoi(parts[0])
			for j, p := range parts {
				if v, err := strconv.Atoi(p); err != nil || v != first+j || v < 0 || v >= k.n {
					c.Fail("slice-not-window:"+k.kind, src, "result "+e)
					break
				}
			}
		}
	}
}

func indexCase(c *Ctx, k cont, i idx) {
	src := "x=" + k.lit() + ";x[" + i.lit() + "]"
	res := check(c, "index:"+k.kind, src, corr)
	if !res.parsed {
		return
	}
	obs := obsOf(res, func(o object.Object) string {
		if k.kind == "M" {
			return "L"
		}
		switch v := o.(type) {
		case object.Null:
			return "N"
		case object.Integer:
			if k.kind == "S" {
				return strconv.FormatInt(v.Value-'a', 10)
			}
			return strconv.FormatInt(v.Value, 10)
		}
		return "?" + o.Type().String()
	})
	c.Case(fmt.Sprintf("INDEX %s %d %s", k.kind, k.n, i.enc()), obs)
}

func iassignCase(c *Ctx, n int, i idx) {
	k := cont{"A", n}
	src := "x=" + k.lit() + ";x[" + i.lit() + "]=99;x"
	res := check(c, "iassign", src, corr)
	if !res.parsed {
		return
	}
	obs := obsOf(res, func(o object.Object) string {
		for p, e := range object.Elements(o) {
			if iv, ok := e.(object.Integer); ok && iv.Value == 99 {
				return strconv.Itoa(p)
			}
		}
		return "?"
	})
	c.Case(fmt.Sprintf("IASSIGN %d %s", n, i.enc()), obs)
}

func repCase(c *Ctx, kind string, n int, r int64) {
	total := float64(n) * float64(r)
	if r > 0 && !(total <= 4096 || total >= float64(int64(1)<<37)) {
		return
	}
	if !freeInWindow() {
		c.Count("skipped:free-out-of-window")
		return
	}
	k := cont{kind, n}
	src := k.lit() + "*" + intLit(r)
	res := check(c, "repeat:"+kind, src, corr)
	if !res.parsed {
		return
	}
	obs := obsOf(res, func(o object.Object) string { return strconv.Itoa(object.Len(o)) })
	c.Case(fmt.Sprintf("REP %s %d %d %d", kind, n, r, nominalFree), obs)
	if res.class == "V" && float64(object.Len(res.val)) != total {
		c.Fail("repeat-wrong-length:"+kind, src, fmt.Sprintf("len %d", object.Len(res.val)))
	}
}

func concatCase(c *Ctx, n1, n2 int) {
	if !freeInWindow() {
		return
	}
	src := cont{"A", n1}.lit() + "+" + cont{"A", n2}.lit()
	res := check(c, "concat", src, corr)
	if !res.parsed {
		return
	}
	c.Case(fmt.Sprintf("CONCAT %d %d %d", n1, n2, nominalFree),
		obsOf(res, func(o object.Object) string { return strconv.Itoa(object.Len(o)) }))
}

// ---------------------------------------------------------------- correspondence: applyExtension validation
type extArg struct {
	src   string // expression text (evaluated inside a function; r0..r9 are outer variables => references)
	ty    object.Type
	under object.Type
	elems []extArg
}

var probeSeen []object.Type

func extCase(c *Ctx, minA, maxA int, types []object.Type, args []extArg) {
	pre := func(s *eval.State) {
		s.Extensions["vprobe"] = object.Extension{Name: "vprobe", MinArgs: minA, MaxArgs: maxA, ArgTypes: types,
			Callback: func(_ any, _ string, a []object.Object) object.Object {
				probeSeen = probeSeen[:0]
				for _, x := range a {
					probeSeen = append(probeSeen, x.Type())
				}
				return object.String{Value: "called"}
			}}
	}
	defer delete(object.ExtraFunctions(), "vprobe")
	var as, enc []string
	for _, a := range args {
		as = append(as, a.src)
		e := fmt.Sprintf("%d:%d", a.ty, a.under)
		if len(a.elems) > 0 {
			var es []string
			for _, x := range a.elems {
				es = append(es, fmt.Sprintf("%d.%d", x.ty, x.under))
			}
			e += ":" + strings.Join(es, "+")
		}
		enc = append(enc, e)
	}
	src := `r1=1;r2=2.5;r8="s";r9=[1,2.5];r3=true;func f(){vprobe(` + strings.Join(as, ",") + `)};f()`
	probeSeen = probeSeen[:0]
	o := corr
	o.pre = pre
	res := check(c, "extvalidate", src, o)
	if !res.parsed {
		c.Fail("generator:noparse", src, "extension validation program does not parse")
		return
	}
	obs := obsOf(res, func(ob object.Object) string {
		var p []string
		for _, t := range probeSeen {
			p = append(p, strconv.Itoa(int(t)))
		}
		if len(p) == 0 {
			return "C -"
		}
		return "C " + strings.Join(p, ",")
	})
	var ts []string
	for _, t := range types {
		ts = append(ts, strconv.Itoa(int(t)))
	}
	tl, al := "-", "-"
	if len(ts) > 0 {
		tl = strings.Join(ts, ",")
	}
	if len(enc) > 0 {
		al = strings.Join(enc, " ")
	}
	c.Case(fmt.Sprintf("EXT %d %d %s %s", minA, maxA, tl, al), obs)
	// direct oracle: the callback only ever sees declared types
	if res.class == "V" && strings.HasPrefix(obs, "V C ") {
		for i, t := range probeSeen {
			if i < len(types) && types[i] != object.ANY && types[i] != t {
				c.Fail("ext-validation-leak", src, fmt.Sprintf("callback arg %d has type %s, declared %s", i, t, types[i]))
			}
		}
	}
}

func extArgPool() []extArg {
	I, F, B, N, S, A, M, FN, R := object.INTEGER, object.FLOAT, object.BOOLEAN, object.NIL, object.STRING, object.ARRAY,
		object.MAP, object.FUNC, object.REFERENCE
	return []extArg{
		{"7", I, I, nil}, {"2.5", F, F, nil}, {"true", B, B, nil}, {"nil", R, N, nil}, {"first([])", N, N, nil}, {`"a"`, S, S, nil},
		// (nil is an identifier bound in the root environment: inside a function it arrives as a reference)
		{"[1,2.5]", A, A, []extArg{{"", I, I, nil}, {"", F, F, nil}}}, {"[]", A, A, nil}, {`["x"]`, A, A, []extArg{{"", S, S, nil}}},
		{"{1:2}", M, M, nil}, {"(x=>x)", FN, FN, nil},
		{"r1", R, I, nil}, {"r2", R, F, nil}, {"r8", R, S, nil}, {"r3", R, B, nil},
		{"r9", R, A, []extArg{{"", I, I, nil}, {"", F, F, nil}}},
	}
}

// ---------------------------------------------------------------- type-directed programs
type kv struct{ kind, src string }

func valuePool(thorough bool) []kv {
	p := []kv{
		{"int", "0"}, {"int", "1"}, {"int", "(-1)"}, {"int", "64"}, {"int", "9223372036854775807"}, {"int", "(-9223372036854775807-1)"},
		{"int", "4611686018427387904"}, {"int", "6148914691236517206"},
		{"float", "0.0"}, {"float", "(-0.0)"}, {"float", "1.5"}, {"float", "NaN"}, {"float", "Inf"}, {"float", "(-Inf)"}, {"float", "1e308"},
		{"bool", "true"}, {"bool", "false"}, {"nil", "nil"},
		{"string", `""`}, {"string", `"a"`}, {"string", `"héllo\xff"`}, {"string", `("0123456789abcdef"*20)`},
		{"array", "[]"}, {"array", "[1,2,3]"}, {"array", "[1,2,3,4,5,6,7,8,9,10]"}, {"array", `[1,"a",[2.5,nil],{1:2}]`},
		{"map", "{}"}, {"map", `{"a":1,2:"b"}`}, {"map", `{1:1,2:2,3:3,4:4,5:5,6:6}`}, {"map", `{[1]:{2:3},nil:nil,1.5:true}`},
		{"func", "func(a,b){a+b}"}, {"lambda", "(x=>x)"}, {"variadic", "func(a,..){..}"},
		{"ext", "sin"}, {"ext", "image.new"}, {"quote", "quote(1+x)"}, {"error", "error(\"boom\")"}, {"catch", "catch(1/0)"},
		{"ident-missing", "nosuchvar"}, {"info", "info"},
	}
	if !thorough {
		return p
	}
	return append(p, []kv{{"int", "2"}, {"int", "63"}, {"int", "65"}, {"int", "(-64)"}, {"int", "9223372036854775806"},
		{"float", "5e-324"}, {"float", "(-1e308)"}, {"float", "9223372036854775808.0"},
		{"string", `"\x00"`}, {"array", "[[[[]]]]"}, {"array", "(0:300)"}, {"map", "{nil:1}"}, {"map", `{"err":1,"value":2}`},
		{"func", "func f(){f}"}, {"lambda", "()=>{}"}, {"ext", "min"}, {"quote", "quote(unquote(1))"}}...)
}

var binOps = []string{"+", "-", "*", "/", "%", "<<", ">>", "&", "|", "^", "==", "!=", "<", ">", "<=", ">=", "&&", "||", ":", "..", "="}
var prefixOps = []string{"-", "!", "~", "+", "++", "--"}

// each operand is also presented as a register (integer parameter), a reference (outer variable read in a
// function) and a constant binding
func wrappers(l, r string) []func(expr func(a, b string) string) string {
	return []func(func(a, b string) string) string{
		func(e func(a, b string) string) string { return e(l, r) },
		func(e func(a, b string) string) string { return "va=" + l + ";vb=" + r + ";" + e("va", "vb") },
		func(e func(a, b string) string) string {
			return "va=" + l + ";vb=" + r + ";func tf(){" + e("va", "vb") + "};tf()"
		},
		func(e func(a, b string) string) string { return "func tf(pa,pb){" + e("pa", "pb") + "};tf(" + l + "," + r + ")" },
	}
}

func typeDirected(c *Ctx) {
	pool := valuePool(c.Thorough())
	// binary operators: every ordered pair of kinds (quick: one value per kind on the right), all wrappers on a sample
	seenKind := map[string]bool{}
	var reps []kv // one representative per kind
	for _, v := range pool {
		if !seenKind[v.kind] {
			seenKind[v.kind] = true
			reps = append(reps, v)
		}
	}
	for _, op := range binOps {
		for _, l := range pool {
			rs := pool
			if !c.Thorough() {
				rs = append(append([]kv{}, reps...), pool[c.R.Intn(len(pool))], pool[c.R.Intn(len(pool))])
			}
			for _, r := range rs {
				ws := wrappers(l.src, r.src)
				w := ws[0]
				if c.R.Pct(30) {
					w = ws[1+c.R.Intn(len(ws)-1)]
				}
				check(c, "bin:"+op, w(func(a, b string) string { return "(" + a + ") " + op + " (" + b + ")" }), std)
			}
		}
	}
	for _, l := range pool {
		for _, op := range prefixOps {
			check(c, "prefix:"+op, op+l.src, std)
			check(c, "prefix:"+op, "v="+l.src+";"+op+"v;v", std)
			check(c, "prefix:"+op, "func tf(p){"+op+"p};tf("+l.src+")", std)
		}
		for _, op := range []string{"++", "--"} {
			check(c, "postfix:"+op, "v="+l.src+";v"+op+";v", std)
			check(c, "postfix:"+op, "func tf(p){p"+op+";p};tf("+l.src+")", std)
			check(c, "postfix:"+op, "v="+l.src+";func tf(){v"+op+"};tf();v", std)
		}
		// builtins with 0..2 arguments
		for _, b := range []string{"len", "first", "rest", "print", "println", "log", "error", "catch", "quote", "unquote", "del"} {
			check(c, "builtin:"+b, b+"()", std)
			check(c, "builtin:"+b, b+"("+l.src+")", std)
			check(c, "builtin:"+b, "v="+l.src+";"+b+"(v)", std)
			check(c, "builtin:"+b, "v="+l.src+";func tf(){"+b+"(v)};tf()", std)
			check(c, "builtin:"+b, b+"("+l.src+","+l.src+")", std)
		}
		// control forms with a wrong-kind operand
		for _, f := range []string{"if %s {1} else {2}", "for %s {1}", "for v = %s {v}", "for v = %s:3 {v}", "for v = 0:%s {break}",
			"for %s {break}", "for %s {continue}", "for v := %s {return v}", "%s()", "%s(1)", "%s(1,2,3)", "%s([1,2])", "(%s).a", "(%s).a.b",
			"(%s)[0]", "(%s)[-1]", "(%s)[\"a\"]", "v=%s;v[0]=1;v", "v=%s;v.a=1;v", "v=%s;v[\"k\"]=v;v", "v=%s;del(v[0]);v", "v=%s;del(v.a);v",
			"v=%s;del(v);v", "{%s:1}", "{1:%s}", "[%s]", "return %s", "func tf(){return %s};tf()", "\"s\" | %s", "%s | len(1)",
			"A=%s;A=%s", "A=%s;A=1", "func tf(A){A};tf(%s)", "m=macro(a){quote(unquote(a))};m(%s)", "m=macro(a){a};m(%s)",
			"m=macro(a){quote(%s)};m(1)", "m=macro(a){println(%s); quote(1)};m(1)", "m=macro(a){x=%s; y=[x,x]; quote(unquote(a))};m(1)",
			"m=macro(a){func g(p){p}; g(%s); quote(unquote(a))};m(1)", "m=macro(a){for v = %s {v}; quote(1)};m(1)", "m=macro(a){if %s {1}; quote(1)};m(1)",
			"unjson(%s)", "eval(%s)", "quote(unquote(%s))", "quote(%s)", "v=%s;func g(){del(v)};func tf(){v;g();v};tf()",
			"v=%s;func tf(){v=1;v};tf();v", "func tf(..){..};tf(%s)", "func tf(a,..){..};tf(1,%s,%s)", "self", "v=%s;v[0:1]", "v=%s;v[1:]",
			"v=%s;v[-1:]", "(%s)[(%s):(%s)]", "(%s)[(%s)]"} {
			n := strings.Count(f, "%s")
			args := make([]any, n)
			for i := range args {
				args[i] = l.src
			}
			check(c, "form", fmt.Sprintf(f, args...), std)
		}
	}
	// index / slice operands of every kind pair
	for _, l := range reps {
		for _, r := range pool {
			check(c, "form:index", "("+l.src+")[("+r.src+")]", std)
			check(c, "form:slice", "("+l.src+")[("+r.src+"):]", std)
			check(c, "form:slice", "("+l.src+")[0:("+r.src+")]", std)
			check(c, "form:assign", "v="+l.src+";v[("+r.src+")]=1;v", std)
			check(c, "form:call", "f=func(a){a};f(("+l.src+"),("+r.src+"))", std)
		}
	}
}

// ---------------------------------------------------------------- nested counted loops (register stack)
// A named counted loop `for v = N {body}` keeps v in a register when the body can be rewritten, and in a plain
// variable when it cannot (v++, --v, v(...), assignment to v, a function literal in the body ...).  Registers are a
// stack per environment: every way out of every loop, rewritable or not, must leave it balanced, otherwise an
// enclosing / following loop panics in ReleaseRegister / MakeRegister.  The generator nests loops of both sorts.
var loopVars = []string{"i", "j", "k", "l", "m"}

// bodies for a loop whose variable is v; o is an outer loop variable (or a literal at depth 0)
func loopBodies(v, o string) (rewritable, notRewritable, control []string) {
	rewritable = []string{v, "s = s + " + v, "if " + v + " > 0 {" + v + "}", "[" + v + "," + o + "]", v + " + " + o,
		"t = {" + v + ":" + o + "}", "println(" + v + ")", "-" + v, "x = " + v + " * " + o, ""}
	notRewritable = []string{v + "++", v + "--", "--" + v, "++" + v, v + "(1)", v + "()", v + " = 5", v + " := 7", v + " = " + v + " + 1",
		"f = func(){" + v + "}", "g = () => " + v, "func(" + v + "){" + v + "}", "(" + v + " => " + v + ")(" + o + ")", v + "[0]", v + ".a", "del(" + v + ")",
		o + "++", "--" + o, o + " = 0", "quote(" + v + ")", "for " + v + " = 2 {" + v + "++}"}
	control = []string{"break", "continue", "return " + v, "return", "if " + v + " == 1 {break}", "if " + v + " == 0 {continue}; " + v,
		"if " + v + " == 1 {return " + o + "}", "1/0", "nosuchident", "error(\"e\")", v + "++; break", "break; " + v + "++"}
	return
}

func loopHeader(r *Rng, v string, n int) string {
	switch r.Intn(6) {
	case 0:
		return fmt.Sprintf("for %s = %d:%d", v, r.Intn(2), n+1)
	case 1:
		return fmt.Sprintf("for %s := %d", v, n)
	case 2:
		return fmt.Sprintf("for %d", n) // unnamed counted loop: no register of its own
	default:
		return fmt.Sprintf("for %s = %d", v, n)
	}
}

// nest builds `hdr { pre; <inner>; post }` for the given depth; leaf picks the innermost body
func nestLoops(r *Rng, depth int, leaf func(v, o string) string, sameVar bool) string {
	var rec func(d int, outer string) string
	rec = func(d int, outer string) string {
		v := loopVars[d%len(loopVars)]
		if sameVar && r.Pct(50) && d > 0 {
			v = loopVars[(d-1)%len(loopVars)]
		}
		hdr := loopHeader(r, v, 2+r.Intn(2))
		var inner string
		if d == depth-1 {
			inner = leaf(v, outer)
		} else {
			inner = rec(d+1, v)
		}
		rw, nrw, ctl := loopBodies(v, outer)
		pick := func() string {
			switch r.Intn(10) {
			case 0, 1, 2, 3:
				return rw[r.Intn(len(rw))]
			case 4, 5:
				return nrw[r.Intn(len(nrw))]
			case 6:
				return ctl[r.Intn(len(ctl))]
			}
			return ""
		}
		parts := []string{}
		for _, x := range []string{pick(), inner, pick()} {
			if x != "" {
				parts = append(parts, x)
			}
		}
		return hdr + " { " + strings.Join(parts, "; ") + " }"
	}
	return rec(0, "1")
}

func loopPlacements(body string) []string {
	return []string{
		"s = 0; " + body,
		"s = 0; " + body + "; " + body, // twice in one environment: a leaked register shows on the second run
		"s = 0; func lf(){ " + body + " }; lf()",
		"s = 0; func lf(n){ " + body + "; n }; lf(3); lf(4)",
		"s = 0; lg = (a, b) => { " + body + "; a + b }; lg(1, 2)",
		"s = 0; func lf(n){ if n <= 0 {return 0}; " + body + "; lf(n - 1) }; lf(3)",
		"s = 0; for q = 3 { " + body + " }; for q = 2 { q }",
	}
}

func nestedLoops(c *Ctx) {
	o := evalOpts{maxDepth: 200, dur: 40 * time.Millisecond}
	// exhaustive: depth 2, every (outer extra statement sort) x every inner body, two header forms, all placements
	rwO, nrwO, ctlO := loopBodies("i", "1")
	rwI, nrwI, ctlI := loopBodies("j", "i")
	inner := append(append(append([]string{}, rwI...), nrwI...), ctlI...)
	outerExtra := []string{"", rwO[1], nrwO[0], nrwO[9], ctlO[4]}
	for _, hi := range []string{"for i = 3", "for i = 0:3"} {
		for _, hj := range []string{"for j = 2", "for j = 1:3", "for 2"} {
			for _, ib := range inner {
				for ei, ex := range outerExtra {
					if !c.Thorough() && ei > 1 && c.R.Pct(60) {
						continue
					}
					body := hi + " { " + hj + " { " + ib + " }"
					if ex != "" {
						body += "; " + ex
					}
					body += " }"
					pl := loopPlacements(body)
					for pi, src := range pl {
						if !c.Thorough() && pi > 1 && c.R.Pct(70) {
							continue
						}
						check(c, "loops2", src, o)
					}
				}
			}
		}
	}
	// single loops with every body (the non nested base case), directly and twice
	for _, ib := range append(append(append([]string{}, rwO...), nrwO...), ctlO...) {
		for _, h := range []string{"for i = 3", "for i = 0:3", "for i := 2"} {
			for _, src := range loopPlacements(h + " { " + ib + " }") {
				check(c, "loops1", src, o)
			}
		}
	}
	// random: depth 1..5, mixed headers, same-variable shadowing, every placement, repeated sequences
	n := 1500
	if c.Thorough() {
		n = 60000
	}
	for i := 0; i < n; i++ {
		depth := 1 + c.R.Intn(5)
		body := nestLoops(c.R, depth, func(v, ov string) string {
			rw, nrw, ctl := loopBodies(v, ov)
			all := append(append(append([]string{}, rw...), nrw...), ctl...)
			if c.R.Pct(50) {
				return nrw[c.R.Intn(len(nrw))]
			}
			return all[c.R.Intn(len(all))]
		}, c.R.Pct(25))
		if c.R.Pct(30) { // a sequence of loops in the same environment (more than NumRegisters of them sometimes)
			k := 2 + c.R.Intn(9)
			seq := []string{body}
			for j := 1; j < k; j++ {
				seq = append(seq, nestLoops(c.R, 1+c.R.Intn(3), func(v, ov string) string {
					rw, nrw, _ := loopBodies(v, ov)
					if c.R.Bool() {
						return rw[c.R.Intn(len(rw))]
					}
					return nrw[c.R.Intn(len(nrw))]
				}, false))
			}
			body = strings.Join(seq, "; ")
		}
		pl := loopPlacements(body)
		check(c, "loopsN", pl[c.R.Intn(len(pl))], o)
	}
}

// ---------------------------------------------------------------- user-function calls: the memo cache key path
// applyFunction puts (function text, arguments) into a Go map key when object.Hashable says so; a value of a Go type
// that cannot be hashed (BigArray holds a slice, Function holds slices, *BigMap ...) must never get there, at any depth of
// nesting, as element, map value or map KEY.  Every argument shape is passed to functions of 1..4 parameters, twice
// (Set then Get), also through a variable and from inside another function.
func cacheElems() []kv {
	return []kv{{"int", "7"}, {"float", "2.5"}, {"nan", "NaN"}, {"inf", "Inf"}, {"negzero", "(-0.0)"}, {"str", `"s"`}, {"nil", "nil"}, {"bool", "true"},
		{"arr-small", "[1,2]"}, {"arr-8", "[1,2,3,4,5,6,7,8]"}, {"arr-big", "[1,2,3,4,5,6,7,8,9]"}, {"arr-range", "(0:12)"},
		{"map-small", `{"a":1}`}, {"map-4", "{1:1,2:2,3:3,4:4}"}, {"map-big", "{1:1,2:2,3:3,4:4,5:5}"},
		{"func", "func(x){x}"}, {"lambda", "(x=>x)"}, {"named-func", "cfid"}, {"ext", "sin"}, {"quote", "quote(1+q)"},
		{"arr-of-big", "[[1,2,3,4,5,6,7,8,9]]"}, {"map-bigkey", "{[1,2,3,4,5,6,7,8,9]:1}"}, {"map-funckey", "{(x=>x):1}"}}
}

func cacheShapes(e string) []kv {
	return []kv{{"direct", e}, {"arr1", "[" + e + "]"}, {"arr2", "[1," + e + "]"}, {"arr-nested", "[[" + e + "]]"},
		{"map-key", "{" + e + ":1}"}, {"map-value", "{1:" + e + "}"}, {"map-key2", "{\"a\":1," + e + ":2}"}, {"map-both", "{" + e + ":" + e + "}"},
		{"arr-map-key", "[{" + e + ":1}]"}, {"arr-map-value", "[{1:" + e + "}]"}, {"map-map-key", "{1:{" + e + ":2}}"}, {"map-arr-value", "{1:[" + e + "]}"},
		{"map-key-arr", "{[" + e + "]:1}"}, {"map-key-map", "{{" + e + ":1}:2}"}, {"arr9", "[0,1,2,3,4,5,6,7," + e + "]"},
		{"map5-key", "{1:1,2:2,3:3,4:4," + e + ":5}"}}
}

const cachePrelude = "func cfid(x){x}; func cf1(a){len(a)}; func cf2(a,b){[a,b]}; func cf3(a,b,c){first(a)}; func cf4(a,b,c,d){d}; func cf5(a,b,c,d,e){e}; " +
	"cl1 = a => a; q = 1; "

func cacheArgs(c *Ctx) {
	o := evalOpts{maxDepth: 200, dur: 40 * time.Millisecond}
	for _, e := range cacheElems() {
		for _, sh := range cacheShapes(e.src) {
			x := sh.src
			calls := []string{
				"cf1(" + x + "); cf1(" + x + ")",
				"cl1(" + x + "); cl1(" + x + ")",
				"cf2(1," + x + "); cf2(1," + x + ")",
				"cf3(" + x + ",2," + x + "); cf3(" + x + ",2," + x + ")",
				"cf4(1,2,3," + x + "); cf4(1,2,3," + x + ")",
				"cf5(1,2,3,4," + x + ")",
				"v = " + x + "; cf1(v); cf1(v); cf2(v, v)",
				"v = " + x + "; func outer(){ cf1(v) }; outer(); outer()",
				"func outer(p){ cf1(p); cf2(p, [p]) }; outer(" + x + "); outer(" + x + ")",
				"cfid(" + x + ") == cfid(" + x + ")",
			}
			for ci, call := range calls {
				if !c.Thorough() && ci > 1 && c.R.Pct(55) {
					continue
				}
				check(c, "cachearg:"+sh.kind, cachePrelude+call, o)
			}
		}
	}
}

// ---------------------------------------------------------------- register file pressure
// Integer parameters and running named counted loops each hold one of the NumRegisters (8) registers of the function's
// environment; the 9th must fall back to a variable.  Functions with 0..10 integer parameters x 0..10 nested named loops,
// at top level, in functions and in lambdas, with the innermost body reading every parameter and loop variable.
var regVars = []string{"i", "j", "k", "l", "m", "o", "p", "u", "v", "w"}
var regParams = []string{"a", "b", "c", "d", "e", "g", "h", "y", "z", "t"}

func regProgram(np, nl int, inner string, nonRewritableAt int) string {
	var sum []string
	sum = append(sum, "r")
	sum = append(sum, regParams[:np]...)
	sum = append(sum, regVars[:nl]...)
	body := "r = " + strings.Join(sum, " + ")
	if inner != "" {
		body += "; " + inner
	}
	for d := nl - 1; d >= 0; d-- {
		extra := ""
		if d == nonRewritableAt {
			extra = "; " + regVars[d] + "++" // this level cannot use a register
		}
		body = "for " + regVars[d] + " = 2 { " + body + extra + " }"
	}
	return "r = 0; " + body + "; r"
}

func registerPressure(c *Ctx) {
	o := evalOpts{maxDepth: 200, dur: 80 * time.Millisecond}
	ones := func(n int) string { return strings.TrimSuffix(strings.Repeat("1,", n), ",") }
	for np := 0; np <= 10; np++ {
		for nl := 0; nl <= 10; nl++ {
			if np+nl < 6 && !c.Thorough() {
				continue
			}
			for _, nr := range []int{-1, 0, nl / 2, nl - 1} {
				if nr >= nl || (nr >= 0 && nl == 0) {
					continue
				}
				prog := regProgram(np, nl, "", nr)
				params := strings.Join(regParams[:np], ",")
				check(c, "regs:func", "func rf("+params+"){ "+prog+" }; rf("+ones(np)+"); rf("+ones(np)+")", o)
				check(c, "regs:lambda", "rl = ("+params+") => { "+prog+" }; rl("+ones(np)+")", o)
				if np == 0 {
					check(c, "regs:top", prog, o)
					check(c, "regs:top", prog+"; "+prog, o)
				}
				if nr == -1 {
					// a callee with its own parameters and loops inside the innermost body, and a nested function literal
					check(c, "regs:call", "func inner(a,b,c){ r2 = 0; for i = 2 { for j = 2 { r2 = r2 + a + b + c + i + j } }; r2 }; func rf("+params+"){ "+
						regProgram(np, nl, "inner(1,2,3)", -1)+" }; rf("+ones(np)+")", o)
				}
			}
		}
	}
	// mixed parameter kinds (only integers take registers), variadic, recursion with loops
	for _, src := range []string{
		`func rf(a,b,c,d,e,g,h,y){ r=0; for i=3 { r=r+a+b+c+d+e+g+h+y+i }; r }; rf(1,1,1,1,1,1,1,1)`,
		`func rf(a,b,c,d,e,g,h,y){ r=0; for i=3 { r=r+a+i }; r }; rf(1,"s",2.5,[1],nil,true,{1:2},8)`,
		`func rf(a,b,c,d,e,g){ r=0; for i=2 { for j=2 { for k=2 { r=r+a+b+c+d+e+g+i+j+k } } }; r }; rf(1,1,1,1,1,1)`,
		`r=0; for i=2 {for j=2 {for k=2 {for l=2 {for m=2 {for o=2 {for p=2 {for u=2 {for v=2 { r=r+i+j+k+l+m+o+p+u+v }}}}}}}}}; r`,
		`func rf(n,a,b,c,d,e,g){ if n<=0 {return 0}; r=0; for i=2 { for j=2 { r=r+rf(n-1,a,b,c,d,e,g)+i+j } }; r }; rf(2,1,1,1,1,1,1)`,
		`func rf(a,b,c,d,e,g,h,..){ r=0; for i=2 { for j=2 { r=r+a+h+i+j+len(..) } }; r }; rf(1,1,1,1,1,1,1,9,9)`,
	} {
		check(c, "regs:corpus", src, o)
	}
}

// ---------------------------------------------------------------- slicing and indexing NON-ASCII strings
// Length, negative-index resolution, the default right bound and the clamp of x[l:r] are all in BYTES; whatever is
// sliced must be the byte string too.  Strings with multi-byte runes (and invalid UTF-8) of several byte lengths, every
// slice / index form, bounds derived from len(s), directly, through variables, references and register parameters.
// Direct oracle besides "no panic": a string result is a contiguous byte window of the original; s[0:len(s)] and s[0:]
// are the original.
type ustr struct {
	lit string // grol source of the string expression
	val string // its value
}

func unicodeStrings() []ustr {
	base := []string{"é", "héllo", "日本語", "日本語のテキスト", "héllo wörld, grüß dich, señor, ça va très bien aujourd'hui",
		"👍🏽x", "aé日👍", "ßßßßßßßßßßßßßßßßßßßßßßßßßßßßßßßßß"}
	var out []ustr
	for _, b := range base {
		out = append(out, ustr{strconv.Quote(b), b})
	}
	// strconv.Quote escapes nothing here except quotes; keep the raw UTF-8 in the source
	for i := range out {
		out[i].lit = "\"" + strings.ReplaceAll(out[i].val, "\"", "\\\"") + "\""
	}
	for _, m := range []struct {
		b string
		n int
	}{{"日本語のテキスト", 8}, {"é", 40}, {"héllo", 3}, {"aé日👍", 20}} {
		out = append(out, ustr{"(\"" + m.b + "\"*" + strconv.Itoa(m.n) + ")", strings.Repeat(m.b, m.n)})
	}
	out = append(out, ustr{`"\xff\xfeab\xc3"`, "\xff\xfeab\xc3"}, ustr{`("\xe6\x97"*30)`, strings.Repeat("\xe6\x97", 30)})
	return out
}

func unicodeSlices(c *Ctx) {
	o := evalOpts{maxDepth: 200, dur: 2 * time.Second}
	isWindow := func(orig string, r outcome, gen, src string) {
		if r.class != "V" {
			return
		}
		if sv, ok := r.val.(object.String); ok {
			if !strings.Contains(orig, sv.Value) || len(sv.Value) > len(orig) {
				c.Fail("string-slice-not-a-window:"+gen, src, fmt.Sprintf("result %q (%d bytes) is not a byte window of the %d-byte original", trunc(sv.Value, 60), len(sv.Value), len(orig)))
			}
		}
	}
	same := func(orig string, r outcome, gen, src string) {
		if r.class == "V" {
			if sv, ok := r.val.(object.String); !ok || sv.Value != orig {
				c.Fail("string-slice-not-identity:"+gen, src, fmt.Sprintf("got %.60q, want the original (%d bytes)", r.insp, len(orig)))
			}
		} else if r.class == "E" {
			c.Fail("string-slice-not-identity:"+gen, src, "error: "+trunc(r.insp, 100))
		}
	}
	bounds := []string{"0", "1", "2", "3", "5", "(-1)", "(-2)", "(-3)", "(-7)", "len(s)", "len(s)-1", "len(s)-3", "len(s)/2", "len(s)+5", "(-len(s))", "(-len(s)-2)", "1000", "(-1000)"}
	placements := func(u ustr, e string) []string {
		return []string{
			"s=" + u.lit + "; " + e,
			"s=" + u.lit + "; func tf(){ " + e + " }; tf()",
			"func tf(s){ " + e + " }; tf(" + u.lit + ")",
		}
	}
	for _, u := range unicodeStrings() {
		// identities
		for _, e := range []string{"s[0:len(s)]", "s[0:]", "s[(-len(s)):]", "s[0:len(s)+9]", "s[0:len(s)/2]+s[len(s)/2:]", "s[0:1]+s[1:]", "s[0:len(s)-1]+s[(-1):]"} {
			for _, src := range placements(u, e) {
				same(u.val, check(c, "ustr:identity", src, o), "identity", src)
			}
		}
		// every pair of bounds (quick: a deterministic half), open right bound, single index, first/rest chains
		for ai, a := range bounds {
			for bi, b := range bounds {
				if !c.Thorough() && (ai+bi)%2 == 1 {
					continue
				}
				e := "s[" + a + ":" + b + "]"
				pl := placements(u, e)
				src := pl[(ai+bi)%len(pl)]
				isWindow(u.val, check(c, "ustr:slice", src, o), "slice", src)
			}
			for _, e := range []string{"s[" + a + ":]", "s[" + a + "]", "s[" + a + ":][0:2]", "rest(s)[" + a + ":]"} {
				pl := placements(u, e)
				src := pl[ai%len(pl)]
				r := check(c, "ustr:open", src, o)
				if !strings.Contains(e, "rest(") || utf8.ValidString(u.val) { // rest() re-encodes invalid UTF-8 as U+FFFD by design
					isWindow(u.val, r, "open", src)
				}
			}
			// bounds as register parameters and as references
			src := "func tf(s,a,b){ s[a:b] }; s=" + u.lit + "; tf(s," + a + ",len(s)); tf(s,0," + a + ")"
			isWindow(u.val, check(c, "ustr:regparam", src, o), "regparam", src)
			src = "s=" + u.lit + "; a=" + a + "; func tf(){ s[a:] }; tf()"
			isWindow(u.val, check(c, "ustr:ref", src, o), "ref", src)
		}
		for _, e := range []string{"first(s)", "rest(s)", "rest(rest(s))", "first(rest(s))", "first(s[1:])", "rest(s[0:len(s)-1])", "first(s)+rest(s)",
			"n=0; for ch=s {n=n+len(ch)}; n", "t=\"\"; for ch=s {t=t+ch}; t", "s[1:][1:][1:]", "len(s[1:])", "len(s[(-3):])", "runes(s[2:])", "s[len(s)-1]", "s[len(s)]",
			"i=0; t=\"\"; for i<len(s) {t=t+s[i:i+1]; i=i+1}; t", "for i=0:len(s) {s[i:]}", "for i=0:len(s) {s[0:i]}", "for i=0:len(s) {s[i:len(s)-i]}"} {
			for _, src := range placements(u, e) {
				check(c, "ustr:forms", src, o)
			}
		}
	}
}

// ---------------------------------------------------------------- comments inside programs
// Comments are AST nodes (skipped by evalStatements, dropped by compact printing).  Printing happens DURING evaluation
// (SetCacheKey formats every function literal), so whatever the printer does to a block with comments must leave the
// tree intact.  Templates with comment slots {C}: every slot is filled with a line comment, a block comment, both, or
// nothing; the functions are defined and then CALLED (twice, both branches).  Oracle besides no-panic: the program with
// comments and the same program with empty slots give the same outcome (class and printed value).
var commentTemplates = []string{
	"f=func(a){if a {1} else { {C} 2}}; [f(false), f(true), f(false)]",
	"f=func(a){if a { {C} 1 {C} } else { {C} 2 {C} }}; [f(false), f(true), f(false)]",
	"g=func(a){if a {1} else { {C} if !a {2}}}; [g(false), g(true), g(false)]",
	"g=func(a){if a {1} else { {C} if !a {2} else {3} {C} }}; [g(false), g(true)]",
	"func h(a){ {C} if a==1 {1} else if a==2 { {C} 2} else { {C} 3 {C} } {C} }; [h(1), h(2), h(3), h(3)]",
	"func h(a){ {C} x=a {C} ; x+1 {C} }; [h(1), h(2), h(1)]",
	"func k(n){ r=0; for i=n { {C} r=r+i {C} }; {C} r }; [k(3), k(4), k(3)]",
	"func k(n){ r=0; for x=[1,2,n] { {C} if x>1 { {C} r=r+x} else { {C} r=r-1 {C} } }; r }; [k(3), k(4)]",
	"func k(n){ r=0; for r<n { {C} r=r+1 {C} }; r }; [k(3), k(2)]",
	"l=(a)=>{ {C} if a { {C} 1} else { {C} 2} }; [l(true), l(false), l(false)]",
	"func o(a){ func(){ if a {1} else { {C} 2} } }; [o(false)(), o(true)(), o(false)()]",
	"func p(a){ m={1:2} {C} ; if a { {C} m[1]} else { {C} [1,2] {C} } }; [p(true), p(false), p(false)]",
	"m=macro(x){quote(if unquote(x) {1} else { {C} 2})}; func q(a){ m(a) }; [q(false), q(true)]",
	"func r(a){ if a {1} else { {C} {C} {C} 2} }; s=r; [s(false), r(false), len(format(r)) > 0]",
	"func t(a){ if a {return 1} {C} else { {C} return 2 {C} } }; [t(false), t(true)]",
	"func u(a){ if a {1} else { {C} } }; [u(false), u(true), u(false)]",
	"func v(n){ if n<=0 { {C} return 0}; {C} if n%2==0 { {C} v(n-1)+1} else { {C} v(n-1) {C} } }; [v(5), v(6)]",
}

func commentPrograms(c *Ctx) {
	o := evalOpts{maxDepth: 200, dur: 2 * time.Second}
	fills := []string{"// c\n", "/* c */", "// a\n /* b */ // d\n", "/* x */ /* y */", "\n// only\n", ""}
	show := func(r outcome) string { return r.class + " " + trunc(r.insp, 200) }
	for _, t := range commentTemplates {
		n := strings.Count(t, "{C}")
		plain := strings.ReplaceAll(t, "{C}", "")
		ref := evalSrc(plain, o)
		variants := [][]string{}
		for _, f := range fills[:5] { // the same comment in every slot
			v := make([]string, n)
			for i := range v {
				v[i] = f
			}
			variants = append(variants, v)
		}
		for i := 0; i < n; i++ { // exactly one slot filled
			for _, f := range fills[:2] {
				v := make([]string, n)
				v[i] = f
				variants = append(variants, v)
			}
		}
		rn := 6
		if c.Thorough() {
			rn = 60
		}
		for k := 0; k < rn; k++ {
			v := make([]string, n)
			for i := range v {
				v[i] = fills[c.R.Intn(len(fills))]
			}
			variants = append(variants, v)
		}
		for _, v := range variants {
			src := t
			for _, f := range v {
				src = strings.Replace(src, "{C}", f, 1)
			}
			r := check(c, "comments", src, o)
			if !r.parsed || !ref.parsed {
				continue // a comment can change how a line ends: only compare when both parse
			}
			if show(r) != show(ref) {
				c.Fail("comment-changes-outcome", src, "with comments: "+show(r)+" | without: "+show(ref))
			}
		}
	}
}

// ---------------------------------------------------------------- guards hit from inside counted loops
// A guard panic (depth, memory) or the deadline error raised in a callee unwinds through the loops that are running in
// the callers; what comes out must still be the guard (never another panic text), and the state must be usable for a
// second input with loops afterwards.
func guardsInLoops(c *Ctx) {
	callees := []struct{ def, call, want string }{
		{`f=func(s){f(s)}`, `f("x")`, "Gd"},
		{`f=func(a){f(a+1)}`, `f(i)`, "Gd"},
		{`f=func(a,b){f(a+1,b)}`, `f(i,i)`, "Gd"},
		{`f=func(a,b,c){1+f(a,b,c+1)}`, `f(1,i,2)`, "Gd"},
		{`f=func(a){for k=2 {f(a+1)}}`, `f(i)`, "Gd"},
		{`f=func(a){[f(a+1)]}`, `f(0)`, "Gd"},
		{`f=func(a){[1,2,3]*4611686018427387904}`, `f(i)`, "Gm"},
		{`f=func(s){s*6148914691236517206}`, `f("abc")`, "Gm"},
		{`f=func(a,b){for k=3 {x=0:4611686018427387904}}`, `f(i,2)`, "Gm"},
		{`f=func(a){for true {}}`, `f(i)`, "E"},
		{`f=func(a){for k=0:9223372036854775807 {k}}`, `f(i)`, "E"},
		{`f=func(a){1/0}`, `f(i)`, "E"},
	}
	loops := []string{
		"for i=2 { CALL }",
		"for i=0:2 { for j=2 { CALL } }",
		"for i=2 { for j=2 { for l=2 { CALL } } }",
		"for x=[1,2] { for i=2 { CALL } }",
		"for i=2 { for true { CALL } }",
		"func w(){ for i=2 { CALL } }; w()",
		"func w(n){ for i=n { for j=n { CALL } } }; w(2)",
		"func w(n,m){ r=0; for i=n { r=r+i; CALL }; r }; for q=2 { w(2,q) }",
		"w=(n)=>{ for i=n { CALL } }; for q=2 { w(2) }",
		"for i=2 { i++; CALL }", // a loop whose variable is not in a register
		"i=1; CALL",             // no loop: the base line
	}
	follow := "r=0; for i=3 {for j=2 {r=r+i+j}}; func z(n){t=0; for k=n {t=t+k}; t}; [r, z(4)]"
	for _, ce := range callees {
		for _, lp := range loops {
			src := ce.def + "; " + strings.ReplaceAll(lp, "CALL", ce.call)
			for _, md := range []int{40, 301} {
				o := evalOpts{maxDepth: md, dur: 25 * time.Millisecond}
				r := check(c, "guard-in-loop", src, o)
				if r.parsed && r.class != ce.want && r.class != "P" && r.class != "H" {
					c.Fail("guard-in-loop:wrong-outcome:"+ce.want, src, "class "+r.class+": "+trunc(r.msg+r.insp, 120))
				}
			}
			// through the real entry point, then a second input in the same state
			s := eval.NewState()
			s.MaxDepth = 60
			var sb strings.Builder
			s.Out, s.LogOut, s.NoLog = &sb, &sb, true
			ro := repl.EvalStringOptions()
			ro.MaxDuration = 25 * time.Millisecond
			evalCount += 2
			_, p1, errs1, _ := repl.EvalOne(context.Background(), s, src, &sb, ro)
			if p1 && len(errs1) > 0 && !strings.Contains(errs1[0], "max depth") && !strings.Contains(errs1[0], "would exceed memory") {
				c.Fail("guard-in-loop:evalone-other-panic", src, errs1[0])
			}
			sb.Reset()
			ro.MaxDuration = 2 * time.Second
			_, p2, errs2, _ := repl.EvalOne(context.Background(), s, follow, &sb, ro)
			if p2 || len(errs2) > 0 || strings.TrimSpace(sb.String()) != "[9,6]" {
				c.Fail("guard-in-loop:state-not-reusable", src+" ;; then: "+follow, fmt.Sprintf("panicked=%v errs=%v out=%q", p2, errs2, sb.String()))
			}
		}
	}
}

// ---------------------------------------------------------------- first / rest / for-in over malformed UTF-8
// first, rest and `for c = s` work on runes: []rune(s) turns every invalid byte into U+FFFD (3 bytes when re-encoded).
// All strings of 1..3 (thorough: ..4) pieces over {ASCII, lone continuation byte, lone lead byte, truncated 3- and
// 4-byte sequences, 0xff, a valid 2-byte character}.  Oracles: no panic; first(s) is the first decoded rune, rest(s) the
// re-encoding of the others (nil for a byte length <= 1), iteration yields exactly the decoded runes in order.
func runeStrings(maxPieces int) []string {
	pieces := []string{"a", "\x80", "\xc3", "\xe6\x97", "\xf0\x9f\x91", "\xff", "\xc3\xa9"}
	var out []string
	var rec func(cur string, n int)
	rec = func(cur string, n int) {
		if n > 0 {
			out = append(out, cur)
		}
		if n == maxPieces {
			return
		}
		for _, p := range pieces {
			rec(cur+p, n+1)
		}
	}
	rec("", 0)
	return out
}

func grolBytes(s string) string {
	var b strings.Builder
	b.WriteByte('"')
	for i := 0; i < len(s); i++ {
		if s[i] >= 0x80 {
			fmt.Fprintf(&b, "\\x%02x", s[i])
		} else {
			b.WriteByte(s[i])
		}
	}
	b.WriteByte('"')
	return b.String()
}

func firstRestStrings(c *Ctx) {
	o := evalOpts{maxDepth: 200, dur: 2 * time.Second}
	mp := 3
	if c.Thorough() {
		mp = 4
	}
	strOf := func(r outcome) (string, bool, bool) { // value, isString, isNil
		if r.class != "V" {
			return "", false, false
		}
		if sv, ok := r.val.(object.String); ok {
			return sv.Value, true, false
		}
		return "", false, r.val.Type() == object.NIL
	}
	for _, sv := range runeStrings(mp) {
		lit := grolBytes(sv)
		runes := []rune(sv)
		wantFirst := string(runes[:1])
		wantRest, restNil := string(runes[1:]), len(sv) <= 1
		for pi, pre := range []string{"s=" + lit + "; ", "func tf(s){ BODY }; tf(" + lit + ")", "s=" + lit + "; func tf(){ BODY }; tf()"} {
			wrap := func(body string) string {
				if strings.Contains(pre, "BODY") {
					return strings.Replace(pre, "BODY", body, 1)
				}
				return pre + body
			}
			if pi > 0 && !c.Thorough() && c.R.Pct(60) {
				continue
			}
			src := wrap("first(s)")
			if v, isS, _ := strOf(check(c, "runes:first", src, o)); !isS || v != wantFirst {
				c.Fail("first-not-first-rune", src, fmt.Sprintf("got %q (string=%v), want %q", v, isS, wantFirst))
			}
			src = wrap("rest(s)")
			r := check(c, "runes:rest", src, o)
			if v, isS, isNil := strOf(r); r.class != "P" && r.class != "H" && ((restNil && !isNil) || (!restNil && (!isS || v != wantRest))) {
				c.Fail("rest-not-remaining-runes", src, fmt.Sprintf("got %q (string=%v nil=%v class=%s), want %q (nil=%v)", v, isS, isNil, r.class, wantRest, restNil))
			}
			src = wrap(`t=""; n=0; for ch = s { t = t + ch; n = n + 1 }; [n, t]`)
			r = check(c, "runes:forin", src, o)
			if r.class == "V" {
				els := object.Elements(r.val)
				ok := len(els) == 2
				if ok {
					n, okn := els[0].(object.Integer)
					t, okt := els[1].(object.String)
					ok = okn && okt && int(n.Value) == len(runes) && t.Value == string(runes)
				}
				if !ok {
					c.Fail("forin-string-not-the-runes", src, fmt.Sprintf("got %.80s, want [%d, %q]", r.insp, len(runes), string(runes)))
				}
			} else if r.class == "E" {
				c.Fail("forin-string-not-the-runes", src, "error: "+trunc(r.insp, 100))
			}
			for _, body := range []string{"rest(rest(s))", "first(rest(s))", "rest(s[1:])", "first(s[1:])", "rest(s[0:2])", "rest(s[1:3])", "first(s[len(s)-1:])",
				"for ch = s[1:] { print(ch) }", "for ch = rest(s) { first(ch); rest(ch) }", "runes(s)", "len(rest(s))", "rest(s)+first(s)"} {
				check(c, "runes:forms", wrap(body), o)
			}
		}
	}
	// the reported witnesses
	for _, src := range []string{`rest("\xffa")`, `for c = "\xc3a" { print(c) }`, `s = "éa"; rest(s[1:3])`, `rest("\xffabc")`} {
		check(c, "runes:corpus", src, o)
	}
}

// ---------------------------------------------------------------- image operations on images of different sizes
func imagePairs(c *Ctx) {
	o := evalOpts{maxDepth: 200, dur: 2 * time.Second}
	sizes := [][2]int{{0, 0}, {1, 1}, {2, 2}, {4, 4}, {3, 5}, {5, 3}, {1, 8}, {8, 1}, {16, 16}, {0, 3}, {3, 0}}
	paint := func(name string, w, h int) string {
		if w == 0 || h == 0 {
			return ""
		}
		return fmt.Sprintf(`image.set(%q,0,0,[200,100,50]); image.set(%q,%d,%d,[10,20,30,40]); image.set_hsl(%q,%d,0,[0.5,0.5,0.5]); `,
			name, name, w-1, h-1, name, w-1)
	}
	for i, a := range sizes {
		for j, b := range sizes {
			na, nb := fmt.Sprintf("pa%d_%d", i, j), fmt.Sprintf("pb%d_%d", i, j)
			mk := fmt.Sprintf(`image.new(%q,%d,%d); image.new(%q,%d,%d); `, na, a[0], a[1], nb, b[0], b[1])
			for _, body := range []string{
				fmt.Sprintf(`image.add(%q,%q)`, na, nb),
				paint(na, a[0], a[1]) + paint(nb, b[0], b[1]) + fmt.Sprintf(`image.add(%q,%q); image.add(%q,%q); image.add(%q,%q); len(image.png(%q))`, na, nb, nb, na, na, na, na),
				paint(nb, b[0], b[1]) + fmt.Sprintf(`image.move_to(%q,0,0); image.line_to(%q,%d,%d); image.quad_to(%q,1,1,%d,0); image.draw(%q,[255,0,0]); image.add(%q,%q)`,
					nb, nb, b[0], b[1], nb, b[0], nb, na, nb),
				fmt.Sprintf(`func tf(x,y){ image.add(x,y) }; tf(%q,%q); tf(%q,%q)`, na, nb, nb, na),
			} {
				check(c, "image-pairs", mk+body, o)
			}
		}
		// single-image operations on every size, coordinates in and out of the image
		n := fmt.Sprintf("ps%d", i)
		check(c, "image-sizes", fmt.Sprintf(`image.new(%q,%d,%d); `, n, a[0], a[1])+paint(n, max(a[0], 1), max(a[1], 1))+
			fmt.Sprintf(`image.set(%q,%d,%d,[1,2,3]); image.set(%q,-1,-1,[1,2,3]); image.move_to(%q,-3,-3); image.cube_to(%q,1,1,%d,%d,20,20); image.close_path(%q); `+
				`image.draw_hsl(%q,[0.1,0.2,0.3]); image.draw_ycbcr(%q,[1,2,3]); image.png(%q); image.save(%q)`, n, a[0], a[1], n, n, n, a[0], a[1], n, n, n, n, n), o)
	}
}

// ---------------------------------------------------------------- wild grammar-generated programs
type wild struct {
	c     *Ctx
	depth int
}

var wildIdents = []string{"a", "b", "c", "f", "g", "x", "n", "A", "B_1", "self", "info", "PI", "nil", "sin", "max", "keys", "str", "abs", "m", ".."}

func (w *wild) pick(l []string) string { return l[w.c.R.Intn(len(l))] }

func (w *wild) atom() string {
	switch w.c.R.Intn(12) {
	case 0, 1:
		return intLit(boundaryInts[w.c.R.Intn(len(boundaryInts))])
	case 2:
		return w.pick([]string{"0.5", "1e308", "NaN", "Inf", "(-0.0)", "2.5"})
	case 3:
		return w.pick([]string{`""`, `"a"`, `"abc"`, `"x\ny"`})
	case 4:
		return w.pick([]string{"true", "false", "nil"})
	default:
		return w.pick(wildIdents)
	}
}

func (w *wild) list(n int, sep string, f func() string) string {
	var p []string
	for i := 0; i < n; i++ {
		p = append(p, f())
	}
	return strings.Join(p, sep)
}

func (w *wild) expr() string {
	w.depth++
	defer func() { w.depth-- }()
	if w.depth > 5 {
		return w.atom()
	}
	r := w.c.R
	switch r.Intn(24) {
	case 0, 1, 2:
		return w.atom()
	case 3, 4, 5:
		return "(" + w.expr() + " " + w.pick(binOps) + " " + w.expr() + ")"
	case 6:
		return w.pick(prefixOps) + w.expr()
	case 7:
		return "[" + w.list(r.Intn(4), ",", w.expr) + "]"
	case 8:
		return "{" + w.list(r.Intn(3), ",", func() string { return w.expr() + ":" + w.expr() }) + "}"
	case 9:
		return w.expr() + "[" + w.expr() + "]"
	case 10:
		return w.expr() + "[" + w.expr() + ":" + w.pick([]string{"", w.expr()}) + "]"
	case 11:
		return w.pick(wildIdents) + "(" + w.list(r.Intn(4), ",", w.expr) + ")"
	case 12:
		return "(" + w.expr() + ")(" + w.list(r.Intn(3), ",", w.expr) + ")"
	case 13:
		return "func" + w.pick([]string{"", " f", " g"}) + "(" + w.list(r.Intn(3), ",", func() string { return w.pick([]string{"a", "b", "n", "x", "A"}) }) +
			w.pick([]string{"", "", ",.."}) + "){" + w.stmts(1+r.Intn(3)) + "}"
	case 14:
		return "(" + w.pick([]string{"a", "n", "x"}) + "=>" + w.expr() + ")"
	case 15:
		return w.pick([]string{"len", "first", "rest", "catch", "quote", "unquote", "del", "print", "log", "error", "println"}) +
			"(" + w.list(r.Intn(3), ",", w.expr) + ")"
	case 16:
		return "if " + w.expr() + " {" + w.stmts(1+r.Intn(2)) + "}" + w.pick([]string{"", " else {" + w.stmts(1) + "}", " else if " + w.expr() + " {" + w.stmts(1) + "}"})
	case 17:
		return "for " + w.pick([]string{w.expr(), "n=" + w.expr(), "x=" + w.expr() + ":" + w.expr(), "3", "a = [1,2,3]", "n := 4"}) + " {" + w.stmts(1+r.Intn(2)) + "}"
	case 18:
		return w.pick(wildIdents) + w.pick([]string{"++", "--"})
	case 19:
		return w.expr() + "." + w.pick([]string{"a", "key", "value", "err", "b"})
	case 20:
		return "macro(" + w.list(r.Intn(3), ",", func() string { return w.pick([]string{"a", "b"}) }) + "){" + w.stmts(1) + "}"
	case 21:
		return "quote(" + w.expr() + ")"
	case 22:
		return "unquote(" + w.expr() + ")"
	default:
		return w.pick([]string{"return", "break", "continue", "return " + w.atom()})
	}
}

func (w *wild) stmts(n int) string {
	var p []string
	for i := 0; i < n; i++ {
		switch w.c.R.Intn(6) {
		case 0, 1:
			p = append(p, w.pick([]string{"a", "b", "c", "f", "g", "x", "n", "A", "m", "a[0]", "a.b", "x[n]", "m[\"k\"]"})+
				w.pick([]string{"=", "=", ":="})+w.expr())
		default:
			p = append(p, w.expr())
		}
	}
	return strings.Join(p, w.pick([]string{";", "\n", " "}))
}

// ---------------------------------------------------------------- byte mutations of the shipped programs
func corpusFiles() map[string][]byte {
	out := map[string][]byte{}
	for _, g := range []string{"/repo/examples/*.gr", "/repo/tests/*.gr"} {
		fs, _ := filepath.Glob(g)
		for _, f := range fs {
			b, err := os.ReadFile(f)
			if err == nil && !strings.Contains(f, "shell.gr") { // exec/run are not registered here
				out[filepath.Base(filepath.Dir(f))+"/"+filepath.Base(f)] = b
			}
		}
	}
	return out
}

var mutTokens = []string{"0", "-1", "9223372036854775807", "(-9223372036854775807-1)", "nil", "[]", "{}", "\"\"", "NaN", "/0", "%0", "<<-1",
	"[-9:1]", "[0:]", "*4611686018427387904", "del(", "quote(", "unquote(", "macro(", "func(", "=>", "..", ":", ";", ")", "(", "}", "{", "]", "[",
	"return ", "break ", "self", "info", ".a", "++", "--", "catch(", "error(", "1.5", "true"}

func mutate(r *Rng, b []byte) []byte {
	out := append([]byte(nil), b...)
	n := 1 + r.Intn(3)
	for i := 0; i < n && len(out) > 0; i++ {
		p := r.Intn(len(out))
		switch r.Intn(7) {
		case 0: // flip a byte to another printable
			out[p] = byte(32 + r.Intn(95))
		case 1: // delete a span
			q := min(len(out), p+1+r.Intn(6))
			out = append(out[:p], out[q:]...)
		case 2: // duplicate a span
			q := min(len(out), p+1+r.Intn(12))
			out = append(out[:q], append(append([]byte(nil), out[p:q]...), out[q:]...)...)
		case 3, 4: // insert a token
			t := []byte(mutTokens[r.Intn(len(mutTokens))])
			out = append(out[:p], append(t, out[p:]...)...)
		case 5: // replace a number
			q := p
			for q < len(out) && (out[q] < '0' || out[q] > '9') {
				q++
			}
			e := q
			for e < len(out) && out[e] >= '0' && out[e] <= '9' {
				e++
			}
			if e > q {
				t := []byte(intLit(boundaryInts[r.Intn(len(boundaryInts))]))
				out = append(out[:q], append(t, out[e:]...)...)
			}
		case 6: // swap two bytes
			q := r.Intn(len(out))
			out[p], out[q] = out[q], out[p]
		}
	}
	return out
}

// ---------------------------------------------------------------- builtin / extension sweep
type sv struct {
	kind string
	src  string
}

func sweepValues(thorough bool) []sv {
	v := []sv{{"int0", "0"}, {"int", "3"}, {"intneg", "(-1)"}, {"intmax", "9223372036854775807"}, {"intmin", "(-9223372036854775807-1)"},
		{"float", "0.25"}, {"nan", "NaN"}, {"inf", "Inf"}, {"bool", "true"}, {"nil", "nil"},
		{"str0", `""`}, {"str", `"ab"`}, {"strimg", `"vimg"`}, {"arr0", "[]"}, {"arr", "[1,2,3]"}, {"arrbig", "[0,1,2,3,4,5,6,7,8,9]"}, {"arrmix", `["a",1.5,nil,[1]]`},
		{"map0", "{}"}, {"map", `{"a":1,"b":[2]}`}, {"mapbig", `{1:1,2:2,3:3,4:4,5:5}`}, {"func", "func(a){a}"}, {"lambda", "()=>1"},
		{"ext", "sin"}, {"quote", "quote(x+1)"}, {"ref", "gref"}, {"refarr", "garr"}, {"refstr", "gstr"}}
	if thorough {
		v = append(v, []sv{{"int64", "64"}, {"float-big", "1e300"}, {"neginf", "(-Inf)"}, {"negzero", "(-0.0)"}, {"strbad", `"\xff\x00("`}, {"strfmt", `"%d %s %v %*d %[3]x"`},
			{"strlong", `("ab"*200)`}, {"arr3f", "[0.5,0.5,0.5]"}, {"arr4", "[255,0,256,-1]"}, {"false", "false"}, {"reffn", "gfn"}, {"refmap", "gmap"}}...)
	}
	return v
}

const sweepPrelude = `gref=7;garr=[1,2];gstr="s";gfn=x=>x;gmap={1:2};image.new("vimg",4,4);`

func sweep(c *Ctx) {
	exts := object.ExtraFunctions()
	names := make([]string, 0, len(exts))
	for n := range exts {
		if n != "vprobe" {
			names = append(names, n)
		}
	}
	sort.Strings(names)
	c.Extra["extensions"] = len(names)
	vals := sweepValues(c.Thorough())
	o := evalOpts{maxDepth: 200, dur: 25 * time.Millisecond}
	run := func(name string, args []sv) {
		var as, ks []string
		for _, a := range args {
			as = append(as, a.src)
			ks = append(ks, a.kind)
		}
		call := name + "(" + strings.Join(as, ",") + ")"
		for wi, src := range []string{sweepPrelude + call, sweepPrelude + "func tf(){" + call + "};tf()"} {
			if wi == 1 && len(args) == 0 {
				continue
			}
			evalCount++
			r := evalSrc(src, o)
			if !r.parsed {
				c.Fail("generator:noparse", src, "sweep call does not parse")
				return
			}
			c.Count("sweep:" + r.class)
			if r.class == "P" {
				c.Fail("ext-panic:"+name+":"+strings.Join(ks, ","), src, r.pclass+" in "+r.origin+": "+r.msg)
			}
			if r.class == "H" {
				c.Fail("ext-hang:"+name+":"+strings.Join(ks, ","), src, r.msg)
			}
			if r.class != "V" {
				c.NonTrivial("sweep|" + name + "|" + r.class + "|" + strings.Join(ks, ","))
			}
		}
	}
	for _, name := range names {
		e := exts[name]
		maxN := e.MaxArgs
		if maxN < 0 {
			maxN = e.MinArgs + 2
		}
		maxN++
		// the type-correct argument vector (by declared type), used as the base for one-wrong-position vectors
		base := func(n int) []sv {
			out := make([]sv, n)
			for i := range out {
				t := object.ANY
				if i < len(e.ArgTypes) {
					t = e.ArgTypes[i]
				}
				switch t {
				case object.INTEGER:
					out[i] = sv{"int", "3"}
				case object.FLOAT:
					out[i] = sv{"float", "0.25"}
				case object.STRING:
					out[i] = sv{"strimg", `"vimg"`}
				case object.ARRAY:
					out[i] = sv{"arr", "[1,2,3]"}
				case object.BOOLEAN:
					out[i] = sv{"bool", "true"}
				case object.MAP:
					out[i] = sv{"map", `{"a":1}`}
				case object.FUNC:
					out[i] = sv{"func", "func(a){a}"}
				default:
					out[i] = sv{"int", "3"}
				}
			}
			return out
		}
		for n := 0; n <= maxN; n++ {
			switch {
			case n == 0:
				run(name, nil)
			case n <= 2: // full cartesian product
				var rec func(cur []sv)
				rec = func(cur []sv) {
					if len(cur) == n {
						run(name, cur)
						return
					}
					for _, v := range vals {
						rec(append(cur, v))
					}
				}
				rec(nil)
			default: // one position at a time over all values, the others type-correct; plus all-same vectors
				b := base(n)
				run(name, b)
				for i := 0; i < n; i++ {
					for _, v := range vals {
						cur := append([]sv(nil), b...)
						cur[i] = v
						run(name, cur)
					}
				}
				for _, v := range vals {
					cur := make([]sv, n)
					for i := range cur {
						cur[i] = v
					}
					run(name, cur)
				}
			}
		}
	}
}

// ---------------------------------------------------------------- repl.EvalOne agreement
// The same outcome class must come out of the real entry point (panicked flag, "panic:" message).
func evalOneAgrees(c *Ctx, src string) {
	r := evalSrc(src, std)
	if !r.parsed {
		return
	}
	s := eval.NewState()
	s.MaxDepth = std.maxDepth
	var sb strings.Builder
	s.Out, s.LogOut, s.NoLog = &sb, &sb, true
	o := repl.EvalStringOptions()
	o.MaxDuration = std.dur
	var panicked bool
	var errs []string
	func() {
		defer func() {
			if rec := recover(); rec != nil {
				c.Fail("evalone-escaped-panic", src, fmt.Sprint(rec))
			}
		}()
		_, panicked, errs, _ = repl.EvalOne(context.Background(), s, src, &sb, o)
	}()
	evalCount++
	want := r.class == "P" || r.class == "Gd" || r.class == "Gm"
	if panicked != want {
		c.Fail("evalone-panicked-flag", src, fmt.Sprintf("EvalOne panicked=%v errs=%v, own pipeline class %s", panicked, errs, r.class))
	}
	if panicked {
		// the state must be usable again (Reset) and report depth guard text as documented
		_, p2, _, _ := repl.EvalOne(context.Background(), s, "1+1", &sb, o)
		if p2 {
			c.Fail("evalone-not-reusable", src, "state unusable after a recovered panic")
		}
	}
}

// ---------------------------------------------------------------- main
func runC07(c *Ctx) {
	c.Rule = "every generated program that parses is evaluated like repl.EvalOne under recover(); non-trivial = distinct " +
		"(generator, outcome class, error kind) with an outcome other than a plain value; correspondence cases: integer operator x " +
		"boundary operand pairs, slice/index/assignment triples (exhaustive for len<=6, bounds in [-8,8] plus extremes), repeat/concat sizes, " +
		"applyExtension validation"
	log.SetLogLevelQuiet(log.Critical)
	log.SetOutput(io.Discard)
	log.Config.FatalPanics = false
	debug.SetMemoryLimit(memLimit)
	if err := extensions.Init(&extensions.Config{HasLoad: true, HasSave: true}); err != nil {
		panic(err)
	}
	if dn, err := os.Open(os.DevNull); err == nil {
		os.Stdin = dn
	}
	cwd, _ := os.Getwd()
	scratch, err := os.MkdirTemp(c.Out, "scratch")
	if err != nil {
		panic(err)
	}
	_ = os.Chdir(scratch)
	defer func() {
		_ = os.Chdir(cwd)
		_ = os.RemoveAll(scratch)
		c.Evals += evalCount
	}()

	if c.ReplayCase != "" {
		r := check(c, "replay", c.ReplayCase, evalOpts{maxDepth: 300, dur: 500 * time.Millisecond})
		fmt.Printf("replay: class=%s pclass=%s origin=%s msg=%s value=%.200s\n", r.class, r.pclass, r.origin, r.msg, r.insp)
		return
	}

	// 1. corpus first: the witnesses of the defects found on the pinned tree (all repaired, see notes/C07.md)
	corpus := []string{"1/0", "1%0", "1<<-1", "1>>-1", "catch(1/0)", "log(1/0)", `eval("1/0")`, `"abc"[-5:2]`, "a=[1,2,3];a[-7:1]", `"abc"[-5:-4]`,
		"m={1:1,2:2,3:3};m[-9:1]", "x=1;func g(){del(x)};func f(){x;g();x};f()", "[1,2]*4611686018427387904", `"abc"*6148914691236517206`,
		"x=[1,2,3]*6148914691236517206", "0:4611686018427387904", "9223372036854775807:-2", "func f(n){g=func(n){n};n};f(1)", "for n=0:3{func(n){n}}",
		`quote(unquote("a"))`, `m=macro(a){quote("s" | unquote("str"))};m(1)`, `regsub("a","b")`, "a[0]=macro(x){x}", "a.b=macro(x){x}", `"s"=macro(x){x}`,
		"[]*3", "quote(1)==quote(2)", "{quote(1):1}", "min(quote(1),quote(2))",
		"func f(a,b,c,d,e,f,g,h,i){a+i};f(1,2,3,4,5,6,7,8,9)",
		// register stack: a rewritable counted loop around one whose body cannot be rewritten (seeded regression 1)
		"for i = 3 { for j = 2 { j++ } }", "for i = 3 { for j = 2 { --j } }", "for i = 3 { for j = 2 { j(1) } }",
		"for i = 3 { for j = 2 { j = 5 } }", "for i = 3 { for j = 2 { f = func(){j} } }", "func lf(){ for i = 3 { for j = 2 { j++ } } }; lf()",
		"for i = 3 { for j = 2 { for k = 2 { k++ } } }", "for i = 3 { for j = 2 { j++; break } }; for i = 2 { i }",
		// memo cache key: a small map whose KEY Go cannot hash (seeded regression 2A)
		"func f(m){len(m)}; f({[1,2,3,4,5,6,7,8,9]:1})", "func f(m){len(m)}; f({(x=>x):1})", "func f(a){len(a)}; f([{[1,2,3,4,5,6,7,8,9]:1}])",
		"func f(a){len(a)}; f({1:{[1,2,3,4,5,6,7,8,9]:1}})",
		// a ninth simultaneous register (seeded regression 2B)
		"func l8(a,b,c,d,e,g,h,k){r=0; for i=3{r=r+a+b+c+d+e+g+h+k+i}; r}; l8(1,1,1,1,1,1,1,1)",
		"r=0; for i=2 {for j=2 {for k=2 {for l=2 {for m=2 {for o=2 {for p=2 {for u=2 {for v=2 { r=r+i+v }}}}}}}}}; r",
		// macro bodies are evaluated in their own state: output, nested expressions, function calls (found with C09, repaired)
		"m=macro(a){println(1); quote(1)}; m(1)", "m=macro(a){x=1+2; quote(unquote(a))}; m(1)", "m=macro(a){func g(){1}; g(); quote(1)}; m(1)",
		"m=macro(a){print(a); log(a); quote(unquote(a))}; m(1+2)", `unjson("println(1); [1,{2:3}]")`,
		// range index on non-ASCII strings: byte bounds on a byte string (seeded regression 3)
		`s="日本語のテキスト"*8; s[0:len(s)]`, `s="日本語のテキスト"*8; s[-3:]`, `"héllo wörld, grüß dich, señor, ça va très bien aujourd'hui"[1:]`,
		`func tf(s,a){s[a:]}; tf("日本語のテキスト"*8, 3)`,
		// comments in the else block of a called function (seeded regression 4-1); guard below a counted loop (4-2)
		"f=func(a){if a {1} else { // c\n 2}}; f(false)", "g=func(a){if a {1} else { /* c */ if !a {2}}}; g(false)",
		`f=func(s){f(s)}; for i=2 {f("x")}`, "g=func(a,b){g(a+1,b)}; for i=2{g(i,i)}",
		// image.add with a smaller / empty second image (seeded regression 5-1); rest of a string starting with an invalid byte (5-2)
		`image.new("ca",4,4); image.new("cb",2,2); image.add("ca","cb")`, `image.new("cc",3,3); image.new("cz",0,0); image.add("cc","cz")`,
		`rest("\xffa")`, `for c = "\xc3a" { print(c) }`, `s = "éa"; rest(s[1:3])`,
		// eval of an incomplete text (repaired by 9466c2d); a macro body calling eval (seeded regression 6-1)
		`eval("()=> /* abc")`, `defun("df", [], ["()=> /* abc"])`, `m = macro(a){ eval("abs(-1)"); quote(unquote(a)) }; m(3)`,
		// open-ended range outside an index expression with a register on the left (seeded regression 7)
		"func(n){[n:]}(1)", "for i = 2 {[i:]}", "func tf(n){ x = n:; x }; tf(1)",
		// unquote of a computed array in positions whose child token is inspected (seeded regression 8-1)
		"m=macro(){l=[1,2,3]; quote(for x = unquote(l) {println(x)})}; m()", "l=[1,2,3]; quote(()=>unquote(l))", "l=[1,2,3]; quote(if c {1} else {unquote(l)})",
		"l=[1,2,3]; m=macro(){quote(unquote(l).k)}; m()"}
	for _, s := range corpus {
		check(c, "corpus", s, std)
		evalOneAgrees(c, s)
	}
	evalOneAgrees(c, "func f(n){f(n+1)};f(0)")
	evalOneAgrees(c, "1+1")

	// 2. correspondence with the Arith model
	for _, op := range intOps {
		for _, a := range boundaryInts {
			for _, b := range boundaryInts {
				iopCase(c, op, a, b)
			}
		}
		n := 150
		if c.Thorough() {
			n = 5000
		}
		for i := 0; i < n; i++ {
			a, b := int64(c.R.Next()), int64(c.R.Next())
			if c.R.Pct(40) {
				b = boundaryInts[c.R.Intn(len(boundaryInts))]
			}
			if c.R.Pct(20) {
				a = boundaryInts[c.R.Intn(len(boundaryInts))]
			}
			if op == ":" && c.R.Pct(50) {
				b = a + int64(c.R.Intn(300))
			}
			iopCase(c, op, a, b)
		}
	}
	var bounds []idx
	for v := int64(-8); v <= 8; v++ {
		bounds = append(bounds, idx{true, v, ""})
	}
	for _, v := range []int64{math.MinInt64, math.MinInt64 + 1, math.MaxInt64, math.MaxInt64 - 1, 1 << 62, -(1 << 62)} {
		bounds = append(bounds, idx{true, v, ""})
	}
	others := []idx{{false, 0, "nil"}, {false, 0, "f"}}
	maxLen := 6
	for _, kind := range []string{"S", "A", "M", "N", "O"} {
		for n := 0; n <= maxLen; n++ {
			if (kind == "N" || kind == "O") && n > 0 {
				continue
			}
			k := cont{kind, n}
			for _, l := range bounds {
				for _, r := range bounds {
					r := r
					if (kind == "N" || kind == "O") && c.R.Pct(80) {
						continue
					}
					sliceCase(c, k, l, &r)
				}
				sliceCase(c, k, l, nil)
				indexCase(c, k, l)
				if kind == "A" {
					iassignCase(c, n, l)
				}
			}
			for _, o := range others {
				o := o
				sliceCase(c, k, o, nil)
				sliceCase(c, k, bounds[3], &o)
				sliceCase(c, k, o, &o)
				indexCase(c, k, o)
				if kind == "A" {
					iassignCase(c, n, o)
				}
			}
		}
	}
	c.Extra["exhaustive"] = true
	for _, kind := range []string{"S", "A"} {
		for _, n := range []int{0, 1, 2, 3, 9, 26} {
			for _, r := range boundaryInts {
				repCase(c, kind, n, r)
			}
			for i := 0; i < 40; i++ {
				repCase(c, kind, n, int64(c.R.Next()>>uint(c.R.Intn(64))))
			}
		}
	}
	for _, n1 := range []int{0, 1, 8, 9, 200, 300} {
		for _, n2 := range []int{0, 1, 8, 9, 57, 300} {
			concatCase(c, n1, n2)
		}
	}
	// applyExtension validation: the signatures of every registered extension plus random ones
	pool := extArgPool()
	type sig struct {
		minA, maxA int
		types      []object.Type
	}
	var sigs []sig
	seen := map[string]bool{}
	for _, e := range object.ExtraFunctions() {
		k := fmt.Sprint(e.MinArgs, e.MaxArgs, e.ArgTypes)
		if !seen[k] && e.MinArgs <= 3 {
			seen[k] = true
			sigs = append(sigs, sig{e.MinArgs, e.MaxArgs, e.ArgTypes})
		}
	}
	sort.Slice(sigs, func(i, j int) bool { return fmt.Sprint(sigs[i]) < fmt.Sprint(sigs[j]) })
	tys := []object.Type{object.INTEGER, object.FLOAT, object.STRING, object.ARRAY, object.BOOLEAN, object.ANY, object.MAP, object.FUNC}
	nr := 60
	if c.Thorough() {
		nr = 600
	}
	for i := 0; i < nr; i++ {
		mn := c.R.Intn(3)
		mx := mn + c.R.Intn(3)
		if c.R.Pct(30) {
			mx = -1
		}
		nt := mn + c.R.Intn(3)
		var ts []object.Type
		for j := 0; j < nt; j++ {
			ts = append(ts, tys[c.R.Intn(len(tys))])
		}
		sigs = append(sigs, sig{mn, mx, ts})
	}
	for _, sg := range sigs {
		reps := 12
		if c.Thorough() {
			reps = 60
		}
		for i := 0; i < reps; i++ {
			na := c.R.Intn(5)
			var args []extArg
			for j := 0; j < na; j++ {
				if j < len(sg.types) && c.R.Pct(50) { // bias towards an argument of the declared type
					want := sg.types[j]
					var cands []extArg
					for _, p := range pool {
						if p.under == want || (want == object.FLOAT && p.under == object.INTEGER) {
							cands = append(cands, p)
						}
					}
					if len(cands) > 0 {
						args = append(args, cands[c.R.Intn(len(cands))])
						continue
					}
				}
				args = append(args, pool[c.R.Intn(len(pool))])
			}
			extCase(c, sg.minA, sg.maxA, sg.types, args)
		}
	}
	c.Case("SITES", "SITES accounted")

	// 3. type-directed programs with wrong operand kinds and boundary operands
	typeDirected(c)

	// 3b. nested counted loops with rewritable and non-rewritable bodies (register stack balance)
	nestedLoops(c)

	// 3c. memo cache key path for every argument shape; 3d. register file pressure
	cacheArgs(c)
	registerPressure(c)

	// 3e. slicing / indexing of non-ASCII strings (byte semantics everywhere)
	unicodeSlices(c)

	// 3f. comments inside called functions; 3g. guards raised below running counted loops
	commentPrograms(c)
	guardsInLoops(c)

	// 3h. first / rest / for-in over malformed UTF-8; 3i. image operations on images of different sizes
	firstRestStrings(c)
	imagePairs(c)

	// 3j. run-time re-entry (eval, unjson, defun, load) with truncated and malformed texts; 3k. macro bodies calling
	//     builtins / extensions (both in reentry.go)
	reentryTexts(c)
	macroBodyCalls(c)
	// 3l. trees with nil children (open-ended `:`, empty blocks, bare return, no else) x register-held variables
	nilChildShapes(c)
	// 3m. unquote of computed values in every inspected position; 3n. save / auto-save under every length limit
	unquoteComputed(c)
	saveLimits(c)

	// 3o. the same evaluator at log levels Verbose and Debug, output discarded: the ARGUMENTS of log calls (pretty-printed
	//     trees, Inspect of values, DebugString of tokens) are evaluated even when nobody reads the line
	for _, lvl := range []log.Level{log.Verbose, log.Debug} {
		log.SetLogLevelQuiet(lvl)
		for _, src := range corpus {
			check(c, "loglevel:corpus", src, std)
		}
		nilChildShapes(c)
		if lvl == log.Verbose || c.Thorough() { // (formatting every token and value makes each program several times slower)
			registerPressure(c)
			commentPrograms(c)
		}
		if c.Thorough() {
			guardsInLoops(c)
			nestedLoops(c)
			cacheArgs(c)
			macroBodyCalls(c)
			unquoteComputed(c)
		}
	}
	log.SetLogLevelQuiet(log.Critical)

	// 4. builtin / extension sweep
	sweep(c)

	// 5. wild programs
	nw := 2500
	if c.Thorough() {
		nw = 600000
	}
	wo := evalOpts{maxDepth: 60, dur: 20 * time.Millisecond}
	for i := 0; i < nw; i++ {
		w := &wild{c: c}
		src := w.stmts(1 + c.R.Intn(4))
		o := wo
		if c.R.Pct(10) {
			o.maxDepth = 10 + c.R.Intn(400)
		}
		check(c, "wild", src, o)
	}

	// 6. byte mutations of the shipped examples and tests
	files := corpusFiles()
	fnames := make([]string, 0, len(files))
	for f := range files {
		fnames = append(fnames, f)
	}
	sort.Strings(fnames)
	c.Extra["mutation_sources"] = len(fnames)
	nm := 600
	budget := 12 * time.Second
	if c.Thorough() {
		nm = 150000
		budget = 8 * time.Minute
	}
	mo := evalOpts{maxDepth: 120, dur: 15 * time.Millisecond}
	t0 := time.Now()
	for i := 0; i < nm && time.Since(t0) < budget; i++ {
		f := fnames[c.R.Intn(len(fnames))]
		src := string(mutate(c.R, files[f]))
		r := check(c, "mut", src, mo)
		if r.parsed {
			c.Count("mut:evaluated")
		}
	}
	c.Extra["evaluated_programs"] = evalCount
}

func trunc(s string, n int) string {
	if len(s) > n {
		return s[:n]
	}
	return s
}
