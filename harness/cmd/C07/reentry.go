package main

// C07 generators added in round 6: run-time re-entry with truncated / malformed program text, and macro bodies that
// call builtins and extensions.

import (
	"context"
	"fmt"
	"io"
	"os"
	"sort"
	"strings"
	"time"

	"grol.io/grol/eval"
	"grol.io/grol/object"
	"grol.io/grol/repl"
	. "verifharness/common"
)

// grolQuote renders s as a grol string literal.
func grolQuote(s string) string {
	var b strings.Builder
	b.WriteByte('"')
	for i := 0; i < len(s); i++ {
		switch ch := s[i]; ch {
		case '"':
			b.WriteString(`\"`)
		case '\\':
			b.WriteString(`\\`)
		case '\n':
			b.WriteString(`\n`)
		case '\t':
			b.WriteString(`\t`)
		default:
			b.WriteByte(ch)
		}
	}
	b.WriteByte('"')
	return b.String()
}

// eval(), unjson(), defun() and load() parse and evaluate a text at run time.  An incomplete text (unterminated block
// comment, string, bracket, a lambda cut after =>) may record no parse error, only the continuation flag: whatever the
// front end returns, the re-entry must end in a value or an error, never in a panic.  Every prefix of a few programs.
var reentrySeeds = []string{
	"()=> /* abc */ 1",
	"f = (a, b) => { if a > b { [a, \"x}\", {1: b}] } else { /* c */ a + b } }; f(1, 2)",
	"func g(n) { // line\n for i = n { m = {\"k\": [i, (i)]}; m.k[0] } }; g(2)",
	"m = macro(x) { quote(unquote(x) + 1) }; m(2) /* tail",
	"x = [1, 2, (3 + 4) * 5][1:]; s = \"a\\\"b\"; s[0:1] + \"c",
	"if true { 1 } else if false { 2 } else { func(){ ()=>{ 3 } }()() }",
}

func reentryTexts(c *Ctx) {
	o := evalOpts{maxDepth: 200, dur: 2 * time.Second}
	fileN := 0
	for _, seed := range reentrySeeds {
		for cut := 0; cut <= len(seed); cut++ {
			text := seed[:cut]
			q := grolQuote(text)
			progs := []string{
				"eval(" + q + ")",
				"unjson(" + q + ")",
				"func tf(t){ eval(t) }; tf(" + q + "); tf(" + q + ")",
				"catch(eval(" + q + "))",
			}
			if cut%3 == 0 || c.Thorough() {
				progs = append(progs,
					`defun("df", ["a"], [`+q+`]); df(1)`,
					`defun("", [], [`+q+`, "1"])`,
					`defun(`+q+`, ["a"], ["a"])`,
					`defun("df", [`+q+`], ["1"])`,
					"for i = 2 { eval("+q+") }")
			}
			for _, p := range progs {
				check(c, "reentry", p, o)
			}
			if cut%5 == 0 || c.Thorough() { // load() reads the text from a file of the scratch directory
				fileN++
				name := fmt.Sprintf("re%d", fileN)
				if os.WriteFile(name+".gr", []byte(text), 0o644) == nil {
					check(c, "reentry:load", `load("`+name+`")`, o)
					check(c, "reentry:load", `func tf(){ load("`+name+`") }; tf()`, o)
					_ = os.Remove(name + ".gr")
				}
			}
		}
	}
	// hand-made malformed texts
	for _, text := range []string{"()=>", "()=> /* abc", "a =>", "(a,b)=>", "func(", "func f(a", "[1,2", "{1:", "{1:2", "\"abc", "x = \"", "/*", "/* a */ /*", "((((", "f(1,",
		"if true {", "if true {1} else", "for i =", "for i = 3 {", "m = macro(", "quote(", "1 +", "-", "!", "a.", "a[", "a[1:", "..", "return", "x := ", "@", "\x00", "1e+", ".5."} {
		q := grolQuote(text)
		for _, p := range []string{"eval(" + q + ")", "unjson(" + q + ")", `defun("df", [], [` + q + `])`, "m = macro(a){ quote(unquote(a)) }; m(eval(" + q + "))"} {
			check(c, "reentry:malformed", p, o)
		}
	}
}

// A macro body is evaluated in its own throw-away state.  Whatever that state can or cannot see (extensions, macros,
// registers), calling any builtin or extension by name from a macro body, with texts that themselves contain calls and
// macro definitions, must end in a value or an error.
func macroBodyCalls(c *Ctx) {
	o := evalOpts{maxDepth: 200, dur: 500 * time.Millisecond}
	exts := object.ExtraFunctions()
	names := make([]string, 0, len(exts))
	for n := range exts {
		if n != "vprobe" {
			names = append(names, n)
		}
	}
	sort.Strings(names)
	argFor := func(t object.Type) string {
		switch t {
		case object.INTEGER:
			return "3"
		case object.FLOAT:
			return "0.25"
		case object.STRING:
			return `"abs(-1)"`
		case object.ARRAY:
			return "[1,2,3]"
		case object.BOOLEAN:
			return "true"
		case object.MAP:
			return `{"a":1}`
		case object.FUNC:
			return "func(x){x}"
		}
		return "1"
	}
	for _, n := range names {
		e := exts[n]
		var args []string
		for i := 0; i < e.MinArgs; i++ {
			t := object.ANY
			if i < len(e.ArgTypes) {
				t = e.ArgTypes[i]
			}
			args = append(args, argFor(t))
		}
		call := n + "(" + strings.Join(args, ",") + ")"
		for _, src := range []string{
			"m = macro(a){ " + call + "; quote(unquote(a)) }; m(3)",
			"m = macro(a){ x = " + call + "; quote(unquote(a) + 1) }; func tf(){ m(3) }; tf(); tf()",
			"m = macro(a){ quote(" + call + ") }; m(3)",
			"m = macro(a){ quote(unquote(a)) }; m(" + call + ")",
		} {
			check(c, "macro-calls", src, o)
		}
	}
	texts := []string{"abs(-1)", "1+1", "m2 = macro(x){ quote(unquote(x)) }; m2(1)", "m(1)", "func g(){ g2 = 1 }; g()", `eval(\"1\")`, "quote(1)", "()=> /* abc", "[1,", ""}
	for _, t := range texts {
		for _, f := range []string{`eval("%s")`, `unjson("%s")`, `defun("df", ["a"], ["%s"])`, `load("%s")`, `sprintf("%%s", "%s")`, `type("%s")`, `int("%s")`, `json("%s")`,
			`len("%s")`, `first("%s")`, `print("%s")`, `log("%s")`, `error("%s")`, `catch(eval("%s"))`} {
			call := fmt.Sprintf(f, t)
			for _, src := range []string{
				"m = macro(a){ " + call + "; quote(unquote(a)) }; m(3)",
				"m = macro(a){ r = " + call + "; quote(unquote(a)) }; m(3); m(4)",
				"m = macro(a, b){ " + call + "; quote(unquote(a) + unquote(b)) }; func tf(n){ m(n, 2) }; tf(1)",
				"inner = macro(z){ quote(unquote(z)) }; m = macro(a){ " + call + "; quote(inner(unquote(a))) }; m(3)",
			} {
				check(c, "macro-calls:text", src, o)
			}
		}
	}
}

// ---------------------------------------------------------------- AST shapes with nil children x register-held operands
// The parser accepts trees with nil children: an open-ended range `n:` wherever an expression is accepted (not only inside
// an index), empty blocks, a bare return, an if without else.  Integer parameters and loop variables live in registers and
// the evaluator has shortcuts for them (live-register operands of infix expressions, rewritten bodies); every such shape
// is evaluated with the variable held in a register (function parameter, loop variable, lambda parameter, nested), in a
// plain variable, and as a non-integer parameter.
func nilChildShapes(c *Ctx) {
	o := evalOpts{maxDepth: 200, dur: 500 * time.Millisecond}
	shapes := []string{
		// open-ended `:` in every expression position
		"[V:]", "(V:)", "x = V:", "V:", "return V:", "len(V:)", "[1,2,3][V:]", "a=[1,2,3]; a[V:]", "a=[1,2,3]; a[V:][V:]", "idf(V:)", "{1: V:}", "{V: V:}",
		"V + (V:)", "(V:) + 1", "-(V:)", "!(V:)", "(V:)[0]", "if V: {1}", "for x = V: {x}", "for V: {}", "V:V", "[V:V][0:]", "print(V:)", "catch(V:)", "quote(V:)",
		"first(V:)", "V == (V:)", "(V:) == (V:)", "[V:, V]", "[V, V:]", "x = [V:]; x", "y = (V:); y", "W:", "[W:]", "[V:][W:]", "V:W", "(V+1):", "[(V*2):]", "[V:]+[V:]",
		"for k = 2 { [k:] }", "for k = 2 { [V:]; [k:] }", "func(q){[q:]}(V)", "(q => [q:])(V)", "[V:] == [V:]", "a = [V:]; a[0:]", "s=\"abc\"; s[V:]", "m={1:2}; m[V:]",
		// empty blocks, bare return, missing else, comment-only blocks
		"if V>0 {}", "if V>0 {} else {}", "if V>5 {1}", "if V>5 {1} else {}", "for V {}", "for j = V {}", "for j = V {j}", "return", "return; V", "func(){}()", "()=>{}",
		"(()=>{})()", "if V==0 {return}; V", "for true {break}", "for j = V {continue}", "{}", "[]", "if V>0 { /* c */ }", "for k = V { // c\n }", "x = if V>0 {}", "x = for V {}; x",
		"y = func(){}(); y", "[if V>5 {1}]", "{1: if V>5 {1}}", "V + (if V>5 {1})", "V + (for V {})", "V + func(){}()", "-(if V>5 {1})", "idf(if V>5 {1})", "idf(for V {})",
		"V++", "V--", "++V", "--V", "V = V + 1; [V:]", "V := 5; [V:]", "del(V); V", "del(V); [V:]",
	}
	contexts := []string{
		"func(V){ S }(1)",
		"func tf(V){ S }; tf(2); tf(0)",
		"func tf(V, W){ S }; tf(1, 2)",
		"for V = 2 { S }",
		"for V = 0:3 { S }",
		"tl = (V) => { S }; tl(1)",
		"func tf(W){ for V = W { S } }; tf(2)",
		"for W = 2 { for V = 2 { S } }",
		"func tf(V){ func(){ S }() }; tf(1)",
		"V = 1; W = 2; S",
		"func tf(V){ S }; tf(\"s\")",
		"func tf(V){ S }; tf(2.5)",
	}
	for _, sh := range shapes {
		for ci, cx := range contexts {
			if !c.Thorough() && ci >= 6 && c.R.Pct(50) {
				continue
			}
			src := "idf = x => x; " + strings.ReplaceAll(cx, "S", "SSHAPE")
			src = strings.ReplaceAll(src, "SSHAPE", sh)
			src = strings.ReplaceAll(src, "V", "n")
			src = strings.ReplaceAll(src, "W", "w")
			check(c, "nil-child", src, o)
		}
	}
}

// ---------------------------------------------------------------- unquote of COMPUTED values in every inspected position
// quote(... unquote(e) ...) converts the VALUE of e back into syntax.  The node it produces is then looked at by the
// evaluator and the printers wherever they inspect a child's token (for-range operand, lambda body, else branch, dot /
// index / call / pipe / assignment / del operand ...).  Every value kind x every such position, from a macro body and
// from a run-time quote; the result is evaluated AND printed (Inspect of the quote, cache key of a function that contains
// the expansion, format(), save()).
func unquoteComputed(c *Ctx) {
	o := evalOpts{maxDepth: 200, dur: 500 * time.Millisecond}
	values := []string{"1+2", "0-3", "1.5*2", `"a"+"b"`, "nil", "1<2", "[1,2,3]", "[]", "0:12", `[1,"a",[2]]`, "{1:2}", "{}", "func(x){x}", "(x=>x)", "quote(y+1)",
		"quote([1,2])", "1/0", "sin", "first([])", `"x"*3`, "-0.0", "9223372036854775807+1", `{"k":[1]}`}
	positions := []string{
		"for x = U {println(x)}", "for U {break}", "for i = U:3 {i}", "for i = 0:U {i}", "()=>U", "(a)=>{U}", "func(){U}", "func f2(){U}; f2()",
		"if true {1} else {U}", "if false {1} else {U}", "if U {1}", "if true {U}", "if false {1} else if U {2}",
		"U.k", "U[0]", "U[0:1]", "U[1:]", "w[U]", "w[U:]", "U(1)", "U()", `"s" | U`, "U | len(1)", "U = 1", "U := 1", "w[0] = U", "U[0] = 1", "U.k = 1", "del(U)", "del(U[0])", "del(w[U])",
		"U + 1", "1 + U", "-U", "!U", "U++", "++U", "[U]", "[U, U]", "{U: 1}", "{1: U}", "len(U)", "first(U)", "print(U)", "return U", "U", "U; U", "catch(U)", "quote(U)",
		"U == U", "U : U", "U && true", "idf(U)", "idf(U)(1)", "m2(U)",
	}
	for _, v := range values {
		for pi, p := range positions {
			body := strings.ReplaceAll(p, "U", "unquote(l)")
			pre := "w = [5,6,7]; idf = x => x; m2 = macro(z){ quote(unquote(z)) }; "
			progs := []string{
				pre + "m = macro(){ l = " + v + "; quote(" + body + ") }; m()",
				pre + "l = " + v + "; q = quote(" + body + "); q",
			}
			if pi%2 == 0 || c.Thorough() {
				progs = append(progs,
					pre+"m = macro(a){ l = "+v+"; quote("+body+") }; func tf(){ m(1) }; tf(); tf(); format(tf)",
					pre+"l = "+v+"; func mk(){ quote("+body+") }; r = mk(); r; save(\"uq\")",
					pre+"m = macro(a){ quote("+strings.ReplaceAll(p, "U", "unquote(a)")+") }; m("+v+")")
			}
			for _, src := range progs {
				check(c, "unquote-computed", src, o)
			}
		}
	}
}

// ---------------------------------------------------------------- saving globals of every kind under every length limit
// save() and the auto-save of the REPL / of EvalStringWithOption (which runs OUTSIDE EvalOne's recover: a panic there
// kills the process) write every global, skipping values longer than MaxValueLen.  Globals of every kind, short and long,
// incl. brace-less lambdas and named functions, under limits 0 (unlimited), 1, 13, 14, 100 and the default 4000.
func guardedCall(c *Ctx, stage, cs string, f func()) {
	defer func() {
		if r := recover(); r != nil {
			cl, pc := classifyPanic(r)
			if cl == "P" {
				c.Fail("go-panic:"+pc+":"+panicOrigin(), cs, stage+": "+fmt.Sprint(r))
			}
		}
	}()
	evalCount++
	f()
}

func saveLimits(c *Ctx) {
	long := strings.Repeat("+1", 60)
	defs := []string{
		"i = 42", "fl = 1.5", "st = \"" + strings.Repeat("ab", 40) + "\"", "b = true", "nn = nil", "ar = 0:40", "sa = [1,2]", "mp = {1:2}", "bm = {1:1,2:2,3:3,4:4,5:5,6:6}",
		"ll = x => x" + long, "l2 = (a,b) => a+b" + long, "lb = x => { x" + long + " }", "l0 = () => 1", "sl = x=>x",
		"func named(a){ a" + long + " }", "func nn2(){}", "af = func(a){ a" + long + " }", "h = named", "qq = quote(x" + long + ")", "ex = sin",
		"func outer(){ x => x" + long + " }; cl = outer()", "nested = [x => x" + long + ", {1: y => y}]", "vr = func(a,..){ .. }",
		"m = macro(a){ quote(unquote(a)) }", "A_CONST = x => x" + long, "e = catch(1/0)",
	}
	all := strings.Join(defs, "\n")
	progs := append([]string{all, "1"}, defs...)
	for _, lim := range []int{0, 1, 13, 14, 100, 4000} {
		for pi, prog := range progs {
			if !c.Thorough() && pi > 1 && lim != 13 && lim != 100 && c.R.Pct(60) {
				continue
			}
			cs := fmt.Sprintf("max-save-len=%d ;; %s", lim, prog)
			// (a) the save() extension
			check(c, "save-limit", prog+"\nsave(\"sv\")", evalOpts{maxDepth: 200, dur: time.Second, pre: func(s *eval.State) { s.MaxValueLen = lim }})
			// (b) SaveGlobals and repl.AutoSave on a state that evaluated the program
			guardedCall(c, "autosave", cs, func() {
				s := eval.NewState()
				s.MaxValueLen = lim
				var sb strings.Builder
				s.Out, s.LogOut, s.NoLog = &sb, &sb, true
				ro := repl.EvalStringOptions()
				ro.MaxDuration = time.Second
				ro.AutoSave, ro.MaxValueLen = true, lim
				_, _, _, _ = repl.EvalOne(context.Background(), s, prog, &sb, ro)
				_, _ = s.SaveGlobals(io.Discard)
				_ = repl.AutoSave(s, ro)
			})
			// (c) the whole entry point with AutoSave (and AutoLoad of what (b) wrote)
			guardedCall(c, "eval-string-with-autosave", cs, func() {
				ro := repl.EvalStringOptions()
				ro.MaxDuration = time.Second
				ro.AutoSave, ro.AutoLoad, ro.MaxValueLen = true, true, lim
				_, _, _ = repl.EvalStringWithOption(context.Background(), ro, prog)
			})
			// (d) EvalAll (file / stdin mode)
			guardedCall(c, "eval-all", cs, func() {
				s := eval.NewState()
				s.MaxValueLen = lim
				ro := repl.EvalStringOptions()
				ro.MaxDuration = time.Second
				ro.AutoSave, ro.MaxValueLen = true, lim
				_ = repl.EvalAll(s, strings.NewReader(prog), io.Discard, ro)
				_ = repl.AutoSave(s, ro)
			})
		}
	}
	_ = os.Remove(repl.AutoSaveFile)
}
