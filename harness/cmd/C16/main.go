package main

// C16: the lexer is lossless - tokens tile the input.
// Correspondence: lexer.NextToken + Pos() before/after every call + HadWhitespace/HadNewline (public API)
// against the extracted Coq model (coq/model/Lexer.v), in both lexer modes.
// Direct oracle (model free): per token kind the literal/span relation, gaps are whitespace only, the
// concatenation of gaps and token texts rebuilds the input, the end marker is reached within n+1 tokens and is
// sticky, keywords never lex as identifiers, equal (type, literal) <=> same *token.Token.

import (
	"bytes"
	"context"
	"io"
	"fmt"
	"os"
	"path/filepath"
	"sort"
	"strings"
	"unicode/utf8"

	"fortio.org/log"
	"grol.io/grol/eval"
	"grol.io/grol/extensions"
	"grol.io/grol/lexer"
	"grol.io/grol/parser"
	"grol.io/grol/repl"
	"grol.io/grol/token"
	"verifharness/common"
	. "verifharness/common"
)

func main() { common.Main("C16", runC16) }

type rec struct {
	p0, start, p1 int
	tok           *token.Token
	ws, nl        bool
}

type tkey struct {
	t   token.Type
	lit string
}

var (
	byKey    = map[tkey]*token.Token{}
	keywords = map[string]token.Type{}
)

// The whitespace class is PART of what C16 fixes: space, tab, LF, CR and nothing else (a lexer whose skipWhitespace
// swallows more would satisfy "every byte is whitespace or in a token" vacuously). The oracle judges tiling with this
// set, never with the lexer's own.
func isWS(b byte) bool { return b == ' ' || b == '\t' || b == '\n' || b == '\r' }

// lexerSkips[b]: what the implementation does with the one-byte input b (end marker at once with HadWhitespace()).
// Used ONLY to give the failure "a non-whitespace byte is in no token" a precise signature and detail.
var lexerSkips [256]bool

func initWS() {
	for b := 0; b < 256; b++ {
		l := lexer.NewBytes([]byte{byte(b)})
		t := l.NextToken()
		lexerSkips[b] = isEndTok(t) && l.HadWhitespace()
	}
}

func isEndTok(t *token.Token) bool { return t != nil && (t.Type() == token.EOF || t.Type() == token.EOL) }

const postCalls = 2

// lexRun drives the real lexer. recs = calls up to and including the first end marker (or n+2 calls),
// post = postCalls further calls after the first end marker.
func lexRun(src []byte, lineMode bool, altCtor bool) (recs, post []rec, panicked string) {
	defer func() {
		if r := recover(); r != nil {
			panicked = fmt.Sprint(r)
		}
	}()
	var l *lexer.Lexer
	switch {
	case lineMode:
		l = lexer.NewLineMode(string(src))
	case altCtor:
		l = lexer.New(string(src))
	default:
		l = lexer.NewBytes(src)
	}
	one := func() rec {
		p0 := l.Pos()
		tok := l.NextToken()
		p1 := l.Pos()
		st := p0
		for st < len(src) && isWS(src[st]) {
			st++
		}
		return rec{p0, st, p1, tok, l.HadWhitespace(), l.HadNewline()}
	}
	for i := 0; i < len(src)+2; i++ {
		r := one()
		recs = append(recs, r)
		if r.tok == nil || isEndTok(r.tok) {
			break
		}
	}
	if n := len(recs); n > 0 && isEndTok(recs[n-1].tok) {
		for i := 0; i < postCalls; i++ {
			post = append(post, one())
		}
	}
	return
}

func b01(b bool) string {
	if b {
		return "1"
	}
	return "0"
}

func obsOf(rs []rec) string {
	if len(rs) == 0 {
		return "-"
	}
	parts := make([]string, len(rs))
	for i, r := range rs {
		if r.tok == nil {
			parts[i] = fmt.Sprintf("nil@%d-%d:%s%s", r.start, r.p1, b01(r.ws), b01(r.nl))
			continue
		}
		parts[i] = fmt.Sprintf("%d:%s@%d-%d:%s%s", r.tok.Type(), Hx([]byte(r.tok.Literal())), r.start, r.p1, b01(r.ws), b01(r.nl))
	}
	return strings.Join(parts, ",")
}

// ---- independent decoding of the content of a double quoted string (for the oracle only)
func hexv(c byte) byte {
	switch {
	case '0' <= c && c <= '9':
		return c - '0'
	case 'a' <= c && c <= 'f':
		return c - 'a' + 10
	case 'A' <= c && c <= 'F':
		return c - 'A' + 10
	}
	return 0
}

// unescapeDQ decodes raw (the bytes between the delimiters) into a pattern: a byte value, or -1 for "any one
// byte" (a backslash followed by a character that is not one of the escapes known here: the lexer may give it a
// meaning of its own, only the structure is checked then). ok=false if raw contains an unescaped quote or ends
// inside an escape sequence (then the closing delimiter was not where the lexer said).
func unescapeDQ(raw []byte) (out []int, ok bool) {
	known := map[byte]int{'r': '\r', 'n': '\n', 't': '\t', 'a': 7, 'b': 8, 'f': 12, 'v': 11, '\\': '\\', '"': '"'}
	i := 0
	for i < len(raw) {
		c := raw[i]
		i++
		if c == '"' {
			return nil, false
		}
		if c != '\\' {
			out = append(out, int(c))
			continue
		}
		if i >= len(raw) {
			return nil, false
		}
		e := raw[i]
		i++
		need := 0
		switch e {
		case 'x':
			need = 2
		case 'u':
			need = 4
		case 'U':
			need = 8
		default:
			if v, ok := known[e]; ok {
				out = append(out, v)
			} else {
				out = append(out, -1)
			}
			continue
		}
		if i+need > len(raw) {
			return nil, false
		}
		var v uint32
		for k := 0; k < need; k++ {
			v = v<<4 | uint32(hexv(raw[i+k]))
		}
		i += need
		if need == 2 {
			out = append(out, int(byte(v)))
		} else {
			for _, b := range utf8.AppendRune(nil, rune(int32(v))) {
				out = append(out, int(b))
			}
		}
	}
	return out, true
}

func matchPattern(pat []int, lit string) bool {
	if len(pat) != len(lit) {
		return false
	}
	for i, p := range pat {
		if p >= 0 && byte(p) != lit[i] {
			return false
		}
	}
	return true
}

// unterminatedAt: src[start] is a quote and no closing delimiter exists for a string starting there.
func unterminatedAt(src []byte, start int) bool {
	n := len(src)
	if start >= n {
		return false
	}
	switch src[start] {
	case '`':
		return !bytes.Contains(src[start+1:], []byte{'`'})
	case '"':
		for e := start + 1; e < n; e++ { // is there any position where the string would close?
			if src[e] == '"' {
				if _, ok := unescapeDQ(src[start+1 : e]); ok {
					return false
				}
			}
		}
		return true
	}
	return false
}

// oracle checks one lexing run, model free. Returns the set of narrow failure signatures with a detail.
func oracle(c *Ctx, src []byte, lineMode bool, recs, post []rec, panicked string) {
	mode := "F"
	if lineMode {
		mode = "L"
	}
	cs := "LEX " + Hx(src)
	fail := func(sig, format string, a ...any) {
		c.Fail(sig, cs, "mode="+mode+" "+fmt.Sprintf(format, a...))
	}
	if panicked != "" {
		fail("lexer-panic", "%s", panicked)
		return
	}
	n := len(src)
	if len(recs) == 0 {
		fail("no-token", "no call made")
		return
	}
	last := recs[len(recs)-1]
	if last.tok == nil {
		fail("nil-token", "call %d at %d returned a nil token", len(recs)-1, last.start)
		return
	}
	if !isEndTok(last.tok) {
		fail("no-end-marker-within-n+1", "%d calls without end marker", len(recs))
		return
	}
	if len(recs) > n+1 {
		fail("no-end-marker-within-n+1", "end marker only after %d tokens, n=%d", len(recs), n)
	}
	wantEnd := token.EOFT
	if lineMode {
		wantEnd = token.EOLT
	}
	if last.tok != wantEnd {
		fail("end-marker-wrong-object", "got %s", last.tok.DebugString())
	}
	for i, r := range post {
		if r.tok != wantEnd {
			d := "nil"
			if r.tok != nil {
				d = r.tok.DebugString()
			}
			fail("end-marker-not-sticky", "call %d after the end marker returned %s at %d", i+1, d, r.start)
			break
		}
	}
	var rebuilt []byte
	prevEnd := 0
	for i, r := range recs {
		if r.p0 != prevEnd {
			fail("tokens-out-of-order", "token %d scanned from %d, previous ended at %d", i, r.p0, prevEnd)
		}
		prevEnd = r.p1
		gap := src[min(r.p0, n):min(r.start, n)]
		rebuilt = append(rebuilt, gap...)
		// a byte that is not whitespace but that the lexer skips like whitespace belongs to no token
		if r.start < n && lexerSkips[src[r.start]] {
			e := r.start
			for e < n && (isWS(src[e]) || lexerSkips[src[e]]) {
				e++
			}
			fail("non-whitespace-byte-in-no-token", "token %d: byte 0x%02x at %d is skipped by the lexer but is not whitespace (skipped run %q, then %q)",
				i, src[r.start], r.start, src[r.start:e], src[e:min(n, e+8)])
			return
		}
		if r.ws != (len(gap) > 0) {
			fail("hadwhitespace-flag", "token %d gap %q HadWhitespace=%v", i, gap, r.ws)
		}
		if r.nl != bytes.Contains(gap, []byte{'\n'}) {
			fail("hadnewline-flag", "token %d gap %q HadNewline=%v", i, gap, r.nl)
		}
		if r.p1 <= r.start {
			fail("empty-span", "token %d span %d-%d", i, r.start, r.p1)
			return
		}
		tt, lit := r.tok.Type(), r.tok.Literal()
		// interning: equal (type, literal) <=> same object
		k := tkey{tt, lit}
		if p, ok := byKey[k]; ok {
			if p != r.tok {
				fail("intern-duplicate-object:"+tt.String(), "two objects for %s", r.tok.DebugString())
			}
		} else {
			byKey[k] = r.tok
		}
		// tokens with a single possible value: the lexer's object is the one every other part of the program gets
		if tt > token.REGISTER && tt < token.EOF && token.ByType(tt) != r.tok {
			fail("constant-token-duplicate-object:"+tt.String(), "lexer object differs from token.ByType")
		}
		if isEndTok(r.tok) {
			// what is under the end marker: nothing (true end of input) or, in line mode only, an
			// unterminated string running to the end of input (continuation protocol)
			if r.start >= n {
				break
			}
			q := src[r.start]
			unterminated := unterminatedAt(src, r.start)
			switch {
			case unterminated && lineMode:
				c.Count("end=continuation-string")
				rebuilt = append(rebuilt, src[r.start:]...)
			case unterminated:
				fail("end-marker-swallows-unterminated-string", "file mode: bytes %d..%d %q belong to no token", r.start, n, src[r.start:])
				rebuilt = append(rebuilt, src[r.start:]...)
			case q == 0:
				fail("end-marker-at-nul-byte", "end marker at %d but input continues: %q", r.start, src[r.start:])
			default:
				fail("end-marker-early", "end marker at %d but input continues: %q", r.start, src[r.start:])
			}
			break
		}
		if r.p1 > n {
			fail("token-span-beyond-input:"+tt.String(), "token %d span %d-%d n=%d", i, r.start, r.p1, n)
			return
		}
		span := src[r.start:r.p1]
		text := span
		switch {
		case tt == token.ILLEGAL && !lineMode && unterminatedAt(src, r.start):
			// file mode only: an unterminated string is reported as one error token holding the rest of the input
			if r.p1 != n || lit != string(span) {
				fail("illegal-literal:unterminated-string", "span %q literal %q does not cover the unterminated string to the end", span, lit)
			}
			c.Count("illegal=unterminated-string")
			c.NonTrivial(cs)
		case tt == token.ILLEGAL:
			if len(span) != 1 || lit != string(rune(span[0])) {
				fail("illegal-literal", "span %q literal %q", span, lit)
			}
			c.NonTrivial(cs)
		case tt == token.STRING:
			q := span[0]
			switch {
			case (q != '"' && q != '`') || len(span) < 2 || span[len(span)-1] != q:
				fail("string-span", "span %q is not delimited", span)
			case q == '`':
				raw := span[1 : len(span)-1]
				if bytes.IndexByte(raw, '`') >= 0 || lit != string(raw) {
					fail("string-content:raw", "span %q literal %q", span, lit)
				}
			default:
				dec, ok := unescapeDQ(span[1 : len(span)-1])
				if !ok {
					fail("string-span", "span %q does not end at its first unescaped quote", span)
				} else if !matchPattern(dec, lit) {
					fail("string-content:escapes", "span %q literal %q expected %v", span, lit, dec)
				}
			}
			c.NonTrivial(cs)
		case tt == token.LINECOMMENT:
			if len(span) < 2 || span[0] != '/' || span[1] != '/' || bytes.IndexByte(span, '\n') >= 0 ||
				(r.p1 < n && src[r.p1] != '\n') {
				fail("linecomment-span", "span %q next %q", span, src[r.p1:min(n, r.p1+1)])
			}
			if lit != strings.TrimSpace(string(span)) {
				fail("linecomment-literal", "span %q literal %q", span, lit)
			}
			c.NonTrivial(cs)
		case tt == token.BLOCKCOMMENT:
			bad := len(span) < 2 || span[0] != '/' || span[1] != '*' || lit != string(span)
			if !bad {
				idx := bytes.Index(span[2:], []byte("*/"))
				closed := idx >= 0 && idx+4 == len(span)
				unclosed := idx < 0 && r.p1 == n
				bad = !closed && !unclosed
			}
			if bad {
				fail("blockcomment-span", "span %q literal %q", span, lit)
			}
			c.NonTrivial(cs)
		default: // identifiers, keywords, numbers, operators: literal equals the bytes spanned
			text = []byte(lit)
			if lit != string(span) {
				fail("literal-not-span:"+tt.String(), "span %q literal %q", span, lit)
			}
			if kt, isKw := keywords[string(span)]; isKw && lit == string(span) && tt != kt {
				fail("keyword-as-ident", "%q lexed as %s", span, tt)
			}
			if tt == token.IDENT {
				if _, isKw := keywords[lit]; isKw {
					fail("keyword-as-ident", "%q lexed as IDENT", lit)
				}
			}
			if len(span) > 1 {
				c.NonTrivial(cs)
			}
		}
		rebuilt = append(rebuilt, text...)
	}
	if !bytes.Equal(rebuilt, src) {
		fail("rebuild-mismatch", "gaps+token texts give %q", rebuilt)
	}
}

// ---- interning under histories: other entry points of the program run between and during lexings.
// After each of them equal (type, literal) must still be the identical *token.Token as before.
var (
	histState *eval.State
	entryName = []string{"repl.EvalString", "repl.EvalStringWithOption", "eval.NewState", "repl.EvalOne", "parser.ParseProgram",
		"extensions.Init", "repl.Grol.Parse+Run", "eval.EvalString"}
)

// entryPoint runs the k-th other entry point of the program (on texts unrelated to what is being lexed).
func entryPoint(k int) (panicked string) {
	defer func() {
		if r := recover(); r != nil {
			panicked = fmt.Sprint(r)
		}
	}()
	switch k % len(entryName) {
	case 0:
		repl.EvalString("1+1")
	case 1:
		o := repl.EvalStringOptions()
		o.Compact = true
		repl.EvalStringWithOption(context.Background(), o, "zz=2; zz*3 // c")
	case 2:
		_ = eval.NewState()
	case 3:
		if histState == nil {
			histState = eval.NewState()
		}
		repl.EvalOne(context.Background(), histState, "q7 = \"s\" + \"t\"", io.Discard, repl.Options{All: true})
	case 4:
		parser.New(lexer.New("func f(a){a+1.5} /* o */ f(2)")).ParseProgram()
	case 5:
		_ = extensions.Init(nil)
	case 6:
		g := repl.New()
		if g.Parse([]byte("m9 = [1,2]; m9[0]")) == nil {
			_ = g.Run(io.Discard)
		}
	case 7:
		_, _ = eval.EvalString(eval.NewState(), "7*6", true)
	}
	return ""
}

func lexPtrs(src []byte, lineMode bool) []*token.Token {
	var l *lexer.Lexer
	if lineMode {
		l = lexer.NewLineMode(string(src))
	} else {
		l = lexer.NewBytes(src)
	}
	var out []*token.Token
	for i := 0; i < len(src)+2; i++ {
		t := l.NextToken()
		out = append(out, t)
		if t == nil || isEndTok(t) {
			break
		}
	}
	return out
}

// c16History: (a) lex src, run entry point k, lex src again in both modes: token i must be the same object;
// (b) one lexer: run entry point k between every two NextToken calls, every token must be the object first seen
// for its (type, literal) in (a); (c) constant tokens: token.ByType unchanged.
func c16History(c *Ctx, src []byte, k int) {
	name := entryName[k%len(entryName)]
	cs := fmt.Sprintf("HIST %d %s", k%len(entryName), Hx(src))
	consts := map[token.Type]*token.Token{}
	for t := token.ASSIGN; t < token.EOF; t++ {
		consts[t] = token.ByType(t)
	}
	for _, lm := range []bool{false, true} {
		first := lexPtrs(src, lm)
		seen := map[tkey]*token.Token{}
		for _, t := range first {
			if t != nil {
				seen[tkey{t.Type(), t.Literal()}] = t
			}
		}
		if p := entryPoint(k); p != "" {
			c.Fail("entry-point-panic:"+name, cs, p)
			return
		}
		for _, lm2 := range []bool{lm, !lm} {
			second := lexPtrs(src, lm2)
			for i, t := range second {
				if t == nil {
					continue
				}
				if old, ok := seen[tkey{t.Type(), t.Literal()}]; ok && old != t {
					c.Fail("intern-object-changed-after:"+name, cs, fmt.Sprintf("modes %v->%v token %d %s is no longer the object handed out before the call",
						lm, lm2, i, t.DebugString()))
					return
				}
			}
		}
		// one lexer, the entry point runs between its NextToken calls
		var l *lexer.Lexer
		if lm {
			l = lexer.NewLineMode(string(src))
		} else {
			l = lexer.New(string(src))
		}
		for i := 0; i < len(src)+2; i++ {
			t := l.NextToken()
			if t == nil || isEndTok(t) {
				break
			}
			if old, ok := seen[tkey{t.Type(), t.Literal()}]; ok && old != t {
				c.Fail("intern-object-changed-during-lexing:"+name, cs, fmt.Sprintf("mode line=%v token %d %s differs from the object of the same (type, literal) handed out earlier",
					lm, i, t.DebugString()))
				return
			}
			entryPoint(k)
		}
	}
	for t, p := range consts {
		if token.ByType(t) != p {
			c.Fail("constant-token-object-changed-after:"+name, cs, t.String())
			return
		}
	}
	c.Count("history=" + name)
	c.Eval()
}

// ---- interning under VOLUME: whatever the process has lexed so far (total bytes, number of distinct tokens), the small
// tokens handed out at the start are still THE objects for their (type, literal).
const witnessSrc = "total = k9 + 1.5 \"s\" `r` counter // w\n/* b */ 0x1f"

func witnessCheck(c *Ctx, first map[tkey]*token.Token, cs, when string) bool {
	for _, lm := range []bool{false, true} {
		for i, t := range lexPtrs([]byte(witnessSrc), lm) {
			if t == nil {
				continue
			}
			k := tkey{t.Type(), t.Literal()}
			if old, ok := first[k]; ok && old != t {
				c.Fail("intern-object-changed-after-volume", cs, fmt.Sprintf("%s: token %d %s (line mode %v) is no longer the object handed out at the start",
					when, i, t.DebugString(), lm))
				return false
			} else if !ok {
				first[k] = t
			}
		}
	}
	return true
}

// c16Volume variant: "strings" = many inputs `counter = "<1 MiB distinct string>"`; "comments" = ONE input
// `total = 1 /*a 17 MiB*/ /*b 17 MiB*/ total`; "idents" = inputs with 1e5..1e6 distinct identifiers and numbers.
func c16Volume(c *Ctx, variant string) {
	cs := "VOL " + variant
	first := map[tkey]*token.Token{}
	witnessCheck(c, first, cs, "start")
	mib := 1 << 20
	body := func(tag string, n int) string {
		pat := tag + " 0123456789 abcdefghijklmnopqrstuvwxyz "
		return strings.Repeat(pat, n/len(pat)+1)[:n]
	}
	switch variant {
	case "strings":
		n := 44
		if c.Thorough() {
			n = 100
		}
		for i := 0; i < n; i++ {
			src := []byte("counter = \"" + body(fmt.Sprintf("s%d", i), mib) + "\"")
			toks := lexPtrs(src, i%2 == 1)
			if len(toks) < 3 || toks[0] == nil || toks[0] != first[tkey{token.IDENT, "counter"}] {
				c.Fail("intern-object-changed-after-volume", cs, fmt.Sprintf("input %d (after %d MiB of distinct strings): IDENT counter is a new object", i, i))
				return
			}
			if i%8 == 7 && !witnessCheck(c, first, cs, fmt.Sprintf("after %d MiB of distinct strings", i+1)) {
				return
			}
		}
	case "comments":
		for _, lm := range []bool{false, true} {
			tag := map[bool]string{false: "F", true: "L"}[lm]
			src := []byte("total = 1 /*a" + tag + body("a"+tag, 17*mib) + "*/ /*b" + tag + body("b"+tag, 17*mib) + "*/ total")
			toks := lexPtrs(src, lm)
			if len(toks) != 7 || toks[0] == nil || toks[5] == nil || toks[0] != toks[5] {
				c.Fail("intern-object-changed-after-volume", cs, fmt.Sprintf("one input (line mode %v) `total = 1 /*17 MiB*/ /*17 MiB*/ total`: the two IDENT total are different objects (%d tokens)", lm, len(toks)))
				return
			}
			if !witnessCheck(c, first, cs, "after a 34 MiB input, line mode "+fmt.Sprint(lm)) {
				return
			}
		}
	case "idents":
		n := 200000
		if c.Thorough() {
			n = 1000000
		}
		var b strings.Builder
		for i := 0; i < n; i++ {
			if i%20000 == 0 && i > 0 {
				b.WriteString(" total ")
				toks := lexPtrs([]byte(b.String()), (i/20000)%2 == 1)
				if last := toks[len(toks)-2]; last != first[tkey{token.IDENT, "total"}] {
					c.Fail("intern-object-changed-after-volume", cs, fmt.Sprintf("after %d distinct identifiers/numbers: IDENT total is a new object", i))
					return
				}
				if !witnessCheck(c, first, cs, fmt.Sprintf("after %d distinct tokens", 2*i)) {
					return
				}
				b.Reset()
			}
			fmt.Fprintf(&b, "vol_%d %d.%d ", i, i, i)
		}
	}
	witnessCheck(c, first, cs, "end")
	c.Count("volume=" + variant)
	c.Eval()
}

func c16One(c *Ctx, src []byte) { c16OneX(c, src, c.ReplayCase != "") }

// c16OneX: allCtors = judge the file mode through BOTH constructors (NewBytes and New) instead of a random one.
// Positions reported by Pos() are always judged against the CALLER's buffer src, which must come back unmodified.
func c16OneX(c *Ctx, src []byte, allCtors bool) {
	var obs []string
	orig := append([]byte(nil), src...)
	for _, lm := range []bool{false, true} {
		alt := c.R.Pct(10)
		if allCtors && !lm {
			recs, post, p := lexRun(src, false, true) // lexer.New(string)
			oracle(c, src, false, recs, post, p)
			alt = false
		}
		recs, post, p := lexRun(src, lm, alt)
		oracle(c, src, lm, recs, post, p)
		m := "F"
		if lm {
			m = "L"
		}
		if p != "" {
			obs = append(obs, m+" PANIC")
			continue
		}
		obs = append(obs, m+" "+obsOf(recs)+" + "+obsOf(post))
	}
	if !bytes.Equal(orig, src) {
		c.Fail("input-buffer-modified", "LEX "+Hx(orig), fmt.Sprintf("the caller's buffer became %q", src))
	}
	c.Count(fmt.Sprintf("len=%s", lenClass(len(src))))
	c.Case("LEX "+Hx(src), strings.Join(obs, " "))
}

// c16Long: like c16OneX with all constructors; inputs over 2048 bytes go through the direct oracle only (the extracted
// model appends to its string buffer in quadratic time), shorter ones are also correspondence cases.
func c16Long(c *Ctx, src []byte) {
	if len(src) <= 2048 {
		c16OneX(c, src, true)
		return
	}
	orig := append([]byte(nil), src...)
	for _, cfg := range [][2]bool{{false, false}, {false, true}, {true, false}} {
		recs, post, p := lexRun(src, cfg[0], cfg[1])
		oracle(c, src, cfg[0], recs, post, p)
	}
	if !bytes.Equal(orig, src) {
		c.Fail("input-buffer-modified", "LEX "+Hx(orig), "the caller's buffer was modified")
	}
	c.Count("len=long-oracle-only")
	c.Eval()
}

func lenClass(n int) string {
	switch {
	case n <= 4:
		return fmt.Sprint(n)
	case n <= 16:
		return "5-16"
	case n <= 64:
		return "17-64"
	}
	return "65+"
}

// the significant alphabet of the property
var alphabet = []byte{'0', '1', '9', 'a', 'e', 'E', 'x', 'b', '_', '.', '+', '-', '"', '`', '\\', '/', '*',
	'=', '!', '<', '&', ':', ' ', '\n', 0x00, 0xff, '@', '\v', '\f'}

func enumerate(alpha []byte, n int, f func([]byte)) {
	cur := make([]byte, n)
	var rec func(i int)
	rec = func(i int) {
		if i == n {
			f(cur)
			return
		}
		for _, a := range alpha {
			cur[i] = a
			rec(i + 1)
		}
	}
	rec(0)
}

var corpus = []string{
	"1e+x", "1e+", "1.5e-", "1ex", ".5.", ".5..", ".5.5", "a\x00b", "\x00", "\x00\x00a", "\"a\x00b\"", "// c\x00x", "// c\x00x\ny",
	"/* a\x00b */", "/* a\x00", "\"abc", "`abc", "\"abc\\", "\"\\x", "\"\\x4", "\"\\u26", "\"\\U0001F60", "/* open", "/*", "/*/", "/**/", "/*/*/",
	"\"\\u263A\\U0001F600\\xff\\ud800\\UFFFFFFFF\\U00110000\\q\\\"\"", "\"\\a\\b\\f\\v\\r\\n\\t\\\\\"", "// c \t\r", "// c\xc2\xa0", "// c\xe2\x80\x80 \xc2\x85", "// c\xe3\x80\x80\x80",
	"//\x0b\x0c", "0x", "0b", "0x_fg", "0b102", "1_000.5_0e1_0", "1..2", "12..", "a.b", "func funcs truefalse true", ":= => == != <= >= << >> ++ -- .. || &&",
	"\xff", "\xc3\xbf", "a \n\t\r b", "", " ", "\n",
}

func runC16(c *Ctx) {
	c.Rule = "exhaustive: every byte string of length <= 2 over all 256 byte values and of length <= L (3 quick / 4 thorough) over the " +
		"29-symbol significant alphabet (incl. \\v \\f), both lexer modes; random longer inputs over a weighted alphabet; byte mutations of /repo/examples/*.gr. " +
		"volume histories: witness tokens kept from the start compared by pointer after 44-100 MiB of distinct 1 MiB strings, one input with two 17 MiB comments per mode, 2e5-1e6 distinct identifiers/numbers. " +
		"escape truncation: \\x \\u \\U \\u{ \\x{ with every leading hex-digit pair (22x22) cut after 0..n digits by end of input / quote / backslash / non-hex, surrogate halves and pairs with the second escape cut at every length, octal forms; all constructors. " +
		"long tokens: identifier, integer, float, hex, both string kinds, both comment kinds, unterminated string / comment at every length 2^k-1..2^k+1 (k=4..16) and around 1000/1024/4096/65536, twice per input, both modes (over 2048 bytes: direct oracle only). " +
		"special first bytes: BOMs, shebang, magic and multi-byte prefixes (whole/truncated) x bodies and all strings of length <= 3/4 over 15 lead bytes, through New, NewBytes and NewLineMode, Pos() judged against the caller's buffer. " +
		"structured numbers: every combination of prefix (0x 0X 0b 0o), digits/underscores, dot, fraction, exponent marker e E p P, sign, exponent digits and a following non-digit, alone and inside expressions. " +
		"interning histories: 8 other entry points (repl.EvalString, EvalStringWithOption, eval.NewState, repl.EvalOne, parser.ParseProgram, " +
		"extensions.Init, repl.Grol, eval.EvalString) run between two lexings and between the NextToken calls of one lexer, tokens compared by pointer. " +
		"non-trivial = distinct input with a multi-byte token, a string, a comment or an ILLEGAL byte"
	log.SetLogLevelQuiet(log.Error)
	initWS()
	for t := token.FUNC; t <= token.DEL; t++ {
		keywords[strings.ToLower(t.String())] = t
	}
	info := token.Info()
	for k := range info.Keywords {
		if _, ok := keywords[k]; !ok {
			c.Fail("keyword-set-mismatch", "LEX -", "token.Info keyword "+k+" is not an identity token")
		}
	}
	for k := range info.Builtins {
		if _, ok := keywords[k]; !ok {
			c.Fail("keyword-set-mismatch", "LEX -", "token.Info builtin "+k+" is not an identity token")
		}
	}
	if c.ReplayCase != "" {
		f := strings.Fields(c.ReplayCase)
		if len(f) == 2 && f[0] == "VOL" {
			c16Volume(c, f[1])
			return
		}
		if len(f) == 3 && f[0] == "HIST" {
			k := 0
			fmt.Sscan(f[1], &k)
			c16History(c, Unhx(f[2]), k)
			return
		}
		if len(f) != 2 || f[0] != "LEX" {
			fmt.Println("bad replay case")
			return
		}
		c16One(c, Unhx(f[1]))
		return
	}
	// histories first: every other entry point between / during lexings of inputs with every kind of value token
	histInputs := []string{"abc = 12 + 3.5 if \"str\" == x1 // note\n/* blk */ abc", "k9 k9", "`raw` 0x1f .5 @ \x00 k9 // c\n\"a\\n\" func true",
		"\"unterminated k9"}
	for k := range entryName {
		for _, h := range histInputs {
			c16History(c, []byte(h), k)
		}
	}
	for _, s := range corpus {
		c16One(c, []byte(s))
	}
	// keywords, each alone and glued
	kws := make([]string, 0, len(keywords))
	for k := range keywords {
		kws = append(kws, k)
	}
	sort.Strings(kws)
	for _, k := range kws {
		c16One(c, []byte(k))
		c16One(c, []byte(k+"1 "+k+"_ "+strings.ToUpper(k)+" "+k+"("+k+")"))
	}
	// line comments ending in every pair of: the 19 multi-byte Unicode spaces, ASCII spaces, truncated / stray UTF-8 bytes
	pool := []string{"\xc2\x85", "\xc2\xa0", "\xe1\x9a\x80", "\xe2\x80\x80", "\xe2\x80\x81", "\xe2\x80\x82", "\xe2\x80\x83", "\xe2\x80\x84",
		"\xe2\x80\x85", "\xe2\x80\x86", "\xe2\x80\x87", "\xe2\x80\x88", "\xe2\x80\x89", "\xe2\x80\x8a", "\xe2\x80\xa8", "\xe2\x80\xa9", "\xe2\x80\xaf",
		"\xe2\x81\x9f", "\xe3\x80\x80", " ", "\t", "\r", "\x0b", "\x0c", "\x80", "\x85", "\xa0", "\xc2", "\xe2", "\xe2\x80", "\xe2\x80\x8b", "\xe1\x9a", "\xf0\x9f\x98\x80", "x"}
	for _, a := range pool {
		for _, b := range pool {
			c16One(c, []byte("// c"+a+b))
		}
		c16One(c, []byte("//"+a+"x"+a+"\ny"))
	}
	// escape truncation: every escape form of string literals (\x \u \U \u{ octal, surrogate halves and pairs) with every
	// leading hex-digit pair, cut after 0..n digits by the end of input / the closing quote / another backslash / a
	// non-hex byte, at the start of the input and after other tokens; all constructors, both modes (panics are caught by
	// lexRun and reported as lexer-panic; the end marker must still come within n+1 tokens)
	seenEsc := map[string]bool{}
	nEsc := 0
	escOne := func(w string) {
		if seenEsc[w] {
			return
		}
		seenEsc[w] = true
		nEsc++
		c16OneX(c, []byte(w), true)
	}
	hexd := "0123456789abcdefABCDEF"
	filler := "3d9fe0"
	terms := []string{"", "\"", "\\", "g", "\" + 1"}
	type head struct {
		h    string
		cuts []int
	}
	heads := []head{{"\\x", []int{0, 1, 2}}, {"\\u", []int{0, 1, 2, 3, 4}}, {"\\U", []int{0, 1, 2, 3, 4, 5, 7, 8}},
		{"\\u{", []int{0, 1, 2, 4, 6}}, {"\\x{", []int{0, 2}}}
	for i := 0; i < len(hexd); i++ {
		for j := 0; j < len(hexd); j++ {
			lower := i < 16 && j < 16
			pair := string([]byte{hexd[i], hexd[j]})
			for _, hd := range heads {
				for _, n := range hd.cuts {
					d := (pair + filler)[:n]
					for _, tm := range terms {
						escOne("\"" + hd.h + d + tm)
						if lower {
							escOne("x = \"\xc3\xa9" + hd.h + d + tm)
						}
						if hd.h == "\\u{" || hd.h == "\\x{" {
							escOne("\"" + hd.h + d + "}" + tm)
						}
					}
				}
			}
		}
	}
	// surrogate halves and pairs, the second escape cut at every length
	for _, hi := range []string{"\\ud800", "\\ud83d", "\\udbff", "\\uD83D", "\\udc00", "\\udfff"} {
		for _, lo := range []string{"\\ude00", "\\udc00", "\\udfff", "\\uDE00", "\\ud83d", "\\u0041", "\\U0001F600", "\\x41", "\\n", "\\"} {
			for n := 0; n <= len(lo); n++ {
				for _, tm := range terms {
					escOne("\"" + hi + lo[:n] + tm)
					escOne("s = \"a" + hi + lo[:n] + tm)
				}
			}
		}
	}
	// octal and other single-character forms
	for _, o := range []string{"\\0", "\\1", "\\7", "\\8", "\\12", "\\123", "\\377", "\\400", "\\1234", "\\N{", "\\N{DIGIT ONE}", "\\e", "\\'", "\\`", "\\\n", "\\\x00"} {
		for _, tm := range terms {
			escOne("\"" + o + tm)
			escOne("x = \"\xc3\xa9" + o + tm)
			escOne("`" + o + tm)
		}
	}
	c.Count(fmt.Sprintf("escape-truncations=%d", nEsc))
	// long tokens: every value-token kind at lengths around the powers of two and 1000/1024/4096/65536, twice in the
	// input (identity inside one lexer) and in both modes (identity across lexers); text = span at every length
	lens := map[int]bool{}
	for k := 4; k <= 16; k++ {
		for d := -1; d <= 1; d++ {
			lens[(1<<k)+d] = true
		}
	}
	for _, l := range []int{1000, 1022, 1026, 1500, 3000, 4000, 4094, 4098, 5000, 10000, 65534, 65538, 70000} {
		lens[l] = true
	}
	var lenList []int
	for l := range lens {
		lenList = append(lenList, l)
	}
	sort.Ints(lenList)
	fill := func(n int, pat string) string { return strings.Repeat(pat, n/len(pat)+1)[:n] }
	for _, n := range lenList {
		kinds := []string{
			"i" + fill(n-1, "dent_9"),                       // identifier
			fill(n, "1234567890"),                            // integer
			"1." + fill(n-2, "5_0"),                          // float
			"0x" + fill(n-2, "9aF_"),                         // hex
			"\"" + fill(n-2, "s \\n\\x41t") + "\"",        // double quoted string with escapes (n = span length, may cut an escape)
			"\"" + fill(n-2, "plain text ") + "\"",          // double quoted string, literal of n-2 bytes
			"`" + fill(n-2, "raw\\n ") + "`",                // raw string
			"//" + fill(n-2, "comment "),                     // line comment
			"/*" + fill(n-4, "block * / ") + "*/",            // block comment
		}
		for _, t := range kinds {
			c16Long(c, []byte(t+"\n"+t))
			c16Long(c, []byte("x = "+t+"\n"+t+"\n"))
		}
		c16Long(c, []byte("\""+fill(n-1, "unterminated ")))  // ILLEGAL (file mode) / EOL (line mode)
		c16Long(c, []byte("/*"+fill(n-2, "open * ")))         // unclosed block comment
	}
	c.Count(fmt.Sprintf("long-token-lengths=%d", len(lenList)))
	// special first bytes: byte order marks, shebang, other magic / multi-byte prefixes, whole and truncated, at the very
	// start of the input (where a constructor could treat them specially) and after a newline; every constructor;
	// Pos() is accounted against the caller's buffer
	prefixes := []string{"\xef\xbb\xbf", "\xef\xbb", "\xef", "\xef\xbb\xbf\xef\xbb\xbf", "\xfe\xff", "\xff\xfe", "\xff\xfe\x00\x00", "\x00\x00\xfe\xff",
		"\x2b\x2f\x76", "#!", "#!/usr/bin/env grol\n", "#!grol", "#", "# c\n", "\x1f\x8b", "\x7fELF", "<?", "%!", "\x1b[0m", "\x00", "\r\n", "\xc2\xa0",
		"\xe2\x80\x8b", "\xe2\x80\xa8", "\xf0\x9f\x98\x80", "\xc3\xa9", "\ufffd", "\x0c", "\x1a", "\x04"}
	bodies := []string{"", "x", "x = 1", " 1", "\nx", "\"s\"", "// c\nx", "/* c */", "func", "\xef\xbb\xbfx"}
	for _, pf := range prefixes {
		for _, bd := range bodies {
			c16OneX(c, []byte(pf+bd), true)
			c16OneX(c, []byte("a\n"+pf+bd), true)
		}
	}
	lead := []byte{0xef, 0xbb, 0xbf, 0xfe, 0xff, '#', '!', 0x00, 0xc2, 0xa0, 0xe2, 0x80, 'x', ' ', '\n'}
	leadMax := 3
	if c.Thorough() {
		leadMax = 4
	}
	for n := 1; n <= leadMax; n++ {
		enumerate(lead, n, func(b []byte) {
			c16OneX(c, append([]byte(nil), b...), true)
			c16OneX(c, append(append([]byte(nil), b...), 'x'), true)
		})
	}
	// structured numbers: prefix, digits/underscores, '.', fraction, exponent marker e E p P, sign, exponent digits, then
	// a non-digit - all combinations (up to ~12 bytes), alone and embedded in expressions
	seenNum := map[string]bool{}
	nNum := 0
	for _, pre := range []string{"", "0x", "0X", "0b", "0o", "1"} {
		for _, ds := range []string{"", "1", "_f", "1_0"} {
			for _, fr := range []string{"", ".", ".8", ".8_"} {
				for _, mk := range []string{"", "e", "E", "p", "P"} {
					signs, exps := []string{""}, []string{""}
					if mk != "" {
						signs, exps = []string{"", "+", "-"}, []string{"", "1", "_"}
					}
					for _, sg := range signs {
						for _, ex := range exps {
							for _, tail := range []string{"", ";", "x", "."} {
								w := pre + ds + fr + mk + sg + ex + tail
								if w == "" || seenNum[w] {
									continue
								}
								seenNum[w] = true
								c16One(c, []byte(w))
								nNum++
								if c.Thorough() || nNum%3 == 0 {
									c16One(c, []byte("x = "+w))
								}
								if c.Thorough() {
									c16One(c, []byte("a="+w+"+1"))
									c16One(c, []byte("f("+w+")"))
								}
							}
						}
					}
				}
			}
		}
	}
	c.Count(fmt.Sprintf("structured-numbers=%d", nNum))
	// every byte value between / next to tokens of every kind (control bytes 0x00-0x1f, 0x7f, 0x80-0xff included)
	for b := 0; b < 256; b++ {
		x := string([]byte{byte(b)})
		for _, ctx := range [][2]string{{"1", "+2"}, {"a", "b"}, {"a ", " b"}, {"(", ")"}, {"\"s\"", "\"t\""}, {"// c\n", "x"}, {"/* c */", "1.5"},
			{"x\n", "\ny"}, {"", "if"}, {"..", ""}, {"1", x + "2"}} {
			c16One(c, []byte(ctx[0]+x+ctx[1]))
		}
	}
	// exhaustive: all single bytes, all pairs of bytes
	all := make([]byte, 256)
	for i := range all {
		all[i] = byte(i)
	}
	enumerate(all, 1, func(b []byte) { c16One(c, b) })
	enumerate(all, 2, func(b []byte) { c16One(c, b) })
	maxLen := 3
	if c.Thorough() {
		maxLen = 4
	}
	for n := 3; n <= maxLen; n++ {
		enumerate(alphabet, n, func(b []byte) { c16One(c, b) })
	}
	c.Extra["exhaustive"] = true
	c.Extra["alphabet"] = Hx(alphabet)
	c.Extra["exhaustive_max_len"] = maxLen
	// random longer inputs: weighted alphabet + fragments
	frags := []string{"1e+", "1e", ".5", "..", "0x1f", "0b10", "\"", "`", "\\", "\\x4", "\\u26", "\\U0001F600", "//", "/*", "*/", "\n", " ", "\t", "\r",
		"\v", "\f", "\x7f", "\x01", "\x1f", "p", "P", "0x1.8p", "0o7", "0X_f", "func", "true", "if", "x", "_a1", "1_0", "e", "E", ".", "+", "-", "=", "=>", ":=", "<", "<<", "&", "|", "\x00", "\xff", "\xc2\xa0", "\xe2\x80\x80", "@", "#", "(", ")", "[", "]", "{", "}", ",", ";", "9", "0"}
	nr := 3000
	if c.Thorough() {
		nr = 150000
	}
	for i := 0; i < nr; i++ {
		var b []byte
		k := 5 + c.R.Intn(30)
		for j := 0; j < k; j++ {
			if c.R.Pct(70) {
				b = append(b, frags[c.R.Intn(len(frags))]...)
			} else if c.R.Pct(80) {
				b = append(b, alphabet[c.R.Intn(len(alphabet))])
			} else {
				b = append(b, byte(c.R.Intn(256)))
			}
		}
		c16One(c, b)
		if i%25 == 0 { // histories on random inputs too; the run-wide (type, literal) -> object map sees everything after
			c16History(c, b, c.R.Intn(len(entryName)))
		}
	}
	// byte mutations of the shipped examples
	repoDir := os.Getenv("VERIF_REPO")
	if repoDir == "" {
		repoDir = "/repo"
	}
	files, _ := filepath.Glob(filepath.Join(repoDir, "examples", "*.gr"))
	sort.Strings(files)
	nm := 2
	if c.Thorough() {
		nm = 40
	}
	for _, fn := range files {
		orig, err := os.ReadFile(fn)
		if err != nil {
			continue
		}
		c16One(c, orig)
		for m := 0; m < nm; m++ {
			b := append([]byte(nil), orig...)
			for e := 0; e < 1+c.R.Intn(4) && len(b) > 0; e++ {
				p := c.R.Intn(len(b))
				var x byte
				if c.R.Bool() {
					x = alphabet[c.R.Intn(len(alphabet))]
				} else {
					x = byte(c.R.Intn(256))
				}
				switch c.R.Intn(3) {
				case 0:
					b[p] = x
				case 1:
					b = append(b[:p], append([]byte{x}, b[p:]...)...)
				default:
					b = append(b[:p], b[p+1:]...)
				}
			}
			c16One(c, b)
		}
	}
	// volume last: 44-100 MiB of distinct strings across inputs, one 34 MiB input per mode, 2e5-1e6 distinct small tokens
	for _, v := range []string{"idents", "strings", "comments"} {
		c16Volume(c, v)
	}
}
