package main

import (
	"bytes"
	"fmt"
	"os"

	"fortio.org/log"
	"grol.io/grol/eval"
	"grol.io/grol/extensions"
	"grol.io/grol/object"
	"verifharness/common"
)

func main() {
	_ = extensions.Init(&extensions.Config{HasLoad: true, HasSave: true})
	log.SetLogLevelQuiet(log.Critical)
	_ = object.NULL
	for _, src := range os.Args[1:] {
		s := eval.NewState()
		var out bytes.Buffer
		s.Out, s.LogOut = &out, &out
		res, err := eval.EvalString(s, src, false)
		fmt.Printf("SRC %q\n res=%v err=%v out=%q\n", src, res.Inspect(), err, out.String())
		var w bytes.Buffer
		n, err := s.SaveGlobals(&w)
		fmt.Printf(" saved n=%d err=%v:\n%s", n, err, w.String())
		// reload line by line
		s2 := eval.NewState()
		s2.Out, s2.LogOut = &out, &out
		for _, line := range bytes.Split(bytes.TrimSuffix(w.Bytes(), []byte("\n")), []byte("\n")) {
			r, err := eval.EvalString(s2, string(line), false)
			fmt.Printf("  line %q -> %s %s err=%v\n", line, r.Type(), common.Canon(r), err)
		}
		var w2 bytes.Buffer
		s2.SaveGlobals(&w2)
		fmt.Printf(" resave same=%v\n", bytes.Equal(w.Bytes(), w2.Bytes()))
	}
}
