package main

import (
	"fmt"
	"os"
	"strconv"
	"strings"
	"time"

	"grol.io/grol/ast"
	"grol.io/grol/eval"
	"grol.io/grol/lexer"
	"grol.io/grol/parser"
)

func main() {
	n, _ := strconv.Atoi(os.Args[2])
	var src string
	switch os.Args[1] {
	case "parens":
		src = strings.Repeat("(", n) + "1" + strings.Repeat(")", n)
	case "brackets":
		src = strings.Repeat("[", n) + strings.Repeat("]", n)
	case "sum":
		src = "x=" + strings.Repeat("1+", n) + "1"
	case "bang":
		src = strings.Repeat("!", n) + "true"
	case "if":
		src = strings.Repeat("if true {", n) + "1" + strings.Repeat("}", n)
	}
	t0 := time.Now()
	p := parser.New(lexer.New(src))
	prog := p.ParseProgram()
	t1 := time.Now()
	fmt.Println("parse", t1.Sub(t0), len(p.Errors()))
	ps := ast.NewPrintState()
	ps.Compact = true
	s := prog.PrettyPrint(ps).String()
	t2 := time.Now()
	fmt.Println("print", t2.Sub(t1), len(s))
	st := eval.NewState()
	st.MaxDepth = 100
	func() {
		defer func() { m := fmt.Sprint(recover()); if len(m) > 40 { m = m[:40] }; fmt.Println("recovered:", m) }()
		o := st.Eval(prog)
		fmt.Println("eval result", o.Type())
	}()
	fmt.Println("eval", time.Since(t2))
}
