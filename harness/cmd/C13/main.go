package main

// C13: macro expansion is exact syntactic substitution.
// Correspondence: dump of eval.State.ExpandMacros output vs the Coq macro model (Modify + Macro).
// Direct oracle: the expanded program equals the hand-substituted program (tree dump), prints and
// re-parses like it, evaluates like it; arguments are not evaluated at expansion time; separate call
// sites expand independently; the definition is not altered by its uses (same expansion later).

import (
	"bytes"
	"context"
	"fmt"
	"os"
	"os/exec"
	"path/filepath"
	"strings"

	"fortio.org/log"
	"grol.io/grol/ast"
	"grol.io/grol/eval"
	"grol.io/grol/extensions"
	"grol.io/grol/lexer"
	"grol.io/grol/parser"
	"grol.io/grol/repl"
	"verifharness/common"
	. "verifharness/common"
)

func main() { common.Main("C13", run) }

type tmpl struct {
	params []string
	text   string // template text with unquote(p)
}

var argPool = []string{"1", "x", "2-1", "a || b", "println(\"side\")", "y = 5", "f(3)", "[1,2]", "n => n*2", "-4", "\"s\"", "x++", "1+2*3", "a == b", "{1:2}", "if c {1} else {2}", "z[0]", "q.r",
	// nodes without children (a tree rewrite may hand them out unshared or shared): empty composite literals, empty-bodied lambdas, bare calls
	"[]", "{}", "() => {}", "f()", "[[]]", "{1:{}}", "\"\"", "nil", "true",
	// literals whose source text is not their canonical spelling (the substituted tree keeps the text the user wrote)
	"0x10", "0xff", "0b101", "1_000", "007", "1e3", "2.", ".5", "1_0.5", "`raw`", "\"\\x41\"", "9223372036854775807", "0x7fffffffffffffff"}

func genTemplate(c *Ctx) tmpl { return genTemplateN(c, c.R.Intn(5)) }

func genTemplateN(c *Ctx, np int) tmpl {
	pool := []string{"a", "b", "c", "d"}
	switch k := c.R.Intn(100); {
	case k < 30: // constant-looking (all upper case) parameter names: bound afresh at every call site
		pool = []string{"X", "COND", "A_B", "N2"}
	case k < 45: // parameters named like the macros of the session or like globals of the prelude
		pool = []string{"m", "mm", "x", "f"}
	case k < 55: // parameters named like built-in / extension functions
		pool = []string{"len", "str", "keys", "first"}
	case k < 65: // parameters named like extension functions (looked up in State.Extensions, not in the environment)
		pool = []string{"min", "max", "type", "round"}
	}
	ps := pool[:min(np, 4)]
	u := func() string {
		if len(ps) == 0 {
			return fmt.Sprint(c.R.Intn(9))
		}
		return "unquote(" + ps[c.R.Intn(len(ps))] + ")"
	}
	forms := []func() string{
		func() string {
			return u() + " " + []string{"+", "-", "*", "/", "&&", "||", "==", "<", ":", "%"}[c.R.Intn(10)] + " " + u()
		},
		func() string { return "if " + u() + " {" + u() + "} else {" + u() + "}" },
		func() string { return "g(" + u() + ", 7)" },
		func() string { return "[" + u() + ", " + u() + "]" },
		func() string { return u() },
		func() string { return "42" },
		func() string { return "-" + u() },
		func() string { return u() + "[" + u() + "]" },
		func() string { return "(" + u() + " - " + u() + ") * " + u() },
		func() string { return "v = " + u() },
		func() string { return "func(k) {k + " + u() + "}" },
		func() string { return "{" + "\"k\":" + u() + "}" },
		func() string { return "print(" + u() + ")" },
		func() string { return u() + "(" + u() + ")" }, // unquote in callee position
		func() string { return "for 2 {" + u() + "}" },
		// the same argument as two (three) keys of one map literal, values with visible effects (fix 4ad1aa4: Modify keyed both
		// pairs by the one substituted node), and unquotes in key and value position
		func() string { p := u(); return "{" + p + ": print(1), " + p + ": print(2)}" },
		func() string { p := u(); return "[{" + p + ": print(1), " + p + ": print(2), " + p + ": print(3)}]" },
		func() string { return "{" + u() + ": " + u() + ", " + u() + ": " + u() + "}" },
		// an unquote in field position, after a dot
		func() string { return u() + "." + u() },
		func() string { return "r => r." + u() },
	}
	return tmpl{ps, forms[c.R.Intn(len(forms))]()}
}

// substitute builds the hand-substituted text of one call
func substitute(t tmpl, args []string) string {
	s := t.text
	for i, p := range t.params {
		s = strings.ReplaceAll(s, "unquote("+p+")", "("+args[i]+")")
	}
	return "(" + s + ")"
}

type sess struct {
	withMacros []string // inputs as the user types them
	handSubst  []string // the same inputs, macro definitions removed and calls substituted by hand
}

func genSession(c *Ctx) sess {
	var s sess
	nm := 1 + c.R.Intn(2)
	names := []string{"m", "mm"}
	var ts []tmpl
	def, handExtra := "", ""
	for i := 0; i < nm; i++ {
		t := genTemplate(c)
		ts = append(ts, t)
		if c.R.Pct(25) { // the same name defined twice in ONE input: the later definition is the one in force
			t0 := genTemplateN(c, len(t.params))
			def += names[i] + " = macro(" + strings.Join(t0.params, ", ") + ") {quote(" + t0.text + ")}\n"
			if c.R.Pct(50) {
				def += "v0 = 1\n"
				handExtra += "v0 = 1\n"
			}
		}
		def += names[i] + " = macro(" + strings.Join(t.params, ", ") + ") {quote(" + t.text + ")}\n"
	}
	lastArgs := map[int][]string{}
	call := func() (string, string) {
		i := c.R.Intn(nm)
		t := ts[i]
		var args []string
		if la, ok := lastArgs[i]; ok && len(la) == len(t.params) && c.R.Pct(40) {
			args = la // the very same call text as before (also after a redefinition of the macro)
		} else {
			for range t.params {
				args = append(args, argPool[c.R.Intn(len(argPool))])
			}
		}
		lastArgs[i] = args
		return names[i] + "(" + strings.Join(args, ", ") + ")", substitute(t, args)
	}
	nin := 1 + c.R.Intn(4)
	for k := 0; k < nin; k++ {
		var a, b strings.Builder
		if k == 0 {
			prelude := "a=true;b=false;c=true;x=3;y=0;z=[5,6];q={\"r\":1};f=n=>n+1;g=(p,r)=>p\n"
			a.WriteString(prelude + def)
			b.WriteString(prelude + handExtra)
		}
		if k > 0 && c.R.Pct(35) { // redefine one macro (same arity, new template): later calls use the new template
			i := c.R.Intn(nm)
			ts[i] = genTemplateN(c, len(ts[i].params))
			a.WriteString(names[i] + " = macro(" + strings.Join(ts[i].params, ", ") + ") {quote(" + ts[i].text + ")}\n")
		}
		nst := 1 + c.R.Intn(3)
		for j := 0; j < nst; j++ {
			m, h := call()
			switch c.R.Intn(7) {
			case 0:
				a.WriteString(m + "\n")
				b.WriteString(h + "\n")
			case 1:
				a.WriteString("func w" + fmt.Sprint(j) + "(k) {r = " + m + "; r}\n")
				b.WriteString("func w" + fmt.Sprint(j) + "(k) {r = " + h + "; r}\n")
			case 2:
				a.WriteString("for i = 2 {" + m + "}\n")
				b.WriteString("for i = 2 {" + h + "}\n")
			case 3: // macro call as argument of another macro call (single parameter macros only)
				i := c.R.Intn(nm)
				if len(ts[i].params) == 1 {
					a.WriteString(names[i] + "(" + m + ")\n")
					b.WriteString(substitute(ts[i], []string{h}) + "\n")
				} else {
					a.WriteString("t = [" + m + "]\n")
					b.WriteString("t = [" + h + "]\n")
				}
			case 4:
				a.WriteString("if true {" + m + "} else {" + m + "}\n")
				b.WriteString("if true {" + h + "} else {" + h + "}\n")
			case 5: // call site in callee position
				a.WriteString(m + "(9)\n")
				b.WriteString(h + "(9)\n")
			default:
				a.WriteString("u = " + m + " ; " + m + "\n")
				b.WriteString("u = " + h + " ; " + h + "\n")
			}
		}
		s.withMacros = append(s.withMacros, a.String())
		s.handSubst = append(s.handSubst, b.String())
	}
	return s
}

// calleeSites: the tree has a call whose callee is itself a call or an unquote(...) builtin
// (ast.Modify does not visit the callee of a call expression).
func calleeSites(n ast.Node) bool {
	found := false
	var walk func(n ast.Node)
	walk = func(n ast.Node) {
		if n == nil || found {
			return
		}
		switch x := n.(type) {
		case *ast.CallExpression:
			switch x.Function.(type) {
			case *ast.CallExpression, *ast.Builtin:
				found = true
			}
			walk(x.Function)
			for _, a := range x.Arguments {
				walk(a)
			}
		case *ast.Statements:
			if x != nil {
				for _, e := range x.Statements {
					walk(e)
				}
			}
		case *ast.InfixExpression:
			walk(x.Left)
			if x.Right != nil {
				walk(x.Right)
			}
		case *ast.PrefixExpression:
			walk(x.Right)
		case *ast.IndexExpression:
			walk(x.Left)
			walk(x.Index)
		case *ast.IfExpression:
			walk(x.Condition)
			walk(x.Consequence)
			if x.Alternative != nil {
				walk(x.Alternative)
			}
		case *ast.ForExpression:
			walk(x.Condition)
			walk(x.Body)
		case *ast.ReturnStatement:
			if x.ReturnValue != nil {
				walk(x.ReturnValue)
			}
		case *ast.FunctionLiteral:
			walk(x.Body)
		case *ast.MacroLiteral:
			walk(x.Body)
		case *ast.ArrayLiteral:
			for _, e := range x.Elements {
				walk(e)
			}
		case *ast.MapLiteral:
			for _, k := range x.Order {
				walk(k)
				walk(x.Pairs[k])
			}
		case *ast.Builtin:
			for _, e := range x.Parameters {
				walk(e)
			}
		}
	}
	walk(n)
	return found
}

func parseProg(src string) (*ast.Statements, bool) {
	p := parser.New(lexer.New(src))
	prog := p.ParseProgram()
	return prog, len(p.Errors()) == 0
}

// evalSession feeds the inputs to one session through one of the entry points that expand macros:
// "repl" (repl.EvalOne), "evalstring" (eval.EvalString, what eval(..), load(..) and the auto-load use)
func evalSession(inputs []string, entry string) (res string, errs []string) {
	s := eval.NewState()
	var out bytes.Buffer
	s.Out, s.LogOut, s.NoLog = &out, &out, true
	s.MaxDepth = 200
	defer func() {
		if r := recover(); r != nil {
			// the memory guard's message carries the free memory of the moment: not part of the comparison
			msg := fmt.Sprint(r)
			if i := strings.Index(msg, " objects, "); i >= 0 && strings.HasPrefix(msg, "would exceed memory") {
				msg = msg[:i] + " objects"
			}
			res = out.String() + "|PANIC " + msg
		}
	}()
	for _, in := range inputs {
		switch entry {
		case "evalstring":
			o, err := eval.EvalString(s, in, false)
			v := "nil"
			if o != nil {
				v = o.Inspect()
			}
			fmt.Fprintf(&out, "=> %s\n", v)
			errs = append(errs, fmt.Sprint(err != nil))
		default:
			_, _, e, _ := repl.EvalOne(context.Background(), s, in, &out, repl.Options{All: true, ShowEval: true, NoColor: true})
			errs = append(errs, fmt.Sprint(len(e)))
		}
	}
	return out.String(), errs
}

// macroKey: the replayable form of a session (the inputs with macros and their hand-substituted counterparts)
func macroKey(s sess) string {
	return "MACRO " + Hx([]byte(strings.Join(s.withMacros, "\x00"))) + " " + Hx([]byte(strings.Join(s.handSubst, "\x00")))
}

func one(c *Ctx, s sess) {
	c.Eval()
	st := eval.NewState()
	var dumpsIn, obs []string
	okAll := true
	calleeSite := false
	for i, in := range s.withMacros {
		prog, ok := parseProg(in)
		hand, ok2 := parseProg(s.handSubst[i])
		if !ok || !ok2 {
			c.Count("unparseable-generated-input")
			return
		}
		dumpsIn = append(dumpsIn, Hx([]byte(DumpAST(prog))))
		if calleeSites(prog) {
			calleeSite = true
		}
		var exp ast.Node
		func() {
			defer func() {
				if r := recover(); r != nil {
					c.Fail("expansion-panic", macroKey(s), fmt.Sprint(r))
					okAll = false
				}
			}()
			st.DefineMacros(prog)
			if st.NumMacros() > 0 {
				exp = st.ExpandMacros(prog)
			} else {
				exp = prog
			}
		}()
		if !okAll {
			return
		}
		// an absent list (nil) and an empty one are the same tree: the rewrite hands out `() => {}` with an empty parameter list
		// where the parser leaves it nil (no node position can hold both a nil node and a list, so one spelling for both is exact)
		norm := func(d string) string { return strings.ReplaceAll(strings.ReplaceAll(d, " ", ""), "nil", "[]") }
		ed := norm(DumpList(exp.(*ast.Statements).Statements, true))
		obs = append(obs, Hx([]byte(ed)))
		hd := norm(DumpList(hand.Statements, true))
		if ed != hd {
			sig := "expansion-differs-from-hand-substitution"
			_ = calleeSite
			c.Fail(sig, macroKey(s), fmt.Sprintf("input=%q hand=%q expanded-tree=%s hand-tree=%s", in, s.handSubst[i], ed, hd))
			okAll = false
		}
		// the expanded program prints and re-parses like the hand-substituted one
		for _, compact := range []bool{false, true} {
			t1, p1 := Format(exp.(*ast.Statements), compact)
			t2, p2 := Format(hand, compact)
			if p1 || p2 || (ed == hd && !bytes.Equal(t1, t2)) {
				c.Fail("expanded-prints-differently", macroKey(s), fmt.Sprintf("%q vs %q", t1, t2))
			}
		}
	}
	c.Case("MACRO "+strings.Join(dumpsIn, " "), strings.Join(obs, " "))
	// evaluation: the session with macros behaves like the hand-substituted session
	for _, entry := range []string{"repl", "evalstring"} {
		o1, e1 := evalSession(s.withMacros, entry)
		o2, e2 := evalSession(s.handSubst, entry)
		if okAll && (o1 != o2 || strings.Join(e1, ",") != strings.Join(e2, ",")) {
			c.Fail("expanded-evaluates-differently:"+entry, macroKey(s), fmt.Sprintf("out %q vs %q errs %v vs %v", o1, o2, e1, e2))
		}
		c.Count("entry=" + entry)
	}
	c.NonTrivial(strings.Join(s.withMacros, "|"))
}

// oneEvalOnly: sessions whose macro text lives inside strings (eval(lib)): only behaviour is compared, there is no tree of the
// input to compare.
func oneEvalOnly(c *Ctx, s sess) {
	c.Eval()
	for _, l := range [][]string{s.withMacros, s.handSubst} {
		for _, in := range l {
			if _, ok := parseProg(in); !ok {
				c.Count("unparseable-generated-input")
				return
			}
			// the text inside the string, too
			if i, j := strings.Index(in, "`"), strings.LastIndex(in, "`"); i >= 0 && j > i {
				if _, ok := parseProg(in[i+1 : j]); !ok {
					c.Count("unparseable-generated-input")
					return
				}
			}
		}
	}
	key := "MACROEV " + Hx([]byte(strings.Join(s.withMacros, "\x00"))) + " " + Hx([]byte(strings.Join(s.handSubst, "\x00")))
	for _, entry := range []string{"repl", "evalstring"} {
		o1, e1 := evalSession(s.withMacros, entry)
		o2, e2 := evalSession(s.handSubst, entry)
		if o1 != o2 || strings.Join(e1, ",") != strings.Join(e2, ",") {
			c.Fail("reentered-text-evaluates-differently:"+entry, key, fmt.Sprintf("inputs %q: out %q vs hand-substituted %q, errs %v vs %v", s.withMacros, o1, o2, e1, e2))
		}
		c.Count("entry=" + entry + ":eval-twice")
	}
}

func run(c *Ctx) {
	c.Rule = "sessions of 1-4 inputs defining 1-2 quoted-template macros (0-4 parameters named a..d, upper case, like the session's macros / globals, or like built-in functions; a macro may be redefined between inputs and the same call text re-used; each session evaluated through repl.EvalOne and through eval.EvalString; each parameter used 0-3 times, 15 template forms incl. unquote in callee position) and using them at top level, " +
		"in functions, loops, if branches, as argument of another macro call and in callee position, with arguments from a pool incl. side effects and operators looser than the context. non-trivial = distinct sessions"
	_ = extensions.Init(nil)
	log.SetLogLevelQuiet(log.Critical)
	if c.ReplayCase != "" {
		f := strings.Fields(c.ReplayCase)
		if len(f) == 4 && f[0] == "MULTIFILE" {
			replayMF = []string{string(Unhx(f[1])), string(Unhx(f[2])), f[3]}
			multiFile(c)
		}
		if len(f) == 3 && f[0] == "MACROEV" {
			oneEvalOnly(c, sess{withMacros: strings.Split(string(Unhx(f[1])), "\x00"), handSubst: strings.Split(string(Unhx(f[2])), "\x00")})
		}
		if len(f) == 3 && f[0] == "MACRO" {
			one(c, sess{withMacros: strings.Split(string(Unhx(f[1])), "\x00"), handSubst: strings.Split(string(Unhx(f[2])), "\x00")})
		}
		return
	}
	// corpus
	one(c, sess{[]string{"m = macro(a,b){quote(unquote(a)-unquote(b))}\nm(10,2-1)\n"}, []string{"((10)-(2-1))\n"}})
	one(c, sess{[]string{"mk = macro(a){quote(x => x + unquote(a))}\nmk(1)(2)\n"}, []string{"(x => x + (1))(2)\n"}})
	one(c, sess{[]string{"m = macro(f){quote(unquote(f)(1))}\nm(len)\n"}, []string{"((len)(1))\n"}})
	one(c, sess{[]string{"sq = macro(X){quote(unquote(X)*unquote(X))}\nsq(3); sq(1+1)\n"}, []string{"((3)*(3)); ((1+1)*(1+1))\n"}})
	one(c, sess{[]string{"pair = macro(a,b){quote([unquote(a),unquote(b)])}\npair(1,2); pair(3,4)\n", "pair(5,6)\n"}, []string{"([(1),(2)]); ([(3),(4)])\n", "([(5),(6)])\n"}})
	one(c, sess{[]string{"m = macro(a){quote(unquote(a)+1)}\nmm = macro(m){quote(unquote(m)*2)}\nmm(5)\nm(2)\n"}, []string{"((5)*2)\n((2)+1)\n"}})
	one(c, sess{[]string{"k = macro(len){quote(unquote(len)+1)}\nk(5)\nlen([1,2])\n"}, []string{"((5)+1)\nlen([1,2])\n"}})
	one(c, sess{[]string{"m = macro(a){quote(unquote(a)+1)}\nm(3)\n", "m = macro(a){quote(unquote(a)*10)}\nm(3)\n"}, []string{"((3)+1)\n", "((3)*10)\n"}})
	one(c, sess{[]string{"m = macro(a){quote(unquote(a)+1)}\nm = macro(a){quote(unquote(a)*10)}\nm(2+3)\n", "m(1)\n"}, []string{"((2+3)*10)\n", "((1)*10)\n"}})
	// functions made by macros calling each other: separate expansions are separate functions (a closure's free variables are
	// looked up by the identity of the function body), whether the template substitutes anything or not
	fbody := "func(next,depth){ if depth==0 {seen=\"set by the first\"; next(next,1)} else {seen} }"
	for vi, v := range []struct{ params, tmplText, args string }{
		{"", fbody, ""},
		{"p", fbody, "1"},
		{"p", "func(next,depth){ if depth==0 {seen=unquote(p); next(next,1)} else {seen} }", "\"set by the first\""},
		{"p", "[" + fbody + ", unquote(p)][0]", "7"},
	} {
		hand := "(" + strings.ReplaceAll(v.tmplText, "unquote(p)", "("+v.args+")") + ")"
		def := "walker = macro(" + v.params + "){quote(" + v.tmplText + ")}\n"
		call := "walker(" + v.args + ")"
		for ui, use := range []string{"println(catch(a(b,0)))", "println(catch(b(a,0)))", "println(catch(a(a,0)))", "println(catch(a(b,0)), catch(b(a,0)))", "c2 = @; println(catch(c2(a,0)), catch(a(c2,0)))"} {
			mk := func(x string) string { return strings.ReplaceAll(use, "@", x) }
			// all in one input; one definition per input; uses in a later input
			one(c, sess{[]string{def + "a = " + call + "; b = " + call + "\n" + mk(call) + "\n"}, []string{"a = " + hand + "; b = " + hand + "\n" + mk(hand) + "\n"}})
			if (vi+ui)%2 == 0 {
				one(c, sess{[]string{def + "a = " + call + "\n", "b = " + call + "\n", mk(call) + "\n"}, []string{"a = " + hand + "\n", "b = " + hand + "\n", mk(hand) + "\n"}})
			}
		}
	}
	// one argument used at two places of a template: two trees, as in the hand-written program (fixed defect: shared node)
	farg := "func(g,d){if d==0{y=42;g(g,1)}else{y}}"
	one(c, sess{[]string{"m = macro(f){quote(unquote(f)(unquote(f),0))}\nprintln(catch(m(" + farg + ")))\n"}, []string{"println(catch(((" + farg + ")((" + farg + "),0))))\n"}})
	one(c, sess{[]string{"m = macro(f){quote([unquote(f), unquote(f)])}\np = m(" + farg + ")\nprintln(catch(p[0](p[1],0)), catch(p[1](p[0],0)))\n"}, []string{"p = ([(" + farg + "), (" + farg + ")])\nprintln(catch(p[0](p[1],0)), catch(p[1](p[0],0)))\n"}})
	// ... and the function literal wrapped in every expression form an argument can have (a copy decision made by looking for
	// function literals in the argument must look everywhere)
	fl := "func(g,d){if d==0{y:=42;g(g,1)}else{y}}"
	for _, w := range []string{"if fast {@} else {@}", "[@][0]", "{1:@}[1]", "(@)", "(() => @)()", "if !fast {1} else {@}", "(n => @)(0)", "[0, @][1]", "for 1 {@}", "func(){@}()", "if fast {if fast {@} else {2}} else {3}"} {
		arg := strings.ReplaceAll(w, "@", fl)
		pre := "y = 7; fast = true\n"
		one(c, sess{[]string{pre + "selfapply = macro(f){quote(unquote(f)(unquote(f),0))}\nprintln(catch(selfapply(" + arg + ")))\n"}, []string{pre + "println(catch(((" + arg + ")((" + arg + "),0))))\n"}})
		one(c, sess{[]string{pre + "pair = macro(f){quote([unquote(f), unquote(f)])}\n", "func use(){p = pair(" + arg + "); [catch(p[0](p[1],0)), catch(p[1](p[0],0))]}\nprintln(use())\n"}, []string{pre, "func use(){p = ([(" + arg + "), (" + arg + ")]); [catch(p[0](p[1],0)), catch(p[1](p[0],0))]}\nprintln(use())\n"}})
	}
	n := 500
	if c.Thorough() {
		n = 20000
	}
	for i := 0; i < n; i++ {
		one(c, genSession(c))
		if i%10 == 0 {
			oneEvalOnly(c, genEvalTwice(c))
		}
	}
	multiFile(c)
}

// genEvalTwice: the definition AND a use are the text of a string that the session evaluates twice through eval(), the
// macro being redefined at top level in between: the second eval(lib) must define and expand the text's own template again
// (a parse tree remembered per text would have lost its definitions: DefineMacros removes them from the tree in place).
func genEvalTwice(c *Ctx) sess {
	t1 := genTemplate(c)
	t2 := genTemplateN(c, len(t1.params))
	args := func(t tmpl) []string {
		var a []string
		for range t.params {
			a = append(a, argPool[c.R.Intn(len(argPool))])
		}
		return a
	}
	a1, a2 := args(t1), args(t2)
	prelude := "a=true;b=false;c=true;x=3;y=0;z=[5,6];q={\"r\":1};f=n=>n+1;g=(p,r)=>p\n"
	def := func(t tmpl) string {
		return "m = macro(" + strings.Join(t.params, ", ") + ") {quote(" + t.text + ")}\n"
	}
	callm := func(a []string) string { return "m(" + strings.Join(a, ", ") + ")\n" }
	if strings.Contains(t1.text, "`") || strings.Contains(strings.Join(a1, ""), "`") {
		return sess{[]string{"1\n"}, []string{"1\n"}}
	}
	return sess{
		withMacros: []string{prelude + "lib = `" + def(t1) + callm(a1) + "`\neval(lib)\n", def(t2) + callm(a2), "eval(lib)\n", callm(a2)},
		handSubst:  []string{prelude + "lib = `" + substitute(t1, a1) + "`\neval(lib)\n", substitute(t2, a2) + "\n", "eval(lib)\n", substitute(t1, a2) + "\n"},
	}
}

// multiFile: the interpreter binary given several script files (main.go creates one session per file unless -shared-state):
// a macro defined by one file must not rewrite the calls of the next file.  Together = each alone, in order.
func multiFile(c *Ctx) {
	bin, err := BuildGrol(c, "grol-c13")
	if err != nil {
		c.Fail("multifile:build", "MULTIFILE", err.Error())
		return
	}
	defer os.Remove(bin)
	dir, err := os.MkdirTemp(c.Out, "c13mf")
	if err != nil {
		c.Fail("multifile:tempdir", "MULTIFILE", err.Error())
		return
	}
	defer os.RemoveAll(dir)
	runFiles := func(files ...string) (string, bool) {
		cmd := exec.Command(bin, append([]string{"-quiet", "-no-auto", "-no-progress"}, files...)...)
		cmd.Dir = dir
		out, err := cmd.Output() // stdout only: the logger's lines carry time stamps
		return string(out), err == nil
	}
	n := 12
	if c.Thorough() {
		n = 150
	}
	for i := 0; i < n; i++ {
		c.Eval()
		t := genTemplateN(c, 1+c.R.Intn(2))
		name := []string{"m", "twice", "wrap"}[c.R.Intn(3)]
		var args []string
		for range t.params {
			args = append(args, argPool[c.R.Intn(len(argPool))])
		}
		prelude := "a=true;b=false;c=true;x=3;y=0;z=[5,6];q={\"r\":1};f=n=>n+1;g=(p,r)=>p\n"
		fa := prelude + name + " = macro(" + strings.Join(t.params, ", ") + ") {quote(" + t.text + ")}\nprintln(\"a:\", " + name + "(" + strings.Join(args, ", ") + "))\n"
		ps := []string{"p1", "p2"}[:len(t.params)]
		bumps := strings.TrimSuffix(strings.Repeat("bump(), ", len(ps)), ", ")
		fb := "n=0; func bump(){n=n+1;n}\n" + name + " = func(" + strings.Join(ps, ", ") + "){p1*10}\nprintln(\"b:\", " + name + "(" + bumps + "), \"bump calls:\", n)\n"
		fc := "println(\"c:\", 1)\n"
		orders := [][]string{{"a.gr", "b.gr"}, {"a.gr", "c.gr", "b.gr"}, {"b.gr", "a.gr", "b.gr"}}
		if replayMF != nil {
			fa, fb, orders = replayMF[0], replayMF[1], [][]string{strings.Split(replayMF[2], ",")}
		}
		_ = os.WriteFile(filepath.Join(dir, "a.gr"), []byte(fa), 0o644)
		_ = os.WriteFile(filepath.Join(dir, "b.gr"), []byte(fb), 0o644)
		_ = os.WriteFile(filepath.Join(dir, "c.gr"), []byte(fc), 0o644)
		for _, order := range orders {
			var alone string
			allOk := true
			for _, f := range order {
				o, ok := runFiles(f)
				alone += o
				allOk = allOk && ok
			}
			if !allOk { // a file that fails alone stops the run: nothing to compare
				c.Count("multifile-skipped:a-file-fails-alone")
				continue
			}
			together, okT := runFiles(order...)
			if together != alone || !okT {
				c.Fail("multifile:macro-leaks-between-files", "MULTIFILE "+Hx([]byte(fa))+" "+Hx([]byte(fb))+" "+strings.Join(order, ","),
					fmt.Sprintf("files %v together print %q, each alone %q", order, together, alone))
			}
		}
		c.Count("multifile-sets")
		if replayMF != nil {
			return
		}
	}
}

var replayMF []string // replay of one MULTIFILE case: text of a.gr, text of b.gr, order
