// asttest: dumps the trees of the shipped examples (self-test of the AST dump / OCaml reader).
package main

import (
	"fmt"
	"os"
	"path/filepath"

	"grol.io/grol/lexer"
	"grol.io/grol/parser"
	"verifharness/common"
)

func main() {
	files, _ := filepath.Glob("/repo/examples/*.gr")
	more, _ := filepath.Glob("/repo/tests/*.gr")
	for _, f := range append(files, more...) {
		b, _ := os.ReadFile(f)
		p := parser.New(lexer.NewBytes(b))
		prog := p.ParseProgram()
		fmt.Println(common.DumpAST(prog))
	}
	for _, s := range []string{"x[1:]", "a=>b=>c", "func f(a,..){}", "-9223372036854775808", "1e308*10", "{1:2,\"a\":[1,2]}", "if", "m=macro(a){quote(unquote(a))}", "a++ // c\n/* b */ x"} {
		p := parser.New(lexer.New(s))
		fmt.Println(common.DumpAST(p.ParseProgram()))
	}
}
