package main

// C15: line-at-a-time input is equivalent to whole-file input.
// (1) complete programs: line mode yields the same tree as file mode, no continuation;
// (2) every prefix cut at a token boundary inside an unclosed ( [ { or right after a binary operator,
//     and every byte cut inside a string / block comment: line mode asks for more input, no error;
// (3) scripts fed statement by statement (all splits into consecutive chunks) to a persistent session
//     give the same output and final globals as evaluated in one go.
// Correspondence: (errors, continuation, tree) of the real line-mode front end vs the Coq models.

import (
	"bytes"
	"context"
	"fmt"
	"strings"

	"grol.io/grol/eval"
	"grol.io/grol/extensions"
	"grol.io/grol/lexer"
	"grol.io/grol/repl"
	"grol.io/grol/token"
	"verifharness/common"
	. "verifharness/common"
)

func main() { common.Main("C15", run) }

type st struct{ complete, cuts, cutsOpen, sessions, splits int }

var binaryOps = map[token.Type]bool{
	token.PLUS: true, token.MINUS: true, token.ASTERISK: true, token.SLASH: true, token.PERCENT: true, token.EQ: true, token.NOTEQ: true,
	token.LT: true, token.LTEQ: true, token.GT: true, token.GTEQ: true, token.LEFTSHIFT: true, token.RIGHTSHIFT: true, token.AND: true,
	token.OR: true, token.BITAND: true, token.BITOR: true, token.BITXOR: true, token.ASSIGN: true, token.DEFINE: true,
}

func cutsOf(c *Ctx, src []byte, s *st) {
	// token boundaries via the public lexer API
	l := lexer.NewBytes(src)
	depth := 0
	for i := 0; i < len(src)+2; i++ {
		t := l.NextToken()
		if t.Type() == token.EOF {
			break
		}
		end := l.Pos()
		switch t.Type() {
		case token.LPAREN, token.LBRACKET, token.LBRACE:
			depth++
		case token.RPAREN, token.RBRACKET, token.RBRACE:
			depth--
		}
		if end >= len(src) {
			break
		}
		prefix := src[:end]
		s.cuts++
		open := depth > 0 || binaryOps[t.Type()]
		fr := Front(prefix, true)
		toModel := s.cuts%3 == 0 || open
		if toModel {
			c.Case(fmt.Sprintf("FRONT L %s %s", Hx(prefix), Convs(prefix)), fr.Obs)
		}
		if !open {
			continue
		}
		s.cutsOpen++
		cs := "FRONT L " + Hx(prefix)
		if fr.Panic != "" {
			c.Fail("cut-panic", cs, fr.Panic)
		} else if len(fr.Errors) > 0 {
			what := "paren"
			if binaryOps[t.Type()] && depth <= 0 {
				what = "after-binary-operator:" + t.Type().String()
			}
			c.Fail("open-prefix-error:"+what, cs, fmt.Sprintf("prefix=%q errors=%v", prefix, fr.Errors))
		} else if !fr.Cont {
			c.Fail("open-prefix-no-continuation", cs, fmt.Sprintf("prefix=%q", prefix))
		}
		c.NonTrivial(string(prefix))
	}
}

func complete(c *Ctx, src []byte, s *st) bool {
	c.Eval()
	ff := Front(src, false)
	fl := Front(src, true)
	c.Case(fmt.Sprintf("FRONT L %s %s", Hx(src), Convs(src)), fl.Obs)
	if ff.Panic != "" || len(ff.Errors) > 0 || ff.Cont {
		return false
	}
	// complete = accepted in file mode and all brackets closed at the end
	if !balanced(src) {
		return false
	}
	s.complete++
	cs := "FRONT L " + Hx(src)
	if fl.Panic != "" || len(fl.Errors) > 0 {
		c.Fail("linemode-rejects-complete-program", cs, fmt.Sprintf("src=%q errors=%v panic=%q", src, fl.Errors, fl.Panic))
	} else if fl.Cont {
		c.Fail("linemode-continuation-on-complete-program", cs, fmt.Sprintf("src=%q", src))
	} else if fl.TreeDump != ff.TreeDump {
		c.Fail("linemode-tree-differs", cs, fmt.Sprintf("src=%q", src))
	}
	return true
}

func balanced(src []byte) bool {
	l := lexer.NewBytes(src)
	depth := 0
	for i := 0; i < len(src)+2; i++ {
		t := l.NextToken()
		switch t.Type() {
		case token.LPAREN, token.LBRACKET, token.LBRACE:
			depth++
		case token.RPAREN, token.RBRACKET, token.RBRACE:
			depth--
		case token.EOF:
			return depth == 0
		case token.ILLEGAL:
			return false
		}
	}
	return false
}

// ---- scripts: safe, terminating, deterministic statements ----
func scriptStmts(c *Ctx) []string {
	vars := []string{"a", "b", "k", "total"}
	n := 3 + c.R.Intn(5)
	var out []string
	out = append(out, "a = 1", "b = 2")
	defined := map[string]bool{"a": true, "b": true}
	haveF, haveM := false, false
	macroHeavy := c.R.Intn(3) == 0 // a third of the scripts define a macro first and use it in several statements
	if macroHeavy {
		out = append(out, c.R.Pick([]string{"m = macro(x, y) { quote(unquote(x) + unquote(y) * 2) }", "m = macro(x, y) { quote(if unquote(x) > 2 { unquote(y) } else { unquote(x) }) }"}))
		haveM = true
	}
	for i := 0; i < n; i++ {
		v := vars[c.R.Intn(len(vars))]
		k := c.R.Intn(9)
		if c.R.Intn(8) == 0 {
			k = 10 + c.R.Intn(3) // statements that remove or rebind a name: what they do to a LATER statement must not depend on the chunking
		}
		if macroHeavy && c.R.Intn(3) == 0 {
			k = 6 + 3*c.R.Intn(2) // a macro use: printed, or stored in a variable / used inside a function defined now and called later
		}
		switch k {
		case 9:
			switch c.R.Intn(5) {
			case 0:
				out = append(out, fmt.Sprintf("%s = m(a, %d) + 1", v, c.R.Intn(5)))
				defined[v] = true
			case 1:
				out = append(out, fmt.Sprintf("func g%d(x) {\n\tm(x, %d)\n}", i, c.R.Intn(5)), fmt.Sprintf("println(g%d(b))", i))
			case 2:
				out = append(out, fmt.Sprintf("for i = 2 {\n\tprintln(m(i, a))\n}"))
			default:
				// the only macro call of the statement sits where a walk over the tree may not look: callee position, a lambda
				// body called at once, an index / map / prefix / condition operand, an argument of another macro call
				d := c.R.Intn(5)
				out = append(out, c.R.Pick([]string{
					fmt.Sprintf("r%d = (() => m(a, %d))()", i, d), fmt.Sprintf("r%d = [m(a, %d)][0]", i, d), fmt.Sprintf("r%d = {1: m(b, %d)}[1]", i, d),
					fmt.Sprintf("r%d = -m(a, %d)", i, d), fmt.Sprintf("if m(a, %d) != 0 {\n\tprintln(\"nz\")\n}", d), fmt.Sprintf("r%d = m(m(a, 1), %d)", i, d),
					fmt.Sprintf("k%d = n => m(n, %d)", i, d), fmt.Sprintf("r%d = func() {\n\tm(a, %d)\n}()", i, d), fmt.Sprintf("r%d = [1, 2, 3][m(0, 0):]", i),
					fmt.Sprintf("r%d = len([m(a, %d), m(b, 1)])", i, d)}))
				out = append(out, fmt.Sprintf("println(\"r\", %s)", c.R.Pick([]string{"a", "b"})))
			}
		case 10:
			// del of a variable, a function or a macro name, followed by a new binding of that name
			name := c.R.Pick([]string{"m", "f", "k", "total", "m"})
			out = append(out, "del("+name+")", c.R.Pick([]string{name + " = 7", name + " = func(x, y) { x * 10 + y }", "println(\"deleted\")"}))
			if name == "f" {
				haveF = false
			}
		case 11:
			// a macro name bound to a function (and the other way round): calls before and after, in the same and in later chunks
			if haveM {
				out = append(out, "m = func(x, y) { x * 10 + y }", fmt.Sprintf("println(\"call:\", m(a, %d))", c.R.Intn(5)))
			} else {
				out = append(out, "f = macro(x) { quote(unquote(x) + 1) }", "println(f(3))")
				haveF = true
			}
		case 12:
			out = append(out, fmt.Sprintf("%s := %d", v, c.R.Intn(10)), fmt.Sprintf("println(%s)", v))
			defined[v] = true
		case 0:
			out = append(out, fmt.Sprintf("%s = a + %d", v, c.R.Intn(10)))
			defined[v] = true
		case 1:
			out = append(out, fmt.Sprintf("println(\"v\", a, b * %d)", 1+c.R.Intn(5)))
		case 2:
			out = append(out, "func f(x) {\n\tx * 2 + a\n}")
			haveF = true
		case 3:
			if haveF {
				out = append(out, fmt.Sprintf("println(f(%d))", c.R.Intn(9)))
			} else {
				out = append(out, "print(\"-\")")
			}
		case 4:
			out = append(out, fmt.Sprintf("for i = %d {\n\ta = a + i\n}", 1+c.R.Intn(4)))
		case 5:
			// (re)definition: one of several templates, so that a script can define the same macro twice, also in one chunk
			out = append(out, c.R.Pick([]string{"m = macro(x, y) { quote(unquote(x) + unquote(y) * 2) }", "m = macro(x, y) { quote(unquote(x) * 100 - unquote(y)) }", "m = macro(x, y) { quote([unquote(y), unquote(x)]) }"}))
			haveM = true
		case 6:
			if haveM {
				out = append(out, fmt.Sprintf("println(m(a, %d))", c.R.Intn(5)))
			} else {
				out = append(out, "b = b + 1")
			}
		case 7:
			out = append(out, "arr = [a, b, [a]]; println(arr)")
		default:
			out = append(out, fmt.Sprintf("if a > %d {\n\tprintln(\"big\")\n} else {\n\tb = b - 1\n}", c.R.Intn(20)))
		}
	}
	return out
}

// macroRedefinedAfterUse: some macro name is defined again in a statement that follows a statement using it
func macroRedefinedAfterUse(stm []string) bool {
	firstUse := map[string]int{}
	for i, st := range stm {
		for _, name := range []string{"m", "f", "double", "sq", "check"} {
			isDef := strings.HasPrefix(st, name+" = macro(")
			if isDef {
				if u, ok := firstUse[name]; ok && u < i {
					return true
				}
				continue
			}
			if strings.Contains(st, name+"(") {
				if _, ok := firstUse[name]; !ok {
					firstUse[name] = i
				}
			}
		}
	}
	return false
}

// macroUsedBeforeDefined: a name is called in a statement that precedes its first definition as a macro. In one go that call is a
// macro use (definitions are collected first), so the script is outside the property's hypothesis "macros defined before use".
func macroUsedBeforeDefined(stm []string) bool {
	used := map[string]bool{}
	defd := map[string]bool{}
	for _, st := range stm {
		for _, name := range []string{"m", "f", "double", "sq", "check"} {
			if strings.HasPrefix(st, name+" = macro(") {
				if used[name] && !defd[name] {
					return true
				}
				defd[name] = true
				continue
			}
			if strings.Contains(st, name+"(") {
				used[name] = true
			}
		}
	}
	return false
}

// evalError: evaluating the script in one go ends in an error value (EvalOne reports those only with ShowEval)
func evalError(whole string) bool {
	s := eval.NewState()
	var out bytes.Buffer
	s.Out, s.LogOut, s.NoLog = &out, &out, true
	_, pan, e, _ := repl.EvalOne(context.Background(), s, whole, &out, repl.Options{All: true, ShowEval: true, NoColor: true})
	return pan || len(e) > 0
}

// evalErrorEach: fed one statement at a time to one session, some statement ends in an error
func evalErrorEach(stm []string) bool {
	s := eval.NewState()
	if sessionMaxDepth > 0 {
		s.MaxDepth = sessionMaxDepth
	}
	var out bytes.Buffer
	s.Out, s.LogOut, s.NoLog = &out, &out, true
	for _, st := range stm {
		_, pan, e, _ := repl.EvalOne(context.Background(), s, st, &out, repl.Options{All: true, ShowEval: true, NoColor: true})
		if pan || len(e) > 0 {
			return true
		}
	}
	return false
}

var sessionMaxDepth int // 0: the default

func runSession(chunks []string) (string, string, []string) {
	s := eval.NewState()
	if sessionMaxDepth > 0 {
		s.MaxDepth = sessionMaxDepth
	}
	var out bytes.Buffer
	s.Out = &out
	s.LogOut = &out
	s.NoLog = true
	opts := repl.Options{All: true, ShowEval: false, NoColor: true}
	var errs []string
	for _, ch := range chunks {
		_, _, e, _ := repl.EvalOne(context.Background(), s, ch, &out, opts)
		errs = append(errs, e...)
	}
	var g bytes.Buffer
	_, _ = s.SaveGlobals(&g)
	return out.String(), g.String(), errs
}

func sessions(c *Ctx, s *st) {
	n := 40
	if c.Thorough() {
		n = 1500
	}
	fixed := [][]string{
		{"double = macro(x){quote(unquote(x)*2)}", "a = double(4)", "println(\"a =\", a)", "b = double(a)+1", "println(\"b =\", b)"},
		{"sq = macro(x){quote(unquote(x)*unquote(x))}", "func f(n) {\n\tsq(n+1)\n}", "println(f(2))", "println(sq(3), f(4))"},
		{"check = macro(c){quote(if !(unquote(c)) {println(\"failed\")})}", "check = macro(c){quote(if unquote(c) {println(\"ok\")} else {println(\"failed\")})}", "n = 3", "check(n > 2)", "m = n * 2", "check(m == 6)"},
	}
	// a macro name deleted and bound to a function: expansion happens once per input, before evaluation
	fixed = append(fixed, []string{"m = macro(x){quote(unquote(x)+1)}", "println(\"macro:\", m(1))", "del(m)", "m = func(x){x*10}", "println(\"function:\", m(1))"})
	// what one input leaves in the function-result cache is there for the next input: a script whose last statement is only
	// within the depth limit because the earlier loop filled the cache (12000 remembered results, depth limit 4000)
	fixed = append(fixed, []string{"sum = func(n) { if n <= 0 { return 0 } n + self(n - 1) }", "for i = 12001 { sum(i) }", "println(\"sum:\", sum(12000))", "done = true"})
	for k := 0; k < n+len(fixed); k++ {
		var stm []string
		sessionMaxDepth = 0
		if k < len(fixed) {
			stm = fixed[k]
			if len(stm) > 0 && strings.HasPrefix(stm[0], "sum = func") {
				sessionMaxDepth = 4000
			}
		} else {
			stm = scriptStmts(c)
		}
		whole := strings.Join(stm, "\n")
		if macroUsedBeforeDefined(stm) {
			c.Count("script-macro-used-before-defined-skipped")
			continue
		}
		o0, g0, e0 := runSession([]string{whole})
		if errWhole := len(e0) > 0 || evalError(whole); errWhole {
			// the property is about error-free scripts (a run-time error ends an input early). A script is only set aside when it
			// also fails fed one statement at a time: failing in ONE of the two ways of feeding it is a difference
			if errEach := evalErrorEach(stm); errEach || macroRedefinedAfterUse(stm) {
				c.Count("script-with-errors-skipped")
				continue
			}
			c.Fail("chunked-differs-from-whole:error-only-when-evaluated-in-one-go", "SESSION "+Hx([]byte(strings.Join(stm, "\x00"))),
				fmt.Sprintf("script %q: evaluated in one go it ends in an error (%v), fed one statement at a time it does not", stm, e0))
			continue
		}
		s.sessions++
		m := len(stm) - 1
		masks := []int{}
		if m <= 6 {
			for x := 1; x < 1<<m; x++ {
				masks = append(masks, x)
			}
		} else {
			for x := 0; x < 40; x++ {
				masks = append(masks, 1+c.R.Intn(1<<m-1))
			}
			masks = append(masks, 1<<m-1)
		}
		for _, mask := range masks {
			var chunks []string
			cur := stm[0]
			for i := 1; i < len(stm); i++ {
				if mask&(1<<(i-1)) != 0 {
					chunks = append(chunks, cur)
					cur = stm[i]
				} else {
					cur += "\n" + stm[i]
				}
			}
			chunks = append(chunks, cur)
			o1, g1, e1 := runSession(chunks)
			s.splits++
			c.Eval()
			if o1 != o0 || g1 != g0 || len(e1) > 0 {
				sig := "chunked-differs-from-whole"
				if macroRedefinedAfterUse(stm) { // the recorded finding: definitions of one input are collected before any expansion
					sig += ":macro-redefined-after-use"
				}
				c.Fail(sig, "SESSION "+Hx([]byte(strings.Join(chunks, "\x00"))),
					fmt.Sprintf("chunks=%q out %q vs %q globals %q vs %q errs %v", chunks, o1, o0, g1, g0, e1))
			}
		}
		c.NonTrivial(whole)
	}
}

func run(c *Ctx) {
	c.Rule = "grammar-generated programs: line mode vs file mode on each complete program; every token-boundary prefix (inside an open ( [ { or after a binary operator: must ask for continuation without error) " +
		"and byte cuts inside strings and block comments; generated error-free scripts fed in all splits into consecutive chunks (<= 7 statements: all 2^(n-1) splits) to a persistent session vs in one go. " +
		"non-trivial = distinct open prefixes + distinct scripts"
	_ = extensions.Init(nil)
	if c.ReplayCase != "" {
		f := strings.Fields(c.ReplayCase)
		var s st
		if len(f) == 3 && f[0] == "FRONT" {
			src := Unhx(f[2])
			complete(c, src, &s)
			cutsOf(c, src, &s)
		}
		if len(f) == 2 && f[0] == "INTERACTIVE" {
			interactive(c)
		}
		return
	}
	var s st
	for _, src := range []string{"x = (1 +\n2)", "a = [1,\n2]", "m = {1:\n2}", "func f(a,\nb) {a}", "if a {\nb\n} else {\nc\n}", "s = \"a\nb\"", "/* c\n */ x", "a +\nb", "f(\n)", "x = `raw\nstring`"} {
		complete(c, []byte(src), &s)
		cutsOf(c, []byte(src), &s)
	}
	n := 300
	if c.Thorough() {
		n = 12000
	}
	for i := 0; i < n; i++ {
		g := &Gen{R: c.R, O: GenOpts{AvoidKnown: true, Comments: i%4 == 0, MaxDepth: 3}}
		src := []byte(g.Program())
		if complete(c, src, &s) {
			cutsOf(c, src, &s)
		}
	}
	// byte cuts inside strings and block comments
	for _, lit := range []string{`x = "hello world"`, "y = `raw string`", "/* block comment */ z", `f("a", "bc")`, "a /* in */ + b",
		`"a statement that is a string"`, "`raw first`; x", `x; "second statement"`, `{"k": "v"}`, "[`a`, `b`]"} {
		b := []byte(lit)
		inside := false
		for i := 1; i < len(b); i++ {
			prefix := b[:i]
			fr := Front(prefix, true)
			c.Case(fmt.Sprintf("FRONT L %s %s", Hx(prefix), Convs(prefix)), fr.Obs)
			// inside a string/comment iff the prefix has an unterminated one: lexer-independent test
			q := strings.Count(string(prefix), `"`)%2 == 1 || strings.Count(string(prefix), "`")%2 == 1 ||
				(strings.Contains(string(prefix), "/*") && !strings.Contains(string(prefix), "*/"))
			inside = q
			if inside {
				s.cutsOpen++
				if len(fr.Errors) > 0 || !fr.Cont {
					c.Fail("open-string-or-comment-no-continuation", "FRONT L "+Hx(prefix), fmt.Sprintf("prefix=%q errors=%v cont=%v", prefix, fr.Errors, fr.Cont))
				}
			}
		}
	}
	sessions(c, &s)
	interactive(c)
	c.Dist["complete-programs"] = s.complete
	c.Dist["prefix-cuts"] = s.cuts
	c.Dist["open-prefix-cuts"] = s.cutsOpen
	c.Dist["scripts"] = s.sessions
	c.Dist["script-splits"] = s.splits
}
