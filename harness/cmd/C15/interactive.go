package main

// The interactive prompt itself (repl.Interactive, reached only through the binary without arguments): a program typed line
// by line - every line of the file followed by <enter> - prints what the file prints. The driver waits for the next
// prompt ("$ " or, while more input is needed, "> ") before it sends the next line, so nothing depends on timing.

import (
	"bytes"
	"fmt"
	"io"
	"os"
	"os/exec"
	"path/filepath"
	"strings"
	"sync"
	"time"

	. "verifharness/common"
)

type promptReader struct {
	mu  sync.Mutex
	buf bytes.Buffer
	eof bool
}

func (p *promptReader) pump(r io.Reader) {
	b := make([]byte, 4096)
	for {
		n, err := r.Read(b)
		p.mu.Lock()
		p.buf.Write(b[:n])
		if err != nil {
			p.eof = true
		}
		p.mu.Unlock()
		if err != nil {
			return
		}
	}
}

// waitPrompt waits until the output produced since position from ends with a prompt; returns the new position.
func (p *promptReader) waitPrompt(from int, d time.Duration) (int, bool) {
	deadline := time.Now().Add(d)
	for time.Now().Before(deadline) {
		p.mu.Lock()
		b := p.buf.Bytes()
		ok := len(b) > from && (bytes.HasSuffix(b, []byte("$ ")) || bytes.HasSuffix(b, []byte("> ")))
		n, eof := len(b), p.eof
		p.mu.Unlock()
		if ok {
			return n, true
		}
		if eof {
			return n, false
		}
		time.Sleep(2 * time.Millisecond)
	}
	return from, false
}

func marked(out string) []string {
	var res []string
	for _, l := range strings.Split(strings.ReplaceAll(out, "\r", "\n"), "\n") {
		if strings.HasPrefix(l, "@@") {
			res = append(res, l)
		}
	}
	return res
}

// typeIn feeds the lines to the prompt of the binary; returns the marked output lines and a description of what went wrong
func typeIn(bin, dir string, lines []string) ([]string, string) {
	cmd := exec.Command(bin, "-quiet", "-no-auto", "-max-history", "0")
	cmd.Dir = dir
	cmd.Env = append(os.Environ(), "HOME="+dir, "TERM=dumb")
	in, err := cmd.StdinPipe()
	if err != nil {
		return nil, err.Error()
	}
	pr, pw := io.Pipe()
	cmd.Stdout, cmd.Stderr = pw, pw
	if err := cmd.Start(); err != nil {
		return nil, err.Error()
	}
	rd := &promptReader{}
	go rd.pump(pr)
	done := make(chan error, 1)
	go func() { done <- cmd.Wait(); pw.Close() }()
	pos, ok := rd.waitPrompt(0, 10*time.Second)
	problem := ""
	if !ok {
		problem = "no first prompt"
	}
	for i, l := range lines {
		if problem != "" {
			break
		}
		if _, err := in.Write([]byte(l + "\r")); err != nil {
			problem = fmt.Sprintf("write of line %d: %v", i+1, err)
			break
		}
		if pos, ok = rd.waitPrompt(pos, 10*time.Second); !ok {
			problem = fmt.Sprintf("no prompt after line %d %q", i+1, l)
		}
	}
	_, _ = in.Write([]byte("exit\r"))
	select {
	case <-done:
	case <-time.After(5 * time.Second):
		_ = cmd.Process.Kill()
		<-done
		if problem == "" {
			problem = "the prompt did not leave on exit"
		}
	}
	in.Close()
	time.Sleep(5 * time.Millisecond)
	rd.mu.Lock()
	out := rd.buf.String()
	rd.mu.Unlock()
	return marked(out), problem
}

// interactiveScripts: constructs that span lines (strings, block comments, brackets, blocks, calls) with blank and white-space-only
// lines inside and between them; every statement's effect is printed with a @@ marker.
func interactiveScripts(c *Ctx) [][]string {
	pieces := [][]string{
		{"s = `first", "", "last`", "println(\"@@LEN\", len(s))"},
		{"t = `a", " ", "  b", "`", "println(\"@@T\", len(t))"},
		{"m = [1,", "", "2]", "println(\"@@SUM\", m[0] + m[1])"},
		{"mp = {1:", "", "2,", "  3:4}", "println(\"@@MP\", mp)"},
		{"func g(a) {", "", "  a + 1", "", "}", "println(\"@@G\", g(1))"},
		{"if true {", "", "  x = 1", "} else {", "", "  x = 2", "}", "println(\"@@X\", x)"},
		{"/* a", "", " b */ y = 3", "println(\"@@Y\", y)"},
		{"z = (1 +", "", "  2)", "println(\"@@Z\", z)"},
		{"println(\"@@CALL\",", "", "  5)"},
		{"for i = 2 {", "", "  println(\"@@I\", i)", "}"},
		{"q = \"one", "", "two\"", "println(\"@@Q\", len(q))"},
		{"k = n => {", "  n * 2", "", "}", "println(\"@@K\", k(4))"},
		{"", "w = 5", "", "", "println(\"@@W\", w)"},
		{"   ", "v = 6 // c", "  ", "println(\"@@V\", v)"},
		{"ar = [", "  // only a comment", "", "  7]", "println(\"@@AR\", ar)"},
	}
	var scripts [][]string
	for _, p := range pieces {
		scripts = append(scripts, p)
	}
	n := 25
	if c.Thorough() {
		n = 300
	}
	for i := 0; i < n; i++ {
		var sc []string
		for k := 0; k < 2+c.R.Intn(4); k++ {
			sc = append(sc, pieces[c.R.Intn(len(pieces))]...)
			if c.R.Pct(30) {
				sc = append(sc, c.R.Pick([]string{"", " ", "   "})) // (no tab: at the prompt the tab key asks for completion)
			}
		}
		scripts = append(scripts, sc)
	}
	return scripts
}

func interactive(c *Ctx) {
	bin, err := BuildGrol(c, "grol-c15")
	if err != nil {
		c.Fail("interactive:build", "INTERACTIVE", err.Error())
		return
	}
	dir, err := os.MkdirTemp("", "c15-it-")
	if err != nil {
		c.Fail("interactive:tempdir", "INTERACTIVE", err.Error())
		return
	}
	defer os.RemoveAll(dir)
	scripts := interactiveScripts(c)
	if c.ReplayCase != "" {
		f := strings.Fields(c.ReplayCase)
		scripts = [][]string{strings.Split(string(Unhx(f[1])), "\n")}
	}
	for _, sc := range scripts {
		c.Eval()
		text := strings.Join(sc, "\n") + "\n"
		cs := "INTERACTIVE " + Hx([]byte(strings.Join(sc, "\n")))
		file := filepath.Join(dir, "prog.gr")
		_ = os.WriteFile(file, []byte(text), 0o600)
		cmd := exec.Command(bin, "-quiet", "-no-auto", "prog.gr")
		cmd.Dir = dir
		out, ferr := cmd.CombinedOutput()
		want := marked(string(out))
		if ferr != nil || len(want) == 0 {
			c.Count("interactive-script-fails-as-file-skipped")
			continue
		}
		got, problem := typeIn(bin, dir, sc)
		c.Count("interactive-scripts")
		if problem != "" {
			c.Fail("interactive:"+strings.SplitN(problem, " ", 3)[0]+"-"+strings.SplitN(problem+" x", " ", 3)[1], cs, fmt.Sprintf("%s; script %q", problem, text))
			continue
		}
		if strings.Join(got, "\n") != strings.Join(want, "\n") {
			c.Fail("interactive:typed-differs-from-file", cs, fmt.Sprintf("script %q: as a file %q, typed line by line %q", text, want, got))
		}
		c.NonTrivial("it:" + text)
	}
}
