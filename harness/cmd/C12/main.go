package main

// C12: ordering and equality are coherent and total.
// Correspondence: object.Cmp / object.Equals (under recover) and the operators < <= > >= == != , min, max and
// map lookup evaluated from grol source, on every ordered pair of a curated universe and of random value sets,
// against the extracted Coq model (coq/model/Cmp.v).
// Direct oracle (model-free): the order / equivalence axioms themselves, checked on every pair and every
// triple of each universe from the matrix of real Cmp / Equals / operator results.

import (
	"fmt"
	"math"
	"strings"

	"grol.io/grol/ast"
	"grol.io/grol/eval"
	"grol.io/grol/extensions"
	"grol.io/grol/lexer"
	"grol.io/grol/object"
	"grol.io/grol/parser"
	"verifharness/common"
	. "verifharness/common"
)

func main() { common.Main("C12", runC12) }

// ---- universe entries
type uval struct {
	obj   object.Object // the object handed to Cmp / injected into the evaluator
	copyO object.Object // a second, separately built object denoting the same value
	canon string
	src   string // grol literal denoting the same value ("" if none)
	api   bool   // only usable through the Go API (errors, return values): operators are not evaluated
}

var (
	state *eval.State
	cur   []uval // what uv(i) / uc(i) return
)

func mk(o, c object.Object, src string) uval {
	return uval{obj: o, copyO: c, canon: Canon(o), src: src}
}

func evalObj(code string) object.Object {
	r, err := eval.EvalString(state, code, false)
	if err != nil {
		panic("universe construction failed: " + code + ": " + err.Error())
	}
	return r
}

func fromSrc(code string) uval { return mk(evalObj(code), evalObj(code), code) }

func mkMacro(code string) object.Object {
	p := parser.New(lexer.New("m=" + code))
	prog := p.ParseProgram()
	if len(p.Errors()) != 0 || len(prog.Statements) != 1 {
		return nil
	}
	as, ok := prog.Statements[0].(*ast.InfixExpression)
	if !ok {
		return nil
	}
	ml, ok := as.Right.(*ast.MacroLiteral)
	if !ok {
		return nil
	}
	return &object.Macro{Parameters: ml.Parameters, Body: ml.Body}
}

func ival(v int64) uval {
	src := fmt.Sprintf("%d", v)
	if v == math.MinInt64 {
		src = "(-9223372036854775807-1)"
	} else if v < 0 {
		src = fmt.Sprintf("(%d)", v)
	}
	return mk(object.Integer{Value: v}, object.Integer{Value: v}, src)
}

func fval(f float64, src string) uval {
	return mk(object.Float{Value: f}, object.Float{Value: f}, src)
}

func curated() []uval {
	var u []uval
	p53 := int64(1) << 53
	for _, v := range []int64{0, 1, -1, 2, 3, p53 - 1, p53, p53 + 1, p53 + 2, -p53, -p53 - 1, -p53 + 1,
		math.MaxInt64, math.MaxInt64 - 1, math.MinInt64, math.MinInt64 + 1, 1 << 62,
		math.MaxInt64 - 1023, math.MaxInt64 - 1024, math.MaxInt64 - 511, math.MinInt64 + 1024} {
		u = append(u, ival(v))
	}
	fl := []struct {
		f   float64
		src string
	}{
		{0, "0.0"}, {math.Copysign(0, -1), "(-0.0)"}, {1, "1.0"}, {-1, "(-1.0)"}, {0.5, "0.5"}, {1.5, "1.5"}, {2, "2.0"},
		{2.5, "2.5"}, {-2.5, "(-2.5)"}, {3, "3.0"}, {0.1, "0.1"},
		{float64(p53), "9007199254740992.0"}, {float64(p53 + 2), "9007199254740994.0"}, {float64(p53 - 1), "9007199254740991.0"},
		{-float64(p53), "(-9007199254740992.0)"}, {-float64(p53) - 2, ""},
		{0x1p63, "9223372036854775808.0"}, {-0x1p63, "(-9223372036854775808.0)"},
		{math.Nextafter(0x1p63, 0), ""}, {math.Nextafter(-0x1p63, math.Inf(-1)), ""}, {math.Nextafter(0x1p63, math.Inf(1)), ""},
		{0x1p62, "4611686018427387904.0"},
		{math.NaN(), "NaN"}, {math.Inf(1), "Inf"}, {math.Inf(-1), "(-Inf)"},
		{math.SmallestNonzeroFloat64, ""}, {-math.SmallestNonzeroFloat64, ""}, {0x1p-1022, ""}, {math.Nextafter(0x1p-1022, 0), ""},
		{math.MaxFloat64, ""}, {-math.MaxFloat64, ""}, {1e100, ""}, {1e-300, ""},
	}
	for _, x := range fl {
		u = append(u, fval(x.f, x.src))
	}
	u = append(u, mk(object.TRUE, object.Boolean{Value: true}, "true"), mk(object.FALSE, object.Boolean{Value: false}, "false"),
		mk(object.NULL, object.Null{}, "nil"))
	for _, s := range []string{"", "a", "ab", "b", "A", "\x00", "a\x00", "\xff", "\xc3\xa9", "1", "key"} {
		src := ""
		if s == "" || (s[0] >= '1' && s[0] <= 'z' && !strings.ContainsAny(s, "\x00\xff")) {
			src = fmt.Sprintf("%q", s)
		}
		u = append(u, mk(object.String{Value: s}, object.String{Value: string([]byte(s))}, src))
	}
	for _, code := range []string{
		"[]", "[1]", "[1.0]", "[2]", "[1,2]", "[2,1]", "[1,2,3]", "[[1]]", "[[]]", "[[1],[2]]", `["a"]`, "[nil]", "[true]",
		"[NaN]", "[1,[2,3]]", "[1,2,3,4,5,6,7,8,9]", "[1,2,3,4,5,6,7,8,10]", "[{}]", "[{1:1}]", "[9007199254740993]", "[9007199254740992.0]",
		"{}", "{1:1}", "{1:2}", "{1.0:1}", "{2:1}", "{1:1,2:2}", `{"a":1}`, `{"a":1,"b":2}`, "{1:1,2:2,3:3,4:4,5:5}",
		"{1:1,2:2,3:3,4:4,5:6}", "{[1]:1}", "{nil:nil}", "{1:[1]}", "{1:{1:1}}", "{1:1,2:2,3:3,4:4,6:5}",
		"func(){1}", "func(){2}", "func(x){x}", "x=>x", "func named(){1}", "(a,b)=>a+b",
		"min", "max", "sin",
		"quote(1)", "quote(2)", "quote(a+b)",
	} {
		u = append(u, fromSrc(code))
	}
	// functions that print alike but are different objects: closures from two calls of one maker (same depth),
	// from a maker called at a greater depth, a copy of a closure, named functions with equal bodies and different
	// names, and the same inside arrays and as map keys. (fromSrc evaluates the code twice: the entry and its "copy"
	// are two closures too.) Cmp orders functions by their text: all of these are order-equivalent.
	evalObj("mk=func(n){()=>{n=n+1}}")
	evalObj("deep=func(){inner=func(n){()=>{n=n+1}};inner(0)}")
	evalObj("deeper=func(){deep()}")
	for _, code := range []string{"mk(0)", "mk(0)", "mk(1)", "deep()", "deeper()", "func na(){1}", "func nb(){1}",
		"[mk(0)]", "[mk(0)]", "[deep()]", "{mk(0):1}", "{mk(0):1}", "{deeper():1}", "[mk(0),mk(0)]", "[deep(),mk(0)]"} {
		x := fromSrc(code)
		x.src = "" // re-evaluating the text makes yet another closure: no literal rendition for these
		u = append(u, x)
	}
	u = append(u, mk(evalObj("c1=mk(0)"), evalObj("c2=c1"), "")) // a closure and a copy of it (the same object)
	// a big map that was shrunk below the small threshold by deletions (still *BigMap), next to the same small map
	bm := object.NewMapSize(6)
	for i := int64(1); i <= 6; i++ {
		bm = bm.Set(object.Integer{Value: i}, object.Integer{Value: i})
	}
	for i := int64(3); i <= 6; i++ {
		bm, _ = bm.Delete(object.Integer{Value: i})
	}
	u = append(u, mk(bm, evalObj("{1:1,2:2}"), ""))
	// macro objects: a program cannot hold one as a value (they live in the macro environment), the Go API can
	for _, code := range []string{"macro(x){x}", "macro(x,y){quote(unquote(x)+unquote(y))}"} {
		m1, m2 := mkMacro(code), mkMacro(code)
		if m1 != nil {
			u = append(u, mk(m1, m2, ""))
		}
	}
	// API-only kinds
	for _, s := range []string{"x", "y"} {
		e := mk(object.Error{Value: s}, object.Error{Value: s}, "")
		e.api = true
		u = append(u, e)
	}
	r := mk(object.ReturnValue{Value: object.Integer{Value: 1}}, object.ReturnValue{Value: object.Integer{Value: 1}}, "")
	r.api = true
	u = append(u, r)
	return u
}

// ---- random values
func rndNumber(c *Ctx) uval {
	p53 := int64(1) << 53
	bases := []int64{0, p53, -p53, math.MaxInt64, math.MinInt64, 1 << 62, 1000}
	switch c.R.Intn(6) {
	case 0, 1:
		b := bases[c.R.Intn(len(bases))]
		d := int64(c.R.Intn(9)) - 4
		v := b + d
		if (d > 0 && v < b) || (d < 0 && v > b) { // wrapped
			v = b
		}
		return ival(v)
	case 2:
		return ival(int64(c.R.Next()))
	case 3: // a float next to an integer boundary, or an integer plus a fraction
		b := float64(bases[c.R.Intn(len(bases))])
		for k := c.R.Intn(4); k > 0; k-- {
			if c.R.Bool() {
				b = math.Nextafter(b, math.Inf(1))
			} else {
				b = math.Nextafter(b, math.Inf(-1))
			}
		}
		if c.R.Pct(30) {
			b = float64(c.R.Intn(9)-4) + []float64{0.5, 0.25, -0.5, 0.75}[c.R.Intn(4)]
		}
		return fval(b, "")
	case 4: // arbitrary bits
		return fval(math.Float64frombits(c.R.Next()), "")
	default:
		return fval([]float64{math.NaN(), math.Inf(1), math.Inf(-1), math.Copysign(0, -1), 0, 1, 2}[c.R.Intn(7)], "")
	}
}

func rndValue(c *Ctx, depth int) object.Object {
	k := c.R.Intn(10)
	if depth <= 0 && k >= 7 {
		k = c.R.Intn(7)
	}
	switch k {
	case 0, 1, 2:
		return rndNumber(c).obj
	case 3:
		return object.NativeBoolToBooleanObject(c.R.Bool())
	case 4:
		return object.NULL
	case 5, 6:
		n := c.R.Intn(4)
		b := make([]byte, n)
		for i := range b {
			b[i] = "ab\x00\xff"[c.R.Intn(4)]
		}
		return object.String{Value: string(b)}
	case 7, 8:
		n := c.R.Intn(4)
		if c.R.Pct(5) {
			n = 9 + c.R.Intn(3)
		}
		els := make([]object.Object, n)
		for i := range els {
			els[i] = rndValue(c, depth-1)
		}
		return object.NewArray(els)
	default:
		n := c.R.Intn(4)
		if c.R.Pct(10) {
			n = 5 + c.R.Intn(3)
		}
		m := object.NewMapSize(c.R.Intn(7))
		for i := 0; i < n; i++ {
			key := rndValue(c, depth-1)
			if !safeEqualsSelf(key) {
				continue
			}
			m = m.Set(key, rndValue(c, depth-1))
		}
		return m
	}
}

func safeEqualsSelf(o object.Object) (ok bool) {
	defer func() {
		if recover() != nil {
			ok = false
		}
	}()
	return object.Equals(o, o)
}

func rebuild(o object.Object) object.Object {
	if c, ok := ParseCanon(Canon(o)); ok {
		return c
	}
	return o
}

// ---- observations
func typeName(o object.Object) string { return o.Type().String() }

func safeCmp(a, b object.Object) (r int, pan string) {
	defer func() {
		if x := recover(); x != nil {
			pan = fmt.Sprint(x)
		}
	}()
	return object.Cmp(a, b), ""
}

func safeEq(a, b object.Object) (r bool, pan string) {
	defer func() {
		if x := recover(); x != nil {
			pan = fmt.Sprint(x)
		}
	}()
	return object.Equals(a, b), ""
}

// evalSrc evaluates grol source in the shared state; a Go panic is recovered and reported.
func evalSrc(code string) (res object.Object, pan string) {
	defer func() {
		if x := recover(); x != nil {
			pan = fmt.Sprint(x)
			state = eval.NewState() // the state is not reusable after a panic
		}
	}()
	r, _ := eval.EvalString(state, code, false)
	return r, ""
}

var extMin, extMax object.Extension

func callExt(e object.Extension, a, b object.Object) (res object.Object, pan string) {
	defer func() {
		if x := recover(); x != nil {
			pan = fmt.Sprint(x)
		}
	}()
	return e.Callback(state, e.Name, []object.Object{a, b}), ""
}

var opNames = []string{"lt", "le", "gt", "ge", "eq", "ne"}
var opSyms = []string{"<", "<=", ">", ">=", "==", "!="}

type pairObs struct {
	c      string    // -1 0 1 P
	e      string    // 0 1 P
	ops    [6]string // 0 1 P E(error) -
	mn, mx string    // canonical value, P, or -
	key    string    // 0 1 P E -
	// the six operators and the lookup again, the operands being delivered by the evaluator instead of built by hand:
	// function parameters (an integer parameter lives in a register), variables of an enclosing function read from a
	// closure (references), a counted-loop variable (register) on the left / on the right. 7 characters or "-".
	par, clo, loopL, loopR string
	top                    string // the six operators and the lookup at top level, 7 characters ("" if not evaluated)
}

func boolObs(o object.Object, pan string) string {
	if pan != "" {
		return "P"
	}
	switch o {
	case object.TRUE:
		return "1"
	case object.FALSE:
		return "0"
	}
	if o != nil && o.Type() == object.ERROR {
		return "E"
	}
	return "?" + Canon(o)
}

func valObs(o object.Object, pan string) string {
	if pan != "" {
		return "P"
	}
	if o != nil && o.Type() == object.ERROR {
		return "E"
	}
	return Canon(o)
}

func keyObs(o object.Object, pan string) string {
	if pan != "" {
		return "P"
	}
	switch v := o.(type) {
	case object.Integer:
		if v.Value == 7 {
			return "1"
		}
	case object.Null:
		return "0"
	case object.Error:
		return "E"
	}
	return "?" + Canon(o)
}

func observe(c *Ctx, i, j int) pairObs {
	a, b := cur[i], cur[j]
	var po pairObs
	r, pan := safeCmp(a.obj, b.obj)
	po.c = fmt.Sprint(r)
	if pan != "" {
		po.c = "P"
		c.Fail("cmp-panic:"+typeName(a.obj), "CMP "+a.canon+" "+b.canon, "object.Cmp panicked: "+pan)
	}
	e, pan := safeEq(a.obj, b.obj)
	po.e = map[bool]string{true: "1", false: "0"}[e]
	if pan != "" {
		po.e = "P"
	}
	if a.api || b.api {
		for k := range po.ops {
			po.ops[k] = "-"
		}
		po.mn, po.mx, po.key = "-", "-", "-"
		po.par, po.clo, po.loopL, po.loopR = "-", "-", "-", "-"
		return po
	}
	A, B := fmt.Sprintf("uv(%d)", i), fmt.Sprintf("uv(%d)", j)
	exprs := make([]string, 0, 9)
	for _, s := range opSyms {
		exprs = append(exprs, A+s+B)
	}
	exprs = append(exprs, "min("+A+","+B+")", "max("+A+","+B+")", "{"+A+":7}["+B+"]")
	// a call splices a trailing array argument into the argument list (min(0,[1]) is min(0,1)): when b is an
	// array the registered min / max callbacks are called on the two objects directly instead
	direct := b.obj.Type() == object.ARRAY
	if direct {
		exprs[6], exprs[7] = "nil", "nil"
	}
	c.Eval()
	res, pan := evalSrc("[" + strings.Join(exprs, ",") + "]")
	var els []object.Object
	if pan == "" && res != nil && res.Type() == object.ARRAY {
		els = object.Elements(res)
	}
	if len(els) == 9 {
		for k := 0; k < 6; k++ {
			po.ops[k] = boolObs(els[k], "")
		}
		po.mn, po.mx, po.key = valObs(els[6], ""), valObs(els[7], ""), keyObs(els[8], "")
		if direct {
			po.mn = valObs(callExt(extMin, a.obj, b.obj))
			po.mx = valObs(callExt(extMax, a.obj, b.obj))
		}
	} else { // one of them failed: evaluate one by one
		for k := 0; k < 6; k++ {
			r, p := evalSrc(exprs[k])
			po.ops[k] = boolObs(r, p)
			if p != "" {
				c.Fail("operator-panic:"+typeName(a.obj), "CMP "+a.canon+" "+b.canon, opSyms[k]+" panicked: "+p)
			}
		}
		r, p := evalSrc(exprs[6])
		if direct {
			r, p = callExt(extMin, a.obj, b.obj)
		}
		po.mn = valObs(r, p)
		r, p = evalSrc(exprs[7])
		if direct {
			r, p = callExt(extMax, a.obj, b.obj)
		}
		po.mx = valObs(r, p)
		if p != "" {
			c.Fail("minmax-panic:"+typeName(a.obj), "CMP "+a.canon+" "+b.canon, "max panicked: "+p)
		}
		r, p = evalSrc(exprs[8])
		po.key = keyObs(r, p)
		if p != "" {
			c.Fail("mapkey-panic:"+typeName(a.obj), "CMP "+a.canon+" "+b.canon, "map literal / lookup panicked: "+p)
		}
	}
	// the same operators with operands that reach them through the evaluator
	top := strings.Join(po.ops[:], "") + po.key
	body := func(x, y string) string {
		var ex []string
		for _, sy := range opSyms {
			ex = append(ex, x+sy+y)
		}
		return "[" + strings.Join(ex, ",") + ",{" + x + ":7}[" + y + "]]"
	}
	route := func(name, code string) string {
		c.Eval()
		res, pan := evalSrc(code)
		got := "PPPPPPP"
		if pan == "" && res != nil && res.Type() == object.ARRAY && len(object.Elements(res)) == 7 {
			el := object.Elements(res)
			var parts []string
			for k := 0; k < 6; k++ {
				parts = append(parts, boolObs(el[k], ""))
			}
			got = strings.Join(parts, "") + keyObs(el[6], "")
		} else if pan == "" {
			got = "?" + Canon(res)
		}
		if got != top {
			c.Fail("operator-depends-on-delivery:"+name, "CMP "+a.canon+" "+b.canon,
				fmt.Sprintf("< <= > >= == != lookup give %s at top level and %s when the operands are %s (%s)", top, got, name, code))
		}
		return got
	}
	po.top = top
	po.par = route("function-parameters", "pf=func(x,y){"+body("x", "y")+"};pf("+A+","+B+")")
	po.clo = route("closure-references", "ph=func(x,y){pk=func(){"+body("x", "y")+"};pk()};ph("+A+","+B+")")
	po.loopL, po.loopR = "-", "-"
	if n, ok := a.obj.(object.Integer); ok && n.Value >= 0 && n.Value <= 3 {
		po.loopL = route("loop-variable-left", fmt.Sprintf("y=%s;r=nil;for i=%d{if i>%d{r=%s}};r", B, n.Value+1, n.Value-1, body("i", "y")))
	}
	if n, ok := b.obj.(object.Integer); ok && n.Value >= 0 && n.Value <= 3 {
		po.loopR = route("loop-variable-right", fmt.Sprintf("x=%s;r=nil;for i=%d{if i>%d{r=%s}};r", A, n.Value+1, n.Value-1, body("x", "i")))
	}
	// one operand WRITTEN in the source text (a literal node, or a prefix / parenthesised form of one), the other one
	// delivered by the evaluator: as a parameter (register for an integer), as a reference from a closure, as a loop variable
	lit := func(v uval) string { // a number is written bare (a literal node; negative ones as a parenthesised prefix form)
		switch v.obj.(type) {
		case object.Integer, object.Float:
			return v.src
		}
		return "(" + v.src + ")"
	}
	if b.src != "" {
		b := uval{obj: b.obj, src: lit(b), canon: b.canon}
		route("parameter-vs-literal", "pl=func(x){"+body("x", b.src)+"};pl("+A+")")
		route("closure-reference-vs-literal", "ql=func(x){qk=func(){"+body("x", b.src)+"};qk()};ql("+A+")")
		if n, ok := a.obj.(object.Integer); ok && n.Value >= 0 && n.Value <= 3 {
			route("loop-variable-vs-literal", fmt.Sprintf("r=nil;for i=%d{if i>%d{r=%s}};r", n.Value+1, n.Value-1, body("i", b.src)))
		}
	}
	if a.src != "" {
		a := uval{obj: a.obj, src: lit(a), canon: a.canon}
		route("literal-vs-parameter", "pr=func(y){"+body(a.src, "y")+"};pr("+B+")")
		route("literal-vs-closure-reference", "qr=func(y){qk=func(){"+body(a.src, "y")+"};qk()};qr("+B+")")
		if n, ok := b.obj.(object.Integer); ok && n.Value >= 0 && n.Value <= 3 {
			route("literal-vs-loop-variable", fmt.Sprintf("r=nil;for i=%d{if i>%d{r=%s}};r", n.Value+1, n.Value-1, body(a.src, "i")))
		}
	}
	// the same comparison written with literals must give the same answers as with injected objects
	if a.src != "" && b.src != "" {
		var ex []string
		for _, s := range opSyms {
			ex = append(ex, "("+a.src+")"+s+"("+b.src+")")
		}
		c.Eval()
		res, pan := evalSrc("[" + strings.Join(ex, ",") + "]")
		got := "PPPPPP"
		if pan == "" && res != nil && res.Type() == object.ARRAY {
			var parts []string
			for _, e := range object.Elements(res) {
				parts = append(parts, boolObs(e, ""))
			}
			got = strings.Join(parts, "")
		}
		if want := strings.Join(po.ops[:], ""); got != want {
			c.Fail("literal-vs-injected-mismatch", "CMP "+a.canon+" "+b.canon,
				fmt.Sprintf("operators on literals %s %s give %s, on the same objects %s", a.src, b.src, got, want))
		}
	}
	return po
}

func (po pairObs) line(a, b uval, c int) string {
	gf := "-"
	ta, tb := a.obj.Type(), b.obj.Type()
	if (ta == object.INTEGER && tb == object.FLOAT) || (ta == object.FLOAT && tb == object.INTEGER) {
		gf = po.c
	}
	var sb strings.Builder
	fmt.Fprintf(&sb, "c=%s e=%s", po.c, po.e)
	for k, n := range opNames {
		fmt.Fprintf(&sb, " %s=%s", n, po.ops[k])
	}
	fmt.Fprintf(&sb, " min=%s max=%s key=%s gf=%s par=%s clo=%s loopl=%s loopr=%s", po.mn, po.mx, po.key, gf, po.par, po.clo, po.loopL, po.loopR)
	return sb.String()
}

// checkUniverse observes every ordered pair (correspondence cases) and then checks the axioms on every pair
// and triple of the matrix (direct oracle).
func checkUniverse(c *Ctx, u []uval, tag string) {
	cur = u
	n := len(u)
	obs := make([][]pairObs, n)
	cm := make([][]int, n) // Cmp results, 2 = panic
	eq := make([][]int, n) // Equals results, 2 = panic
	for i := 0; i < n; i++ {
		obs[i] = make([]pairObs, n)
		cm[i] = make([]int, n)
		eq[i] = make([]int, n)
		for j := 0; j < n; j++ {
			po := observe(c, i, j)
			obs[i][j] = po
			switch po.c {
			case "P":
				cm[i][j] = 2
			default:
				fmt.Sscan(po.c, &cm[i][j])
			}
			switch po.e {
			case "P":
				eq[i][j] = 2
			case "1":
				eq[i][j] = 1
			}
			c.Case("CMP "+u[i].canon+" "+u[j].canon, po.line(u[i], u[j], cm[i][j]))
			c.Count("pair:" + typeName(u[i].obj) + "/" + typeName(u[j].obj))
			if cm[i][j] != 2 && i != j && u[i].obj.Type() != u[j].obj.Type() || (cm[i][j] == 0 && i != j) {
				c.NonTrivial("p|" + u[i].canon + "|" + u[j].canon)
			}
		}
	}
	// the comparisons evaluated INSIDE a function that the interpreter may cache, the two operands being elements of
	// a container argument too large to be a plain cache key (9 element array, 5 entry map): the same function is called
	// for every pair of the universe, so containers that are == (or print alike) but hold differently typed elements
	// (1 / 1.0, [1] / [1.0], ...) are passed one after the other, in both orders (forward pass with arrays, backward
	// pass with maps): each call must answer what the operators answer at top level for that pair.
	inside := func(i, j int, name, code string) {
		if obs[i][j].top == "" {
			return
		}
		cur = u
		c.Eval()
		res, pan := evalSrc(code)
		got := "PPPPPPP"
		if pan == "" && res != nil && res.Type() == object.ARRAY && len(object.Elements(res)) == 7 {
			el := object.Elements(res)
			var parts []string
			for k := 0; k < 6; k++ {
				parts = append(parts, boolObs(el[k], ""))
			}
			got = strings.Join(parts, "") + keyObs(el[6], "")
		} else if pan == "" {
			got = "?" + Canon(res)
		}
		if got != obs[i][j].top {
			c.Fail("operator-depends-on-delivery:"+name, "CMP "+u[i].canon+" "+u[j].canon,
				fmt.Sprintf("< <= > >= == != lookup give %s at top level and %s inside a function called on %s (after the same function was called on the other pairs of the universe)", obs[i][j].top, got, code))
		}
	}
	inBody := func(x, y string) string {
		var ex []string
		for _, sy := range opSyms {
			ex = append(ex, x+sy+y)
		}
		return "[" + strings.Join(ex, ",") + ",{" + x + ":7}[" + y + "]]"
	}
	evalSrc("caf=func(c){" + inBody("c[0]", "c[1]") + "};cmf=func(m){" + inBody("m.a", "m.b") + "}")
	for i := 0; i < n; i++ {
		for j := 0; j < n; j++ {
			inside(i, j, "elements-of-array-argument", fmt.Sprintf("caf([uv(%d),uv(%d),3,4,5,6,7,8,9])", i, j))
		}
	}
	for i := n - 1; i >= 0; i-- {
		for j := n - 1; j >= 0; j-- {
			inside(i, j, "entries-of-map-argument", fmt.Sprintf(`cmf({"a":uv(%d),"b":uv(%d),"c":3,"d":4,"e":5})`, i, j))
		}
	}
	cs := func(i, j int) string { return "CMP " + u[i].canon + " " + u[j].canon }
	cs3 := func(i, j, k int) string { return "CMP3 " + u[i].canon + " " + u[j].canon + " " + u[k].canon }
	tn := func(i int) string { return typeName(u[i].obj) }
	// pairs
	for i := 0; i < n; i++ {
		if cm[i][i] != 0 && cm[i][i] != 2 {
			c.Fail("cmp-not-reflexive:"+tn(i), cs(i, i), fmt.Sprintf("Cmp(a,a)=%d", cm[i][i]))
		}
		if eq[i][i] == 0 {
			c.Fail("equals-not-reflexive:"+tn(i), cs(i, i), "Equals(a,a)=false")
		}
		// a value and a separately built copy of it
		if r, pan := safeCmp(u[i].obj, u[i].copyO); pan == "" && r != 0 {
			c.Fail("copy-not-cmp-equal:"+tn(i), cs(i, i), fmt.Sprintf("Cmp(a,copy a)=%d", r))
		}
		if e, pan := safeEq(u[i].obj, u[i].copyO); pan == "" && !e {
			c.Fail("copy-not-equal:"+tn(i), cs(i, i), "Equals(a, copy a)=false")
		}
		for j := 0; j < n; j++ {
			a, b := cm[i][j], cm[j][i]
			if a == 2 || b == 2 {
				continue
			}
			if a < -1 || a > 1 {
				c.Fail("cmp-out-of-range", cs(i, j), fmt.Sprintf("Cmp=%d", a))
			}
			if a != -b {
				c.Fail("cmp-not-antisymmetric:"+tn(i)+"/"+tn(j), cs(i, j), fmt.Sprintf("Cmp(a,b)=%d Cmp(b,a)=%d", a, b))
			}
			if eq[i][j] != 2 && eq[j][i] != 2 && eq[i][j] != eq[j][i] {
				c.Fail("equals-not-symmetric:"+tn(i)+"/"+tn(j), cs(i, j), "Equals(a,b) != Equals(b,a)")
			}
			if eq[i][j] == 1 && a != 0 {
				c.Fail("equals-without-cmp-zero:"+tn(i)+"/"+tn(j), cs(i, j), fmt.Sprintf("Equals true but Cmp=%d", a))
			}
			if eq[i][j] == 1 && u[i].obj.Type() != u[j].obj.Type() {
				c.Fail("equals-across-types:"+tn(i)+"/"+tn(j), cs(i, j), "Equals true for different types")
			}
			// operators against each other and against Cmp / Equals
			o, p := obs[i][j], obs[j][i]
			if o.ops[0] == "-" {
				continue
			}
			bad := func(what string) {
				c.Fail("operators-inconsistent:"+what, cs(i, j), fmt.Sprintf("a?b: %v  b?a: %v  Cmp=%d Equals=%d", o.ops, p.ops, a, eq[i][j]))
			}
			want := func(b bool) string {
				if b {
					return "1"
				}
				return "0"
			}
			if o.ops[0] != p.ops[2] {
				bad("a<b vs b>a")
			}
			if o.ops[1] != p.ops[3] {
				bad("a<=b vs b>=a")
			}
			if o.ops[1] != want(o.ops[2] == "0") {
				bad("a<=b vs not a>b")
			}
			if o.ops[3] != want(o.ops[0] == "0") {
				bad("a>=b vs not a<b")
			}
			if o.ops[5] != want(o.ops[4] == "0") {
				bad("a!=b vs not a==b")
			}
			if o.ops[4] == "1" && (o.ops[1] != "1" || o.ops[3] != "1") {
				bad("a==b without a<=b and a>=b")
			}
			if o.ops[0] != want(a == -1) || o.ops[2] != want(a == 1) {
				bad("operator vs Cmp")
			}
			if eq[i][j] != 2 && o.ops[4] != want(eq[i][j] == 1) {
				bad("== vs Equals")
			}
			// min / max: one of the two arguments, and a lower / upper bound of both
			for w, got := range []string{o.mn, o.mx} {
				name := []string{"min", "max"}[w]
				if got == "P" || got == "E" {
					c.Fail(name+"-failed:"+tn(i)+"/"+tn(j), cs(i, j), name+" gave "+got)
					continue
				}
				var k int
				switch got {
				case u[i].canon:
					k = i
				case u[j].canon:
					k = j
				default:
					c.Fail(name+"-not-an-argument", cs(i, j), name+" returned "+got)
					continue
				}
				s := 1 - 2*w // min: result <= both ; max: result >= both
				if (cm[k][i] != 2 && s*cm[k][i] > 0) || (cm[k][j] != 2 && s*cm[k][j] > 0) {
					c.Fail(name+"-not-extremal:"+tn(i)+"/"+tn(j), cs(i, j), name+" returned "+got)
				}
			}
			// map lookup finds the key exactly when the keys are order-equivalent
			if o.key != want(a == 0) {
				c.Fail("map-lookup-vs-cmp:"+tn(i)+"/"+tn(j), cs(i, j), fmt.Sprintf("{a:7}[b] found=%s, Cmp=%d", o.key, a))
			}
		}
	}
	// triples
	nt := 0
	for i := 0; i < n; i++ {
		for j := 0; j < n; j++ {
			ab := cm[i][j]
			if ab == 2 {
				continue
			}
			for k := 0; k < n; k++ {
				bc, ac := cm[j][k], cm[i][k]
				if bc == 2 || ac == 2 {
					continue
				}
				nt++
				if ab <= 0 && bc <= 0 && ac > 0 {
					c.Fail("cmp-not-transitive:"+tn(i)+"/"+tn(j)+"/"+tn(k), cs3(i, j, k),
						fmt.Sprintf("a<=b (%d), b<=c (%d) but Cmp(a,c)=%d", ab, bc, ac))
				}
				if ab == 0 && bc == 0 && ac != 0 {
					c.Fail("cmp-equivalence-not-transitive:"+tn(i)+"/"+tn(j)+"/"+tn(k), cs3(i, j, k), fmt.Sprintf("Cmp(a,c)=%d", ac))
				}
				if (ab < 0 && bc <= 0 || ab <= 0 && bc < 0) && ac >= 0 {
					c.Fail("cmp-strict-not-transitive:"+tn(i)+"/"+tn(j)+"/"+tn(k), cs3(i, j, k), fmt.Sprintf("Cmp(a,c)=%d", ac))
				}
				if eq[i][j] == 1 && eq[j][k] == 1 && eq[i][k] == 0 {
					c.Fail("equals-not-transitive:"+tn(i)+"/"+tn(j)+"/"+tn(k), cs3(i, j, k), "a==b, b==c, a!=c")
				}
			}
		}
	}
	c.Evals += nt
	c.Count("triples:" + tag)
	c.Dist["triples-checked"] += nt
}

func runC12(c *Ctx) {
	c.Rule = "every ordered pair of a curated universe (every object type; integers around +-2^53 and the int64 extremes next to " +
		"floats; -0, NaN, +-Inf, subnormals; empty / equal-length / nested containers; functions, extensions, quotes, macro) and of " +
		"random value sets: object.Cmp, object.Equals, the six operators, min, max and map lookup from grol source, compared with the " +
		"extracted model; then the order / equivalence / operator axioms on every pair and every triple of each universe. " +
		"non-trivial = distinct ordered pairs of different types, or of distinct entries that compare equal"
	if err := extensions.Init(nil); err != nil {
		panic(err)
	}
	state = eval.NewState()
	err := object.CreateFunction(object.Extension{Name: "uv", MinArgs: 1, MaxArgs: 1, ArgTypes: []object.Type{object.INTEGER},
		Callback: func(_ any, _ string, args []object.Object) object.Object {
			return cur[args[0].(object.Integer).Value].obj
		}})
	if err != nil {
		panic(err)
	}
	extMin, extMax = evalObj("min").(object.Extension), evalObj("max").(object.Extension)
	if c.ReplayCase != "" {
		c12Replay(c, c.ReplayCase)
		return
	}
	// corpus first: the witnesses of the two defects of the pinned tree
	p53 := int64(1) << 53
	checkUniverse(c, []uval{ival(p53), fval(float64(p53), "9007199254740992.0"), ival(p53 + 1)}, "corpus-2^53")
	checkUniverse(c, []uval{fromSrc("quote(1)"), fromSrc("quote(2)"), fromSrc("[quote(1)]")}, "corpus-quote")
	u := curated()
	c.Extra["universe_size"] = len(u)
	checkUniverse(c, u, "curated")
	c.Extra["exhaustive"] = true
	// random value sets
	sets, size := 40, 10
	if c.Thorough() {
		sets, size = 1500, 14
	}
	for s := 0; s < sets; s++ {
		var ru []uval
		for len(ru) < size {
			var o object.Object
			if c.R.Pct(40) {
				o = rndNumber(c).obj
			} else {
				o = rndValue(c, 2)
			}
			ru = append(ru, mk(o, rebuild(o), ""))
			if c.R.Pct(25) && len(ru) < size { // a near copy: same container with one number nudged across a boundary
				ru = append(ru, mk(rebuild(o), o, ""))
			}
		}
		checkUniverse(c, ru, "random")
	}
}

// replay: "CMP <v1> <v2>" or "CMP3 <v1> <v2> <v3>" (values that can be rebuilt through the API)
func c12Replay(c *Ctx, cs string) {
	f := strings.Fields(cs)
	if len(f) < 3 {
		fmt.Println("bad replay case")
		return
	}
	var u []uval
	for _, s := range f[1:] {
		o, ok := ParseCanon(s)
		if !ok {
			// not rebuildable from the dump (functions, quotes, ...): search the curated universe
			for _, x := range curated() {
				if x.canon == s {
					o, ok = x.obj, true
				}
			}
		}
		if !ok {
			fmt.Println("cannot rebuild", s)
			return
		}
		u = append(u, mk(o, rebuild(o), ""))
	}
	checkUniverse(c, u, "replay")
}
