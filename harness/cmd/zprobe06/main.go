package main

import (
	"bufio"
	"context"
	"fmt"
	"os"
	"strings"

	"fortio.org/log"
	"grol.io/grol/eval"
	"grol.io/grol/extensions"
	"grol.io/grol/repl"
)

func main() {
	log.SetLogLevelQuiet(log.Critical)
	if os.Getenv("NOEXT") == "" {
		_ = extensions.Init(nil)
	}
	noreg := len(os.Args) > 1 && os.Args[1] == "noreg"
	s := eval.NewState()
	s.NoReg = noreg
	opts := repl.Options{All: true, ShowEval: true, NoColor: true, NilAndErr: true, NoReg: noreg}
	sc := bufio.NewScanner(os.Stdin)
	for sc.Scan() {
		line := sc.Text()
		if line == "" { continue }
		if line == "---" { s = eval.NewState(); s.NoReg = noreg; fmt.Println("---"); continue }
		out := &strings.Builder{}
		s.Out = out
		s.LogOut = out
		s.NoLog = true
		_, p, errs, _ := repl.EvalOne(context.Background(), s, line, out, opts)
		fmt.Printf("%-60s => %q panic=%v errs=%v\n", line, strings.TrimSpace(out.String()), p, errs)
	}
}
