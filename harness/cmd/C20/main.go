package main

// C20: completion index behaves as a set of words.
// Correspondence: trie.Insert/Contains/PrefixAll and repl's completion callback vs the Coq model.
// Direct oracle: a Go map + sort beside the trie.

import (
	"bytes"
	"fmt"
	"sort"
	"strings"

	"fortio.org/terminal"
	"grol.io/grol/eval"
	"grol.io/grol/extensions"
	"grol.io/grol/repl"
	"grol.io/grol/trie"
	"verifharness/common"
	. "verifharness/common"
)

func main() { common.Main("C20", runC20) }

func c20Words(alpha []byte, maxLen int) [][]byte {
	var ws [][]byte
	var rec func(cur []byte)
	rec = func(cur []byte) {
		if len(cur) > 0 {
			ws = append(ws, append([]byte(nil), cur...))
		}
		if len(cur) == maxLen {
			return
		}
		for _, a := range alpha {
			rec(append(cur, a))
		}
	}
	rec(nil)
	return ws
}

func lcpLen(ws []string) int {
	if len(ws) == 0 {
		return 0
	}
	l := len(ws[0])
	for _, w := range ws[1:] {
		i := 0
		for i < l && i < len(w) && w[i] == ws[0][i] {
			i++
		}
		l = i
	}
	return l
}

// c20One runs one insertion sequence and its queries; a Go panic inside the trie or the completion callback is a failing
// input of its own (the harness survives it).
func c20One(c *Ctx, words [][]byte, queries [][]byte) {
	defer func() {
		if r := recover(); r != nil {
			var wp, qp []string
			for _, w := range words {
				wp = append(wp, Hx(w))
			}
			for _, q := range queries {
				qp = append(qp, Hx(q))
			}
			c.Fail("trie-panic", "TRIE "+strings.Join(wp, ",")+" Q:"+strings.Join(qp, ","), fmt.Sprint(r))
		}
	}()
	c20OneInner(c, words, queries)
}

func c20OneInner(c *Ctx, words [][]byte, queries [][]byte) {
	t := trie.NewTrie()
	ac := repl.NewCompletion()
	set := map[string]bool{}
	var wparts []string
	for _, w := range words {
		t.Insert(string(w))
		ac.Trie.Insert(string(w))
		if len(w) > 0 {
			set[string(w)] = true
		}
		if len(w) == 0 {
			wparts = append(wparts, "e")
		} else {
			wparts = append(wparts, Hx(w))
		}
	}
	wl := "-"
	if len(wparts) > 0 {
		wl = strings.Join(wparts, ",")
	}
	var qparts, oparts []string
	cb := ac.AutoComplete()
	for _, q := range queries {
		qs := string(q)
		// membership
		got := t.Contains(qs)
		qparts = append(qparts, "C:"+Hx(q))
		oparts = append(oparts, fmt.Sprintf("C=%d", b2i(got)))
		want := set[qs]
		if got != want {
			c.Fail("contains-mismatch", "TRIE "+wl+" C:"+Hx(q), fmt.Sprintf("Contains=%v want %v", got, want))
		}
		// prefix enumeration
		l, res := t.PrefixAll(qs)
		var hres []string
		for _, r := range res {
			hres = append(hres, Hx([]byte(r)))
		}
		qparts = append(qparts, "Q:"+Hx(q))
		oparts = append(oparts, fmt.Sprintf("Q=%d:%s", l, strings.Join(hres, ",")))
		var exp []string
		for w := range set {
			if strings.HasPrefix(w, qs) {
				exp = append(exp, w)
			}
		}
		sort.Strings(exp)
		if strings.Join(exp, "\x00|") != strings.Join(res, "\x00|") || len(exp) != len(res) {
			c.Fail("prefixall-set-mismatch", "TRIE "+wl+" Q:"+Hx(q), fmt.Sprintf("got %q want %q", res, exp))
		} else if len(exp) > 0 && l != lcpLen(exp) {
			c.Fail("prefixall-lcp-mismatch", "TRIE "+wl+" Q:"+Hx(q), fmt.Sprintf("got %d want %d", l, lcpLen(exp)))
		}
		// completion callback
		var buf bytes.Buffer
		nl, np, ok := cb(&terminal.Terminal{Out: &buf}, qs, len(qs), '\t')
		qparts = append(qparts, "T:"+Hx(q))
		if !ok {
			oparts = append(oparts, "T=none")
			if len(exp) != 0 {
				c.Fail("completion-missing", "TRIE "+wl+" T:"+Hx(q), "no completion although candidates exist")
			}
		} else {
			oparts = append(oparts, fmt.Sprintf("T=%s:%d", Hx([]byte(nl)), np))
			bad := !strings.HasPrefix(nl, qs) || np != len(nl)
			for _, w := range exp {
				if !strings.HasPrefix(w, nl) {
					bad = true
				}
			}
			if bad || len(exp) == 0 {
				c.Fail("completion-not-extension", "TRIE "+wl+" T:"+Hx(q), fmt.Sprintf("typed %q -> %q, candidates %q", qs, nl, exp))
			}
		}
		if len(exp) > 1 {
			c.NonTrivial(wl + "|" + Hx(q))
		}
	}
	c.Count(fmt.Sprintf("nwords=%d", len(words)))
	c.Case("TRIE "+wl+" "+strings.Join(qparts, " "), strings.Join(oparts, " "))
}

// c20History runs insertions and completion requests INTERLEAVED on one Completion object and one callback (what a
// session does: every evaluated input records new names, every tab asks): after each step the callback's answer must be
// the one of a fresh index holding the words inserted so far.  op = "I"+word or "T"+typed.
func c20History(c *Ctx, ops []string) {
	defer func() {
		if r := recover(); r != nil {
			c.Fail("trie-panic", "HIST "+histKey(ops), fmt.Sprint(r))
		}
	}()
	ac := repl.NewCompletion()
	cb := ac.AutoComplete()
	set := map[string]bool{}
	var wparts []string
	var st *eval.State
	addWord := func(w string) {
		if !set[w] {
			set[w] = true
			wparts = append(wparts, Hx([]byte(w)))
		}
	}
	defined, opt := map[string]bool{}, map[string]bool{}
	if _, base := ac.Trie.PrefixAll(""); len(base) > 0 { // words a new Completion starts with, if any
		for _, w := range base {
			opt[w] = true
		}
	}
	wholeIndex := func(i int) {
		_, got := ac.Trie.PrefixAll("")
		have := map[string]bool{}
		for _, w := range got {
			have[w] = true
			if !set[w] && !opt[w] {
				c.Fail("index-has-undefined-word:history", "HIST "+histKey(ops[:i+1]), fmt.Sprintf("the index holds %q, which was neither inserted nor defined", w))
			}
		}
		for w := range set {
			if !have[w] {
				c.Fail("index-missing-defined-word:history", "HIST "+histKey(ops[:i+1]), fmt.Sprintf("the index does not hold %q (inserted / recorded by a top-level definition); it holds %q", w, got))
			}
		}
	}
	for i, op := range ops {
		c.Eval()
		arg := op[1:]
		if op[0] == 'D' {
			// a top-level definition evaluated by a session whose names are recorded in this index (what the interactive
			// REPL does: State.RegisterTrie, then every new global is recorded as name and name+"(" / name+" ").
			// arg = "v"+name (a variable) or "f"+name (a function)
			if st == nil {
				st = eval.NewState()
				_, before := ac.Trie.PrefixAll("")
				st.RegisterTrie(ac.Trie)
				_, after := ac.Trie.PrefixAll("")
				had := map[string]bool{}
				for _, w := range before {
					had[w] = true
				}
				for _, w := range after { // the globals of a fresh state: recorded by RegisterTrie itself
					if !had[w] {
						addWord(w)
					}
				}
				for w := range set { // nothing that was there may have gone
					if !ac.Trie.Contains(w) {
						c.Fail("contains-mismatch:history:after-register", "HIST "+histKey(ops[:i+1]), fmt.Sprintf("Contains(%q)=false after RegisterTrie", w))
					}
				}
			}
			name := arg[1:]
			src, suffix := name+" = 1", " "
			if arg[0] == 'f' {
				src, suffix = "func "+name+"(n) {n}", "("
			}
			forced := false
			switch arg[0] { // round 12: `:=` always creates the binding, so it always records - also over an existing name of the other kind
			case 'V':
				src, suffix, forced = name+" := 1", " ", true
			case 'F':
				src, suffix, forced = name+" := (n) => n", "(", true
			}
			if _, err := eval.EvalString(st, src, false); err != nil {
				c.Count("history-definition-rejected")
				continue
			}
			if defined[name] && !forced {
				// a re-definition goes through the update path, which records nothing; a word it MAY add is tolerated
				opt[name+suffix] = true
			} else {
				defined[name] = true
				addWord(name + suffix)
				addWord(name)
			}
			// round 11: the index as a whole is the set of words inserted / defined so far (asking only for the completed line
			// hid a definition that recorded `name` but not `name(`: the line offered is the same)
			wholeIndex(i)
			continue
		}
		if op[0] == 'I' {
			ac.Trie.Insert(arg)
			if len(arg) > 0 {
				set[arg] = true
				wparts = append(wparts, Hx([]byte(arg)))
			} else {
				wparts = append(wparts, "e")
			}
			continue
		}
		wl := "-"
		if len(wparts) > 0 {
			wl = strings.Join(wparts, ",")
		}
		var exp []string
		for w := range set {
			if strings.HasPrefix(w, arg) {
				exp = append(exp, w)
			}
		}
		sort.Strings(exp)
		if got := ac.Trie.Contains(arg); got != set[arg] {
			c.Fail("contains-mismatch:history", "HIST "+histKey(ops[:i+1]), fmt.Sprintf("Contains(%q)=%v want %v", arg, got, set[arg]))
		}
		var buf bytes.Buffer
		nl, np, ok := cb(&terminal.Terminal{Out: &buf}, arg, len(arg), '\t')
		obs := "T=none"
		if !ok {
			if len(exp) != 0 {
				c.Fail("completion-missing:history", "HIST "+histKey(ops[:i+1]), fmt.Sprintf("typed %q: no completion although %q are defined", arg, exp))
			}
		} else {
			obs = fmt.Sprintf("T=%s:%d", Hx([]byte(nl)), np)
			bad := !strings.HasPrefix(nl, arg) || np != len(nl) || len(exp) == 0
			for _, w := range exp {
				if !strings.HasPrefix(w, nl) {
					bad = true
				}
			}
			if len(exp) > 0 && nl != exp[0][:lcpLen(exp)] {
				bad = true
			}
			if bad {
				c.Fail("completion-not-extension:history", "HIST "+histKey(ops[:i+1]), fmt.Sprintf("typed %q -> %q, defined candidates %q", arg, nl, exp))
			}
		}
		if len(exp) > 1 {
			c.NonTrivial("H" + histKey(ops[:i+1]))
		}
		c.Case("TRIE "+wl+" T:"+Hx([]byte(arg)), obs)
	}
	wholeIndex(len(ops) - 1)
	c.Count(fmt.Sprintf("history-steps=%d", len(ops)))
}

func histKey(ops []string) string {
	var p []string
	for _, o := range ops {
		p = append(p, string(o[0])+Hx([]byte(o[1:])))
	}
	return strings.Join(p, ",")
}

func b2i(b bool) int {
	if b {
		return 1
	}
	return 0
}

func permutations(n int, f func([]int)) {
	p := make([]int, n)
	for i := range p {
		p[i] = i
	}
	var rec func(k int)
	rec = func(k int) {
		if k == n {
			f(p)
			return
		}
		for i := k; i < n; i++ {
			p[k], p[i] = p[i], p[k]
			rec(k + 1)
			p[k], p[i] = p[i], p[k]
		}
	}
	rec(0)
}

func runC20(c *Ctx) {
	c.Rule = "exhaustive: every subset of size<=K of all words of length<=L over the alphabet, in every insertion order, " +
		"queried with every prefix of length<=L+1 (Contains, PrefixAll, completion callback); plus random longer words. " +
		"non-trivial = distinct (insertion sequence, query) with >= 2 matching candidates"
	if c.ReplayCase != "" {
		c20Replay(c, c.ReplayCase)
		return
	}
	// corpus first: minimised past failures
	c20One(c, [][]byte{[]byte("ab"), []byte("a")}, [][]byte{[]byte("a"), []byte("ab"), nil, []byte("b")})
	c20One(c, [][]byte{[]byte("a"), []byte("ab")}, [][]byte{[]byte("a"), []byte("ab"), nil})
	c20One(c, [][]byte{{0xff}, {0}, {0xff, 0xff}}, [][]byte{nil, {0xff}, {0}})
	c20One(c, [][]byte{nil, []byte("a")}, [][]byte{nil, []byte("a")})
	// words that diverge INSIDE a multi-byte character: the common prefix ends after the lead byte (the length is in bytes)
	c20One(c, [][]byte{[]byte("caf\xc3\xa9"), []byte("caf\xc3\xa8")}, [][]byte{nil, []byte("c"), []byte("caf"), []byte("caf\xc3"), []byte("caf\xc3\xa9")})
	c20One(c, [][]byte{[]byte("x\xe2\x82\xac1"), []byte("x\xe2\x82\xad"), []byte("y")}, [][]byte{nil, []byte("x"), []byte("x\xe2"), []byte("x\xe2\x82")})
	c20History(c, []string{"Icaf\xc3\xa9", "Icaf\xc3\xa8", "Tcaf", "Tcaf\xc3", "Icaf\xc3", "Tcaf\xc3"})

	type cfg struct {
		alpha  []byte
		maxLen int
		maxSet int
	}
	cfgs := []cfg{{[]byte{'a', 'b'}, 3, 3}, {[]byte{'a', 0x00, 0xff}, 2, 3}, {[]byte{'a', 0xc3, 0xa9, 0xa8}, 2, 3}}
	if c.Thorough() {
		cfgs = []cfg{{[]byte{'a', 'b'}, 3, 4}, {[]byte{'a', 'b', 0x00, 0xff}, 2, 4}, {[]byte{'a', 0x00, 0xff}, 3, 3}, {[]byte{'a', 0xc3, 0xa9, 0xa8}, 3, 3}, {[]byte{0xe2, 0x82, 0xac, 0xad}, 3, 3}}
	}
	for _, cf := range cfgs {
		ws := c20Words(cf.alpha, cf.maxLen)
		qs := append([][]byte{nil}, c20Words(cf.alpha, cf.maxLen+1)...)
		if len(qs) > 40 { // keep all queries up to maxLen, sample the longer ones deterministically
			qs = qs[:40]
		}
		// subsets by increasing size
		var sub func(start int, cur []int)
		sub = func(start int, cur []int) {
			if len(cur) > 0 {
				permutations(len(cur), func(p []int) {
					seq := make([][]byte, len(cur))
					for i, pi := range p {
						seq[i] = ws[cur[pi]]
					}
					c20One(c, seq, qs)
				})
			}
			if len(cur) == cf.maxSet {
				return
			}
			for i := start; i < len(ws); i++ {
				sub(i+1, append(cur, i))
			}
		}
		sub(0, nil)
	}
	c.Extra["exhaustive"] = true
	// interleaved histories on one Completion object: exhaustive over a small op set, then random longer ones
	c20History(c, []string{"Ia", "Ta", "Iaa", "Taa"})
	c20History(c, []string{"Iab", "Tab", "Iabcd", "Tabc"})
	hops := []string{"Ia", "Iaa", "Iab", "Ib", "T", "Ta", "Taa", "Tab", "Tb"}
	hlen := 4
	if c.Thorough() {
		hops = append(hops, "Iaaa", "Taaa", "Iba", "Tba")
		hlen = 5
	}
	var hrec func(cur []string)
	hrec = func(cur []string) {
		if len(cur) > 0 && cur[len(cur)-1][0] == 'T' {
			c20History(c, cur)
		}
		if len(cur) == hlen {
			return
		}
		for _, o := range hops {
			hrec(append(append([]string{}, cur...), o))
		}
	}
	hrec(nil)
	// sessions: words inserted directly (as the REPL inserts keywords, builtins and "history") and names defined by evaluated
	// inputs (recorded through State.RegisterTrie), each extending or extended by the other kind, in both orders
	_ = extensions.Init(nil)
	plain := []string{"history", "hist", "h", "help ", "zed", "zedA", "q(", "q"}
	names := []string{"historySize", "his", "hi", "history2", "zedAlpha", "ze", "qq", "zedA", "hel"}
	for _, pw := range plain {
		for _, nm := range names {
			for _, kind := range []string{"v", "f"} {
				qs := []string{"T", "Th", "Thist", "Thistory", "T" + nm, "T" + pw, "Tz", "Tq"}
				c20History(c, append([]string{"I" + pw, "D" + kind + nm}, qs...))
				c20History(c, append([]string{"D" + kind + nm, "I" + pw}, qs...))
				c20History(c, append([]string{"I" + pw, "Dva1", "D" + kind + nm, "I" + pw + "x"}, qs...))
			}
		}
	}
	for _, nm := range []string{"zq", "hist", "zedA"} {
		for _, seq := range [][]string{{"V", "F"}, {"F", "V"}, {"v", "F"}, {"f", "V"}, {"V", "F", "V"}, {"v", "V", "F"}} {
			var ops []string
			for _, k := range seq {
				ops = append(ops, "D"+k+nm, "T"+nm)
			}
			c20History(c, append(ops, "T", "T"+nm+"("))
			c20History(c, append(append([]string{"I" + nm}, ops...), "T"+nm[:1]))
		}
	}
	sn := 150
	if c.Thorough() {
		sn = 6000
	}
	for i := 0; i < sn; i++ {
		var ops []string
		pool := append(append([]string{}, plain...), names...)
		for k := 0; k < 4+c.R.Intn(8); k++ {
			w := pool[c.R.Intn(len(pool))]
			switch c.R.Intn(4) {
			case 0:
				ops = append(ops, "I"+w)
			case 1:
				id := strings.TrimRight(w, " (")
				ops = append(ops, "D"+[]string{"v", "f", "v", "f", "V", "F"}[c.R.Intn(6)]+id+[]string{"", "Size", "2", "_x"}[c.R.Intn(4)])
			default:
				ops = append(ops, "T"+w[:c.R.Intn(len(w)+1)])
			}
		}
		c20History(c, append(ops, "T", "Th", "Tz"))
	}
	// many candidates: dictionaries of 99..260 words under one prefix (all under the first child of a node plus a sibling after
	// it, a sibling before it, deep chains), asked through the completion callback
	for _, n := range []int{99, 100, 101, 102, 121, 260} {
		for shape := 0; shape < 4; shape++ {
			var ops []string
			for k := 0; k < n; k++ {
				switch shape {
				case 0:
					ops = append(ops, fmt.Sprintf("Izq0%03d", k))
				case 1:
					ops = append(ops, fmt.Sprintf("Izq%03d", k))
				case 2:
					ops = append(ops, "Izq9"+strings.Repeat("a", k%40)+fmt.Sprintf("%d", k))
				default:
					ops = append(ops, fmt.Sprintf("Dvzq0n%d", k))
				}
			}
			ops = append(ops, "Izq1", "Tz", "Tzq", "Tzq0", "T", "Izp", "Tz", "Izq00", "Tzq0", "Tzq9", "Tzq1")
			c20History(c, ops)
		}
	}
	// long words: lengths around every plausible bound of an implementation (255, 256, 257, 1024, 4096 ...), sharing prefixes with
	// short words and with each other
	for _, L := range []int{200, 255, 256, 257, 300, 400, 1023, 1025, 5000} {
		w1 := strings.Repeat("ab", L/2) + strings.Repeat("a", L%2)
		w2 := w1[:L-1] + "c"
		w3 := "zq_" + strings.Repeat("x", L)
		c20One(c, [][]byte{[]byte("ab"), []byte(w1), []byte(w2), []byte("aba"), []byte(w3)}, [][]byte{nil, []byte("a"), []byte("ab"), []byte(w1[:L-1]), []byte(w1), []byte(w2), []byte("zq_"), []byte(w3), []byte(w1 + "a")})
		c20History(c, []string{"I" + w1, "Iab", "T" + w1[:10], "Dvzq_" + strings.Repeat("y", L), "Tzq_", "T" + w1, "I" + w2, "T" + w1[:L-1]})
	}
	hn := 600
	if c.Thorough() {
		hn = 30000
	}
	halpha := []byte("ab(\x00\xff\xc3\xa9\xa8")
	for i := 0; i < hn; i++ {
		var ops []string
		var seen []string
		for k := 0; k < 4+c.R.Intn(8); k++ {
			var w []byte
			if len(seen) > 0 && c.R.Intn(3) > 0 { // extend or truncate something seen: shared prefixes, end-marker upgrades
				b := []byte(seen[c.R.Intn(len(seen))])
				if c.R.Intn(2) == 0 && len(b) > 0 {
					w = b[:c.R.Intn(len(b)+1)]
				} else {
					w = append(append([]byte{}, b...), halpha[c.R.Intn(len(halpha))])
					if c.R.Intn(3) == 0 {
						w = append(w, halpha[c.R.Intn(len(halpha))])
					}
				}
			} else {
				for j := 0; j < 1+c.R.Intn(3); j++ {
					w = append(w, halpha[c.R.Intn(len(halpha))])
				}
			}
			if c.R.Intn(2) == 0 {
				ops = append(ops, "I"+string(w))
				seen = append(seen, string(w))
			} else {
				ops = append(ops, "T"+string(w))
			}
		}
		c20History(c, ops)
	}
	// random longer words, with repeats and empty words
	n := 300
	if c.Thorough() {
		n = 20000
	}
	alpha := []byte("ab(_ \x00\xff\xc3\xa9\xa8")
	for i := 0; i < n; i++ {
		k := 1 + c.R.Intn(12)
		var seq [][]byte
		for j := 0; j < k; j++ {
			if len(seq) > 0 && c.R.Pct(30) { // extend or cut an existing word: shared prefixes
				b := seq[c.R.Intn(len(seq))]
				if c.R.Bool() && len(b) > 0 {
					seq = append(seq, append([]byte(nil), b[:c.R.Intn(len(b)+1)]...))
				} else {
					seq = append(seq, append(append([]byte(nil), b...), alpha[c.R.Intn(len(alpha))]))
				}
				continue
			}
			l := c.R.Intn(7)
			w := make([]byte, l)
			for x := range w {
				w[x] = alpha[c.R.Intn(len(alpha))]
			}
			seq = append(seq, w)
		}
		var qs [][]byte
		qs = append(qs, nil)
		for j := 0; j < 6; j++ {
			b := seq[c.R.Intn(len(seq))]
			qs = append(qs, append([]byte(nil), b[:c.R.Intn(len(b)+1)]...))
		}
		qs = append(qs, []byte{alpha[c.R.Intn(len(alpha))], alpha[c.R.Intn(len(alpha))]})
		c20One(c, seq, qs)
	}
}

// replay: "TRIE <words> <query>"
func c20Replay(c *Ctx, cs string) {
	f := strings.Fields(cs)
	if len(f) == 2 && f[0] == "HIST" {
		var ops []string
		for _, o := range strings.Split(f[1], ",") {
			ops = append(ops, string(o[0])+string(Unhx(o[1:])))
		}
		c20History(c, ops)
		return
	}
	if len(f) < 3 || f[0] != "TRIE" {
		fmt.Println("bad replay case")
		return
	}
	var words [][]byte
	if f[1] != "-" {
		for _, h := range strings.Split(f[1], ",") {
			if h == "e" {
				words = append(words, nil)
			} else {
				words = append(words, Unhx(h))
			}
		}
	}
	var qs [][]byte
	for _, q := range f[2:] {
		qs = append(qs, Unhx(q[2:]))
	}
	c20One(c, words, qs)
}
