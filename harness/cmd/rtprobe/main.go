// rtprobe: print->parse round trip probe for source texts given as arguments (development aid).
package main

import (
	"fmt"
	"os"

	"grol.io/grol/ast"
	"grol.io/grol/lexer"
	"grol.io/grol/parser"
	"verifharness/common"
)

func parse(s string) (string, int) {
	p := parser.New(lexer.New(s))
	prog := p.ParseProgram()
	return common.DumpAST(prog), len(p.Errors())
}

func main() {
	for _, src := range os.Args[1:] {
		p := parser.New(lexer.New(src))
		prog := p.ParseProgram()
		if len(p.Errors()) > 0 {
			fmt.Printf("%q: parse errors %v\n", src, p.Errors())
			continue
		}
		d0 := common.DumpAST(prog)
		for _, compact := range []bool{false, true} {
			ps := ast.NewPrintState()
			ps.Compact = compact
			out := prog.PrettyPrint(ps).String()
			d1, ne := parse(out)
			st := "OK"
			if ne > 0 {
				st = "REPARSE-ERROR"
			} else if d1 != d0 {
				st = "TREE-DIFFERS"
			}
			fmt.Printf("%-14s compact=%-5v %q -> %q\n", st, compact, src, out)
		}
	}
}
