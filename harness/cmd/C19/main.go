package main

// C19: constants cannot be changed by any path.
// Correspondence: sequences of mutation attempts of every syntactic kind (=, :=, ++/--, index assignment, del of an
// element, loop variable, parameter name, nested functions and loops, explicit del; re-assignment of a value that is
// == but not identical; mutation through ALIASES of the constant's value) on constants holding each value type (incl.
// arrays > 8 and maps > 4), run as grol source on a persistent eval.State through repl.EvalOne, once with registers
// and once without; the outcome of every attempt and the EXACT value of every tracked name after it are compared
// with coq/model/ConstEnv.v.
// Direct oracle (model-free): after each attempt without an intervening del of the name, the exact rendering of a
// constant (floats written with a fraction, so 1 and 1.0, 0.0 and -0.0 differ; keys included) - read at top level
// and from inside a function - equals its first exact rendering, and both register modes agree.

import (
	"context"
	"fmt"
	"math"
	"regexp"
	"sort"
	"strconv"
	"strings"

	"fortio.org/log"
	"grol.io/grol/eval"
	"grol.io/grol/extensions"
	"grol.io/grol/object"
	"grol.io/grol/repl"
	"grol.io/grol/token"
	"verifharness/common"
	. "verifharness/common"
)

func main() { common.Main("C19", runC19) }

// ---- values: i int, f float (q/4), z -0.0, n nil, s string, b bool, a array, m map (keys: i f z s values)
type val struct {
	kind byte
	n    int64 // i: the integer; f: q
	s    string
	b    bool
	els  []val
	keys []val
}

func (v val) enc() string {
	switch v.kind {
	case 'i':
		return "i" + strconv.FormatInt(v.n, 10)
	case 'f':
		return "f" + strconv.FormatInt(v.n, 10)
	case 'z':
		return "z"
	case 'n':
		return "n"
	case 's':
		return "s" + Hx([]byte(v.s))
	case 'b':
		if v.b {
			return "b1"
		}
		return "b0"
	case 'a':
		parts := []string{"a" + strconv.Itoa(len(v.els))}
		for _, e := range v.els {
			parts = append(parts, e.enc())
		}
		return strings.Join(parts, ".")
	default:
		parts := []string{"m" + strconv.Itoa(len(v.els))}
		for i, e := range v.els {
			parts = append(parts, v.keys[i].enc(), e.enc())
		}
		return strings.Join(parts, ".")
	}
}

func (v val) src() string {
	switch v.kind {
	case 'i':
		return strconv.FormatInt(v.n, 10)
	case 'f':
		return fmt.Sprintf("%.2f", float64(v.n)/4)
	case 'z':
		return "-0.0"
	case 'n':
		return "nil"
	case 's':
		return strconv.Quote(v.s)
	case 'b':
		return strconv.FormatBool(v.b)
	case 'a':
		parts := make([]string, len(v.els))
		for i, e := range v.els {
			parts[i] = e.src()
		}
		return "[" + strings.Join(parts, ",") + "]"
	default:
		parts := make([]string, len(v.els))
		for i, e := range v.els {
			parts[i] = v.keys[i].src() + ":" + e.src()
		}
		return "{" + strings.Join(parts, ",") + "}"
	}
}

// ---- expressions (right-hand sides)
type expr struct {
	kind byte // 0 literal, N S W X R P C Q T M G
	v    val
	y    string
	l, r int64
	k    val
	id   int // M K: unique per occurrence (the closure's defining environment)
}

func (x expr) enc() string {
	switch x.kind {
	case 0:
		return x.v.enc()
	case 'N', 'W', 'R':
		return string(x.kind) + ":" + x.y
	case 'S':
		return fmt.Sprintf("S:%s:%d:%d", x.y, x.l, x.r)
	case 'X':
		return "X:" + x.y + ":" + x.k.enc()
	case 'P', 'Q':
		return string(x.kind) + ":" + x.y + ":" + x.v.enc()
	case 'M':
		return fmt.Sprintf("M:%d:%s:%s", x.id, x.y, x.v.enc())
	case 'K':
		return fmt.Sprintf("K:%d:%s", x.id, x.v.enc())
	case 'B':
		return fmt.Sprintf("B:%d:%s:%s", x.id, x.y, x.v.enc())
	case 'T':
		return fmt.Sprintf("T:%s:%d:%d:%s", x.y, x.l, x.r, x.v.enc())
	case 'G':
		return "G:" + x.y
	default:
		return "C:" + x.y + ":" + x.k.enc() + ":" + x.v.enc()
	}
}
func (x expr) src(uniq *int) string {
	switch x.kind {
	case 0:
		return x.v.src()
	case 'N':
		return x.y
	case 'S':
		return fmt.Sprintf("%s[%d:%d]", x.y, x.l, x.r)
	case 'W':
		return "[" + x.y + "]"
	case 'X':
		return x.y + "[" + x.k.src() + "]"
	case 'R':
		*uniq++
		return fmt.Sprintf("func(){%d;%s}()", *uniq, x.y)
	case 'P':
		return x.y + "+[" + x.v.src() + "]"
	case 'Q':
		return x.y + "+" + x.v.src()
	case 'T':
		return fmt.Sprintf("%s[%d:%d]+%s", x.y, x.l, x.r, x.v.src())
	case 'M':
		*uniq += 2
		return fmt.Sprintf("func(){%d;%s=%s;func(){%d;%s}}()", *uniq-1, x.y, x.v.src(), *uniq, x.y)
	case 'G':
		return x.y + "()"
	case 'K':
		return "mk(" + x.v.src() + ")"
	case 'B': // a bundle of closures over the parameter: reader, then the writers in the order of innerIndex
		n := x.y
		return "func(" + n + "){[()=>" + n + ",(x)=>{" + n + "=x},(x)=>{" + n + ":=x},func(" + n + "){" + n + "},(a,b)=>{for " + n + "=a:b{" + n + "}}," +
			"(l)=>{for " + n + "=l{" + n + "}},(k,x)=>{" + n + "[k]=x},(k)=>{del(" + n + "[k])},()=>{" + n + "++},()=>{" + n + "--}]}(" + x.v.src() + ")"
	default:
		*uniq++
		return fmt.Sprintf("func(pp){%d;pp[%s]=%s;pp}(%s)", *uniq, x.k.src(), x.v.src(), x.y)
	}
}
func lit(v val) expr { return expr{v: v} }

// ---- attempts
type attempt struct {
	kind string // AS IN IX DE DL FI FL CL CA RD; W: a closure of the bundle <name> is called, y = what it does (RD AS PM FI FL IX DE IN)
	name string
	y    string // CA: the variable whose value is passed
	ex   expr
	v    val
	k    val
	l    []val
	a, b int64
	flag bool
}

func (a attempt) enc() string {
	f := "0"
	if a.flag {
		f = "1"
	}
	switch a.kind {
	case "AS":
		return fmt.Sprintf("AS,%s,%s,%s", a.name, a.ex.enc(), f)
	case "IN":
		return fmt.Sprintf("IN,%s,%d,%s", a.name, a.a, f)
	case "IX":
		return fmt.Sprintf("IX,%s,%s,%s", a.name, a.k.enc(), a.v.enc())
	case "DE":
		return fmt.Sprintf("DE,%s,%s", a.name, a.k.enc())
	case "DL":
		return "DL," + a.name
	case "FI":
		return fmt.Sprintf("FI,%s,%d,%d", a.name, a.a, a.b)
	case "FL":
		parts := []string{strconv.Itoa(len(a.l))}
		for _, e := range a.l {
			parts = append(parts, e.enc())
		}
		return fmt.Sprintf("FL,%s,%s", a.name, strings.Join(parts, "."))
	case "CL":
		return fmt.Sprintf("CL,%s,%s", a.name, a.v.enc())
	case "CA":
		return fmt.Sprintf("CA,%s,%s,%s,%s", a.name, a.y, a.k.enc(), a.v.enc())
	case "W":
		switch a.y {
		case "AS":
			return fmt.Sprintf("%s,AS,%s,%s", a.name, a.v.enc(), f)
		case "PM":
			return fmt.Sprintf("%s,PM,%s", a.name, a.v.enc())
		case "FI":
			return fmt.Sprintf("%s,FI,%d,%d", a.name, a.a, a.b)
		case "FL":
			parts := []string{strconv.Itoa(len(a.l))}
			for _, e := range a.l {
				parts = append(parts, e.enc())
			}
			return fmt.Sprintf("%s,FL,%s", a.name, strings.Join(parts, "."))
		case "IX":
			return fmt.Sprintf("%s,IX,%s,%s", a.name, a.k.enc(), a.v.enc())
		case "DE":
			return fmt.Sprintf("%s,DE,%s", a.name, a.k.enc())
		case "IN":
			return fmt.Sprintf("%s,IN,%d", a.name, a.a)
		}
		return a.name + ",RD"
	default:
		return "RD," + a.name
	}
}

// uniq: a statement that makes the text of every function literal unique (the function cache is keyed by text)
func (a attempt) src(uniq *int) string {
	switch a.kind {
	case "AS":
		if a.flag {
			return a.name + ":=" + a.ex.src(uniq)
		}
		return a.name + "=" + a.ex.src(uniq)
	case "IN":
		op := "++"
		if a.a < 0 {
			op = "--"
		}
		if a.flag {
			return op + a.name
		}
		return a.name + op
	case "IX":
		return fmt.Sprintf("%s[%s]=%s", a.name, a.k.src(), a.v.src())
	case "DE":
		return fmt.Sprintf("del(%s[%s])", a.name, a.k.src())
	case "DL":
		return "del(" + a.name + ")"
	case "FI":
		return fmt.Sprintf("for %s=%d:%d{%s}", a.name, a.a, a.b, a.name)
	case "FL":
		parts := make([]string, len(a.l))
		for i, e := range a.l {
			parts[i] = e.src()
		}
		return fmt.Sprintf("for %s=[%s]{%s}", a.name, strings.Join(parts, ","), a.name)
	case "CL":
		*uniq++
		return fmt.Sprintf("func(%s){%d;%s}(%s)", a.name, *uniq, a.name, a.v.src())
	case "CA":
		*uniq++
		return fmt.Sprintf("func(%s){%d;%s[%s]=%s;%s}(%s)", a.name, *uniq, a.y, a.k.src(), a.v.src(), a.name, a.y)
	case "W":
		g := a.name
		switch a.y {
		case "AS":
			if a.flag {
				return g + "[2](" + a.v.src() + ")"
			}
			return g + "[1](" + a.v.src() + ")"
		case "PM":
			return g + "[3](" + a.v.src() + ")"
		case "FI":
			return fmt.Sprintf("%s[4](%d,%d)", g, a.a, a.b)
		case "FL":
			parts := make([]string, len(a.l))
			for i, e := range a.l {
				parts[i] = e.src()
			}
			return g + "[5]([" + strings.Join(parts, ",") + "])"
		case "IX":
			return g + "[6](" + a.k.src() + "," + a.v.src() + ")"
		case "DE":
			return g + "[7](" + a.k.src() + ")"
		case "IN":
			if a.a < 0 {
				return g + "[9]()"
			}
			return g + "[8]()"
		}
		return g + "[0]()"
	default:
		return a.name
	}
}

func (a attempt) kindName() string {
	switch a.kind {
	case "AS":
		k := "assign"
		if a.flag {
			k = "define"
		}
		switch a.ex.kind {
		case 0:
			return k
		case 'N':
			return k + "-alias"
		case 'S':
			return k + "-slice"
		case 'W':
			return k + "-wrap"
		case 'X':
			return k + "-element"
		case 'R':
			return k + "-returned"
		case 'P':
			return k + "-append"
		case 'Q', 'T':
			return k + "-computed"
		case 'M':
			return k + "-closure"
		case 'K':
			return k + "-sametextclosure"
		case 'B':
			return k + "-closurebundle"
		case 'G':
			return k + "-closurecall"
		default:
			return k + "-calleewrite"
		}
	case "IN":
		return "incrdecr"
	case "IX":
		return "indexassign"
	case "DE":
		return "delelement"
	case "DL":
		return "del"
	case "FI":
		return "loopvar-int"
	case "FL":
		return "loopvar-list"
	case "CL":
		return "parameter"
	case "CA":
		return "parameter-alias"
	case "W":
		return "escapedclosure-" + strings.ToLower(a.y)
	}
	return "read"
}

type event struct {
	scope byte // T F G L
	a     attempt
}

func (e event) enc() string {
	if e.a.kind == "W" {
		return "W:" + e.a.enc()
	}
	return string(e.scope) + ":" + e.a.enc()
}
func (e event) src(uniq *int) string {
	s := e.a.src(uniq)
	switch e.scope {
	case 'F':
		*uniq++
		return fmt.Sprintf("func(){%d;%s}()", *uniq, s)
	case 'G':
		*uniq += 2
		return fmt.Sprintf("func(){%d;func(){%d;%s}()}()", *uniq-1, *uniq, s)
	case 'L':
		return "for 2{" + s + "}"
	}
	return s
}
func scopeName(s byte) string {
	switch s {
	case 'F':
		return "infunc"
	case 'G':
		return "infunc2"
	case 'L':
		return "inloop"
	}
	return "top"
}

// ---- decoding for replay
func i64(x string) int64 { n, _ := strconv.ParseInt(x, 10, 64); return n }
func decLeaf(t string) val {
	switch t[0] {
	case 'i':
		return val{kind: 'i', n: i64(t[1:])}
	case 'f':
		return val{kind: 'f', n: i64(t[1:])}
	case 'z':
		return val{kind: 'z'}
	case 'n':
		return val{kind: 'n'}
	case 's':
		return val{kind: 's', s: string(Unhx(t[1:]))}
	default:
		return val{kind: 'b', b: t[1] == '1'}
	}
}
func decVal(ts []string) (val, []string) {
	t := ts[0]
	rest := ts[1:]
	switch t[0] {
	case 'a':
		n, _ := strconv.Atoi(t[1:])
		p := val{kind: 'a'}
		for i := 0; i < n; i++ {
			var e val
			e, rest = decVal(rest)
			p.els = append(p.els, e)
		}
		return p, rest
	case 'm':
		n, _ := strconv.Atoi(t[1:])
		p := val{kind: 'm'}
		for i := 0; i < n; i++ {
			k := decLeaf(rest[0])
			var e val
			e, rest = decVal(rest[1:])
			p.keys = append(p.keys, k)
			p.els = append(p.els, e)
		}
		return p, rest
	}
	return decLeaf(t), rest
}
func decValS(s string) val { v, _ := decVal(strings.Split(s, ".")); return v }
func decExpr(s string) expr {
	if len(s) > 1 && s[1] == ':' {
		f := strings.Split(s, ":")
		x := expr{kind: s[0], y: f[1]}
		switch s[0] {
		case 'S':
			x.l, x.r = i64(f[2]), i64(f[3])
		case 'X':
			x.k = decLeaf(f[2])
		case 'P', 'Q':
			x.v = decValS(f[2])
		case 'M':
			x.id, x.y, x.v = int(i64(f[1])), f[2], decValS(f[3])
		case 'K':
			x.id, x.y, x.v = int(i64(f[1])), "", decValS(f[2])
		case 'B':
			x.id, x.y, x.v = int(i64(f[1])), f[2], decValS(f[3])
		case 'T':
			x.l, x.r, x.v = i64(f[2]), i64(f[3]), decValS(f[4])
		case 'C':
			x.k, x.v = decLeaf(f[2]), decValS(f[3])
		}
		return x
	}
	return lit(decValS(s))
}
func decEvent(s string) event {
	if s[0] == 'W' {
		f := strings.Split(s[2:], ",")
		a := attempt{kind: "W", name: f[0], y: f[1]}
		switch f[1] {
		case "AS":
			a.v, a.flag = decValS(f[2]), f[3] == "1"
		case "PM":
			a.v = decValS(f[2])
		case "FI":
			a.a, a.b = i64(f[2]), i64(f[3])
		case "FL":
			ts := strings.Split(f[2], ".")
			n, _ := strconv.Atoi(ts[0])
			ts = ts[1:]
			for i := 0; i < n; i++ {
				var e val
				e, ts = decVal(ts)
				a.l = append(a.l, e)
			}
		case "IX":
			a.k, a.v = decLeaf(f[2]), decValS(f[3])
		case "DE":
			a.k = decLeaf(f[2])
		case "IN":
			a.a = i64(f[2])
		}
		return event{scope: 'T', a: a}
	}
	f := strings.Split(s[2:], ",")
	a := attempt{kind: f[0], name: f[1]}
	switch f[0] {
	case "AS":
		a.ex, a.flag = decExpr(f[2]), f[3] == "1"
	case "IN":
		a.a, a.flag = i64(f[2]), f[3] == "1"
	case "IX":
		a.k, a.v = decLeaf(f[2]), decValS(f[3])
	case "DE":
		a.k = decLeaf(f[2])
	case "FI":
		a.a, a.b = i64(f[2]), i64(f[3])
	case "FL":
		ts := strings.Split(f[2], ".")
		n, _ := strconv.Atoi(ts[0])
		ts = ts[1:]
		for i := 0; i < n; i++ {
			var e val
			e, ts = decVal(ts)
			a.l = append(a.l, e)
		}
	case "CL":
		a.v = decValS(f[2])
	case "CA":
		a.y, a.k, a.v = f[2], decLeaf(f[3]), decValS(f[4])
	}
	return event{scope: s[0], a: a}
}

// ---- running
type session struct {
	s    *eval.State
	opts repl.Options
	uniq int
}

func newSession(noReg bool) *session {
	s := eval.NewState()
	s.NoReg = noReg
	out := &strings.Builder{}
	s.Out, s.LogOut, s.NoLog = out, out, true
	se := &session{s: s, opts: repl.Options{All: true, ShowEval: true, NoColor: true, NilAndErr: true, NoReg: noReg}}
	se.exec("mk=func(mkn){func(){mkn}}") // every closure it returns prints alike: ()=>mkn
	return se
}

func (se *session) exec(src string) (string, bool, []string) {
	out := &strings.Builder{}
	se.s.Out, se.s.LogOut = out, out
	_, panicked, errs, _ := repl.EvalOne(context.Background(), se.s, src, out, se.opts)
	se.s.Context = nil
	if panicked {
		return "panic", true, errs
	}
	if len(errs) > 0 {
		return "err", false, errs
	}
	return "ok=" + strings.TrimSpace(out.String()), false, nil
}

// exact rendering of a value: like Inspect, but every float is written with a fraction (1.0, -0.0), so an integer
// and the float of the same value, and the two zeros, are told apart - in elements, values and keys, at any depth
func exact(o object.Object) string {
	switch x := o.(type) {
	case object.Integer:
		return strconv.FormatInt(x.Value, 10)
	case object.Float:
		if x.Value == 0 && math.Signbit(x.Value) {
			return "-0.0"
		}
		s := strconv.FormatFloat(x.Value, 'f', -1, 64)
		if !strings.ContainsAny(s, ".eIN") {
			s += ".0"
		}
		return s
	}
	switch o.Type() { //nolint:exhaustive // the rest prints as Inspect
	case object.FUNC:
		return "<fn>"
	case object.ARRAY:
		els := object.Elements(o)
		parts := make([]string, len(els))
		for i, e := range els {
			parts[i] = exact(e)
		}
		return "[" + strings.Join(parts, ",") + "]"
	case object.MAP:
		m, ok := o.(object.Map)
		if !ok {
			return o.Inspect()
		}
		keys := object.Elements(o)
		parts := make([]string, len(keys))
		for i, k := range keys {
			v, _ := m.Get(k)
			parts[i] = exact(k) + ":" + exact(v)
		}
		return "{" + strings.Join(parts, ",") + "}"
	}
	return o.Inspect()
}

// top-level value of a name: exact rendering and Inspect ("-" when unbound)
func (se *session) value(name string) (string, string) {
	o, err := eval.EvalString(se.s, name, false)
	if err != nil {
		return "-", "-"
	}
	if o.Type() == object.FUNC { // text says little about a function (closures print alike): show what it evaluates to
		r, err := eval.EvalString(se.s, name+"()", false)
		if err != nil {
			return "<fn>=>?", "<fn>"
		}
		return "<fn>=>" + exact(r), "<fn>"
	}
	return exact(o), fnText.ReplaceAllString(o.Inspect(), "<fn>")
}

// the value as seen from inside a function
func (se *session) innerValue(name string) string {
	se.uniq++
	o, err := eval.EvalString(se.s, fmt.Sprintf("func(){%d;%s}()", se.uniq, name), false)
	if err != nil {
		return "-"
	}
	if o.Type() == object.FUNC {
		se.uniq++
		r, err := eval.EvalString(se.s, fmt.Sprintf("func(){%d;%s()}()", se.uniq, name), false)
		if err != nil {
			return "<fn>=>?"
		}
		return "<fn>=>" + exact(r)
	}
	return exact(o)
}

type runResult struct {
	obs      []string // per event: outcome + bindings
	outcomes []string
}

// runs one sequence in one register mode; applies the per-mode direct oracle
func c19Run(c *Ctx, noReg bool, names []string, evs []event, line string) runResult {
	se := newSession(noReg)
	mode := "reg"
	if noReg {
		mode = "noreg"
	}
	first := map[string]string{}    // first exact rendering of each bound constant
	firstIns := map[string]string{} // its Inspect text
	firstTy := map[string]string{}  // its value type, for the signature
	var res runResult
	captured := map[string]string{} // bundle name -> exact value of the captured parameter
	cloFirst := map[string]string{} // closure name -> first result of calling it
	closOf := map[string]string{}   // closure name -> the constant-named function-scope binding it closes over
	{
		bound := map[string]bool{}
		for _, ev := range evs { // the name must have been unbound at top level when the closure was made
			if ev.a.kind == "AS" && ev.scope == 'T' && ev.a.ex.kind != 'M' {
				bound[ev.a.name] = true
			}
			if ev.a.kind == "AS" && ev.a.ex.kind == 'M' && !bound[ev.a.ex.y] && isConst(ev.a.ex.y) {
				closOf[ev.a.name] = ev.a.ex.y
			}
		}
	}
	for _, n := range names {
		if v, _ := se.value(n); v != "-" {
			c.Fail("harness-name-prebound", line, n+" is already bound to "+v)
		}
	}
	for idx, ev := range evs {
		src := ev.src(&se.uniq)
		passed := ""
		if ev.a.kind == "CA" {
			_, passed = se.value(ev.a.y)
		}
		out, panicked, errs := se.exec(src)
		out = fnText.ReplaceAllString(out, "<fn>") // function texts (they carry the unique statements) print as <fn>
		if ev.a.kind == "AS" && ev.a.ex.kind == 'B' && strings.HasPrefix(out, "ok=") {
			out = "ok=<fn>" // the bundle prints as an array of function texts
		}
		// the constant-named parameter captured by a bundle of escaped closures: whatever its writers do, the reader
		// keeps returning what the maker was called with
		if ev.a.kind == "AS" || ev.a.kind == "DL" {
			delete(captured, ev.a.name)
		}
		if ev.a.kind == "AS" && ev.a.ex.kind == 'B' && strings.HasPrefix(out, "ok=") && isConst(ev.a.ex.y) {
			if o, err := eval.EvalString(se.s, ev.a.name+"[0]()", false); err == nil {
				captured[ev.a.name] = exact(o)
			}
		}
		if ev.a.kind == "W" {
			if f, ok := captured[ev.a.name]; ok {
				now := "?"
				if o, err := eval.EvalString(se.s, ev.a.name+"[0]()", false); err == nil {
					now = exact(o)
				}
				if now != f {
					c.Fail("const-captured-changed-"+ev.a.kindName(), line,
						fmt.Sprintf("%s step %d %q: the parameter captured by %s was %s, its reader now returns %s", mode, idx, src, ev.a.name, f, now))
					captured[ev.a.name] = now
				}
			}
		}
		if ev.a.kind == "AS" || ev.a.kind == "DL" {
			delete(cloFirst, ev.a.name)
		}
		// a closure over a function-scope binding keeps returning what that binding holds, whatever happens to the
		// same name elsewhere
		if ev.a.kind == "AS" && ev.a.ex.kind == 'G' && strings.HasPrefix(out, "ok=") && closOf[ev.a.ex.y] != "" {
			g := ev.a.ex.y
			if f, ok := cloFirst[g]; ok && f != out {
				c.Fail("const-closure-read-changed-"+scopeName(ev.scope), line,
					fmt.Sprintf("%s step %d %q: %s() returned %s before, now %s", mode, idx, src, g, f[3:], out[3:]))
			}
			cloFirst[g] = out
		}
		// (inside a loop the statement runs twice and the second call is passed what the first one wrote)
		if ev.a.kind == "CA" && ev.scope != 'L' && isConst(ev.a.name) && strings.HasPrefix(out, "ok=") && out[3:] != passed {
			c.Fail("const-param-changed-"+scopeName(ev.scope), line,
				fmt.Sprintf("%s step %d %q: the parameter was bound to %s and evaluated to %s", mode, idx, src, passed, out[3:]))
		}
		c.Eval()
		if panicked {
			c.Fail("panic-"+ev.a.kindName(), line, fmt.Sprintf("%s step %d %q: %v", mode, idx, src, errs))
		}
		if out == "err" && len(errs) > 0 && strings.Contains(errs[0], "parse") {
			c.Fail("harness-unparsable-statement", line, fmt.Sprintf("step %d %q: %v", idx, src, errs))
		}
		// an explicit del of the name (from any scope) ends the obligation for that name
		if ev.a.kind == "DL" {
			delete(first, ev.a.name)
		}
		var bs []string
		for _, n := range names {
			v, ins := se.value(n)
			bs = append(bs, n+"="+v)
			if !isConst(n) {
				continue
			}
			if f, ok := first[n]; ok {
				sig := fmt.Sprintf("const-changed-%s-%s-%s", ev.a.kindName(), firstTy[n], scopeName(ev.scope))
				if v != f {
					if ins == firstIns[n] {
						sig += "-sameprint" // == and printed alike, yet another value (int/float, 0.0/-0.0)
					}
					c.Fail(sig, line, fmt.Sprintf("%s step %d %q: %s was %s, now %s", mode, idx, src, n, f, v))
					first[n], firstIns[n] = v, ins // report each change once
				} else if iv := se.innerValue(n); iv != f {
					c.Fail(sig+"-inner", line, fmt.Sprintf("%s step %d %q: %s read inside a function is %s, was %s", mode, idx, src, n, iv, f))
				}
			} else if v != "-" {
				first[n], firstIns[n] = v, ins
				firstTy[n] = typeOfRendering(v)
			}
		}
		// the attempt itself must not have observed another value for a bound constant: a loop over / a call with the
		// name returns what the name evaluated to inside
		if f, ok := firstIns[ev.a.name]; ok && first[ev.a.name] != "" && isConst(ev.a.name) && strings.HasPrefix(out, "ok=") {
			if _, bound := first[ev.a.name]; bound {
				switch ev.a.kind {
				case "FI", "FL", "CL", "RD":
					got := out[3:]
					if got != f && !(got == "nil" && (ev.a.kind == "FI" || ev.a.kind == "FL")) {
						c.Fail(fmt.Sprintf("const-shadowed-%s-%s", ev.a.kindName(), scopeName(ev.scope)), line,
							fmt.Sprintf("%s step %d %q evaluated %s to %s, it is bound to %s", mode, idx, src, ev.a.name, got, f))
					}
				}
			}
		}
		c.Count("attempt=" + ev.a.kindName())
		c.Count("scope=" + scopeName(ev.scope))
		if out == "err" {
			c.Count("outcome=err")
		} else {
			c.Count("outcome=ok")
		}
		res.outcomes = append(res.outcomes, out)
		res.obs = append(res.obs, out+" "+strings.Join(bs, " "))
	}
	return res
}

var fnText = regexp.MustCompile(`\(\)=>(mkn|\{[^{}]*\})`)

// The same sequence with NO reading of the bindings in between (evaluating a name at top level can itself repair a
// sharing bug: the first value of a constant is taken from the output of the statement that bound it); every tracked
// name is read once, after the last event.
func c19RunLazy(c *Ctx, noReg bool, names []string, evs []event, line string) runResult {
	se := newSession(noReg)
	mode := "reg"
	if noReg {
		mode = "noreg"
	}
	bindOut := map[string]string{} // constant -> what the statement that bound it printed
	touched := map[string]bool{}
	var res runResult
	for idx, ev := range evs {
		src := ev.src(&se.uniq)
		out, panicked, errs := se.exec(src)
		c.Eval()
		out = fnText.ReplaceAllString(out, "<fn>")
		if ev.a.kind == "AS" && ev.a.ex.kind == 'B' && strings.HasPrefix(out, "ok=") {
			out = "ok=<fn>"
		}
		if panicked {
			c.Fail("panic-"+ev.a.kindName(), line, fmt.Sprintf("%s step %d %q: %v", mode, idx, src, errs))
		}
		n := ev.a.name
		switch {
		case ev.a.kind == "DL" && out == "ok=true" && ev.scope == 'T':
			delete(bindOut, n)
			touched[n] = false
		case ev.a.kind == "AS" && ev.scope == 'T' && isConst(n) && !touched[n] && strings.HasPrefix(out, "ok="):
			bindOut[n] = out[3:]
			touched[n] = true
		default:
			touched[n] = true
			if ev.a.kind == "DL" {
				delete(bindOut, n)
			}
		}
		res.outcomes = append(res.outcomes, out)
		res.obs = append(res.obs, out)
	}
	var bs []string
	for _, n := range names {
		v, ins := se.value(n)
		bs = append(bs, n+"="+v)
		if f, ok := bindOut[n]; ok && isConst(n) && ins != f {
			c.Fail("const-changed-unobserved-"+typeOfRendering(f), line,
				fmt.Sprintf("%s: %s printed %s when it was bound, after the sequence (never read in between) it is %s", mode, n, f, ins))
		}
	}
	if len(res.obs) > 0 {
		res.obs[len(res.obs)-1] += " " + strings.Join(bs, " ")
	}
	return res
}

func typeOfRendering(v string) string {
	if strings.HasPrefix(v, "<fn>") {
		return "function"
	}
	switch {
	case strings.HasPrefix(v, "["):
		if strings.Count(v, ",") >= object.MaxSmallArray {
			return "bigarray"
		}
		return "array"
	case strings.HasPrefix(v, "{"):
		if strings.Count(v, ":") > object.MaxSmallMap {
			return "bigmap"
		}
		return "map"
	case strings.HasPrefix(v, "\""):
		return "string"
	case v == "true" || v == "false":
		return "bool"
	case v == "nil":
		return "nil"
	case strings.Contains(v, "."):
		return "float"
	}
	return "int"
}

func c19Seq(c *Ctx, names []string, evs []event) { c19SeqL(c, names, evs, 2) }

// lazy: 0 no unobserved run, 1 with registers only, 2 both register modes
func c19SeqL(c *Ctx, names []string, evs []event, lazy int) {
	evs = append([]event(nil), evs...)
	nid := 0
	for i := range evs { // every closure-making occurrence gets its own id (its defining environment)
		if evs[i].a.kind == "AS" && (evs[i].a.ex.kind == 'M' || evs[i].a.ex.kind == 'K' || evs[i].a.ex.kind == 'B') && evs[i].a.ex.id == 0 {
			nid++
			evs[i].a.ex.id = nid
		} else if evs[i].a.ex.id > nid {
			nid = evs[i].a.ex.id
		}
	}
	parts := make([]string, len(evs))
	for i, e := range evs {
		parts[i] = e.enc()
	}
	body := strings.Join(names, ",") + " " + strings.Join(parts, ";")
	var hdr []string
	for _, n := range names {
		k := "0"
		if object.Constant(n) { // the implementation's classification: compared with the model's constant_name
			k = "1"
		}
		hdr = append(hdr, n+"="+k)
	}
	h := "C:" + strings.Join(hdr, ",")
	lineR, lineN := "CST R F "+body, "CST N F "+body
	r := c19Run(c, false, names, evs, lineR)
	n := c19Run(c, true, names, evs, lineN)
	for _, nm := range names { // after the behavioural oracles, so that a changed constant is what gets reported first
		if object.Constant(nm) != isConst(nm) {
			c.Fail("constant-classification-"+nameShape(nm), lineR,
				fmt.Sprintf("object.Constant(%q) = %v, but by the rule (upper-case letter, then upper-case letters, digits, underscores) it is %v", nm, object.Constant(nm), isConst(nm)))
		}
	}
	nontrivial := false
	tainted := map[string]bool{}
	for i := range evs {
		a, b := r.outcomes[i], n.outcomes[i]
		if evs[i].a.kind != "RD" && i > 0 {
			nontrivial = true
		}
		// A non-constant loop variable lives in a register in one mode and is a binding in the other (C05's subject):
		// such a name, and whatever is assigned from it, is not held to agree between the modes.
		ev := evs[i].a
		if ev.kind == "FI" && !isConst(ev.name) {
			tainted[ev.name] = true
		}
		if ev.kind == "AS" && ev.ex.kind != 0 && tainted[ev.ex.y] {
			tainted[ev.name] = true
		}
		if ev.kind == "DL" {
			delete(tainted, ev.name)
		}
		if !isConst(ev.name) || tainted[ev.name] || (ev.kind == "CA" && tainted[ev.y]) {
			continue
		}
		if (a == "err") != (b == "err") {
			c.Fail("regmode-disagree-outcome-"+evs[i].a.kindName()+"-"+scopeName(evs[i].scope), lineR,
				fmt.Sprintf("step %d %q: registers on: %s, off: %s", i, evs[i].enc(), a, b))
		} else if a != b {
			c.Fail("regmode-disagree-result-"+evs[i].a.kindName()+"-"+scopeName(evs[i].scope), lineR,
				fmt.Sprintf("step %d %q: registers on: %s, off: %s", i, evs[i].enc(), a, b))
		}
	}
	if nontrivial {
		c.NonTrivial(body)
	}
	c.Case(lineR, h+" | "+strings.Join(r.obs, " | "))
	c.Case(lineN, h+" | "+strings.Join(n.obs, " | "))
	if lazy >= 1 {
		l := "CST R FL " + body
		c.Case(l, h+" | "+strings.Join(c19RunLazy(c, false, names, evs, l).obs, " | "))
	}
	if lazy >= 2 {
		l := "CST N FL " + body
		c.Case(l, h+" | "+strings.Join(c19RunLazy(c, true, names, evs, l).obs, " | "))
	}
}

// ---- generators
func vi(n int64) val      { return val{kind: 'i', n: n} }
func vf(q int64) val      { return val{kind: 'f', n: q} }
func vs(s string) val     { return val{kind: 's', s: s} }
func vb(b bool) val       { return val{kind: 'b', b: b} }
func varr(els ...val) val { return val{kind: 'a', els: els} }
func parr(n int, from int64) val {
	p := val{kind: 'a'}
	for i := 0; i < n; i++ {
		p.els = append(p.els, vi(from+int64(i)))
	}
	return p
}
func pmap(n int, from int64) val {
	p := val{kind: 'm'}
	for i := 0; i < n; i++ {
		p.keys = append(p.keys, vi(int64(i+1)))
		p.els = append(p.els, vi(from+int64(i)))
	}
	return p
}
func vmap(kv ...val) val {
	p := val{kind: 'm'}
	for i := 0; i+1 < len(kv); i += 2 {
		p.keys = append(p.keys, kv[i])
		p.els = append(p.els, kv[i+1])
	}
	return sortMap(p)
}

// maps are kept in key order (numbers by value, then strings bytewise), as the interpreter stores them
func keyLess(a, b val) bool {
	an, bn := a.kind != 's', b.kind != 's'
	if an != bn {
		return an
	}
	if !an {
		return a.s < b.s
	}
	q := func(v val) int64 {
		switch v.kind {
		case 'i':
			return v.n * 4
		case 'f':
			return v.n
		}
		return 0
	}
	return q(a) < q(b)
}
func sortMap(p val) val {
	idx := make([]int, len(p.keys))
	for i := range idx {
		idx[i] = i
	}
	sort.SliceStable(idx, func(i, j int) bool { return keyLess(p.keys[idx[i]], p.keys[idx[j]]) })
	q := val{kind: 'm'}
	for _, i := range idx {
		q.keys = append(q.keys, p.keys[i])
		q.els = append(q.els, p.els[i])
	}
	return q
}
func T(a attempt) event             { return event{'T', a} }
func as(n string, v val) attempt    { return attempt{kind: "AS", name: n, ex: lit(v)} }
func asx(n string, x expr) attempt  { return attempt{kind: "AS", name: n, ex: x} }
func ix(n string, k, v val) attempt { return attempt{kind: "IX", name: n, k: k, v: v} }
func rd(n string) attempt           { return attempt{kind: "RD", name: n} }

func corpus() ([][]string, [][]event) {
	var names [][]string
	var seqs [][]event
	add := func(ns []string, evs ...event) { names = append(names, ns); seqs = append(seqs, evs) }
	// A=[1..9];A[0]=5;A
	add([]string{"A"}, T(as("A", parr(9, 1))), T(ix("A", vi(0), vi(5))), T(rd("A")))
	// big-map constant: M[1]=7, del(M[1]), M[9]=7
	add([]string{"M"}, T(as("M", pmap(5, 1))), T(ix("M", vi(1), vi(7))),
		T(attempt{kind: "DE", name: "M", k: vi(1)}), T(ix("M", vi(9), vi(7))), T(rd("M")))
	// func f(PJ){PJ};f(3)   and   for PJ=0:3{PJ}
	add([]string{"PJ"}, T(as("PJ", vf(13))), T(attempt{kind: "CL", name: "PJ", v: vi(3)}), T(attempt{kind: "FI", name: "PJ", a: 0, b: 3}),
		T(attempt{kind: "FL", name: "PJ", l: []val{vi(1), vi(2)}}), T(attempt{kind: "IN", name: "PJ", a: 1}), T(rd("PJ")))
	// == but not identical: ARR=[1,2,3];ARR=[1.0,2,3]   M={"a":7};M={"a":7.0}   N=1;N=1.0   H=2.0;H=2   Z=0.0;Z=-0.0
	// K={1:5};K={1.0:5}   nested   index assignment of the == element   above the thresholds
	for _, sc := range []byte{'T', 'F', 'L'} {
		for _, def := range []bool{false, true} {
			re := func(n string, v val) event { return event{sc, attempt{kind: "AS", name: n, ex: lit(v), flag: def}} }
			add([]string{"ARR"}, T(as("ARR", varr(vi(1), vi(2), vi(3)))), re("ARR", varr(vf(4), vi(2), vi(3))), T(rd("ARR")))
			add([]string{"M"}, T(as("M", vmap(vs("a"), vi(7)))), re("M", vmap(vs("a"), vf(28))), T(rd("M")))
			add([]string{"N"}, T(as("N", vi(1))), re("N", vf(4)), T(rd("N")))
			add([]string{"H"}, T(as("H", vf(8))), re("H", vi(2)), T(rd("H")))
			add([]string{"Z"}, T(as("Z", vf(0))), re("Z", val{kind: 'z'}), T(rd("Z")), re("Z", vf(0)))
			add([]string{"K"}, T(as("K", vmap(vi(1), vi(5)))), re("K", vmap(vf(4), vi(5))), T(rd("K")))
			add([]string{"D"}, T(as("D", varr(varr(vi(1), varr(vi(2)))))), re("D", varr(varr(vi(1), varr(vf(8))))), T(rd("D")))
			add([]string{"B"}, T(as("B", parr(10, 1))), re("B", func() val { p := parr(10, 1); p.els[9] = vf(40); return p }()), T(rd("B")))
			add([]string{"BM"}, T(as("BM", pmap(6, 1))), re("BM", func() val { p := pmap(6, 1); p.keys[2] = vf(12); return p }()),
				re("BM", func() val { p := pmap(6, 1); p.els[5] = vf(24); return p }()), T(rd("BM")))
		}
		add([]string{"A"}, T(as("A", varr(vi(1), vi(2), vi(3)))), event{sc, ix("A", vi(0), vf(4))}, T(rd("A")),
			event{sc, ix("A", vi(0), vi(1))}, event{sc, attempt{kind: "FL", name: "A", l: []val{varr(vf(4), vi(2), vi(3))}}},
			event{sc, attempt{kind: "CL", name: "A", v: varr(vi(1), vf(8), vi(3))}}, T(rd("A")))
		add([]string{"MK"}, T(as("MK", vmap(vi(1), vi(5), vs("a"), vf(0)))), event{sc, ix("MK", vf(4), vi(5))}, event{sc, ix("MK", vi(1), vf(20))},
			event{sc, ix("MK", vs("a"), val{kind: 'z'})}, T(rd("MK")))
	}
	// mutation through an alias of the constant's value: by assignment, slice, container, return value, parameter, append
	for _, size := range []int{3, 8, 9, 12} {
		for _, sc := range []byte{'T', 'F'} {
			A := parr(size, 1)
			add([]string{"A", "b", "c"}, T(as("A", A)),
				T(asx("b", expr{kind: 'N', y: "A"})), event{sc, ix("b", vi(1), vi(99))}, T(rd("A")),
				T(asx("b", expr{kind: 'S', y: "A", l: 1, r: int64(size)})), event{sc, ix("b", vi(0), vi(98))},
				T(asx("c", expr{kind: 'W', y: "A"})), T(asx("b", expr{kind: 'X', y: "c", k: vi(0)})), event{sc, ix("b", vi(-1), vi(97))},
				T(asx("b", expr{kind: 'R', y: "A"})), event{sc, ix("b", vi(2), vi(96))},
				event{sc, asx("b", expr{kind: 'C', y: "A", k: vi(0), v: vi(95)})},
				T(asx("b", expr{kind: 'P', y: "A", v: vi(94)})), event{sc, ix("b", vi(0), vi(93))}, T(asx("c", expr{kind: 'P', y: "A", v: vi(92)})),
				T(rd("A")))
		}
	}
	for _, size := range []int{3, 4, 5, 7} {
		for _, sc := range []byte{'T', 'F'} {
			add([]string{"M", "b", "c"}, T(as("M", pmap(size, 1))),
				T(asx("b", expr{kind: 'N', y: "M"})), event{sc, ix("b", vi(1), vi(99))}, event{sc, attempt{kind: "DE", name: "b", k: vi(2)}},
				event{sc, ix("b", vi(40), vi(1))}, T(rd("M")),
				T(asx("b", expr{kind: 'S', y: "M", l: 0, r: int64(size)})), event{sc, ix("b", vi(1), vi(98))},
				T(asx("c", expr{kind: 'W', y: "M"})), T(asx("b", expr{kind: 'X', y: "c", k: vi(0)})), event{sc, attempt{kind: "DE", name: "b", k: vi(1)}},
				T(asx("b", expr{kind: 'R', y: "M"})), event{sc, ix("b", vi(3), vi(96))},
				event{sc, asx("b", expr{kind: 'C', y: "M", k: vi(1), v: vi(95)})}, T(rd("M")))
		}
	}
	// bursts of index writes to a constant: an accepted same-value write (C[i]=C[i], C[i]=<equal literal>) then a
	// changing one; two changing ones; a write through an alias / parameter / nested function in between; with and
	// without a plain assignment in between; both sides of the thresholds
	for _, size := range []int{3, 8, 9, 10, 12} {
		for _, sc := range []byte{'T', 'F', 'L'} {
			C := parr(size, 0)
			same0 := event{sc, ix("C", vi(0), vi(0))}
			add([]string{"C", "b"}, T(as("C", C)), same0, event{sc, ix("C", vi(1), vi(99))}, T(rd("C")),
				event{sc, ix("C", vi(-1), vi(42))}, event{sc, ix("C", vi(2), vi(98))}, T(rd("C")))
			add([]string{"C", "b"}, T(as("C", C)), T(asx("C", expr{kind: 'C', y: "C", k: vi(0), v: vi(0)})), // C = f(C) with f writing the same value
				event{sc, ix("C", vi(1), vi(97))}, same0, T(as("b", vi(1))), event{sc, ix("C", vi(1), vi(96))}, T(rd("C")))
			add([]string{"C", "b"}, T(as("C", C)), same0, T(asx("b", expr{kind: 'N', y: "C"})), event{sc, ix("b", vi(1), vi(95))},
				event{sc, ix("C", vi(1), vi(94))}, same0, event{'F', ix("b", vi(2), vi(93))}, event{sc, ix("C", vi(2), vi(92))}, T(rd("C")))
			add([]string{"C", "b"}, T(as("C", C)), same0, event{sc, asx("b", expr{kind: 'C', y: "C", k: vi(1), v: vi(91)})},
				event{sc, ix("C", vi(1), vi(90))}, same0, event{'G', ix("C", vi(3), vi(89))}, T(rd("C")))
			// the parameter, constant-named, is an alias of a variable that was just index-assigned
			add([]string{"ARR", "b"}, T(as("b", C)), event{sc, ix("b", vi(0), vi(0))}, event{sc, attempt{kind: "CA", name: "ARR", y: "b", k: vi(1), v: vi(99)}},
				event{sc, ix("b", vi(2), vi(7))}, event{sc, attempt{kind: "CA", name: "ARR", y: "b", k: vi(-1), v: vi(98)}}, T(rd("b")))
		}
	}
	for _, size := range []int{3, 4, 5, 7} {
		for _, sc := range []byte{'T', 'F', 'L'} {
			M := pmap(size, 1)
			same1 := event{sc, ix("M", vi(1), vi(1))}
			add([]string{"M", "b"}, T(as("M", M)), same1, event{sc, ix("M", vi(2), vi(99))}, event{sc, attempt{kind: "DE", name: "M", k: vi(1)}},
				same1, event{sc, ix("M", vi(40), vi(1))}, T(asx("b", expr{kind: 'N', y: "M"})), event{sc, ix("b", vi(1), vi(5))}, same1,
				event{sc, attempt{kind: "CA", name: "MP", y: "b", k: vi(2), v: vi(98)}}, T(rd("M")))
		}
	}
	// a constant bound in FUNCTION scope and captured by a returned closure; later the same name is bound at top
	// level, in another function, deleted, rebound: the closure keeps reading its own binding
	for _, v := range []val{parr(3, 1), vi(10), parr(10, 1), vs("k"), pmap(5, 1)} {
		for _, sc := range []byte{'T', 'F', 'L'} {
			call := func(x string) event { return event{sc, asx(x, expr{kind: 'G', y: "g1"})} }
			add([]string{"K", "x", "y"}, T(asx("g1", expr{kind: 'M', y: "K", v: v})), call("x"), T(as("K", vi(2))), call("y"), T(rd("K")),
				event{'F', as("K", vi(3))}, call("y"), T(attempt{kind: "DL", name: "K"}), call("y"), T(as("K", v)), call("y"),
				T(asx("g2", expr{kind: 'M', y: "K", v: vi(5)})), T(asx("y", expr{kind: 'G', y: "g2"})), call("y"))
			// a non constant name: the closure shares the top-level variable
			add([]string{"K", "x", "v"}, T(as("v", vi(1))), T(asx("g1", expr{kind: 'M', y: "v", v: v})), call("x"), T(as("v", vi(7))), call("x"), T(rd("v")))
		}
	}
	// a variable grown by index assignment / del (its storage is a private copy of the interpreter), handed to a constant
	// through a function that reads the OUTER variable, then written again - with nothing evaluating K or the variable
	// at top level in between (the unobserved run of every sequence)
	for _, n := range []int{3, 5, 6, 9} {
		for _, how := range []byte{'R', 'N', 'W'} {
			var evs []event
			evs = append(evs, T(as("mv", vmap())))
			for i := 0; i < n; i++ {
				evs = append(evs, T(ix("mv", vi(int64(i)), vi(int64(i*10)))))
			}
			evs = append(evs, T(asx("K", expr{kind: how, y: "mv"})), T(ix("mv", vi(0), vi(100))), T(attempt{kind: "DE", name: "mv", k: vi(1)}),
				T(ix("mv", vi(77), vi(7))), event{'F', ix("mv", vi(2), vi(200))})
			add([]string{"K", "mv"}, evs...)
			evs = []event{T(as("av", parr(n+4, 0))), T(ix("av", vi(0), vi(5))), T(asx("KA", expr{kind: how, y: "av"})), T(ix("av", vi(1), vi(100))),
				T(asx("av", expr{kind: 'Q', y: "av", v: vi(3)})), event{'F', ix("av", vi(2), vi(200))}}
			add([]string{"KA", "av"}, evs...)
		}
	}
	// closures that ESCAPED their maker and write to its constant-named parameter before any read: =, :=, a parameter
	// and a loop variable of the same name, index assignment, del, ++; then the reader over the same binding
	wr := func(g, what string, a attempt) event { a.kind, a.name, a.y = "W", g, what; return event{'T', a} }
	for _, v := range []val{vi(1), parr(3, 1), parr(10, 1), pmap(5, 1), vf(10), vs("k")} {
		twv, _ := twin(&Ctx{R: NewRng(7)}, v)
		add([]string{"x"}, T(asx("w1", expr{kind: 'B', y: "LIM", v: v})),
			wr("w1", "AS", attempt{v: vi(99)}), wr("w1", "RD", attempt{}), wr("w1", "AS", attempt{v: vi(98), flag: true}), wr("w1", "AS", attempt{v: v}), wr("w1", "AS", attempt{v: twv}),
			wr("w1", "PM", attempt{v: vi(20)}), wr("w1", "PM", attempt{v: v}), wr("w1", "FI", attempt{a: 0, b: 3}), wr("w1", "FL", attempt{l: []val{vi(5), twv}}),
			wr("w1", "IX", attempt{k: vi(0), v: vi(7)}), wr("w1", "IX", attempt{k: vi(1), v: vi(1)}), wr("w1", "DE", attempt{k: vi(1)}), wr("w1", "IN", attempt{a: 1}), wr("w1", "IN", attempt{a: -1}),
			wr("w1", "RD", attempt{}))
		// a write FIRST (no read has planted a reference), one bundle per kind of write
		for _, first := range []event{wr("w2", "AS", attempt{v: vi(99)}), wr("w2", "AS", attempt{v: vi(99), flag: true}), wr("w2", "PM", attempt{v: vi(20)}),
			wr("w2", "FI", attempt{a: 0, b: 3}), wr("w2", "FL", attempt{l: []val{vi(5)}}), wr("w2", "IX", attempt{k: vi(0), v: vi(7)}), wr("w2", "IN", attempt{a: 1})} {
			add([]string{"x"}, T(asx("w2", expr{kind: 'B', y: "K_9", v: v})), first, wr("w2", "RD", attempt{}))
		}
		// the same name bound at top level as well (the closures see their maker's binding; outside the model: direct oracle only)
		add([]string{"LIM"}, T(asx("w1", expr{kind: 'B', y: "LIM", v: v})), T(as("LIM", vi(5))), wr("w1", "AS", attempt{v: vi(99)}), wr("w1", "RD", attempt{}), T(rd("LIM")))
	}
	// a constant holding a function: another closure with the SAME TEXT over a different environment must be refused
	// (mk=func(mkn){func(){mkn}}; F=mk(1); F=mk(2); F()), the very same function value accepted
	for _, sc := range []byte{'T', 'F', 'L'} {
		for _, def := range []bool{false, true} {
			mkv := func(n string, v val) event {
				return event{'T', attempt{kind: "AS", name: n, ex: expr{kind: 'K', v: v}, flag: def}}
			}
			add([]string{"F", "g", "x"}, mkv("F", vi(1)), T(asx("x", expr{kind: 'G', y: "F"})), mkv("F", vi(2)), T(asx("x", expr{kind: 'G', y: "F"})),
				mkv("F", vi(1)), T(asx("g", expr{kind: 'N', y: "F"})), event{sc, attempt{kind: "AS", name: "F", ex: expr{kind: 'N', y: "g"}, flag: def}},
				mkv("g", parr(10, 1)), event{sc, attempt{kind: "AS", name: "F", ex: expr{kind: 'N', y: "g"}, flag: def}}, event{sc, asx("x", expr{kind: 'G', y: "F"})},
				event{sc, attempt{kind: "FL", name: "F", l: []val{vi(3)}}}, event{sc, attempt{kind: "CA", name: "F", y: "g", k: vi(0), v: vi(1)}}, T(rd("F")))
			add([]string{"FA", "g", "x"}, mkv("g", vi(1)), T(asx("FA", expr{kind: 'W', y: "g"})), mkv("g", vi(2)), event{sc, attempt{kind: "AS", name: "FA", ex: expr{kind: 'W', y: "g"}, flag: def}},
				T(asx("x", expr{kind: 'X', y: "FA", k: vi(0)})), T(asx("x", expr{kind: 'G', y: "x"})))
		}
	}
	// the new value is COMPUTED FROM the constant or from a value sharing its storage: K=K[0:n]+e, K=K+e, B=A+e twice
	for _, size := range []int{3, 8, 9, 10, 12} {
		for _, sc := range []byte{'T', 'F', 'L'} {
			for _, def := range []bool{false, true} {
				K := parr(size, 0)
				cmp := func(n string, x expr) event { return event{sc, attempt{kind: "AS", name: n, ex: x, flag: def}} }
				add([]string{"K", "b"}, T(as("K", K)), cmp("K", expr{kind: 'T', y: "K", l: 0, r: int64(size - 1), v: vi(99)}), T(rd("K")),
					cmp("K", expr{kind: 'Q', y: "K", v: vi(5)}), cmp("K", expr{kind: 'T', y: "K", l: 0, r: int64(size - 1), v: vi(int64(size - 1))}),
					T(asx("b", expr{kind: 'S', y: "K", l: 0, r: int64(size - 2)})), cmp("b", expr{kind: 'Q', y: "b", v: vi(77)}),
					cmp("K", expr{kind: 'P', y: "b", v: vi(int64(size - 1))}), T(rd("K")))
				add([]string{"A", "B", "x"}, T(as("x", parr(size-1, 1))), T(asx("A", expr{kind: 'P', y: "x", v: vi(int64(size))})),
					T(asx("B", expr{kind: 'Q', y: "A", v: vi(10)})), cmp("B", expr{kind: 'Q', y: "A", v: vi(11)}), T(rd("B")),
					cmp("B", expr{kind: 'Q', y: "A", v: vi(10)}), cmp("x", expr{kind: 'Q', y: "A", v: vi(12)}), T(rd("A")), T(rd("B")))
			}
		}
	}
	// names with digits (incl. 9) and underscores in every position, and mixed-case controls: every kind of attempt
	for _, n := range []string{"X9", "K19", "MAX_9", "V1_9_0", "Z0", "A1", "B2", "C3", "D4", "E5", "F6", "G7", "H8", "U6_", "X9a", "x9"} {
		for _, sc := range []byte{'T', 'F'} {
			add([]string{n}, T(as(n, vi(1))), event{sc, as(n, vi(2))}, event{sc, attempt{kind: "IN", name: n, a: 1}}, event{sc, attempt{kind: "IN", name: n, a: -1, flag: true}},
				T(attempt{kind: "DL", name: n}), T(as(n, parr(10, 0))), event{sc, ix(n, vi(1), vi(99))}, event{sc, attempt{kind: "FI", name: n, a: 0, b: 3}},
				event{sc, attempt{kind: "FL", name: n, l: []val{vi(5)}}}, event{sc, attempt{kind: "CL", name: n, v: vi(3)}},
				T(attempt{kind: "DL", name: n}), T(as(n, pmap(5, 1))), event{sc, attempt{kind: "DE", name: n, k: vi(2)}}, event{sc, ix(n, vi(1), vi(7))}, T(rd(n)))
		}
	}
	// every kind of attempt from nested scopes on an integer constant
	for _, sc := range []byte{'T', 'F', 'G', 'L'} {
		add([]string{"K", "x"}, T(as("K", vi(7))),
			event{sc, as("K", vi(8))}, event{sc, attempt{kind: "AS", name: "K", ex: lit(vi(8)), flag: true}}, event{sc, as("K", vi(7))},
			event{sc, attempt{kind: "IN", name: "K", a: 1}}, event{sc, attempt{kind: "IN", name: "K", a: -1, flag: true}},
			event{sc, attempt{kind: "CL", name: "K", v: vi(9)}}, event{sc, attempt{kind: "CL", name: "K", v: vi(7)}},
			event{sc, attempt{kind: "FI", name: "K", a: 0, b: 3}}, event{sc, attempt{kind: "FL", name: "K", l: []val{vi(7), vi(1)}}},
			event{sc, rd("K")}, event{sc, attempt{kind: "DL", name: "K"}}, T(as("K", vi(1))), T(rd("K")))
	}
	// containers of both representations, from nested scopes
	for _, sc := range []byte{'T', 'F', 'G', 'L'} {
		for _, v := range []val{parr(3, 1), parr(12, 1), pmap(3, 1), pmap(6, 1)} {
			add([]string{"C_1"}, T(as("C_1", v)),
				event{sc, ix("C_1", vi(1), vi(99))}, event{sc, ix("C_1", vi(2), vi(2))},
				event{sc, ix("C_1", vi(40), vi(1))}, event{sc, attempt{kind: "DE", name: "C_1", k: vi(2)}},
				event{sc, attempt{kind: "DE", name: "C_1", k: vi(77)}}, event{sc, as("C_1", v)}, event{sc, rd("C_1")})
		}
	}
	return names, seqs
}

// What a constant is, from the property ("an all-upper-case identifier") and the comment on object.Constant ("all CAPS
// (with _ ok in the middle) identifiers"; digits are accepted after the first character): the first character is an
// upper-case letter, the others upper-case letters, digits or underscores. Computed here, NOT by calling the
// implementation, so that the oracle does not follow a change of the implementation's classification.
func isConst(name string) bool {
	if name == "" {
		return false
	}
	for i := 0; i < len(name); i++ {
		ch := name[i]
		switch {
		case ch >= 'A' && ch <= 'Z':
		case i > 0 && (ch == '_' || (ch >= '0' && ch <= '9')):
		default:
			return false
		}
	}
	return true
}

func nameShape(n string) string {
	sh := "letters"
	if strings.ContainsAny(n, "0123456789") {
		sh = "digit"
	}
	if strings.Contains(n, "_") {
		sh += "-underscore"
	}
	return sh
}

// digits 0..9 and underscores in every position after the first; mixed-case look-alikes as non-constant controls
var constNames = []string{"A", "KB", "K_1", "X9", "PJ", "K19", "MAX_9", "V1_9_0", "Z0", "Q2X", "R_3", "S4", "T55", "U6_", "W7_8", "Y8Y", "B__C", "N9_9", "H0_9"}
var varNames = []string{"x", "kA", "Ab", "X9a", "x9", "K9x", "aB_9", "k_9"}

func randConstName(c *Ctx) string {
	if c.R.Pct(50) {
		return constNames[c.R.Intn(len(constNames))]
	}
	for {
		const rest = "ABCXYZ0123456789_"
		n := string(rune('A' + c.R.Intn(26)))
		for i := c.R.Intn(5); i > 0; i-- {
			n += string(rest[c.R.Intn(len(rest))])
		}
		if n != "E" && n != "PI" { // bound by the extension layer
			return n
		}
	}
}

func randNum(c *Ctx) val {
	switch k := c.R.Intn(10); {
	case k < 6:
		return vi(int64(c.R.Intn(20)))
	case k < 9:
		return vf(int64(c.R.Intn(41)) - 4)
	default:
		return val{kind: 'z'}
	}
}

func randLeaf(c *Ctx) val {
	switch k := c.R.Intn(12); {
	case k < 8:
		return randNum(c)
	case k < 9:
		return val{kind: 'n'}
	case k < 11:
		return vs([]string{"", "a", "hello", "k"}[c.R.Intn(4)])
	default:
		return vb(c.R.Bool())
	}
}

// a key that does not collide (under ==) with the ones already in use
func randKeys(c *Ctx, n int) []val {
	var ks []val
	usedNum := map[int64]bool{}
	usedStr := map[string]bool{}
	for len(ks) < n {
		if c.R.Pct(20) {
			s := []string{"a", "b", "k", "key", "z"}[c.R.Intn(5)]
			if !usedStr[s] {
				usedStr[s] = true
				ks = append(ks, vs(s))
			}
			continue
		}
		q := int64(c.R.Intn(16))
		if usedNum[q*4] {
			continue
		}
		usedNum[q*4] = true
		if c.R.Pct(25) {
			ks = append(ks, vf(q*4))
		} else {
			ks = append(ks, vi(q))
		}
	}
	return ks
}

func randVal(c *Ctx, depth int) val {
	switch k := c.R.Intn(10); {
	case k < 4 || depth <= 0:
		return randLeaf(c)
	case k < 8:
		sizes := []int{0, 1, 3, 8, 9, 12}
		n := sizes[c.R.Intn(len(sizes))]
		p := val{kind: 'a'}
		for i := 0; i < n; i++ {
			p.els = append(p.els, randVal(c, depth-1))
		}
		return p
	default:
		sizes := []int{0, 1, 4, 5, 7}
		n := sizes[c.R.Intn(len(sizes))]
		p := val{kind: 'm', keys: randKeys(c, n)}
		for i := 0; i < n; i++ {
			p.els = append(p.els, randVal(c, depth-1))
		}
		return sortMap(p)
	}
}

// the == twin of a number: same value, other type (or other zero)
func twinNum(c *Ctx, v val) (val, bool) {
	switch v.kind {
	case 'i':
		return vf(v.n * 4), true
	case 'f':
		if v.n == 0 {
			if c.R.Bool() {
				return val{kind: 'z'}, true
			}
			return vi(0), true
		}
		if v.n%4 == 0 {
			return vi(v.n / 4), true
		}
	case 'z':
		if c.R.Bool() {
			return vf(0), true
		}
		return vi(0), true
	}
	return v, false
}

// a value == to v (for the language) but not identical: one number somewhere in it (element, map value or map key,
// at any depth) is replaced by its twin.  ok = false when v holds no number that has a twin
func twin(c *Ctx, v val) (val, bool) {
	if t, ok := twinNum(c, v); ok {
		return t, true
	}
	if v.kind != 'a' && v.kind != 'm' {
		return v, false
	}
	n := len(v.els)
	if n == 0 {
		return v, false
	}
	w := val{kind: v.kind, els: append([]val(nil), v.els...), keys: append([]val(nil), v.keys...)}
	start := c.R.Intn(n)
	for d := 0; d < n; d++ {
		i := (start + d) % n
		if v.kind == 'm' && c.R.Pct(30) {
			if t, ok := twinNum(c, v.keys[i]); ok {
				w.keys[i] = t
				return w, true
			}
		}
		if t, ok := twin(c, v.els[i]); ok {
			w.els[i] = t
			return w, true
		}
	}
	return v, false
}

func c19Random(c *Ctx, nEvents int) {
	// which names take part
	names := []string{randConstName(c), randConstName(c), varNames[c.R.Intn(len(varNames))], varNames[c.R.Intn(len(varNames))]}
	if names[0] == names[1] {
		names = names[1:]
	}
	if names[len(names)-1] == names[len(names)-2] {
		names = names[:len(names)-1]
	}
	cur := map[string]val{} // what the generator believes each name holds (only to aim attempts; may be stale)
	has := map[string]bool{}
	var evs []event
	scopes := []byte{'T', 'T', 'T', 'F', 'F', 'G', 'L'}
	for len(evs) < nEvents {
		n := names[c.R.Intn(len(names))]
		sc := scopes[c.R.Intn(len(scopes))]
		if !has[n] && c.R.Pct(80) {
			v := randVal(c, 2)
			if !isConst(n) && c.R.Pct(50) { // an alias of a constant's value
				for _, m := range names {
					if isConst(m) && has[m] {
						evs = append(evs, T(asx(n, expr{kind: 'N', y: m})))
						cur[n], has[n] = cur[m], true
					}
				}
				if has[n] {
					continue
				}
			}
			evs = append(evs, T(as(n, v)))
			cur[n], has[n] = v, true
			continue
		}
		v := cur[n]
		var a attempt
		switch k := c.R.Intn(100); {
		case k < 14: // literal, the identical value, or an == twin
			nv := randVal(c, 2)
			if c.R.Pct(30) {
				nv = v
			} else if c.R.Pct(45) {
				if t, ok := twin(c, v); ok {
					nv = t
				}
			}
			a = attempt{kind: "AS", name: n, ex: lit(nv), flag: c.R.Pct(30)}
			if !isConst(n) {
				cur[n] = nv
			}
		case k < 26: // alias-making right-hand sides, from another name (mostly a constant)
			y := names[c.R.Intn(len(names))]
			yv := cur[y]
			ln := int64(len(yv.els))
			var x expr
			switch c.R.Intn(13) {
			case 12: // a bundle of closures over a constant-named parameter of their maker, then calls of its writers
				sc = 'T'
				g := []string{"w1", "w2"}[c.R.Intn(2)]
				pn := []string{"LIM", "K_9", "MAXV", "P0"}[c.R.Intn(4)]
				bv := randVal(c, 1)
				evs = append(evs, T(asx(g, expr{kind: 'B', y: pn, v: bv})))
				for j := 1 + c.R.Intn(4); j > 0; j-- {
					w := attempt{kind: "W", name: g}
					switch c.R.Intn(9) {
					case 0:
						w.y = "RD"
					case 1, 2:
						w.y, w.v, w.flag = "AS", randVal(c, 1), c.R.Bool()
						if c.R.Pct(30) {
							w.v = bv
						}
					case 3:
						w.y, w.v = "PM", randVal(c, 1)
						if c.R.Pct(30) {
							w.v = bv
						}
					case 4:
						w.y, w.a = "FI", int64(c.R.Intn(3))
						w.b = w.a + int64(c.R.Intn(3))
					case 5:
						w.y, w.l = "FL", []val{randVal(c, 1)}
					case 6:
						w.y, w.k, w.v = "IX", randIndex(c, bv), randLeaf(c)
					case 7:
						w.y, w.k = "DE", randIndex(c, bv)
					default:
						w.y, w.a = "IN", int64(1-2*c.R.Intn(2))
					}
					evs = append(evs, event{'T', w})
				}
				continue
			case 11: // same-text closures again (so that re-binding a function-valued constant is frequent)
				sc = 'T'
				x = expr{kind: 'K', v: randLeaf(c)}
			case 7, 8: // computed from y (often the assigned name itself): y+e, y[l:r]+e
				if c.R.Pct(60) {
					y, yv, ln = n, v, int64(len(v.els))
				}
				if c.R.Bool() {
					x = expr{kind: 'Q', y: y, v: randLeaf(c)}
				} else {
					r := ln - int64(c.R.Intn(2))
					if r < 0 {
						r = 0
					}
					x = expr{kind: 'T', y: y, l: 0, r: r, v: randLeaf(c)}
					if c.R.Pct(40) && r < ln && r >= 0 && yv.kind == 'a' && yv.els[r].kind != 'a' && yv.els[r].kind != 'm' {
						x.v = yv.els[r] // puts back what the slice dropped: the identical value
					}
				}
				if yv.kind != 'a' {
					x = expr{kind: 'N', y: y} // + on other types is outside the model
				}
			case 9: // a closure over a function-scope binding (made at top level)
				sc = 'T'
				n = []string{"g1", "g2"}[c.R.Intn(2)]
				x = expr{kind: 'M', y: names[c.R.Intn(len(names))], v: randVal(c, 1)}
			case 10:
				if c.R.Bool() {
					x = expr{kind: 'G', y: []string{"g1", "g2"}[c.R.Intn(2)]}
				} else if c.R.Bool() {
					x = expr{kind: 'G', y: y}
				} else { // a same-text closure, mostly onto a constant name
					sc = 'T'
					x = expr{kind: 'K', v: randLeaf(c)}
				}
			case 0:
				x = expr{kind: 'N', y: y}
			case 1:
				l := int64(c.R.Intn(3))
				x = expr{kind: 'S', y: y, l: l, r: l + int64(c.R.Intn(int(ln)+2))}
				if c.R.Pct(50) {
					x.r = ln
					if x.l > x.r {
						x.l = 0
					}
				}
			case 2:
				x = expr{kind: 'W', y: y}
			case 3:
				x = expr{kind: 'X', y: y, k: randIndex(c, yv)}
			case 4:
				x = expr{kind: 'R', y: y}
			case 5:
				x = expr{kind: 'P', y: y, v: randLeaf(c)}
			default:
				x = expr{kind: 'C', y: y, k: randIndex(c, yv), v: randLeaf(c)}
			}
			if yv.kind == 's' && (x.kind == 'S' || x.kind == 'X') {
				x = expr{kind: 'N', y: y} // slicing / indexing a string is outside the model
			}
			a = attempt{kind: "AS", name: n, ex: x, flag: c.R.Pct(20)}
			if !isConst(n) && (x.kind == 'N' || x.kind == 'R') {
				cur[n] = yv
			}
		case k < 30: // a burst of index writes on one name: same-value writes and changing ones back to back
			if v.kind == 'm' { // grow / shrink a map step by step, then hand it to a constant through a function reading it
				for j := 3 + c.R.Intn(5); j > 0; j-- {
					if c.R.Pct(20) {
						evs = append(evs, event{sc, attempt{kind: "DE", name: n, k: vi(int64(c.R.Intn(10)))}})
					} else {
						evs = append(evs, event{sc, ix(n, vi(int64(c.R.Intn(10))), randLeaf(c))})
					}
				}
				if !isConst(n) {
					evs = append(evs, T(asx(randConstName(c), expr{kind: []byte{'R', 'N', 'W'}[c.R.Intn(3)], y: n})), event{sc, ix(n, vi(int64(c.R.Intn(10))), randLeaf(c))})
				}
				continue
			}
			if v.kind == 'a' && len(v.els) > 0 {
				nb := 2 + c.R.Intn(3)
				for j := 0; j < nb; j++ {
					i := c.R.Intn(len(v.els))
					w := v.els[i]
					if c.R.Pct(45) {
						w = randLeaf(c)
					}
					s2 := sc
					if c.R.Pct(25) {
						s2 = scopes[c.R.Intn(len(scopes))]
					}
					evs = append(evs, event{s2, ix(n, vi(int64(i)), w)})
					if c.R.Pct(20) {
						y := names[c.R.Intn(len(names))]
						evs = append(evs, event{s2, attempt{kind: "CA", name: randConstName(c), y: y, k: randIndex(c, cur[y]), v: randLeaf(c)}})
					}
				}
				continue
			}
			a = rd(n)
		case k < 34:
			d := int64(1)
			if c.R.Bool() {
				d = -1
			}
			a = attempt{kind: "IN", name: n, a: d, flag: c.R.Bool()}
		case k < 52:
			idx := randIndex(c, v)
			nv := randVal(c, 1)
			if (v.kind == 'a' || v.kind == 'm') && c.R.Pct(45) { // the element it already holds, or its twin
				for i := range v.els {
					if (v.kind == 'a' && idx.kind == 'i' && (int64(i) == idx.n || int64(i)-int64(len(v.els)) == idx.n)) ||
						(v.kind == 'm' && v.keys[i].enc() == idx.enc()) {
						nv = v.els[i]
						if t, ok := twin(c, nv); ok && c.R.Pct(60) {
							nv = t
						}
					}
				}
			}
			if v.kind == 'm' && c.R.Pct(15) { // the same key as a float / integer
				if t, ok := twinNum(c, idx); ok {
					idx = t
				}
			}
			a = ix(n, idx, nv)
		case k < 62:
			a = attempt{kind: "DE", name: n, k: randIndex(c, v)}
		case k < 66:
			a = attempt{kind: "DL", name: n}
			has[n] = false
		case k < 74:
			lo := int64(c.R.Intn(4))
			a = attempt{kind: "FI", name: n, a: lo, b: lo + int64(c.R.Intn(4)) - 1 + int64(c.R.Intn(2))}
		case k < 82:
			l := []val{}
			for i := c.R.Intn(3); i > 0; i-- {
				l = append(l, randVal(c, 1))
			}
			if c.R.Pct(40) {
				if t, ok := twin(c, v); ok && c.R.Bool() {
					l = append(l, t)
				} else {
					l = append(l, v)
				}
			}
			a = attempt{kind: "FL", name: n, l: l}
		case k < 93:
			nv := randVal(c, 2)
			if c.R.Pct(25) {
				nv = v
			} else if c.R.Pct(35) {
				if t, ok := twin(c, v); ok {
					nv = t
				}
			} else if c.R.Pct(40) {
				nv = vi(int64(c.R.Intn(20)))
			}
			a = attempt{kind: "CL", name: n, v: nv}
		default:
			a = rd(n)
		}
		evs = append(evs, event{sc, a})
	}
	lz := 0
	if c.R.Pct(35) {
		lz = 1
	}
	c19SeqL(c, names, evs, lz)
}

// an index / key aimed at v: mostly one it has
func randIndex(c *Ctx, v val) val {
	switch v.kind {
	case 'a':
		n := len(v.els)
		if n > 0 && c.R.Pct(75) {
			i := int64(c.R.Intn(n))
			if c.R.Pct(20) {
				i -= int64(n)
			}
			return vi(i)
		}
		if c.R.Pct(10) {
			return vf(4)
		}
		return vi(int64(n + c.R.Intn(3)))
	case 'm':
		if len(v.keys) > 0 && c.R.Pct(70) {
			return v.keys[c.R.Intn(len(v.keys))]
		}
	}
	if c.R.Pct(15) {
		return vs([]string{"a", "b", "q"}[c.R.Intn(3)])
	}
	if c.R.Pct(15) {
		return vf(int64(c.R.Intn(12)) * 4)
	}
	return vi(int64(c.R.Intn(16)))
}

// programs outside the attempt language (named functions, self, catch): after running the lines, the expression must
// have the given exact rendering - in both register modes
type rawProg struct {
	sig   string
	lines []string
	expr  string
	want  string
}

var rawCorpus = []rawProg{
	// inside func FOO, Get(FOO) is the running function: the constant check compared the function with itself
	{"const-changed-ownname-function", []string{"func FOO(){FOO=self}", "H=FOO", "del(FOO)", "FOO=1", "H()"}, "FOO", "1"},
	{"const-changed-ownname-function", []string{"func BAR(){BAR=2}", "H=BAR", "del(BAR)", "BAR=1", "H()"}, "BAR", "1"},
	// info handed out the process-wide map and kept updating it
	{"const-changed-info-globals", []string{"K=info", "s1=json(K.globals)", "xyz=1", "x=info.version"}, "json(K.globals)==s1", "true"},
	// functions with the same body and another name are not the same value
	{"const-changed-function-othername", []string{"func f(x){x}", "K=f", "func g(x){x}", "r=catch(K=g)"}, "r.err", "true"},
	{"const-captured-changed-escapedclosure-as", []string{"func mk(K){[()=>K, ()=>{K=99}]}", "p=mk(1)", "r=catch(p[1]())"}, "[r.err, p[0]()]", "[true,1]"},
	{"const-shadowed-escapedclosure-pm", []string{"func mk2(LIMIT){func(LIMIT){LIMIT}}", "g=mk2(10)", "r=catch(g(20))"}, "r.err", "true"},
	{"const-captured-changed-escapedclosure-fi", []string{"func mk(K){()=>{for K = 3 {}; K}}", "g=mk(7)"}, "g()", "7"},
}

func c19Raw(c *Ctx) {
	for _, noReg := range []bool{false, true} {
		for _, rp := range rawCorpus {
			se := newSession(noReg)
			for _, l := range rp.lines {
				se.exec(l)
				c.Eval()
			}
			got := "-"
			if o, err := eval.EvalString(se.s, rp.expr, false); err == nil {
				got = exact(o)
			}
			if got != rp.want {
				c.Fail(rp.sig, "RAW "+strings.Join(rp.lines, "; ")+"; "+rp.expr, fmt.Sprintf("noreg=%v: %s is %s, expected %s", noReg, rp.expr, got, rp.want))
			}
		}
	}
}

// ---- every callable there is, applied to a constant.
// The extension functions registered at run time (object.ExtraFunctions), the functions the root environment comes
// with (written in grol) and the builtin keywords are enumerated, not listed: a function added later is covered too.
// Each is called with the constant in every argument position (the other arguments get a default of the declared
// type), directly, through an alias and through a parameter; afterwards the constant must be exactly what it was.
// Not called: del (the explicit deletion the property exempts) and what blocks or leaves the process
// (sleep, read, eof, image.save, image.png).
var extSkip = map[string]bool{"del": true, "sleep": true, "read": true, "eof": true, "image.save": true, "image.png": true, "macro": true, "quote": true, "unquote": true}

func defaultArg(t object.Type) string {
	switch t { //nolint:exhaustive // the rest gets an integer
	case object.FLOAT:
		return "1.5"
	case object.STRING:
		return "\"a\""
	case object.ARRAY:
		return "[2,1]"
	case object.MAP:
		return "{1:1}"
	case object.BOOLEAN:
		return "true"
	case object.FUNC:
		return "func(x){x}"
	}
	return "1"
}

type callable struct {
	name     string
	minA     int
	maxA     int // -1 unlimited
	argTypes []object.Type
}

func allCallables() []callable {
	var cs []callable
	for n, e := range object.ExtraFunctions() {
		cs = append(cs, callable{n, e.MinArgs, e.MaxArgs, e.ArgTypes})
	}
	for b := range token.Info().Builtins {
		cs = append(cs, callable{b, 1, 2, nil})
	}
	// functions bound in a fresh root environment
	st := eval.NewState()
	if o, err := eval.EvalString(st, "info.globals", false); err == nil {
		for _, k := range object.Elements(o) {
			if ks, ok := k.(object.String); ok {
				if v, err := eval.EvalString(st, ks.Value, false); err == nil && v.Type() == object.FUNC {
					cs = append(cs, callable{ks.Value, 1, 3, nil})
				}
			}
		}
	}
	sort.Slice(cs, func(i, j int) bool { return cs[i].name < cs[j].name })
	return cs
}

func c19Callables(c *Ctx) {
	shapes := []struct{ name, src string }{
		{"smallarray", "[3,1,2]"}, {"bigarray", "[9,8,7,6,5,4,3,2,1,0]"}, {"nestedarray", "[[3,1],[2,9,8,7,6,5,4,3,2,1]]"},
		{"smallmap", "{3:1,1:[2,1]}"}, {"bigmap", "{9:1,8:2,7:3,6:4,5:5,4:[2,1]}"}, {"string", "\"cba\""}, {"float", "2.5"}, {"int", "3"},
	}
	cs := allCallables()
	c.Extra["callables"] = len(cs)
	for _, f := range cs {
		if extSkip[f.name] {
			continue
		}
		for _, sh := range shapes {
			for _, noReg := range []bool{false, true} {
				se := newSession(noReg)
				se.exec("K=" + sh.src)
				se.exec("b=K")
				want, _ := se.value("K")
				maxPos := f.maxA
				if maxPos < 0 || maxPos > 3 {
					maxPos = 3
				}
				if maxPos < 1 {
					continue
				}
				for pos := 0; pos < maxPos; pos++ {
					for _, route := range []string{"direct", "alias", "parameter"} {
						nargs := f.minA
						if nargs < pos+1 {
							nargs = pos + 1
						}
						args := make([]string, nargs)
						for i := range args {
							t := object.ANY
							if i < len(f.argTypes) {
								t = f.argTypes[i]
							}
							args[i] = defaultArg(t)
						}
						who := "K"
						if route == "alias" {
							who = "b"
						} else if route == "parameter" {
							who = "p"
						}
						args[pos] = who
						call := f.name + "(" + strings.Join(args, ",") + ")"
						src := "r=" + call
						if route == "parameter" {
							se.uniq++
							src = fmt.Sprintf("r=func(p){%d;%s}(K)", se.uniq, call)
						}
						_, panicked, errs := se.exec(src)
						c.Eval()
						line := fmt.Sprintf("CALL noreg=%v K=%s; b=K; %s", noReg, sh.src, src)
						if panicked {
							c.Fail("panic-call-"+f.name, line, fmt.Sprintf("%v", errs))
						}
						if got, _ := se.value("K"); got != want {
							c.Fail("const-changed-by-call-"+f.name+"-"+sh.name+"-"+route, line, fmt.Sprintf("K was %s, after the call it is %s", want, got))
							se.exec("del(K)")
							se.exec("K=" + sh.src)
							se.exec("b=K")
						}
						// what the call returned is a value of its own: writing to it must not reach the constant
						se.exec("r[0]=77")
						if got, _ := se.value("K"); got != want {
							c.Fail("const-changed-through-result-"+f.name+"-"+sh.name+"-"+route, line+"; r[0]=77", fmt.Sprintf("K was %s, now %s", want, got))
							se.exec("del(K)")
							se.exec("K=" + sh.src)
							se.exec("b=K")
						}
						c.Count("callable-route=" + route)
					}
				}
			}
		}
	}
}

// ---- every SYNTACTIC form that could write through a constant, including forms the interpreter rejects today (nested
// index / dot assignment, ++ on an element, assignment through a slice or a call result, compound forms): whatever the
// statement returns - a value, an error, a parse error - the constant, and an alias of it made before, must evaluate to
// exactly the same value afterwards. K stands for the constant, B for a non-constant alias (b=K) in the alias variant.
var mutationForms = []string{
	"K[0][1]=99", "K[1][0]=99", "K[2][3]=99", "K[3][1]=99", "K[0][1]=K[0][1]", "K[2][7]=7", "K[0][0][0]=99", "K[4][0][1]=99",
	"K.cfg[3]=99", "K.cfg[7]=7", "K[\"cfg\"][3]=99", "K[\"cfg\"][7]=7", "K.cfg.x=1", "K.s.y=2", "K.a[1]=99", "K.t[0]=99", "K.deep.m[2]=99", "K.deep.a[9]=99",
	"K.cfg[3]=K.cfg[3]", "K.cfg[3]:=99", "K[0][1]:=99", "K.x=1", "K.cfg=1", "K[0]=[1]",
	"K[0][1]++", "K[0][1]--", "++K[0][1]", "--K.cfg[3]", "K.cfg[3]++", "K.a[1]++", "K[0]++", "K.cfg++",
	"K[0][1]+=1", "K.cfg[3]+=1", "K[0]+=[1]", "K+=[1]", "K[0][1]*=2",
	"K[1:][0]=99", "K[0:2][1]=99", "K[0][1:][0]=99", "K.a[2:][0]=99", "(K)[0]=99", "(K[0])[1]=99", "(K.cfg)[3]=99",
	"first(K)[1]=99", "rest(K)[0]=99", "first(K).x=1", "idc(K)[0]=99", "idc(K).cfg=1", "idc(K[0])[1]=99",
	"K[0],K[1]=K[1],K[0]", "K[0][0],K[0][1]=K[0][1],K[0][0]", "t=K[0][0];K[0][0]=K[0][1];K[0][1]=t",
	"del(K[0][1])", "del(K.cfg[3])", "del(K[\"cfg\"][3])", "del(K.cfg.x)", "del(K.deep.m[2])", "del(K[2][3])", "del(K.cfg)",
	"for K[0]=0:3{}", "for K[0][1]=0:3{}", "for K.cfg=[1]{}", "for K.cfg[3]=[1,2]{}",
	"K[0][1]=99;K[0][1]=98", "K.cfg[3]=3;K.cfg[3]=99", "K[0][0]=K[0][0];K[0][1]=99", "x=K[0];x[1]=99", "x=K.cfg;x[3]=99;del(x[4])", "x=K.a;x=x+[1];x[0]=99",
}

func c19Forms(c *Ctx) {
	big := "[1,2,3,4,5,6,7,8,9,10]"
	bigm := "{1:1,2:2,3:3,4:4,5:5}"
	shapes := []struct{ name, src string }{
		// arrays of arrays / maps, inner ones below and above the thresholds
		{"array-of-big", "[" + big + ",[1,2]," + bigm + ",{1:1},[[1,2]," + big + "]]"},
		{"array-of-small", "[[1,2],[3],{1:1,3:3},{2:2},[[1,2],[3,4]]]"},
		{"bigarray-of-big", "[" + big + "," + big + "," + bigm + "," + bigm + ",[" + big + "," + big + "],6,7,8,9,10]"},
		// maps with string keys (dot forms), inner ones below and above the thresholds
		{"map-of-big", "{\"cfg\":" + bigm + ",\"s\":{1:1},\"a\":" + big + ",\"t\":[1,2],\"deep\":{\"m\":" + bigm + ",\"a\":" + big + "}}"},
		{"map-of-small", "{\"cfg\":{3:3,4:4},\"s\":{1:1},\"a\":[1,2,3],\"t\":[1,2]}"},
	}
	wraps := []struct{ name, pre, post string }{{"top", "", ""}, {"infunc", "func(){", "}()"}, {"infunc2", "func(){func(){", "}()}()"}, {"inloop", "for 2{", "}"}}
	for _, sh := range shapes {
		for _, noReg := range []bool{false, true} {
			for _, who := range []string{"K", "B"} {
				se := newSession(noReg)
				se.exec("idc=func(x){x}")
				se.exec("K=" + sh.src)
				se.exec("b=K")
				want, _ := se.value("K")
				for _, form := range mutationForms {
					stmt := form
					if who == "B" { // the same forms through a non-constant alias: b may change, K must not
						stmt = strings.ReplaceAll(form, "K", "b")
					}
					for _, w := range wraps {
						se.uniq++
						src := w.pre + stmt + w.post
						if w.pre != "" && w.name != "inloop" {
							src = strings.Replace(src, "func(){", fmt.Sprintf("func(){%d;", se.uniq), 1)
						}
						_, panicked, errs := se.exec(src)
						c.Eval()
						line := fmt.Sprintf("FORM noreg=%v K=%s; b=K; %s", noReg, sh.src, src)
						if panicked {
							c.Fail("panic-form", line, fmt.Sprintf("%v", errs))
						}
						got, _ := se.value("K")
						inner := se.innerValue("K")
						if got != want || inner != want {
							route := "direct"
							if who == "B" {
								route = "alias"
							}
							c.Fail("const-changed-by-form-"+sh.name+"-"+route+"-"+w.name, line, fmt.Sprintf("K was %s, afterwards it is %s (read inside a function: %s)", want, got, inner))
							se.exec("del(K)")
							se.exec("K=" + sh.src)
						}
						if who == "B" { // re-arm the alias
							se.exec("b=K")
						}
						c.Count("form-scope=" + w.name)
					}
				}
			}
		}
	}
}

// ---- del(K) followed by a NEW binding inside a construct that saves / restores / iterates names (counted loops and
// for-in loops over K itself and over another name, function / lambda / named-function bodies, catch, if), left
// normally, by break, by return and by an error. The body's last statement copies K into the witness w; between that read
// and the one made after the construct there is no del(K): the two must be equal, and a further change must be refused
// and leave K alone. (No reference semantics of the constructs is needed: the implementation against itself, at two
// instants between which the property allows no change.) At top level and with K a local of a function.
func c19Rebind(c *Ctx) {
	constructs := []struct{ name, tmpl string }{
		{"countedloop-on-K", "for K=2{BODY}"}, {"countedloop-on-K-3", "for K=3{BODY}"}, {"rangeloop-on-K", "for K=1:3{BODY}"}, {"forin-on-K", "for K=[5,6]{BODY}"},
		{"forin-map-on-K", "for K={1:1,2:2}{BODY}"}, {"countedloop", "for i=2{BODY}"}, {"plainloop", "for 2{BODY}"}, {"forin", "for x=[5,6]{BODY}"},
		{"whileloop", "n=0;for n<2{n=n+1;BODY}"}, {"func", "func(){BODY}()"}, {"lambda", "(()=>{BODY})()"}, {"namedfunc", "func nf(){BODY};nf()"},
		{"func-2deep", "func(){func(){BODY}()}()"}, {"func-countedloop-on-K", "func(){for K=2{BODY}}()"}, {"func-forin-on-K", "func(){for K=[5,6]{BODY}}()"},
		{"countedloop-on-K-func", "for K=2{func(){BODY}()}"}, {"catch", "catch(func(){BODY}())"}, {"if", "if true{BODY}"}, {"nested-loops-on-K", "for K=2{for K=2{BODY}}"},
		{"func-param-other", "func(p){BODY}(1)"}, {"func-param-K", "func(K){BODY}(5)"}, {"lambda-param-K", "((K)=>{BODY})(5)"}, {"namedfunc-param-K", "func pf(K){BODY};pf(5)"}, {"recursive", "func rf(n){if n>0{rf(n-1)};BODY};rf(2)"},
	}
	bodies := []struct{ name, src string }{
		{"rebind", "del(K);K=NEW;w=K"}, {"rebind-twice", "del(K);K=OLD;del(K);K=NEW;w=K"}, {"rebind-define", "del(K);K:=NEW;w=K"},
		{"rebind-break", "del(K);K=NEW;w=K;break"}, {"rebind-return", "del(K);K=NEW;w=K;return 1"}, {"rebind-error", "del(K);K=NEW;w=K;error(\"out\")"},
		{"rebind-then-refused", "del(K);K=NEW;w=K;catch(K=OLD)"},
	}
	values := [][2]string{{"7", "9"}, {"[1,2,3]", "[1,2,4]"}, {"0:10", "1:11"}, {"{1:1,2:2,3:3,4:4,5:5}", "{1:1,2:2,3:3,4:4,5:6}"}, {"1", "1.0"}, {"\"a\"", "7"}}
	n, compared := 0, map[string]int{}
	for _, noReg := range []bool{false, true} {
		for _, cs := range constructs {
			for _, b := range bodies {
				if (b.name == "rebind-break" && !strings.Contains(cs.tmpl, "for ")) || (b.name == "rebind-return" && !strings.Contains(cs.tmpl, "func")) {
					continue
				}
				for _, v := range values {
					for _, where := range []string{"toplevel", "local"} {
						for _, name := range []string{"K", "MAX_9"} {
							body := strings.NewReplacer("NEW", v[1], "OLD", v[0]).Replace(b.src)
							construct := strings.ReplaceAll(cs.tmpl, "BODY", body)
							if b.name == "rebind-error" {
								construct = "catch(func(){" + construct + "}())"
							}
							prog := fmt.Sprintf("w=\"never\";K=%s;%s;after=catch(K);r1=catch(K=%s);r2=catch(K=\"other\");res=[w,after.value,r1.err,r2.err,catch(K).value,after.err]", v[0], construct, v[0])
							if where == "local" {
								prog = "res=func(){" + strings.Replace(prog, "res=", "", 1) + "}()"
							}
							prog = strings.ReplaceAll(prog, "K", name)
							se := newSession(noReg)
							se.exec(prog)
							c.Eval()
							n++
							line := "REBIND " + prog
							get := func(e string) string {
								if o, err := eval.EvalString(se.s, e, false); err == nil {
									return exact(o)
								}
								return "-"
							}
							w, after, r1, r2, last := get("res[0]"), get("res[1]"), get("res[2]"), get("res[3]"), get("res[4]")
							if w == "-" || w == "\"never\"" {
								continue // the program as a whole was refused, or the body never reached its last statement: nothing to compare
							}
							mode := map[bool]string{false: "reg", true: "noreg"}[noReg]
							if get("res[5]") == "true" {
								// unbound after the construct: the del removed the outer binding and the new one was a local of the
								// function body - nothing holds the name, so nothing can have changed
								compared[cs.name+"/unbound-after"]++
								continue
							}
							compared[cs.name]++
							if strings.HasSuffix(cs.name, "-param-K") {
								// a parameter named like the bound constant is refused; were it accepted, the body's K is the parameter
								// and the constant outside must be what it was
								if old := get(v[0]); after != old {
									c.Fail("const-changed-leaving-"+cs.name+"-"+mode, line, fmt.Sprintf("%s: %s was %s before the call, %s after it", mode, name, old, after))
								}
								continue
							}
							if after != w {
								c.Fail("const-changed-leaving-"+cs.name+"-"+mode, line, fmt.Sprintf("%s: %s was %s when the body of the construct last read it, %s after the construct, with no del in between (body %s, %s)", mode, name, w, after, b.name, where))
								continue
							}
							if r1 != "true" || r2 != "true" || last != w {
								c.Fail("const-changed-after-"+cs.name+"-"+mode, line, fmt.Sprintf("%s: after the construct %s=%s and %s=\"other\" report err=%s / %s and %s is %s, expected refusals and %s", mode, name, v[0], name, r1, r2, name, last, w))
							}
						}
					}
				}
			}
		}
	}
	c.Extra["rebind_programs"] = n
	c.Extra["rebind_compared_by_construct"] = compared
}

func runC19(c *Ctx) {
	log.SetLogLevelQuiet(log.Critical)
	_ = extensions.Init(nil) // defines the identifier nil (and PI, E: not used as names here)
	c.Rule = "sequences of mutation attempts (= := with a literal, the identical value, an ==-equal but not identical value (int/float in elements, " +
		"values and keys at any depth, 0.0/-0.0), or an alias-making expression; ++ -- ; index assignment; del of an element; loop variable over a " +
		"range and over a list; parameter name; explicit del; writes through aliases made by assignment, slice, container, return value, parameter, " +
		"append) at top level, inside a function, two functions deep and inside a loop, on constants holding int, float, string, bool, nil, arrays " +
		"(0..12 elements) and maps (0..7 pairs), each run with registers on and off. " +
		"non-trivial = distinct sequences with at least one non-read attempt after the first binding"
	if c.ReplayCase != "" {
		f := strings.Fields(c.ReplayCase)
		if len(f) == 5 && f[0] == "CST" {
			var evs []event
			for _, e := range strings.Split(f[4], ";") {
				evs = append(evs, decEvent(e))
			}
			c19Seq(c, strings.Split(f[3], ","), evs)
		} else if len(f) > 0 && f[0] == "REBIND" {
			c19Rebind(c)
		} else {
			fmt.Println("bad replay case")
		}
		return
	}
	c19Raw(c)
	c19Callables(c)
	c19Forms(c)
	c19Rebind(c)
	ns, seqs := corpus()
	for i := range seqs {
		c19Seq(c, ns[i], seqs[i])
	}
	n, ne := 5000, 12
	if c.Thorough() {
		n, ne = 150000, 16
	}
	for i := 0; i < n; i++ {
		c19Random(c, 4+c.R.Intn(ne-3))
	}
}
