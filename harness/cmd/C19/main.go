package main

// C19: constants cannot be changed by any path.
// Correspondence: sequences of mutation attempts of every syntactic kind (=, :=, ++/--, index assignment, del of an
// element, loop variable, parameter name, nested functions and loops, explicit del) on constants holding each value
// type (incl. arrays > 8 and maps > 4), run as grol source on a persistent eval.State through repl.EvalOne, once with
// registers and once without; outcome (error / result) of every attempt and the top-level value of every tracked
// name after it are compared with coq/model/ConstEnv.v.
// Direct oracle (model-free): after each attempt without an intervening del of the name, the rendering of a
// constant - read at top level and from inside a function - equals its first rendering, and both register modes
// agree on error / non-error and on the result.

import (
	"context"
	"fmt"
	"strconv"
	"strings"

	"fortio.org/log"
	"grol.io/grol/eval"
	"grol.io/grol/extensions"
	"grol.io/grol/object"
	"grol.io/grol/repl"
	"verifharness/common"
	. "verifharness/common"
)

func main() { common.Main("C19", runC19) }

// ---- values
type pval struct {
	kind byte // i n a m
	n    int64
	els  []pval
	keys []int64
}

func (p pval) enc() string {
	switch p.kind {
	case 'i':
		return "i" + strconv.FormatInt(p.n, 10)
	case 'n':
		return "n"
	case 'a':
		parts := []string{"a" + strconv.Itoa(len(p.els))}
		for _, e := range p.els {
			parts = append(parts, e.enc())
		}
		return strings.Join(parts, ".")
	default:
		parts := []string{"m" + strconv.Itoa(len(p.els))}
		for i, e := range p.els {
			parts = append(parts, strconv.FormatInt(p.keys[i], 10), e.enc())
		}
		return strings.Join(parts, ".")
	}
}
func (p pval) src() string {
	switch p.kind {
	case 'i':
		return strconv.FormatInt(p.n, 10)
	case 'n':
		return "nil"
	case 'a':
		parts := make([]string, len(p.els))
		for i, e := range p.els {
			parts[i] = e.src()
		}
		return "[" + strings.Join(parts, ",") + "]"
	default:
		parts := make([]string, len(p.els))
		for i, e := range p.els {
			parts[i] = strconv.FormatInt(p.keys[i], 10) + ":" + e.src()
		}
		return "{" + strings.Join(parts, ",") + "}"
	}
}

type cval struct {
	kind byte // p s b f
	p    pval
	s    string
	b    bool
	q    int64
}

func (v cval) enc() string {
	switch v.kind {
	case 'p':
		return v.p.enc()
	case 's':
		return "s" + Hx([]byte(v.s))
	case 'b':
		if v.b {
			return "b1"
		}
		return "b0"
	default:
		return "f" + strconv.FormatInt(v.q, 10)
	}
}
func (v cval) src() string {
	switch v.kind {
	case 'p':
		return v.p.src()
	case 's':
		return strconv.Quote(v.s)
	case 'b':
		return strconv.FormatBool(v.b)
	default:
		return fmt.Sprintf("%.2f", float64(v.q)/4)
	}
}
func (v cval) typeName() string {
	switch v.kind {
	case 's':
		return "string"
	case 'b':
		return "bool"
	case 'f':
		return "float"
	}
	switch v.p.kind {
	case 'i':
		return "int"
	case 'n':
		return "nil"
	case 'a':
		if len(v.p.els) > object.MaxSmallArray {
			return "bigarray"
		}
		return "smallarray"
	default:
		if len(v.p.els) > object.MaxSmallMap {
			return "bigmap"
		}
		return "smallmap"
	}
}

// ---- attempts
type attempt struct {
	kind string // AS IN IX DE DL FI FL CL RD
	name string
	v    cval
	p    pval
	l    []pval
	a, b int64
	flag bool
}

func (a attempt) enc() string {
	f := "0"
	if a.flag {
		f = "1"
	}
	switch a.kind {
	case "AS":
		return fmt.Sprintf("AS,%s,%s,%s", a.name, a.v.enc(), f)
	case "IN":
		return fmt.Sprintf("IN,%s,%d,%s", a.name, a.a, f)
	case "IX":
		return fmt.Sprintf("IX,%s,%d,%s", a.name, a.a, a.p.enc())
	case "DE":
		return fmt.Sprintf("DE,%s,%d", a.name, a.a)
	case "DL":
		return "DL," + a.name
	case "FI":
		return fmt.Sprintf("FI,%s,%d,%d", a.name, a.a, a.b)
	case "FL":
		parts := []string{strconv.Itoa(len(a.l))}
		for _, e := range a.l {
			parts = append(parts, e.enc())
		}
		return fmt.Sprintf("FL,%s,%s", a.name, strings.Join(parts, "."))
	case "CL":
		return fmt.Sprintf("CL,%s,%s", a.name, a.v.enc())
	default:
		return "RD," + a.name
	}
}

// uniq: a statement that makes the text of every function literal unique (the function cache is keyed by text)
func (a attempt) src(uniq *int) string {
	switch a.kind {
	case "AS":
		if a.flag {
			return a.name + ":=" + a.v.src()
		}
		return a.name + "=" + a.v.src()
	case "IN":
		op := "++"
		if a.a < 0 {
			op = "--"
		}
		if a.flag {
			return op + a.name
		}
		return a.name + op
	case "IX":
		return fmt.Sprintf("%s[%d]=%s", a.name, a.a, a.p.src())
	case "DE":
		return fmt.Sprintf("del(%s[%d])", a.name, a.a)
	case "DL":
		return "del(" + a.name + ")"
	case "FI":
		return fmt.Sprintf("for %s=%d:%d{%s}", a.name, a.a, a.b, a.name)
	case "FL":
		parts := make([]string, len(a.l))
		for i, e := range a.l {
			parts[i] = e.src()
		}
		return fmt.Sprintf("for %s=[%s]{%s}", a.name, strings.Join(parts, ","), a.name)
	case "CL":
		*uniq++
		return fmt.Sprintf("func(%s){%d;%s}(%s)", a.name, *uniq, a.name, a.v.src())
	default:
		return a.name
	}
}

func (a attempt) kindName() string {
	switch a.kind {
	case "AS":
		if a.flag {
			return "define"
		}
		return "assign"
	case "IN":
		return "incrdecr"
	case "IX":
		return "indexassign"
	case "DE":
		return "delelement"
	case "DL":
		return "del"
	case "FI":
		return "loopvar-int"
	case "FL":
		return "loopvar-list"
	case "CL":
		return "parameter"
	}
	return "read"
}

type event struct {
	scope byte // T F G L
	a     attempt
}

func (e event) enc() string { return string(e.scope) + ":" + e.a.enc() }
func (e event) src(uniq *int) string {
	s := e.a.src(uniq)
	switch e.scope {
	case 'F':
		*uniq++
		return fmt.Sprintf("func(){%d;%s}()", *uniq, s)
	case 'G':
		*uniq += 2
		return fmt.Sprintf("func(){%d;func(){%d;%s}()}()", *uniq-1, *uniq, s)
	case 'L':
		return "for 2{" + s + "}"
	}
	return s
}
func scopeName(s byte) string {
	switch s {
	case 'F':
		return "infunc"
	case 'G':
		return "infunc2"
	case 'L':
		return "inloop"
	}
	return "top"
}

// ---- decoding for replay
func decPval(ts []string) (pval, []string) {
	t := ts[0]
	rest := ts[1:]
	switch t[0] {
	case 'i':
		n, _ := strconv.ParseInt(t[1:], 10, 64)
		return pval{kind: 'i', n: n}, rest
	case 'n':
		return pval{kind: 'n'}, rest
	case 'a':
		n, _ := strconv.Atoi(t[1:])
		p := pval{kind: 'a'}
		for i := 0; i < n; i++ {
			var e pval
			e, rest = decPval(rest)
			p.els = append(p.els, e)
		}
		return p, rest
	default:
		n, _ := strconv.Atoi(t[1:])
		p := pval{kind: 'm'}
		for i := 0; i < n; i++ {
			k, _ := strconv.ParseInt(rest[0], 10, 64)
			var e pval
			e, rest = decPval(rest[1:])
			p.keys = append(p.keys, k)
			p.els = append(p.els, e)
		}
		return p, rest
	}
}
func decCval(s string) cval {
	switch s[0] {
	case 's':
		return cval{kind: 's', s: string(Unhx(s[1:]))}
	case 'b':
		return cval{kind: 'b', b: s[1] == '1'}
	case 'f':
		q, _ := strconv.ParseInt(s[1:], 10, 64)
		return cval{kind: 'f', q: q}
	}
	p, _ := decPval(strings.Split(s, "."))
	return cval{kind: 'p', p: p}
}
func decEvent(s string) event {
	f := strings.Split(s[2:], ",")
	a := attempt{kind: f[0], name: f[1]}
	i64 := func(x string) int64 { n, _ := strconv.ParseInt(x, 10, 64); return n }
	switch f[0] {
	case "AS":
		a.v, a.flag = decCval(f[2]), f[3] == "1"
	case "IN":
		a.a, a.flag = i64(f[2]), f[3] == "1"
	case "IX":
		a.a = i64(f[2])
		a.p, _ = decPval(strings.Split(f[3], "."))
	case "DE":
		a.a = i64(f[2])
	case "FI":
		a.a, a.b = i64(f[2]), i64(f[3])
	case "FL":
		ts := strings.Split(f[2], ".")
		n, _ := strconv.Atoi(ts[0])
		ts = ts[1:]
		for i := 0; i < n; i++ {
			var e pval
			e, ts = decPval(ts)
			a.l = append(a.l, e)
		}
	case "CL":
		a.v = decCval(f[2])
	}
	return event{scope: s[0], a: a}
}

// ---- running
type session struct {
	s    *eval.State
	opts repl.Options
	uniq int
}

func newSession(noReg bool) *session {
	s := eval.NewState()
	s.NoReg = noReg
	out := &strings.Builder{}
	s.Out, s.LogOut, s.NoLog = out, out, true
	return &session{s: s, opts: repl.Options{All: true, ShowEval: true, NoColor: true, NilAndErr: true, NoReg: noReg}}
}

func (se *session) exec(src string) (string, bool, []string) {
	out := &strings.Builder{}
	se.s.Out, se.s.LogOut = out, out
	_, panicked, errs, _ := repl.EvalOne(context.Background(), se.s, src, out, se.opts)
	se.s.Context = nil
	if panicked {
		return "panic", true, errs
	}
	if len(errs) > 0 {
		return "err", false, errs
	}
	return "ok=" + strings.TrimSpace(out.String()), false, nil
}

// top-level value of a name ("-" when unbound)
func (se *session) value(name string) string {
	o, err := eval.EvalString(se.s, name, false)
	if err != nil {
		return "-"
	}
	return o.Inspect()
}

// the value as seen from inside a function
func (se *session) innerValue(name string) string {
	se.uniq++
	o, err := eval.EvalString(se.s, fmt.Sprintf("func(){%d;%s}()", se.uniq, name), false)
	if err != nil {
		return "-"
	}
	return o.Inspect()
}

type runResult struct {
	obs      []string // per event: outcome + bindings
	outcomes []string
}

// runs one sequence in one register mode; applies the per-mode direct oracle
func c19Run(c *Ctx, noReg bool, names []string, evs []event, line string) runResult {
	se := newSession(noReg)
	mode := "reg"
	if noReg {
		mode = "noreg"
	}
	first := map[string]string{}   // first rendering of each bound constant
	firstTy := map[string]string{} // its value type, for the signature
	var res runResult
	for _, n := range names {
		if v := se.value(n); v != "-" {
			c.Fail("harness-name-prebound", line, n+" is already bound to "+v)
		}
	}
	for idx, ev := range evs {
		src := ev.src(&se.uniq)
		out, panicked, errs := se.exec(src)
		c.Eval()
		if panicked {
			c.Fail("panic-"+ev.a.kindName(), line, fmt.Sprintf("%s step %d %q: %v", mode, idx, src, errs))
		}
		if out == "err" && len(errs) > 0 && strings.Contains(errs[0], "parse") {
			c.Fail("harness-unparsable-statement", line, fmt.Sprintf("step %d %q: %v", idx, src, errs))
		}
		// an explicit del of the name (from any scope) ends the obligation for that name
		if ev.a.kind == "DL" {
			delete(first, ev.a.name)
		}
		var bs []string
		for _, n := range names {
			v := se.value(n)
			bs = append(bs, n+"="+v)
			if !object.Constant(n) {
				continue
			}
			if f, ok := first[n]; ok {
				sig := fmt.Sprintf("const-changed-%s-%s-%s", ev.a.kindName(), firstTy[n], scopeName(ev.scope))
				if v != f {
					c.Fail(sig, line, fmt.Sprintf("%s step %d %q: %s was %s, now %s", mode, idx, src, n, f, v))
					first[n] = v // report each change once
				} else if iv := se.innerValue(n); iv != f {
					c.Fail(sig+"-inner", line, fmt.Sprintf("%s step %d %q: %s read inside a function is %s, was %s", mode, idx, src, n, iv, f))
				}
			} else if v != "-" {
				first[n] = v
				firstTy[n] = typeOfRendering(v)
			}
		}
		// the attempt itself must not have observed another value for a bound constant: a loop over / a call with the
		// name returns what the name evaluated to inside
		if f, ok := first[ev.a.name]; ok && object.Constant(ev.a.name) && strings.HasPrefix(out, "ok=") {
			switch ev.a.kind {
			case "FI", "FL", "CL", "RD":
				got := out[3:]
				if got != f && !(got == "nil" && (ev.a.kind == "FI" || ev.a.kind == "FL")) {
					c.Fail(fmt.Sprintf("const-shadowed-%s-%s", ev.a.kindName(), scopeName(ev.scope)), line,
						fmt.Sprintf("%s step %d %q evaluated %s to %s, it is bound to %s", mode, idx, src, ev.a.name, got, f))
				}
			}
		}
		c.Count("attempt=" + ev.a.kindName())
		c.Count("scope=" + scopeName(ev.scope))
		if out == "err" {
			c.Count("outcome=err")
		} else {
			c.Count("outcome=ok")
		}
		res.outcomes = append(res.outcomes, out)
		res.obs = append(res.obs, out+" "+strings.Join(bs, " "))
	}
	return res
}

func typeOfRendering(v string) string {
	switch {
	case strings.HasPrefix(v, "["):
		if strings.Count(v, ",") >= object.MaxSmallArray {
			return "bigarray"
		}
		return "array"
	case strings.HasPrefix(v, "{"):
		if strings.Count(v, ":") > object.MaxSmallMap {
			return "bigmap"
		}
		return "map"
	case strings.HasPrefix(v, "\""):
		return "string"
	case v == "true" || v == "false":
		return "bool"
	case v == "nil":
		return "nil"
	case strings.Contains(v, "."):
		return "float"
	}
	return "int"
}

func c19Seq(c *Ctx, names []string, evs []event) {
	parts := make([]string, len(evs))
	for i, e := range evs {
		parts[i] = e.enc()
	}
	body := strings.Join(names, ",") + " " + strings.Join(parts, ";")
	var hdr []string
	for _, n := range names {
		k := "0"
		if object.Constant(n) {
			k = "1"
		}
		hdr = append(hdr, n+"="+k)
	}
	h := "C:" + strings.Join(hdr, ",")
	lineR, lineN := "CST R F "+body, "CST N F "+body
	r := c19Run(c, false, names, evs, lineR)
	n := c19Run(c, true, names, evs, lineN)
	nontrivial := false
	for i := range evs {
		a, b := r.outcomes[i], n.outcomes[i]
		if !object.Constant(evs[i].a.name) {
			continue // a non-constant loop variable or parameter lives in a register in one mode only: that is C05's subject
		}
		if (a == "err") != (b == "err") {
			c.Fail("regmode-disagree-outcome-"+evs[i].a.kindName()+"-"+scopeName(evs[i].scope), lineR,
				fmt.Sprintf("step %d %q: registers on: %s, off: %s", i, evs[i].enc(), a, b))
		} else if a != b {
			c.Fail("regmode-disagree-result-"+evs[i].a.kindName()+"-"+scopeName(evs[i].scope), lineR,
				fmt.Sprintf("step %d %q: registers on: %s, off: %s", i, evs[i].enc(), a, b))
		}
		if evs[i].a.kind != "RD" && i > 0 {
			nontrivial = true
		}
	}
	if nontrivial {
		c.NonTrivial(body)
	}
	c.Case(lineR, h+" | "+strings.Join(r.obs, " | "))
	c.Case(lineN, h+" | "+strings.Join(n.obs, " | "))
}

// ---- generators
func pi(n int64) pval { return pval{kind: 'i', n: n} }
func parr(n int, from int64) pval {
	p := pval{kind: 'a'}
	for i := 0; i < n; i++ {
		p.els = append(p.els, pi(from+int64(i)))
	}
	return p
}
func pmap(n int, from int64) pval {
	p := pval{kind: 'm'}
	for i := 0; i < n; i++ {
		p.keys = append(p.keys, int64(i+1))
		p.els = append(p.els, pi(from+int64(i)))
	}
	return p
}
func cp(p pval) cval              { return cval{kind: 'p', p: p} }
func ci(n int64) cval             { return cp(pi(n)) }
func cs(s string) cval            { return cval{kind: 's', s: s} }
func cf(q int64) cval             { return cval{kind: 'f', q: q} }
func cb(b bool) cval              { return cval{kind: 'b', b: b} }
func T(a attempt) event           { return event{'T', a} }
func as(n string, v cval) attempt { return attempt{kind: "AS", name: n, v: v} }

func corpus() ([][]string, [][]event) {
	var names [][]string
	var seqs [][]event
	add := func(ns []string, evs ...event) { names = append(names, ns); seqs = append(seqs, evs) }
	// A=[1..9];A[0]=5;A
	add([]string{"A"}, T(as("A", cp(parr(9, 1)))), T(attempt{kind: "IX", name: "A", a: 0, p: pi(5)}), T(attempt{kind: "RD", name: "A"}))
	// big-map constant: M[1]=7, del(M[1]), M[9]=7
	add([]string{"M"}, T(as("M", cp(pmap(5, 1)))), T(attempt{kind: "IX", name: "M", a: 1, p: pi(7)}),
		T(attempt{kind: "DE", name: "M", a: 1}), T(attempt{kind: "IX", name: "M", a: 9, p: pi(7)}), T(attempt{kind: "RD", name: "M"}))
	// func f(PJ){PJ};f(3)   and   for PJ=0:3{PJ}
	add([]string{"PJ"}, T(as("PJ", cf(13))), T(attempt{kind: "CL", name: "PJ", v: ci(3)}), T(attempt{kind: "FI", name: "PJ", a: 0, b: 3}),
		T(attempt{kind: "FL", name: "PJ", l: []pval{pi(1), pi(2)}}), T(attempt{kind: "IN", name: "PJ", a: 1}), T(attempt{kind: "RD", name: "PJ"}))
	// every kind of attempt from nested scopes on an integer constant
	for _, sc := range []byte{'T', 'F', 'G', 'L'} {
		add([]string{"K", "x"}, T(as("K", ci(7))),
			event{sc, as("K", ci(8))}, event{sc, attempt{kind: "AS", name: "K", v: ci(8), flag: true}}, event{sc, as("K", ci(7))},
			event{sc, attempt{kind: "IN", name: "K", a: 1}}, event{sc, attempt{kind: "IN", name: "K", a: -1, flag: true}},
			event{sc, attempt{kind: "CL", name: "K", v: ci(9)}}, event{sc, attempt{kind: "CL", name: "K", v: ci(7)}},
			event{sc, attempt{kind: "FI", name: "K", a: 0, b: 3}}, event{sc, attempt{kind: "FL", name: "K", l: []pval{pi(7), pi(1)}}},
			event{sc, attempt{kind: "RD", name: "K"}}, event{sc, attempt{kind: "DL", name: "K"}}, T(as("K", ci(1))), T(attempt{kind: "RD", name: "K"}))
	}
	// containers of both representations, from nested scopes
	for _, sc := range []byte{'T', 'F', 'G', 'L'} {
		for _, v := range []pval{parr(3, 1), parr(12, 1), pmap(3, 1), pmap(6, 1)} {
			add([]string{"C_1"}, T(as("C_1", cp(v))),
				event{sc, attempt{kind: "IX", name: "C_1", a: 1, p: pi(99)}}, event{sc, attempt{kind: "IX", name: "C_1", a: 2, p: pi(2)}},
				event{sc, attempt{kind: "IX", name: "C_1", a: 40, p: pi(1)}}, event{sc, attempt{kind: "DE", name: "C_1", a: 2}},
				event{sc, attempt{kind: "DE", name: "C_1", a: 77}}, event{sc, as("C_1", cp(v))}, event{sc, attempt{kind: "RD", name: "C_1"}})
		}
	}
	return names, seqs
}

var constNames = []string{"A", "KB", "K_1", "X9", "PJ"}
var varNames = []string{"x", "kA", "Ab"}

func randPval(c *Ctx, depth int) pval {
	switch k := c.R.Intn(10); {
	case k < 4 || depth <= 0:
		return pi(int64(c.R.Intn(20)))
	case k < 5:
		return pval{kind: 'n'}
	case k < 8:
		sizes := []int{0, 1, 3, 8, 9, 12}
		n := sizes[c.R.Intn(len(sizes))]
		p := pval{kind: 'a'}
		for i := 0; i < n; i++ {
			p.els = append(p.els, randPval(c, depth-1))
		}
		return p
	default:
		sizes := []int{0, 1, 4, 5, 7}
		n := sizes[c.R.Intn(len(sizes))]
		p := pval{kind: 'm'}
		for i := 0; i < n; i++ {
			p.keys = append(p.keys, int64(i*2+1))
			p.els = append(p.els, randPval(c, depth-1))
		}
		return p
	}
}

func randCval(c *Ctx) cval {
	switch k := c.R.Intn(10); {
	case k < 6:
		return cp(randPval(c, 2))
	case k < 7:
		return cs([]string{"", "a", "hello", "K"}[c.R.Intn(4)])
	case k < 8:
		return cb(c.R.Bool())
	default:
		return cf(int64(c.R.Intn(40) + 1))
	}
}

func c19Random(c *Ctx, nEvents int) {
	// which names take part
	names := []string{constNames[c.R.Intn(len(constNames))], constNames[c.R.Intn(len(constNames))], varNames[c.R.Intn(len(varNames))]}
	if names[0] == names[1] {
		names = names[1:]
	}
	cur := map[string]cval{} // what the generator believes each name holds (only to aim attempts; may be stale)
	has := map[string]bool{}
	var evs []event
	scopes := []byte{'T', 'T', 'T', 'F', 'F', 'G', 'L'}
	for len(evs) < nEvents {
		n := names[c.R.Intn(len(names))]
		sc := scopes[c.R.Intn(len(scopes))]
		if !has[n] && c.R.Pct(80) {
			v := randCval(c)
			evs = append(evs, T(as(n, v)))
			cur[n], has[n] = v, true
			continue
		}
		v := cur[n]
		var a attempt
		switch k := c.R.Intn(100); {
		case k < 18:
			nv := randCval(c)
			if c.R.Pct(35) {
				nv = v
			}
			a = attempt{kind: "AS", name: n, v: nv, flag: c.R.Pct(30)}
			if !object.Constant(n) {
				cur[n] = nv
			}
		case k < 28:
			d := int64(1)
			if c.R.Bool() {
				d = -1
			}
			a = attempt{kind: "IN", name: n, a: d, flag: c.R.Bool()}
		case k < 46:
			idx := int64(c.R.Intn(14))
			if v.kind == 'p' && v.p.kind == 'a' && len(v.p.els) > 0 && c.R.Pct(70) {
				idx = int64(c.R.Intn(len(v.p.els)))
				if c.R.Pct(20) {
					idx -= int64(len(v.p.els))
				}
			}
			nv := randPval(c, 1)
			if v.kind == 'p' && (v.p.kind == 'a' || v.p.kind == 'm') && c.R.Pct(25) { // the element it already holds
				for i := range v.p.els {
					if (v.p.kind == 'a' && int64(i) == idx) || (v.p.kind == 'm' && v.p.keys[i] == idx) {
						nv = v.p.els[i]
					}
				}
			}
			a = attempt{kind: "IX", name: n, a: idx, p: nv}
		case k < 58:
			a = attempt{kind: "DE", name: n, a: int64(c.R.Intn(14))}
		case k < 63:
			a = attempt{kind: "DL", name: n}
			has[n] = false
		case k < 72:
			lo := int64(c.R.Intn(4))
			a = attempt{kind: "FI", name: n, a: lo, b: lo + int64(c.R.Intn(4)) - 1 + int64(c.R.Intn(2))}
		case k < 80:
			l := []pval{}
			for i := c.R.Intn(4); i > 0; i-- {
				l = append(l, randPval(c, 1))
			}
			if v.kind == 'p' && c.R.Pct(30) {
				l = append(l, v.p)
			}
			a = attempt{kind: "FL", name: n, l: l}
		case k < 92:
			nv := randCval(c)
			if c.R.Pct(35) {
				nv = v
			}
			if c.R.Pct(40) {
				nv = ci(int64(c.R.Intn(20)))
			}
			a = attempt{kind: "CL", name: n, v: nv}
		default:
			a = attempt{kind: "RD", name: n}
		}
		evs = append(evs, event{sc, a})
	}
	c19Seq(c, names, evs)
}

func runC19(c *Ctx) {
	log.SetLogLevelQuiet(log.Critical)
	_ = extensions.Init(nil) // defines the identifier nil (and PI, E: not used as names here)
	c.Rule = "sequences of mutation attempts (= := ++ -- index assignment, del of an element, loop variable over a range and over a list, " +
		"parameter name, explicit del) at top level, inside a function, two functions deep and inside a loop, on constants holding int, float, " +
		"string, bool, nil, arrays (0..12 elements) and maps (0..7 pairs), each run with registers on and off. " +
		"non-trivial = distinct sequences with at least one non-read attempt on a constant-named identifier after its binding"
	if c.ReplayCase != "" {
		f := strings.Fields(c.ReplayCase)
		if len(f) == 5 && f[0] == "CST" {
			var evs []event
			for _, e := range strings.Split(f[4], ";") {
				evs = append(evs, decEvent(e))
			}
			c19Seq(c, strings.Split(f[3], ","), evs)
		} else {
			fmt.Println("bad replay case")
		}
		return
	}
	ns, seqs := corpus()
	for i := range seqs {
		c19Seq(c, ns[i], seqs[i])
	}
	n, ne := 5000, 12
	if c.Thorough() {
		n, ne = 150000, 16
	}
	for i := 0; i < n; i++ {
		c19Random(c, 4+c.R.Intn(ne-3))
	}
}
