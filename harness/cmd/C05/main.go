package main

// C05: integer registers are unobservable.
//
// Direct oracle (model-free): every generated session is run twice on the implementation, with
// State.NoReg=false and State.NoReg=true; per input the printed output (which includes the
// result, ShowEval) and the error / panic flags must be identical.
//
// Correspondence with the extracted Coq model (ocaml/drv_C05.ml):
//   SESS   control skeleton sessions: outcome class, numReg of the root environment, control
//          flags after every input and the vprobe() trace (numReg of the current environment,
//          output redirected?) against model/Registers.v + Session.v;
//   MODREG eval.ModifyRegister through ast.Modify on the parsed bodies of the generated loops and
//          functions against model/Modify.v + Registers.v (tree, ok flag, Count).

import (
	"fmt"
	"os"
	"strings"
	"time"

	"grol.io/grol/ast"
	"grol.io/grol/eval"
	"grol.io/grol/extensions"
	"grol.io/grol/lexer"
	"grol.io/grol/object"
	"grol.io/grol/parser"
	"verifharness/common"
	. "verifharness/common"
)

func main() { common.Main("C05", runC05) }

const maxDepthC05 = 3000

// ------------------------------------------------------------------ control-skeleton programs

type stmt interface{}

type sLeaf struct {
	k   byte   // n value statement, e error, p panic, d depth overflow, r return, b break, c continue
	src string // for 'n'
}
type sProbe struct{}
type sLoop struct {
	v       string // loop variable ("" = `for N {..}`)
	form    int    // 0: for v=0:n   1: for v=n   (named only)
	n       int
	body    []stmt
	exitAt  int  // iteration at which the exit statement fires, -1 none
	exitPos int  // position in body of `if v==exitAt {exit}`
	exit    byte // b c r e p d
	unrw    byte // 0 rewritable; 'l' lambda in body; '+' v++ in body; '-' --v in body
}
type sCatch struct{ inner stmt } // catch(<loop or call>): an error result becomes a value
type sCall struct {
	f    *fdef
	args []string
	nint int
}
type fdef struct {
	name   string
	params []string
	body   []stmt
}

type skgen struct {
	r      *Rng
	nfn    *int
	defs   []*fdef // functions defined by the current input, in definition order
	budget int
}

func isConstName(s string) bool { return object.Constant(s) }

// static signal of a statement list, mirrors pure_signal of the model: n b c r e p
func sigStmts(l []stmt, inLoopIter int, loopVar string) byte {
	for _, s := range l {
		if g := sigStmt(s); g != 'n' {
			return g
		}
	}
	return 'n'
}

func sigStmt(s stmt) byte {
	switch x := s.(type) {
	case sLeaf:
		if x.k == 'd' {
			return 'p'
		}
		return x.k
	case sProbe:
		return 'n'
	case *sLoop:
		for i := 0; i < x.n; i++ {
			g := sigIter(x, i)
			switch g {
			case 'n', 'c':
				continue
			case 'b':
				return 'n'
			default:
				return g
			}
		}
		return 'n'
	case *sCatch:
		if g := sigStmt(x.inner); g != 'e' {
			return g
		}
		return 'n'
	case *sCall:
		g := sigStmts(x.f.body, 0, "")
		switch g {
		case 'r':
			return 'n'
		case 'b', 'c':
			return 'e'
		}
		return g
	}
	panic("sigStmt")
}

// the statements iteration i of loop x executes (exit statement included when it fires)
func iterStmts(x *sLoop, i int) []stmt {
	var out []stmt
	for idx, s := range x.body {
		if x.exitAt >= 0 && idx == x.exitPos && (i == x.exitAt || x.v == "") {
			out = append(out, sLeaf{k: x.exit})
			return out
		}
		out = append(out, s)
	}
	if x.exitAt >= 0 && x.exitPos >= len(x.body) && (i == x.exitAt || x.v == "") {
		out = append(out, sLeaf{k: x.exit})
	}
	return out
}

func sigIter(x *sLoop, i int) byte { return sigStmts(iterStmts(x, i), i, x.v) }

// skeleton text (format of ocaml/skelio.ml)
func skelStmts(l []stmt) string {
	var parts []string
	for _, s := range l {
		p := skelStmt(s)
		if p != "" {
			parts = append(parts, p)
		}
		if sigStmt(s) != 'n' {
			break
		}
	}
	return "(S" + pre(parts) + ")"
}

func pre(parts []string) string {
	if len(parts) == 0 {
		return ""
	}
	return " " + strings.Join(parts, " ")
}

func skelStmt(s stmt) string {
	switch x := s.(type) {
	case sLeaf:
		switch x.k {
		case 'n':
			return "" // a value statement: no control effect
		case 'd':
			return "(C 1 d)" // deep(0): calls binding one integer until the depth guard panics
		}
		return string(x.k)
	case sProbe:
		return "P"
	case *sLoop:
		var its []string
		for i := 0; i < x.n; i++ {
			its = append(its, skelStmts(iterStmts(x, i)))
			g := sigIter(x, i)
			if g != 'n' && g != 'c' {
				break
			}
		}
		named := x.v != "" && !isConstName(x.v)
		return fmt.Sprintf("(L %s%s%s)", b01(named), b01(x.unrw == 0), pre(its))
	case *sCatch:
		return "(K " + skelStmt(x.inner) + ")"
	case *sCall:
		return fmt.Sprintf("(C %d %s)", x.nint, skelStmts(x.f.body))
	}
	panic("skelStmt")
}

func b01(b bool) string {
	if b {
		return "1"
	}
	return "0"
}

func exitSrc(k byte, v string) string {
	switch k {
	case 'b':
		return "break"
	case 'c':
		return "continue"
	case 'r':
		if v != "" {
			return "return " + v
		}
		return "return 7"
	case 'e':
		return `error("boom")`
	case 'p':
		return "vpanic()"
	case 'd':
		return "deep(0)"
	}
	panic("exitSrc")
}

func srcStmts(l []stmt) string {
	var parts []string
	for _, s := range l {
		parts = append(parts, srcStmt(s))
	}
	return strings.Join(parts, "; ")
}

func srcStmt(s stmt) string {
	switch x := s.(type) {
	case sLeaf:
		if x.k == 'n' {
			return x.src
		}
		return exitSrc(x.k, "")
	case sProbe:
		return "vprobe()"
	case *sLoop:
		return srcLoopHead(x) + " {" + srcLoopBody(x) + "}"
	case *sCatch:
		return "catch(" + srcStmt(x.inner) + ")"
	case *sCall:
		return x.f.name + "(" + strings.Join(x.args, ",") + ")"
	}
	panic("srcStmt")
}

func srcLoopHead(x *sLoop) string {
	switch {
	case x.v == "":
		return fmt.Sprintf("for %d", x.n)
	case x.form == 1:
		return fmt.Sprintf("for %s=%d", x.v, x.n)
	default:
		return fmt.Sprintf("for %s=0:%d", x.v, x.n)
	}
}

func srcLoopBody(x *sLoop) string {
	var parts []string
	ex := ""
	if x.exitAt >= 0 {
		if x.v == "" {
			ex = exitSrc(x.exit, "")
		} else {
			ex = fmt.Sprintf("if %s==%d {%s}", x.v, x.exitAt, exitSrc(x.exit, x.v))
		}
	}
	for idx, s := range x.body {
		if ex != "" && idx == x.exitPos {
			parts = append(parts, ex)
		}
		parts = append(parts, srcStmt(s))
	}
	if ex != "" && x.exitPos >= len(x.body) {
		parts = append(parts, ex)
	}
	// statements that make the body non rewritable for the loop variable go last
	switch x.unrw {
	case 'l':
		parts = append(parts, "zz=func(){1}")
	case '+':
		parts = append(parts, x.v+"++")
	case '-':
		parts = append(parts, "--"+x.v)
	}
	return strings.Join(parts, "; ")
}

func srcDef(f *fdef) string {
	return "func " + f.name + "(" + strings.Join(f.params, ",") + "){" + srcStmts(f.body) + "}"
}

var argPool = []struct {
	src   string
	isInt bool
}{
	{"1", true}, {"7", true}, {"-3", true}, {"40+2", true}, {`"s"`, false}, {"1.5", false}, {"true", false},
	{"[1,2]", false}, {"0", true}, {"[]", false}, {`{"k":1}`, false},
}

// genStmts generates a statement list at loop nesting depth d (names v<d>), call nesting cd.
func (g *skgen) genStmts(d, cd int, inFunc bool, vars []string, maxLen int) []stmt {
	n := 1 + g.r.Intn(maxLen)
	var out []stmt
	for i := 0; i < n; i++ {
		g.budget--
		switch k := g.r.Intn(100); {
		case k < 22 || g.budget <= 0:
			out = append(out, sProbe{})
		case k < 36:
			out = append(out, g.valueStmt(vars))
		case k < 64 && d < 10:
			out = append(out, g.genLoop(d, cd, inFunc, vars))
		case k < 72 && d < 10:
			// the loop (or call) under catch(): an error inside it is swallowed and evaluation goes on
			var inner stmt
			if g.r.Pct(75) || cd >= 3 {
				inner = g.genLoop(d, cd, inFunc, vars)
			} else {
				inner = g.genCall(cd, vars)
			}
			if sg := sigStmt(inner); sg == 'n' || sg == 'e' || sg == 'p' {
				inner = &sCatch{inner: inner}
			}
			out = append(out, inner)
		case k < 84 && cd < 3:
			out = append(out, g.genCall(cd, vars))
		case k < 88:
			out = append(out, sLeaf{k: 'e'})
		case k < 91:
			out = append(out, sLeaf{k: 'p'})
		case k < 93:
			out = append(out, sLeaf{k: 'd'})
		case k < 96:
			out = append(out, sLeaf{k: 'r'})
		case k < 98:
			out = append(out, sLeaf{k: 'b'}) // outside a loop: "unexpected control type"; inside: leaves it
		default:
			out = append(out, sProbe{})
		}
	}
	return out
}

func (g *skgen) valueStmt(vars []string) stmt {
	if len(vars) > 0 && g.r.Bool() {
		v := vars[g.r.Intn(len(vars))]
		switch g.r.Intn(3) {
		case 0:
			return sLeaf{k: 'n', src: "println(" + v + ")"}
		case 1:
			return sLeaf{k: 'n', src: "acc=" + v + "*2+1"}
		default:
			return sLeaf{k: 'n', src: "print(" + v + "+1,\"\")"}
		}
	}
	return sLeaf{k: 'n', src: fmt.Sprintf("println(%d)", g.r.Intn(50))}
}

func (g *skgen) genLoop(d, cd int, inFunc bool, vars []string) stmt {
	x := &sLoop{exitAt: -1}
	x.n = g.r.Intn(4)
	if g.budget < 10 && x.n > 1 {
		x.n = 1
	}
	prefix := "v"
	if inFunc {
		prefix = "w"
	}
	switch k := g.r.Intn(100); {
	case k < 12:
		x.v = ""
	default:
		x.v = fmt.Sprintf("%s%d", prefix, d)
	}
	if x.v != "" && g.r.Pct(25) {
		x.form = 1
	}
	nv := vars
	if x.v != "" && !isConstName(x.v) {
		nv = append(append([]string{}, vars...), x.v)
	}
	ml := 3
	if d >= 4 {
		ml = 2
	}
	x.body = g.genStmts(d+1, cd, inFunc, nv, ml)
	if x.n > 0 && g.r.Pct(55) {
		x.exit = "bbccrreeepd"[g.r.Intn(11)]
		x.exitAt = g.r.Intn(x.n)
		x.exitPos = g.r.Intn(len(x.body) + 1)
	}
	if x.v != "" && !isConstName(x.v) && g.r.Pct(18) {
		x.unrw = "l+-"[g.r.Intn(3)]
	}
	return x
}

func (g *skgen) genCall(cd int, vars []string) stmt {
	var f *fdef
	if len(g.defs) > 0 && g.r.Pct(35) {
		f = g.defs[g.r.Intn(len(g.defs))]
	} else {
		*g.nfn++
		f = &fdef{name: fmt.Sprintf("g%d", *g.nfn)}
		np := g.r.Intn(13)
		for i := 0; i < np; i++ {
			if g.r.Pct(6) {
				f.params = append(f.params, fmt.Sprintf("QP%d", i))
			} else {
				f.params = append(f.params, fmt.Sprintf("p%d", i))
			}
		}
		f.body = g.genStmts(0, cd+1, true, nil, 3)
		g.defs = append(g.defs, f)
	}
	c := &sCall{f: f}
	for _, p := range f.params {
		a := argPool[g.r.Intn(len(argPool))]
		if g.r.Pct(40) {
			a = argPool[g.r.Intn(4)] // integers more often
		}
		if len(vars) > 0 && g.r.Pct(20) {
			a.src, a.isInt = vars[g.r.Intn(len(vars))]+"+1", true
		}
		c.args = append(c.args, a.src)
		if a.isInt && !isConstName(p) {
			c.nint++
		}
	}
	return c
}

// one input: definitions of the functions it introduces, then its statements
type skInput struct {
	src  string
	skel string
	sig  byte
	defs []*fdef
	top  []stmt
}

func genSkInput(r *Rng, nfn *int, known []*fdef, budget int) (skInput, []*fdef) {
	g := &skgen{r: r, nfn: nfn, defs: append([]*fdef{}, known...), budget: budget}
	top := g.genStmts(0, 0, false, nil, 3)
	var parts []string
	newDefs := g.defs[len(known):]
	for _, f := range newDefs {
		parts = append(parts, srcDef(f))
	}
	parts = append(parts, srcStmts(top))
	return skInput{src: strings.Join(parts, "; "), skel: skelStmts(top), sig: sigStmts(top, 0, ""), defs: newDefs, top: top}, g.defs
}

// ------------------------------------------------------------------ running sessions

const prelude = `func deep(n){deep(n+1)}; acc=0; zz=0; mset = macro(nm, val){quote(unquote(nm) = unquote(val))}; func two(a,b){a*100+b}; idl2 = (a,b) => a*100+b; func each(t,f){ r:=[]; for i=len(t){ r = r+[[f(t[i]),i]] }; r }; func times(n,f){ t=0; for k=n { t = t + f(k)*10 + k }; t }; func va(n){s=0; for i=n {s = s + vb(i)*7 + i}; s}; func vb(n){if n<=0 {return 1}; va(n-1)+n}; func id1(x){x}; idl = x => x; func dec1(x){x-1}; mobj = {"f": x => x*2, "g": (a,b) => a*100-b}`

// number of on/off differences outside the known constructs seen so far: after a few dozen the
// exploration stops early (the violation is established; under a broken tree each one may cost a deadline)
var nUnexpected int

func enough() bool { return nUnexpected >= 40 }

// >0: State.MaxDepth for the inputs of runBoth (the prelude always runs under the default)
var depthLimit int

type sessionResult struct {
	on, off []SessObs
}

// runBoth runs the inputs on two fresh states (registers on / off) and applies the direct oracle.
// gap: expected known-finding construct for input index gapAt ("" none).
func runBoth(c *Ctx, inputs []string, gap string, gapAt int) sessionResult {
	var res sessionResult
	for mode := 0; mode < 2; mode++ {
		x := NewSess(mode == 1, maxDepthC05)
		x.Opts.MaxDuration = 3 * time.Second // generated programs end in milliseconds; a hang is reported as an error outcome
		x.Run(prelude, 0)
		if depthLimit > 0 {
			x.S.MaxDepth = depthLimit // the inputs run under a small recursion limit (depth-limit dimension)
		}
		for _, in := range inputs {
			o := x.Run(in, 0)
			c.Eval()
			if mode == 0 {
				res.on = append(res.on, o)
			} else {
				res.off = append(res.off, o)
			}
		}
	}
	for i := range inputs {
		a, b := res.on[i], res.off[i]
		if a.Class() == b.Class() && a.Out == b.Out {
			continue
		}
		construct := "unexpected"
		if gap != "" && i == gapAt {
			construct = gap
		} else {
			nUnexpected++
			if depthLimit > 0 {
				construct = "unexpected-under-depth-limit"
			}
		}
		var sig string
		if a.Class() != b.Class() {
			sig = fmt.Sprintf("reg-%s:on=%s,off=%s", construct, clsName(a.Class()), clsName(b.Class()))
		} else {
			sig = fmt.Sprintf("reg-%s:on=%s,off=%s:output-differs", construct, clsName(a.Class()), clsName(b.Class()))
		}
		c.Fail(sig, encodeCase(inputs), fmt.Sprintf("input %d %q: registers on -> out=%q errs=%q panicked=%v ; off -> out=%q errs=%q panicked=%v",
			i, inputs[i], a.Out, a.Errs, a.Panicked, b.Out, b.Errs, b.Panicked))
		break // later inputs of the same session may differ as a consequence
	}
	return res
}

func clsName(k string) string {
	switch k {
	case "v":
		return "value"
	case "e":
		return "error"
	}
	return "panic"
}

func encodeCase(inputs []string) string {
	var hs []string
	for _, in := range inputs {
		hs = append(hs, Hx([]byte(in)))
	}
	if depthLimit > 0 {
		return fmt.Sprintf("SRC@%d %s", depthLimit, strings.Join(hs, ","))
	}
	return "SRC " + strings.Join(hs, ",")
}

func decodeCase(cs string) []string {
	f := strings.Fields(cs)
	if len(f) != 2 || !strings.HasPrefix(f[0], "SRC") {
		return nil
	}
	depthLimit = 0
	if _, d, ok := strings.Cut(f[0], "@"); ok {
		fmt.Sscan(d, &depthLimit)
	}
	var out []string
	for _, h := range strings.Split(f[1], ",") {
		out = append(out, string(Unhx(h)))
	}
	return out
}

func modelLine(obs []SessObs) string {
	var parts []string
	for _, o := range obs {
		parts = append(parts, o.ModelField())
	}
	return strings.Join(parts, " ")
}

// a skeleton session: both modes, direct oracle, and one SESS correspondence case per mode
func skeletonSession(c *Ctx, ins []skInput) {
	var srcs, skels []string
	for _, in := range ins {
		srcs = append(srcs, in.src)
		skels = append(skels, in.skel)
	}
	res := runBoth(c, srcs, "", -1)
	sk := strings.Join(skels, "|")
	id := c.Case("SESS 1 "+sk, modelLine(res.on))
	c.Case("SESS 0 "+sk, modelLine(res.off))
	if dbg != nil {
		fmt.Fprintf(dbg, "%s %s\n", id, encodeCase(srcs))
	}
	used := false
	for _, o := range res.on {
		if strings.ContainsAny(o.Probes, "123456789") {
			used = true
		}
		c.Count("outcome=" + o.Class())
	}
	if used {
		c.NonTrivial(sk)
	}
	c.Count(fmt.Sprintf("session-len<=%d", bucket(len(ins))))
}

func bucket(n int) int {
	for _, b := range []int{1, 4, 16, 64, 256, 1024} {
		if n <= b {
			return b
		}
	}
	return 1 << 20
}

// ------------------------------------------------------------------ MODREG cases

func parseBody(src string) *ast.Statements {
	p := parser.New(lexer.New(src))
	prog := p.ParseProgram()
	if len(p.Errors()) > 0 {
		return nil
	}
	return prog
}

// modreg applies the real rewrite to tree for the name and registers the correspondence case;
// returns the rewritten tree (nil when the rewrite gave up or panicked).
func modreg(c *Ctx, name string, tree ast.Node) ast.Node {
	env := object.NewRootEnvironment()
	register := env.MakeRegister(name, 0)
	var out ast.Node
	var ok bool
	panicked := false
	func() {
		defer func() {
			if r := recover(); r != nil {
				panicked = true
			}
		}()
		out, ok = ast.Modify(tree, func(in ast.Node) (ast.Node, bool) {
			return eval.ModifyRegister(&register, in)
		})
	}()
	line := "MODREG " + Hx([]byte(name)) + " " + DumpAST(tree)
	switch {
	case panicked:
		c.Case(line, "panic")
		c.Count("modreg=panic")
		return nil
	case !ok:
		c.Case(line, "ok=0")
		c.Count("modreg=bail")
		return nil
	default:
		c.Case(line, fmt.Sprintf("ok=1 cnt=%d %s", register.Count, DumpAST(out)))
		c.Count("modreg=ok")
		if register.Count > 0 {
			c.NonTrivial("modreg|" + name + "|" + DumpAST(tree))
		}
		return out
	}
}

func modregStmts(c *Ctx, l []stmt) {
	for _, s := range l {
		switch x := s.(type) {
		case *sLoop:
			if x.v != "" {
				if b := parseBody(srcLoopBody(x)); b != nil {
					modreg(c, x.v, b)
				}
			}
			modregStmts(c, x.body)
		case *sCatch:
			modregStmts(c, []stmt{x.inner})
		}
	}
}

func modregDef(c *Ctx, f *fdef) {
	b := parseBody(srcStmts(f.body))
	if b == nil {
		return
	}
	var tree ast.Node = b
	// extendFunctionEnv rewrites the body once per integer parameter, each time on the previous result
	for i, p := range f.params {
		if i >= 3 {
			break
		}
		if nt := modreg(c, p, tree); nt != nil {
			tree = nt
		}
	}
	modregStmts(c, f.body)
}

var modregCorpus = []struct{ name, body string }{
	{"n", "n = n + 1; m.n; n(n); {n:1, n:2}"},
	{"n", "n++"}, {"n", "m++; n"}, {"n", "--n"}, {"n", "++n; n"}, {"n", "--m; -n; !n"},
	{"n", "f = func(a){a+n}"}, {"n", "f = () => 1"}, {"n", "g = func(n){n}; g(n)"},
	{"n", "(func(x){x+n})(n)"}, {"n", "if n > 1 {n} else {n-1}"}, {"n", "for n=0:3 {n}"},
	{"n", "for i=0:n {i+n}"}, {"n", "return n"}, {"n", "return"}, {"n", "[n, [n, 2], n]"},
	{"n", "x[n]; x[n:]; x[1:n]; n[0]"}, {"n", `{"a":n, n:n, 1:{n:2}}`}, {"n", "println(n, len(n))"},
	{"n", "del(n)"}, {"n", "del(m)"}, {"n", "del(m.n)"}, {"n", "quote(m)"}, {"n", "quote(n+1); n"}, {"n", "catch(n)"}, {"n", "// c\nn /* b */"}, {"n", "n := 3; n = n * n"}, {"n", "m.n = n"},
	{"n", "for true {break; continue; n}"}, {"n", `"n"; 1.5; true; nil`}, {"n", "a => n"},
	{"n", "mm = macro(n){quote(unquote(n))}"}, {"n", "mm = macro(a){quote(unquote(a) + n)}"},
	{"n", "n.n(n)"}, {"nn", "n; nn; nnn"}, {"n", ""}, {"n", "func named(n){n}"}, {"n", "--n; n++"},
}

// ------------------------------------------------------------------ value programs (direct oracle only)

type vgen struct {
	r    *Rng
	nfn  *int
	defs []vdef
}
type vdef struct {
	name  string
	kinds []byte // i s f b a
}

func (g *vgen) intExpr(vars []string, d int) string {
	if d <= 0 || len(vars) == 0 || g.r.Pct(30) {
		if len(vars) > 0 && g.r.Pct(65) {
			return vars[g.r.Intn(len(vars))]
		}
		return fmt.Sprint(g.r.Intn(24) - 3)
	}
	a, b := g.intExpr(vars, d-1), g.intExpr(vars, d-1)
	switch g.r.Intn(6) {
	case 0:
		return "(" + a + "+" + b + ")"
	case 1:
		return "(" + a + "-" + b + ")"
	case 2:
		return "(" + a + "*" + b + ")"
	case 3:
		return "(" + a + "%7)"
	case 4:
		return "(-" + a + ")"
	default:
		return "(" + a + "+" + b + "*2)"
	}
}

// an infix expression whose LEFT operand is the variable v and whose RIGHT operand is a call (named function,
// lambda variable, builtin, method style, nested) with an argument that assigns / increments v: the left
// operand must keep the value it had (the call's arguments are evaluated in the caller's frame)
func (g *vgen) leftThenAssign(v string, vars []string) string {
	var arg string
	switch g.r.Intn(8) {
	case 5:
		arg = v + " := " + g.intExpr(vars, 1)
	case 6:
		arg = v + " := " + v + " + " + fmt.Sprint(1+g.r.Intn(12))
	case 7:
		// the store is the right operand itself, not a call argument: in parentheses, under a further infix, in an index
		st := "(" + v + []string{" := ", " = "}[g.r.Intn(2)] + g.intExpr(vars, 1) + ")"
		wrap := []string{st, "(1 + " + st + ")", "(" + g.intExpr(vars, 1) + " - (2 * " + st + "))", "[0, " + st + "][1]", "[5, 6, 7][" + st + " * 0 + 1]"}[g.r.Intn(5)]
		return v + " " + []string{"+", "-", "*", "==", "<"}[g.r.Intn(5)] + " " + wrap
	case 0:
		arg = v + " = " + g.intExpr(vars, 1)
	case 1:
		arg = v + " = " + v + " + " + fmt.Sprint(1+g.r.Intn(12))
	case 2:
		arg = v + "++"
	case 3:
		arg = "--" + v
	default:
		arg = v + " = " + v + " * 2 - 1"
	}
	var call string
	switch g.r.Intn(8) {
	case 0:
		call = "id1(" + arg + ")"
	case 1:
		call = "idl(" + arg + ")"
	case 2:
		call = "dec1(" + arg + ")"
	case 3:
		call = "len([" + arg + ", 0])"
	case 4:
		call = "first([" + arg + "])"
	case 5:
		call = "mobj.f(" + arg + ")"
	case 6:
		call = "id1(idl(" + arg + "))"
	default:
		call = "(1 + dec1(id1(" + arg + ")))"
	}
	ops := []string{"+", "-", "*", "%", "==", "<", ">=", "!="}
	op := ops[g.r.Intn(len(ops))]
	if op == "%" {
		call = "(7 + " + call + "*0)" // keep the modulus non zero; the argument is still evaluated
	}
	return v + " " + op + " " + call
}

// a call (of every callee kind) with an earlier argument that is the bare variable v and a later argument that
// assigns v: each argument is the value v had when it was evaluated
func (g *vgen) argsThenAssign(v string) string {
	k := g.r.Intn(9)
	asg := "(" + v + []string{" = ", " := "}[g.r.Intn(2)] + fmt.Sprint(k) + ")"
	forms := []string{
		"two(%s, %s)", "idl2(%s, %s)", "mobj.g(%s, %s)", // grol function, lambda variable, method style
		"pow(%s, %s)", "atan2(%s, %s)", "max(%s, %s)", "min(%s, %s)", // extensions: typed and variadic ANY
		`sprintf("%%d-%%d", %s, %s)`, `sprintf("%%v|%%v", [%s], %s)`,
		"[%s, %s]", `{"a": %s, "b": %s}`, // literals
	}
	f := forms[g.r.Intn(len(forms))]
	switch g.r.Intn(4) {
	case 0: // three arguments, the assignment in the middle
		switch g.r.Intn(3) {
		case 0:
			return fmt.Sprintf("max(%s, %s, %s)", v, asg, v)
		case 1:
			return fmt.Sprintf(`sprintf("%%d %%d %%d", %s, %s, %s)`, v, asg, v)
		default:
			return fmt.Sprintf("[%s, %s, %s]", v, asg, v)
		}
	case 1: // builtin keyword with several parameters: evaluated for its output
		return fmt.Sprintf("len([print(%s, \"\", %s)])", v, asg)
	}
	return fmt.Sprintf(f, v, asg)
}

func (g *vgen) cond(vars []string) string {
	ops := []string{"<", ">", "==", "!=", "<=", ">="}
	return g.intExpr(vars, 1) + ops[g.r.Intn(len(ops))] + g.intExpr(vars, 1)
}

// statements of a function body; ints = assignable integer names (params, locals), loops = loop vars in scope
func (g *vgen) stmts(fn string, ints, loops []string, strs []string, d, n int, inLoop bool) []string {
	var out []string
	all := append(append([]string{}, ints...), loops...)
	for i := 0; i < n; i++ {
		switch k := g.r.Intn(100); {
		case k < 18 && len(ints) > 0:
			out = append(out, ints[g.r.Intn(len(ints))]+"="+g.intExpr(all, 2))
		case k < 30 && len(ints) > 0:
			v := ints[g.r.Intn(len(ints))]
			out = append(out, []string{v + "++", v + "--", "++" + v, "--" + v}[g.r.Intn(4)])
		case k < 48 && d < 4:
			lv := fmt.Sprintf("%sv%d", fn, d)
			lo, hi := g.r.Intn(3), g.r.Intn(5)
			head := fmt.Sprintf("for %s=%d:%d", lv, lo, lo+hi)
			if g.r.Pct(20) {
				head = fmt.Sprintf("for %s=%s", lv, g.intExprSmall(all))
			}
			body := g.stmts(fn, ints, append(append([]string{}, loops...), lv), strs, d+1, 1+g.r.Intn(3), true)
			if g.r.Pct(50) {
				ex := []string{"break", "continue", "return " + g.intExpr(append(all, lv), 1), `error("e")`}[g.r.Intn(4)]
				pos := g.r.Intn(len(body) + 1)
				body = append(body[:pos], append([]string{fmt.Sprintf("if %s==%d {%s}", lv, lo+g.r.Intn(hi+1), ex)}, body[pos:]...)...)
			}
			out = append(out, head+" {"+strings.Join(body, "; ")+"}")
		case k < 51 && len(loops) > 0:
			// the loop variable itself is assigned (an integer): the next iteration starts from the counter again
			lv := loops[g.r.Intn(len(loops))]
			out = append(out, lv+"="+g.intExpr(all, 1))
		case k < 54 && d < 4 && len(ints) > 0:
			// an error inside a counted loop swallowed by catch(): evaluation goes on in the same environment
			lv := fmt.Sprintf("%sk%d", fn, d)
			out = append(out, fmt.Sprintf(`%s=len(catch(for %s=%d {if %s==%d {error("sw")}; %s}))`, ints[g.r.Intn(len(ints))], lv, 1+g.r.Intn(3), lv, g.r.Intn(3), g.intExpr(append(all, lv), 1)))
		case k < 56:
			a := g.stmts(fn, ints, loops, strs, d, 1, inLoop)
			b := g.stmts(fn, ints, loops, strs, d, 1, inLoop)
			out = append(out, "if "+g.cond(all)+" {"+strings.Join(a, "; ")+"} else {"+strings.Join(b, "; ")+"}")
		case k < 57 && len(all) > 0:
			// the name held in a register is RE-BOUND other than by = / := / ++: an inner named function of that name
			// (whose body does not mention it), an inner lambda parameter of that name, a macro-produced assignment,
			// del(name), an assignment under catch(); and it is read where a stale live register would show: as the left
			// bound of a range whose right bound assigns it, as the value of a list / condition loop that changes it later
			v := all[g.r.Intn(len(all))]
			switch g.r.Intn(8) {
			case 0:
				out = append(out, fmt.Sprintf("func %s(){%d}; println(%s)", v, g.r.Intn(9), v))
			case 1:
				out = append(out, fmt.Sprintf("%slz = func(%s){%s*2}; println(%slz(%d), %s)", fn, v, v, fn, g.r.Intn(9), v))
			case 2:
				out = append(out, fmt.Sprintf("mset(%s, %s); println(%s)", v, g.intExpr(all, 1), v))
			case 3:
				out = append(out, fmt.Sprintf("println(del(%s)); println(catch(%s))", v, v))
			case 4:
				out = append(out, fmt.Sprintf("println(catch(%s = %s), %s)", v, g.intExpr(all, 1), v))
			case 5:
				out = append(out, fmt.Sprintf("println([10,11,12,13,14,15,16,17,18][%s %% 3:(%s = %d)], %s)", v, v, 4+g.r.Intn(4), v))
			case 6:
				out = append(out, fmt.Sprintf("println(for %sq=[1,2,3] {if %sq==3 {%s=%d; break}; %s})", fn, fn, v, 100+g.r.Intn(9), v))
			default:
				out = append(out, fmt.Sprintf("%sw=0; println(for %sw<3 {%sw=%sw+1; if %sw==3 {%s=%d; continue}; %s})", fn, fn, fn, fn, fn, v, 200+g.r.Intn(9), v))
			}
		case k < 59 && len(all) > 0:
			// a bare register (parameter / loop variable) as KEY of a large (6 entries) and a small (2 entries) map:
			// lookup, store, delete, key of a map literal, membership through keys; and as array element in comparisons
			v := all[g.r.Intn(len(all))]
			big, small := fn+"mb", fn+"ms"
			switch g.r.Intn(9) {
			case 0:
				out = append(out, fmt.Sprintf("println(%s[%s], %s[%s])", big, v, small, v))
			case 1:
				out = append(out, fmt.Sprintf("%s[%s]=%s; println(%s)", big, v, g.intExpr(all, 1), big))
			case 2:
				out = append(out, fmt.Sprintf("%s[%s]=%s; println(%s)", small, v, g.intExpr(all, 1), small))
			case 3:
				out = append(out, fmt.Sprintf("println(del(%s[%s]), %s)", big, v, big))
			case 4:
				out = append(out, fmt.Sprintf("println(del(%s[%s]), %s)", small, v, small))
			case 5:
				out = append(out, fmt.Sprintf(`println({%s:1, "q":%s}, {%s:1,10:2,11:3,12:4,13:5,14:6}[%s])`, v, v, v, v))
			case 6:
				out = append(out, fmt.Sprintf("println([%s] == [3], [%s] < [4], [1,%s] == [1,2], %s == 2)", v, v, v, v))
			case 7:
				out = append(out, fmt.Sprintf("println(%s[%s] == nil, %s[%s%%3] == nil)", big, v, big, v))
			default:
				out = append(out, fmt.Sprintf("println(%s[%s][0:1])", big, v))
			}
		case k < 61 && len(all) > 0:
			out = append(out, "println("+g.argsThenAssign(all[g.r.Intn(len(all))])+")")
		case k < 62 && len(all) > 0:
			out = append(out, "println("+g.leftThenAssign(all[g.r.Intn(len(all))], all)+")")
		case k < 70:
			out = append(out, "println("+g.intExpr(all, 2)+")")
		case k < 76 && len(strs) > 0:
			out = append(out, "print("+strs[g.r.Intn(len(strs))]+`+"|")`)
		case k < 84 && len(ints) > 0:
			// a closure over parameters / loop variables, called at once
			cl := fn + "c"
			out = append(out, cl+"=()=>"+g.intExpr(all, 2), ints[g.r.Intn(len(ints))]+"="+cl+"()")
		case k < 92 && len(g.defs) > 0:
			out = append(out, "println("+g.call(all)+")")
		default:
			out = append(out, "println("+g.intExpr(all, 1)+")")
		}
	}
	return out
}

func (g *vgen) intExprSmall(vars []string) string {
	return "((" + g.intExpr(vars, 1) + ")%4)"
}

func (g *vgen) call(vars []string) string {
	f := g.defs[g.r.Intn(len(g.defs))]
	var args []string
	for _, k := range f.kinds {
		switch k {
		case 'i':
			args = append(args, g.intExpr(vars, 1))
		case 's':
			args = append(args, []string{`"ab"`, `""`, `"x y"`}[g.r.Intn(3)])
		case 'f':
			args = append(args, []string{"1.5", "-0.25", "2.0"}[g.r.Intn(3)])
		case 'b':
			args = append(args, []string{"true", "false"}[g.r.Intn(2)])
		default:
			args = append(args, []string{"[1,2,3]", "[]", `{"a":1}`}[g.r.Intn(3)])
		}
	}
	return f.name + "(" + strings.Join(args, ",") + ")"
}

func (g *vgen) function() string {
	*g.nfn++
	name := fmt.Sprintf("h%d", *g.nfn)
	np := g.r.Intn(13)
	var params, ints, strs []string
	var kinds []byte
	for i := 0; i < np; i++ {
		k := "iiiiisfba"[g.r.Intn(9)]
		p := fmt.Sprintf("%sp%d", name, i)
		params = append(params, p)
		kinds = append(kinds, k)
		switch k {
		case 'i':
			ints = append(ints, p)
		case 's':
			strs = append(strs, p)
		}
	}
	loc := name + "t"
	body := []string{loc + "=0", name + `mb = {0:"a",1:"b",2:"c",3:"d",4:"e",5:"f"}`, name + `ms = {1:"x",2:"y"}`}
	ints2 := append(append([]string{}, ints...), loc)
	body = append(body, g.stmts(name, ints2, nil, strs, 0, 2+g.r.Intn(4), false)...)
	body = append(body, g.intExpr(ints2, 2))
	src := "func " + name + "(" + strings.Join(params, ",") + "){" + strings.Join(body, "; ") + "}"
	g.defs = append(g.defs, vdef{name: name, kinds: kinds})
	return src
}

// a macro whose body defines and calls functions with integer parameters and unquotes their results (the bare
// parameter, a computed value, a mutated parameter, a loop result), then a use of the macro
func (g *vgen) macroInput() string {
	*g.nfn++
	m := fmt.Sprintf("mc%d", *g.nfn)
	fa, fb := m+"a", m+"b"
	bodies := []string{"k", "k*2+1", "k=k+3; k", "k++; k", "t=0; for j=k {t=t+j}; t", "for j=k {j}", "if k>2 {k} else {0-k}", "k - (k := 2)"}
	defs := fmt.Sprintf("%s = func(k){%s}; %s = func(a,k){%s}", fa, bodies[g.r.Intn(len(bodies))], fb, strings.ReplaceAll(bodies[g.r.Intn(len(bodies))], "j", "a+j*0+j"))
	x, y := 1+g.r.Intn(6), 1+g.r.Intn(6)
	var q, use string
	switch g.r.Intn(4) {
	case 0:
		q = fmt.Sprintf("quote(unquote(%s(%d)))", fa, x)
	case 1:
		q = fmt.Sprintf("quote(unquote(%s(%d)) + unquote(%s(%d,%d)))", fa, x, fb, y, x)
	case 2:
		q = fmt.Sprintf("quote([unquote(%s(%d,%d)), unquote(%s(%d)) * 2])", fb, x, y, fa, y)
	default:
		q = fmt.Sprintf("quote(if unquote(%s(%d)) > 2 {unquote(%s(%d,%d))} else {0})", fa, x, fb, x, y)
	}
	if g.r.Bool() {
		use = fmt.Sprintf("println(%s())", m)
		return fmt.Sprintf("%s = macro(){ %s; %s }; %s", m, defs, q, use)
	}
	use = fmt.Sprintf("for tv0=2 {println(%s(tv0+%d))}", m, x)
	return fmt.Sprintf("%s = macro(z){ %s; quote(unquote(z) + %s) }; %s", m, defs, strings.TrimPrefix(q, "quote"), use)
}

// the same counted loop (one AST node) active twice at once: higher-order functions with a counted loop called
// re-entrantly through callbacks, and mutual recursion; the loop variable is read after the inner call returns
func (g *vgen) reentrantInput() string {
	list := func(depth int) string {
		var rec func(d int) string
		rec = func(d int) string {
			n := 1 + g.r.Intn(3)
			var el []string
			for i := 0; i < n; i++ {
				if d > 0 {
					el = append(el, rec(d-1))
				} else {
					el = append(el, fmt.Sprint(g.r.Intn(9)))
				}
			}
			return "[" + strings.Join(el, ",") + "]"
		}
		return rec(depth)
	}
	switch g.r.Intn(6) {
	case 0:
		return fmt.Sprintf("each(%s, x=>each(x, y=>y*%d+1))", list(1), 2+g.r.Intn(9))
	case 1:
		return fmt.Sprintf("each(%s, x=>each(x, y=>each(y, z=>z+%d)))", list(2), g.r.Intn(9))
	case 2:
		return fmt.Sprintf("each(%s, x=>len(each(%s, y=>x+y)) + x)", list(0), list(0))
	case 3:
		return fmt.Sprintf("times(%d, a=>times(a+%d, b=>a*b+%d))", 1+g.r.Intn(4), g.r.Intn(3), g.r.Intn(5))
	case 4:
		return fmt.Sprintf("println(va(%d), vb(%d)); times(%d, a=>va(a))", 1+g.r.Intn(5), 1+g.r.Intn(5), 1+g.r.Intn(4))
	default:
		return fmt.Sprintf("for tv0=%d {println(tv0, each(%s, x=>times(x+tv0, b=>b+tv0)), tv0)}", 1+g.r.Intn(3), list(0))
	}
}

func (g *vgen) input() string {
	if g.r.Pct(8) {
		return g.macroInput()
	}
	if g.r.Pct(8) {
		return g.reentrantInput()
	}
	var parts []string
	nf := g.r.Intn(3)
	if len(g.defs) == 0 {
		nf = 1 + g.r.Intn(2)
	}
	for i := 0; i < nf; i++ {
		parts = append(parts, g.function())
	}
	n := 1 + g.r.Intn(3)
	for i := 0; i < n; i++ {
		switch g.r.Intn(7) {
		case 6:
			parts = append(parts, fmt.Sprintf("for tv0=%d {println(%s)}", 1+g.r.Intn(4), g.argsThenAssign("tv0")))
		case 5:
			parts = append(parts, `gmb = {1:"a",2:"b",3:"c",4:"d",5:"e"}; gms = {1:"a",2:"b"}`,
				fmt.Sprintf("for tv0=%d:%d {print(gmb[tv0], gms[tv0], [tv0]==[2])}", g.r.Intn(3), 4+g.r.Intn(4)),
				fmt.Sprintf("for tv0=1:%d {del(gmb[tv0]); gms[tv0]=tv0*2}; println(gmb, gms)", 2+g.r.Intn(3)))
		case 4:
			parts = append(parts, fmt.Sprintf("for tv0=%d {println(%s)}", 1+g.r.Intn(4), g.leftThenAssign("tv0", []string{"tv0"})))
		case 0:
			parts = append(parts, "println("+g.call(nil)+")")
		case 1:
			parts = append(parts, fmt.Sprintf("for tv0=0:%d {println(%s)}", g.r.Intn(4), g.call([]string{"tv0"})))
		case 2:
			parts = append(parts, fmt.Sprintf("for tv0=0:%d {for tv1=0:%d {if tv1==1 {%s}; println(%s)}}", 1+g.r.Intn(3), 1+g.r.Intn(3),
				[]string{"break", "continue"}[g.r.Intn(2)], g.call([]string{"tv0", "tv1"})))
		default:
			parts = append(parts, g.call(nil))
		}
	}
	return strings.Join(parts, "; ")
}

// ------------------------------------------------------------------ known semantic gaps (findings)

// each entry: construct name (the finding's sig is reg-<construct>:on=..,off=..), session, index of the input that differs
var gapCorpus = []struct {
	construct string
	inputs    []string
	at        int
}{
	{"param-assign-nonint", []string{`func f(n){n="a";n};f(1)`}, 0},
	{"param-assign-nonint", []string{`func f(n){n=n+0.5;n};f(5)`}, 0},
	{"loopvar-assign-nonint", []string{`for i=0:3{i="a"}`}, 0},
	{"name-as-inner-loopvar", []string{`func f(n){for n=0:3{};n};f(7)`}, 0},
	{"name-as-inner-loopvar", []string{`for i=0:2{for i=0:2{println(i)};println(i)}`}, 0},
	{"loopvar-after-loop", []string{`for i=0:3{};i`}, 0},
	{"loopvar-after-loop", []string{`for i=0:3{}`, `i`}, 1},
	{"loopvar-coincides-outer", []string{`i=10;for i=0:3{};i`}, 0},
	{"loopvar-coincides-outer", []string{`k=5;func f(){for k=0:3{}};f();k`}, 0},
	{"loopvar-coincides-outer", []string{`func rs(n){s=0; for i=n { s = s + rs(i) + i }; s+1}; rs(3)`}, 0},
	{"loopvar-read-by-callee", []string{`func g(){i};for i=0:3{println(g())}`}, 0},
	{"name-read-by-eval-string", []string{`func f(n){eval("n")};f(3)`}, 0},
	{"name-assigned-by-eval-string", []string{`func f(n){eval("n = 9"); n};f(3)`}, 0},
}

// sessions that were failing on the pinned tree and are repaired (must now agree on/off)
var fixedCorpus = [][]string{
	{`func f(a,b,c,d,e,f,g,h,i){a+i};f(1,2,3,4,5,6,7,8,9)`},
	{`for i=0:3{break}`, `for i=0:3{break}`, `for i=0:3{break}`, `for i=0:3{break}`, `for i=0:3{break}`, `for i=0:3{break}`, `for i=0:3{break}`, `for i=0:3{break}`, `for i=0:3{i}`},
	{`for i=0:3{f=func(){1}};7`}, {`for i=0:3{i++};7`}, {`func f(n){--n;n};f(5)`}, {`func f(n){++n;n};f(5)`},
	{`(for i=0:3{i}) + (for j=5:7{j})`}, {`(for i=0:3{if i==1{return i}}) + (for j=5:7{j})`},
	{`for a=0:1{for b=0:1{for c=0:1{for d=0:1{for e=0:1{for f=0:1{for g=0:1{for h=0:1{for k=0:1{for l=0:2{a+k+l}}}}}}}}}}`},
	{`func f(a,b,c,d,e,f,g,h){for i=0:2{a+i}};f(1,2,3,4,5,6,7,8)`},
	{`func g(n){g(n+1)};for i=0:3{g(0)}`, `for i=0:2{i}`},
	{`func f(n){g=func(n){n};g(n)};f(1)`}, {`for i=0:3{++i;println(i)}`},
	{`for i=0:3{error("x")}`, `for i=0:3{if i==1{return 5}}`, `for i=0:2{for j=0:2{break}}`, `for i=0:9{i}`},
	{`func f(PI){PI};f(3)`}, {`for I=0:3{println(I)}`},
	{`func f(n,s,x){n=n+1;n++;s=s+"b";x=x+0.5;[n,s,x]};f(1,"a",1.5)`},
	{`func mk(a,b){()=>a+b};mk(1,2)()`},
	{`func n(){5};func f(n){n()};f(1)`}, {`m={"n":4};func f(n){m.n+n};f(1)`}, {`m={"n":4};func f(n){del(m.n);m};f(1)`},
	{`func f(n){{n:print("a"), n:print("b")}};f(1)`}, {`for n=0:2{println({n:1, n:2})}`},
	{`m={1:"a",2:"b",3:"c",4:"d",5:"e"}; for i=1:6 {print(m[i])}`}, {`m={1:"a",2:"b",3:"c",4:"d",5:"e"}; f=func(k){m[k]}; f(3)`},
	{`m={1:"a",2:"b",3:"c",4:"d",5:"e"}; for i=1:3 {del(m[i])}; m`}, {`func f(k){[[k] == [3], [k] < [4], {k:1}]}; f(3)`},
	{`abs(-9223372036854775807-1)`}, {`func neg(n){-n}; neg(-9223372036854775807-1)`},
	{`func f(n){pow(n,(n=2))}; f(3)`}, {`func f(n){max(n,(n=1))}; f(3)`}, {`func f(n){sprintf("%d-%d",n,(n=1))}; f(3)`}, {`for i=3{println(max(i,(i=0)))}`},
	{`func f(n){two(n,(n=2))}; f(3)`}, {`func f(n){println(n, (n=2)); [n,(n=7),n]}; f(3)`},
	{`each([[1,2],[3],[4,5,6]], x=>each(x, y=>y*10))`}, {`println(va(4), vb(3))`}, {`times(3, a=>times(a+1, b=>a*b))`},
	{`func f(n){ func n(){1}; n }; f(5)`}, {`for i=3 { func i(){7}; println(i) }`}, {`func f(n){ g = func(n){n*2}; [g(3), n] }; f(5)`},
	{`func f(n){ mset(n, 9); n }; f(5)`}, {`func f(n){[10,11,12,13,14,15][n:(n=4)]}; f(1)`}, {`func f(n){for k=[1,2,3]{if k==3{n=100;break};n}}; f(5)`},
	{`func f(n){w=0; for w<3 {w=w+1; if w==3 {n=100; continue}; n}}; f(5)`},
	{`func f(n){ n + (n := 5) }; f(1)`}, {`for i = 3 { println(i + (i := 10)) }`}, {`func h(a,b,c){ r = a - (b + (a := c)); [r,a] }; h(10,2,3)`},
	{`m = macro(){ id = func(k){k}; quote(unquote(id(3))) }; m()`}, {`m2 = macro(z){ f = func(k){k*2+1}; quote(unquote(z) + unquote(f(4))) }; println(m2(10))`},
	{`func f(n) { n + idl(n = 10) }; f(1)`}, {`func f(n){ n * dec1(n = n - 1) }; f(5)`}, {`for i = 3 { println(i * id1(i = i + 10)) }`},
	{`func f(n){ n - len([n = 7, 0]) + (n % (3 + mobj.f(n = n + 2))) }; f(20)`},
	{`for i=5 { if i==3 {break}; i }`}, {`for i=4 { if i==3 {continue}; i }`}, {`func f(n){n + (n=5)};f(1)`}, {`func f(n){del(n);5};f(1)`},
	{`func f(n){quote(n+1)};f(1)`}, {`for i=5 { i=i+1; print(i) }`}, {`for i=3 { r=catch(for j=3 { 1/0 }); print(i) }`},
	{`func f(n){ for i=n { catch(for j=2 { error("boom") }) }; n }; f(3)`}, {`catch(for j=3 { 1/0 })`, `for a=2{for b=2{for c=2{for d=2{for e=2{for f=2{for g=2{for h=2{println(a+h)}}}}}}}}`},
	{`t=0; for i=0:3{t=i}; for j=7:9{}; t`}, {`m={}; for i=0:3{m[i]=i}; for j=7:9{}; m`}, {`m={}; for i=0:3{m={i:i}}; for j=7:9{}; m`},
	{`a=[0]; for i=0:3{a[0]=i}; for j=7:9{}; a`}, {`func f(n){t=0;t=n;n=5;t};f(1)`}, {`func f(n){m={"a":n};n=5;m};f(1)`}, {`fs=[];for i=0:3{fs=fs+[()=>i]};fs[0]()`},
}

// ------------------------------------------------------------------ driver

var dbg *os.File

func runC05(c *Ctx) {
	_ = extensions.Init(nil) // eval(), json, ... (already initialised is fine)
	if os.Getenv("VERIF_DEBUG") != "" {
		dbg, _ = os.Create(c.Out + "/sources.txt")
		defer dbg.Close()
	}
	c.Rule = "a case is non-trivial when registers were really allocated (a probe saw numReg > 0) or the rewrite replaced at least one identifier"
	if c.ReplayCase != "" {
		if ins := decodeCase(c.ReplayCase); ins != nil {
			res := runBoth(c, ins, "", -1)
			for i := range ins {
				fmt.Printf("input %d %q\n  on : %s out=%q errs=%q\n  off: %s out=%q errs=%q\n", i, ins[i],
					res.on[i].ModelField(), res.on[i].Out, res.on[i].Errs, res.off[i].ModelField(), res.off[i].Out, res.off[i].Errs)
			}
		}
		return
	}
	// 1. known findings first, then repaired witnesses
	for _, g := range gapCorpus {
		runBoth(c, g.inputs, g.construct, g.at)
		c.Count("corpus=gap")
	}
	for _, s := range fixedCorpus {
		runBoth(c, s, "", -1)
		c.Count("corpus=fixed")
	}
	// 2. rewrite corpus
	for _, m := range modregCorpus {
		if b := parseBody(m.body); b != nil {
			if nt := modreg(c, m.name, b); nt != nil {
				modreg(c, "m", nt)
			}
		}
	}
	// 3. skeleton sessions (correspondence + direct oracle)
	nSess, nLong, longLen, nVal := 1300, 10, 300, 3000
	if c.Thorough() {
		nSess, nLong, longLen, nVal = 36000, 160, 600, 90000
	}
	nfn := 0
	for i := 0; i < nSess && !enough(); i++ {
		var known []*fdef
		var ins []skInput
		k := 1 + c.R.Intn(5)
		for j := 0; j < k; j++ {
			var in skInput
			in, known = genSkInput(c.R, &nfn, known, 40+c.R.Intn(80))
			ins = append(ins, in)
			for _, f := range in.defs {
				modregDef(c, f)
			}
			modregStmts(c, in.top)
		}
		skeletonSession(c, ins)
	}
	// long sessions: hundreds of top-level loops on one state, every exit kind
	for i := 0; i < nLong && !enough(); i++ {
		var known []*fdef
		var ins []skInput
		for j := 0; j < longLen; j++ {
			g := &skgen{r: c.R, nfn: &nfn, defs: append([]*fdef{}, known...), budget: 12}
			lp := g.genLoop(0, 0, false, nil).(*sLoop)
			if lp.n == 0 {
				lp.n = 1
			}
			top := []stmt{lp}
			if c.R.Pct(15) {
				top = append(top, sProbe{})
			}
			var parts []string
			for _, f := range g.defs[len(known):] {
				parts = append(parts, srcDef(f))
			}
			parts = append(parts, srcStmts(top))
			known = g.defs
			ins = append(ins, skInput{src: strings.Join(parts, "; "), skel: skelStmts(top), sig: sigStmts(top, 0, "")})
		}
		skeletonSession(c, ins)
	}
	// 3b. depth-limit dimension: the same programs under every small MaxDepth, registers on vs off: value vs
	// max-depth panic (and everything else) must agree - a register operand costs the depth an identifier costs
	depthCorpus := [][]string{
		{`func f(n, m){ if n>=m {return n}; f(n+1, m) }; f(0,5)`},
		{`x=0; for i=3 {for j=3 {x = x + i*j}}; x`},
		{`func g(a,b){a*b+(a-b)*(a+b)}; for i=4 {println(g(i,i+1))}`},
		{`func h(n){if n<=0 {return 0}; n+h(n-1)}; h(3)`},
	}
	nDepth := 120
	if c.Thorough() {
		nDepth = 1500
	}
	dn := 0
	for i := 0; i < len(depthCorpus)+nDepth && !enough(); i++ {
		var ins []string
		if i < len(depthCorpus) {
			ins = depthCorpus[i]
		} else {
			g := &vgen{r: c.R, nfn: &dn}
			switch i % 3 {
			case 0:
				ins = []string{g.input()}
			case 1:
				// a recursion whose deepest point is a comparison / arithmetic over bare parameters
				dn++
				f := fmt.Sprintf("rc%d", dn)
				ps := []string{f + "n", f + "m"}
				ins = []string{fmt.Sprintf("func %s(%s,%s){ if %s>=%s {return %s}; %s(%s+1, %s) }; %s(0,%d)", f, ps[0], ps[1], ps[0], ps[1],
					g.intExpr(ps, 1+c.R.Intn(2)), f, ps[0], ps[1], f, 1+c.R.Intn(6))}
			default:
				// nested counted loops accumulating an expression over the loop variables
				lv := []string{"dvi", "dvj"}
				ins = []string{fmt.Sprintf("dx=0; for dvi=%d {for dvj=%d {dx = dx + %s}}; dx", 1+c.R.Intn(3), 1+c.R.Intn(3), g.intExpr(lv, 1+c.R.Intn(2)))}
			}
		}
		for d := 1; d <= 30; d++ {
			depthLimit = d
			res := runBoth(c, ins, "", -1)
			c.Count("depth-limit-outcome=" + res.on[0].Class())
		}
		depthLimit = 0
	}
	// 3c. int64 extremes through every unary and binary operator and the prelude functions written in grol, as
	// register-held parameters and loop variables (registers on) vs plain values (registers off); exhaustive pairs
	extremes := []string{"(-9223372036854775807-1)", "9223372036854775807", "-1", "0", "1", "2", "63", "64", "-9223372036854775807"}
	unary := []string{"-a", "+a", "!a", "^a", "~a", "- -a", "-(a)", "abs(a)", "log2(a)", "str(a)", "len(str(a))", "[a][0]", "{a:a}"}
	binary := []string{"+", "-", "*", "/", "%", "<<", ">>", "&", "|", "^", "==", "!=", "<", "<=", ">", ">=", "&&", "||"}
	var exParts []string
	for _, u := range unary {
		exParts = append(exParts, "catch("+u+")")
	}
	for _, op := range binary {
		exParts = append(exParts, "catch(a "+op+" b)", "catch(b "+op+" a)")
	}
	exParts = append(exParts, "catch(max(a,b))", "catch(min(a,b,0))", "catch(pow(a,2))", "catch(a*a*a)", "catch(-a - b)", "catch(abs(a) + abs(b))")
	exDef := "func exall(a,b){[" + strings.Join(exParts, ", ") + "]}; func exneg(n){-n}; func exinc(a){[catch(a++), a, catch(--a), a]}; func exsum(a,b){s=a; s=s+b; s=s-1; s=s*2; [s, -s, abs(s)]}"
	for _, x := range extremes {
		for _, y := range extremes {
			if enough() {
				break
			}
			runBoth(c, []string{exDef, fmt.Sprintf("println(exall(%s,%s))", x, y), fmt.Sprintf("println(exneg(%s), exsum(%s,%s), abs(%s), log2(%s), exinc(%s))", x, x, y, x, y, x)}, "", -1)
			c.Count("int64-extremes")
		}
		// the extreme as a loop variable (one iteration) and as a loop bound
		runBoth(c, []string{fmt.Sprintf("for xi=%s:%s+1 {println(-xi, xi+1, xi-1, xi*2, abs(xi), xi/2, xi%%3, xi<<1, xi>>1, ^xi, xi==%s, -(-xi))}", x, x, x),
			fmt.Sprintf("xa=%s; for xj=3 {xa = -xa - xj}; xa", x)}, "", -1)
	}
	// 4. value programs: direct oracle only
	vn := 0
	for i := 0; i < nVal && !enough(); i++ {
		g := &vgen{r: c.R, nfn: &vn}
		var ins []string
		k := 1 + c.R.Intn(3)
		for j := 0; j < k; j++ {
			ins = append(ins, g.input())
		}
		res := runBoth(c, ins, "", -1)
		for _, o := range res.on {
			c.Count("value-outcome=" + o.Class())
			if len(o.Out) > 0 {
				c.NonTrivial("val|" + ins[0])
			}
		}
	}
}
