package main

// C08: the front end is total on arbitrary bytes.
// Correspondence: (errors kinds, continuation, tree dump, printed forms) of the real
// lexer+parser+formatter vs the Coq parser/printer models on the same token streams.
// Direct oracle: no panic; errors or continuation or tree; a clean tree has no nil child and prints
// in every mode; ErrorLine never indexes outside the input.

import (
	"bytes"
	"context"
	"fmt"
	"os"
	"path/filepath"
	"strings"
	"time"

	"grol.io/grol/ast"
	"grol.io/grol/eval"
	"grol.io/grol/repl"
	"verifharness/common"
	. "verifharness/common"
)

func main() { common.Main("C08", run) }

var alphabet = []string{
	"a", "b", "1", "1.5", `"s"`, "+", "-", "*", "/", "!", "=", "==", "<", ":", ":=", "=>", ".", "..", ",", ";",
	"(", ")", "[", "]", "{", "}", "++", "--", "&&", "|", "if", "else", "for", "func", "return", "break", "macro",
	"len", "quote", "print", "// c\n", "/* c */", "\n", "true", "^", "%",
}

type stats struct{ panic_, errs, cont, tree int }

var hung int

// one runs oneInner under a watchdog: the front end must TERMINATE on every byte string.
func one(c *Ctx, src []byte, lineMode bool, toModel bool, st *stats) {
	if hung >= 3 { // each hung run keeps a core busy: stop exploring, the failures are recorded
		return
	}
	done := make(chan struct{})
	go func() {
		defer close(done)
		defer func() {
			if r := recover(); r != nil {
				c.Fail("harness-panic", "FRONT ? "+Hx(src), fmt.Sprint(r))
			}
		}()
		oneInner(c, src, lineMode, toModel, st)
	}()
	select {
	case <-done:
	case <-time.After(20 * time.Second):
		hung++
		mode := "F"
		if lineMode {
			mode = "L"
		}
		c.Fail("front-end-does-not-terminate", fmt.Sprintf("FRONT %s %s", mode, Hx(src)), "lexing / parsing / printing still running after 20 s")
	}
}

func oneInner(c *Ctx, src []byte, lineMode bool, toModel bool, st *stats) {
	c.Eval()
	mode := "F"
	if lineMode {
		mode = "L"
	}
	fr := Front(src, lineMode)
	cs := fmt.Sprintf("FRONT %s %s", mode, Hx(src))
	switch {
	case fr.Panic != "":
		st.panic_++
		c.Fail("parser-panic:"+panicClass(fr.Panic), cs, fr.Panic)
	case len(fr.Errors) > 0:
		st.errs++
	case fr.Cont:
		st.cont++
		if !lineMode {
			// continuation can be requested in file mode too (unterminated block comment); not an error per se
			c.Count("cont-in-file-mode")
		}
	default:
		st.tree++
		if fr.Prog == nil {
			c.Fail("no-report", cs, "no errors, no continuation, nil program")
		} else {
			if HasNilChild(fr.Prog) {
				c.Fail("clean-tree-nil-child", cs, fr.TreeDump)
			}
			for _, m := range [][2]bool{{false, false}, {true, false}, {false, true}, {true, true}} {
				if PrintMode(fr.Prog, m[0], m[1]) == "PANIC" {
					c.Fail(fmt.Sprintf("print-panic:compact=%v,allparens=%v", m[0], m[1]), cs, fr.TreeDump)
				}
			}
			c.NonTrivial(fr.TreeDump)
		}
	}
	if fr.Parser != nil { // error messages must be producible without indexing outside the input
		func() {
			defer func() {
				if r := recover(); r != nil {
					c.Fail("errorline-panic", cs, fmt.Sprint(r))
				}
			}()
			for _, prev := range []bool{false, true} {
				line, n := fr.Parser.ErrorLine(prev)
				if n < 1 || len(line) > 2*len(src)+4 {
					c.Fail("errorline-bounds", cs, fmt.Sprintf("line %d len %d", n, len(line)))
				}
			}
		}()
	}
	if toModel {
		c.Case(fmt.Sprintf("FRONT %s %s %s", mode, Hx(src), Convs(src)), fr.Obs)
	}
}

// entry runs one byte string through the entry points that sit in front of the parser in file mode (repl.EvalAll: `grol file`,
// `grol -`, shebang scripts; repl.EvalStringWithOption: playground / -c), format-only so that nothing is evaluated: whatever
// they do before and after parsing (shebang line stripped, text re-formatted) must not panic either.
func entry(c *Ctx, src []byte) {
	for _, compact := range []bool{false, true} {
		c.Eval()
		func() {
			defer func() {
				if r := recover(); r != nil {
					c.Fail("entry-point-panic:EvalAll:"+panicClass(fmt.Sprint(r)), "ENTRY "+Hx(src), fmt.Sprintf("compact=%v: %v", compact, r))
				}
			}()
			var out bytes.Buffer
			o := repl.Options{All: true, FormatOnly: true, NoColor: true, Compact: compact}
			_ = repl.EvalAll(eval.NewState(), bytes.NewReader(src), &out, o)
		}()
		func() {
			defer func() {
				if r := recover(); r != nil {
					c.Fail("entry-point-panic:EvalString:"+panicClass(fmt.Sprint(r)), "ENTRY "+Hx(src), fmt.Sprintf("compact=%v: %v", compact, r))
				}
			}()
			o := repl.EvalStringOptions()
			o.FormatOnly, o.Compact = true, compact
			_, _, _ = repl.EvalStringWithOption(context.Background(), o, string(src))
		}()
	}
	c.Count("entry-point-inputs")
}

func panicClass(msg string) string {
	switch {
	case strings.Contains(msg, "nil pointer"):
		return "nil-deref"
	case strings.Contains(msg, "parseComment"):
		return "comment-assert"
	case strings.Contains(msg, "out of range"):
		return "index-range"
	case strings.Contains(msg, "precedence not found"):
		return "precedence"
	}
	return "other"
}

func run(c *Ctx) {
	c.Rule = "every byte value 0..255 in 15 lexical contexts (inside a line comment followed by tokens, block comment, string, raw string, between and inside tokens), both lexer modes; exhaustive: every sequence of <= L tokens of a 46-token alphabet joined by spaces and (for L<=2) without, both lexer modes; " +
		"random token soup to length 12; every truncation and random byte mutations of the shipped examples; NUL / non-UTF-8 bytes. " +
		"non-trivial = distinct clean trees (no errors, no continuation) by canonical dump"
	if c.ReplayCase != "" {
		f := strings.Fields(c.ReplayCase)
		if len(f) == 3 && f[0] == "FRONT" {
			var st stats
			one(c, Unhx(f[2]), f[1] == "L", true, &st)
		}
		if len(f) == 2 && f[0] == "ENTRY" {
			entry(c, Unhx(f[1]))
		}
		return
	}
	var st stats
	// corpus: past failures first
	for _, s := range []string{"[macro [ (func , return )=>", "(,a)=>a", "// c\x00x", "a\x00b", "\"a\x00b\"", "/* a", "x[1:]", "{1:2,", "if", "1.2.3", "(a,)=>a", "..", "a..b"} {
		one(c, []byte(s), false, true, &st)
		one(c, []byte(s), true, true, &st)
	}
	// small structured programs with empty blocks / lists in every position
	for _, s := range []string{"if a {b} else {}", "if a {} else {}", "if a {} else if b {} else {}", "for a {}", "for i = 1:2 {}", "func(){}", "func f(a){}",
		"() => {}", "a => {}", "{}", "[]", "f()", "x = {}", "m = macro(){}", "if a {b} else {// only a comment\n}", "return", "f(){}", "print()", "len()", "[[]]", "{1:{}}"} {
		one(c, []byte(s), false, true, &st)
		one(c, []byte(s), true, true, &st)
	}
	for i := 0; i < 400; i++ {
		g := &Gen{R: c.R, O: GenOpts{AvoidKnown: i%2 == 0, Comments: i%3 == 0, MaxDepth: 3}}
		one(c, []byte(g.Program()), i%2 == 0, true, &st)
	}
	L := 3
	if c.Thorough() {
		L = 4
	}
	sampleEvery := 1
	if c.Thorough() {
		sampleEvery = 7 // the model side runs on every 7th length-4 sequence (all of length <= 3)
	}
	var rec func(cur []string)
	cnt := 0
	rec = func(cur []string) {
		if len(cur) > 0 {
			cnt++
			toModel := len(cur) <= 3 || cnt%sampleEvery == 0
			src := []byte(strings.Join(cur, " "))
			one(c, src, false, toModel, &st)
			one(c, src, true, toModel, &st)
			if len(cur) == 2 {
				src2 := []byte(strings.Join(cur, ""))
				one(c, src2, false, true, &st)
				one(c, src2, true, true, &st)
			}
		}
		if len(cur) == L {
			return
		}
		for _, a := range alphabet {
			rec(append(cur, a))
		}
	}
	rec(nil)
	c.Extra["exhaustive"] = true
	c.Extra["exhaustive_sequences"] = cnt
	// random token soup
	n := 3000
	if c.Thorough() {
		n = 200000
	}
	for i := 0; i < n; i++ {
		k := 4 + c.R.Intn(9)
		var parts []string
		for j := 0; j < k; j++ {
			parts = append(parts, alphabet[c.R.Intn(len(alphabet))])
		}
		sep := " "
		if c.R.Pct(25) {
			sep = ""
		}
		one(c, []byte(strings.Join(parts, sep)), c.R.Bool(), true, &st)
	}
	// every byte value in every lexical context (comment, string, raw string, block comment, between tokens, inside a number
	// and an identifier), followed by more tokens on the same line and on the next one
	for _, tpl := range []string{"// c%sx", "a // c%sb c", "/* c%s */ x", "\"s%s\" + a", "`r%s` b", "a%sb", "1%s2", "// c%s\nx", "x = 1 // t%s y\nz",
		"if a {%sb}", "f(%sa)", "a +%sb", "%s// c\nx", "a%s// c", "\"s\"%s\"t\""} {
		for b := 0; b < 256; b++ {
			src := []byte(strings.Replace(tpl, "%s", string([]byte{byte(b)}), 1))
			one(c, src, false, true, &st)
			one(c, src, true, true, &st)
			if b == '\r' || b == '\n' || b == 0 || b >= 0x80 {
				src2 := []byte(strings.Replace(tpl, "%s", string([]byte{byte(b), byte(b)}), 1))
				one(c, src2, c.R.Bool(), true, &st)
				src3 := []byte(strings.Replace(tpl, "%s", string([]byte{'\r', byte(b)}), 1))
				one(c, src3, c.R.Bool(), true, &st)
			}
		}
	}
	// truncations and mutations of the shipped examples
	files, _ := filepath.Glob("/repo/examples/*.gr")
	more, _ := filepath.Glob("/repo/tests/*.gr")
	files = append(files, more...)
	junk := []byte{0, 0xff, 0xc3, '"', '`', '(', ')', '{', '}', '[', ']', '\n', '\r', '\t', '/', '*', '.', '=', '>', ',', ' '}
	for _, f := range files {
		b, err := os.ReadFile(f)
		if err != nil {
			continue
		}
		if len(b) > 1500 {
			b = b[:1500]
		}
		step := 1
		if !c.Thorough() {
			step = 1 + len(b)/40
		}
		for cut := 0; cut <= len(b); cut += step {
			one(c, b[:cut], c.R.Bool(), cut%3 == 0, &st)
		}
		m := 30
		if c.Thorough() {
			m = 600
		}
		for i := 0; i < m; i++ {
			mb := append([]byte(nil), b...)
			for k := 0; k < 1+c.R.Intn(3); k++ {
				pos := c.R.Intn(len(mb) + 1)
				switch c.R.Intn(3) {
				case 0:
					if pos < len(mb) {
						mb[pos] = junk[c.R.Intn(len(junk))]
					}
				case 1:
					mb = append(mb[:pos], append([]byte{junk[c.R.Intn(len(junk))]}, mb[pos:]...)...)
				case 2:
					if pos < len(mb) {
						mb = append(mb[:pos], mb[pos+1:]...)
					}
				}
			}
			one(c, mb, c.R.Bool(), i%4 == 0, &st)
		}
	}
	// string literals: every kind of escape (complete, truncated, brace forms), raw bytes that are not UTF-8, long runs, both
	// quote kinds, terminated and not, in positions where the parser quotes the token in an error message
	pieces := []string{"a", "Z9", " ", "\\n", "\\\"", "\\\\", "\\x41", "\\x80", "\\xff", "\\x4", "\\x", "\\u263A", "\\u12", "\\u", "\\U0001F600", "\\U0001", "\\u{1F600}", "\\u{", "\\u{41", "\\q", "\\",
		"\x80", "\xbf", "\xc3", "\xe2\x82", "\xff", "\xc3\xa9", "\xe6\x97\xa5", "\x00", "\n", "\r", "`", "}"}
	ctxs := []string{"x = %s", "(1 %s", "[1 %s]", "%s => 1", "f(%s", "%s", "{%s:1", "a %s b", "if %s {", "// c\n%s"}
	mkstr := func(body string, k int) string {
		switch k % 4 {
		case 0:
			return "\"" + body + "\""
		case 1:
			return "\"" + body // unterminated
		case 2:
			return "`" + body + "`"
		default:
			return "`" + body
		}
	}
	nstr := 0
	for pi, pc := range pieces {
		for _, rep := range []int{1, 2, 33, 65, 70, 130, 300} {
			body := strings.Repeat(pc, rep)
			for k := 0; k < 4; k++ {
				lit := mkstr(body, k)
				for ci, cx := range ctxs {
					if rep > 2 && (ci+pi+k)%3 != 0 {
						continue
					}
					src := []byte(fmt.Sprintf(cx, lit))
					one(c, src, false, rep <= 2 && len(src) < 40, &st)
					one(c, src, true, false, &st)
					nstr++
				}
			}
		}
	}
	for i := 0; i < 1500; i++ {
		var body string
		for j := 0; j < 1+c.R.Intn(6); j++ {
			body += pieces[c.R.Intn(len(pieces))]
		}
		src := []byte(fmt.Sprintf(ctxs[c.R.Intn(len(ctxs))], mkstr(body, c.R.Intn(4))))
		one(c, src, c.R.Bool(), i%5 == 0, &st)
		nstr++
	}
	c.Dist["string-literal-inputs"] = nstr
	// deep nesting: every block / bracket construct nested in itself and alternating, depth 1..48 (indentation levels,
	// recursion depth of the printer), complete and cut short
	openers := []struct{ o, c string }{{"func(){", "}"}, {"if true {", "}"}, {"for a {", "}"}, {"() => {", "}"}, {"[", "]"}, {"(", ")"}, {"{1:", "}"}, {"if a {1} else {", "}"}, {"f(", ")"}, {"m = macro(x){", "}"}}
	for d := 1; d <= 48; d++ {
		for k, op := range openers {
			alt := openers[(k+1)%4]
			var b, e string
			for i := 0; i < d; i++ {
				u := op
				if i%2 == 1 && k < 4 {
					u = alt
				}
				b += u.o
				e = u.c + e
			}
			body := "1"
			if d%3 == 0 {
				body = "x // c\ny"
				if k >= 4 && k != 7 {
					body = "1"
				}
			}
			src := []byte(b + body + e)
			one(c, src, false, d <= 20, &st)
			one(c, src, true, false, &st)
			if d%7 == 0 {
				one(c, src[:len(src)-d/2], false, false, &st)
			}
		}
	}
	// error-message layout: the parser quotes the source line and marks a column in every message; the offending token, the
	// amount and kind of white space after it, and the length of the lines around it all enter that arithmetic
	// (positions relative to the previous token can be negative or beyond the line)
	nerr := 0
	longLine := func(n int) string {
		var b strings.Builder
		for i := 0; b.Len() < n; i++ {
			fmt.Fprintf(&b, "v%d=f(%d,[%d],{%d:%d});", i, i, i, i, i)
		}
		return b.String()[:n]
	}
	gaps := []string{"\n", " ", "\t\t\t\t    \n", " \n", "\r\n", "\n\t"}
	gapN := []int{0, 1, 5, 40, 79, 81, 90, 161, 200, 500}
	lineN := []int{1, 50, 159, 160, 161, 216, 400, 2000}
	if c.Thorough() {
		gapN = append(gapN, 2, 80, 82, 160, 1000)
		lineN = append(lineN, 80, 162, 321, 1000, 10000)
	}
	for oi, off := range []string{")", "]", "}", "@", ",", "=>", ":", "1 +", "x = (", "f(1,", "if", "func", "\"abc", "1 2", "a.", "[1:", "x ="} {
		for gi, gp := range gaps {
			for _, gn := range gapN {
				for li, ln := range lineN {
					if (c.Thorough() && (oi+gi+gn+li)%2 != 0) || (!c.Thorough() && (oi+gi+gn+li)%3 != 0) {
						continue
					}
					for k, pre := range []string{"", longLine(ln) + "\n", "a = 1\n"} {
						src := []byte(pre + off + strings.Repeat(gp, gn) + longLine(ln))
						one(c, src, (k+li)%2 == 0, false, &st)
						nerr++
						if k == 0 {
							// the offending token at the very end of a long line, and in the middle of one
							one(c, []byte(longLine(ln)+strings.Repeat(gp, gn)+off), li%2 == 0, false, &st)
							one(c, []byte(longLine(ln)+off+longLine(ln)+strings.Repeat(gp, gn)), li%2 == 1, false, &st)
							nerr += 2
						}
					}
				}
			}
		}
	}
	c.Dist["error-layout-inputs"] = nerr
	// escapes cut short: every prefix of programs that use every escape form (incl. UTF-16 surrogate halves and pairs written
	// with \u), and \u / \U / \x with every pair of leading hex digits cut after 0..4 digits, followed by nothing, a quote,
	// another escape
	nesc := 0
	for _, p := range []string{"smile = \"\\ud83d\\ude00\"; println(smile)", "m = {\"flag\": \"\\ud83c\\uddeb\\ud83c\\uddf7\"}", "s = \"\\udc00\\ud800\" + \"\\uD83D\"", "x = \"\\U0001F600\\U0010FFFF\\U00110000\\UFFFFFFFF\"",
		"y = \"\\x41\\xff\\x00\\377\\0\\18\" z", "`\\ud83d\\ude00` + \"\\u{1F600}\\u{D83D}\"", "f(\"\\a\\b\\f\\v\\r\\t\\'\\e\\?\", \"\\\n\")"} {
		for k := 0; k <= len(p); k++ {
			one(c, []byte(p[:k]), k%2 == 0, false, &st)
			one(c, []byte(p[:k]), k%2 == 1, false, &st)
			one(c, []byte(p[:k]+"\""), k%2 == 0, false, &st)
			nesc += 3
		}
	}
	const hexd = "0123456789abcdefABCDEF"
	for i := 0; i < len(hexd); i++ {
		for j := 0; j < len(hexd); j++ {
			for _, esc := range []string{"\\u", "\\U", "\\x", "\\u{"} {
				full := esc + string(hexd[i]) + string(hexd[j]) + "3d0001"
				for k := len(esc); k <= len(full); k++ {
					for ti, tail := range []string{"", "\"", "\\u", "\\ude00\"", "\\"} {
						if !c.Thorough() && (i+j+k+ti)%2 != 0 {
							continue
						}
						one(c, []byte("s = \""+full[:k]+tail), (i+j+k)%2 == 0, false, &st)
						nesc++
					}
				}
			}
		}
	}
	c.Dist["escape-truncation-inputs"] = nesc
	// multi-line block comments inside nested blocks: the printer re-indents them; continuation lines of every kind (blank,
	// white space only and shorter / longer than the indentation, CR at the end, tabs, text at several indentations), 1..3
	// such lines, nesting depth 0..3, the comment before / after / between statements and alone in the block
	ncm := 0
	contl := []string{"", " ", "  ", "\t", "\r", "   x", "\t\ty", "        ", " * z", "\t \r", "\t\t\t\tdeep"}
	wraps := []struct{ o, c string }{{"", ""}, {"func f() {\n", "\n}"}, {"func f() {\n\tif a {\n", "\n\t}\n}"}, {"for a {\n  if b {\n    x = func() {\n", "\n    }\n  }\n}"}, {"if a {", "}"}, {"m = {1: func() {\n", "\n}}"}}
	var crec func(cur []string)
	crec = func(cur []string) {
		if len(cur) > 0 {
			terms := []string{"\n*/", " */", "\n\t\t*/", "\n      */", "*/", "\n \t*/"}
			for ti, term := range terms {
				if len(cur) == 3 && ti != (len(cur[0])+len(cur[1])+len(cur[2]))%len(terms) {
					continue
				}
				body := "/* first\n" + strings.Join(cur, "\n") + term
				for wi, w := range wraps {
					for pi, pos := range []string{"%s", "y\n%s", "%s\ny", "y\n\t\t%s z", "\t\t\t%s"} {
						if !c.Thorough() && len(cur) == 3 && (wi+pi+len(cur[0])+len(cur[2]))%4 != 0 {
							continue
						}
						src := w.o + fmt.Sprintf(pos, body) + w.c
						one(c, []byte(src), false, len(cur) == 1 && wi < 3, &st)
						if pi == 0 {
							one(c, []byte(strings.ReplaceAll(src, "\n", "\r\n")), wi%2 == 0, false, &st)
						}
						ncm++
					}
				}
			}
		}
		if len(cur) == 3 {
			return
		}
		for _, l := range contl {
			crec(append(append([]string{}, cur...), l))
		}
	}
	crec(nil)
	c.Dist["nested-block-comment-inputs"] = ncm
	// grouped expressions and lists with trailing / doubled / leading commas in every context (a parenthesised list is only legal
	// before =>; what the list parsers hand back for an empty tail must not become a silently missing child)
	ngr := 0
	inners := []string{"(a,)", "(a,b,)", "(,)", "()", "(a b)", "(a,,b)", "(a,)=>", "(..)", "(a,..)", "(a=1,)", "(1,)", "(ab,)", "[a,]", "[,]", "[a,,b]", "{1:2,}", "{,}", "{1:}", "f(a,)", "f(,)", "f(a,,b)", "func(a,){a}", "func(,){1}", "(a,b)=>", "(a,)=>a", "a[1,]", "a[,1]", "print(1,)", "len(,)"}
	for _, in := range inners {
		for _, cx := range []string{"%s", "x = %s", "-%s", "!%s", "[ %s ]", "f(%s)", "%s + 1", "1 + %s", "{1:%s}", "if %s {1}", "func(n) { r = %s; r }", "y = [ %s, 2 ]", "%s\nz", "z\n%s", "return %s", "%s.k", "%s[0]", "%s(1)"} {
			src := []byte(fmt.Sprintf(cx, in))
			one(c, src, false, true, &st)
			one(c, src, true, true, &st)
			ngr++
		}
	}
	c.Dist["grouped-list-inputs"] = ngr
	// the entry points in front of the parser: shebang scripts and their truncations, every byte after "#!", and a sample
	// of the inputs above
	for _, scr := range []string{"#!/usr/bin/env grol -s\nprintln(1)\n", "#!\n", "#! x = )\nf(", "#!grol\r\n[1,\n", "#\n!", "x\n#!y"} {
		for k := 0; k <= len(scr); k++ {
			entry(c, []byte(scr[:k]))
		}
	}
	for b := 0; b < 256; b++ {
		entry(c, []byte{'#', '!', byte(b)})
		entry(c, []byte{'#', '!', byte(b), '\n', byte(b)})
		entry(c, []byte{'#', byte(b)})
	}
	for i := 0; i < 300; i++ {
		g := &Gen{R: c.R, O: GenOpts{AvoidKnown: i%2 == 0, Comments: i%3 == 0, MaxDepth: 3}}
		p := []byte(g.Program())
		if i%3 == 0 {
			p = append([]byte("#!/bin/grol\n"), p...)
		}
		if i%2 == 0 && len(p) > 0 {
			p = p[:c.R.Intn(len(p)+1)]
		}
		entry(c, p)
	}
	c.Dist["outcome=panic"] = st.panic_
	c.Dist["outcome=errors"] = st.errs
	c.Dist["outcome=continuation"] = st.cont
	c.Dist["outcome=tree"] = st.tree
	_ = ast.LOWEST
}
