package main

// C10: a failed input leaves no trace in the session.
//
// Direct oracle (model-free): a history of succeeding inputs is run on one persistent eval.State
// through repl.EvalOne; the same history with side-effect-free FAILING inputs interleaved (language
// error inside nested calls and loops, run-time panic inside a function, depth overflow,
// deadline, parse error; every position, multiplicity 1..3, and random mixtures) is run on another
// fresh state: every succeeding input must show exactly the same output, errors and panic flag.
//
// Correspondence (ocaml/drv_C10.ml, model/Session.v): after every input of the interleaved history
// the control projection of the implementation (outcome class, numReg of the root environment,
// env == root, depth == 0, Out == session writer, vprobe() trace) must be the one the extracted
// model computes from the inputs' control skeletons.

import (
	"bytes"
	"context"
	"fmt"
	"os"
	"path/filepath"
	"sort"
	"strconv"
	"strings"
	"time"

	"fortio.org/log"
	"grol.io/grol/extensions"
	"grol.io/grol/object"
	"grol.io/grol/repl"
	"verifharness/common"
	. "verifharness/common"
)

func main() { common.Main("C10", runC10) }

const maxDepthC10 = 150

type input struct {
	src   string
	skel  string
	fail  string        // "" for a succeeding input, else the failure kind
	maxMs time.Duration // >0: evaluation deadline for this input
	depth int           // >0: State.MaxDepth for this input (default maxDepthC10)
	// budget probes: succeeding inputs that may legitimately end in an error or a panic; they measure what is
	// left of the depth budget ("depth") or of the root environment's register file ("registers")
	probe string
	// an inserted input that is not required to fail (e.g. `return 5` at top level)
	neutral bool
}

// Pure, memoizable functions (parameters and locals only, names used nowhere else): a call that fails
// for a reason OUTSIDE its arguments (deadline, depth limit) must not be remembered by the function cache.
var memoPrelude = []input{
	{src: `func slow(n){slw_t=0; for slw_i=0:n{slw_t=slw_t+slw_i%7}; slw_t}; func slow2(n){slow(n)+1}`, skel: "(S)"},
	{src: `func rdeep(n){if n<=0 {return 0}; 1+rdeep(n-1)}`, skel: "(S)"},
	{src: `func perr(n){prr_a=0; for prr_k=0:n{prr_a=prr_a+prr_k}; if prr_a>2 {error("pure boom")}; prr_a}`, skel: "(S)"},
}

// Failures inside code whose environment chain does not end in the session's root (library functions written in
// grol by extensions.Init: keys, abs, str, printf, log2; a function value made by unjson) and inside code run by the
// re-entrant extension eval() at top level, from a function and from a loop.
var foreignPrelude = []input{
	{src: `gx = 42; sq = func(a){a*a}`, skel: "(S)"},
	{src: `bigm = {}; for bgi=0:120 {bigm[bgi]=bgi}; len(bigm)`, skel: "(S (L 11))"},
	{src: `ug = unjson("func(n){self(n+1)}"); try = func(code){eval(code)}; pf = func(n){vpanic()}`, skel: "(S)"},
	{src: `xinfo = info; len(xinfo.stack)`, skel: "(S)"},
}

var foreignFailing = []input{
	{src: `keys(bigm)`, skel: "(S (C 0 d))", fail: "depth-overflow-in-library-function"},
	{src: `ug(0)`, skel: "(S (C 1 d))", fail: "depth-overflow-in-unjson-function"},
	{src: `for a=0:2{ug(0)}`, skel: "(S (L 11 (S (C 1 d))))", fail: "depth-overflow-in-unjson-function-in-loop"},
	{src: `eval("deep(0)")`, skel: "(S (C 1 d))", fail: "depth-overflow-in-eval"},
	{src: `try("deep(0)")`, skel: "(S (C 0 (S (C 1 d))))", fail: "depth-overflow-in-eval-in-function"},
	{src: `for a=0:2{eval("deep(0)")}`, skel: "(S (L 11 (S (C 1 d))))", fail: "depth-overflow-in-eval-in-loop"},
	{src: `eval("pf(1)")`, skel: "(S (C 1 (S p)))", fail: "panic-in-eval"},
	{src: `try("pf(1)")`, skel: "(S (C 0 (S (C 1 (S p)))))", fail: "panic-in-eval-in-function"},
	{src: `eval("1+nosuchvar")`, skel: "(S e)", fail: "error-in-eval"},
	{src: `"abc" | pf(1)`, skel: "(S (C 1 (S p)))", fail: "panic-in-pipe-right-hand-side"},
	{src: `func(a,b){info.nosuch.x + nosuchname}(1,2)`, skel: "(S (C 2 (S e)))", fail: "error-after-evaluating-info-in-function"},
	// library functions entered with almost no depth left: the limit is hit inside or just before them
	{src: `abs(-5)`, skel: "(S d)", fail: "depth-limit-around-abs", depth: 3, neutral: true},
	{src: `abs(-5)`, skel: "(S d)", fail: "depth-limit-around-abs", depth: 4, neutral: true},
	{src: `abs(-5)`, skel: "(S d)", fail: "depth-limit-around-abs", depth: 5, neutral: true},
	{src: `str([1,2])`, skel: "(S d)", fail: "depth-limit-around-str", depth: 3, neutral: true},
	{src: `str([1,2])`, skel: "(S d)", fail: "depth-limit-around-str", depth: 4, neutral: true},
	{src: `log2(8)`, skel: "(S d)", fail: "depth-limit-around-log2", depth: 4, neutral: true},
	{src: `log2(8)`, skel: "(S d)", fail: "depth-limit-around-log2", depth: 5, neutral: true},
}

// what later inputs must still be able to do: read earlier globals, call earlier functions, define and call new ones
var foreignTail = []input{
	{src: `println("gx is", gx); sq(gx)`, skel: "(S (C 1 (S)))"},
	{src: `sq2 = func(a){a*a+gx}; for fi=0:2 {println(fi, sq2(fi))}`, skel: "(S (L 11 (S (C 1 (S))) (S (C 1 (S)))))"},
	{src: `println(len(keys({"a":1,"b":2})), abs(-3), fact(4))`, skel: "(S)"},
	{src: `println(xinfo.stack, len(xinfo.globals))`, skel: "(S)"},
}

// load()/save() family: small library files in a scratch directory under the run directory (load and save only
// accept plain names in the current directory). lmode, set by a SUCCEEDING input, decides how the evaluation of
// m.gr ends, so that the same file can fail and later load fine; walk.gr recurses `steps` levels.
var libFiles = map[string]string{
	"m.gr":     "if lmode==1 {deep(0)}\nif lmode==2 {pf(1)}\nif lmode==3 {1+nosuchvar}\nif lmode==4 {for true {}}\nprintln(\"m loaded\", lmode)\nlmode*10\n",
	"walk.gr":  "walk(steps)\n",
	"slowf.gr": "slf_t=0\nfor slf_i = 100000 { slf_t = slf_t + slf_i }\nslf_t\n",
	"libok.gr": "lk = 5\nfunc lkf(a){a+lk}\nprintln(\"lib ok\")\nlkf(2)\n",
}

var loadPrelude = []input{
	{src: `lmode = 0; steps = 100000; walk = func(n){if n<=0 {return 0}; 1+walk(n-1)}; pf = func(n){vpanic()}; gx = 42`, skel: "(S)"},
}

// (value of lmode / steps set by a succeeding input, the failing load)
var loadFailing = []struct {
	set  string
	fail input
}{
	{`lmode = 1`, input{src: `load("m")`, skel: "(S (C 1 d))", fail: "depth-overflow-in-loaded-file"}},
	{`lmode = 2`, input{src: `load("m")`, skel: "(S (C 1 (S p)))", fail: "panic-in-loaded-file"}},
	{`lmode = 3`, input{src: `load("m")`, skel: "(S e)", fail: "error-in-loaded-file"}},
	{`lmode = 4`, input{src: `load("m")`, skel: "(S e)", fail: "deadline-in-loaded-file", maxMs: 4 * time.Millisecond}},
	{`steps = 100000`, input{src: `load("walk")`, skel: "(S (C 1 d))", fail: "depth-overflow-in-loaded-recursion"}},
	{`lmode = 1`, input{src: `func ld(f){load(f)}; ld("m")`, skel: "(S (C 0 (S (C 1 d))))", fail: "depth-overflow-in-file-loaded-by-function", neutral: true}},
}

// later: the same file and other files load again, globals are still there, save() works
var loadTail = []input{
	{src: `lmode = 0; steps = 7`, skel: "(S)"},
	{src: `println(load("m"))`, skel: "(S)"},
	{src: `println(load("walk"))`, skel: "(S)"},
	{src: `println(load("libok"), lkf(gx))`, skel: "(S)"},
	{src: `println(save("svk").filename, load("m"))`, skel: "(S)"},
}

// (1) failures that pass THROUGH catch() and memoizable functions: what the failed input computed on the way must
// not survive in the function cache; the probes call the same functions with the same arguments afterwards.
var catchPrelude = []input{
	{src: `cdeep = func(n){if n<=0 {0} else {1+cdeep(n-1)}}; cg = func(n){catch(cdeep(n))}; cnest = func(k){if k<=0 {cg(6); nosuchname} else {cnest(k-1)}}`, skel: "(S)"},
	{src: `cslow = func(n){catch(slow(n))}; csl = func(n){catch(sleep(n))}; cuj = func(txt){catch(unjson(txt))}; cld = func(f){catch(load(f))}; cev = func(n){catch(eval("slow(" + str(n) + ")"))}`, skel: "(S)"},
	{src: `cg(2)`, skel: "(S (C 1 (S (C 1 (S)))))"},
}

// (2) failures raised inside macro bodies; probes afterwards touch every layer of the State
var macroPrelude = []input{
	{src: `mdep = macro(x){ mf = func(n){if n<=0 {0} else {1+mf(n-1)}}; mf(100); quote(unquote(x)) }`, skel: "(S)"},
	{src: `mmem = macro(x){ [0]*(1<<62); quote(unquote(x)) }`, skel: "(S)"},
	{src: `merr = macro(x){ 1+nosuchinmacro; quote(unquote(x)) }`, skel: "(S)"},
	{src: `mspin = macro(x){ for true {}; quote(unquote(x)) }`, skel: "(S)"},
	{src: `mok = macro(x){ quote(unquote(x) + 1) }; gx = 42; mg = func(n){n*gx}; mg(3)`, skel: "(S (C 1 (S)))"},
}

type famFail struct {
	in     input
	probes []string // inputs submitted later (twice), calling the same functions with the same arguments
}

func catchFamily() []famFail {
	var out []famFail
	for d := 10; d <= 18; d += 2 {
		out = append(out, famFail{input{src: `cnest(8)`, skel: "(S (C 1 d))", fail: "depth-limit-under-catch-in-nested-calls", depth: d},
			[]string{`cg(6)`, `cg(6).value + 1`}})
	}
	out = append(out,
		famFail{input{src: fmt.Sprintf(`cslow(%d).nosuch.x + nosuchname`, slowN), skel: "(S e)", fail: "deadline-under-catch", maxMs: 2 * time.Millisecond, neutral: true},
			[]string{fmt.Sprintf(`cslow(%d)`, slowN)}},
		famFail{input{src: `csl(0.05).nosuch.x + nosuchname`, skel: "(S e)", fail: "deadline-in-sleep-under-catch", maxMs: 2 * time.Millisecond, neutral: true},
			[]string{`csl(0.05)`}},
		famFail{input{src: fmt.Sprintf(`cev(%d).nosuch.x + nosuchname`, slowN), skel: "(S e)", fail: "deadline-in-eval-under-catch", maxMs: 2 * time.Millisecond, neutral: true},
			[]string{fmt.Sprintf(`cev(%d)`, slowN)}},
		// every route that evaluates TEXT (in another or in this state) under catch() in a memoizable function
		famFail{input{src: `cuj("ujt=0; for uji = 100000 { ujt = ujt + uji }; ujt").value + 1`, skel: "(S e)", fail: "deadline-in-unjson-under-catch", maxMs: 2 * time.Millisecond},
			[]string{`cuj("ujt=0; for uji = 100000 { ujt = ujt + uji }; ujt").value + 1`}},
		famFail{input{src: `cld("slowf").value + "x"`, skel: "(S e)", fail: "deadline-in-load-under-catch", maxMs: 2 * time.Millisecond},
			[]string{`cld("slowf").value + 1`}},
		famFail{input{src: fmt.Sprintf(`cev(%d).value + "x"`, slowN+7), skel: "(S e)", fail: "deadline-in-eval-under-catch-value", maxMs: 2 * time.Millisecond, neutral: true},
			[]string{fmt.Sprintf(`cev(%d).value + 1`, slowN+7)}},
		famFail{input{src: `cg(400).nosuch.x + nosuchname`, skel: "(S (C 1 d))", fail: "depth-overflow-under-catch"},
			[]string{`cg(400).err`}},
	)
	return out
}

func macroFamily() []famFail {
	probes := []string{`println(mok(5), gx, mg(3))`}
	return []famFail{
		{input{src: `mdep(1)`, skel: "(S d)", fail: "depth-overflow-in-macro-body", depth: 60}, probes},
		{input{src: `func(){ mdep(1) }()`, skel: "(S d)", fail: "depth-overflow-in-macro-body-in-lambda", depth: 60}, probes},
		{input{src: `mmem(1)`, skel: "(S p)", fail: "memory-guard-in-macro-body", neutral: true}, probes},
		{input{src: `merr(1)`, skel: "(S e)", fail: "error-in-macro-body"}, probes},
		{input{src: `mspin(1)`, skel: "(S e)", fail: "deadline-in-macro-body", maxMs: 4 * time.Millisecond}, probes},
	}
}

// one input naming every extension function (evaluating the identifier gives the extension object), and a few used
var layerProbes []input

func initLayerProbes() {
	var names []string
	for k := range object.ExtraFunctions() {
		names = append(names, k)
	}
	sort.Strings(names)
	layerProbes = []input{
		{src: "[" + strings.Join(names, ", ") + "]", skel: "(S)"},
		{src: `println(sprintf("%d-x", 42), str([1,2]), round(3.14), json({"a":1}), abs(-3), split("a,b", ","), len("abc"), first([7]))`, skel: "(S)"},
		{src: `printf("%03.1f|%s\n", 3.14159, keys({"k":1}))`, skel: "(S)"},
	}
}

const slowN = 100000 // a full run of slow(slowN) takes some tens of milliseconds; the failing call gets 2 ms

// (failing call, the very same call re-submitted later with generous limits); %d = argument
var memoPairs = []struct{ fail, again input }{
	{input{src: `slow(%d)`, skel: "(S (C 1 (S (L 11 (S e)))))", fail: "deadline-in-pure-function", maxMs: 2 * time.Millisecond},
		input{src: `println(slow(%d))`, skel: "(S (C 1 (S (L 11))))"}},
	{input{src: `slow2(%d)`, skel: "(S (C 1 (S (C 1 (S (L 11 (S e)))))))", fail: "deadline-in-nested-pure-function", maxMs: 2 * time.Millisecond},
		input{src: `println(slow2(%d), slow(%d))`, skel: "(S (C 1 (S (C 1 (S (L 11))))))"}},
	{input{src: `rdeep(400)`, skel: "(S (C 1 d))", fail: "depth-overflow-in-pure-recursion"},
		input{src: `println(rdeep(400))`, skel: "(S (C 1 (S r)))", depth: 100000}},
	{input{src: `perr(5)`, skel: "(S (C 1 (S (L 11) e)))", fail: "error-in-pure-function"},
		input{src: `println(catch(perr(5)))`, skel: "(S)"}}, // catch() turns the error into a value: control-neutral,
}

var preludeC10 = []input{
	{src: `func deep(n){deep(n+1)}`, skel: "(S)"},
	{src: `func boom(n){for i=0:n{if i==1{error("boom")}}}; func boom2(n){for j=0:2{boom(n)}}`, skel: "(S)"},
	{src: `func pan(n){for i=0:n{if i==1{vpanic()}}}; func pan2(n){pan(n)}; func pan3(a){vprobe(); vpanic()}`, skel: "(S)"},
	{src: `func spin(){for true {}}; func pr(a){vprobe(); println(a)}`, skel: "(S)"},
	{src: `func fact(n){if n<=1 {return 1}; n*fact(n-1)}; cnt=0`, skel: "(S)"},
	{src: `down = func(n){println("at",n); self(n+1)}; hello = func(who){println("hello",who); len(who)}; ppan = func(n){println("pp",n); if n>=2 {vpanic()}; ppan(n+1)}; hello("a")`, skel: "(S (C 0 (S)))"},
	// the function cache made observable: a memoized function that log()s (a remembered call does not log again), and a
	// remembered result over a helper redefined afterwards
	{src: `lf = func(n){log("computing", n); n*2}; hp = func(){2}; mf = func(n){hp()+n}; println(lf(3), mf(1))`, skel: "(S)"},
	{src: `hp = func(){5}; lf(3)`, skel: "(S)"},
	{src: `func stray(){break}; func strayc(){continue}; func sn(n){if n<=0 {break}; sn(n-1)}; func en(n){if n<=0 {error("deep err")}; en(n-1)+0}`, skel: "(S)"},
}

const boomSk = "(C 1 (S (L 11 (S) (S e))))" // boom(k), k>=2
const panSk = "(C 1 (S (L 11 (S) (S p))))"  // pan(k), k>=2

// side-effect-free failing inputs of every kind
var failing = []input{
	{src: `boom2(3)`, skel: "(S (C 1 (S (L 11 (S " + boomSk + ")))))", fail: "error-nested-calls-loops"},
	{src: `for a=0:3{for b=0:2{boom(2)}}`, skel: "(S (L 11 (S (L 11 (S " + boomSk + ")))))", fail: "error-in-toplevel-loops"},
	{src: `for a=0:3{if a==1{break}; for b=0:2{if b==0 {continue}; 1+nosuchvar}}`,
		skel: "(S (L 11 (S (L 11 (S c) (S e)))))", fail: "error-identifier"},
	{src: `error("plain")`, skel: "(S e)", fail: "error-plain"},
	{src: `1 +* 2`, skel: "(S e)", fail: "parse-error"},
	{src: `pan2(3)`, skel: "(S (C 1 (S " + panSk + ")))", fail: "panic-in-function"},
	{src: `for a=0:2{pan(2)}`, skel: "(S (L 11 (S " + panSk + ")))", fail: "panic-in-function-in-loop"},
	{src: `pan3(1)`, skel: "(S (C 1 (S P p)))", fail: "panic-after-probe"},
	{src: `vpanic()`, skel: "(S p)", fail: "panic-toplevel"},
	{src: `deep(0)`, skel: "(S (C 1 d))", fail: "depth-overflow"},
	{src: `for a=0:2{for b=0:2{deep(a)}}`, skel: "(S (L 11 (S (L 11 (S (C 1 d))))))", fail: "depth-overflow-in-loops"},
	{src: `for true {}`, skel: "(S e)", fail: "deadline-toplevel", maxMs: 4 * time.Millisecond},
	{src: `spin()`, skel: "(S (C 0 (S e)))", fail: "deadline-in-function", maxMs: 4 * time.Millisecond},
	{src: `for a=0:2{spin()}`, skel: "(S (L 11 (S (C 0 (S e)))))", fail: "deadline-in-function-in-loop", maxMs: 4 * time.Millisecond},
	// functions that PRINT (into their per-call buffers) at several depths before a panic: nothing of it may reach the
	// session writer, neither now nor with the output of a later call
	{src: `down(0)`, skel: "(S (C 1 d))", fail: "depth-overflow-after-prints-in-functions", depth: 60},
	{src: `ppan(0)`, skel: "(S (C 1 (S (C 1 (S (C 1 (S p)))))))", fail: "panic-after-prints-in-functions"},
	{src: `for a=0:2{hello("x"); ppan(1)}`, skel: "(S (L 11 (S (C 0 (S)) (C 1 (S (C 1 (S p)))))))", fail: "panic-after-prints-in-functions-in-loop", neutral: true},
	// control statements outside loops: ordinary errors raised at an Eval boundary
	{src: `break`, skel: "(S b)", fail: "stray-break-toplevel"},
	{src: `continue`, skel: "(S c)", fail: "stray-continue-toplevel"},
	{src: `stray()`, skel: "(S (C 0 (S b)))", fail: "stray-break-in-function"},
	{src: `x9 = strayc()`, skel: "(S (C 0 (S c)))", fail: "stray-continue-in-function-assigned"},
	{src: `(func(){if true {continue}})()`, skel: "(S (C 0 (S c)))", fail: "stray-continue-in-lambda"},
	{src: `sn(3)`, skel: "(S (C 1 (S (C 1 (S (C 1 (S (C 1 (S b)))))))))", fail: "stray-break-in-nested-calls"},
	{src: `for a=0:2{for b=0:2{x9=stray()}}`, skel: "(S (L 11 (S (L 11 (S (C 0 (S b)))))))", fail: "stray-break-in-function-in-loops"},
	// errors inside nested calls at several depths
	{src: `en(1)`, skel: "(S (C 1 (S (C 1 (S e)))))", fail: "error-nested-calls-depth-2"},
	{src: `en(4)`, skel: "(S (C 1 (S (C 1 (S (C 1 (S (C 1 (S (C 1 (S e)))))))))))", fail: "error-nested-calls-depth-5"},
	// the other error kinds of the evaluator
	{src: `1+"a"`, skel: "(S e)", fail: "error-operand-types"},
	{src: `-"a"`, skel: "(S e)", fail: "error-prefix-operand"},
	{src: `5(1)`, skel: "(S e)", fail: "error-not-a-function"},
	{src: `boom()`, skel: "(S e)", fail: "error-argument-count"},
	{src: `nosuchfunc(1)`, skel: "(S e)", fail: "error-unknown-function"},
	{src: `if 1 {2}`, skel: "(S e)", fail: "error-condition-not-boolean"},
	{src: `for "a" {1}`, skel: "(S e)", fail: "error-for-condition"},
	{src: `for i="a":3 {1}`, skel: "(S e)", fail: "error-for-range"},
	{src: `len(5)`, skel: "(S e)", fail: "error-builtin-argument"},
	{src: `1/0`, skel: "(S e)", fail: "error-division-by-zero"},
	{src: `[1,2][0:"a"]`, skel: "(S e)", fail: "error-range-index"},
	{src: `5[1]=2`, skel: "(S e)", fail: "error-index-assignment"},
	{src: `return 5`, skel: "(S r)", fail: "return-at-toplevel", neutral: true},
}

// Budget probes, appended to every history: what a failing input may have used up without showing it.
//
//	depth:     m nested prefix minus signs cost exactly one depth level each; under MaxDepth 60 the ladder m=54..64
//	           crosses the limit, so a session that starts an input at depth k > 0 panics k steps earlier;
//	registers: d nested counted loops with fresh variable names, then the innermost variable read after the loops:
//	           'identifier not found' as long as the root environment still has d free registers, a value when the
//	           innermost loop had to fall back to a plain variable.
//
// Which ladder steps fail in a CLEAN session is measured once on a fresh state (calibration), the comparison is
// always with the history that never saw the failing inputs.
const probeMaxDepth = 60

func depthProbeSrc(m int) string {
	return strings.Repeat("-(", m) + "1" + strings.Repeat(")", m)
}

func regProbe(d int) (src, loops string) {
	var names []string
	for i := 1; i <= d; i++ {
		names = append(names, fmt.Sprintf("q%d", i))
	}
	body := strings.Join(names, "+")
	sk := "(S)"
	for i := d; i >= 1; i-- {
		body = fmt.Sprintf("for %s=1 {%s}", names[i-1], body)
		sk = "(L 11 " + sk + ")"
		if i > 1 {
			sk = "(S " + sk + ")"
		}
	}
	return body + "; " + names[d-1], sk
}

var probeCache = map[[2]bool][]input{}

func budgetProbes(c *Ctx, noReg bool) []input {
	key := [2]bool{noReg, blankSession}
	if p, ok := probeCache[key]; ok {
		return p
	}
	var ps []input
	for m := 54; m <= 64; m++ {
		ps = append(ps, input{src: depthProbeSrc(m), depth: probeMaxDepth, probe: "depth"})
	}
	for d := 1; d <= 9; d++ {
		src, _ := regProbe(d)
		ps = append(ps, input{src: src, probe: "registers"})
	}
	// calibration on a fresh state: each probe alone after the prelude
	for i := range ps {
		var h []input
		if !blankSession {
			h = append(h, preludeC10...)
		}
		h = append(h, ps[i])
		o := runHistory(c, noReg, h)[len(h)-1]
		_, loops := regProbe(1)
		if ps[i].probe == "registers" {
			_, loops = regProbe(i - 10)
		}
		switch {
		case ps[i].probe == "depth" && o.Class() == "p":
			ps[i].skel = "(S d)"
		case ps[i].probe == "depth":
			ps[i].skel = "(S)"
		case o.Class() == "e":
			ps[i].skel = "(S " + loops + " e)"
		default:
			ps[i].skel = "(S " + loops + ")"
		}
	}
	probeCache[key] = ps
	return ps
}

// generator of succeeding inputs: each depends on the session state built so far
type hgen struct {
	r     *Rng
	vars  []string
	funcs []string
	n     int
}

func (g *hgen) next() input {
	g.n++
	k := g.n
	for {
		switch g.r.Intn(11) {
		case 0:
			return input{src: fmt.Sprintf(`println("a", %d)`, k), skel: "(S)"}
		case 1:
			v := fmt.Sprintf("x%d", k)
			g.vars = append(g.vars, v)
			return input{src: fmt.Sprintf(`%s = %d*3`, v, k), skel: "(S)"}
		case 2:
			if len(g.vars) == 0 {
				continue
			}
			return input{src: fmt.Sprintf(`println(%s + 1)`, g.vars[g.r.Intn(len(g.vars))]), skel: "(S)"}
		case 3:
			f := fmt.Sprintf("h%d", k)
			g.funcs = append(g.funcs, f)
			return input{src: fmt.Sprintf(`func %s(a,b){a*b+%d}`, f, k), skel: "(S)"}
		case 4:
			if len(g.funcs) == 0 {
				continue
			}
			return input{src: fmt.Sprintf(`println(%s(%d,4))`, g.funcs[g.r.Intn(len(g.funcs))], k), skel: "(S (C 2 (S)))"}
		case 5:
			return input{src: fmt.Sprintf(`t=0; for i=0:4{t=t+i*%d}; println(t)`, k), skel: "(S (L 11 (S) (S) (S) (S)))"}
		case 6:
			return input{src: `for i=0:3{vprobe()}`, skel: "(S (L 11 (S P) (S P) (S P)))"}
		case 7:
			return input{src: fmt.Sprintf(`pr(%d)`, k), skel: "(S (C 1 (S P)))"}
		case 8:
			return input{src: `cnt = cnt + 1; println(cnt)`, skel: "(S)"}
		case 9:
			return input{src: fmt.Sprintf(`for i=0:2{for j=0:3{if j==1{break}; println(i*10+j+%d)}}`, k),
				skel: "(S (L 11 (S (L 11 (S) (S b))) (S (L 11 (S) (S b)))))"}
		default:
			n := 2 + g.r.Intn(4)
			sk := "(C 1 (S r))"
			for i := 1; i < n; i++ {
				sk = "(C 1 (S " + sk + "))"
			}
			return input{src: fmt.Sprintf(`println(fact(%d))`, n), skel: "(S " + sk + ")"}
		}
	}
}

// true while the blank-session family runs: histories are evaluated on eval.NewBlankState()
var blankSession bool

func runHistory(c *Ctx, noReg bool, h []input) []SessObs {
	x := NewSess(noReg, maxDepthC10)
	if blankSession {
		x = NewBlankSess(noReg, maxDepthC10)
	}
	x.S.NoLog = true // log() prints to LogOut (the session buffer): a remembered call must not log again
	var obs []SessObs
	for _, in := range h {
		x.S.MaxDepth = maxDepthC10
		if in.depth > 0 {
			x.S.MaxDepth = in.depth
		}
		obs = append(obs, x.Run(in.src, in.maxMs))
		c.Eval()
	}
	return obs
}

func encodeHist(noReg bool, h []input) string {
	var parts []string
	for _, in := range h {
		tag := "s"
		if in.fail != "" {
			tag = "f"
		}
		parts = append(parts, fmt.Sprintf("%s%d/%d:%s", tag, in.maxMs/time.Millisecond, in.depth, Hx([]byte(in.src))))
	}
	mode := b01(noReg)
	if blankSession {
		mode += "b"
	}
	return "H " + mode + " " + strings.Join(parts, ",")
}

func decodeHist(cs string) (bool, []input) {
	f := strings.Fields(cs)
	if len(f) != 3 || f[0] != "H" {
		return false, nil
	}
	var h []input
	for _, p := range strings.Split(f[2], ",") {
		a, b, _ := strings.Cut(p, ":")
		msS, dS, _ := strings.Cut(a[1:], "/")
		ms, _ := strconv.Atoi(msS)
		dp, _ := strconv.Atoi(dS)
		in := input{src: string(Unhx(b)), maxMs: time.Duration(ms) * time.Millisecond, depth: dp}
		if a[0] == 'f' {
			in.fail = "replayed"
		}
		h = append(h, in)
	}
	blankSession = strings.HasSuffix(f[1], "b")
	return strings.HasPrefix(f[1], "1"), h
}

func b01(b bool) string {
	if b {
		return "1"
	}
	return "0"
}

func sameObs(a, b SessObs) string {
	switch {
	case a.Panicked != b.Panicked:
		return "panic-flag-differs"
	case a.Out != b.Out && b.Out == "":
		return "output-lost"
	case a.Out != b.Out:
		return "output-differs"
	case strings.Join(a.Errs, "\x00") != strings.Join(b.Errs, "\x00"):
		return "errors-differ"
	}
	return ""
}

// check one interleaved history against its base; base observations are for the inputs with fail == ""
func checkHistory(c *Ctx, noReg bool, h []input, baseObs []SessObs, withModel bool) {
	obs := runHistory(c, noReg, h)
	bi := 0
	lastFail := ""
	reported := false
	failErrs := map[string]string{} // error text of a failing input -> its kind
	for i, in := range h {
		if in.fail != "" {
			lastFail = in.fail
			for _, e := range obs[i].Errs {
				failErrs[e] = in.fail
			}
			if in.neutral {
				c.Count("fail=" + in.fail)
				continue
			}
			if obs[i].Class() == "v" {
				c.Fail("failing-input-did-not-fail:"+in.fail, encodeHist(noReg, h), fmt.Sprintf("input %d %q evaluated without error", i, in.src))
			} else if obs[i].Out != "" && !strings.HasPrefix(in.fail, "error") && in.fail != "parse-error" {
				c.Fail("failing-input-printed:"+in.fail, encodeHist(noReg, h), fmt.Sprintf("input %d %q printed %q", i, in.src, obs[i].Out))
			}
			c.Count("fail=" + in.fail)
			continue
		}
		if d := sameObs(baseObs[bi], obs[i]); d != "" && !reported {
			kind := lastFail
			if kind == "" {
				kind = "nothing"
			}
			// the succeeding input now reports (or prints) the very error an earlier failing input ended with
			for e, k := range failErrs {
				msg := strings.TrimSuffix(strings.TrimPrefix(e, "<err: "), ">")
				if len(baseObs[bi].Errs) == 0 && (strings.Contains(strings.Join(obs[i].Errs, " "), msg) || strings.Contains(obs[i].Out, msg)) {
					kind, d = k, "cached-error-replayed"
				}
			}
			if in.probe == "cache" {
				d = "stale-cached-result"
			} else if in.probe != "" {
				d = in.probe + "-budget-shrunk"
			}
			c.Fail("trace-after-"+kind+":"+d, encodeHist(noReg, h),
				fmt.Sprintf("input %d %q: without the failing inputs out=%q errs=%q panicked=%v ; with them out=%q errs=%q panicked=%v",
					i, in.src, baseObs[bi].Out, baseObs[bi].Errs, baseObs[bi].Panicked, obs[i].Out, obs[i].Errs, obs[i].Panicked))
			reported = true
		}
		bi++
	}
	if withModel {
		var sk, ob []string
		for i, in := range h {
			sk = append(sk, in.skel)
			ob = append(ob, obs[i].ModelField())
		}
		regs := "1"
		if noReg {
			regs = "0"
		}
		c.Case("SESS "+regs+" "+strings.Join(sk, "|"), strings.Join(ob, " "))
	}
	c.NonTrivial(encodeHist(noReg, h))
}

// splitWriterCases (round 12): an embedder's session, where the session writer (State.Out: what println writes to) is NOT the
// per-input writer handed to repl.EvalOne (which receives the echo of the result). A failing input of every kind - also one
// that panics while a function call has redirected State.Out - must leave State.Out on the session writer: the output of the
// following inputs goes where it went before, and nothing of it lands in a per-input buffer.
func splitWriterCases(c *Ctx) {
	bads := []string{`vpanic()`, `func pf(){vpanic()}; pf()`, `func pg(n){println("in", n); vpanic()}; pg(1)`, `[1, vpanic()]`, `println("x", vpanic())`,
		`func rr(n){rr(n+1)}; rr(0)`, `func ra(n){[ra(n+1)]}; ra(0)`, `1/0`, `undefined_name_zz`, `for i = 3 {vpanic()}`, `catch(vpanic())`, `(`}
	for _, noReg := range []bool{false, true} {
		for _, bad := range bads {
			for reps := 1; reps <= 2; reps++ {
				x := NewSess(noReg, maxDepthC10)
				x.S.NoLog = true
				step := func(in string) (sess, res string, panicked bool) {
					x.Buf.Reset()
					var rb bytes.Buffer
					_, p, _, _ := repl.EvalOne(context.Background(), x.S, in, &rb, x.Opts)
					c.Eval()
					return x.Buf.String(), rb.String(), p
				}
				cs := fmt.Sprintf("SPLIT %s %d %s", b01(noReg), reps, Hx([]byte(bad)))
				if so, _, _ := step(`println("a")`); so != "a\n" {
					c.Fail("split-writer:println-not-on-session-writer", cs, fmt.Sprintf("before any failure println(\"a\") wrote %q to the session writer", so))
					continue
				}
				pk := false
				for i := 0; i < reps; i++ {
					_, _, p := step(bad)
					pk = pk || p
				}
				so, ro, _ := step(`println("hello")`)
				if so != "hello\n" || strings.Contains(ro, "hello") || !x.S.VerifOutIs(x.Buf) {
					c.Fail("split-writer:session-writer-replaced-after-failed-input", cs, fmt.Sprintf("after %d x %q (panicked=%v) println(\"hello\") wrote %q to the session writer and %q to the per-input writer; State.Out is the session writer: %v", reps, bad, pk, so, ro, x.S.VerifOutIs(x.Buf)))
				}
				c.Count("split-writer-history")
				if pk {
					c.Count("split-writer-history-with-recovered-panic")
				}
			}
		}
	}
}

func runC10(c *Ctx) {
	// library functions written in grol (keys, abs, str, printf, log2), eval, unjson, and load/save
	_ = extensions.Init(&extensions.Config{HasLoad: true, HasSave: true})
	// load()/save() work on plain names in the current directory: a scratch directory under the run directory
	if abs, err := filepath.Abs(c.Out); err == nil {
		c.Out = abs
		libDir := filepath.Join(abs, "c10lib")
		if os.MkdirAll(libDir, 0o755) == nil {
			for name, content := range libFiles {
				_ = os.WriteFile(filepath.Join(libDir, name), []byte(content), 0o644)
			}
			if cwd, err := os.Getwd(); err == nil && os.Chdir(libDir) == nil {
				defer os.Chdir(cwd) //nolint:errcheck // best effort
			}
		}
	}
	c.Rule = "a history is non-trivial when at least one failing input is followed by a succeeding input whose output depends on the session (every generated history is: the base always ends with state-dependent inputs)"
	if strings.HasPrefix(c.ReplayCase, "SPLIT ") {
		splitWriterCases(c)
		return
	}
	if c.ReplayCase != "" {
		noReg, h := decodeHist(c.ReplayCase)
		var base []input
		for _, in := range h {
			if in.fail == "" {
				base = append(base, in)
			}
		}
		if h != nil {
			bo := runHistory(c, noReg, base)
			checkHistory(c, noReg, h, bo, false)
			for i, o := range runHistory(c, noReg, h) {
				fmt.Printf("input %d %q -> %s out=%q errs=%q\n", i, h[i].src, o.ModelField(), o.Out, o.Errs)
			}
		}
		return
	}
	splitWriterCases(c)
	nBases, nRandom := 8, 600
	if c.Thorough() {
		nBases, nRandom = 160, 20000
	}
	// corpus first: the two histories that failed on the pinned tree
	corpus := [][]input{
		{failing[9], {src: `println("b")`, skel: "(S)"}, {src: `1+1`, skel: "(S)"}},
		{failing[1], failing[1], failing[1], failing[1], failing[1], failing[1], failing[1], failing[1], failing[1], {src: `for i=0:3{println(i)}`, skel: "(S (L 11 (S) (S) (S)))"}},
		{failing[6], failing[10], {src: `pr(5)`, skel: "(S (C 1 (S P)))"}, {src: `for i=0:3{vprobe()}`, skel: "(S (L 11 (S P) (S P) (S P)))"}},
	}
	for _, tail := range corpus {
		for mode := 0; mode < 2; mode++ {
			h := append(append([]input{}, preludeC10...), tail...)
			var base []input
			for _, in := range h {
				if in.fail == "" {
					base = append(base, in)
				}
			}
			checkHistory(c, mode == 1, h, runHistory(c, mode == 1, base), true)
			c.Count("corpus")
		}
	}
	// a failing call inside a pure (memoizable) function, then the very same call with generous limits
	nMemo := 10
	if c.Thorough() {
		nMemo = 120
	}
	for i := 0; i < nMemo; i++ {
		for pi, mp := range memoPairs {
			arg := slowN + c.R.Intn(1000)
			fill := func(in input) input {
				if n := strings.Count(in.src, "%d"); n == 1 {
					in.src = fmt.Sprintf(in.src, arg)
				} else if n == 2 {
					in.src = fmt.Sprintf(in.src, arg, arg)
				}
				return in
			}
			f, again := fill(mp.fail), fill(mp.again)
			g := &hgen{r: c.R}
			base := append(append([]input{}, preludeC10...), memoPrelude...)
			h := append([]input{}, base...)
			for j := c.R.Intn(3); j > 0; j-- {
				in := g.next()
				base, h = append(base, in), append(h, in)
			}
			for m := 1 + c.R.Intn(2); m > 0; m-- {
				h = append(h, f)
			}
			for j := c.R.Intn(3); j > 0; j-- {
				in := g.next()
				base, h = append(base, in), append(h, in)
			}
			tail := []input{again, again, {src: `cnt = cnt + 1; println(cnt)`, skel: "(S)"}}
			base, h = append(base, tail...), append(h, tail...)
			noReg := (i+pi)%4 == 3
			checkHistory(c, noReg, h, runHistory(c, noReg, base), true)
			c.Count("memo-resubmission=" + mp.fail.fail)
		}
	}
	// failures in foreign-rooted functions and in code re-entered through eval()
	nForeign := 4
	if c.Thorough() {
		nForeign = 25
	}
	for i := 0; i < nForeign; i++ {
		for fi, f := range foreignFailing {
			for m := 1; m <= 2; m++ {
				g := &hgen{r: c.R}
				base := append(append([]input{}, preludeC10...), foreignPrelude...)
				h := append([]input{}, base...)
				for j := c.R.Intn(3); j > 0; j-- {
					in := g.next()
					base, h = append(base, in), append(h, in)
				}
				for k := 0; k < m; k++ {
					h = append(h, f)
				}
				for j := c.R.Intn(3); j > 0; j-- {
					in := g.next()
					base, h = append(base, in), append(h, in)
				}
				noReg := (i+fi)%4 == 3
				tail := append(append([]input{}, foreignTail...), input{src: `cnt = cnt + 1; println(cnt)`, skel: "(S)"})
				tail = append(tail, budgetProbes(c, noReg)...)
				base, h = append(base, tail...), append(h, tail...)
				// neutral low-depth inputs have an outcome that is not predicted: no model line for them
				checkHistory(c, noReg, h, runHistory(c, noReg, base), !f.neutral)
				c.Count("foreign-or-reentrant=" + f.fail)
			}
		}
	}
	// failures through catch()/memoized functions and inside macro bodies, then probes on every layer of the State
	NewSess(false, 0)                 // initialises the harness extensions and the log settings
	log.SetLogLevelQuiet(log.Warning) // log() is skipped at Error and above; the logger's own output stays discarded
	initLayerProbes()
	nFam := 2
	if c.Thorough() {
		nFam = 30
	}
	for i := 0; i < nFam; i++ {
		for which, fam := range [][]famFail{catchFamily(), macroFamily()} {
			for fi, ff := range fam {
				for m := 1; m <= 2; m++ {
					g := &hgen{r: c.R}
					base := append([]input{}, preludeC10...)
					base = append(base, memoPrelude[0])
					if which == 0 {
						base = append(base, catchPrelude...)
					} else {
						base = append(base, macroPrelude...)
					}
					h := append([]input{}, base...)
					for k := 0; k < m; k++ {
						h = append(h, ff.in)
					}
					for j := c.R.Intn(3); j > 0; j-- {
						in := g.next()
						base, h = append(base, in), append(h, in)
					}
					noReg := (i+fi)%4 == 3
					var tail []input
					for rep := 0; rep < 2; rep++ {
						for _, p := range ff.probes {
							tail = append(tail, input{src: p, skel: "(S)", probe: "cache"})
						}
					}
					tail = append(tail, layerProbes...)
					tail = append(tail, input{src: `cnt = cnt + 1; println(cnt)`, skel: "(S)"})
					tail = append(tail, budgetProbes(c, noReg)...)
					base, h = append(base, tail...), append(h, tail...)
					// skeletons of the probe calls are not written out (calls, catch): no model line for these histories
					checkHistory(c, noReg, h, runHistory(c, noReg, base), false)
					c.Count("catch-or-macro-family=" + ff.in.fail)
				}
			}
		}
	}
	// sessions on eval.NewBlankState() (no extensions, no pre-seeded identifiers), persistent across inputs
	blankPrelude := []input{
		{src: `func deep(n){deep(n+1)}; x = 42; cnt = 0; func fact(n){if n<=1 {return 1}; n*fact(n-1)}`, skel: "(S)"},
		{src: `func boom(n){for i=0:n{if i==1{error("boom")}}}; func spin(){for true {}}; func stray(){break}; hello = func(who){println("hello",who); len(who)}`, skel: "(S)"},
		{src: `lf = func(n){log("computing", n); n*2}; hp = func(){2}; mf = func(n){hp()+n}; println(lf(3), mf(1))`, skel: "(S)"},
		{src: `hp = func(){5}; lf(3)`, skel: "(S)"},
	}
	blankFailing := []input{
		{src: `deep(0)`, skel: "(S (C 1 d))", fail: "blank-session-depth-overflow"},
		{src: `for a=0:2{for b=0:2{deep(a)}}`, skel: "(S (L 11 (S (L 11 (S (C 1 d))))))", fail: "blank-session-depth-overflow-in-loops"},
		{src: `x + deep(1)`, skel: "(S (C 1 d))", fail: "blank-session-depth-overflow-in-expression"},
		{src: `for a=0:3{boom(2)}`, skel: "(S (L 11 (S (C 1 (S (L 11 (S) (S e)))))))", fail: "blank-session-error-in-function-in-loop"},
		{src: `1+nosuchvar`, skel: "(S e)", fail: "blank-session-error"},
		{src: `stray()`, skel: "(S (C 0 (S b)))", fail: "blank-session-stray-break"},
		{src: `1 +* 2`, skel: "(S e)", fail: "blank-session-parse-error"},
		{src: `spin()`, skel: "(S (C 0 (S e)))", fail: "blank-session-deadline", maxMs: 4 * time.Millisecond},
		{src: `[0]*(1<<62)`, skel: "(S p)", fail: "blank-session-memory-guard", neutral: true},
	}
	blankTail := []input{
		{src: `println("x is", x); x = x + 1`, skel: "(S)"},
		{src: `println(fact(5), hello("z")); for i=0:3 {cnt = cnt + i}; cnt`, skel: "(S (C 1 (S (C 1 (S (C 1 (S (C 1 (S (C 1 (S r)))))))))) (C 0 (S)) (L 11 (S) (S) (S)))"},
		{src: `y = x * 2; func later(a){a + y}; later(1)`, skel: "(S (C 1 (S)))"},
		{src: `println(lf(3), mf(1), lf(4))`, skel: "(S)"},
	}
	nBlank := 2
	if c.Thorough() {
		nBlank = 30
	}
	blankSession = true
	for i := 0; i < nBlank; i++ {
		for fi, f := range blankFailing {
			for m := 1; m <= 3; m++ {
				base := append([]input{}, blankPrelude...)
				h := append([]input{}, base...)
				mid := []input{{src: fmt.Sprintf(`println("mid", %d, x)`, c.R.Intn(99)), skel: "(S)"}, {src: `cnt = cnt + 1; cnt`, skel: "(S)"}}
				pos := c.R.Intn(3)
				base, h = append(base, mid[:pos%len(mid)]...), append(h, mid[:pos%len(mid)]...)
				for k := 0; k < m; k++ {
					h = append(h, f)
				}
				noReg := (i+fi)%4 == 3
				tail := append(append([]input{}, blankTail...), budgetProbes(c, noReg)...)
				base, h = append(base, tail...), append(h, tail...)
				// the skeleton of the tail's recursion is approximate under memoization: no model line when it repeats
				checkHistory(c, noReg, h, runHistory(c, noReg, base), false)
				c.Count("blank-session=" + f.fail)
			}
		}
	}
	blankSession = false
	// failures inside files evaluated by load(), then loading the same and other files again, and save()
	nLoad := 3
	if c.Thorough() {
		nLoad = 40
	}
	for i := 0; i < nLoad; i++ {
		for li, lf := range loadFailing {
			for m := 1; m <= 2; m++ {
				g := &hgen{r: c.R}
				base := append(append([]input{}, preludeC10...), loadPrelude...)
				base = append(base, input{src: lf.set, skel: "(S)"})
				h := append([]input{}, base...)
				for k := 0; k < m; k++ {
					h = append(h, lf.fail)
				}
				for j := c.R.Intn(3); j > 0; j-- {
					in := g.next()
					base, h = append(base, in), append(h, in)
				}
				noReg := (i+li)%4 == 3
				tail := append(append([]input{}, loadTail...), input{src: `cnt = cnt + 1; println(cnt)`, skel: "(S)"})
				tail = append(tail, budgetProbes(c, noReg)...)
				base, h = append(base, tail...), append(h, tail...)
				checkHistory(c, noReg, h, runHistory(c, noReg, base), !lf.fail.neutral)
				c.Count("load-family=" + lf.fail.fail)
			}
		}
	}
	// every failing kind at every position with multiplicity 1..3
	for b := 0; b < nBases; b++ {
		g := &hgen{r: c.R}
		n := 3 + c.R.Intn(6)
		base := append([]input{}, preludeC10...)
		for i := 0; i < n; i++ {
			base = append(base, g.next())
		}
		// the base always ends with inputs that show the accumulated state
		base = append(base, input{src: `cnt = cnt + 1; println(cnt)`, skel: "(S)"}, input{src: `pr(77)`, skel: "(S (C 1 (S P)))"},
			input{src: `hello("bc")`, skel: "(S (C 0 (S)))"}, input{src: `println(lf(3), mf(1), lf(4))`, skel: "(S)"}, input{src: `for i=0:2{hello("bc"); hello("d")}`, skel: "(S (L 11 (S (C 0 (S)) (C 0 (S))) (S (C 0 (S)) (C 0 (S)))))"})
		noReg := b%5 == 4
		lastPos := len(base) // failing inputs go anywhere before the budget probes
		base = append(base, budgetProbes(c, noReg)...)
		baseObs := runHistory(c, noReg, base)
		for i, o := range baseObs {
			if o.Class() != "v" && base[i].probe == "" {
				c.Fail("succeeding-input-failed", encodeHist(noReg, base), fmt.Sprintf("input %d %q: %q", i, base[i].src, o.Errs))
			}
		}
		np := len(preludeC10)
		for _, f := range failing {
			for p := np; p <= lastPos; p++ {
				for m := 1; m <= 3; m++ {
					h := append([]input{}, base[:p]...)
					for k := 0; k < m; k++ {
						h = append(h, f)
					}
					h = append(h, base[p:]...)
					checkHistory(c, noReg, h, baseObs, m == 1 || p%3 == 0)
					c.Count(fmt.Sprintf("multiplicity=%d", m))
				}
			}
		}
		c.Count("base-histories")
	}
	c.Extra["exhaustive"] = true // every failing kind x every position x multiplicity 1..3 for each base history
	// random mixtures of failing kinds
	for i := 0; i < nRandom; i++ {
		g := &hgen{r: c.R}
		n := 2 + c.R.Intn(9)
		base := append([]input{}, preludeC10...)
		h := append([]input{}, preludeC10...)
		for j := 0; j < n; j++ {
			for c.R.Pct(45) {
				h = append(h, failing[c.R.Intn(len(failing))])
			}
			in := g.next()
			base = append(base, in)
			h = append(h, in)
		}
		for c.R.Pct(30) {
			h = append(h, failing[c.R.Intn(len(failing))])
		}
		tail := []input{{src: `cnt = cnt + 1; println(cnt)`, skel: "(S)"}, {src: `pr(78)`, skel: "(S (C 1 (S P)))"}, {src: `hello("bcd")`, skel: "(S (C 0 (S)))"}, {src: `println(lf(3), mf(1), lf(4))`, skel: "(S)"}}
		noReg := c.R.Pct(25)
		tail = append(tail, budgetProbes(c, noReg)...)
		base = append(base, tail...)
		h = append(h, tail...)
		checkHistory(c, noReg, h, runHistory(c, noReg, base), true)
		c.Count("random-mixtures")
	}
}
