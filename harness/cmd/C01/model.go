package main

// The reference evaluator (extracted Coq model + OCaml driver, built by ./check before the harness runs)
// as a line-oriented child process: the harness needs the reference's answer while it runs, to shrink a
// disagreeing program and to give it a narrow signature.

import (
	"bufio"
	"fmt"
	"io"
	"os"
	"os/exec"
	"strings"
	"time"

	"grol.io/grol/ast"
	. "verifharness/common"
)

type modelProc struct {
	cmd      *exec.Cmd
	in       io.WriteCloser
	out      *bufio.Reader
	n        int
	timeouts int
}

// the reference is a pure function with a depth bound (fuel) but no step bound: a program with nested
// unbounded loops can keep it busy for very long.  Such a case is abandoned (and not registered).
const modelDeadline = 8 * time.Second

func modelPath() string {
	if p := os.Getenv("C01_MODEL"); p != "" {
		return p
	}
	for _, p := range []string{"ocaml/build/C01/run", "/verif/ocaml/build/C01/run"} {
		if _, err := os.Stat(p); err == nil {
			return p
		}
	}
	return ""
}

func startModel() *modelProc {
	p := modelPath()
	if p == "" {
		return nil
	}
	cmd := exec.Command(p)
	in, err := cmd.StdinPipe()
	if err != nil {
		return nil
	}
	out, err := cmd.StdoutPipe()
	if err != nil {
		return nil
	}
	cmd.Stderr = os.Stderr
	if err := cmd.Start(); err != nil {
		return nil
	}
	return &modelProc{cmd: cmd, in: in, out: bufio.NewReaderSize(out, 1<<20)}
}

func (m *modelProc) stop() {
	if m == nil {
		return
	}
	m.in.Close()
	_ = m.cmd.Wait()
}

// caseLine is the text after the case id in cases.txt.
func caseLine(src string, prog ast.Node) string {
	// the dump only uses ( ) [ ] - and alphanumerics (token literals are hex inside it): spaces become '_'
	return fmt.Sprintf("EVAL %d %s %s", implMaxDepth, Hx([]byte(src)), strings.ReplaceAll(DumpAST(prog), " ", "_"))
}

// ask returns the model's observation for one case line (without the id), e.g. "OUT - RES V I3" or "SKIP unk".
func (m *modelProc) ask(line string) string {
	m.n++
	id := fmt.Sprintf("q%d", m.n)
	if _, err := fmt.Fprintf(m.in, "%s %s\n", id, line); err != nil {
		return "SKIP model-dead"
	}
	type rd struct {
		s   string
		err error
	}
	ch := make(chan rd, 1)
	out := m.out
	go func() {
		s, err := out.ReadString('\n')
		ch <- rd{s, err}
	}()
	var resp string
	select {
	case r := <-ch:
		if r.err != nil {
			return "SKIP model-dead"
		}
		resp = r.s
	case <-time.After(modelDeadline):
		m.timeouts++
		_ = m.cmd.Process.Kill()
		_ = m.cmd.Wait()
		if nm := startModel(); nm != nil {
			m.cmd, m.in, m.out = nm.cmd, nm.in, nm.out
		}
		return "TIMEOUT"
	}
	resp = strings.TrimRight(resp, "\n")
	if !strings.HasPrefix(resp, id+" ") {
		return "SKIP model-desync"
	}
	return resp[len(id)+1:]
}
