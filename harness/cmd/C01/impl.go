package main

// Running the real implementation on one program and rendering the observation canonically
// (DESIGN Appendix B): OUT <hex printed bytes> RES V <value> | E | P <class>.

import (
	"bytes"
	"context"
	"fmt"
	"math"
	"strings"
	"time"

	"grol.io/grol/ast"
	"grol.io/grol/eval"
	"grol.io/grol/lexer"
	"grol.io/grol/object"
	"grol.io/grol/parser"
	. "verifharness/common"
)

const implTimeout = 1500 * time.Millisecond

const implMaxDepth = 3000 // generated programs recurse a few levels; a runaway recursion ends quickly as P depth

// renderValue prints a value from the concrete Go types: Integer and Float stay distinct, floats by bits,
// maps in stored order, functions as a bare U (the reference does not depend on the printer).
func renderValue(o object.Object, sb *strings.Builder, depth int) {
	if depth > 200 {
		sb.WriteString("?deep")
		return
	}
	o = object.Value(o)
	switch v := o.(type) {
	case object.Integer:
		fmt.Fprintf(sb, "I%d", v.Value)
	case object.Float:
		bits := math.Float64bits(v.Value)
		if v.Value != v.Value {
			bits = 0x7ff8000000000001 // one canonical NaN
		}
		fmt.Fprintf(sb, "F%016x", bits)
	case object.Boolean:
		if v.Value {
			sb.WriteString("B1")
		} else {
			sb.WriteString("B0")
		}
	case object.Null:
		sb.WriteString("N")
	case object.String:
		sb.WriteString("S" + Hx([]byte(v.Value)))
	case object.Function:
		sb.WriteString("U")
	case object.Error:
		sb.WriteString("!E")
	case object.ReturnValue:
		sb.WriteString("!R")
	case object.Extension:
		sb.WriteString("X" + Hx([]byte(v.Name)))
	default:
		switch o.Type() {
		case object.ARRAY:
			sb.WriteString("A[")
			for i, e := range object.Elements(o) {
				if i > 0 {
					sb.WriteString(",")
				}
				renderValue(e, sb, depth+1)
			}
			sb.WriteString("]")
		case object.MAP:
			m := o.(object.Map)
			sb.WriteString("M{")
			for i, k := range object.Elements(o) {
				if i > 0 {
					sb.WriteString(",")
				}
				renderValue(k, sb, depth+1)
				sb.WriteString(":")
				val, _ := m.Get(k)
				renderValue(val, sb, depth+1)
			}
			sb.WriteString("}")
		default:
			sb.WriteString("?" + o.Type().String())
		}
	}
}

type implRes struct {
	obs   string // canonical observation line
	class string // V / E / P
	out   []byte
	val   string
}

func parseProgram(src string) (*ast.Statements, bool) {
	defer func() { recover() }()
	p := parser.New(lexer.New(src))
	prog := p.ParseProgram()
	if len(p.Errors()) != 0 || p.ContinuationNeeded() || prog == nil {
		return nil, false
	}
	return prog, true
}

// runImpl evaluates src on a fresh state. noReg: registers off.
func runImpl(src string, noReg bool) (res implRes) {
	var buf bytes.Buffer
	finish := func(class, rest string) {
		res.class = class
		res.out = append([]byte(nil), buf.Bytes()...)
		res.val = rest
		res.obs = "OUT " + Hx(res.out) + " RES " + class
		if rest != "" {
			res.obs += " " + rest
		}
	}
	s := eval.NewState()
	s.Out = &buf
	s.LogOut = &buf
	s.NoLog = true
	s.NoReg = noReg
	s.MaxDepth = implMaxDepth
	defer func() {
		if r := recover(); r != nil {
			msg := fmt.Sprint(r)
			cl := "go"
			if strings.Contains(msg, "max depth") {
				cl = "depth"
			} else if strings.Contains(msg, "exceed memory") {
				cl = "memory"
			}
			finish("P", cl)
			res.val = cl + ":" + msg
		}
	}()
	p := parser.New(lexer.New(src))
	prog := p.ParseProgram()
	if len(p.Errors()) != 0 {
		finish("X", "parse")
		return
	}
	ctx, cancel := context.WithTimeout(context.Background(), implTimeout)
	defer cancel()
	s.Context = ctx
	s.Cancel = cancel
	obj := s.Eval(prog)
	if ctx.Err() != nil {
		finish("P", "timeout")
		return
	}
	obj = object.Value(obj)
	if obj.Type() == object.ERROR {
		finish("E", "")
		res.val = obj.(object.Error).Value
		return
	}
	var sb strings.Builder
	renderValue(obj, &sb, 0)
	finish("V", sb.String())
	return
}
