package main

// Typed grammar generator of core-language programs (C01).  Types of expressions and variables are
// tracked so that most programs are well typed; with wantIll one node is deliberately given an
// operand of the wrong type.  Every random choice comes from the harness PRNG (c.R).

import (
	"fmt"
	"strings"

	. "verifharness/common"
)

type ty int

const (
	tInt ty = iota
	tFloat
	tBool
	tStr
	tArr // array (elements of type elem)
	tMap // map (int or string keys, int values unless noted)
	tNil
	tFun
	tAny
)

type finfo struct {
	params   []ty
	variadic bool
	ret      ty
}

type vinfo struct {
	name     string
	t        ty
	elem     ty // element type of arrays (tInt / tStr / tAny), value type of maps
	keys     ty // key type of maps (tInt / tStr)
	fn       *finfo
	readonly bool // loop counters, constants: never assigned by generated statements
	isConst  bool
}

type scope struct {
	vars   []*vinfo
	isFunc bool
	ret    ty // return type when isFunc
}

type gen struct {
	r       *Rng
	scopes  []*scope
	ctr     int
	inLoop  int // depth of enclosing loops inside the current function
	wantIll bool
	didIll  bool
	size    int // number of statements generated so far (budget)
	feats   map[string]bool
}

func newGen(r *Rng, wantIll bool) *gen {
	return &gen{r: r, scopes: []*scope{{}}, wantIll: wantIll, feats: map[string]bool{}}
}

func (g *gen) feat(s string)      { g.feats[s] = true }
func (g *gen) pct(p int) bool     { return g.r.Pct(p) }
func (g *gen) n(k int) int        { return g.r.Intn(k) }
func (g *gen) pick(xs ...string) string { return xs[g.r.Intn(len(xs))] }
func (g *gen) fresh(prefix string) string {
	g.ctr++
	return fmt.Sprintf("%s%d", prefix, g.ctr)
}
func (g *gen) cur() *scope { return g.scopes[len(g.scopes)-1] }
func (g *gen) inFunc() bool {
	for _, s := range g.scopes {
		if s.isFunc {
			return true
		}
	}
	return false
}
func (g *gen) retType() ty {
	for i := len(g.scopes) - 1; i >= 0; i-- {
		if g.scopes[i].isFunc {
			return g.scopes[i].ret
		}
	}
	return tAny
}

// visible variables of type t (innermost first); every enclosing function frame and the top level are visible
func (g *gen) varsOf(t ty, writable bool) []*vinfo {
	var out []*vinfo
	seen := map[string]bool{}
	for i := len(g.scopes) - 1; i >= 0; i-- {
		for j := len(g.scopes[i].vars) - 1; j >= 0; j-- {
			v := g.scopes[i].vars[j]
			if seen[v.name] {
				continue
			}
			seen[v.name] = true
			if (t == tAny || v.t == t) && !(writable && v.readonly) {
				out = append(out, v)
			}
		}
	}
	return out
}
func (g *gen) declare(v *vinfo) { g.cur().vars = append(g.cur().vars, v) }

// mark/restore: variables first bound inside a conditional block are not relied upon afterwards
func (g *gen) mark() int        { return len(g.cur().vars) }
func (g *gen) restore(m int)    { g.cur().vars = g.cur().vars[:m] }

// ---------------------------------------------------------------- literals
var intLits = []string{"0", "1", "2", "3", "5", "7", "10", "63", "64", "65", "255", "1000",
	"4294967296", "4611686018427387904", "9223372036854775807", "(-1)", "(-2)", "(-7)",
	"(-9223372036854775807)", "(-9223372036854775807-1)"}
var smallInts = []string{"0", "1", "2", "3", "4", "5"}
var floatLits = []string{"0.5", "2.25", "1.5", "0.25", "8.0", "0.125", "100.0", "1024.0", "3.75", "0.0", "(-3.0)", "(-0.5)", "2.0", "4.0"}
var shiftLits = []string{"0", "1", "2", "31", "62", "63", "64", "65"}

func (g *gen) intLit() string {
	if g.pct(50) {
		return fmt.Sprint(g.n(20))
	}
	return intLits[g.n(len(intLits))]
}

func (g *gen) strLit() string {
	n := g.n(7)
	if g.pct(10) {
		n = 8 + g.n(8)
	}
	var sb strings.Builder
	sb.WriteByte('"')
	for i := 0; i < n; i++ {
		switch k := g.n(40); {
		case k == 0:
			sb.WriteString(`\"`)
		case k == 1:
			sb.WriteString(`\\`)
		case k == 2:
			sb.WriteString(`\n`)
		case k == 3:
			sb.WriteString(`\t`)
		case k == 4:
			sb.WriteString(g.pick(`\xff`, `\xfe`, `\xc0`, `\x80`, `\xc3`, `\xe2\x82`, `\xc3\xa9`, `\xe2\x82\xac`, `\xf0\x9f\x98\x80`,
				`\xc2\xa0`, `\xc2\xad`, `\xe2\x80\x8b`, `\xe2\x80\xa8`, `\xef\xbb\xbf`, `\xc2\x85`, `\xee\x80\x80`))
			g.feat("highbyte")
		case k < 12:
			sb.WriteByte(" !#$%&'()*+,-./:;<=>?@[]^_`{|}~"[g.n(31)])
		case k < 20:
			sb.WriteByte(byte('0' + g.n(10)))
		default:
			sb.WriteByte(byte('a' + g.n(26)))
		}
	}
	sb.WriteByte('"')
	return sb.String()
}

func (g *gen) containerSize() int {
	// both sides of the small/large thresholds (arrays 8, maps 4)
	switch g.n(10) {
	case 0:
		return 0
	case 1:
		return 1
	case 2:
		return 4
	case 3:
		return 5
	case 4:
		return 8
	case 5:
		return 9
	case 6:
		return 12
	default:
		return g.n(13)
	}
}

// ---------------------------------------------------------------- expressions
// ill: should this node get a wrongly typed operand?
func (g *gen) ill() bool {
	if g.wantIll && !g.didIll && g.pct(8) {
		g.didIll = true
		g.feat("ill-typed")
		return true
	}
	return false
}

func (g *gen) otherType(t ty) ty {
	for {
		o := ty(g.n(7))
		if o != t {
			return o
		}
	}
}

func (g *gen) expr(t ty, d int) string {
	if g.ill() {
		t = g.otherType(t)
	}
	switch t {
	case tInt:
		return g.intExpr(d)
	case tFloat:
		return g.floatExpr(d)
	case tBool:
		return g.boolExpr(d)
	case tStr:
		return g.strExpr(d)
	case tArr:
		return g.arrExpr(d, tInt)
	case tMap:
		return g.mapExpr(d)
	case tNil:
		return g.pick("nil", "first([])", "rest([1])", "nil")
	case tFun:
		return g.lambda(d, []ty{tInt}, tInt)
	default:
		return g.expr(ty(g.n(6)), d)
	}
}

func (g *gen) varOr(t ty, fallback func() string) string {
	vs := g.varsOf(t, false)
	if len(vs) > 0 && g.pct(70) {
		v := vs[g.n(len(vs))]
		if t == tArr || t == tMap {
			return v.name
		}
		return v.name
	}
	return fallback()
}

func (g *gen) paren(s string) string {
	if g.pct(70) {
		return "(" + s + ")"
	}
	return s
}

var intOps = []string{"+", "-", "*", "/", "%", "<<", ">>", "&", "|", "^"}

func (g *gen) intExpr(d int) string {
	if d <= 0 {
		return g.varOr(tInt, g.intLit)
	}
	switch k := g.n(100); {
	case k < 20:
		return g.varOr(tInt, g.intLit)
	case k < 50:
		op := intOps[g.n(len(intOps))]
		g.feat("int" + op)
		l := g.intExpr(d - 1)
		r := g.intExpr(d - 1)
		if op == "<<" || op == ">>" {
			if g.pct(80) {
				r = shiftLits[g.n(len(shiftLits))]
			}
		}
		if (op == "/" || op == "%") && g.pct(85) {
			r = g.pick("1", "2", "3", "7", "(-1)", "(-2)", "10")
		}
		// mostly unparenthesised: the real parser's precedence and associativity decide the tree
		return g.paren(l + " " + op + " " + r)
	case k < 56:
		g.feat("prefix-")
		return g.pick("-", "~", "+", "- -", "-~", "~-") + g.atomInt(d-1)
	case k < 62:
		g.feat("len")
		switch g.n(3) {
		case 0:
			return "len(" + g.strExpr(d-1) + ")"
		case 1:
			return "len(" + g.arrExpr(d-1, tAny) + ")"
		default:
			return "len(" + g.mapExpr(d-1) + ")"
		}
	case k < 68:
		g.feat("str-index")
		return g.atomStr(d-1) + "[" + g.indexExpr(d-1) + "]"
	case k < 76:
		g.feat("arr-index")
		return g.atomArr(d-1, tInt) + "[" + g.indexExpr(d-1) + "]"
	case k < 78:
		g.feat("map-index")
		return g.mapAtom(d-1, tInt) + "[" + g.intKey() + "]"
	case k < 80:
		g.feat("map-dot")
		return g.mapAtom(d-1, tStr) + "." + g.pick("a", "b", "c", "k", "key", "value", "z", "A", "ab", "err", "x1", "nope")
	case k < 90:
		if c := g.call(tInt, d-1); c != "" {
			return c
		}
		return g.intLit()
	case k < 95:
		g.feat("if-expr")
		return "(if " + g.boolExpr(d-1) + " {" + g.intExpr(d-1) + "} else {" + g.intExpr(d-1) + "})"
	default:
		return g.intLit()
	}
}

func (g *gen) atomInt(d int) string {
	if g.pct(50) {
		return g.varOr(tInt, g.intLit)
	}
	return "(" + g.intExpr(d) + ")"
}

// index values: mostly within -len-1 .. len+1 of typical containers
func (g *gen) indexExpr(d int) string {
	switch k := g.n(10); {
	case k < 4:
		return fmt.Sprint(g.n(6))
	case k < 7:
		return fmt.Sprintf("-%d", 1+g.n(6))
	case k < 8:
		return g.pick("12", "13", "-13", "100", "nil")
	default:
		return g.intExpr(d)
	}
}

func (g *gen) intKey() string {
	if g.pct(80) {
		return fmt.Sprint(g.n(8))
	}
	return g.pick("1.0", "2.0", "-1", "100", "nil", "\"1\"")
}

func (g *gen) floatExpr(d int) string {
	lit := func() string { return floatLits[g.n(len(floatLits))] }
	if d <= 0 {
		return g.varOr(tFloat, lit)
	}
	switch k := g.n(100); {
	case k < 25:
		return g.varOr(tFloat, lit)
	case k < 65:
		op := g.pick("+", "-", "*", "/", "%")
		g.feat("float" + op)
		l := g.floatExpr(d - 1)
		r := g.floatExpr(d - 1)
		if g.pct(25) { // mixed int/float
			g.feat("int-float-mix")
			if g.pct(50) {
				l = fmt.Sprint(g.n(9))
			} else {
				r = fmt.Sprint(1 + g.n(8))
			}
		}
		if op == "/" && g.pct(80) {
			r = g.pick("2.0", "4.0", "0.5", "8.0", "2", "0.25")
		}
		return g.paren(l + " " + op + " " + r)
	case k < 72:
		return "-" + "(" + g.floatExpr(d-1) + ")"
	case k < 85:
		if c := g.call(tFloat, d-1); c != "" {
			return c
		}
		return lit()
	default:
		return lit()
	}
}

func (g *gen) boolExpr(d int) string {
	lit := func() string { return g.pick("true", "false") }
	if d <= 0 {
		return g.varOr(tBool, lit)
	}
	switch k := g.n(100); {
	case k < 10:
		return g.varOr(tBool, lit)
	case k < 45:
		op := g.pick("==", "!=", "<", ">", "<=", ">=")
		g.feat("cmp" + op)
		var l, r string
		switch g.n(8) {
		case 0, 1, 2:
			l, r = g.intExpr(d-1), g.intExpr(d-1)
		case 3:
			l, r = g.floatExpr(d-1), g.floatExpr(d-1)
		case 4:
			l, r = g.strExpr(d-1), g.strExpr(d-1)
		case 5:
			g.feat("cmp-int-float")
			l, r = g.intExpr(d-1), g.floatExpr(d-1)
			if g.pct(40) {
				g.feat("edge-int-float-cmp")
				l, r = edgeInts[g.n(len(edgeInts))], edgeFloats[g.n(len(edgeFloats))]
			}
			if g.pct(50) {
				l, r = r, l
			}
		case 6:
			g.feat("cmp-containers")
			if g.pct(50) {
				l, r = g.arrExpr(d-1, tInt), g.arrExpr(d-1, tInt)
			} else {
				l, r = g.mapExpr(d-1), g.mapExpr(d-1)
			}
		default:
			g.feat("cmp-cross-type")
			l, r = g.expr(ty(g.n(7)), d-1), g.expr(ty(g.n(7)), d-1)
		}
		return g.paren(l + " " + op + " " + r)
	case k < 70:
		op := g.pick("&&", "||")
		g.feat("logic" + op)
		l, r := g.boolExpr(d-1), g.boolExpr(d-1)
		if g.pct(6) { // short circuit must skip effects and errors on the right
			g.feat("short-circuit-effect")
			r = g.pick("(1/0 == 1)", "error(\"never\")", "(println(\"rhs\") == nil)")
		}
		return g.paren(l + " " + op + " " + r)
	case k < 80:
		g.feat("prefix!")
		return "!" + g.pick("", "!") + "(" + g.boolExpr(d-1) + ")"
	case k < 88:
		if c := g.call(tBool, d-1); c != "" {
			return c
		}
		return lit()
	case k < 93:
		g.feat("catch")
		return "catch(" + g.riskyExpr(d-1) + ").err"
	default:
		return lit()
	}
}

// an expression that may end in a language error
func (g *gen) riskyExpr(d int) string {
	switch g.n(6) {
	case 0:
		return g.intExpr(d) + " / " + g.pick("0", "1", g.intExpr(d))
	case 1:
		return g.intExpr(d) + " % " + g.pick("0", "2")
	case 2:
		return "1 << " + g.pick("(-1)", "3", "64")
	case 3:
		return "error(" + g.strLit() + ", " + g.intExpr(d) + ")"
	case 4:
		return g.strExpr(d) + "[" + g.pick("2:1", "1:2", "0:0") + "]"
	default:
		return g.intExpr(d)
	}
}

func (g *gen) atomStr(d int) string {
	if g.pct(50) {
		return g.varOr(tStr, g.strLit)
	}
	return "(" + g.strExpr(d) + ")"
}

func (g *gen) sliceBounds(d int) string {
	b := func() string {
		switch k := g.n(10); {
		case k < 4:
			return fmt.Sprint(g.n(7))
		case k < 7:
			return fmt.Sprintf("-%d", 1+g.n(7))
		case k < 8:
			return g.pick("13", "-13", "100", "-100")
		default:
			return g.intExpr(d)
		}
	}
	g.feat("slice")
	if g.pct(30) {
		return b() + ":"
	}
	if g.pct(75) { // ordered bounds of the same sign
		l := g.n(6)
		r := l + g.n(6)
		if g.pct(40) {
			return fmt.Sprintf("-%d:-%d", r+1, l+1)
		}
		return fmt.Sprintf("%d:%d", l, r)
	}
	return b() + ":" + b()
}

func (g *gen) strExpr(d int) string {
	if d <= 0 {
		return g.varOr(tStr, g.strLit)
	}
	switch k := g.n(100); {
	case k < 30:
		return g.varOr(tStr, g.strLit)
	case k < 50:
		g.feat("str+")
		return g.paren(g.strExpr(d-1) + " + " + g.strExpr(d-1))
	case k < 58:
		g.feat("str*")
		return g.paren(g.atomStr(d-1) + " * " + g.pick("0", "1", "2", "3", "(-1)"))
	case k < 75:
		return g.atomStr(d-1) + "[" + g.sliceBounds(d-1) + "]"
	case k < 80:
		g.feat("first-str")
		return "first(" + g.pick("\"x\"", "\"abc\"", g.varOr(tStr, func() string { return "\"yz\"" })) + ")"
	case k < 88:
		if c := g.call(tStr, d-1); c != "" {
			return c
		}
		return g.strLit()
	case k < 92:
		g.feat("catch")
		return "catch(error(" + g.strLit() + ")).value"
	default:
		return g.strLit()
	}
}

func (g *gen) atomArr(d int, elem ty) string {
	vs := g.arrVars(elem)
	if len(vs) > 0 && g.pct(60) {
		return vs[g.n(len(vs))].name
	}
	return "(" + g.arrExpr(d, elem) + ")"
}

func (g *gen) arrVars(elem ty) []*vinfo {
	var out []*vinfo
	for _, v := range g.varsOf(tArr, false) {
		if elem == tAny || v.elem == elem {
			out = append(out, v)
		}
	}
	return out
}

func (g *gen) arrLit(d int, elem ty) string {
	n := g.containerSize()
	parts := make([]string, n)
	for i := range parts {
		switch elem {
		case tInt:
			if d > 0 && g.pct(25) {
				parts[i] = g.intExpr(d - 1)
			} else {
				parts[i] = g.intLit()
			}
		case tStr:
			parts[i] = g.strLit()
		default:
			parts[i] = g.expr(ty(g.n(7)), 0)
		}
	}
	g.feat(fmt.Sprintf("arr-size-%s", sizeClass(n, 8)))
	return "[" + strings.Join(parts, ", ") + "]"
}

func sizeClass(n, thr int) string {
	switch {
	case n == 0:
		return "0"
	case n < thr:
		return "small"
	case n == thr:
		return "at-threshold"
	default:
		return "large"
	}
}

func (g *gen) arrExpr(d int, elem ty) string {
	if d <= 0 {
		vs := g.arrVars(elem)
		if len(vs) > 0 && g.pct(60) {
			return vs[g.n(len(vs))].name
		}
		return g.arrLit(0, elem)
	}
	switch k := g.n(100); {
	case k < 25:
		vs := g.arrVars(elem)
		if len(vs) > 0 {
			return vs[g.n(len(vs))].name
		}
		return g.arrLit(d, elem)
	case k < 45:
		return g.arrLit(d, elem)
	case k < 58:
		g.feat("arr+")
		if g.pct(50) {
			return g.paren(g.arrExpr(d-1, elem) + " + " + g.arrExpr(d-1, elem))
		}
		return g.paren(g.arrExpr(d-1, elem) + " + " + g.elemExpr(d-1, elem))
	case k < 64:
		g.feat("arr*")
		return g.paren(g.atomArr(d-1, elem) + " * " + g.pick("0", "1", "2", "3"))
	case k < 80:
		return g.atomArr(d-1, elem) + "[" + g.sliceBounds(d-1) + "]"
	case k < 86:
		if elem == tInt || elem == tAny {
			g.feat("range")
			a := g.n(6)
			return fmt.Sprintf("(%d:%d)", a-2, a+g.n(12)) // always parenthesised: `1:5 + 4294967296` is 1:(5+4294967296)
		}
		return g.arrLit(d, elem)
	case k < 90:
		g.feat("rest-arr")
		return "rest(" + g.arrLit(0, elem) + " + " + g.arrLit(0, elem) + " + [" + g.elemExpr(0, elem) + "," + g.elemExpr(0, elem) + "])"
	default:
		return g.arrLit(d, elem)
	}
}

func (g *gen) elemExpr(d int, elem ty) string {
	switch elem {
	case tInt:
		return g.intExpr(d)
	case tStr:
		return g.strExpr(d)
	default:
		return g.expr(ty(g.n(4)), d)
	}
}

func (g *gen) mapVars(keys ty) []*vinfo {
	var out []*vinfo
	for _, v := range g.varsOf(tMap, false) {
		if keys == tAny || v.keys == keys {
			out = append(out, v)
		}
	}
	return out
}

func (g *gen) mapAtom(d int, keys ty) string {
	vs := g.mapVars(keys)
	if len(vs) > 0 && g.pct(60) {
		return vs[g.n(len(vs))].name
	}
	return "(" + g.mapLit(d, keys) + ")"
}

var strKeys = []string{"\"a\"", "\"b\"", "\"c\"", "\"k\"", "\"key\"", "\"value\"", "\"z\"", "\"\"", "\"A\"", "\"ab\"", "\"err\"", "\"x1\""}

func (g *gen) mapLit(d int, keys ty) string {
	n := g.containerSize()
	parts := make([]string, 0, n)
	for i := 0; i < n; i++ {
		var k string
		switch {
		case keys == tStr:
			k = strKeys[g.n(len(strKeys))]
		case keys == tInt:
			k = fmt.Sprint(g.n(14))
			if g.pct(8) {
				k = g.pick("1.0", "2.5", "-1", "0.5")
				g.feat("map-float-key")
			}
		default:
			k = g.pick(fmt.Sprint(g.n(6)), strKeys[g.n(len(strKeys))], "true", "nil", "1.5", "[1]", "[1,2]", "{}", "false", "2.0")
			g.feat("map-mixed-keys")
		}
		v := g.intLit()
		if d > 0 && g.pct(20) {
			v = g.expr(ty(g.n(6)), d-1)
		}
		parts = append(parts, k+": "+v)
	}
	g.feat(fmt.Sprintf("map-size-%s", sizeClass(n, 4)))
	return "{" + strings.Join(parts, ", ") + "}"
}

func (g *gen) mapExpr(d int) string {
	keys := ty(tInt)
	if g.pct(40) {
		keys = tStr
	} else if g.pct(15) {
		keys = tAny
	}
	if d <= 0 {
		vs := g.mapVars(keys)
		if len(vs) > 0 && g.pct(60) {
			return vs[g.n(len(vs))].name
		}
		return g.mapLit(0, keys)
	}
	switch k := g.n(100); {
	case k < 30:
		vs := g.mapVars(tAny)
		if len(vs) > 0 {
			return vs[g.n(len(vs))].name
		}
		return g.mapLit(d, keys)
	case k < 60:
		return g.mapLit(d, keys)
	case k < 78:
		g.feat("map+")
		return g.paren(g.mapExpr(d-1) + " + " + g.mapExpr(d-1))
	case k < 86:
		g.feat("map-slice")
		return g.mapAtom(d-1, keys) + "[" + g.sliceBounds(0) + "]"
	case k < 92:
		g.feat("first-map")
		return "first(" + g.mapLit(0, keys) + " + {1: 2})"
	default:
		return g.mapLit(d, keys)
	}
}

// a call of a visible function returning t ("" if none)
func (g *gen) call(t ty, d int) string {
	var cands []*vinfo
	for _, v := range g.varsOf(tFun, false) {
		if v.fn != nil && v.fn.ret == t {
			cands = append(cands, v)
		}
	}
	if len(cands) == 0 {
		return ""
	}
	v := cands[g.n(len(cands))]
	return v.name + "(" + g.args(v.fn, d) + ")"
}

func (g *gen) args(f *finfo, d int) string {
	var parts []string
	for _, p := range f.params {
		if p == tInt {
			// recursion depth and loop counts are driven by integer arguments: keep them small
			parts = append(parts, g.pick("0", "1", "2", "3", "4", fmt.Sprint(g.n(7))))
			continue
		}
		parts = append(parts, g.expr(p, min(d, 1)))
	}
	if f.variadic {
		g.feat("variadic-call")
		switch g.n(4) {
		case 0:
		case 1:
			parts = append(parts, g.intLit())
		case 2:
			parts = append(parts, g.intLit(), g.strLit(), g.intLit())
		default:
			parts = append(parts, g.arrLit(0, tInt)) // an array as last argument is spread
		}
	}
	if g.wantIll && !g.didIll && g.pct(5) && len(parts) > 0 {
		g.didIll = true
		g.feat("ill-arity")
		parts = parts[1:]
	}
	return strings.Join(parts, ", ")
}

func (g *gen) lambda(d int, params []ty, ret ty) string {
	g.feat("lambda")
	names := make([]string, len(params))
	g.scopes = append(g.scopes, &scope{isFunc: true, ret: ret})
	saveLoop := g.inLoop
	g.inLoop = 0
	for i, p := range params {
		names[i] = g.fresh("p")
		g.declare(&vinfo{name: names[i], t: p, elem: tInt, keys: tInt})
	}
	var body string
	if g.pct(60) {
		body = g.expr(ret, d)
	} else {
		body = "{" + g.block(2, 1+g.n(2), true, ret) + "}"
	}
	g.scopes = g.scopes[:len(g.scopes)-1]
	g.inLoop = saveLoop
	switch len(names) {
	case 1:
		if g.pct(50) {
			return "(" + names[0] + " => " + body + ")"
		}
		return "func(" + names[0] + ") {" + strings.TrimSuffix(strings.TrimPrefix(body, "{"), "}") + "}"
	default:
		return "((" + strings.Join(names, ", ") + ") => " + body + ")"
	}
}

// ---------------------------------------------------------------- statements
func (g *gen) newVarStmt(d int) string {
	t := ty(g.n(6))
	name := g.fresh(string("abcdexyz"[g.n(8)]))
	v := &vinfo{name: name, t: t, elem: tInt, keys: tInt}
	var e string
	switch t {
	case tArr:
		v.elem = []ty{tInt, tInt, tStr, tAny}[g.n(4)]
		e = g.arrExpr(d, v.elem)
	case tMap:
		v.keys = []ty{tInt, tStr}[g.n(2)]
		e = g.mapLit(d, v.keys)
	default:
		e = g.expr(t, d)
	}
	op := " = "
	if g.pct(30) {
		op = " := "
		g.feat("define")
	}
	g.declare(v)
	return name + op + e
}

func (g *gen) assignStmt(d int) string {
	vs := g.varsOf(tAny, true)
	var cands []*vinfo
	for _, v := range vs {
		if v.t != tFun {
			cands = append(cands, v)
		}
	}
	if len(cands) == 0 {
		return g.newVarStmt(d)
	}
	v := cands[g.n(len(cands))]
	isOuter := true
	for _, w := range g.cur().vars {
		if w == v {
			isOuter = false
		}
	}
	switch k := g.n(100); {
	case k < 15 && (v.t == tInt || v.t == tFloat):
		g.feat("incdec")
		return g.pick(v.name+"++", v.name+"--", "++"+v.name, "--"+v.name)
	case k < 30 && v.t == tArr:
		g.feat("index-assign")
		return v.name + "[" + g.indexExpr(0) + "] = " + g.elemExpr(d, v.elem)
	case k < 30 && v.t == tMap:
		g.feat("map-assign")
		if v.keys == tStr && g.pct(50) {
			return v.name + "." + g.pick("a", "b", "k", "zz", "key") + " = " + g.intExpr(d)
		}
		key := g.intKey()
		if v.keys == tStr {
			key = strKeys[g.n(len(strKeys))]
		}
		return v.name + "[" + key + "] = " + g.intExpr(d)
	case k < 36 && v.t == tMap:
		g.feat("del")
		key := g.intKey()
		if v.keys == tStr {
			key = strKeys[g.n(len(strKeys))]
		}
		return "del(" + v.name + "[" + key + "])"
	}
	var e string
	switch v.t {
	case tArr:
		e = g.arrExpr(d, v.elem)
	case tMap:
		e = g.mapLit(d, v.keys)
	default:
		e = g.expr(v.t, d)
	}
	if isOuter && g.inFunc() {
		if g.pct(25) { // shadow the outer variable in this function
			g.feat("define-shadows-outer")
			nv := *v
			nv.readonly = false
			g.declare(&nv)
			return v.name + " := " + e
		}
		g.feat("assign-through-outer")
	}
	return v.name + " = " + e
}

func (g *gen) printStmt(d int) string {
	n := 1 + g.n(3)
	parts := make([]string, n)
	for i := range parts {
		if g.pct(50) {
			vs := g.varsOf(tAny, false)
			var ok []*vinfo
			for _, v := range vs {
				if v.t != tFun {
					ok = append(ok, v)
				}
			}
			if len(ok) > 0 {
				parts[i] = ok[g.n(len(ok))].name
				continue
			}
		}
		t := ty(g.n(7))
		if t == tFloat && g.pct(50) {
			parts[i] = floatLits[g.n(len(floatLits))]
			continue
		}
		parts[i] = g.expr(t, min(d, 1))
	}
	g.feat("print")
	return g.pick("print", "println", "println") + "(" + strings.Join(parts, ", ") + ")"
}

func (g *gen) ifStmt(d, nest int, ret ty) string {
	g.feat("if")
	s := "if " + g.boolExpr(d) + " {" + g.innerBlock(nest, ret) + "}"
	for g.pct(25) {
		s += " else if " + g.boolExpr(min(d, 1)) + " {" + g.innerBlock(nest, ret) + "}"
		g.feat("else-if")
	}
	if g.pct(50) {
		s += " else {" + g.innerBlock(nest, ret) + "}"
	}
	return s
}

// a nested block: variables first bound inside are forgotten afterwards
func (g *gen) innerBlock(nest int, ret ty) string {
	m := g.mark()
	s := g.block(nest-1, 1+g.n(3), false, ret)
	g.restore(m)
	return s
}

func (g *gen) controlStmt(ret ty) string {
	var opts []string
	if g.inLoop > 0 {
		opts = append(opts, "break", "continue", "break", "continue")
	}
	if g.inFunc() {
		r := "return"
		if ret != tNil {
			r = "return " + g.expr(ret, 1)
		}
		opts = append(opts, r, r)
	}
	if len(opts) == 0 {
		return ""
	}
	c := opts[g.n(len(opts))]
	g.feat("ctl-" + strings.Fields(c)[0])
	// mostly guarded so that the rest of the block stays reachable
	if g.pct(75) {
		return "if " + g.boolExpr(1) + " {" + c + "}"
	}
	return c
}

func (g *gen) forStmt(d, nest int, ret ty) string {
	g.inLoop++
	defer func() { g.inLoop-- }()
	m := g.mark()
	defer g.restore(m)
	body := func() string { return g.block(nest-1, 1+g.n(3), false, ret) }
	switch g.n(7) {
	case 0: // for cond {}: the counter is advanced first, so continue cannot skip it
		g.feat("for-cond")
		i := g.fresh("i")
		lim := 1 + g.n(5)
		pre := i + " = 0\n"
		g.declare(&vinfo{name: i, t: tInt, readonly: true})
		cond := fmt.Sprintf("%s < %d", i, lim)
		if g.pct(20) {
			cond = fmt.Sprintf("%s < %d && %s", i, lim, g.boolExpr(1))
		}
		return pre + "for " + cond + " {" + i + "++\n" + body() + "}"
	case 1: // for n {}
		g.feat("for-count")
		return "for " + g.pick("0", "1", "2", "3", "4", "(1+2)") + " {" + body() + "}"
	case 2: // for i = n {}
		g.feat("for-i-n")
		i := g.fresh("i")
		g.declare(&vinfo{name: i, t: tInt, readonly: true})
		return "for " + i + g.pick(" = ", " = ", " := ") + fmt.Sprint(g.n(6)) + " {" + body() + "}"
	case 3: // for i = a:b {}
		g.feat("for-range")
		i := g.fresh("i")
		a := g.n(8) - 3
		b := a + g.n(6)
		if g.pct(8) {
			b = a - 1 - g.n(3) // negative count: error
		}
		as, bs := fmt.Sprint(a), fmt.Sprint(b)
		if g.pct(25) {
			vs := g.varsOf(tInt, false)
			if len(vs) > 0 {
				as, bs = "0", "("+vs[g.n(len(vs))].name+" % 5)"
			}
		}
		g.declare(&vinfo{name: i, t: tInt, readonly: true})
		return "for " + i + " = " + as + ":" + bs + " {" + body() + "}"
	case 4: // for x = array {}
		g.feat("for-array")
		x := g.fresh("x")
		elem := []ty{tInt, tStr}[g.n(2)]
		it := g.arrExpr(1, elem)
		g.declare(&vinfo{name: x, t: elem, readonly: true})
		return "for " + x + " = " + it + " {" + body() + "}"
	case 5: // for kv = map {}
		g.feat("for-map")
		x := g.fresh("kv")
		it := g.mapExpr(1)
		g.declare(&vinfo{name: x, t: tMap, keys: tStr, readonly: true})
		pr := ""
		if g.pct(60) {
			pr = "println(" + x + ".key, " + x + ".value)\n"
		}
		return "for " + x + " = " + it + " {" + pr + body() + "}"
	default: // for c = string {}
		g.feat("for-string")
		x := g.fresh("ch")
		it := g.strExpr(1)
		g.declare(&vinfo{name: x, t: tStr, readonly: true})
		return "for " + x + " = " + it + " {" + body() + "}"
	}
}

// named function: typed parameters, optional recursion on a decreasing first argument, optional variadic tail
func (g *gen) funcStmt(nest int) string {
	g.feat("func")
	name := g.fresh("f")
	np := g.n(4)
	fi := &finfo{ret: []ty{tInt, tInt, tInt, tStr, tBool, tFloat}[g.n(6)]}
	recursive := g.pct(35)
	if recursive && np == 0 {
		np = 1
	}
	names := make([]string, np)
	for i := 0; i < np; i++ {
		fi.params = append(fi.params, []ty{tInt, tInt, tStr, tBool, tArr, tFloat}[g.n(6)])
	}
	if recursive {
		fi.params[0] = tInt
	}
	fi.variadic = g.pct(15)
	self := &vinfo{name: name, t: tFun, fn: fi, readonly: true}
	// body
	g.scopes = append(g.scopes, &scope{isFunc: true, ret: fi.ret})
	saveLoop := g.inLoop
	g.inLoop = 0
	for i, p := range fi.params {
		names[i] = g.fresh("p")
		g.declare(&vinfo{name: names[i], t: p, elem: tInt, keys: tInt, readonly: recursive && i == 0})
	}
	sig := append([]string(nil), names...)
	if fi.variadic {
		g.feat("variadic")
		sig = append(sig, "..")
		g.declare(&vinfo{name: "..", t: tArr, elem: tAny, readonly: true})
	}
	var sb strings.Builder
	if recursive {
		g.feat("recursion")
		sb.WriteString("if " + names[0] + " <= 0 {return " + g.expr(fi.ret, 1) + "}\n")
	}
	sb.WriteString(g.block(nest-1, 1+g.n(3), false, fi.ret))
	if recursive {
		// the recursive call: the function sees itself by name (or self)
		callee := name
		if g.pct(25) {
			callee = "self"
			g.feat("self")
		}
		args := []string{names[0] + " - 1"}
		for i := 1; i < np; i++ {
			args = append(args, names[i])
		}
		rc := callee + "(" + strings.Join(args, ", ") + ")"
		switch fi.ret {
		case tInt:
			sb.WriteString("\n" + g.pick(names[0]+" + "+rc, rc+" * 2 + 1", rc, "return "+rc+" + "+names[0]))
		case tStr:
			sb.WriteString("\n" + g.pick(rc+" + \"r\"", "\"<\" + "+rc+" + \">\""))
		case tFloat:
			sb.WriteString("\n" + rc + " + 0.5")
		default:
			sb.WriteString("\n" + "!" + rc)
		}
	} else {
		sb.WriteString("\n" + g.pick("", "return ") + g.expr(fi.ret, 2))
	}
	g.scopes = g.scopes[:len(g.scopes)-1]
	g.inLoop = saveLoop
	g.declare(self)
	if g.pct(80) {
		return "func " + name + "(" + strings.Join(sig, ", ") + ") {" + sb.String() + "}"
	}
	return name + " = func(" + strings.Join(sig, ", ") + ") {" + sb.String() + "}"
}

// a maker of closures over a mutable captured variable, and two independent instances of it
func (g *gen) closureStmt() string {
	g.feat("closure")
	mk := g.fresh("mk")
	c := g.fresh("c")
	p := g.fresh("p")
	a, b := g.fresh("g"), g.fresh("g")
	step := g.pick("1", "2", p)
	var body string
	switch g.n(4) {
	case 0:
		body = fmt.Sprintf("%s := %s\n() => {%s = %s + %s\n%s}", c, p, c, c, step, c)
	case 1:
		body = fmt.Sprintf("%s = %s * 2\n() => {%s++\n%s}", c, p, c, c)
	case 2: // the parameter itself is the state
		body = fmt.Sprintf("() => {%s = %s + 1\n%s}", p, p, p)
	default: // two closures sharing one variable
		g.feat("closure-shared")
		body = fmt.Sprintf("%s := %s\n[() => {%s = %s + 1\n%s}, () => %s]", c, p, c, c, c, c)
		s := fmt.Sprintf("func %s(%s) {%s}\n%s = %s(%d)\n", mk, p, body, a, mk, g.n(5))
		s += fmt.Sprintf("%s[0]()\n%s[0]()\nprintln(%s[1](), %s[0]())", a, a, a, a)
		return s
	}
	fi := &finfo{ret: tInt}
	s := fmt.Sprintf("func %s(%s) {%s}\n%s = %s(%d)\n%s = %s(%d)", mk, p, body, a, mk, g.n(5), b, mk, 10+g.n(5))
	g.declare(&vinfo{name: a, t: tFun, fn: fi, readonly: true})
	g.declare(&vinfo{name: b, t: tFun, fn: fi, readonly: true})
	return s
}

// closures over top-level mutable variables
func (g *gen) outerClosureStmt() string {
	vs := g.varsOf(tInt, true)
	if len(vs) == 0 {
		return g.newVarStmt(1)
	}
	g.feat("closure-outer-var")
	v := vs[g.n(len(vs))]
	f := g.fresh("h")
	fi := &finfo{ret: tInt}
	g.declare(&vinfo{name: f, t: tFun, fn: fi, readonly: true})
	switch g.n(3) {
	case 0:
		return fmt.Sprintf("%s = () => {%s = %s + 1\n%s}", f, v.name, v.name, v.name)
	case 1:
		return fmt.Sprintf("%s = () => %s * 2", f, v.name)
	default:
		return fmt.Sprintf("func %s() {%s++\n%s}", f, v.name, v.name)
	}
}

func (g *gen) constStmt() string {
	g.feat("constant")
	for _, v := range g.varsOf(tInt, false) {
		if v.isConst && g.pct(50) {
			g.feat("constant-reassign")
			return v.name + g.pick(" = ", " := ") + g.pick("1", "2", v.name, v.name+" + 0", v.name+" + 1")
		}
	}
	name := g.fresh(g.pick("K", "KA_", "C"))
	g.declare(&vinfo{name: name, t: tInt, readonly: true, isConst: true})
	return name + " = " + g.pick("1", "2", "7")
}

func (g *gen) catchStmt(d int) string {
	g.feat("catch")
	r := g.fresh("r")
	s := r + " = catch(" + g.riskyExpr(d) + ")\n"
	switch g.n(3) {
	case 0:
		s += "println(" + r + ".err)"
	case 1:
		s += "if !" + r + ".err {println(" + r + ".value)}"
	default:
		s += "if " + r + ".err {println(\"failed\")} else {println(" + r + ")}"
	}
	return s
}

func (g *gen) errorStmt() string {
	g.feat("error")
	return "if " + g.boolExpr(1) + " {error(" + g.strLit() + ", " + g.intExpr(1) + ")}"
}

// higher-order functions, functional iteration with first/rest, accumulation in loops
func (g *gen) idiomStmt() string {
	switch g.n(6) {
	case 0:
		g.feat("higher-order")
		ap, f := g.fresh("ap"), g.fresh("q")
		return fmt.Sprintf("func %s(%s, x) {%s(%s(x))}\nprintln(%s(x => x * 2 + 1, %s), %s((x => x - 1), %s))", ap, f, f, f, ap, g.intLit(), ap, g.intLit())
	case 1:
		g.feat("first-rest-recursion")
		sum := g.fresh("sum")
		return fmt.Sprintf("func %s(l) {if len(l) == 0 {return 0}\nfirst(l) + %s(rest(l))}\nprintln(%s(%s))", sum, sum, sum, g.arrLit(0, tInt))
	case 2:
		g.feat("map-fold")
		ks, acc, kv := g.fresh("ks"), g.fresh("acc"), g.fresh("kv")
		return fmt.Sprintf("%s = []\n%s = 0\nfor %s = %s {%s = %s + [%s.key]\n%s = %s + len(%s)}\nprintln(%s, %s)", ks, acc, kv, g.mapLit(0, []ty{tInt, tStr, tAny}[g.n(3)]), ks, ks, kv, acc, acc, kv, ks, acc)
	case 3:
		g.feat("string-build")
		sv, ch := g.fresh("sb"), g.fresh("ch")
		return fmt.Sprintf("%s = \"\"\nfor %s = %s {%s = %s + %s\nif len(%s) > 3 {%s = %s[1:]}}\nprintln(%s)", sv, ch, g.strLit(), sv, ch, sv, sv, sv, sv, sv)
	case 4:
		g.feat("compose-closures")
		cmp, f1, f2 := g.fresh("cmp"), g.fresh("u"), g.fresh("w")
		return fmt.Sprintf("func %s(%s, %s) {x => %s(%s(x))}\nprintln(%s(x => x + 1, x => x * 3)(%s))", cmp, f1, f2, f1, f2, cmp, g.intLit())
	default:
		g.feat("accumulate-array")
		acc, i := g.fresh("acc"), g.fresh("i")
		return fmt.Sprintf("%s = []\nfor %s = %d {%s = %s + [%s * %s]\nif len(%s) > %d {break}}\nprintln(%s, %s[-1], %s[1:3])", acc, i, 2+g.n(11), acc, acc, i, i, acc, 2+g.n(10), acc, acc, acc)
	}
}

// "fork" pattern: a container is built by a chain of appends / merges / index assignments (sizes crossing the
// small/large thresholds, so that a large value may carry spare capacity or a shared backing store), then two or
// three values are derived from the SAME base by different operations, and all of them and the base are printed.
// Containers are values: no derived value may see another's change.  Also through a function parameter and a
// loop variable.
func (g *gen) forkStmt() string {
	g.feat("fork")
	var sb strings.Builder
	w := func(f string, a ...any) { sb.WriteString(fmt.Sprintf(f, a...) + "\n") }
	small := func() string { return fmt.Sprint(g.n(50)) }
	if g.pct(60) { // ---------------- arrays
		g.feat("fork-array")
		base := g.fresh("fa")
		n0 := []int{0, 3, 5, 6, 7, 8, 8, 9, 9, 10, 12}[g.n(11)]
		parts := make([]string, n0)
		for i := range parts {
			parts[i] = fmt.Sprint(i + 1)
		}
		w("%s = [%s]", base, strings.Join(parts, ", "))
		k := 1 + g.n(4)
		for i := 0; i < k; i++ {
			switch g.n(6) {
			case 0, 1, 2:
				w("%s = %s + %s", base, base, small())
			case 3:
				w("%s = %s + [%s, %s]", base, base, small(), small())
			case 4:
				w("%s = %s + %s + %s", base, base, small(), small())
			default:
				w("%s[%s] = %s", base, g.pick("0", "-1", "1", "-2"), small())
			}
		}
		nd := 2 + g.n(2)
		var ds []string
		mode := g.n(4)
		deriveOps := func(src string) []string {
			var out []string
			for j := 0; j < nd; j++ {
				d := g.fresh("fd")
				ds = append(ds, d)
				switch g.n(7) {
				case 0, 1, 2:
					out = append(out, fmt.Sprintf("%s = %s + %d", d, src, 100+j))
				case 3:
					out = append(out, fmt.Sprintf("%s = %s + [%d]", d, src, 200+j))
				case 4:
					out = append(out, fmt.Sprintf("%s = %s + [%d, %d]", d, src, 300+j, 310+j))
				case 5:
					out = append(out, fmt.Sprintf("%s = %s\n%s[%s] = %d", d, src, d, g.pick("0", "-1", "1"), 400+j))
				default:
					out = append(out, fmt.Sprintf("%s = %s + %d + %d", d, src, 500+j, 510+j))
				}
			}
			return out
		}
		switch mode {
		case 0, 1: // directly
			for _, l := range deriveOps(base) {
				w("%s", l)
			}
			for _, d := range ds {
				w("println(%s, %s[-1], len(%s))", d, d, d)
			}
			w("println(%s)", base)
		case 2: // through a function parameter
			g.feat("fork-param")
			fn, p := g.fresh("fk"), g.fresh("p")
			ops := deriveOps(p)
			w("func %s(%s) {%s\n[%s, %s]}", fn, p, strings.Join(ops, "\n"), strings.Join(ds, ", "), p)
			w("println(%s(%s))", fn, base)
			w("println(%s(%s + 1))", fn, base)
			w("println(%s)", base)
		default: // through a loop variable
			g.feat("fork-loopvar")
			x := g.fresh("fx")
			ops := deriveOps(x)
			w("for %s = [%s, %s + 7] {%s\nprintln(%s, %s)}", x, base, base, strings.Join(ops, "\n"), strings.Join(ds, ", "), x)
			acc, i := g.fresh("facc"), g.fresh("i")
			w("%s = []\nfor %s = 3 {%s = %s + [%s + %s]}", acc, i, acc, acc, base, i)
			w("println(%s, %s)", acc, base)
		}
		g.declare(&vinfo{name: base, t: tArr, elem: tInt})
	} else { // ---------------- maps
		g.feat("fork-map")
		base := g.fresh("fm")
		n0 := []int{0, 1, 2, 3, 3, 4, 4, 5, 5, 6, 9}[g.n(11)]
		parts := make([]string, n0)
		for i := range parts {
			parts[i] = fmt.Sprintf("%d: %d", 2*i+1, i)
		}
		w("%s = {%s}", base, strings.Join(parts, ", "))
		k := 1 + g.n(4)
		for i := 0; i < k; i++ {
			switch g.n(5) {
			case 0, 1:
				w("%s = %s + {%d: %s}", base, base, g.n(14), small())
			case 2:
				w("%s[%d] = %s", base, g.n(14), small())
			case 3:
				w("%s = %s + {%d: %s, %d: %s}", base, base, g.n(14), small(), g.n(14), small())
			default:
				w("del(%s[%d])", base, g.n(10))
			}
		}
		nd := 2 + g.n(2)
		var ds []string
		derive := func(src string) []string {
			var out []string
			for j := 0; j < nd; j++ {
				d := g.fresh("fd")
				ds = append(ds, d)
				switch g.n(5) {
				case 0, 1:
					out = append(out, fmt.Sprintf("%s = %s + {%d: %d}", d, src, 20+g.n(3), 100+j))
				case 2:
					out = append(out, fmt.Sprintf("%s = %s\n%s[%d] = %d", d, src, d, g.n(14), 200+j))
				case 3:
					out = append(out, fmt.Sprintf("%s = %s\ndel(%s[%d])", d, src, d, 1+2*g.n(5)))
				default:
					out = append(out, fmt.Sprintf("%s = %s + {%d: %d}", d, src, 1+2*g.n(4), 300+j))
				}
			}
			return out
		}
		switch g.n(3) {
		case 0:
			for _, l := range derive(base) {
				w("%s", l)
			}
			for _, d := range ds {
				w("println(%s, len(%s))", d, d)
			}
			w("println(%s)", base)
		case 1:
			g.feat("fork-param")
			fn, p := g.fresh("fk"), g.fresh("p")
			ops := derive(p)
			w("func %s(%s) {%s\n[%s, %s]}", fn, p, strings.Join(ops, "\n"), strings.Join(ds, ", "), p)
			w("println(%s(%s))", fn, base)
			w("println(%s)", base)
		default:
			g.feat("fork-loopvar")
			x := g.fresh("fx")
			ops := derive(x)
			w("for %s = [%s, %s + {77: 7}] {%s\nprintln(%s, %s)}", x, base, base, strings.Join(ops, "\n"), strings.Join(ds, ", "), x)
			w("println(%s)", base)
		}
		g.declare(&vinfo{name: base, t: tMap, keys: tInt, elem: tInt})
	}
	return strings.TrimSuffix(sb.String(), "\n")
}

// integers and floats at the edges of int64 and of the 53-bit mantissa: compared exactly (never through a
// float conversion of the integer).  Only comparison results and strings are printed (the text of such floats
// is outside the reference's domain).
var edgeInts = []string{"9223372036854775807", "(-9223372036854775807-1)", "9223372036854775806", "(-9223372036854775807)",
	"9007199254740992", "9007199254740993", "9007199254740991", "(-9007199254740993)", "(-9007199254740992)",
	"4611686018427387904", "9223372036854774784", "9223372036854774785", "0", "5", "(-5)", "1"}
var edgeFloats = []string{"9223372036854775808.0", "(-9223372036854775808.0)", "9223372036854777856.0", "9223372036854774784.0",
	"(-9223372036854777856.0)", "(-9223372036854774784.0)", "9007199254740992.0", "9007199254740994.0", "9007199254740990.0",
	"(-9007199254740992.0)", "(-9007199254740994.0)", "4611686018427387904.0", "18446744073709551616.0", "0.5", "(-0.5)", "5.0", "0.0",
	"9223372036854775807.0", "(-9223372036854775807.0)"}
var cmpOps = []string{"==", "!=", "<", ">", "<=", ">="}

func (g *gen) edgeCmpStmt() string {
	g.feat("edge-int-float-cmp")
	var sb strings.Builder
	w := func(f string, a ...any) { sb.WriteString(fmt.Sprintf(f, a...) + "\n") }
	ei := func() string { return edgeInts[g.n(len(edgeInts))] }
	ef := func() string { return edgeFloats[g.n(len(edgeFloats))] }
	iv, fv := g.fresh("ei"), g.fresh("ef")
	w("%s = %s", iv, ei())
	w("%s = %s", fv, ef())
	switch g.n(5) {
	case 0: // all six operators, both orders, through variables
		var parts []string
		for _, op := range cmpOps {
			parts = append(parts, iv+" "+op+" "+fv, fv+" "+op+" "+iv)
		}
		w("println(%s)", strings.Join(parts, ", "))
	case 1: // literals, mixed with small values
		var parts []string
		for i := 0; i < 6; i++ {
			op := cmpOps[g.n(6)]
			if g.pct(50) {
				parts = append(parts, ei()+" "+op+" "+ef())
			} else {
				parts = append(parts, ef()+" "+op+" "+ei())
			}
		}
		w("println(%s)", strings.Join(parts, ", "))
	case 2: // inside arrays (and nested)
		g.feat("edge-cmp-in-array")
		var parts []string
		for i := 0; i < 4; i++ {
			op := cmpOps[g.n(6)]
			switch g.n(3) {
			case 0:
				parts = append(parts, "["+iv+"] "+op+" ["+fv+"]")
			case 1:
				parts = append(parts, "[1, "+ei()+"] "+op+" [1, "+ef()+"]")
			default:
				parts = append(parts, "[["+ef()+"], 2] "+op+" [["+ei()+"], 2]")
			}
		}
		w("println(%s)", strings.Join(parts, ", "))
	case 3: // as map keys: order of iteration, first, lookup by the other spelling
		g.feat("edge-map-keys")
		m, kv := g.fresh("em"), g.fresh("kv")
		n := 2 + g.n(6) // both sides of the 4-pair threshold
		var parts []string
		for i := 0; i < n; i++ {
			k := ei()
			if g.pct(50) {
				k = ef()
			}
			parts = append(parts, fmt.Sprintf("%s: \"k%d\"", k, i))
		}
		parts = append(parts, fv+": \"fv\"", "1: \"one\"", iv+": \"iv\"")
		w("%s = {%s}", m, strings.Join(parts, ", "))
		w("println(first(%s).value, len(%s), %s[%s], %s[%s], %s[%s])", m, m, m, iv, m, fv, m, ei())
		w("for %s = %s {print(%s.value, \"\")}", kv, m, kv)
		w("%s[%s] = \"new\"", m, ef())
		w("del(%s[%s])", m, ei())
		w("for %s = %s {print(%s.value, \"\")}", kv, m, kv)
		w("println(len(%s))", m)
	default: // in conditions and loops
		op := cmpOps[g.n(6)]
		w("if %s %s %s {println(\"yes\")} else {println(\"no\")}", iv, op, fv)
		w("println(%s %s %s && %s %s %s, %s %s %s || %s %s %s)", ei(), cmpOps[g.n(6)], ef(), ef(), cmpOps[g.n(6)], ei(), ef(), cmpOps[g.n(6)], ei(), ei(), cmpOps[g.n(6)], ef())
	}
	return strings.TrimSuffix(sb.String(), "\n")
}

// variadic calls whose last argument is an array / nested array, repeated with different nesting (the last array
// argument is spread exactly one level, on every call)
func (g *gen) variadicNestStmt() string {
	g.feat("variadic-nesting")
	var sb strings.Builder
	w := func(f string, a ...any) { sb.WriteString(fmt.Sprintf(f, a...) + "\n") }
	f := g.fresh("vf")
	fixed := g.n(3)
	ps := []string{"", "a, ", "a, b, "}[fixed]
	body := g.pick("..", "[len(..), ..]", "[.., first(..)]", "{\"n\": len(..), \"rest\": ..}")
	if g.pct(60) {
		w("func %s(%s..) {%s}", f, ps, body)
	} else {
		w("%s = func(%s..) {%s}", f, ps, body)
	}
	pre := []string{"", "1, ", "1, 2, "}[fixed]
	lasts := []string{"[5]", "[[5]]", "[[[5]]]", "5", "[5, 6]", "[[5, 6]]", "[[5], [6]]", "[]", "[[]]", "\"s\"", "[\"s\"]", "[1,2,3,4,5,6,7,8,9]", "[[1,2,3,4,5,6,7,8,9]]", "nil", "[nil]"}
	k := 3 + g.n(4)
	var calls []string
	for i := 0; i < k; i++ {
		calls = append(calls, fmt.Sprintf("%s(%s%s)", f, pre, lasts[g.n(len(lasts))]))
	}
	// the same call again later must give the same answer as the first time
	calls = append(calls, calls[0], calls[1])
	w("println(%s)", strings.Join(calls, ", "))
	if g.pct(50) {
		av := g.fresh("va")
		w("%s = %s", av, lasts[g.n(len(lasts))])
		w("println(%s(%s%s), func() {%s(%s%s)}(), %s)", f, pre, av, f, pre, av, av)
	}
	return strings.TrimSuffix(sb.String(), "\n")
}

// functions and lambdas with 5..8 parameters (and variadics receiving 5 or more arguments), called two or three
// times with arguments that differ only in a late position (5th, 6th, ...), with calls differing only in an early
// position as controls.  The callee prints, and the result is used: every call must be evaluated on its own
// arguments (a remembered result keyed on a prefix of the arguments would replay output and value).
func (g *gen) manyArgsStmt() string {
	g.feat("many-args")
	var sb strings.Builder
	w := func(f string, a ...any) { sb.WriteString(fmt.Sprintf(f, a...) + "\n") }
	f := g.fresh("fw")
	np := 5 + g.n(4)
	variadic := g.pct(35)
	fixed := np
	if variadic {
		fixed = g.n(3) // 0..2 named parameters, the rest arrives in ..
		g.feat("many-args-variadic")
	}
	names := make([]string, fixed)
	for i := range names {
		names[i] = fmt.Sprintf("q%d", i+1)
	}
	sig := strings.Join(names, ", ")
	if variadic {
		if fixed > 0 {
			sig += ", "
		}
		sig += ".."
	}
	var expr string
	if variadic {
		expr = g.pick("..[-1]", "[len(..), ..[-1], ..[4 - "+fmt.Sprint(fixed)+"]]", "..[-1] * 10 + len(..)", "..")
		if fixed > 0 {
			expr = g.pick(expr, "["+names[0]+", ..[-1]]")
		}
	} else {
		switch g.n(4) {
		case 0:
			expr = strings.Join(names, " + ")
		case 1:
			expr = "[" + strings.Join(names, ", ") + "]"
		case 2:
			expr = names[np-1] + " * 100 + " + names[0]
		default:
			expr = "{\"first\": " + names[0] + ", \"last\": " + names[np-1] + ", \"fifth\": " + names[4] + "}"
		}
	}
	pr := ""
	if g.pct(75) {
		if variadic {
			pr = "println(\"in " + f + "\", ..)\n"
		} else {
			pr = "println(\"in " + f + "\", " + names[0] + ", " + names[4] + ", " + names[np-1] + ")\n"
		}
	}
	switch g.n(3) {
	case 0:
		w("func %s(%s) {%s%s}", f, sig, pr, expr)
	case 1:
		w("%s = func(%s) {%s%s}", f, sig, pr, expr)
	default:
		if variadic || pr != "" {
			w("%s = func(%s) {%s%s}", f, sig, pr, expr)
		} else {
			w("%s = (%s) => %s", f, sig, expr)
		}
	}
	base := make([]string, np)
	for i := range base {
		if g.pct(15) {
			base[i] = g.pick("\"s\"", "true", "nil", "2.5")
			if !variadic && (strings.Contains(expr, " + ") || strings.Contains(expr, " * ")) {
				base[i] = fmt.Sprint(g.n(9))
			}
		} else {
			base[i] = fmt.Sprint(g.n(9))
		}
	}
	call := func(a []string) string { return f + "(" + strings.Join(a, ", ") + ")" }
	variant := func(pos int) []string {
		a := append([]string(nil), base...)
		a[pos] = fmt.Sprint(50 + g.n(40))
		return a
	}
	late1 := variant(4 + g.n(np-4))
	late2 := variant(np - 1)
	early := variant(g.n(4))
	calls := []string{call(base), call(late1), call(late2), call(early), call(base)}
	if g.pct(50) { // as statements using the result
		r := g.fresh("rw")
		w("%s = [%s]", r, strings.Join(calls, ", "))
		w("println(%s)", r)
	} else {
		for _, c := range calls {
			w("println(%s)", c)
		}
	}
	if variadic && g.pct(50) { // the same through a spread array argument
		w("println(%s(%s), %s(%s))", f, "["+strings.Join(base, ", ")+"]", f, "["+strings.Join(late2, ", ")+"]")
	}
	return strings.TrimSuffix(sb.String(), "\n")
}

// strings that are not valid UTF-8 (and valid multi-byte characters next to them): first / rest / for work on runes,
// a byte that starts no valid sequence is one rune U+FFFD; len, indexing, slicing, + and comparisons work on bytes.
var utf8Frags = []string{`\x80`, `\xbf`, `\xc3`, `\xe2`, `\xf0`, `\xe2\x82`, `\xf0\x9f\x98`, `\xff`, `\xfe`, `\xc0\xaf`, `\xc1\x81`,
	`\xed\xa0\x80`, `\xf4\x90\x80\x80`, `\xf5\x80\x80\x80`, `\xe0\x9f\xbf`, `\xc3\xa9`, `\xe2\x82\xac`, `\xf0\x9f\x98\x80`, `\xef\xbf\xbd`,
	`\xc2\x80`, `\xdf\xbf`, `\xe0\xa0\x80`, `\xf4\x8f\xbf\xbf`, `a`, `z`, `0`, ` `, `\n`}

// valid UTF-8 characters of the reference's frozen Unicode table: not printable (written \u.... / \U........ by the
// quoted text form) and printable ones next to them
var unicodeFrags = []string{
	`\xc2\x80`, `\xc2\x85`, `\xc2\x9f`, `\xc2\xa0`, `\xc2\xad`, `\xe2\x80\x8b`, `\xe2\x80\x8d`, `\xe2\x80\x8e`, `\xe2\x80\xa8`, `\xe2\x80\xa9`, `\xe2\x80\xae`,
	`\xe2\x81\xa0`, `\xef\xbb\xbf`, `\xee\x80\x80`, `\xef\xa3\xbf`, `\xf3\xb0\x80\x80`, // not printable
	`\xc2\xa1`, `\xc3\xa9`, `\xc3\xbf`, `\xc4\x80`, `\xc5\xbf`, `\xd0\x96`, `\xe2\x82\xac`, `\xe2\x80\x93`, `\xe3\x81\x82`, `\xe6\x97\xa5`, `\xe4\xb8\x80`,
	`\xef\xbf\xbd`, `\xf0\x9f\x98\x80`, `\xf0\x9f\x99\x8f`, // printable
	`a`, `"`, `\\`, `\x7f`, `\t`, `z`}

func (g *gen) unicodeStr() string {
	n := 1 + g.n(5)
	var sb strings.Builder
	sb.WriteByte('"')
	for i := 0; i < n; i++ {
		f := unicodeFrags[g.n(len(unicodeFrags))]
		if f == `"` {
			f = `\"`
		}
		sb.WriteString(f)
	}
	sb.WriteByte('"')
	return sb.String()
}

// wherever a value is rendered: strings nested in arrays and maps, as map keys, in error text, nested twice
func (g *gen) unicodeStmt() string {
	g.feat("unicode-quoted-text")
	var sb strings.Builder
	w := func(f string, a ...any) { sb.WriteString(fmt.Sprintf(f, a...) + "\n") }
	s1, s2 := g.fresh("qs"), g.fresh("qs")
	w("%s = %s", s1, g.unicodeStr())
	w("%s = %s", s2, g.unicodeStr())
	switch g.n(5) {
	case 0:
		w("println(len(%s), [%s], {%s: %s})", s1, s1, s2, s1)
	case 1:
		w("println([%s, %s, \"plain\"], {\"k\": [%s, {%s: 1}]})", s1, s2, s2, s1)
	case 2:
		w("print([[%s]], %s, [%s + %s])", s1, s1, s1, s2)
		w("println({%s: %s, %s: 2, \"a\": %s})", s1, s2, s2, s1)
	case 3:
		c := g.fresh("qc")
		w("for %s = %s {print([%s])}", c, s1, c)
		w("println([first(%s), rest(%s)], catch(error([%s])).value)", s2, s2, s1)
	default:
		big := g.fresh("qa")
		w("%s = [%s, %s, \"1\", \"2\", \"3\", \"4\", \"5\", \"6\", %s, %s]", big, s1, s2, s1, g.unicodeStr())
		w("println(%s, %s[-1:], {1: %s, 2: %s, 3: 3, 4: 4, 5: [%s]})", big, big, s1, s2, s2)
	}
	return strings.TrimSuffix(sb.String(), "\n")
}

// histories of calls (memoization is on) with container arguments that are ==-equal but differently typed
// (3 and 3.0 print alike and compare equal): every call must be evaluated on its own argument
func (g *gen) typedTwinStmt() string {
	g.feat("typed-twin-args")
	var sb strings.Builder
	w := func(f string, a ...any) { sb.WriteString(fmt.Sprintf(f, a...) + "\n") }
	f, x, y := g.fresh("tw"), g.fresh("tx"), g.fresh("ty")
	n := []int{2, 5, 8, 9, 9, 10, 12, 12}[g.n(8)]
	isMap := g.pct(35)
	if isMap {
		n = []int{2, 4, 5, 5, 6, 9}[g.n(6)]
	}
	vals := make([]int, n)
	for i := range vals {
		vals[i] = 1 + 2*g.n(8) // odd: /2 tells integer from float
	}
	flt := map[int]bool{0: true}
	for i := 0; i < n; i++ {
		if g.pct(25) {
			flt[i] = true
		}
	}
	lit := func(twin bool) string {
		var ps []string
		for i, v := range vals {
			e := fmt.Sprint(v)
			if twin && flt[i] {
				e += ".0"
			}
			if isMap {
				k := fmt.Sprint(i)
				if twin && g.pct(20) {
					k += ".0"
				}
				ps = append(ps, k+": "+e)
			} else {
				ps = append(ps, e)
			}
		}
		if isMap {
			return "{" + strings.Join(ps, ", ") + "}"
		}
		return "[" + strings.Join(ps, ", ") + "]"
	}
	body := g.pick("a[0] / 2", "[a[0] / 2, a[0] == "+fmt.Sprint(vals[0])+"]", "a[0] * 3 / 2 + len(a)", "r = 0\nfor i = len(a) {r = r + a[i] / 2}\nr")
	if isMap {
		body = g.pick("a[0] / 2", "[a[0] / 2, a[0] == "+fmt.Sprint(vals[0])+", len(a)]", "first(a).value / 2")
	}
	pr := ""
	if g.pct(40) {
		pr = "println(\"in " + f + "\", len(a))\n"
	}
	nested := g.pct(25)
	arg := func(v string) string {
		if nested {
			return "[" + v + ", 1]"
		}
		return v
	}
	if nested {
		body = strings.ReplaceAll(body, "a[", "a[0][")
		body = strings.ReplaceAll(body, "first(a)", "first(a[0])")
		body = strings.ReplaceAll(body, "len(a)", "len(a[0])")
	}
	w("%s = func(a) {%s%s}", f, pr, body)
	w("%s = %s", x, lit(false))
	w("%s = %s", y, lit(true))
	w("println(%s == %s)", x, y)
	order := [][]string{{x, y, x}, {y, x, y}, {x, x, y}}[g.n(3)]
	var calls []string
	for _, v := range order {
		calls = append(calls, f+"("+arg(v)+")")
	}
	if g.pct(50) {
		w("println(%s)", strings.Join(calls, ", "))
	} else {
		for _, c := range calls {
			w("println(%s)", c)
		}
	}
	return strings.TrimSuffix(sb.String(), "\n")
}

func (g *gen) utf8Str() string {
	n := 1 + g.n(6)
	var sb strings.Builder
	sb.WriteByte('"')
	for i := 0; i < n; i++ {
		sb.WriteString(utf8Frags[g.n(len(utf8Frags))])
	}
	sb.WriteByte('"')
	return sb.String()
}

func (g *gen) utf8Stmt() string {
	g.feat("utf8-edge-string")
	var sb strings.Builder
	w := func(f string, a ...any) { sb.WriteString(fmt.Sprintf(f, a...) + "\n") }
	s1, s2 := g.fresh("us"), g.fresh("us")
	w("%s = %s", s1, g.utf8Str())
	w("%s = %s", s2, g.utf8Str())
	switch g.n(6) {
	case 0: // iteration by rune
		c := g.fresh("uc")
		w("for %s = %s {print(len(%s), %s[0], \"\")}", c, s1, c, c)
		w("for %s = %s + %s {print(%s)}", c, s1, s2, c)
	case 1: // first / rest chains
		w("println(len(first(%s)), len(rest(%s)), len(%s))", s1, s1, s1)
		w("println(first(%s), rest(%s))", s1, s1)
		w("println(first(rest(%s)), rest(rest(%s)), rest(first(%s)))", s1, s1, s1)
		w("[first(%s), rest(%s), first(%s + %s)]", s2, s2, s2, s1)
	case 2: // recursion with first/rest (a rune counter)
		f := g.fresh("cnt")
		w("func %s(s) {if len(s) == 0 {return 0}\nr = rest(s)\nif r == nil {return 1}\n1 + %s(r)}", f, f)
		w("println(%s(%s), %s(%s), len(%s), len(%s))", f, s1, f, s2, s1, s2)
	case 3: // bytes: len, index, slices
		w("println(len(%s), %s[0], %s[-1], %s[1], %s[%d])", s1, s1, s1, s1, s1, g.n(8))
		w("[%s[1:], %s[0:2], %s[-2:], %s[1:3], len(%s[%d:%d])]", s1, s1, s1, s2, s2, g.n(3), 2+g.n(4))
	case 4: // concatenation, repetition and comparisons are bytewise
		w("println(len(%s + %s), len(%s * 2), %s < %s, %s == %s, %s >= %s, %s != %s + \"\")", s1, s2, s1, s1, s2, s1, s2, s1, s2, s1, s1)
		w("[%s + %s, first(%s + %s), rest(%s * 2)]", s1, s2, s2, s1, s1)
	default: // text form inside containers (invalid bytes are written \xNN)
		w("println([%s[0:1], %s[0]])", s1, s2)
		w("m = {%s: 1}", s1)
		w("[len(m), first(m).key, rest(%s)]", s2)
	}
	return strings.TrimSuffix(sb.String(), "\n")
}

// Left-to-right evaluation under side effects: the RIGHT operand of an infix operator changes the variable that is
// the LEFT operand - inside the arguments of a call (named function, lambda, builtin), inside parentheses, inside an
// index expression, nested.  The variables are integer parameters and counted-loop variables (the ones the default
// configuration keeps in registers); the effect is =, :=, ++ or --.  The left operand is the value the variable had.
func (g *gen) sideEffectStmt() string {
	g.feat("side-effect-right-operand")
	var sb strings.Builder
	w := func(f string, a ...any) { sb.WriteString(fmt.Sprintf(f, a...) + "\n") }
	id, idf, f := g.fresh("id"), g.fresh("idf"), g.fresh("se")
	w("%s = x => x", id)
	w("func %s(x, y) {x + y}", idf)
	op := func() string { return g.pick("+", "-", "*", "+", "-", "*", "/", "%", "<", "==", ">=", "&", "|", "<<") }
	// an expression that changes variable v and yields an integer
	var effect func(v string, d int) string
	effect = func(v string, d int) string {
		k := fmt.Sprint(1 + g.n(9))
		asg := g.pick(v+" = "+k, v+" = "+v+" + "+k, v+" := "+k, v+" = "+v+" * 2")
		switch g.n(10) {
		case 0:
			return id + "(" + asg + ")"
		case 1:
			return idf + "(" + asg + ", " + k + ")"
		case 2:
			return idf + "(" + k + ", " + asg + ")"
		case 3:
			return "(x => x + 1)(" + asg + ")"
		case 4:
			return "len([" + asg + ", 0])"
		case 5:
			return "(" + asg + ")"
		case 6:
			return "[7, 8, 9][(" + asg + ") % 3]"
		case 7:
			return "[" + asg + ", 4][0]"
		case 8:
			if d > 0 {
				return id + "(" + k + " " + g.pick("+", "*", "-") + " " + effect(v, d-1) + ")"
			}
			return id + "(" + asg + ")"
		default:
			return g.pick(id+"(++"+v+")", id+"(--"+v+")", "(++"+v+")", "(--"+v+")", idf+"(++"+v+", "+v+")", "-("+asg+")")
		}
	}
	switch g.n(4) {
	case 0, 1: // integer parameters
		g.feat("side-effect-param")
		np := 1 + g.n(3)
		ps := []string{"n", "m", "k"}[:np]
		v := ps[g.n(np)]
		var exprs []string
		for i, cnt := 0, 1+g.n(3); i < cnt; i++ {
			switch g.n(4) {
			case 0:
				exprs = append(exprs, v+" "+op()+" "+effect(v, 1))
			case 1:
				exprs = append(exprs, v+" "+op()+" ("+ps[g.n(np)]+" "+op()+" "+effect(v, 1)+")")
			case 2:
				exprs = append(exprs, v+" "+op()+" "+effect(v, 1)+" "+op()+" "+v)
			default:
				exprs = append(exprs, "["+v+" "+op()+" "+effect(v, 1)+", "+v+"]")
			}
		}
		body := "r = [" + strings.Join(exprs, ", ") + "]\n[r, " + strings.Join(ps, ", ") + "]"
		if g.pct(50) {
			w("%s = func(%s) {%s}", f, strings.Join(ps, ", "), body)
		} else {
			w("func %s(%s) {%s}", f, strings.Join(ps, ", "), body)
		}
		args := func() string {
			var a []string
			for range ps {
				a = append(a, fmt.Sprint(g.n(12)))
			}
			return strings.Join(a, ", ")
		}
		w("println(%s(%s))", f, args())
		w("println(%s(%s))", f, args())
	case 2: // counted-loop variables inside a function
		g.feat("side-effect-loopvar")
		i := g.fresh("i")
		form := g.pick(i+" = n", i+" = 1:n", i+" = 0:n + 1")
		w("%s = func(n) {r = 0\nfor %s {r = r + (%s %s %s)\nif r > 100000 {break}}\n[r, n]}", f, form, i, g.pick("*", "+", "-"), effect(i, 1))
		w("println(%s(%d), %s(%d))", f, 2+g.n(4), f, 1+g.n(3))
	default: // counted-loop variable at top level and a plain (non-register) variable as control
		g.feat("side-effect-loopvar")
		i, t, pv := g.fresh("i"), g.fresh("t"), g.fresh("pv")
		w("%s = 0", t)
		w("for %s = %d {%s = %s + (%s %s %s)}", i, 2+g.n(4), t, t, i, g.pick("*", "+", "-"), effect(i, 1))
		w("%s = %d", pv, g.n(9))
		w("println(%s, %s %s %s, %s)", t, pv, op(), effect(pv, 1), pv)
	}
	return strings.TrimSuffix(sb.String(), "\n")
}

// Argument counts around every limit of the call path (0..6 fixed parameters, variadics with 0..6 extra arguments)
// for callees that READ or WRITE an outer variable, reached through a pure-looking wrapper (possibly two deep) that is
// called again with EQUAL arguments after the outer state changed: nothing on the way may remember a stale result.
func (g *gen) outerStateStmt() string {
	g.feat("outer-state-through-wrapper")
	var sb strings.Builder
	w := func(f string, a ...any) { sb.WriteString(fmt.Sprintf(f, a...) + "\n") }
	x, h, wr := g.fresh("ox"), g.fresh("oh"), g.fresh("ow")
	np := g.n(7) // 0..6
	variadic := g.pct(40)
	names := make([]string, np)
	for i := range names {
		names[i] = fmt.Sprintf("a%d", i+1)
	}
	sig := strings.Join(names, ", ")
	sum := strings.Join(append(append([]string{}, names...), "0"), " + ")
	if variadic {
		if np > 0 {
			sig += ", "
		}
		sig += ".."
		sum += " + len(..)"
		g.feat("outer-state-variadic")
	}
	writes := g.pct(45)
	w("%s = %d", x, 1+g.n(5))
	var body string
	if writes {
		g.feat("outer-state-write")
		body = g.pick(fmt.Sprintf("%s = %s + 1\n%s + %s", x, x, sum, x), fmt.Sprintf("%s++\n%s", x, sum), fmt.Sprintf("%s = %s + %s\n%s", x, x, sum, x))
	} else {
		body = g.pick(sum+" + "+x, "["+sum+", "+x+"]", "if "+x+" > 5 {"+sum+" * 100} else {"+sum+" + "+x+"}")
	}
	if g.pct(30) {
		body = "println(\"in " + h + "\")\n" + body
	}
	if g.pct(60) {
		w("%s = func(%s) {%s}", h, sig, body)
	} else {
		w("func %s(%s) {%s}", h, sig, body)
	}
	// the wrapper passes its own argument first, constants for the rest; variadic helpers get 0..6 extras
	extras := 0
	if variadic {
		extras = g.n(7)
	}
	var args []string
	for i := 0; i < np+extras; i++ {
		if i == 0 {
			args = append(args, "n")
		} else {
			args = append(args, fmt.Sprint(g.n(4)))
		}
	}
	call := h + "(" + strings.Join(args, ", ") + ")"
	switch g.n(4) {
	case 0:
		w("%s = func(n) {%s}", wr, call)
	case 1:
		w("%s = func(n) {r = %s\n[r, n]}", wr, call)
	case 2: // two wrappers deep
		mid := g.fresh("om")
		w("%s = func(n) {%s}", mid, call)
		w("%s = func(n) {%s(n) }", wr, mid)
	default: // the helper is called several times by the wrapper (a loop)
		w("%s = func(n) {t = 0\nfor i = 3 {t = %s}\nt}", wr, call)
	}
	k := fmt.Sprint(g.n(4))
	w("println(%s(%s))", wr, k)
	w("println(%s(%s), %s)", wr, k, x)
	w("%s = %d", x, 10+g.n(10))
	w("println(%s(%s))", wr, k)
	w("println(%s(%s), %s(%s), %s)", wr, k, wr, fmt.Sprint(5+g.n(3)), x)
	return strings.TrimSuffix(sb.String(), "\n")
}

func (g *gen) edgeProgram() string {
	var parts []string
	n := 1 + g.n(3)
	for i := 0; i < n; i++ {
		switch k := g.n(100); {
		case k < 18:
			parts = append(parts, g.edgeCmpStmt())
		case k < 28:
			parts = append(parts, g.variadicNestStmt())
		case k < 42:
			parts = append(parts, g.utf8Stmt())
		case k < 56:
			parts = append(parts, g.sideEffectStmt())
		case k < 72:
			parts = append(parts, g.unicodeStmt())
		case k < 82:
			parts = append(parts, g.typedTwinStmt())
		case k < 92:
			parts = append(parts, g.outerStateStmt())
		default:
			parts = append(parts, g.manyArgsStmt())
		}
	}
	return strings.ReplaceAll(strings.Join(parts, "\n"), "\n", ";\n")
}

// "object factories": a function that reads and writes no outer variable returns a container (map / array,
// nested, below and above the size thresholds) of closures sharing captured state.  It is instantiated two or
// three times, with EQUAL and with different arguments; the state is changed through one instance and observed
// through all.  Every call must give fresh closures over a fresh environment (no remembered result may be shared).
// Also closures returned in containers from nested makers and from loops.
func (g *gen) factoryStmt() string {
	g.feat("factory")
	var sb strings.Builder
	w := func(f string, a ...any) { sb.WriteString(fmt.Sprintf(f, a...) + "\n") }
	mk, n, p := g.fresh("mk"), g.fresh("n"), g.fresh("p")
	// parameters: none, one int, int + string (all hashable)
	np := g.n(3)
	params, initv := "", "0"
	switch np {
	case 1:
		params, initv = p, p
	case 2:
		params, initv = p+", tag", p+" + len(tag)"
	}
	argsA := []string{"", fmt.Sprint(g.n(5)), fmt.Sprintf("%d, %s", g.n(5), g.pick("\"a\"", "\"bc\"", "\"\""))}[np]
	argsB := []string{"", fmt.Sprint(10 + g.n(5)), fmt.Sprintf("%d, \"zzz\"", 10+g.n(5))}[np]
	def := g.pick(n+" = "+initv, n+" := "+initv)
	inc := fmt.Sprintf("() => {%s = %s + 1\n%s}", n, n, n)
	if g.pct(30) {
		inc = fmt.Sprintf("() => {%s++}", n)
	}
	get := fmt.Sprintf("() => %s", n)
	add := fmt.Sprintf("x => {%s = %s + x\n%s}", n, n, n)
	pad := func(k int) string { // extra entries so that the container crosses its threshold
		var ps []string
		for i := 0; i < k; i++ {
			ps = append(ps, fmt.Sprint(100+i))
		}
		return strings.Join(ps, ", ")
	}
	shape := g.n(6)
	var body string
	var callInc, callGet, callAdd func(o string) string
	switch shape {
	case 0: // small map of closures
		g.feat("factory-map")
		body = fmt.Sprintf("{\"inc\": %s, \"get\": %s, \"add\": %s}", inc, get, add)
		callInc = func(o string) string { return o + ".inc()" }
		callGet = func(o string) string { return o + ".get()" }
		callAdd = func(o string) string { return o + "[\"add\"](" + fmt.Sprint(2+g.n(5)) + ")" }
	case 1: // large map (more than 4 pairs)
		g.feat("factory-map-large")
		body = fmt.Sprintf("{\"inc\": %s, \"get\": %s, \"add\": %s, \"a\": 1, \"b\": [2, 3], \"c\": \"s\", \"d\": nil}", inc, get, add)
		callInc = func(o string) string { return o + ".inc()" }
		callGet = func(o string) string { return o + "[\"get\"]()" }
		callAdd = func(o string) string { return o + ".add(" + fmt.Sprint(2+g.n(5)) + ")" }
	case 2: // small array
		g.feat("factory-array")
		body = fmt.Sprintf("[%s, %s, %s]", inc, get, add)
		callInc = func(o string) string { return o + "[0]()" }
		callGet = func(o string) string { return o + "[1]()" }
		callAdd = func(o string) string { return o + "[2](" + fmt.Sprint(2+g.n(5)) + ")" }
	case 3: // large array (more than 8 elements)
		g.feat("factory-array-large")
		body = fmt.Sprintf("[%s, %s, %s, %s]", inc, get, add, pad(6+g.n(4)))
		callInc = func(o string) string { return o + "[0]()" }
		callGet = func(o string) string { return o + "[1]()" }
		callAdd = func(o string) string { return o + "[2](" + fmt.Sprint(2+g.n(5)) + ")" }
	case 4: // nested: map holding an array of closures
		g.feat("factory-nested")
		body = fmt.Sprintf("{\"ops\": [%s, %s], \"more\": {\"add\": %s}, \"id\": %s}", inc, get, add, initv)
		callInc = func(o string) string { return o + ".ops[0]()" }
		callGet = func(o string) string { return o + ".ops[1]()" }
		callAdd = func(o string) string { return o + ".more.add(" + fmt.Sprint(2+g.n(5)) + ")" }
	default: // nested arrays
		g.feat("factory-nested")
		body = fmt.Sprintf("[[%s, %s], [%s], %s]", inc, get, add, pad(1+g.n(8)))
		callInc = func(o string) string { return o + "[0][0]()" }
		callGet = func(o string) string { return o + "[0][1]()" }
		callAdd = func(o string) string { return o + "[1][0](" + fmt.Sprint(2+g.n(5)) + ")" }
	}
	if g.pct(75) {
		w("func %s(%s) {%s\n%s}", mk, params, def, body)
	} else {
		w("%s = func(%s) {%s\n%s}", mk, params, def, body)
	}
	switch g.n(4) {
	case 0, 1: // instances with equal and with different arguments
		o1, o2, o3 := g.fresh("o"), g.fresh("o"), g.fresh("o")
		w("%s = %s(%s)", o1, mk, argsA)
		w("%s = %s(%s)", o2, mk, argsA)
		w("%s = %s(%s)", o3, mk, argsB)
		objs := []string{o1, o2, o3}
		for i, k := 0, 1+g.n(4); i < k; i++ {
			o := objs[g.n(3)]
			if g.pct(60) {
				w("%s", callInc(o))
			} else {
				w("%s", callAdd(o))
			}
		}
		w("println(%s, %s, %s)", callGet(o1), callGet(o2), callGet(o3))
		if g.pct(50) { // a later instance with the same arguments starts fresh too
			o4 := g.fresh("o")
			w("%s = %s(%s)", o4, mk, argsA)
			w("println(%s, %s)", callGet(o4), callInc(o4))
			w("println(%s, %s)", callGet(o1), callGet(o4))
		}
	case 2: // instances made in a loop (equal arguments on every iteration)
		g.feat("factory-loop")
		objs, i := g.fresh("objs"), g.fresh("i")
		w("%s = []", objs)
		w("for %s = %d {%s = %s + [%s(%s)]}", i, 2+g.n(2), objs, objs, mk, argsA)
		w("%s", callInc(objs+"[0]"))
		w("%s", callAdd(objs+"[0]"))
		w("%s", callInc(objs+"[-1]"))
		w("println(%s, %s, %s)", callGet(objs+"[0]"), callGet(objs+"[1]"), callGet(objs+"[-1]"))
	default: // nested maker: the factory is called twice with equal arguments inside another function
		g.feat("factory-nested-maker")
		outer, a, b := g.fresh("mkk"), g.fresh("a"), g.fresh("b")
		w("func %s() {%s = %s(%s)\n%s = %s(%s)\n%s\n%s\n[%s, %s]}", outer, a, mk, argsA, b, mk, argsA, callInc(a), callInc(a), a, b)
		pr := g.fresh("pr")
		w("%s = %s()", pr, outer)
		w("println(%s, %s)", callGet(pr+"[0]"), callGet(pr+"[1]"))
		pr2 := g.fresh("pr")
		w("%s = %s()", pr2, outer)
		w("%s", callInc(pr2+"[1]"))
		w("println(%s, %s, %s, %s)", callGet(pr+"[0]"), callGet(pr+"[1]"), callGet(pr2+"[0]"), callGet(pr2+"[1]"))
	}
	return strings.TrimSuffix(sb.String(), "\n")
}

func (g *gen) factoryProgram() string {
	var parts []string
	n := 1 + g.n(2)
	for i := 0; i < n; i++ {
		if g.pct(30) {
			parts = append(parts, g.stmt(1, tAny))
		}
		parts = append(parts, g.factoryStmt())
	}
	return strings.ReplaceAll(strings.Join(parts, "\n"), "\n", ";\n")
}

// a program made mostly of fork patterns (its own stream in the harness)
func (g *gen) forkProgram() string {
	var parts []string
	n := 1 + g.n(3)
	for i := 0; i < n; i++ {
		parts = append(parts, g.forkStmt())
		if g.pct(30) {
			parts = append(parts, g.stmt(1, tAny))
		}
	}
	var fin []string
	for _, v := range g.scopes[0].vars {
		if v.t != tFun {
			fin = append(fin, v.name)
		}
	}
	body := strings.Join(parts, "\n")
	if len(fin) > 0 {
		body += "\n[" + strings.Join(fin, ", ") + "]"
	}
	return strings.ReplaceAll(body, "\n", ";\n")
}

func (g *gen) stmt(nest int, ret ty) string {
	g.size++
	d := 1 + g.n(3)
	if g.size > 40 {
		nest = 0
	}
	k := g.n(100)
	switch {
	case k < 22:
		return g.newVarStmt(d)
	case k < 40:
		return g.assignStmt(d)
	case k < 52:
		return g.printStmt(d)
	case k < 60 && nest > 0:
		return g.ifStmt(d, nest, ret)
	case k < 70 && nest > 0:
		return g.forStmt(d, nest, ret)
	case k < 76 && nest > 0:
		return g.funcStmt(nest)
	case k < 80:
		if s := g.controlStmt(ret); s != "" {
			return s
		}
		return g.printStmt(d)
	case k < 83 && !g.inFunc() && g.inLoop == 0:
		if g.pct(35) {
			return g.forkStmt()
		}
		if g.pct(40) {
			return g.factoryStmt()
		}
		return g.closureStmt()
	case k < 86:
		return g.outerClosureStmt()
	case k < 88 && !g.inFunc() && g.inLoop == 0:
		return g.constStmt()
	case k < 91:
		return g.catchStmt(d)
	case k < 92:
		if g.pct(50) {
			return g.idiomStmt()
		}
		if g.pct(40) && !g.inFunc() && g.inLoop == 0 {
			switch g.n(7) {
			case 0:
				return g.edgeCmpStmt()
			case 1:
				return g.manyArgsStmt()
			case 2:
				return g.utf8Stmt()
			case 3:
				return g.sideEffectStmt()
			case 4:
				return g.unicodeStmt()
			case 5:
				return g.typedTwinStmt()
			}
			if g.pct(50) {
				return g.outerStateStmt()
			}
			return g.variadicNestStmt()
		}
		return g.errorStmt()
	case k < 95:
		name := g.fresh("l")
		params := []ty{tInt}
		if g.pct(40) {
			params = []ty{tInt, tInt}
		}
		rt := []ty{tInt, tInt, tBool, tStr}[g.n(4)]
		e := g.lambda(2, params, rt)
		g.declare(&vinfo{name: name, t: tFun, fn: &finfo{params: params, ret: rt}, readonly: true})
		return name + " = " + e
	default:
		// expression statement (its value matters when it is the last statement of a block)
		return g.expr(ty(g.n(7)), d)
	}
}

func (g *gen) block(nest, n int, top bool, ret ty) string {
	var parts []string
	for i := 0; i < n; i++ {
		s := g.stmt(nest, ret)
		if s != "" {
			parts = append(parts, s)
		}
	}
	return strings.Join(parts, "\n")
}

// program: statements, then a final expression exposing the state of the visible variables
func (g *gen) program() string {
	n := 3 + g.n(9)
	body := g.block(3, n, true, tAny)
	var fin []string
	for _, v := range g.scopes[0].vars {
		if v.t != tFun && g.pct(60) {
			fin = append(fin, v.name)
		}
		if len(fin) >= 6 {
			break
		}
	}
	switch {
	case len(fin) > 0 && g.pct(70):
		body += "\n[" + strings.Join(fin, ", ") + "]"
	case g.pct(50):
		body += "\n" + g.expr(ty(g.n(7)), 2)
	}
	// a newline does not end a statement in grol ("a\n-b" is one subtraction): separate with ';'
	sep := ";\n"
	if g.pct(30) {
		sep = "; "
	}
	return strings.ReplaceAll(body, "\n", sep)
}
