package main

// C01: evaluation agrees with the language's reference semantics.
//
// Correspondence: every generated program is parsed by the REAL parser; the tree is dumped into the case
// line and evaluated (a) by the real evaluator on a fresh state (registers off; a second run with the default
// settings is compared and only counted) and (b) by the reference evaluator extracted from the Coq
// development (coq/model/RefEval.v).  Printed bytes, typed structural value and error flag must be equal.
// Since the property IS agreement with the reference, a disagreement that survives shrinking is reported as
// the failing input, with a narrow signature (construct + outcome class pair).
//
// Direct (model-free) oracles on the implementation alone: determinism on a fresh state, and
// "wrapping in a function does not change the meaning of an expression over global variables"
// (the class of defects where an outer variable was seen as a Reference object).

import (
	"bufio"
	"fmt"
	"os"
	"runtime/debug"
	"sort"
	"strconv"
	"strings"

	"grol.io/grol/ast"
	"grol.io/grol/eval"
	"grol.io/grol/extensions"
	"grol.io/grol/object"
	"verifharness/common"
	. "verifharness/common"
)

func main() {
	// the evaluator's memory guard is relative to the Go memory limit (README: GOMEMLIMIT=1GiB): without one a
	// single `0:4294967296` makes the process die of a fatal out-of-memory error instead of ending in a panic value
	debug.SetMemoryLimit(1 << 30)
	if err := extensions.Init(nil); err != nil {
		panic(err)
	}
	if os.Getenv("C01_PROBE") != "" {
		probe()
		return
	}
	common.Main("C01", runC01)
}

// ---------------------------------------------------------------------------------------------------
// TEMPORARY allow-list: disagreement classes whose repair is being made by another property's work.
// Keyed by signature prefix.  Entries are removed as the fixes land in /repo (git -C /repo log).
// Currently empty: integer / % << by a bad operand (03fbbe9), slice bound clamping (5f9b2de),
// large array/map aliasing (cec7cc4, 143b918, 29e3f5f), exact int/float comparison and the
// cache defects have all landed.
var allowList = map[string]string{}

func allowed(sig string) (string, bool) {
	for p, why := range allowList {
		if strings.HasPrefix(sig, p) {
			return why, true
		}
	}
	return "", false
}

// ---------------------------------------------------------------------------------------------------
func probe() {
	mp := startModel()
	defer mp.stop()
	sc := bufio.NewScanner(os.Stdin)
	sc.Buffer(make([]byte, 1<<20), 1<<20)
	for sc.Scan() {
		src := sc.Text()
		prog, ok := parseProgram(src)
		if !ok {
			fmt.Println("PARSE-ERROR", src)
			continue
		}
		fmt.Println("SRC ", src)
		if os.Getenv("C01_PROBE") == "ast" {
			fmt.Println("AST ", DumpAST(prog))
		}
		r := runImpl(src, true)
		fmt.Println("IMPL", r.obs, "//", string(r.out), "//", r.val)
		if mp != nil {
			mo := mp.ask(caseLine(src, prog))
			tag := "MODEL"
			if mo != r.obs {
				tag = "MODEL-DIFF"
			}
			fmt.Println(tag, mo)
		}
		r2 := runImpl(src, false)
		if r2.obs != r.obs {
			fmt.Println("REG ", r2.obs, "//", string(r2.out), "//", r2.val)
		}
	}
}

// ---------------------------------------------------------------------------------------------------
// names the generator may use must not be keywords, extensions or pre-seeded identifiers
func reservedIdent(prog ast.Node, st *eval.State) string {
	bad := ""
	var walk func(n ast.Node)
	seen := map[string]bool{}
	check := func(name string) {
		if seen[name] || bad != "" {
			return
		}
		seen[name] = true
		if name == "nil" || name == "null" || name == ".." || name == "self" {
			return
		}
		if _, ok := st.Extensions[name]; ok {
			bad = name
			return
		}
		if object.IsExtraFunction(name) {
			bad = name
			return
		}
		if rootHas(name) {
			bad = name
		}
	}
	walk = func(n ast.Node) {
		if isNil(n) || bad != "" {
			return
		}
		switch x := n.(type) {
		case *ast.Identifier:
			check(x.Literal())
		case *ast.Statements:
			for _, s := range x.Statements {
				walk(s)
			}
		case *ast.ReturnStatement:
			walk(x.ReturnValue)
		case *ast.PrefixExpression:
			walk(x.Right)
		case *ast.PostfixExpression:
			check(x.Prev.Literal())
		case *ast.InfixExpression:
			walk(x.Left)
			walk(x.Right)
		case *ast.ForExpression:
			walk(x.Condition)
			if x.Body != nil {
				walk(x.Body)
			}
		case *ast.IfExpression:
			walk(x.Condition)
			if x.Consequence != nil {
				walk(x.Consequence)
			}
			if x.Alternative != nil {
				walk(x.Alternative)
			}
		case *ast.Builtin:
			for _, p := range x.Parameters {
				walk(p)
			}
		case *ast.FunctionLiteral:
			if x.Name != nil {
				check(x.Name.Literal())
			}
			for _, p := range x.Parameters {
				walk(p)
			}
			if x.Body != nil {
				walk(x.Body)
			}
		case *ast.CallExpression:
			walk(x.Function)
			for _, p := range x.Arguments {
				walk(p)
			}
		case *ast.ArrayLiteral:
			for _, p := range x.Elements {
				walk(p)
			}
		case *ast.IndexExpression:
			walk(x.Left)
			if x.Token.Literal() != "." {
				walk(x.Index)
			}
		case *ast.MapLiteral:
			for _, k := range x.Order {
				walk(k)
				walk(x.Pairs[k])
			}
		}
	}
	walk(prog)
	return bad
}

var rootNames map[string]bool

func rootHas(name string) bool {
	if rootNames == nil {
		rootNames = map[string]bool{}
		for _, n := range []string{"PI", "E", "NaN", "Inf", "abs", "keys", "log2", "printf", "str", "info"} {
			rootNames[n] = true
		}
	}
	if rootNames[name] {
		return true
	}
	// anything else pre-seeded in the root environment
	r := runImpl(name, true)
	known := r.class != "E"
	rootNames[name] = known
	return known
}

func isNil(n ast.Node) bool {
	if n == nil {
		return true
	}
	switch x := n.(type) {
	case *ast.Statements:
		return x == nil
	case *ast.Identifier:
		return x == nil
	}
	return false
}

// ---------------------------------------------------------------------------------------------------
type runner struct {
	c         *Ctx
	mp        *modelProc
	st        *eval.State
	shrunk    int
	bigOutput bool
	regDiffs  []string
	nSkip     int
	nCompared int
	nParseErr int
}

// outcome class pair of a disagreement
func classPair(impl implRes, model string) string {
	mc := "?"
	switch {
	case strings.Contains(model, " RES V "):
		mc = "V"
	case strings.HasSuffix(model, " RES E"):
		mc = "E"
	}
	ic := impl.class
	if ic == "P" {
		ic = "P-" + strings.SplitN(impl.val, ":", 2)[0]
	}
	if ic == "V" && mc == "V" {
		mOut := strings.SplitN(strings.TrimPrefix(model, "OUT "), " ", 2)[0]
		if mOut != Hx(impl.out) {
			return "output-differs"
		}
		return "value-differs"
	}
	if ic == mc {
		return "output-differs-" + ic
	}
	return "impl-" + ic + "-vs-ref-" + mc
}

// the constructs of a (shrunk) program, most specific first
func constructs(prog ast.Node) string {
	set := map[string]bool{}
	var walk func(n ast.Node)
	walk = func(n ast.Node) {
		if isNil(n) {
			return
		}
		switch x := n.(type) {
		case *ast.Statements:
			for _, s := range x.Statements {
				walk(s)
			}
		case *ast.ReturnStatement:
			set["return"] = true
			walk(x.ReturnValue)
		case *ast.ControlExpression:
			set[x.Literal()] = true
		case *ast.PrefixExpression:
			set["prefix"+x.Literal()] = true
			walk(x.Right)
		case *ast.PostfixExpression:
			set["postfix"+x.Literal()] = true
		case *ast.InfixExpression:
			set["infix"+x.Literal()] = true
			walk(x.Left)
			walk(x.Right)
		case *ast.ForExpression:
			set["for"] = true
			walk(x.Condition)
			if x.Body != nil {
				walk(x.Body)
			}
		case *ast.IfExpression:
			set["if"] = true
			walk(x.Condition)
			if x.Consequence != nil {
				walk(x.Consequence)
			}
			if x.Alternative != nil {
				walk(x.Alternative)
			}
		case *ast.Builtin:
			set[x.Literal()] = true
			for _, p := range x.Parameters {
				walk(p)
			}
		case *ast.FunctionLiteral:
			set["func"] = true
			if x.Body != nil {
				walk(x.Body)
			}
		case *ast.CallExpression:
			set["call"] = true
			walk(x.Function)
			for _, p := range x.Arguments {
				walk(p)
			}
		case *ast.ArrayLiteral:
			set["array"] = true
			for _, p := range x.Elements {
				walk(p)
			}
		case *ast.IndexExpression:
			if x.Token.Literal() == "." {
				set["dot"] = true
			} else {
				set["index"] = true
			}
			walk(x.Left)
			walk(x.Index)
		case *ast.MapLiteral:
			set["map"] = true
			for _, k := range x.Order {
				walk(k)
				walk(x.Pairs[k])
			}
		case *ast.FloatLiteral:
			set["float"] = true
		case *ast.StringLiteral:
			set["string"] = true
		}
	}
	walk(prog)
	delete(set, "infix=")
	var ks []string
	for k := range set {
		ks = append(ks, k)
	}
	sort.Strings(ks)
	if len(ks) > 6 {
		ks = ks[:6]
	}
	if len(ks) == 0 {
		return "literal"
	}
	return strings.Join(ks, "+")
}

// one program through both evaluators; returns (impl, model observation, parsed tree, in-domain)
func (r *runner) both(src string) (implRes, string, ast.Node, bool) {
	return r.bothMode(src, true)
}

func (r *runner) bothMode(src string, noReg bool) (implRes, string, ast.Node, bool) {
	prog, ok := parseProgram(src)
	if !ok {
		return implRes{}, "", nil, false
	}
	impl := runImpl(src, noReg)
	mo := "SKIP no-model"
	if r.mp != nil {
		mo = r.mp.ask(caseLine(src, prog))
	}
	return impl, mo, prog, true
}

func (r *runner) disagree(src string) (bool, string) {
	return r.disagreeMode(src, true)
}

func (r *runner) disagreeMode(src string, noReg bool) (bool, string) {
	impl, mo, _, ok := r.bothMode(src, noReg)
	if !ok || strings.HasPrefix(mo, "SKIP") || mo == "TIMEOUT" {
		return false, ""
	}
	if impl.obs == mo {
		return false, ""
	}
	return true, classPair(impl, mo)
}

func clip(s string, n int) string {
	if len(s) > n {
		return s[:n] + "..."
	}
	return s
}

// one generated or corpus program
func (r *runner) one(src string, kind string, feats map[string]bool) {
	c := r.c
	prog, ok := parseProgram(src)
	if !ok {
		r.nParseErr++
		c.Count("parse-error")
		return
	}
	if bad := reservedIdent(prog, r.st); bad != "" {
		c.Count("uses-predefined-name")
		return
	}
	impl := runImpl(src, true)
	r.bigOutput = len(impl.out) > 32768
	line := caseLine(src, prog)
	if impl.class == "P" && impl.val == "timeout" {
		// does not end within the time limit (e.g. `for x = true {..}`): not a case
		c.Count("impl-timeout")
		return
	}
	// default settings (registers on): differences are other properties' business, only counted
	dflt := runImpl(src, false)
	if dflt.obs != impl.obs && dflt.val != "timeout" {
		c.Count("registers-on-vs-off-differ")
		if len(r.regDiffs) < 10 {
			r.regDiffs = append(r.regDiffs, fmt.Sprintf("src(hex)=%s off=%s on=%s", Hx([]byte(src)), clip(impl.obs, 80), clip(dflt.obs, 80)))
		}
	}
	// determinism of the implementation on a fresh state (model-free)
	if again := runImpl(src, true); again.obs != impl.obs && again.val != "timeout" {
		c.Fail("nondeterministic:"+constructs(prog), "EVAL "+Hx([]byte(src)), fmt.Sprintf("first %s then %s", impl.obs, again.obs))
	}
	c.Count("kind=" + kind)
	c.Count("outcome:" + kind + "=" + impl.class)
	if r.mp == nil {
		c.Case(line, impl.obs)
		return
	}
	mo := r.mp.ask(line)
	if mo == "TIMEOUT" {
		c.Count("model-timeout")
		return
	}
	if strings.HasPrefix(mo, "SKIP") {
		r.nSkip++
		c.Count("model-" + strings.ReplaceAll(mo, " ", "="))
		c.Case(line, impl.obs)
		return
	}
	r.nCompared++
	if mo == impl.obs && dflt.obs != mo && dflt.val != "timeout" {
		// the DEFAULT configuration (registers on) disagrees with the reference although the plain-variable run agrees
		r.regDisagreement(src, impl, dflt, mo)
	}
	if mo == impl.obs {
		c.Case(line, impl.obs)
		// non-trivial: the program printed something or produced a container / error, through >= 3 distinct constructs
		if len(feats) >= 3 || len(impl.out) > 0 {
			c.NonTrivial(src)
		}
		return
	}
	// disagreement: shrink, classify
	pair := classPair(impl, mo)
	small := src
	didShrink := false
	if r.shrunk < 20 {
		r.shrunk++
		didShrink = true
		small = r.shrink(src, pair)
	}
	sprog, _ := parseProgram(small)
	sig := constructs(sprog) + ":" + pair
	if !didShrink { // the shrinking budget of this run is used up: do not invent a construct list from a large program
		sig = "unshrunk:" + pair
	}
	simpl, smo, _, _ := r.both(small)
	detail := fmt.Sprintf("program %q: implementation %s (%s), reference %s; found as %q", small, simpl.obs, simpl.val, smo, src)
	if why, ok := allowed(sig); ok {
		c.Count("allow-listed:" + sig + " (" + why + ")")
		return
	}
	c.Fail(sig, "EVAL "+Hx([]byte(small)), detail)
	c.Case(line, impl.obs)
}

// The default configuration keeps integer parameters and counted-loop variables in registers.  Its result must be
// the reference's too.  Three recorded limitations of the register mode (C05's findings, visible as an evaluator
// error with registers on) get their own signatures; anything else is shrunk and signed by construct.
func (r *runner) regDisagreement(src string, off, on implRes, mo string) {
	c := r.c
	// the register mode's error, as the outcome or caught by catch() and then printed / returned as text
	raised := func(msg string) bool {
		return strings.Contains(on.val, msg) || strings.Contains(string(on.out), msg) || strings.Contains(on.obs, Hx([]byte(msg)))
	}
	if on.class == "E" || raised("register assignment of non integer") || raised("not a var REGISTER") {
		kind := ""
		switch {
		case raised("register assignment of non integer"):
			kind = "reg-assign-nonint"
		case raised("not a var REGISTER"):
			kind = "reg-name-as-inner-loopvar"
		case on.class == "E" && strings.Contains(on.val, "identifier not found"):
			kind = "reg-name-not-bound"
		}
		if kind != "" {
			c.Fail("registers-on:"+kind+":on=error", "EVAL "+Hx([]byte(src)),
				fmt.Sprintf("registers on: error %q; registers off and reference: %s", on.val, clip(mo, 120)))
			return
		}
	}
	pair := classPair(on, mo)
	small := src
	if r.shrunk < 20 {
		r.shrunk++
		small = r.shrinkMode(src, pair, false)
	}
	sprog, _ := parseProgram(small)
	simpl, smo, _, _ := r.bothMode(small, false)
	// an error of the register mode swallowed by catch() may only become visible once the program is shrunk
	// (catch(f()).err -> catch(f()) shows the text)
	for msg, kind := range map[string]string{"register assignment of non integer": "reg-assign-nonint", "not a var REGISTER": "reg-name-as-inner-loopvar"} {
		if strings.Contains(simpl.val, msg) || strings.Contains(string(simpl.out), msg) || strings.Contains(simpl.obs, Hx([]byte(msg))) {
			c.Fail("registers-on:"+kind+":on=error", "EVAL "+Hx([]byte(small)),
				fmt.Sprintf("registers on: the error %q is raised and caught in %q; registers off and reference: %s", msg, small, clip(smo, 120)))
			return
		}
	}
	c.Fail("registers-on:"+constructs(sprog)+":"+pair, "EVAL "+Hx([]byte(small)),
		fmt.Sprintf("program %q with the default settings (registers on): %s (%s), reference %s; found as %q", small, simpl.obs, simpl.val, smo, clip(src, 300)))
}

// ---------------------------------------------------------------------------------------------------
// shrinking on the real syntax tree: statement deletion, sub-expression hoisting, literal simplification.
// A candidate is kept when it still parses and still disagrees with the same outcome class pair.
func (r *runner) shrink(src, pair string) string { return r.shrinkMode(src, pair, true) }

func (r *runner) shrinkMode(src, pair string, noReg bool) string {
	best := src
	budget := 400
	if r.bigOutput { // every candidate of a program that prints hundreds of KiB costs seconds: a short search is enough
		budget = 40
	}
	for round := 0; round < 30; round++ {
		prog, ok := parseProgram(best)
		if !ok {
			return best
		}
		cands := shrinkCandidates(prog)
		improved := false
		for _, cand := range cands {
			if budget <= 0 {
				return best
			}
			if len(cand) >= len(best) || cand == "" {
				continue
			}
			budget--
			if dis, p := r.disagreeMode(cand, noReg); dis && p == pair {
				best = cand
				improved = true
				break
			}
		}
		if !improved {
			return best
		}
	}
	return best
}

func render(prog ast.Node) string {
	defer func() { recover() }()
	ps := ast.NewPrintState()
	ps.Compact = true
	return prog.PrettyPrint(ps).String()
}

func shrinkCandidates(prog *ast.Statements) []string {
	var out []string
	emit := func() {
		s := render(prog)
		if s != "" {
			out = append(out, s)
		}
	}
	zero := &ast.IntegerLiteral{Val: 0}
	if p, ok := parseProgram("0"); ok && len(p.Statements) == 1 {
		if il, ok := p.Statements[0].(*ast.IntegerLiteral); ok {
			zero = il
		}
	}
	var walkStmts func(s *ast.Statements)
	var walkSlot func(get func() ast.Node, set func(ast.Node))
	subs := func(n ast.Node) []ast.Node {
		switch x := n.(type) {
		case *ast.InfixExpression:
			return []ast.Node{x.Left, x.Right}
		case *ast.PrefixExpression:
			return []ast.Node{x.Right}
		case *ast.CallExpression:
			return append([]ast.Node{x.Function}, x.Arguments...)
		case *ast.IndexExpression:
			return []ast.Node{x.Left, x.Index}
		case *ast.ArrayLiteral:
			return x.Elements
		case *ast.Builtin:
			return x.Parameters
		case *ast.IfExpression:
			r := []ast.Node{x.Condition}
			if x.Consequence != nil && len(x.Consequence.Statements) == 1 {
				r = append(r, x.Consequence.Statements[0])
			}
			if x.Alternative != nil && len(x.Alternative.Statements) == 1 {
				r = append(r, x.Alternative.Statements[0])
			}
			return r
		}
		return nil
	}
	walkNode := func(n ast.Node) {}
	walkNode = func(n ast.Node) {
		if isNil(n) {
			return
		}
		switch x := n.(type) {
		case *ast.Statements:
			walkStmts(x)
		case *ast.InfixExpression:
			walkSlot(func() ast.Node { return x.Left }, func(v ast.Node) { x.Left = v })
			walkSlot(func() ast.Node { return x.Right }, func(v ast.Node) { x.Right = v })
		case *ast.PrefixExpression:
			walkSlot(func() ast.Node { return x.Right }, func(v ast.Node) { x.Right = v })
		case *ast.ReturnStatement:
			walkSlot(func() ast.Node { return x.ReturnValue }, func(v ast.Node) { x.ReturnValue = v })
		case *ast.IfExpression:
			walkSlot(func() ast.Node { return x.Condition }, func(v ast.Node) { x.Condition = v })
			if x.Consequence != nil {
				walkStmts(x.Consequence)
			}
			if x.Alternative != nil {
				walkStmts(x.Alternative)
				old := x.Alternative
				x.Alternative = nil
				emit()
				x.Alternative = old
			}
		case *ast.ForExpression:
			walkSlot(func() ast.Node { return x.Condition }, func(v ast.Node) { x.Condition = v })
			if x.Body != nil {
				walkStmts(x.Body)
			}
		case *ast.FunctionLiteral:
			if x.Body != nil {
				walkStmts(x.Body)
			}
		case *ast.CallExpression:
			walkSlot(func() ast.Node { return x.Function }, func(v ast.Node) { x.Function = v })
			for i := range x.Arguments {
				i := i
				walkSlot(func() ast.Node { return x.Arguments[i] }, func(v ast.Node) { x.Arguments[i] = v })
			}
		case *ast.ArrayLiteral:
			for i := range x.Elements {
				i := i
				walkSlot(func() ast.Node { return x.Elements[i] }, func(v ast.Node) { x.Elements[i] = v })
			}
			if len(x.Elements) > 1 {
				old := x.Elements
				x.Elements = old[:len(old)/2]
				emit()
				x.Elements = old[len(old)/2:]
				emit()
				x.Elements = old
			}
		case *ast.Builtin:
			for i := range x.Parameters {
				i := i
				walkSlot(func() ast.Node { return x.Parameters[i] }, func(v ast.Node) { x.Parameters[i] = v })
			}
		case *ast.IndexExpression:
			walkSlot(func() ast.Node { return x.Left }, func(v ast.Node) { x.Left = v })
			if x.Token.Literal() != "." {
				walkSlot(func() ast.Node { return x.Index }, func(v ast.Node) { x.Index = v })
			}
		case *ast.MapLiteral:
			if len(x.Order) > 1 {
				old := x.Order
				x.Order = old[:len(old)/2]
				emit()
				x.Order = old[len(old)/2:]
				emit()
				x.Order = old
			}
		}
	}
	walkSlot = func(get func() ast.Node, set func(ast.Node)) {
		cur := get()
		if isNil(cur) {
			return
		}
		// hoist a sub-expression into the slot
		for _, s := range subs(cur) {
			if isNil(s) {
				continue
			}
			set(s)
			emit()
		}
		// simplify to a literal
		if _, isLit := cur.(*ast.IntegerLiteral); !isLit {
			set(zero)
			emit()
		}
		set(cur)
		walkNode(cur)
	}
	walkStmts = func(s *ast.Statements) {
		// delete one statement (and halves of long lists)
		old := s.Statements
		if len(old) > 3 {
			s.Statements = old[:len(old)/2]
			emit()
			s.Statements = old[len(old)/2:]
			emit()
		}
		for i := range old {
			ns := make([]ast.Node, 0, len(old)-1)
			ns = append(ns, old[:i]...)
			ns = append(ns, old[i+1:]...)
			s.Statements = ns
			emit()
		}
		s.Statements = old
		for i := range old {
			i := i
			// replace a compound statement by its body / operands
			switch x := old[i].(type) {
			case *ast.IfExpression:
				for _, b := range []*ast.Statements{x.Consequence, x.Alternative} {
					if b != nil {
						ns := append(append(append([]ast.Node{}, old[:i]...), b.Statements...), old[i+1:]...)
						s.Statements = ns
						emit()
					}
				}
				s.Statements = old
			case *ast.ForExpression:
				if x.Body != nil {
					ns := append(append(append([]ast.Node{}, old[:i]...), x.Body.Statements...), old[i+1:]...)
					s.Statements = ns
					emit()
					s.Statements = old
				}
			}
			walkSlot(func() ast.Node { return s.Statements[i] }, func(v ast.Node) { s.Statements[i] = v })
		}
	}
	walkStmts(prog)
	return out
}

// ---------------------------------------------------------------------------------------------------
// corpus: minimised past failures and the candidate disagreements of the design (run first)
var corpus = []string{
	// round 11: closures of IDENTICAL text made by one maker, each capturing a different function value / constant-named
	// parameter / container, called with the SAME argument one after the other (a remembered result of the first must not
	// answer for the second: what a closure captured is part of what it computes)
	`func mk(g){ func(x){ g(x) } }; a=mk(func(x){x+1}); b=mk(func(x){x*10}); println(a(3)); println(b(3)); println(a(3))`,
	`func mk(g){ func(x){ g(x) } }; [mk(func(x){x+1})(3), mk(func(x){x*10})(3), mk(func(x){x-1})(3)]`,
	`func mkc(N){ func(x){ x+N } }; c=mkc(1); d=mkc(2); println(c(3)); println(d(3)); [c(3), d(3)]`,
	`func mkv(n){ func(x){ x+n } }; c=mkv(1); d=mkv(2); println(c(3)); println(d(3)); [c(3), d(3)]`,
	`mk = g => x => g(x); a=mk(x=>x+1); b=mk(x=>x*10); [a(3), b(3), a(3), b(3)]`,
	`func mk(F){ func(x){ F(x)+F(x) } }; [mk(func(x){x+1})(3), mk(func(x){x*10})(3)]`,
	`func mk(g){ func(){ func(x){ g(x) } } }; a=mk(func(x){x+1})(); b=mk(func(x){x*10})(); [a(3), b(3)]`,
	`func mk(gs){ func(x){ gs[0](x) } }; [mk([func(x){x+1}])(3), mk([func(x){x*10}])(3)]`,
	`func mk(ARR){ func(i){ ARR[i] } }; [mk([1,2])(0), mk([5,6])(0), mk([7,8,9,10,11,12,13,14,15])(0)]`,
	`func mk(M){ func(k){ M[k] } }; [mk({"a":1})("a"), mk({"a":2})("a")]`,
	`func mk(g, N){ func(x){ g(x)+N } }; [mk(func(x){x+1}, 100)(3), mk(func(x){x+1}, 200)(3), mk(func(x){x*10}, 100)(3)]`,
	`func ap(g, x){ g(x) }; func mk(g){ func(x){ ap(g, x) } }; [mk(func(x){x+1})(3), mk(func(x){x*10})(3)]`,
	`func mk(g){ h = func(x){ g(x) }; h }; r=[]; for f = [func(x){x+1}, func(x){x*10}, func(x){-x}] { r = r + [mk(f)(3)] }; r`,
	`func twice(f){ func(x){ f(f(x)) } }; [twice(func(x){x+1})(3), twice(func(x){x*10})(3), twice(twice(func(x){x+1}))(3)]`,
	`s="a";func f(){print(s)};f();print(s)`,
	`func mk(x,other){()=>if other==nil {x} else {other()+x}};a=mk(1,nil);b=mk(2,a);b()`,
	`c=0;func f(){c=c+1;c};print(f());c`,
	`c=0;func f(){c=c+1;c};error(f())`,
	`x=true;func f(){if x {1}};f()`,
	`x=3;func f(){for x {print("a")}};f()`,
	`x=3;func f(){for i=x {print(i)}};f()`,
	`x=2;func f(){for i=0:x{print(i)}};f()`,
	`x=[1,2];func f(){for i=x {print(i)}};f()`,
	`x=1;func f(){m=catch(x);x=2;m};f()`,
	`m={1:2};func f(){del(m[1])};f();m`,
	`{1:error("x")}`, `{error("x"):1}`, `m={};m[error("x")]=1;m`,
	`for true{break}`,
	`i=0;for i<5{i++;if i==2{continue};if i==4{break};print(i)}`,
	`for i=3{for true{break};print(i)}`,
	`x=1;func f(){a=[x];x=2;a};f()`,
	`1/0`, `1%0`, `1<<(-1)`, `1>>(-1)`, `catch(1/0).err`,
	`"abc"[-5:2]`, `a=[1,2,3];a[-7:1]`, `"abc"[5:10]`, `[1,2,3][2:1]`,
	`a=9223372036854775807; b=9223372036854775808.0; [a<b, 5<b, [a]<[b], b>a, a==b, a>=b, b<=a, a!=b]`,
	`m={9223372036854775808.0:"big", 1:"one", 9223372036854775807:"max"}; for kv=m{print(kv.value,"")}; first(m).value`,
	`[(-9223372036854775807-1) >= -9223372036854775808.0, (-9223372036854775807-1) > -9223372036854775808.0, -9223372036854777856.0 < (-9223372036854775807-1), 9223372036854774784.0 < 9223372036854775807, 9223372036854777856.0 > 9223372036854775807]`,
	`[9007199254740993 > 9007199254740992.0, 9007199254740993 == 9007199254740992.0, 9007199254740993 < 9007199254740994.0, [9007199254740993] <= [9007199254740992.0], -9007199254740993 < -9007199254740992.0]`,
	`big = "0123456789abcdef"*300; catch(println(big, 1/(len(big)-4800)))`,
	`big = "0123456789abcdef"*300; f=func(n){println("in f", n); n*2}; println(big, f(3))`,
	`x=1; g=func(a,b,c,d,e){a+b+c+d+e+x}; f=func(n){g(n,0,0,0,0)}; println(f(1)); x=10; println(f(1))`,
	`cnt=0; note=func(..){cnt=cnt+1; len(..)}; step=func(n){for i=n{note(i,1,2,3,4)}; n}; step(3); println(cnt); step(3); println(cnt)`,
	`x=1; g=func(a,b,c,d){a+b+c+d+x}; f=func(n){g(n,0,0,0)}; println(f(1)); x=10; println(f(1))`,
	`x=1; g=func(){x}; f=func(n){g()+n}; println(f(1)); x=10; println(f(1))`,
	`table = func(n){for i = n {println("row", i, i*i)}; n}; a = table(6000); b = table(6000); println("done", a, b)`,
	`f=func(a){a[0]/2}; x=[3,1,1,1,1,1,1,1,1,1]; y=[3.0,1,1,1,1,1,1,1,1,1]; println(x==y, f(x), f(y), f(x))`,
	`f=func(m){[m[0]/2, m[0]==3]}; x={0:3,1:1,2:2,3:3,4:4}; y={0:3.0,1:1,2:2,3:3,4:4}; println(f(x), f(y))`,
	`s = "a\xc2\xa0b"; println(len(s), [s], {"k\xe2\x80\x8bz": s}); println(["plain", "caf\xc3\xa9", "x\x7fy", "q\"t", "soft\xc2\xadhyphen"])`,
	`println(["\xc2\x85", "\xe2\x80\xa8\xe2\x80\xa9", "\xef\xbb\xbf", "\xee\x80\x80", "\xf3\xb0\x80\x80", "\xef\xbf\xbd", "\xf0\x9f\x98\x80", "\xe6\x97\xa5\xd0\x96"])`,
	`id = x => x; f = func(n) { n + id(n = 5) }; println(f(1))`,
	`id = x => x; g = func(n) { r = 0; for i = n { r = r + (i * id(i = i + 1)) }; r }; println(g(4))`,
	`id = x => x; h = func(a, b) { [a - id(a = b), a] }; println(h(10, 3))`,
	`f = func(n) { n + (n = 5) }; [f(1), func(n){ n * -(n = 3) }(2), func(n){ [n, n = 7, n] }(1)]`,
	`f1=func(p2,p3,p4){p3={"value":2}}; r27=catch(f1(3,4,4)); println(r27.err)`,
	`func f(n){n="a";n};f(1)`, `for i=3{i="x"};1`, `func f(n){for n=0:3{};n};f(7)`,
	`for i=3{};i`, `func g(){i};for i=3{print(g())}`,
	`for c = "a\xffb" { print(len(c)) }`, `s="\xffz"; println(len(first(s)), len(rest(s)))`, `rest("a\xffb")`, `rest("\xc3\xa9")`,
	`for c="\xf0\x9f\x98\x80\xed\xa0\x80\xc0\xafz\xe2\x82"{print(len(c),"")}`, `[rest("\xf4\x90\x80\x80"), first("\xe0\x9f\xbf"), first("\xe2\x82\xacx"), rest("\xe2\x82z")]`,
	`print(["\x80a\xc3"])`,
	`sum5=func(a,b,c,d,e){a+b+c+d+e}; println(sum5(1,2,3,4,5)); println(sum5(1,2,3,4,6)); println(sum5(9,2,3,4,5))`,
	`last=func(a,..){println("last of",a,..); ..[-1]}; [last(0,1,2,3,4), last(0,1,2,3,5), last(0,1,2,3,4)]`,
	`func f8(a,b,c,d,e,f,g,h){println("in",a,e,h); [a,e,h]}; [f8(1,2,3,4,5,6,7,8), f8(1,2,3,4,5,6,7,9), f8(1,2,3,4,0,6,7,8)]`,
	`f=func(a,..){..}; [f(1,[[5]]), f(1,[5]), f(1,5), f(1,[[5]]), f(1,[5])]`,
	`func counter(start){n=start; {"inc":()=>{n=n+1}, "get":()=>n}}; c1=counter(0); c2=counter(0); c1.inc(); c1.inc(); println(c1.get(), c2.get())`,
	`func mk(){n=0; [()=>{n=n+1;n}, ()=>n]}; a=mk(); b=mk(); a[0](); a[0](); [a[1](), b[1]()]`,
	`func mk(s){n=len(s); {"o":[()=>{n++}, ()=>n], "a":1,"b":2,"c":3,"d":4}}; a=mk("x"); b=mk("x"); c=mk("yy"); a.o[0](); [a.o[1](), b.o[1](), c.o[1]()]`,
	`func mk(k){n=k; [()=>{n=n+1;n}, ()=>n, 1,2,3,4,5,6,7,8]}; objs=[]; for i=3{objs=objs+[mk(1)]}; objs[0][0](); [objs[0][1](), objs[1][1](), objs[2][1]()]`,
	`a=[1,2,3,4,5,6,7,8,9]; a=a+10; b=a+11; c=a+12; b[-1]`,
	`a=[1,2,3,4,5,6,7,8,9]; a=a+10; b=a+11; c=a+12; println(b, c, a)`,
	`a=[1,2,3,4,5,6,7,8,9]; a=a+[10]; b=a+[11]; c=a+[12]; [b, c, a]`,
	`a=[1,2,3,4,5,6,7,8,9]+10; func fk(p){x=p+1;y=p+2;[x,y,p]}; [fk(a), a]`,
	`m={1:1,3:3,5:5,7:7}+{9:9}; x=m+{11:1}; y=m+{11:2}; d=m; del(d[1]); [x, y, d, m]`,
	`a=[1,2,3,4,5,6,7,8,9,10];b=a;b[0]=99;a[0]`,
	`a=[1,2,3,4,5,6,7,8,9];b=a+[10];x=b+[11];y=b+[12];x`,
	`m={1:1,2:2,3:3,4:4,5:5};n=m;n[1]=99;m[1]`,
	`m={1:1,2:2,3:3,4:4,5:5};n=m;del(n[1]);m`,
	`m={"a":1,"b":2}+{};rest(m)`,
	`a=9007199254740992;b=9007199254740992.0;c=9007199254740993;[c<=b,b<=a,c<=a]`,
	`true&&1`, `1&&true`, `false||1`, `nil||true`, `nil<1`, `1<<64`, `-8>>1`, `{1:1,1.0:2}`, `[1]==[1.0]`, `1==1.0`,
	`(-9223372036854775807-1)/(-1)`, `(-9223372036854775807-1)%(-1)`, `9223372036854775807+1`, `-(-9223372036854775807-1)`,
	`func test(n) {if (n==2) {x=1}; if (n==1) {return x}; test(n-1)}; test(3)`,
	`func a(){q=1;b()};func b(){q};a()`,
	`x=1;func f(){x:=2;x};[f(),x]`, `x=1;func f(){x=2};f();x`, `func f(){y=5};f();y`,
	`func mk(){n:=0;()=>{n++;n}};g=mk();h=mk();[g(),g(),h()]`,
	`AB=1;AB=2`, `AB=1;AB=1`, `AB=1;func f(){AB:=3;AB};f()`, `A=[1];A[0]=5;A`,
	`func vf(..){..}; a=[1,2,3]; [func(){vf(a)}(), vf(a)]`, `func vf(x,..){[x,..]}; a=[1,2,3]; func w(){vf(0,a)}; [w(), vf(0,a)]`,
	`func f(a,..){[a,..]};[f(1,2,3),f(1),f(1,[2,3])]`, `func f(a,..){[a,..]};f()`,
	`f=func(n){if n<=1 {return 1}; n*self(n-1)};f(5)`,
	`for i=5{if i==1{continue};if i==3{break};print(i)}`,
	`func f(){for i=5{if i==2{return i*10}};99};f()`,
	`for kv={1:2,3:4}{print(kv)}`, `for x="abc"{print(x)}`, `r=for 3{7};r`, `for i=3:1{i}`,
	`print("a",1,1.5,true,nil,[1,"b"],{"k":"v"})`, `print(["q\"x\\y\n\t\x01\xff"])`, `println(0.5,2.25,-3.0,100.0,0.125)`,
	`catch(error("boom",1))`, `x=error("a");5`, `[1,error("x"),3]`,
	`a=[1,2,3];a[-1]=9;a`, `m={};m.a=3;m`, `m={"a":{"b":1}};m.a.b`,
	`1+2*3-4/2`, `2*3%4`, `1<<2+1`, `1|2&3^4`, `1<2==true`, `- -2`, `a=1;a+++1`, `1:3+1`, `true&&false||true`,
	`1.5+1`, `1.5*2`, `1/2.0`, `3%2.5`, `2.5%-2`, `-2.5%2`, `1.5/0`, `0.0/0`, `7.0/2`,
	`func f(n){if n==0{return 0};n+f(n-1)};f(10)`,
	`func ev(n){if n==0{true}else{od(n-1)}};func od(n){if n==0{false}else{ev(n-1)}};ev(7)`,
}

// ---------------------------------------------------------------------------------------------------
// operator-pair matrix at depth 2: a op1 b op2 c without parentheses (the real parser's precedence and
// associativity decide the tree), over operand triples, plus prefix x infix.
var matrixOps = []string{"+", "-", "*", "/", "%", "<<", ">>", "&", "|", "^", "==", "!=", "<", ">", "<=", ">=", "&&", "||", ":"}
var matrixPrefix = []string{"-", "!", "~", "+"}

func matrixOperands(thorough bool) [][3]string {
	ints := []string{"0", "1", "2", "3", "63", "64", "9223372036854775807", "a", "b"}
	var out [][3]string
	if thorough {
		vals := []string{"0", "1", "3", "64", "9223372036854775807", "a"}
		for _, x := range vals {
			for _, y := range vals {
				for _, z := range vals {
					out = append(out, [3]string{x, y, z})
				}
			}
		}
	} else {
		for i := 0; i < 4; i++ {
			out = append(out, [3]string{ints[(i*5)%len(ints)], ints[(i*3+1)%len(ints)], ints[(i*7+2)%len(ints)]})
		}
	}
	// a few mixed-type triples
	out = append(out, [3]string{"true", "false", "true"}, [3]string{"1.5", "2", "0.5"}, [3]string{"\"a\"", "\"b\"", "2"},
		[3]string{"[1]", "[2]", "1"}, [3]string{"nil", "1", "true"}, [3]string{"2", "true", "\"s\""})
	return out
}

// Frozen copy of the documented binding strengths (ast.Precedences at the time the reference was written).
// It is NOT read from /repo: the direct oracle below states, on the implementation alone, that an
// unparenthesised expression means the same as its parenthesisation under this table with left association.
var refPrec = map[string]int{"||": 3, "&&": 4, ":": 4, "==": 6, "!=": 6, "<": 7, ">": 7, "<=": 7, ">=": 7,
	"+": 8, "-": 8, "|": 8, "^": 8, "&": 9, "*": 9, "%": 9, "<<": 9, ">>": 9, "/": 10}

// model-free: `x o1 y o2 z` against its explicit grouping
func (r *runner) precOracle(prelude string, t [3]string, o1, o2 string) {
	c := r.c
	bare := prelude + t[0] + " " + o1 + " " + t[1] + " " + o2 + " " + t[2]
	var grouped string
	if refPrec[o2] > refPrec[o1] {
		grouped = prelude + t[0] + " " + o1 + " (" + t[1] + " " + o2 + " " + t[2] + ")"
	} else {
		grouped = prelude + "(" + t[0] + " " + o1 + " " + t[1] + ") " + o2 + " " + t[2]
	}
	a, b := runImpl(bare, true), runImpl(grouped, true)
	c.Eval()
	if a.obs != b.obs {
		c.Fail("precedence:"+o1+","+o2, "EVAL "+Hx([]byte(bare)), fmt.Sprintf("%q gives %s but %q gives %s", bare, a.obs, grouped, b.obs))
	}
}

// prefix operators bind tighter than every infix operator and looser than call / index / dot
func (r *runner) prefixOracle() {
	c := r.c
	prelude := "a=[3,5];m={\"k\":7};f=x=>x+1;t=true;n=4;"
	pairs := [][2]string{
		{"-n + 1", "(-n) + 1"}, {"-n * 2", "(-n) * 2"}, {"-n / 2", "(-n) / 2"}, {"-n % 3", "(-n) % 3"}, {"-n << 1", "(-n) << 1"},
		{"-n == -4", "(-n) == (-4)"}, {"-n < 1", "(-n) < 1"}, {"~n & 3", "(~n) & 3"}, {"~n | 1", "(~n) | 1"}, {"~n ^ 1", "(~n) ^ 1"},
		{"!t && t", "(!t) && t"}, {"!t || t", "(!t) || t"}, {"!t == t", "(!t) == t"}, {"-n : 1", "(-n) : 1"}, {"- -n", "-(-n)"}, {"-~n", "-(~n)"},
		{"-a[0]", "-(a[0])"}, {"-a[1] + 1", "(-(a[1])) + 1"}, {"-m.k", "-(m.k)"}, {"-f(1)", "-(f(1))"}, {"!f(1) == 2", "(!(f(1))) == 2"},
		{"-f(1) * a[0]", "(-(f(1))) * (a[0])"}, {"a[0] + a[1] * 2", "(a[0]) + ((a[1]) * 2)"}, {"m.k - f(2) / 3", "(m.k) - ((f(2)) / 3)"},
		{"x1 = 1 + 2 * 3", "x1 = (1 + (2 * 3))"}, {"x1 = t || t && !t", "x1 = (t || (t && (!t)))"},
		{"g = x => x + 1 * 2; g(1)", "g = (x => (x + (1 * 2))); g(1)"},
	}
	for _, p := range pairs {
		x, y := runImpl(prelude+p[0], true), runImpl(prelude+p[1], true)
		c.Eval()
		if x.obs != y.obs {
			c.Fail("precedence:prefix/call/index:"+strings.Fields(p[0])[0], "EVAL "+Hx([]byte(prelude+p[0])),
				fmt.Sprintf("%q gives %s but %q gives %s", p[0], x.obs, p[1], y.obs))
		}
		r.one(prelude+p[0], "matrix-prefix", map[string]bool{"p": true, "q": true, "m": true})
	}
}

func (r *runner) matrix(thorough bool) int {
	n := 0
	prelude := "a=(-9223372036854775807-1);b=(-1);"
	ops := matrixOperands(thorough)
	for _, o1 := range matrixOps {
		for _, o2 := range matrixOps {
			for i, t := range ops {
				r.one(prelude+t[0]+" "+o1+" "+t[1]+" "+o2+" "+t[2], "matrix", map[string]bool{o1: true, o2: true, "m": true})
				if thorough || i < 3 || i >= len(ops)-6 {
					r.precOracle(prelude, t, o1, o2)
				}
				n++
			}
		}
	}
	for _, p := range matrixPrefix {
		for _, o := range matrixOps {
			for _, t := range ops[len(ops)-8:] {
				r.one(prelude+p+t[0]+" "+o+" "+p+t[1], "matrix-prefix", map[string]bool{p: true, o: true, "m": true})
				n++
			}
		}
	}
	r.prefixOracle()
	return n
}

// ---------------------------------------------------------------------------------------------------
// SIZE thresholds in the output path: one call (or one input) printing just below / just above 4 KiB, 64 KiB and
// 1 MiB, as very many small prints, as a few large ones, and through nested calls that each print; the same call
// is repeated with equal arguments (memoization is on: the remembered call must replay all of its output) and once
// with a different argument.
func (r *runner) outputSizes(thorough bool) int {
	n := 0
	emit := func(src string, tag string) {
		r.one(src, "big-output", map[string]bool{"big-output": true, tag: true, "x": true})
		n++
	}
	for _, T := range []int{4096, 65536, 1048576} {
		for _, delta := range []int{-200, 300} {
			if T == 1048576 && !thorough && delta < 0 {
				continue
			}
			total := T + delta
			// A: very many small prints ("row <i> <i*i>\n" is about 14 bytes; longer rows for the large sizes)
			pad := ""
			rowLen := 14
			if total/rowLen > 9000 {
				pad = strings.Repeat("p", total/9000)
				rowLen += len(pad)
			}
			rows := total/rowLen + 1
			emit(fmt.Sprintf("tb = func(n) {for i = n {println(\"row%s\", i, i * i)}; n}; a = tb(%d); b = tb(%d); c = tb(3); println(\"done\", a, b, c)", pad, rows, rows), "many-small")
			// B: a few large prints
			k := total/3 + 1
			emit(fmt.Sprintf("bg = func(k) {s = \"x\" * k; print(s); println(s); print(s, \"\"); len(s)}; a = bg(%d); b = bg(%d); c = bg(5); println(\"done\", a, b, c)", k, k), "few-large")
			if T == 1048576 && !thorough {
				continue
			}
			// C: nested calls that each print; the outer call is repeated
			half := rows / 2
			emit(fmt.Sprintf("inner = func(n, t) {for i = n {println(t, i)}; n}; outer = func(n) {println(\"begin\"); x = inner(n, \"first%s\"); y = inner(n, \"first%s\"); z = inner(2, \"z\"); println(\"end\"); x + y + z}; [outer(%d), outer(%d), outer(1)]", pad, pad, half, half), "nested-calls")
			// D: one input printing that much at top level, then a remembered call
			emit(fmt.Sprintf("f = func(n) {println(\"f\", n); n}; f(1); for i = %d {println(\"row%s\", i, i * i)}; f(1); f(2)", rows, pad), "top-level")
			// E: a recursive printer (every level prints, one remembered result per level)
			if T <= 65536 {
				lv := 40
				per := total/lv + 1
				emit(fmt.Sprintf("rp = func(d, s) {if d <= 0 {return 0}; println(d, s); 1 + rp(d - 1, s)}; w = \"y\" * %d; [rp(%d, w), rp(%d, w), rp(2, \"q\")]", per, lv, lv), "recursive")
			}
		}
	}
	// ARGUMENT LISTS of print / println / error: earlier arguments totalling just below / above 4 KiB and 64 KiB, and a
	// later argument that (i) errors, (ii) prints while it is evaluated (a function call), (iii) is a remembered call
	// replaying its output.  All arguments are evaluated before anything of the statement itself is written.
	for _, T := range []int{4096, 65536} {
		for _, delta := range []int{-150, 400} {
			total := T + delta
			k := total/16 + 1
			pre := fmt.Sprintf("big = \"0123456789abcdef\" * %d; half = \"ab\" * %d; f = func(n) {println(\"in f\", n); n * 2}; ", k, total/4+1)
			for _, b := range []string{"println", "print"} {
				// (i) a later argument errors: nothing of this statement is printed
				emit(pre+fmt.Sprintf("r = catch(%s(big, 1 / (len(big) - %d))); println(\"after\", r.err)", b, k*16), "args-error")
				emit(pre+fmt.Sprintf("r = catch(%s(half, half, 7, [1][0] / 0)); println(\"after\", r.err); %s(\"x\", half, nosuch)", b, b), "args-error")
				// (ii) a later argument prints through a function call: its text comes first
				emit(pre+fmt.Sprintf("%s(big, f(3)); %s(\"s\", half, f(4), half, f(5))", b, b), "args-print")
				emit(pre+fmt.Sprintf("g = func(m) {%s(big, f(m)); m}; [g(1), g(2)]", b), "args-print")
				// (iii) a remembered call replays its output while the argument list is evaluated
				emit(pre+fmt.Sprintf("f(3); %s(big, f(3)); %s(half, f(3), half, f(3))", b, b), "args-remembered")
			}
			emit(pre+"r = catch(error(big, f(1), 1 / 0)); println(\"after\", r.err); r2 = catch(error(\"e\", half, f(2))); println(len(r2.value))", "args-error-builtin")
			emit(pre+"println([big, f(1)], {\"k\": f(2)}, half)", "args-print")
		}
	}
	return n
}

// ---------------------------------------------------------------------------------------------------
// model-free oracle: an expression over global variables means the same inside a function
func (r *runner) wrapOracle(g *gen) {
	c := r.c
	pre := []string{"gi = " + g.intLit(), "gf = " + floatLits[g.n(len(floatLits))], "gb = " + g.pick("true", "false"),
		"gs = " + g.strLit(), "ga = " + g.arrLit(0, tInt), "gm = " + g.mapLit(0, tStr)}
	exprs := []string{"gi + 1", "-gi", "gf * 2", "!gb", "gs + \"x\"", "ga + [gi]", "[gi, gs, gb]", "{\"k\": gs}", "catch(gs)", "catch(gi).value",
		"if gb {1} else {2}", "len(ga)", "first(ga)", "rest(gs)", "ga[1:]", "gm + {\"zz\": gi}", "gm.a", "ga[0]", "gs[0]", "gi == gi", "gs < gs", "gb && gb", "gi:gi+2"}
	stmts := []string{"print(gs)", "println(gs, gi, ga)", "for gi % 3 {print(gs)}", "for i9 = 0:gi % 4 {print(i9)}", "for x9 = ga {print(x9)}", "for x9 = gs {print(x9)}",
		"for k9 = gm {print(k9)}", "del(gm[\"a\"]); print(gm)", "gi++; print(gi)", "ga[0] = 5; print(ga)", "gm.q = 1; print(gm)", "t9 = 0; for t9 < gi % 3 {t9++; print(gb)}"}
	prelude := strings.Join(pre, ";\n") + ";\n"
	var body string
	if g.pct(50) {
		body = exprs[g.n(len(exprs))]
	} else {
		body = stmts[g.n(len(stmts))]
	}
	top := runImpl(prelude+body, true)
	fn := runImpl(prelude+"func w9() {"+body+"};\nw9()", true)
	c.Eval()
	c.Eval()
	if top.obs != fn.obs {
		c.Fail("wrap-in-function-changes-meaning:"+strings.Fields(strings.NewReplacer("(", " ", "[", " ", ".", " ").Replace(body))[0],
			"EVAL "+Hx([]byte(prelude+"func w9() {"+body+"};\nw9()")), fmt.Sprintf("top level %s, inside a function %s", top.obs, fn.obs))
	}
}

// The reference's frozen unicode.IsPrint table (coq/model/RefValues.v rune_printable), restated here and compared with
// the Go library the implementation is built with: a difference means the reference's table is out of date.
func checkUnicodeTable(c *Ctx) {
	type rg struct {
		lo, hi rune
		p      bool
	}
	table := []rg{{128, 159, false}, {160, 160, false}, {173, 173, false}, {161, 172, true}, {174, 383, true}, {1040, 1103, true},
		{8203, 8207, false}, {8232, 8238, false}, {8288, 8292, false}, {8364, 8364, true}, {8211, 8212, true}, {12353, 12435, true},
		{19968, 40869, true}, {57344, 63743, false}, {65279, 65279, false}, {65533, 65533, true}, {128512, 128591, true}, {983040, 1048573, false}}
	bad := 0
	for _, t := range table {
		for r := t.lo; r <= t.hi; r++ {
			if strconv.IsPrint(r) != t.p {
				bad++
				if bad <= 3 {
					c.Fail("reference-unicode-table-differs-from-go-library", fmt.Sprintf("U+%04X", r), fmt.Sprintf("table says printable=%v, strconv.IsPrint says %v", t.p, !t.p))
				}
			}
		}
	}
	c.Extra["unicode_table_code_points_checked"] = 128 + 1 + 1 + 12 + 210 + 64 + 5 + 7 + 5 + 1 + 2 + 83 + 20902 + 6400 + 1 + 1 + 80 + 65534
}

// ---------------------------------------------------------------------------------------------------
func runC01(c *Ctx) {
	c.Rule = "programs from a typed grammar of the core language (about 85% well typed, the rest ill typed at one node), parsed by the real parser; " +
		"the tree is evaluated by the real evaluator (fresh state, registers off) and by the extracted reference evaluator; " +
		"printed bytes, typed value and error flag compared. non-trivial = distinct agreeing in-domain program that printed output or combined >= 3 tracked constructs"
	r := &runner{c: c, st: eval.NewState()}
	r.mp = startModel()
	defer r.mp.stop()
	if r.mp == nil {
		c.Extra["model_process"] = "unavailable: cases are compared by ./check only, no shrinking"
	}
	if c.ReplayCase != "" {
		f := strings.Fields(c.ReplayCase)
		if len(f) >= 2 && f[0] == "EVAL" {
			src := string(Unhx(f[1]))
			fmt.Printf("replay program:\n%s\n", src)
			r.one(src, "replay", map[string]bool{})
			// wrap oracle cases replay themselves through r.one as well (their program is complete)
			for _, fl := range c.Failures {
				fmt.Printf("REPRODUCED %s: %s\n", fl.Sig, fl.Detail)
			}
		}
		return
	}
	checkUnicodeTable(c)
	for _, src := range corpus {
		r.one(src, "corpus", map[string]bool{"corpus": true, "a": true, "b": true})
	}
	nprog, nwrap := 6000, 1000
	if c.Thorough() {
		nprog, nwrap = 60000, 5000
	}
	c.Extra["output_size_programs"] = r.outputSizes(c.Thorough())
	nm := r.matrix(c.Thorough())
	c.Extra["operator_pair_matrix_cases"] = nm
	if c.Thorough() {
		c.Extra["exhaustive"] = true
		c.Extra["exhaustive_what"] = "every ordered pair of the 19 infix operators (and prefix x infix) without parentheses over 6^3 integer operand triples and 6 mixed-type triples"
	}
	featTotal := map[string]int{}
	for i := 0; i < nprog; i++ {
		g := newGen(c.R, c.R.Pct(15))
		src := g.program()
		for f := range g.feats {
			featTotal[f]++
		}
		kind := "well-typed"
		if g.didIll {
			kind = "ill-typed"
		}
		r.one(src, kind, g.feats)
	}
	// fork stream: values derived from one base container must not see each other's changes
	nfork := 2500
	if c.Thorough() {
		nfork = 20000
	}
	for i := 0; i < nfork; i++ {
		g := newGen(c.R, false)
		src := g.forkProgram()
		for f := range g.feats {
			featTotal[f]++
		}
		r.one(src, "fork", g.feats)
	}
	// object factories: every call of a maker gives fresh closures over a fresh environment
	nfact := 1500
	if c.Thorough() {
		nfact = 12000
	}
	for i := 0; i < nfact; i++ {
		g := newGen(c.R, false)
		src := g.factoryProgram()
		for f := range g.feats {
			featTotal[f]++
		}
		r.one(src, "factory", g.feats)
	}
	// int/float comparisons at the edges of int64 and of the 53-bit mantissa; variadic calls with nested last arguments
	nedge := 4000
	if c.Thorough() {
		nedge = 33000
	}
	for i := 0; i < nedge; i++ {
		g := newGen(c.R, false)
		src := g.edgeProgram()
		for f := range g.feats {
			featTotal[f]++
		}
		r.one(src, "edge", g.feats)
	}
	for i := 0; i < nwrap; i++ {
		r.wrapOracle(newGen(c.R, false))
	}
	// distribution
	for f, n := range featTotal {
		c.Dist["feat:"+f] = n
	}
	c.Extra["in_domain_ratio"] = fmt.Sprintf("%d compared / %d parsed (%.1f%%); %d parse errors", r.nCompared, r.nCompared+r.nSkip,
		100*float64(r.nCompared)/float64(max(1, r.nCompared+r.nSkip)), r.nParseErr)
	c.Extra["registers_on_vs_off_samples"] = r.regDiffs
	c.Extra["allow_list"] = allowList
}
