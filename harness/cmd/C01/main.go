package main

import (
	"bufio"
	"fmt"
	"os"

	"grol.io/grol/extensions"
	"verifharness/common"
	. "verifharness/common"
)

func main() {
	if err := extensions.Init(nil); err != nil {
		panic(err)
	}
	if os.Getenv("C01_PROBE") != "" {
		probe()
		return
	}
	common.Main("C01", runC01)
}

func probe() {
	mp := startModel()
	defer mp.stop()
	sc := bufio.NewScanner(os.Stdin)
	sc.Buffer(make([]byte, 1<<20), 1<<20)
	for sc.Scan() {
		src := sc.Text()
		prog, ok := parseProgram(src)
		if !ok {
			fmt.Println("PARSE-ERROR", src)
			continue
		}
		fmt.Println("SRC ", src)
		if os.Getenv("C01_PROBE") == "ast" {
			fmt.Println("AST ", DumpAST(prog))
		}
		r := runImpl(src, true)
		fmt.Println("IMPL", r.obs, "//", string(r.out), "//", r.val)
		if mp != nil {
			mo := mp.ask(caseLine(src, prog))
			tag := "MODEL"
			if mo != r.obs {
				tag = "MODEL-DIFF"
			}
			fmt.Println(tag, mo)
		}
		r2 := runImpl(src, false)
		if r2.obs != r.obs {
			fmt.Println("REG ", r2.obs, "//", string(r2.out), "//", r2.val)
		}
	}
}

func runC01(c *Ctx) {}
