package main

// C11: maps behave as finite maps in key order, whatever their history.
// Correspondence: the public object.Map API (NewMapSize, Set, Get, Delete, Append, First, Len, Inspect,
// object.Rest, object.Range, object.Equals, object.Cmp) against the extracted Coq model (coq/model/Maps.v with
// the key order of coq/model/Cmp.v): exhaustive breadth-first exploration of the reachable map states (by
// representation tag + canonical content) over a small universe of keys of mixed types, every operation from
// every state; plus long random operation sequences over a larger universe.
// Direct oracle (model-free): a Go reference map (sorted slice ordered by object.Cmp, linear search) run beside
// the real one, and the same operation done through grol source on the same state.

import (
	"fmt"
	"math"
	"math/big"
	"reflect"
	"sort"
	"strconv"
	"strings"

	"grol.io/grol/eval"
	"grol.io/grol/extensions"
	"grol.io/grol/object"
	"verifharness/common"
	. "verifharness/common"
)

func main() { common.Main("C11", runC11) }

// ---------------------------------------------------------------- operations
// token syntax (no spaces; '=' and ';' never occur in a canonical value):
//
//	S=<k>=<v>  G=<k>  D=<k>  A=<n0>=<M{..}>  P=<n0>=<M{..}>  F  R  X=<lo>=<hi>  L  I  Q=<n0>=<M{..}>
//	T=<k1>=<v1>=<k2>=<v2>...   (map literal of the written pairs, evaluated from source; replaces the state)
//
// A: m = m + right, P: m = left + m, Q: Equals / Cmp with another map; the other map is built by
// NewMapSize(n0) followed by Set of the listed pairs in the listed order.
type op struct {
	kind   byte
	k, v   object.Object
	n0     int
	other  string // canonical literal of the operand map
	lo, hi int
	items  []object.Object // T: written pairs k1 v1 k2 v2 ... of a map literal
	tok    string
}

func opS(k, v object.Object) op {
	return op{kind: 'S', k: k, v: v, tok: "S=" + Canon(k) + "=" + Canon(v)}
}
func opK(kind byte, k object.Object) op {
	return op{kind: kind, k: k, tok: string(kind) + "=" + Canon(k)}
}
func opM(kind byte, n0 int, lit string) op {
	return op{kind: kind, n0: n0, other: lit, tok: fmt.Sprintf("%c=%d=%s", kind, n0, lit)}
}

// opT: the state becomes the map literal { k1:v1, k2:v2, ... } (written order, repeats allowed), evaluated by
// the real interpreter from source text.
func opT(items []object.Object) op {
	tok := "T"
	for _, it := range items {
		tok += "=" + Canon(it)
	}
	return op{kind: 'T', items: items, tok: tok}
}
func opX(lo, hi int) op { return op{kind: 'X', lo: lo, hi: hi, tok: fmt.Sprintf("X=%d=%d", lo, hi)} }
func op0(kind byte) op  { return op{kind: kind, tok: string(kind)} }

func parseOp(t string) (op, bool) {
	f := strings.Split(t, "=")
	bad := op{}
	switch t[0] {
	case 'S':
		if len(f) != 3 {
			return bad, false
		}
		k, ok1 := ParseCanon(f[1])
		v, ok2 := ParseCanon(f[2])
		return opS(k, v), ok1 && ok2
	case 'G', 'D':
		if len(f) != 2 {
			return bad, false
		}
		k, ok := ParseCanon(f[1])
		return opK(t[0], k), ok
	case 'A', 'P', 'Q':
		if len(f) != 3 {
			return bad, false
		}
		n, err := strconv.Atoi(f[1])
		return opM(t[0], n, f[2]), err == nil
	case 'X':
		if len(f) != 3 {
			return bad, false
		}
		lo, e1 := strconv.Atoi(f[1])
		hi, e2 := strconv.Atoi(f[2])
		return opX(lo, hi), e1 == nil && e2 == nil
	case 'F', 'R', 'L', 'I':
		return op0(t[0]), len(t) == 1
	case 'T':
		if len(f)%2 != 1 {
			return bad, false
		}
		var items []object.Object
		for _, x := range f[1:] {
			o, ok := ParseCanon(x)
			if !ok {
				return bad, false
			}
			items = append(items, o)
		}
		return opT(items), true
	}
	return bad, false
}

// buildLit: NewMapSize(n0) then Set of the pairs of the canonical literal, in order.
func buildLit(n0 int, lit string) object.Map {
	o, ok := ParseCanon(lit) // gives the pairs (ParseCanon itself uses NewMapSize(len)); re-set them on NewMapSize(n0)
	if !ok {
		panic("bad map literal " + lit)
	}
	ps := litPairs(lit)
	_ = o
	m := object.NewMapSize(n0)
	for i := 0; i+1 < len(ps); i += 2 {
		m = m.Set(ps[i], ps[i+1])
	}
	return m
}

// litPairs parses "M{k:v,...}" keeping the written order (also of keys that collide).
func litPairs(lit string) []object.Object {
	if !strings.HasPrefix(lit, "M{") || !strings.HasSuffix(lit, "}") {
		panic("bad map literal " + lit)
	}
	body := lit[2 : len(lit)-1]
	var out []object.Object
	depth, start := 0, 0
	flush := func(end int) {
		if end > start {
			o, ok := ParseCanon(body[start:end])
			if !ok {
				panic("bad value in literal " + lit)
			}
			out = append(out, o)
		}
		start = end + 1
	}
	for i := 0; i < len(body); i++ {
		switch body[i] {
		case '[', '{':
			depth++
		case ']', '}':
			depth--
		case ',', ':':
			if depth == 0 {
				flush(i)
			}
		}
	}
	flush(len(body))
	return out
}

func stateStr(m object.Object) string { return MapRep(m) + Canon(m) }

// applyAPI performs one operation through the Go API. Returns the map after the operation and the observation
// token "<state>|<result>".
func applyAPI(m object.Map, o op) (res object.Map, obs string) {
	res = m
	defer func() {
		if x := recover(); x != nil {
			obs = "P"
		}
	}()
	r := "-"
	switch o.kind {
	case 'S':
		res = m.Set(o.k, o.v)
	case 'G':
		v, ok := m.Get(o.k)
		r = "none"
		if ok {
			r = Canon(v)
		}
	case 'D':
		var ch bool
		res, ch = m.Delete(o.k)
		r = map[bool]string{true: "1", false: "0"}[ch]
	case 'A':
		res = m.Append(buildLit(o.n0, o.other))
	case 'P':
		res = buildLit(o.n0, o.other).Append(m)
	case 'F':
		r = Canon(m.First())
	case 'R':
		x := object.Rest(m)
		switch y := x.(type) {
		case object.Null:
			r = "nil"
		case object.Map:
			res, r = y, "map"
		default:
			r = "ERR"
		}
	case 'X':
		x := object.Range(m, int64(o.lo), int64(o.hi))
		if y, ok := x.(object.Map); ok {
			res = y
		} else {
			r = "ERR"
		}
	case 'L':
		r = strconv.Itoa(object.Len(m))
	case 'I':
		r = Hx([]byte(m.Inspect()))
	case 'Q':
		other := buildLit(o.n0, o.other)
		r = fmt.Sprintf("e%dc%d", b2i(object.Equals(m, other)), object.Cmp(m, other))
	case 'T':
		x, pan := evalLiteral(o.items, false)
		if pan != "" {
			return res, "P"
		}
		y, ok := x.(object.Map)
		if !ok {
			return res, stateStr(res) + "|ERR"
		}
		res = y
	}
	return res, stateStr(res) + "|" + r
}

func b2i(b bool) int {
	if b {
		return 1
	}
	return 0
}

func replay(n0 int, path []op) object.Map {
	m := object.NewMapSize(n0)
	for _, o := range path {
		m, _ = applyAPI(m, o)
	}
	return m
}

// ---------------------------------------------------------------- reference map (direct oracle)
type refMap struct{ ks, vs []object.Object }

func (r *refMap) find(k object.Object) (int, bool) {
	for i, x := range r.ks {
		c := object.Cmp(x, k)
		if c == 0 {
			return i, true
		}
		if c > 0 {
			return i, false
		}
	}
	return len(r.ks), false
}
func (r *refMap) set(k, v object.Object) {
	i, ok := r.find(k)
	if ok {
		r.vs[i] = v // the key object first stored for this class is kept
		return
	}
	r.ks = append(r.ks[:i], append([]object.Object{k}, r.ks[i:]...)...)
	r.vs = append(r.vs[:i], append([]object.Object{v}, r.vs[i:]...)...)
}
func (r *refMap) del(k object.Object) bool {
	i, ok := r.find(k)
	if !ok {
		return false
	}
	r.ks = append(r.ks[:i:i], r.ks[i+1:]...)
	r.vs = append(r.vs[:i:i], r.vs[i+1:]...)
	return true
}
func (r *refMap) clone() *refMap {
	return &refMap{ks: append([]object.Object(nil), r.ks...), vs: append([]object.Object(nil), r.vs...)}
}
func (r *refMap) canon() string {
	var parts []string
	for i := range r.ks {
		parts = append(parts, Canon(r.ks[i])+":"+Canon(r.vs[i]))
	}
	return "M{" + strings.Join(parts, ",") + "}"
}
func (r *refMap) inspect() string {
	var parts []string
	for i := range r.ks {
		parts = append(parts, r.ks[i].Inspect()+":"+r.vs[i].Inspect())
	}
	return "{" + strings.Join(parts, ",") + "}"
}
func refOfLit(lit string) *refMap {
	r := &refMap{}
	ps := litPairs(lit)
	for i := 0; i+1 < len(ps); i += 2 {
		r.set(ps[i], ps[i+1])
	}
	return r
}
func cmpRef(a, b *refMap) int { // Cmp on maps: length, then keys and values pairwise
	if len(a.ks) != len(b.ks) {
		if len(a.ks) < len(b.ks) {
			return -1
		}
		return 1
	}
	for i := range a.ks {
		if c := object.Cmp(a.ks[i], b.ks[i]); c != 0 {
			return c
		}
		if c := object.Cmp(a.vs[i], b.vs[i]); c != 0 {
			return c
		}
	}
	return 0
}

// refApply mirrors applyAPI on the reference; returns the expected "<content>|<result>" (without the
// representation tag) or "" when the operation is outside the reference's domain.
func refApply(r *refMap, o op) (*refMap, string) {
	res := "-"
	switch o.kind {
	case 'S':
		r.set(o.k, o.v)
	case 'G':
		res = "none"
		if i, ok := r.find(o.k); ok {
			res = Canon(r.vs[i])
		}
	case 'D':
		res = map[bool]string{true: "1", false: "0"}[r.del(o.k)]
	case 'A':
		x := refOfLit(o.other)
		for i := range x.ks {
			r.set(x.ks[i], x.vs[i])
		}
	case 'P':
		x := refOfLit(o.other)
		for i := range r.ks {
			x.set(r.ks[i], r.vs[i])
		}
		r = x
	case 'F':
		res = "N"
		if len(r.ks) > 0 {
			res = "M{S6b6579:" + Canon(r.ks[0]) + ",S76616c7565:" + Canon(r.vs[0]) + "}"
		}
	case 'R':
		if len(r.ks) <= 1 {
			res = "nil"
		} else {
			r.ks, r.vs, res = r.ks[1:], r.vs[1:], "map"
		}
	case 'X':
		if o.lo < 0 || o.lo > o.hi || o.hi > len(r.ks) {
			return r, ""
		}
		r.ks, r.vs = r.ks[o.lo:o.hi], r.vs[o.lo:o.hi]
	case 'L':
		res = strconv.Itoa(len(r.ks))
	case 'I':
		res = Hx([]byte(r.inspect()))
	case 'Q':
		x := refOfLit(o.other)
		c := cmpRef(r, x)
		res = fmt.Sprintf("e%dc%d", b2i(c == 0), c)
	case 'T': // a literal is its pairs set one after the other: the last written value of a key wins
		r = &refMap{}
		for i := 0; i+1 < len(o.items); i += 2 {
			r.set(o.items[i], o.items[i+1])
		}
	}
	return r, r.canon() + "|" + res
}

// ---------------------------------------------------------------- the same operation through grol source
var (
	state            *eval.State
	injMap           func() object.Object
	injK, injV, injO object.Object
)

func evalSrc(code string) (res object.Object, pan string) {
	defer func() {
		if x := recover(); x != nil {
			pan = fmt.Sprint(x)
			state = eval.NewState()
		}
	}()
	r, _ := eval.EvalString(state, code, false)
	return r, ""
}

var litItems []object.Object // what ul(i) returns

// srcText: grol source text of a value, when it has a literal form.
func srcText(o object.Object) (string, bool) {
	switch v := o.(type) {
	case object.Integer:
		if v.Value < 0 {
			if v.Value == -9223372036854775808 {
				return "(-9223372036854775807-1)", true
			}
			return fmt.Sprintf("(%d)", v.Value), true
		}
		return fmt.Sprintf("%d", v.Value), true
	case object.Float:
		f := v.Value
		if f != f || f > 1e15 || f < -1e15 || (f == 0 && 1/f < 0) {
			return "", false
		}
		t := strconv.FormatFloat(f, 'f', -1, 64)
		if !strings.Contains(t, ".") {
			t += ".0"
		}
		if f < 0 {
			t = "(" + t + ")"
		}
		return t, true
	case object.Boolean:
		return strconv.FormatBool(v.Value), true
	case object.Null:
		return "nil", true
	case object.String:
		for i := 0; i < len(v.Value); i++ {
			if c := v.Value[i]; c < 32 || c > 126 || c == '"' || c == '\\' {
				return "", false
			}
		}
		return `"` + v.Value + `"`, true
	case object.SmallArray, object.BigArray:
		var parts []string
		for _, e := range object.Elements(o) {
			t, ok := srcText(e)
			if !ok {
				return "", false
			}
			parts = append(parts, t)
		}
		return "[" + strings.Join(parts, ",") + "]", true
	}
	return "", false
}

// literalSource: the source text of the literal; textual = keys and values written as grol literals,
// otherwise every item is injected as the real object through the extension ul(i).
func literalSource(items []object.Object, textual bool) (string, bool) {
	var parts []string
	for i := 0; i+1 < len(items); i += 2 {
		k, v := fmt.Sprintf("ul(%d)", i), fmt.Sprintf("ul(%d)", i+1)
		if textual {
			var ok1, ok2 bool
			k, ok1 = srcText(items[i])
			v, ok2 = srcText(items[i+1])
			if !ok1 || !ok2 {
				return "", false
			}
		}
		parts = append(parts, k+":"+v)
	}
	return "{" + strings.Join(parts, ",") + "}", true
}

// evalLiteral evaluates the map literal with the real interpreter.
func evalLiteral(items []object.Object, textual bool) (object.Object, string) {
	src, ok := literalSource(items, textual)
	if !ok {
		return nil, "no-literal-form"
	}
	litItems = items
	state.Out = &strings.Builder{}
	return evalSrc("[" + src + "]" + "[0]")
}

// srcApply: "<state>|<result>" as applyAPI, computed by the evaluator from the same starting map.
func srcApply(mk func() object.Map, o op) string {
	pre := mk() // built before the evaluation starts: a path may itself need the interpreter (literals)
	injMap = func() object.Object { return pre }
	injK, injV = o.k, o.v
	if o.kind == 'A' || o.kind == 'P' || o.kind == 'Q' {
		injO = buildLit(o.n0, o.other)
	}
	if o.kind == 'T' { // the API route already is source with injected objects: here the same literal written as text
		x, pan := evalLiteral(o.items, true)
		if pan == "no-literal-form" {
			x, pan = evalLiteral(o.items, false)
		}
		if pan != "" {
			return "P"
		}
		if _, ok := x.(object.Map); !ok {
			return "ERR:" + Canon(x)
		}
		return stateStr(x) + "|-"
	}
	var code string
	switch o.kind {
	case 'S':
		code = "m=um();m[uk()]=uw();[m,0]"
	case 'G':
		code = "m=um();r=m[uk()];[m,[r]]"
	case 'D':
		code = "m=um();r=del(m[uk()]);[m,r]"
	case 'A':
		code = "m=um()+uo();[m,0]"
	case 'P':
		code = "m=uo()+um();[m,0]"
	case 'F':
		code = "m=um();r=first(m);[m,[r]]"
	case 'R':
		code = "m=um();r=rest(m);[m,[r]]"
	case 'X':
		code = fmt.Sprintf("m=um();r=m[%d:%d];[m,[r]]", o.lo, o.hi)
	case 'L':
		code = "m=um();[m,len(m)]"
	case 'I':
		code = `m=um();print(m);[m,0]`
	case 'Q':
		code = "m=um();o=uo();[m,[m==o,m<o,m>o]]"
	}
	var out strings.Builder
	state.Out = &out
	r, pan := evalSrc(code)
	if pan != "" {
		return "P"
	}
	if r == nil || r.Type() != object.ARRAY {
		return "ERR:" + Canon(r)
	}
	el := object.Elements(r)
	if len(el) != 2 {
		return "ERR:" + Canon(r)
	}
	m, x := el[0], el[1]
	inner := func() object.Object { return object.Elements(x)[0] }
	switch o.kind {
	case 'S', 'A', 'P':
		return stateStr(m) + "|-"
	case 'G':
		v := inner()
		if v == object.NULL {
			return stateStr(m) + "|none"
		}
		return stateStr(m) + "|" + Canon(v)
	case 'D':
		return stateStr(m) + "|" + map[bool]string{true: "1", false: "0"}[x == object.TRUE]
	case 'F':
		return stateStr(m) + "|" + Canon(inner())
	case 'R':
		v := inner()
		switch v.(type) {
		case object.Null:
			return stateStr(m) + "|nil"
		case object.Map:
			return stateStr(v) + "|map"
		}
		return stateStr(m) + "|ERR"
	case 'X':
		v := inner()
		if _, ok := v.(object.Map); ok {
			return stateStr(v) + "|-"
		}
		return stateStr(m) + "|ERR"
	case 'L':
		return stateStr(m) + "|" + Canon(x)[1:]
	case 'I':
		return stateStr(m) + "|" + Hx([]byte(out.String()))
	case 'Q':
		q := object.Elements(x)
		c := 0
		if q[1] == object.TRUE {
			c = -1
		} else if q[2] == object.TRUE {
			c = 1
		}
		return fmt.Sprintf("%s|e%dc%d", stateStr(m), b2i(q[0] == object.TRUE), c)
	}
	return "?"
}

// iteration and keys() through source on the map produced by mk
func srcIterate(mk func() object.Map) (keys string, count string) {
	pre := mk()
	injMap = func() object.Object { return pre }
	state.Out = &strings.Builder{}
	r, pan := evalSrc("[keys(um())]")
	if pan != "" {
		keys = "P"
	} else if r != nil && r.Type() == object.ARRAY && len(object.Elements(r)) == 1 {
		keys = Canon(object.Elements(r)[0])
	} else {
		keys = "ERR:" + Canon(r)
	}
	pre = mk()
	r, pan = evalSrc("n=0;for kv=um(){n=n+1};n")
	if pan != "" {
		count = "P"
	} else {
		count = Canon(r)
	}
	return
}

// srcUse: keys(), for-iteration and the map as function argument in ONE evaluation of one replayed map; the three
// separate evaluations are only used to tell which of them failed when the combined one does.
func srcUse(mk func() object.Map) (keys, count, arg string) {
	pre := mk()
	injMap = func() object.Object { return pre }
	state.Out = &strings.Builder{}
	r, pan := evalSrc("argn=func(p){len(p)};argi=func(p){p};m=um();n=0;for kv=m{n=n+1};" +
		"[[keys(m),n,[argn(m),argn(m),argi(m),argi(m)==m,argn(argi(m))]]][0]")
	if pan == "" && r != nil && r.Type() == object.ARRAY && len(object.Elements(r)) == 3 {
		el := object.Elements(r)
		return Canon(el[0]), Canon(el[1]), Canon(el[2])
	}
	keys, count = srcIterate(mk)
	return keys, count, srcAsArgument(mk)
}

// srcAsArgument: the map handed to grol functions as an argument (a small map argument is part of the function-cache
// key: it is hashed and compared as a whole Go value): a cacheable function called twice on it, the identity function,
// a function looking an entry up. Returns the canonical [len, len, the map back, equality with itself through idf].
func srcAsArgument(mk func() object.Map) string {
	pre := mk()
	injMap = func() object.Object { return pre }
	state.Out = &strings.Builder{}
	r, pan := evalSrc("argn=func(p){len(p)};argi=func(p){p};m=um();[[argn(m),argn(m),argi(m),argi(m)==m,argn(argi(m))]][0]")
	if pan != "" {
		return "P:" + pan
	}
	return Canon(r)
}

// staleSlots: for a SmallMap, the array slots at and beyond len must be empty whatever the history (they are not
// visible to any map operation, but the value is compared and hashed whole when it is a cache key). Read by reflection.
func staleSlots(m object.Object) string {
	sm, ok := m.(object.SmallMap)
	if !ok {
		return ""
	}
	v := reflect.ValueOf(sm)
	kv, ln := v.FieldByName("smallKV"), v.FieldByName("len")
	if !kv.IsValid() || !ln.IsValid() {
		return ""
	}
	for i := int(ln.Int()); i < kv.Len(); i++ {
		if !kv.Index(i).IsZero() {
			return fmt.Sprintf("slot %d of a SmallMap of %d pairs is not empty", i, ln.Int())
		}
	}
	return ""
}

// ---------------------------------------------------------------- checks on one (state, op)
type explorer struct {
	c        *Ctx
	keys     []object.Object // universe keys (for lookups after each operation)
	doSource bool
}

func opName(o op) string {
	if o.kind == 'T' {
		return "literal"
	}
	return string(o.kind)
}

// check runs op from the state reached by (n0, path): API observation (returned for the correspondence case),
// reference map, source path.
func (e *explorer) check(n0 int, path []op, o op, caseStr func() string) (object.Map, string) {
	c := e.c
	base := replay(n0, path)
	baseStr := stateStr(base)
	after, obs := applyAPI(base, o)
	c.Eval()
	if obs == "P" {
		c.Fail("map-op-panic:"+opName(o), caseStr(), "Go panic in "+o.tok+" from "+baseStr)
		return after, obs
	}
	if strings.HasPrefix(obs, "p") {
		c.Fail("small-map-behind-pointer:"+opName(o), caseStr(), o.tok+" from "+baseStr+" returned a *SmallMap: "+obs)
	}
	if strings.HasSuffix(obs, "|ERR") {
		c.Fail("map-op-not-supported:"+opName(o), caseStr(), o.tok+" from "+baseStr+" returned an error object")
	}
	// reference map
	ref := &refMap{}
	for _, p := range path {
		ref, _ = refApply(ref, p)
	}
	ref2, want := refApply(ref.clone(), o)
	if want != "" && obs[1:] != want {
		c.Fail("differs-from-reference-map:"+opName(o), caseStr(), fmt.Sprintf("%s from %s: got %s, reference %s", o.tok, baseStr, obs[1:], want))
	}
	if want != "" {
		// observations of the resulting map: length, strict order, lookup of every universe key, printed form,
		// equality with the same content inserted in reverse order into a map of the other representation
		am := after
		if object.Len(am) != len(ref2.ks) {
			c.Fail("len-mismatch:"+opName(o), caseStr(), fmt.Sprintf("Len=%d reference %d", object.Len(am), len(ref2.ks)))
		}
		for i := 0; i+1 < len(ref2.ks); i++ {
			if object.Cmp(ref2.ks[i], ref2.ks[i+1]) != -1 {
				c.Fail("reference-keys-not-increasing", caseStr(), ref2.canon())
			}
		}
		ps := object.VerifMapPairs(am)
		for i := 0; i+3 < len(ps); i += 2 {
			if object.Cmp(ps[i], ps[i+2]) != -1 {
				c.Fail("keys-not-strictly-increasing:"+opName(o), caseStr(), stateStr(am))
			}
		}
		for _, k := range e.keys {
			v, ok := am.Get(k)
			i, rok := ref2.find(k)
			if ok != rok || (ok && Canon(v) != Canon(ref2.vs[i])) {
				c.Fail("lookup-mismatch:"+opName(o), caseStr(), fmt.Sprintf("after %s: Get(%s)=(%s,%v)", o.tok, Canon(k), Canon(v), ok))
			}
		}
		if am.Inspect() != ref2.inspect() {
			c.Fail("inspect-mismatch:"+opName(o), caseStr(), am.Inspect()+" vs "+ref2.inspect())
		}
		rev := object.NewMapSize(9 * b2i(MapRep(am) == "s"))
		for i := len(ref2.ks) - 1; i >= 0; i-- {
			rev = rev.Set(ref2.ks[i], ref2.vs[i])
		}
		if !object.Equals(am, rev) || object.Cmp(am, rev) != 0 || !object.Equals(rev, am) {
			c.Fail("not-equal-to-same-content-other-history:"+opName(o), caseStr(), stateStr(am)+" vs "+stateStr(rev))
		}
	}
	// key identity is the order-equivalence class (computed without object.Cmp): one stored key per class, and a
	// key is found exactly when its class is stored
	if am, ok := object.Object(after).(object.Map); ok && obs != "P" {
		ps := object.VerifMapPairs(am)
		stored := map[string]string{}
		for i := 0; i+1 < len(ps); i += 2 {
			ck := classKey(ps[i])
			if prev, dup := stored[ck]; dup {
				c.Fail("key-class-stored-twice:"+opName(o), caseStr(), fmt.Sprintf("%s from %s: %s and %s are one key, both stored in %s", o.tok, baseStr, prev, Canon(ps[i]), stateStr(am)))
			}
			stored[ck] = Canon(ps[i])
		}
		for _, k := range e.keys {
			_, found := am.Get(k)
			if _, has := stored[classKey(k)]; has != found {
				c.Fail("key-class-lookup-differs:"+opName(o), caseStr(), fmt.Sprintf("after %s Get(%s) found=%v, its class stored=%v in %s", o.tok, Canon(k), found, has, stateStr(am)))
			}
		}
	}
	if st := staleSlots(after); st != "" {
		c.Fail("small-map-stale-slot:"+opName(o), caseStr(), o.tok+" from "+baseStr+": "+st)
	}
	// the left operand / receiver of a non-mutating operation is unchanged
	if o.kind != 'S' && o.kind != 'D' {
		if s := stateStr(base); s != baseStr {
			c.Fail("operand-mutated:"+opName(o), caseStr(), baseStr+" became "+s)
		}
	}
	// the same through grol source
	if e.doSource && want != "" {
		mk := func() object.Map { return replay(n0, path) }
		got := srcApply(mk, o)
		c.Eval()
		// m[k] cannot tell an absent key from a stored nil
		if o.kind == 'G' && strings.HasSuffix(got, "|none") && strings.HasSuffix(obs, "|N") {
			got = strings.TrimSuffix(got, "none") + "N"
		}
		if got != obs {
			sig := "source-differs-from-api:" + opName(o)
			if got == "P" {
				sig = "source-panic:" + opName(o)
			} else if strings.HasSuffix(got, "|ERR") || strings.HasPrefix(got, "ERR") {
				sig = "source-not-supported:" + opName(o)
			}
			c.Fail(sig, caseStr(), fmt.Sprintf("%s from %s: source %s, API %s", o.tok, baseStr, got, obs))
		}
		if o.kind == 'S' || o.kind == 'D' || o.kind == 'A' || o.kind == 'P' || o.kind == 'R' || o.kind == 'X' || o.kind == 'T' {
			mkAfter := func() object.Map { m, _ := applyAPI(replay(n0, path), o); return m }
			ks, cnt, arg := srcUse(mkAfter)
			var want []string
			for _, k := range ref2.ks {
				want = append(want, Canon(k))
			}
			if w := "A[" + strings.Join(want, ",") + "]"; ks != w {
				sig := "keys-mismatch:" + opName(o)
				if ks == "P" {
					sig = "keys-panic:" + opName(o)
				} else if strings.HasPrefix(ks, "ERR") {
					sig = "keys-not-supported:" + opName(o)
				}
				c.Fail(sig, caseStr(), "keys(m)="+ks+" reference "+w)
			}
			if w := fmt.Sprintf("I%d", len(ref2.ks)); cnt != w {
				c.Fail("iteration-count-mismatch:"+opName(o), caseStr(), "for kv=m visited "+cnt+" pairs, reference "+w)
			}
			if w := fmt.Sprintf("A[I%d,I%d,%s,B1,I%d]", len(ref2.ks), len(ref2.ks), ref2.canon(), len(ref2.ks)); arg != w {
				sig := "map-as-function-argument-differs:" + opName(o)
				if strings.HasPrefix(arg, "P:") {
					sig = "map-as-function-argument-panic:" + opName(o)
				}
				c.Fail(sig, caseStr(), "argn(m),argn(m),argi(m),argi(m)==m,argn(argi(m)) give "+arg+", reference "+w)
			}
			c.Evals += 3
		}
	}
	return after, obs
}

func pathStr(path []op) string {
	if len(path) == 0 {
		return "-"
	}
	t := make([]string, len(path))
	for i, o := range path {
		t[i] = o.tok
	}
	return strings.Join(t, ";")
}

// ---------------------------------------------------------------- exhaustive exploration
func (e *explorer) explore(keys, probes, vals []object.Object, operands []op, maxStates int) (states int, transitions int) {
	c := e.c
	e.keys = append(append([]object.Object(nil), keys...), probes...)
	type node struct {
		n0   int
		path []op
	}
	seen := map[string]bool{}
	var queue []node
	for _, n0 := range []int{0, 5} {
		s := stateStr(object.NewMapSize(n0))
		if !seen[s] {
			seen[s] = true
			queue = append(queue, node{n0, nil})
		}
	}
	for len(queue) > 0 && len(c.Failures) < 2000 { // a broken tree explodes the state space: stop once the failure list is full
		nd := queue[0]
		queue = queue[1:]
		states++
		cur := replay(nd.n0, nd.path)
		n := object.Len(cur)
		var ops []op
		for i, k := range e.keys {
			if i <= len(keys) { // universe keys and the alias probe are stored; the remaining probes only looked up / deleted
				for _, v := range vals {
					ops = append(ops, opS(k, v))
				}
			}
			ops = append(ops, opK('G', k), opK('D', k))
		}
		ops = append(ops, op0('F'), op0('R'), op0('L'), op0('I'))
		for lo := 0; lo <= n; lo++ {
			for hi := lo; hi <= n; hi++ {
				ops = append(ops, opX(lo, hi))
			}
		}
		ops = append(ops, operands...)
		// equality with itself rebuilt, and with its own content under the other size hint
		self := Canon(cur)
		ops = append(ops, opM('Q', 0, self), opM('Q', 9, self), opM('A', 9, self), opM('P', 0, self))
		var toks, obss []string
		for _, o := range ops {
			o := o
			cs := func() string { return fmt.Sprintf("MAP %d %s %s", nd.n0, pathStr(nd.path), o.tok) }
			after, obs := e.check(nd.n0, nd.path, o, cs)
			transitions++
			toks = append(toks, o.tok)
			obss = append(obss, obs)
			c.Count("op:" + opName(o))
			if obs == "P" || strings.HasSuffix(obs, "|ERR") {
				continue
			}
			s := stateStr(after)
			if !seen[s] && len(seen) < maxStates {
				seen[s] = true
				np := append(append([]op(nil), nd.path...), o)
				queue = append(queue, node{nd.n0, np})
			}
			if MapRep(cur) != MapRep(after) {
				c.NonTrivial("rep-change|" + stateStr(cur) + "|" + o.tok)
			}
		}
		c.Count(fmt.Sprintf("state:%s:len=%d", MapRep(cur), n))
		c.Case(fmt.Sprintf("MAP %d %s %s", nd.n0, pathStr(nd.path), strings.Join(toks, " ")), strings.Join(obss, " "))
	}
	return
}

// ---------------------------------------------------------------- random sequences
func rndKey(c *Ctx, pool []object.Object) object.Object { return pool[c.R.Intn(len(pool))] }

func (e *explorer) randomSeq(pool, vals []object.Object, length int) {
	c := e.c
	n0 := []int{0, 3, 5, 12}[c.R.Intn(4)]
	var path []op
	var obss []string
	size := 0
	rndLit := func() (int, string) {
		r := &refMap{}
		var parts []string
		k := c.R.Intn(7)
		if c.R.Pct(15) {
			k = 0
		}
		for i := 0; i < k; i++ {
			key, v := rndKey(c, pool), vals[c.R.Intn(len(vals))]
			r.set(key, v)
			parts = append(parts, Canon(key)+":"+Canon(v))
		}
		return []int{0, 9}[c.R.Intn(2)], "M{" + strings.Join(parts, ",") + "}"
	}
	for i := 0; i < length; i++ {
		var o op
		switch x := c.R.Intn(100); {
		case x < 34:
			o = opS(rndKey(c, pool), vals[c.R.Intn(len(vals))])
		case x < 46:
			o = opK('G', rndKey(c, pool))
		case x < 64:
			o = opK('D', rndKey(c, pool))
		case x < 70:
			n, l := rndLit()
			o = opM('A', n, l)
		case x < 74:
			n, l := rndLit()
			o = opM('P', n, l)
		case x < 78:
			o = op0('F')
		case x < 83:
			o = op0('R')
		case x < 89:
			lo := c.R.Intn(size + 1)
			hi := lo + c.R.Intn(size-lo+1)
			if c.R.Pct(70) && size > 2 { // mostly keep most of the map
				lo, hi = c.R.Intn(2), size-c.R.Intn(2)
			}
			o = opX(lo, hi)
		case x < 92:
			o = op0('L')
		case x < 95:
			o = op0('I')
		default:
			n, l := rndLit()
			o = opM('Q', n, l)
		}
		o2 := o
		p2 := path
		cs := func() string { return fmt.Sprintf("MAP %d %s %s", n0, pathStr(p2), o2.tok) }
		e.keys = pool
		after, obs := e.check(n0, path, o, cs)
		obss = append(obss, obs)
		if obs == "P" || strings.HasSuffix(obs, "|ERR") {
			break
		}
		path = append(path, o)
		size = object.Len(after)
		c.Count("op:" + opName(o))
	}
	if len(path) == 0 {
		return
	}
	toks := make([]string, len(path))
	for i, o := range path {
		toks[i] = o.tok
	}
	c.NonTrivial("seq|" + strings.Join(toks, " "))
	c.Case(fmt.Sprintf("SEQ %d %s", n0, strings.Join(toks, " ")), strings.Join(obss[:len(path)], " "))
}

// ---------------------------------------------------------------- map literals as a construction route
// placements of m copies of the repeated key among n written pairs
func placements(n, m int) [][]int {
	if m <= 1 {
		return [][]int{{0}}
	}
	uniq := map[string]bool{}
	var res [][]int
	add := func(p []int) {
		sort.Ints(p)
		for i := 1; i < len(p); i++ {
			if p[i] == p[i-1] {
				return
			}
		}
		k := fmt.Sprint(p)
		if !uniq[k] {
			uniq[k] = true
			res = append(res, p)
		}
	}
	front, back, mid, spread, ends := make([]int, m), make([]int, m), make([]int, m), make([]int, m), make([]int, m)
	for i := 0; i < m; i++ {
		front[i] = i
		back[i] = n - m + i
		mid[i] = (n-m)/2 + i
		spread[i] = i * (n - 1) / (m - 1)
		ends[i] = i
	}
	ends[m-1] = n - 1 // first (and the ones right after it) and last
	add(front)
	add(back)
	add(mid)
	add(spread)
	add(ends)
	return res
}

func (e *explorer) literalCase(items []object.Object, full bool) {
	c := e.c
	t := opT(items)
	// distinct key classes written, for lookups
	ref := &refMap{}
	for i := 0; i+1 < len(items); i += 2 {
		ref.set(items[i], items[i+1])
	}
	e.keys = append(append([]object.Object(nil), ref.ks...), musts("I1", "F3ff0000000000000", "I9")...)
	cs0 := func() string { return "MAP 0 - " + t.tok }
	_, obs := e.check(0, nil, t, cs0)
	c.Case("MAP 0 - "+t.tok, obs)
	c.Count(fmt.Sprintf("literal:pairs=%d:keys=%d", len(items)/2, len(ref.ks)))
	if len(items)/2 > len(ref.ks) {
		c.NonTrivial("lit|" + t.tok)
	}
	if obs == "P" || strings.HasSuffix(obs, "|ERR") {
		return
	}
	var ops []op
	if len(items)/2 > 12 { // long literal: look up only the classes written more than once, and the probes
		seen := map[string]int{}
		for i := 0; i+1 < len(items); i += 2 {
			j, _ := ref.find(items[i])
			seen[Canon(ref.ks[j])]++
		}
		for _, k := range e.keys {
			if j, ok := ref.find(k); !ok || seen[Canon(ref.ks[j])] > 1 {
				ops = append(ops, opK('G', k))
			}
		}
	} else {
		for _, k := range e.keys {
			ops = append(ops, opK('G', k))
		}
	}
	ops = append(ops, op0('L'), op0('I'), op0('F'), op0('R'))
	if full && len(items) > 0 {
		rk := items[0]
		ops = append(ops, opS(rk, must("I7")), opS(must("I9"), must("S78")), opK('D', rk),
			opM('A', 0, "M{"+Canon(rk)+":S78,I9:I7}"), opM('P', 0, "M{"+Canon(rk)+":S78}"), opM('A', 0, "M{}"),
			opX(0, len(ref.ks)/2), opX(len(ref.ks)/2, len(ref.ks)), opM('Q', 0, ref.canon()), opM('Q', 9, ref.canon()))
	}
	path := []op{t}
	var toks, obss []string
	for _, o := range ops {
		o := o
		_, ob := e.check(0, path, o, func() string { return "MAP 0 " + t.tok + " " + o.tok })
		toks = append(toks, o.tok)
		obss = append(obss, ob)
	}
	c.Case("MAP 0 "+t.tok+" "+strings.Join(toks, " "), strings.Join(obss, " "))
	// one program: literal, then index assignment, then + with a second literal that repeats a key too
	if full && len(items) > 0 {
		k2, v2 := items[len(items)-2], must("S7a")
		lit2 := []object.Object{must("I9"), must("I1"), k2, must("I2"), must("I9"), must("I3")}
		all := append(append(append([]object.Object(nil), items...), k2, v2), lit2...)
		src1, _ := literalSource(items, false)
		n := len(items)
		code := fmt.Sprintf("m=%s;m[ul(%d)]=ul(%d);m=m+{ul(%d):ul(%d),ul(%d):ul(%d),ul(%d):ul(%d)};[m][0]", src1, n, n+1, n+2, n+3, n+4, n+5, n+6, n+7)
		litItems = all
		state.Out = &strings.Builder{}
		r, pan := evalSrc(code)
		c.Eval()
		want := ref.clone()
		want.set(k2, v2)
		for i := 0; i+1 < len(lit2); i += 2 {
			want.set(lit2[i], lit2[i+1])
		}
		cs := "PROG " + code + " with " + t.tok
		if pan != "" {
			c.Fail("literal-assign-merge-panic", cs, pan)
		} else if got := Canon(r); got != want.canon() {
			c.Fail("literal-assign-merge-differs-from-reference", cs, "got "+got+" reference "+want.canon())
		}
	}
}

func (e *explorer) literals() {
	c := e.c
	fillers := musts("I2", "F3ff8000000000000", "S61", "N", "A[I1]", "B1", "I3", "S62", "I4", "I5", "S6162", "I6")
	variants := [][]object.Object{
		musts("I1"), musts("I1", "F3ff0000000000000"), musts("F3ff0000000000000", "I1"), musts("S6b"), musts("N"), musts("A[I1]"), musts("F4004000000000000"),
	}
	orders := 1
	if c.Thorough() {
		orders = 2
	}
	val := func(j int) object.Object { return object.Integer{Value: int64(100 + j)} }
	e.literalCase(nil, true) // {}
	for n := 1; n <= 12; n++ {
		for m := 1; m <= 5 && m <= n; m++ {
			for vi, variant := range variants {
				if m == 1 && vi > 0 {
					continue
				}
				var fl []object.Object
				for _, f := range fillers {
					if object.Cmp(f, variant[0]) != 0 {
						fl = append(fl, f)
					}
				}
				for _, pl := range placements(n, m) {
					for ord := 0; ord < orders; ord++ {
						at := map[int]int{}
						for i, p := range pl {
							at[p] = i
						}
						var items []object.Object
						fi := 0
						for j := 0; j < n; j++ {
							if i, ok := at[j]; ok {
								items = append(items, variant[i%len(variant)], val(j))
								continue
							}
							f := fl[fi%len(fl)]
							if ord == 1 {
								f = fl[(len(fl)-1-fi)%len(fl)]
							}
							fi++
							items = append(items, f, val(j))
						}
						e.literalCase(items, true)
					}
				}
			}
		}
	}
	e.longLiterals()
	// random literals over a small key pool (repeats of several keys, aliases 1/1.0 and 2/2.0)
	pool := musts("I1", "F3ff0000000000000", "I2", "F4000000000000000", "S61", "N", "A[I1]", "F3ff8000000000000", "B0")
	cnt := 150
	if c.Thorough() {
		cnt = 4000
	}
	for i := 0; i < cnt && len(c.Failures) < 2000; i++ {
		n := c.R.Intn(13)
		var items []object.Object
		for j := 0; j < n; j++ {
			items = append(items, pool[c.R.Intn(len(pool))], val(j))
		}
		e.literalCase(items, c.R.Pct(30))
	}
}

// longLiterals: 13..40 written pairs (well beyond the small/large threshold and beyond the sizes at which a
// library sort is still an insertion sort), one key class written 2..4 times at various distances - the same key
// object, or order-equal but different objects (1 / 1.0, 0.0 / -0.0) -, fillers written in increasing order or
// scattered. The reference is the map built by successive assignment: the last written value wins, the first
// written key object stays.
func (e *explorer) longLiterals() {
	c := e.c
	I := func(n int) object.Object { return object.Integer{Value: int64(n)} }
	sizes := []int{13, 14, 16, 20, 27, 40}
	if c.Thorough() {
		sizes = []int{13, 14, 15, 16, 17, 18, 20, 22, 24, 27, 30, 33, 36, 40}
	}
	variants := [][]object.Object{
		{I(1)}, {I(1), Fl(1)}, {Fl(1), I(1)}, {Fl(0), Fl(negZero())}, {Fl(negZero()), I(0)}, {S("k")}, {I(25)}, {Fl(24.5)},
	}
	for _, n := range sizes {
		for vi, variant := range variants {
			if !c.Thorough() && vi >= 4 && n%2 == 1 {
				continue
			}
			var pls [][]int
			for m := 2; m <= 4; m++ {
				pls = append(pls, placements(n, m)...)
			}
			pls = append(pls, []int{0, 6}, []int{0, 1}, []int{3, n - 2}, []int{n / 2, n/2 + 7}, []int{1, 6, 12}, []int{0, n / 2, n - 1})
			for pi, pl := range pls {
				for ord := 0; ord < 2; ord++ {
					if !c.Thorough() && (pi+ord)%2 == 1 && pi > 4 {
						continue
					}
					at := map[int]int{}
					for i, p := range pl {
						if p >= 0 && p < n {
							at[p] = i
						}
					}
					var items []object.Object
					fi := 0
					for j := 0; j < n; j++ {
						if i, ok := at[j]; ok {
							items = append(items, variant[i%len(variant)], I(100+j))
							continue
						}
						x := 2 + fi // fillers 2,3,4,... in written order, or scattered
						if ord == 1 {
							x = 2 + (fi*7)%(n+1)
							if (fi*7)%(n+1) == 0 && fi > 0 { // keep fillers distinct
								x = 2 + n + 1 + fi
							}
						}
						fi++
						var f object.Object = I(x)
						if x == 25 || x%11 == 0 {
							f = S(fmt.Sprintf("s%02d", x)) // a few strings among the integers
						}
						items = append(items, f, I(100+j))
					}
					e.literalCase(items, false)
				}
			}
		}
	}
}

func negZero() float64 { z := 0.0; return -z }

// replaceEqual: index assignment that REPLACES a stored value by one that is == to it but not the same value
// (0.0 / -0.0, [1] / [1.0], {1:1} / {1.0:1} / {1:1.0}, nested), on small and large maps, at the first / middle /
// last key: the map must hold the last value written. The canonical dump tells the two apart (it prints the
// concrete types and the float bits), and so does Inspect for the zeros.
func (e *explorer) replaceEqual() {
	c := e.c
	I := func(n int) object.Object { return object.Integer{Value: int64(n)} }
	groups := [][]string{
		{"F0000000000000000", "F8000000000000000"},
		{"A[I1]", "A[F3ff0000000000000]"},
		{"A[F0000000000000000]", "A[F8000000000000000]", "A[I0]"},
		{"M{I1:I1}", "M{F3ff0000000000000:I1}", "M{I1:F3ff0000000000000}"},
		{"A[A[I1],S61]", "A[A[F3ff0000000000000],S61]"},
		{"A[M{I1:I2}]", "A[M{I1:F4000000000000000}]"},
		{"I1", "F3ff0000000000000"}, // not == (different types): control
	}
	sizes := []int{1, 2, 4, 5, 6, 9}
	for _, n := range sizes {
		for _, pos := range []int{0, n / 2, n - 1} {
			for _, g := range groups {
				for a := range g {
					for b := range g {
						if a == b {
							continue
						}
						old, nw := must(g[a]), must(g[b])
						var items []object.Object
						for i := 0; i < n; i++ {
							v := I(i)
							if i == pos {
								v = old
							}
							items = append(items, I(10*(i+1)), v)
						}
						k := I(10 * (pos + 1))
						t, o := opT(items), opS(k, nw)
						e.keys = []object.Object{k}
						cs := "MAP 0 " + t.tok + " " + o.tok
						_, obs := e.check(0, []op{t}, o, func() string { return cs })
						c.Case(cs, obs)
						c.NonTrivial("replace-equal|" + cs)
						// the same with every binding kept: copy, replace, replace back, merge the original in again
						e.bindings([]bop{bT(items), bS(0, k, nw), bS(1, k, old), bA(1, 0), bS(3, k, nw)})
					}
				}
			}
		}
		// two closures with the same text: only calling the stored function tells them apart
		var parts []string
		for i := 0; i < n; i++ {
			parts = append(parts, fmt.Sprintf("%d:%d", 10*(i+1), i))
		}
		for _, first := range []string{`m["f"]=mk(1);`, `m["f"]=mk(1);m["f"]=mk(1);`} {
			code := "func mk(n){()=>n};m={" + strings.Join(parts, ",") + "};" + first + `m["f"]=mk(2);m["f"]()`
			st := eval.NewState()
			st.Out = &strings.Builder{}
			old := state
			state = st
			r, pan := evalSrc(code)
			state = old
			c.Eval()
			if pan != "" {
				c.Fail("index-assign-closure-panic", "PROG "+code, pan)
			} else if Canon(r) != "I2" {
				c.Fail("index-assign-keeps-equal-looking-closure", "PROG "+code, "calling the stored function gives "+Canon(r)+", the last one assigned returns 2")
			}
		}
	}
}

// ---------------------------------------------------------------- several bindings alive at once
// A history is a list of operations that each make a NEW binding from earlier ones (binding i = variable vi):
//
//	T=<k>=<v>...      vN = { literal }
//	S=<i>=<k>=<v>     vN = vi; vN[k] = v          D=<i>=<k>   vN = vi; del(vN[k])
//	A=<i>=<j>         vN = vi + vj                R=<i>       vN = rest(vi)        X=<i>=<lo>=<hi>   vN = vi[lo:hi]
//
// After EVERY operation EVERY binding is read again (the operands, the parent of a range / rest view, earlier
// results) and compared with the reference store, in which a binding never changes once made.
type bop struct {
	kind   byte
	i, j   int
	lo, hi int
	k, v   object.Object
	items  []object.Object
	tok    string
}

func bT(items []object.Object) bop { return bop{kind: 'T', items: items, tok: opT(items).tok} }
func bS(i int, k, v object.Object) bop {
	return bop{kind: 'S', i: i, k: k, v: v, tok: fmt.Sprintf("S=%d=%s=%s", i, Canon(k), Canon(v))}
}
func bD(i int, k object.Object) bop {
	return bop{kind: 'D', i: i, k: k, tok: fmt.Sprintf("D=%d=%s", i, Canon(k))}
}
func bA(i, j int) bop { return bop{kind: 'A', i: i, j: j, tok: fmt.Sprintf("A=%d=%d", i, j)} }
func bR(i int) bop    { return bop{kind: 'R', i: i, tok: fmt.Sprintf("R=%d", i)} }
func bX(i, lo, hi int) bop {
	return bop{kind: 'X', i: i, lo: lo, hi: hi, tok: fmt.Sprintf("X=%d=%d=%d", i, lo, hi)}
}

func parseBop(t string) (bop, bool) {
	f := strings.Split(t, "=")
	num := func(x string) int {
		n, err := strconv.Atoi(x)
		if err != nil {
			return -1
		}
		return n
	}
	switch t[0] {
	case 'T':
		o, ok := parseOp(t)
		return bT(o.items), ok
	case 'S':
		if len(f) != 4 {
			return bop{}, false
		}
		k, ok1 := ParseCanon(f[2])
		v, ok2 := ParseCanon(f[3])
		return bS(num(f[1]), k, v), ok1 && ok2 && num(f[1]) >= 0
	case 'D':
		if len(f) != 3 {
			return bop{}, false
		}
		k, ok := ParseCanon(f[2])
		return bD(num(f[1]), k), ok && num(f[1]) >= 0
	case 'A':
		return bA(num(f[1]), num(f[len(f)-1])), len(f) == 3 && num(f[1]) >= 0 && num(f[2]) >= 0
	case 'R':
		return bR(num(f[len(f)-1])), len(f) == 2 && num(f[1]) >= 0
	case 'X':
		if len(f) != 4 {
			return bop{}, false
		}
		return bX(num(f[1]), num(f[2]), num(f[3])), num(f[1]) >= 0 && num(f[2]) >= 0 && num(f[3]) >= 0
	}
	return bop{}, false
}

func bopName(o bop) string {
	if o.kind == 'T' {
		return "bind-literal"
	}
	return "bind-" + string(o.kind)
}

// bindingsSrc runs the history in the real interpreter (one session, one statement per operation); after each
// statement all variables are read. Returns per operation the list of state strings, or "P"/"ERR..." + stop.
func bindingsSrc(ops []bop) [][]string {
	st := eval.NewState()
	st.Out = &strings.Builder{}
	run := func(code string) (res object.Object, pan string) {
		defer func() {
			if x := recover(); x != nil {
				pan = fmt.Sprint(x)
			}
		}()
		r, _ := eval.EvalString(st, code, false)
		return r, ""
	}
	litItems = nil
	item := func(o object.Object) string {
		litItems = append(litItems, o)
		return fmt.Sprintf("ul(%d)", len(litItems)-1)
	}
	var out [][]string
	for n, o := range ops {
		var code string
		v := fmt.Sprintf("v%d", n)
		switch o.kind {
		case 'T':
			var parts []string
			for i := 0; i+1 < len(o.items); i += 2 {
				parts = append(parts, item(o.items[i])+":"+item(o.items[i+1]))
			}
			code = v + "={" + strings.Join(parts, ",") + "}"
		case 'S':
			code = fmt.Sprintf("%s=v%d;%s[%s]=%s", v, o.i, v, item(o.k), item(o.v))
		case 'D':
			code = fmt.Sprintf("%s=v%d;del(%s[%s])", v, o.i, v, item(o.k))
		case 'A':
			code = fmt.Sprintf("%s=v%d+v%d", v, o.i, o.j)
		case 'R':
			code = fmt.Sprintf("%s=rest(v%d)", v, o.i)
		case 'X':
			code = fmt.Sprintf("%s=v%d[%d:%d]", v, o.i, o.lo, o.hi)
		}
		if _, pan := run(code + ";0"); pan != "" {
			return append(out, []string{"P"})
		}
		vars := make([]string, n+1)
		for i := range vars {
			vars[i] = fmt.Sprintf("v%d", i)
		}
		r, pan := run("[[" + strings.Join(vars, ",") + "]][0]")
		if pan != "" || r == nil || r.Type() != object.ARRAY || len(object.Elements(r)) != n+1 {
			return append(out, []string{"ERR:" + Canon(r)})
		}
		row := make([]string, n+1)
		for i, e := range object.Elements(r) {
			row[i] = stateStr(e)
		}
		out = append(out, row)
	}
	return out
}

// bindingsAPI: the same history through the Go API. Set / Delete mutate a *BigMap in place by contract, so the
// copy-then-assign of the language is Clone() first (what eval does); Append, Rest, Range must not touch their operands.
func bindingsAPI(ops []bop) (out [][]string) {
	var objs []object.Object
	defer func() {
		if x := recover(); x != nil {
			out = append(out, []string{"P"})
		}
	}()
	private := func(m object.Object) object.Map {
		if b, ok := m.(*object.BigMap); ok {
			return b.Clone()
		}
		return m.(object.Map)
	}
	for _, o := range ops {
		var nw object.Object
		switch o.kind {
		case 'T':
			m := object.NewMapSize(len(o.items) / 2)
			for i := 0; i+1 < len(o.items); i += 2 {
				m = m.Set(o.items[i], o.items[i+1])
			}
			nw = m
		case 'S':
			nw = private(objs[o.i]).Set(o.k, o.v)
		case 'D':
			nw, _ = private(objs[o.i]).Delete(o.k)
		case 'A':
			nw = objs[o.i].(object.Map).Append(objs[o.j].(object.Map))
		case 'R':
			nw = object.Rest(objs[o.i])
		case 'X':
			nw = object.Range(objs[o.i], int64(o.lo), int64(o.hi))
		}
		objs = append(objs, nw)
		row := make([]string, len(objs))
		for i, e := range objs {
			row[i] = stateStr(e)
		}
		out = append(out, row)
	}
	return out
}

// bindingsRef: the reference store; nil = outside the little language (bad index, nil rest, range out of bounds).
func bindingsRef(ops []bop) [][]string {
	var st []*refMap
	var out [][]string
	for _, o := range ops {
		var nw *refMap
		ok := func(i int) bool { return i >= 0 && i < len(st) }
		switch o.kind {
		case 'T':
			nw = &refMap{}
			for i := 0; i+1 < len(o.items); i += 2 {
				nw.set(o.items[i], o.items[i+1])
			}
		case 'S':
			if ok(o.i) {
				nw = st[o.i].clone()
				nw.set(o.k, o.v)
			}
		case 'D':
			if ok(o.i) {
				nw = st[o.i].clone()
				nw.del(o.k)
			}
		case 'A':
			if ok(o.i) && ok(o.j) {
				nw = st[o.i].clone()
				for x := range st[o.j].ks {
					nw.set(st[o.j].ks[x], st[o.j].vs[x])
				}
			}
		case 'R':
			if ok(o.i) && len(st[o.i].ks) > 1 {
				c := st[o.i].clone()
				nw = &refMap{ks: c.ks[1:], vs: c.vs[1:]}
			}
		case 'X':
			if ok(o.i) && o.lo <= o.hi && o.hi <= len(st[o.i].ks) {
				c := st[o.i].clone()
				nw = &refMap{ks: c.ks[o.lo:o.hi], vs: c.vs[o.lo:o.hi]}
			}
		}
		if nw == nil {
			return out
		}
		st = append(st, nw)
		row := make([]string, len(st))
		for i, r := range st {
			row[i] = r.canon()
		}
		out = append(out, row)
	}
	return out
}

func (e *explorer) bindings(ops []bop) {
	c := e.c
	toks := make([]string, len(ops))
	for i, o := range ops {
		toks[i] = o.tok
	}
	ref := bindingsRef(ops)
	if len(ref) != len(ops) {
		return // generator error: outside the language
	}
	for _, mode := range []string{"src", "api"} {
		var got [][]string
		if mode == "src" {
			got = bindingsSrc(ops)
		} else {
			got = bindingsAPI(ops)
		}
		c.Evals += len(ops) * (len(ops) + 1) / 2
		var obs []string
		stop := false
		for n := range got {
			cs := "BIND " + mode + " " + strings.Join(toks[:n+1], " ")
			row := got[n]
			obs = append(obs, strings.Join(row, ";"))
			if (len(row) == 1 && (row[0] == "P" || strings.HasPrefix(row[0], "ERR"))) || len(row) != n+1 {
				sig := "bindings-panic:"
				if row[0] != "P" {
					sig = "bindings-not-supported:"
				}
				c.Fail(sig+bopName(ops[n]), cs, strings.Join(row, ";"))
				stop = true
				break
			}
			for i, sv := range row {
				if len(sv) < 1 || sv[1:] == ref[n][i] {
					continue
				}
				if i < n {
					c.Fail("earlier-binding-changed:"+bopName(ops[n]), cs,
						fmt.Sprintf("after v%d (%s) the binding v%d reads %s, it was made as %s", n, ops[n].tok, i, sv[1:], ref[n][i]))
				} else {
					c.Fail("differs-from-reference-map:"+bopName(ops[n]), cs, fmt.Sprintf("v%d reads %s, reference %s", n, sv[1:], ref[n][i]))
				}
				stop = true
			}
			if strings.HasPrefix(row[n], "p") {
				c.Fail("small-map-behind-pointer:"+bopName(ops[n]), cs, row[n])
			}
			if stop {
				break
			}
		}
		c.Case("BIND "+mode+" "+strings.Join(toks[:len(obs)], " "), strings.Join(obs, " "))
		c.Count("bindings:" + mode)
	}
	c.NonTrivial("bind|" + strings.Join(toks, " "))
}

func intLit(from, to int) []object.Object {
	var items []object.Object
	for i := from; i <= to; i++ {
		items = append(items, object.Integer{Value: int64(i)}, object.Integer{Value: int64(i)})
	}
	return items
}

// bindingHistories: a base map of every size around the threshold; a left operand that is the base itself, a
// range / rest view of it, or a copy grown or shrunk by index assignment / del (spare capacity in the backing
// array); then TWO merges from that same left operand with right operands whose keys are all greater / all
// smaller / inside / already present / several / none; then a view and an assignment on the first result.
func (e *explorer) bindingHistories() {
	c := e.c
	I := func(n int) object.Object { return object.Integer{Value: int64(n)} }
	type lop struct {
		name string
		mk   func(n int) []bop // operations after v0 = base (n pairs, keys 10,20,..); the left operand is the last binding made
	}
	key := func(i int) int { return 10 * i }
	base := func(n int) []object.Object {
		var items []object.Object
		for i := 1; i <= n; i++ {
			items = append(items, I(key(i)), I(i))
		}
		return items
	}
	lefts := []lop{
		{"itself", func(n int) []bop { return nil }},
		{"range-prefix", func(n int) []bop { return []bop{bX(0, 0, n-2)} }},
		{"range-prefix-1", func(n int) []bop { return []bop{bX(0, 0, n-1)} }},
		{"range-middle", func(n int) []bop { return []bop{bX(0, 1, n-1)} }},
		{"rest", func(n int) []bop { return []bop{bR(0)} }},
		{"rest-rest-prefix", func(n int) []bop { return []bop{bR(0), bX(1, 0, n-2)} }},
		{"grown-last", func(n int) []bop { return []bop{bS(0, I(key(n)+5), I(0))} }},
		{"grown-middle", func(n int) []bop { return []bop{bS(0, I(15), I(0))} }},
		{"grown-twice", func(n int) []bop { return []bop{bS(0, I(key(n)+5), I(0)), bS(1, I(key(n)+6), I(0))} }},
		{"shrunk", func(n int) []bop { return []bop{bD(0, I(key(n)))} }},
		{"updated", func(n int) []bop { return []bop{bS(0, I(key(1)), I(0))} }},
		{"merged", func(n int) []bop { return []bop{bT([]object.Object{I(key(n) + 3), I(0)}), bA(0, 1)} }},
	}
	rights := func(n int) [][]object.Object {
		hi := key(n) + 50
		return [][]object.Object{
			{I(hi), I(1)}, {I(hi + 1), I(2)}, {I(hi), I(1), I(hi + 2), I(3)}, // all greater
			{I(1), I(1)}, {I(25), I(1)}, {I(key(n) - 5), I(1)}, // smaller / inside
			{I(key(1)), I(9)}, {I(key(n)), I(9)}, {I(key(n - 1)), I(9), I(hi), I(1)}, // present
			{}, {S("a"), I(1)}, {Fl(float64(key(n)) + 0.5), I(1)},
		}
	}
	sizes := []int{4, 5, 7}
	if c.Thorough() {
		sizes = []int{2, 3, 4, 5, 6, 7, 8, 9, 12}
	}
	for _, n := range sizes {
		rs := rights(n)
		for _, l := range lefts {
			pre := l.mk(n)
			if n < 3 && (strings.HasPrefix(l.name, "range") || strings.HasPrefix(l.name, "rest")) {
				continue
			}
			for a := 0; a < len(rs); a++ {
				for b := 0; b < len(rs); b++ {
					if !c.Thorough() && a != b && (a+b)%4 != 0 && a > 2 && b > 2 {
						continue // quick: every pair involving an all-greater operand, a quarter of the others
					}
					ops := append([]bop{bT(base(n))}, pre...)
					left := len(ops) - 1
					ops = append(ops, bT(rs[a]), bT(rs[b]))
					ra, rb := len(ops)-2, len(ops)-1
					ops = append(ops, bA(left, ra), bA(left, rb)) // two merges from the same left operand
					first := len(ops) - 2
					ops = append(ops, bA(first, rb), bS(first, I(key(n)+70), I(7)))
					e.bindings(ops)
				}
			}
		}
	}
	// the two published witnesses of an in-place merge, literally
	e.bindings([]bop{bT(intLit(1, 7)), bX(0, 0, 5), bT([]object.Object{I(9), I(9)}), bA(1, 2)})
	e.bindings([]bop{bT(intLit(1, 5)), bS(0, I(6), I(6)), bT([]object.Object{I(7), I(7)}), bT([]object.Object{I(8), I(8)}), bA(1, 2), bA(1, 3)})
	// random histories
	pool := musts("I1", "F3ff0000000000000", "I2", "I3", "I4", "I5", "I6", "I7", "I8", "I9", "S61", "N", "A[I1]", "F4004000000000000", "I50", "I60")
	cnt, length := 150, 9
	if c.Thorough() {
		cnt, length = 6000, 12
	}
	for h := 0; h < cnt && len(c.Failures) < 2000; h++ {
		var ops []bop
		var sizes []int // reference sizes, to stay inside the language
		refs := func() [][]string { return bindingsRef(ops) }
		_ = refs
		for len(ops) < length {
			var o bop
			n := len(ops)
			pick := func() int { return c.R.Intn(n) }
			switch x := c.R.Intn(100); {
			case n == 0 || x < 12:
				var items []object.Object
				k := c.R.Intn(9)
				if c.R.Pct(50) { // increasing integer keys: the usual accumulation pattern
					st := c.R.Intn(4)
					for j := 0; j < k; j++ {
						items = append(items, I(st+2*j), I(j))
					}
				} else {
					for j := 0; j < k; j++ {
						items = append(items, pool[c.R.Intn(len(pool))], I(j))
					}
				}
				o = bT(items)
			case x < 30:
				o = bS(pick(), pool[c.R.Intn(len(pool))], I(c.R.Intn(5)))
			case x < 38:
				o = bD(pick(), pool[c.R.Intn(len(pool))])
			case x < 70:
				o = bA(pick(), pick())
			case x < 80:
				i := pick()
				if sizes[i] < 2 {
					continue
				}
				o = bR(i)
			default:
				i := pick()
				lo := c.R.Intn(sizes[i] + 1)
				hi := lo + c.R.Intn(sizes[i]-lo+1)
				if c.R.Pct(60) && sizes[i] > 1 {
					lo, hi = 0, sizes[i]-1-c.R.Intn(2)
				}
				o = bX(i, lo, hi)
			}
			ops = append(ops, o)
			r := bindingsRef(ops)
			if len(r) != len(ops) {
				ops = ops[:len(ops)-1]
				continue
			}
			sizes = append(sizes, strings.Count(r[len(r)-1][len(ops)-1], ":"))
		}
		e.bindings(ops)
	}
}

// ---------------------------------------------------------------- key classes, every insertion order
// classKey: the order-equivalence class of a key, computed WITHOUT object.Cmp (the Go reference map above is ordered by
// object.Cmp itself, so it inherits any incoherence of the order): numbers by their exact value (big.Rat; -0 = +0 = 0,
// 1 = 1.0, NaN its own class, infinities), strings by bytes, booleans, nil, arrays and maps element by element.
func classKey(o object.Object) string {
	switch v := o.(type) {
	case object.Integer:
		return "n:" + new(big.Rat).SetInt64(v.Value).String()
	case object.Float:
		f := v.Value
		switch {
		case f != f:
			return "n:nan"
		case math.IsInf(f, 1):
			return "n:+inf"
		case math.IsInf(f, -1):
			return "n:-inf"
		}
		r, _ := new(big.Rat).SetString(new(big.Float).SetFloat64(f).Text('g', -1)) // exact
		if r == nil {
			r = new(big.Rat).SetFloat64(f)
		}
		return "n:" + r.String()
	case object.Boolean:
		return "b:" + strconv.FormatBool(v.Value)
	case object.Null:
		return "nil"
	case object.String:
		return "s:" + Hx([]byte(v.Value))
	case object.SmallArray, object.BigArray:
		var p []string
		for _, e := range object.Elements(o) {
			p = append(p, classKey(e))
		}
		return "a[" + strings.Join(p, ",") + "]"
	case object.Map:
		ps := object.VerifMapPairs(v)
		var p []string
		for _, e := range ps {
			p = append(p, classKey(e))
		}
		return "m{" + strings.Join(p, ",") + "}"
	}
	return "o:" + o.Type().String() + ":" + Canon(o)
}

func permute(n int, f func([]int)) {
	p := make([]int, n)
	for i := range p {
		p[i] = i
	}
	var rec func(k int)
	rec = func(k int) {
		if k == n {
			f(p)
			return
		}
		for i := k; i < n; i++ {
			p[k], p[i] = p[i], p[k]
			rec(k + 1)
			p[k], p[i] = p[i], p[k]
		}
	}
	rec(0)
}

// keyClasses: keys drawn from equivalence classes of the key order (0 / 0.0 / -0.0, 1 / 1.0, 2^53 / its float,
// 2^53+1, NaN, a string) inserted in EVERY order, into a small-start and a large-start map and from source; then
// length, lookup of every member, equality between the orders, and deletion through every member, against a
// finite map whose key identity is the class (classKey).
func (e *explorer) keyClasses() {
	c := e.c
	sets := [][]string{
		{"I0", "F0000000000000000", "F8000000000000000"},
		{"I1", "F3ff0000000000000"},
		{"I0", "F0000000000000000", "F8000000000000000", "I7"},
		{"I0", "F8000000000000000", "F0000000000000000", "I7", "S61"},
		{"I1", "F3ff0000000000000", "I0", "F8000000000000000"},
		{"I9007199254740992", "F4340000000000000", "I9007199254740993"},
		{"F7ff8000000000001", "F8000000000000000", "F0000000000000000", "Ffff0000000000000"},
		{"I1", "F3ff0000000000000", "I9007199254740992", "F4340000000000000", "F7ff8000000000001"},
		{"F0000000000000000", "F8000000000000000", "I-1", "I1", "I2"},
		{"A[I0]", "A[F8000000000000000]", "A[F0000000000000000]", "I0"},
	}
	if c.Thorough() {
		sets = append(sets,
			[]string{"I0", "F0000000000000000", "F8000000000000000", "I1", "F3ff0000000000000", "I7"},
			[]string{"I0", "F8000000000000000", "F0000000000000000", "I5", "I6", "I7", "I8"},
			[]string{"F8000000000000000", "F0000000000000000", "I9007199254740992", "F4340000000000000", "I9007199254740993", "F7ff8000000000001"})
	}
	val := must("S78")
	for _, set := range sets {
		ks := musts(set...)
		classes := map[string]bool{}
		for _, k := range ks {
			classes[classKey(k)] = true
		}
		var first object.Map
		firstOrder := ""
		permute(len(ks), func(p []int) {
			if len(c.Failures) >= 2000 {
				return
			}
			var toks []string
			for _, i := range p {
				toks = append(toks, "S="+set[i]+"=S78")
			}
			order := strings.Join(toks, ";")
			for _, n0 := range []int{0, 9} {
				cs := fmt.Sprintf("MAP %d %s L", n0, order)
				m := object.NewMapSize(n0)
				for _, i := range p {
					m = m.Set(ks[i], val)
				}
				c.Eval()
				if object.Len(m) != len(classes) {
					c.Fail("key-class-stored-twice-or-lost:len", cs,
						fmt.Sprintf("%d pairs %s for %d key classes", object.Len(m), stateStr(m), len(classes)))
				}
				for i, k := range ks {
					if _, ok := m.Get(k); !ok {
						c.Fail("key-class-lookup-misses-member", fmt.Sprintf("MAP %d %s G=%s", n0, order, set[i]), "not found in "+stateStr(m))
					}
				}
				if first == nil {
					first, firstOrder = m, order
				} else if !object.Equals(m, first) || !object.Equals(first, m) || object.Cmp(m, first) != 0 {
					c.Fail("insertion-order-changes-map:equals", cs,
						fmt.Sprintf("%s differs from %s built by %s", stateStr(m), stateStr(first), firstOrder))
				}
				// delete through every member: the whole class goes, nothing else does
				for i, k := range ks {
					m2 := object.NewMapSize(n0)
					for _, j := range p {
						m2 = m2.Set(ks[j], val)
					}
					m2, ch := m2.Delete(k)
					csd := fmt.Sprintf("MAP %d %s D=%s", n0, order, set[i])
					if !ch || object.Len(m2) != len(classes)-1 {
						c.Fail("key-class-delete:len", csd, fmt.Sprintf("changed=%v, %s for %d classes", ch, stateStr(m2), len(classes)-1))
					}
					for j, k2 := range ks {
						_, ok := m2.Get(k2)
						if same := classKey(k2) == classKey(k); ok == same {
							c.Fail("key-class-delete:lookup", csd, fmt.Sprintf("after the delete %s found=%v in %s", set[j], ok, stateStr(m2)))
						}
					}
				}
			}
			// the same insertions through the interpreter, unobserved, then everything read once
			litItems = append(append([]object.Object(nil), ks...), val)
			var st []string
			for _, i := range p {
				st = append(st, fmt.Sprintf("m[ul(%d)]=ul(%d)", i, len(ks)))
			}
			var look []string
			for i := range ks {
				look = append(look, fmt.Sprintf("m[ul(%d)]", i))
			}
			code := "m={};" + strings.Join(st, ";") + ";[[len(m),[" + strings.Join(look, ",") + "],m]][0]"
			state.Out = &strings.Builder{}
			r, pan := evalSrc(code)
			c.Eval()
			csS := "MAP 0 " + order + " L"
			if pan != "" || r == nil || r.Type() != object.ARRAY || len(object.Elements(r)) != 3 {
				c.Fail("key-class-source-failed", csS, pan+" "+Canon(r)+" from "+code)
			} else {
				el := object.Elements(r)
				if Canon(el[0]) != fmt.Sprintf("I%d", len(classes)) {
					c.Fail("key-class-stored-twice-or-lost:len", csS, "from source len(m)="+Canon(el[0])[1:]+" "+stateStr(el[2])+fmt.Sprintf(" for %d key classes", len(classes)))
				}
				for i, x := range object.Elements(el[1]) {
					if Canon(x) != "S78" {
						c.Fail("key-class-lookup-misses-member", fmt.Sprintf("MAP 0 %s G=%s", order, set[i]), "from source m[k]="+Canon(x)+" in "+stateStr(el[2]))
					}
				}
			}
			// correspondence: this order, then length, lookups and deletes, for the model
			var ops []string
			ops = append(ops, toks...)
			ops = append(ops, "L")
			for _, k := range set {
				ops = append(ops, "G="+k)
			}
			for _, k := range set {
				ops = append(ops, "D="+k, "L")
			}
			var path []op
			var obss []string
			m := object.NewMapSize(0)
			for _, t := range ops {
				o, _ := parseOp(t)
				var ob string
				m, ob = applyAPI(m, o)
				obss = append(obss, ob)
				path = append(path, o)
			}
			c.Case("SEQ 0 "+strings.Join(ops, " "), strings.Join(obss, " "))
			c.NonTrivial("classes|" + order)
			c.Count("key-classes:orders")
		})
	}
}

// ---------------------------------------------------------------- maps as arguments after pairs were cut off
// Small and large maps in which one value is not a plain hashable Go value (a 9 element array, a 5 pair map, an
// array holding one, a function); every operation that can cut that pair off (every range, rest, del of each key,
// overwriting it) and then the map used as an ARGUMENT of grol functions (keys, a cacheable function called twice,
// the identity) - result, no panic, equal to the reference map built directly; and no stale slot in the Go value.
func (e *explorer) arguments() {
	c := e.c
	I := func(n int) object.Object { return object.Integer{Value: int64(n)} }
	heavy := musts("A[I1,I2,I3,I4,I5,I6,I7,I8,I9]", "M{I1:I1,I2:I2,I3:I3,I4:I4,I5:I5}", "A[A[I1,I2,I3,I4,I5,I6,I7,I8,I9]]")
	sizes := []int{2, 3, 4, 5, 6}
	for _, n := range sizes {
		for _, pos := range []int{0, n / 2, n - 1} {
			for _, h := range heavy {
				var items []object.Object
				for i := 0; i < n; i++ {
					var v object.Object = I(i)
					if i == pos {
						v = h
					}
					items = append(items, I(10*(i+1)), v)
				}
				t := opT(items)
				var ops []op
				for lo := 0; lo <= n; lo++ {
					for hi := lo; hi <= n; hi++ {
						ops = append(ops, opX(lo, hi))
					}
				}
				ops = append(ops, op0('R'), opS(I(10*(pos+1)), I(7)), opS(I(5), h), opM('A', 0, "M{}"), opM('A', 0, "M{I5:"+Canon(h)+"}"))
				for i := 0; i < n; i++ {
					ops = append(ops, opK('D', I(10*(i+1))))
				}
				e.keys = []object.Object{I(10), I(10 * (pos + 1)), I(10 * n)}
				var toks, obss []string
				for _, o := range ops {
					o := o
					_, ob := e.check(0, []op{t}, o, func() string { return "MAP 0 " + t.tok + " " + o.tok })
					toks = append(toks, o.tok)
					obss = append(obss, ob)
					// two steps: cut, then cut again / delete (stale pairs surviving a second operation)
					if o.kind == 'X' && o.hi-o.lo >= 1 {
						o2 := opX(0, o.hi-o.lo-1)
						_, ob2 := e.check(0, []op{t, o}, o2, func() string { return "MAP 0 " + t.tok + ";" + o.tok + " " + o2.tok })
						c.Case("MAP 0 "+t.tok+";"+o.tok+" "+o2.tok, ob2)
					}
				}
				c.Case("MAP 0 "+t.tok+" "+strings.Join(toks, " "), strings.Join(obss, " "))
				c.Count("arguments:heavy-value")
			}
		}
		// function values (no canonical form to rebuild them from): whole programs
		var parts []string
		for i := 0; i < n; i++ {
			parts = append(parts, fmt.Sprintf("%d:%d", 10*(i+1), i))
		}
		for _, fv := range []string{"func(){1}", "[func(){1}]", "[1,2,3,4,5,6,7,8,[9]]"} {
			lit := "{" + strings.Join(parts, ",") + fmt.Sprintf(",%d:%s}", 10*(n+1), fv)
			code := "cnt=func(p){len(p)};idf=func(p){p};o=" + lit + fmt.Sprintf(";a=o[0:%d];b=o;del(b[%d]);[[cnt(a),cnt(a),keys(a),idf(a)==a,cnt(b),cnt(b),keys(b)==keys(a),a==b]][0]", n, 10*(n+1))
			st := eval.NewState()
			st.Out = &strings.Builder{}
			old := state
			state = st
			r, pan := evalSrc(code)
			state = old
			c.Eval()
			var ks []string
			for i := 0; i < n; i++ {
				ks = append(ks, fmt.Sprintf("I%d", 10*(i+1)))
			}
			want := fmt.Sprintf("A[I%d,I%d,A[%s],B1,I%d,I%d,B1,B1]", n, n, strings.Join(ks, ","), n, n)
			if pan != "" {
				c.Fail("map-as-function-argument-panic:program", "PROG "+code, pan)
			} else if got := Canon(r); got != want {
				c.Fail("map-as-function-argument-differs:program", "PROG "+code, "got "+got+" expected "+want)
			}
		}
	}
}

// ---------------------------------------------------------------- unobserved programs
// A whole program is evaluated in ONE go and every variable is read ONCE, at the end: nothing is observed in between
// (reading a variable after every step can itself repair a copy-on-write scheme that tracks reads). Besides the
// operations of the binding histories (T, A=i=j, R=i, X=i=lo=hi make a new variable) there are writes IN PLACE to an
// existing variable and values taken without a top-level read of the variable:
//
//	W=<i>=<k>=<v>   vi[k] = v            E=<i>=<k>   del(vi[k])            K=<i>   vN = vi
//	C=<i>=<how>     vN = the value of vi taken from inside a function: how = 0 func(){vi}()  1 func(){x=vi;x}()
//	                2 func(){func(){vi}()}()  3 func(){[vi]}()[0]  4 func(){{"m":vi}}().m
//
// Reference: a store of finite maps where W / E replace the content of variable i only.
func progSource(ops []bop) string {
	litItems = nil
	item := func(o object.Object) string {
		litItems = append(litItems, o)
		return fmt.Sprintf("ul(%d)", len(litItems)-1)
	}
	var st []string
	nv := 0
	for _, o := range ops {
		v := fmt.Sprintf("v%d", nv)
		switch o.kind {
		case 'T':
			var parts []string
			for i := 0; i+1 < len(o.items); i += 2 {
				parts = append(parts, item(o.items[i])+":"+item(o.items[i+1]))
			}
			st = append(st, v+"={"+strings.Join(parts, ",")+"}")
			nv++
		case 'W':
			st = append(st, fmt.Sprintf("v%d[%s]=%s", o.i, item(o.k), item(o.v)))
		case 'E':
			st = append(st, fmt.Sprintf("del(v%d[%s])", o.i, item(o.k)))
		case 'K':
			st = append(st, fmt.Sprintf("%s=v%d", v, o.i))
			nv++
		case 'C':
			f := fmt.Sprintf("s%d", nv)
			switch o.j {
			case 0:
				st = append(st, fmt.Sprintf("%s=func(){v%d};%s=%s()", f, o.i, v, f))
			case 1:
				st = append(st, fmt.Sprintf("%s=func(){x=v%d;x};%s=%s()", f, o.i, v, f))
			case 2:
				st = append(st, fmt.Sprintf("%s=func(){g=func(){v%d};g()};%s=%s()", f, o.i, v, f))
			case 3:
				st = append(st, fmt.Sprintf("%s=func(){[v%d]};%s=%s()[0]", f, o.i, v, f))
			default:
				st = append(st, fmt.Sprintf(`%s=func(){{"m":v%d}};%s=%s().m`, f, o.i, v, f))
			}
			nv++
		case 'A':
			st = append(st, fmt.Sprintf("%s=v%d+v%d", v, o.i, o.j))
			nv++
		case 'R':
			st = append(st, fmt.Sprintf("%s=rest(v%d)", v, o.i))
			nv++
		case 'X':
			st = append(st, fmt.Sprintf("%s=v%d[%d:%d]", v, o.i, o.lo, o.hi))
			nv++
		}
	}
	vars := make([]string, nv)
	for i := range vars {
		vars[i] = fmt.Sprintf("v%d", i)
	}
	return strings.Join(st, ";") + ";[[" + strings.Join(vars, ",") + "]][0]"
}

func progRef(ops []bop) ([]*refMap, bool) {
	var st []*refMap
	ok := func(i int) bool { return i >= 0 && i < len(st) }
	for _, o := range ops {
		switch o.kind {
		case 'T':
			r := &refMap{}
			for i := 0; i+1 < len(o.items); i += 2 {
				r.set(o.items[i], o.items[i+1])
			}
			st = append(st, r)
		case 'W', 'E':
			if !ok(o.i) {
				return nil, false
			}
			r := st[o.i].clone()
			if o.kind == 'W' {
				r.set(o.k, o.v)
			} else {
				r.del(o.k)
			}
			st[o.i] = r
		case 'K', 'C':
			if !ok(o.i) {
				return nil, false
			}
			st = append(st, st[o.i].clone())
		case 'A':
			if !ok(o.i) || !ok(o.j) {
				return nil, false
			}
			r := st[o.i].clone()
			for x := range st[o.j].ks {
				r.set(st[o.j].ks[x], st[o.j].vs[x])
			}
			st = append(st, r)
		case 'R':
			if !ok(o.i) || len(st[o.i].ks) < 2 {
				return nil, false
			}
			c := st[o.i].clone()
			st = append(st, &refMap{ks: c.ks[1:], vs: c.vs[1:]})
		case 'X':
			if !ok(o.i) || o.lo > o.hi || o.hi > len(st[o.i].ks) {
				return nil, false
			}
			c := st[o.i].clone()
			st = append(st, &refMap{ks: c.ks[o.lo:o.hi], vs: c.vs[o.lo:o.hi]})
		}
	}
	return st, true
}

func pW(i int, k, v object.Object) bop {
	return bop{kind: 'W', i: i, k: k, v: v, tok: fmt.Sprintf("W=%d=%s=%s", i, Canon(k), Canon(v))}
}
func pE(i int, k object.Object) bop {
	return bop{kind: 'E', i: i, k: k, tok: fmt.Sprintf("E=%d=%s", i, Canon(k))}
}
func pK(i int) bop      { return bop{kind: 'K', i: i, tok: fmt.Sprintf("K=%d", i)} }
func pC(i, how int) bop { return bop{kind: 'C', i: i, j: how, tok: fmt.Sprintf("C=%d=%d", i, how)} }

func parsePop(t string) (bop, bool) {
	f := strings.Split(t, "=")
	num := func(x string) int {
		n, err := strconv.Atoi(x)
		if err != nil {
			return -1
		}
		return n
	}
	switch t[0] {
	case 'W':
		if len(f) != 4 {
			return bop{}, false
		}
		k, ok1 := ParseCanon(f[2])
		v, ok2 := ParseCanon(f[3])
		return pW(num(f[1]), k, v), ok1 && ok2
	case 'E':
		if len(f) != 3 {
			return bop{}, false
		}
		k, ok := ParseCanon(f[2])
		return pE(num(f[1]), k), ok
	case 'K':
		return pK(num(f[len(f)-1])), len(f) == 2
	case 'C':
		if len(f) != 3 {
			return bop{}, false
		}
		return pC(num(f[1]), num(f[2])), true
	}
	return parseBop(t)
}

func (e *explorer) program(ops []bop) {
	c := e.c
	ref, ok := progRef(ops)
	if !ok {
		return
	}
	toks := make([]string, len(ops))
	for i, o := range ops {
		toks[i] = o.tok
	}
	cs := "PROG " + strings.Join(toks, " ")
	code := progSource(ops)
	st := eval.NewState()
	st.Out = &strings.Builder{}
	old := state
	state = st
	r, pan := evalSrc(code)
	state = old
	c.Eval()
	c.Count("program:unobserved")
	c.NonTrivial("prog|" + cs)
	if pan != "" {
		c.Fail("unobserved-program-panic", cs, pan+" in "+code)
		c.Case(cs, "P")
		return
	}
	if r == nil || r.Type() != object.ARRAY || len(object.Elements(r)) != len(ref) {
		c.Fail("unobserved-program-not-supported", cs, Canon(r)+" from "+code)
		c.Case(cs, "ERR")
		return
	}
	row := make([]string, len(ref))
	for i, el := range object.Elements(r) {
		row[i] = stateStr(el)
		if len(row[i]) > 0 && row[i][1:] != ref[i].canon() {
			c.Fail("variable-differs-from-reference:unobserved-program", cs,
				fmt.Sprintf("read once at the end, v%d is %s; the finite-map history gives %s   (%s)", i, row[i][1:], ref[i].canon(), code))
		}
	}
	c.Case(cs, strings.Join(row, ";"))
}

func (e *explorer) programs() {
	c := e.c
	I := func(n int) object.Object { return object.Integer{Value: int64(n)} }
	sizes := []int{3, 5, 6, 8}
	if c.Thorough() {
		sizes = []int{2, 3, 4, 5, 6, 7, 8, 12}
	}
	// write, take the value from inside a function, write again; nothing read at top level in between
	for _, n := range sizes {
		writes := func(i int) []bop {
			return []bop{pW(i, I(n+1), I(60)), pW(i, I(1), I(100)), pE(i, I(1)), pE(i, I(n)), pW(i, I(2), I(200))}
		}
		for _, w1 := range writes(0) {
			for how := 0; how < 5; how++ {
				for _, w2 := range writes(0) {
					e.program([]bop{bT(intLit(1, n)), w1, pC(0, how), w2})
					e.program([]bop{bT(intLit(1, n)), w1, pC(0, how), w2, pC(0, (how+1)%5), pW(0, I(3), I(300)), pW(1, I(4), I(400))})
				}
			}
			e.program([]bop{bT(intLit(1, n)), w1, pK(0), pW(0, I(1), I(100)), pW(1, I(2), I(200))})
			e.program([]bop{bT(intLit(1, n)), w1, bX(0, 0, n-1), pW(0, I(1), I(100)), bR(0), pW(0, I(2), I(200)), pE(0, I(3))})
		}
	}
	// random programs
	pool := musts("I1", "F3ff0000000000000", "I2", "I3", "I4", "I5", "I6", "I7", "I8", "I9", "S61", "N")
	cnt, length := 150, 10
	if c.Thorough() {
		cnt, length = 5000, 14
	}
	for h := 0; h < cnt && len(c.Failures) < 2000; h++ {
		var ops []bop
		nv := 0
		for len(ops) < length {
			var o bop
			pick := func() int { return c.R.Intn(nv) }
			switch x := c.R.Intn(100); {
			case nv == 0 || x < 10:
				o = bT(intLit(1, 2+c.R.Intn(7)))
			case x < 45:
				o = pW(pick(), pool[c.R.Intn(len(pool))], I(10+c.R.Intn(90)))
			case x < 55:
				o = pE(pick(), pool[c.R.Intn(len(pool))])
			case x < 80:
				o = pC(pick(), c.R.Intn(5))
			case x < 86:
				o = pK(pick())
			case x < 93:
				o = bA(pick(), pick())
			default:
				o = bX(pick(), 0, 1)
			}
			try := append(append([]bop(nil), ops...), o)
			if _, ok := progRef(try); !ok {
				continue
			}
			ops = try
			if o.kind != 'W' && o.kind != 'E' {
				nv++
			}
		}
		e.program(ops)
	}
}

func S(s string) object.Object   { return object.String{Value: s} }
func Fl(f float64) object.Object { return object.Float{Value: f} }

func must(s string) object.Object {
	o, ok := ParseCanon(s)
	if !ok {
		panic("bad value " + s)
	}
	return o
}

func musts(ss ...string) []object.Object {
	var r []object.Object
	for _, s := range ss {
		r = append(r, must(s))
	}
	return r
}

func runC11(c *Ctx) {
	c.Rule = "breadth-first exploration of every map state (representation tag + content) reachable from NewMapSize(0) and " +
		"NewMapSize(5) over a universe of keys of mixed types (int, float, string, nil, array, bool) plus probe keys (an alias " +
		"1.0 of the key 1, an absent key) and two values; from every state every operation: Set/Get/Delete of every key, " +
		"First, Rest, Len, Inspect, every Range, Append / prepend / Equals+Cmp with a fixed set of operand maps and with its own " +
		"content under both size hints; each operation also through grol source, keys() and for-iteration; plus random long " +
		"sequences over a larger universe. non-trivial = distinct (state, operation) that change the representation, and distinct random sequences"
	if err := extensions.Init(nil); err != nil {
		panic(err)
	}
	state = eval.NewState()
	reg := func(name string, f func() object.Object) {
		err := object.CreateFunction(object.Extension{Name: name, MinArgs: 0, MaxArgs: 0,
			Callback: func(_ any, _ string, _ []object.Object) object.Object { return f() }})
		if err != nil {
			panic(err)
		}
	}
	reg("um", func() object.Object { return injMap() })
	reg("uk", func() object.Object { return injK })
	reg("uw", func() object.Object { return injV })
	reg("uo", func() object.Object { return injO })
	if err := object.CreateFunction(object.Extension{Name: "ul", MinArgs: 1, MaxArgs: 1, ArgTypes: []object.Type{object.INTEGER},
		Callback: func(_ any, _ string, args []object.Object) object.Object {
			return litItems[args[0].(object.Integer).Value]
		}}); err != nil {
		panic(err)
	}
	e := &explorer{c: c, doSource: true}
	if c.ReplayCase != "" {
		c11Replay(e, c.ReplayCase)
		return
	}
	// corpus first: the witness of the pinned tree's defect (merge with an empty map), then rest / range / keys on it
	a1 := opS(must("S61"), must("I1"))
	b2 := opS(must("S62"), must("I2"))
	for _, o := range []op{op0('R'), opX(0, 1), op0('F'), op0('L'), opM('A', 0, "M{S63:I3}")} {
		path := []op{a1, b2, opM('A', 0, "M{}")}
		oo := o
		e.keys = musts("S61", "S62")
		_, obs := e.check(0, path, o, func() string { return "MAP 0 " + pathStr(path) + " " + oo.tok })
		c.Case("MAP 0 "+pathStr(path)+" "+o.tok, obs)
	}
	// map literals (0..12 written pairs, a key repeated 1..5 times at the front / back / middle / spread / both ends,
	// int / float aliases of one key class, small and large literals), each followed by every kind of operation
	// two witnesses of a literal that keeps the wrong value of a repeated key first
	e.literalCase(musts("I1", "S61", "I2", "S62", "I3", "S63", "I4", "S64", "I1", "S7a"), true)
	e.literalCase(musts("S6b", "I1", "S6b", "I2", "S6b", "I3", "S6b", "I4", "S6b", "I5"), true)
	e.literals()
	// several bindings alive at once: views, grown copies, two merges from one operand, everything re-read
	e.bindingHistories()
	// keys from equivalence classes of the key order, every insertion order
	e.keyClasses()
	// maps used as arguments of grol functions after pairs with unhashable values were cut off
	e.arguments()
	// whole programs read once at the end: in-place writes, values taken from inside functions
	e.programs()
	// index assignment replacing a value by an == but different one
	e.replaceEqual()
	// keys: 5 (quick) or 7 (thorough) distinct key classes of mixed types
	keys := musts("I1", "F3ff8000000000000", "S61", "N", "A[I1]")
	probes := musts("F3ff0000000000000", "I9") // 1.0: same class as 1; 9: never stored... unless set through it
	maxStates := 5000                          // the quick universe has 1348 reachable states, the thorough one 9220: the caps only bound a broken tree
	if c.Thorough() {
		maxStates = 40000
		keys = append(keys, musts("B1", "I2")...)
	}
	vals := musts("I7", "S78")
	operands := []op{
		opM('A', 0, "M{}"), opM('A', 9, "M{}"), opM('A', 0, "M{I1:S78}"), opM('A', 0, "M{S61:I7,N:I7}"),
		opM('A', 0, "M{F3ff0000000000000:S78,A[I1]:S78,I0:I7}"),
		opM('A', 0, "M{I1:I7,F3ff8000000000000:I7,S61:I7,N:I7,A[I1]:I7}"), opM('A', 9, "M{I1:I7,N:S78}"),
		opM('P', 0, "M{}"), opM('P', 9, "M{}"), opM('P', 0, "M{I1:S78,S61:S78}"),
		opM('P', 0, "M{I1:I7,F3ff8000000000000:I7,S61:I7,N:I7,A[I1]:I7}"), opM('P', 9, "M{N:S78}"),
		opM('Q', 0, "M{}"), opM('Q', 9, "M{}"), opM('Q', 0, "M{I1:I7}"), opM('Q', 0, "M{F3ff0000000000000:I7}"),
		opM('Q', 0, "M{I1:I7,S61:I7}"), opM('Q', 0, "M{I1:I7,F3ff8000000000000:I7,S61:I7,N:I7,A[I1]:I7}"),
	}
	st, tr := e.explore(keys, probes, vals, operands, maxStates)
	c.Extra["exhaustive"] = true
	c.Extra["states"] = st
	c.Extra["transitions"] = tr
	c.Extra["universe_keys"] = len(keys)
	// random long sequences, larger universe (numeric aliases, NaN, -0, nested arrays, maps as keys)
	pool := musts("I1", "F3ff0000000000000", "I2", "F4000000000000000", "F3ff8000000000000", "I0", "F8000000000000000", "F0000000000000000",
		"F7ff8000000000001", "F7ff0000000000000", "Ffff0000000000000", "I9007199254740993", "F4340000000000000", "I9007199254740992",
		"I-1", "S-", "S61", "S6162", "S62", "B0", "B1", "N", "A[]", "A[I1]", "A[F3ff0000000000000]", "A[I1,I2]", "A[A[I1]]", "M{}", "M{I1:I1}",
		"I-9223372036854775808", "I9223372036854775807", "F43e0000000000000")
	rvals := musts("I7", "S78", "N", "A[I1]", "F7ff8000000000001", "M{I1:I2}", "A[I1,I2,I3,I4,I5,I6,I7,I8,I9]")
	seqs, length := 60, 60
	if c.Thorough() {
		seqs, length = 3000, 120
	}
	e.doSource = true
	for i := 0; i < seqs && len(c.Failures) < 2000; i++ {
		e.randomSeq(pool, rvals, length)
	}
	var ds []string
	for k := range c.Dist {
		ds = append(ds, k)
	}
	sort.Strings(ds)
}

// replay: "MAP <n0> <path|-> <op>"
func c11Replay(e *explorer, cs string) {
	f := strings.Fields(cs)
	if len(f) >= 2 && f[0] == "PROG" {
		var ops []bop
		for _, t := range f[1:] {
			o, ok := parsePop(t)
			if !ok {
				fmt.Println("bad op", t)
				return
			}
			ops = append(ops, o)
		}
		e.program(ops)
		return
	}
	if len(f) >= 3 && f[0] == "BIND" {
		var ops []bop
		for _, t := range f[2:] {
			o, ok := parseBop(t)
			if !ok {
				fmt.Println("bad op", t)
				return
			}
			ops = append(ops, o)
		}
		e.bindings(ops)
		return
	}
	if len(f) != 4 || f[0] != "MAP" {
		fmt.Println("bad replay case")
		return
	}
	n0, _ := strconv.Atoi(f[1])
	var path []op
	if f[2] != "-" {
		for _, t := range strings.Split(f[2], ";") {
			o, ok := parseOp(t)
			if !ok {
				fmt.Println("bad op", t)
				return
			}
			path = append(path, o)
		}
	}
	o, ok := parseOp(f[3])
	if !ok {
		fmt.Println("bad op", f[3])
		return
	}
	e.keys = musts("I1", "F3ff8000000000000", "S61", "N", "A[I1]", "F3ff0000000000000", "I9", "B1", "I2", "I0", "F0000000000000000", "F8000000000000000")
	for _, p := range path { // and every key the history itself mentions
		if p.k != nil {
			e.keys = append(e.keys, p.k)
		}
	}
	_, obs := e.check(n0, path, o, func() string { return cs })
	fmt.Println("observation:", obs)
}
