package main

// C18: auto-save is crash-atomic.
//
// Fault enumeration on the REAL binary: for (previous state, new state) pairs of several sizes a child process
// (this binary in "child" mode, see child.go) runs a grol session in a scratch directory and dies / fails at an
// enumerated point of repl.AutoSave; the parent then looks at the directory.
//   * crash points through the build-tag hooks (VERIF_CRASH_AT=start|created|write#k[:n]|written|renamed),
//   * injected write errors through the hook (VERIF_FAIL_AT=write#k[:n]) and hook-free through
//     setrlimit(RLIMIT_FSIZE) / setrlimit(RLIMIT_NOFILE) and `strace -e inject=...:error=...`,
//   * hook-free crash points: `strace -f -e inject=<syscall>:signal=KILL:when=k` swept over the run, and SIGKILL
//     from the parent after a random delay.
// Direct oracle (model-free): .gr is byte-identical to the complete old or the complete new file, a failed save
// leaves it identical to the old one and reports the error, no file other than .grol*.tmp appears, other files are
// untouched, and a fresh session's AutoLoad of what is on disk reproduces the corresponding globals.
// Correspondence: the same scenario is given to the extracted Coq model (ocaml/drv_C18.ml), which predicts the
// contents of .gr and of the temporary file (exactly, for hook scenarios; as membership in its set of possible
// outcomes for the strace / timed sweeps, whose crash instant is not known to the parent).

import (
	"bufio"
	"bytes"
	"fmt"
	"os"
	"os/exec"
	"path/filepath"
	"sort"
	"strconv"
	"strings"
	"syscall"
	"time"

	"verifharness/common"
	. "verifharness/common"
)

func main() {
	if len(os.Args) > 1 && os.Args[1] == "child" {
		childMain(os.Args[2:])
		return
	}
	common.Main("C18", runC18)
}

const stateFile = ".gr"

type extraFile struct{ name, content string }

type pair struct {
	name   string
	hasOld bool
	oldSrc string // grol source of the session that produced the previous state file
	newSrc string // grol source of the session whose auto-save is interrupted (run after AutoLoad of the old file)
	extras []extraFile
	flags  []string // extra child flags for every session of this pair (e.g. maxlen=100)
	allW   bool     // sweep every write of the save also in the quick tier (states holding more than plain globals)
	oldRaw string   // when set: the previous state file is these bytes (it need not load cleanly), no old session is run
	// filled by prepare for oldRaw pairs: what a fresh session loads from the untouched previous file
	oldLoadDump []byte
	oldLoadErr  string
	// set for a session of a multi-save history: signature context ("after-<previous session's point>") and replay string
	histCtx    string
	replayCase string
	// filled by prepare
	oldBytes  []byte
	oldChunks [][]byte
	newBytes  []byte
	newChunks [][]byte
	ok        bool
}

type harness struct {
	c       *Ctx
	self    string
	scratch string // parent of all scratch directories (removed at the end)
	nDirs   int
	strace  string
	flags   []string // child flags of the pair being run (appended to every `session` invocation)
}

func (h *harness) mkdir() string {
	h.nDirs++
	d, err := os.MkdirTemp(h.scratch, fmt.Sprintf("d%04d-", h.nDirs))
	if err != nil {
		panic(err)
	}
	return d
}

type childResult struct {
	out     string
	lines   map[string]string // KEY -> rest (LOADERR, ERR, ERR2, CHUNKS, DUMP) ; flags SAVING, DONE
	killed  bool
	exit    int
	timeout bool
}

func parseOut(out string) map[string]string {
	m := map[string]string{}
	for _, l := range strings.Split(out, "\n") {
		l = strings.TrimSpace(l)
		if l == "" {
			continue
		}
		if k, v, ok := strings.Cut(l, "="); ok && !strings.Contains(k, " ") {
			m[k] = v
			continue
		}
		k, v, _ := strings.Cut(l, " ")
		m[k] = v
	}
	return m
}

// run starts `wrapper... self child args...` with extra environment; killAfter >= 0: SIGKILL the child that long
// after it printed SAVING.
func (h *harness) run(wrapper []string, env []string, killAfter time.Duration, args ...string) childResult {
	h.c.Eval()
	argv := append(append([]string{}, wrapper...), h.self, "child")
	argv = append(argv, args...)
	if len(args) > 0 && args[0] == "session" {
		argv = append(argv, h.flags...)
	}
	cmd := exec.Command(argv[0], argv[1:]...)
	cmd.Env = append(os.Environ(), env...)
	cmd.Stderr = nil
	var res childResult
	if killAfter < 0 {
		var buf bytes.Buffer
		cmd.Stdout = &buf
		if err := cmd.Start(); err != nil {
			panic(err)
		}
		done := make(chan error, 1)
		go func() { done <- cmd.Wait() }()
		select {
		case <-done:
		case <-time.After(60 * time.Second):
			_ = cmd.Process.Kill()
			<-done
			res.timeout = true
		}
		res.out = buf.String()
	} else {
		pipe, err := cmd.StdoutPipe()
		if err != nil {
			panic(err)
		}
		if err := cmd.Start(); err != nil {
			panic(err)
		}
		var sb strings.Builder
		rd := bufio.NewReader(pipe)
		for {
			line, err := rd.ReadString('\n')
			sb.WriteString(line)
			if strings.TrimSpace(line) == "SAVING" {
				if killAfter > 0 {
					time.Sleep(killAfter)
				}
				_ = cmd.Process.Kill()
			}
			if err != nil {
				break
			}
		}
		_ = cmd.Wait()
		res.out = sb.String()
	}
	res.lines = parseOut(res.out)
	if ps := cmd.ProcessState; ps != nil {
		if ws, ok := ps.Sys().(syscall.WaitStatus); ok {
			res.killed = ws.Signaled()
			res.exit = ws.ExitStatus()
		}
	}
	// under strace the tracer exits by re-raising the tracee's signal or with its status; treat "no DONE" as died
	if _, done := res.lines["DONE"]; !done && !res.killed && len(wrapper) > 0 {
		res.killed = true
	}
	return res
}

func parseChunks(s string) [][]byte {
	if s == "-" || s == "" {
		return nil
	}
	var out [][]byte
	for _, h := range strings.Split(s, ",") {
		out = append(out, Unhx(h))
	}
	return out
}

func joinChunks(ch [][]byte) []byte { return bytes.Join(ch, nil) }

type observation struct {
	gr      []byte
	hasGr   bool
	tmp     []byte
	hasTmp  bool
	nTmp    int
	extras  []string // content or "absent" per planted extra, hex
	garbage []string
}

func (h *harness) observe(dir string, p *pair) observation {
	var o observation
	ents, err := os.ReadDir(dir)
	if err != nil {
		panic(err)
	}
	planted := map[string]bool{}
	for _, e := range p.extras {
		planted[e.name] = true
	}
	for _, e := range ents {
		n := e.Name()
		switch {
		case n == stateFile:
			b, err := os.ReadFile(filepath.Join(dir, n))
			if err != nil {
				panic(err)
			}
			o.gr, o.hasGr = b, true
		case planted[n]:
		case strings.HasPrefix(n, ".grol") && strings.HasSuffix(n, ".tmp") && e.Type().IsRegular():
			b, err := os.ReadFile(filepath.Join(dir, n))
			if err != nil {
				panic(err)
			}
			o.nTmp++
			o.tmp, o.hasTmp = b, true
		default:
			o.garbage = append(o.garbage, n)
		}
	}
	for _, e := range p.extras {
		b, err := os.ReadFile(filepath.Join(dir, e.name))
		if err != nil {
			o.extras = append(o.extras, "absent")
		} else {
			o.extras = append(o.extras, Hx(b))
		}
	}
	return o
}

func optHex(b []byte, has bool) string {
	if !has {
		return "absent"
	}
	return Hx(b)
}

func (o observation) line(p *pair) string {
	ex := "none"
	if len(p.extras) > 0 {
		parts := make([]string, len(p.extras))
		for i, e := range p.extras {
			parts[i] = Hx([]byte(e.name)) + ":" + o.extras[i]
		}
		ex = strings.Join(parts, ",")
	}
	return fmt.Sprintf("GR=%s TMP=%s EX=%s", optHex(o.gr, o.hasGr), optHex(o.tmp, o.hasTmp), ex)
}

func (p *pair) caseHead() string {
	old := "absent"
	if p.hasOld {
		old = Hx(p.oldBytes)
	}
	ex := "none"
	if len(p.extras) > 0 {
		parts := make([]string, len(p.extras))
		for i, e := range p.extras {
			parts[i] = Hx([]byte(e.name)) + ":" + Hx([]byte(e.content))
		}
		ex = strings.Join(parts, ",")
	}
	bs := "none"
	if len(p.newChunks) > 0 {
		parts := make([]string, len(p.newChunks))
		for i, ch := range p.newChunks {
			parts[i] = Hx(ch)
		}
		bs = strings.Join(parts, ",")
	}
	return "AS " + old + " " + ex + " " + bs
}

// populate writes the previous state file and the planted files into a fresh scratch directory.
func (h *harness) populate(p *pair) string {
	dir := h.mkdir()
	if p.hasOld {
		if err := os.WriteFile(filepath.Join(dir, stateFile), p.oldBytes, 0o600); err != nil {
			panic(err)
		}
	}
	for _, e := range p.extras {
		if err := os.WriteFile(filepath.Join(dir, e.name), []byte(e.content), 0o600); err != nil {
			panic(err)
		}
	}
	return dir
}

// prepare runs the two sessions without interference and records the old / new files and the write chunks.
func (h *harness) prepare(p *pair) {
	c := h.c
	h.flags = p.flags
	defer func() { h.flags = nil }()
	dir := h.mkdir()
	defer os.RemoveAll(dir)
	if p.hasOld && p.oldRaw != "" {
		// a previous file some of whose lines do not load: what the untouched file loads to is the reference
		p.oldBytes = []byte(p.oldRaw)
		if err := os.WriteFile(filepath.Join(dir, stateFile), p.oldBytes, 0o600); err != nil {
			panic(err)
		}
		lr := h.run(nil, nil, -1, "load", dir)
		p.oldLoadDump, p.oldLoadErr = joinChunks(parseChunks(lr.lines["DUMP"])), lr.lines["LOADERR"]
		if _, ok := lr.lines["DUMP"]; !ok {
			c.Fail("reference-session-failed", p.name+" old-load", lr.out)
			return
		}
	} else if p.hasOld {
		r := h.run(nil, nil, -1, "session", dir, Hx([]byte(p.oldSrc)), "record")
		if r.lines["ERR"] != "0" {
			c.Fail("reference-session-failed", p.name+" old", r.out)
			return
		}
		p.oldChunks = parseChunks(r.lines["CHUNKS"])
		b, err := os.ReadFile(filepath.Join(dir, stateFile))
		if err != nil {
			c.Fail("reference-no-statefile", p.name+" old", err.Error())
			return
		}
		p.oldBytes = b
		if !bytes.Equal(b, joinChunks(p.oldChunks)) {
			c.Fail("statefile-differs-from-written-chunks", p.name+" old", fmt.Sprintf("file %q chunks %q", b, joinChunks(p.oldChunks)))
			return
		}
	}
	for _, e := range p.extras {
		if err := os.WriteFile(filepath.Join(dir, e.name), []byte(e.content), 0o600); err != nil {
			panic(err)
		}
	}
	r := h.run(nil, nil, -1, "session", dir, Hx([]byte(p.newSrc)), "record")
	wantLoadErr := "0"
	if p.oldRaw != "" {
		wantLoadErr = p.oldLoadErr
	}
	if r.lines["ERR"] != "0" || r.lines["LOADERR"] != wantLoadErr {
		c.Fail("reference-session-failed", p.name+" new", r.out)
		return
	}
	p.newChunks = parseChunks(r.lines["CHUNKS"])
	o := h.observe(dir, p)
	if !o.hasGr {
		c.Fail("reference-no-statefile", p.name+" new", r.out)
		return
	}
	p.newBytes = o.gr
	p.ok = true
	// the complete, undisturbed save is itself a case (scenario NONE)
	h.check(p, "none", dir, r, "NONE", "none")
}

// pointOf turns a scenario description into the crash/fault point class used in failure signatures
// (indices and byte counts dropped): crash:write#3:5 -> crash:write-torn, strace-kill:write:17 -> strace-kill:write.
func pointOf(desc string) string {
	kind, arg, _ := strings.Cut(desc, ":")
	switch kind {
	case "crash", "fail", "fail2":
		name, rest, _ := strings.Cut(arg, "#")
		if strings.Contains(rest, ":") {
			name += "-torn"
		}
		return kind + ":" + name
	case "strace-kill", "strace-err":
		return desc[:strings.LastIndex(desc, ":")]
	case "fsize", "timed":
		return kind
	}
	return desc
}

// globalsOnly drops comment lines from saved chunks: they define no global, so a reloaded state does not dump them
func globalsOnly(chunks [][]byte) [][]byte {
	var out [][]byte
	for _, ch := range chunks {
		if !bytes.HasPrefix(ch, []byte("//")) {
			out = append(out, ch)
		}
	}
	return out
}

func classify(o observation, p *pair) string {
	isOld := (!p.hasOld && !o.hasGr) || (p.hasOld && o.hasGr && bytes.Equal(o.gr, p.oldBytes))
	isNew := o.hasGr && bytes.Equal(o.gr, p.newBytes)
	switch {
	case isOld && isNew:
		return "both"
	case isOld:
		return "old"
	case isNew:
		return "new"
	case !o.hasGr:
		return "missing"
	case len(o.gr) == 0:
		return "empty"
	case bytes.HasPrefix(p.newBytes, o.gr):
		return "truncated-new"
	case len(p.newBytes) > 0 && bytes.HasPrefix(o.gr, p.newBytes):
		return "new-plus-stale-tail" // the complete new state followed by bytes that belong to no committed state
	case p.hasOld && bytes.HasPrefix(p.oldBytes, o.gr):
		return "truncated-old"
	}
	return "mixed"
}

// check applies the direct oracle to what is in dir after scenario `desc` and registers the correspondence case.
// kind: none | crash | fault | fault2 | unchanged | disabled | member | fmember
func (h *harness) check(p *pair, desc, dir string, r childResult, modelScen, kind string) {
	c := h.c
	if r.timeout { // the machine is overloaded: no verdict from this child (counted, not a property failure)
		c.Count("harness-child-timeout")
		return
	}
	o := h.observe(dir, p)
	replay := p.name + " " + desc
	point := pointOf(desc)
	if p.replayCase != "" {
		replay = p.replayCase
	}
	if p.histCtx != "" {
		point = "history:" + point + "-" + p.histCtx
	}
	cls := classify(o, p)
	_, done := r.lines["DONE"]
	// 1. the state file is the complete old or the complete new version
	if cls != "old" && cls != "new" && cls != "both" {
		c.Fail("statefile-"+cls+"@"+point, replay, fmt.Sprintf("state file after %s is %q; old=%q(present=%v) new=%q", desc, o.gr, p.oldBytes, p.hasOld, p.newBytes))
	}
	// 2. nothing else appears or changes
	if len(o.garbage) > 0 {
		c.Fail("garbage-file@"+point, replay, fmt.Sprintf("unexpected files %q", o.garbage))
	}
	if o.nTmp > 1 {
		c.Fail("several-temp-files@"+point, replay, fmt.Sprintf("%d new temporary files", o.nTmp))
	}
	for i, e := range p.extras {
		if o.extras[i] != Hx([]byte(e.content)) {
			c.Fail("other-file-changed@"+point, replay, fmt.Sprintf("%s is now %s", e.name, o.extras[i]))
		}
	}
	if o.hasTmp && !bytes.HasPrefix(p.newBytes, o.tmp) {
		c.Fail("temp-not-prefix-of-new@"+point, replay, fmt.Sprintf("temp %q new %q", o.tmp, p.newBytes))
	}
	// 3. scenario specific
	switch kind {
	case "none":
		if !done || r.lines["ERR"] != "0" || cls == "old" || o.hasTmp {
			c.Fail("complete-save-not-new@"+point, replay, r.out+o.line(p))
		}
	case "crash":
		if done {
			c.Fail("crashpoint-not-reached@"+point, replay, "child finished: "+r.out)
		}
	case "fault", "fault2":
		if !done || r.lines["ERR"] != "1" {
			c.Fail("fault-not-reported@"+point, replay, r.out)
		}
		if cls != "old" && cls != "both" {
			c.Fail("fault-damaged-statefile@"+point, replay, fmt.Sprintf("state file %q old %q", o.gr, p.oldBytes))
		}
	case "unchanged", "disabled":
		if !done || r.lines["ERR"] != "0" || (cls != "old" && cls != "both") || o.hasTmp {
			c.Fail("skipped-save-touched-files@"+point, replay, r.out+o.line(p))
		}
	case "fmember":
		if done && r.lines["ERR"] == "1" && cls != "old" && cls != "both" {
			c.Fail("fault-damaged-statefile@"+point, replay, fmt.Sprintf("state file %q old %q", o.gr, p.oldBytes))
		}
	}
	// 4. what the next session auto-loads
	want := p.newChunks
	if cls == "old" {
		want = p.oldChunks
	}
	wantDump, wantErr := joinChunks(globalsOnly(want)), "0"
	if p.oldRaw != "" && o.hasGr && bytes.Equal(o.gr, p.oldBytes) { // the untouched previous file loads exactly as it did before (errors included)
		wantDump, wantErr = p.oldLoadDump, p.oldLoadErr
	}
	if cls == "old" || cls == "new" || cls == "both" {
		lr := h.run(nil, nil, -1, "load", dir)
		if lr.lines["LOADERR"] != wantErr || !bytes.Equal(joinChunks(parseChunks(lr.lines["DUMP"])), wantDump) {
			c.Fail("autoload-differs@"+point, replay, fmt.Sprintf("loaded %q want %q (LOADERR=%s want %s)", joinChunks(parseChunks(lr.lines["DUMP"])), wantDump, lr.lines["LOADERR"], wantErr))
		}
	}
	// correspondence case
	obs := o.line(p)
	switch kind {
	case "none", "fault", "unchanged", "disabled":
		obs += " ERR=" + r.lines["ERR"]
	case "fault2":
		obs += " ERR=" + r.lines["ERR"] + " ERR2=" + r.lines["ERR2"]
	case "member":
		modelScen = "MEMBER " + optHex(o.gr, o.hasGr) + " " + optHex(o.tmp, o.hasTmp)
		obs = "IN=1"
	case "fmember":
		e := "0"
		if r.lines["ERR"] == "1" {
			e = "1"
		}
		if !done { // died instead of returning: only possible for a kill sweep
			modelScen = "MEMBER " + optHex(o.gr, o.hasGr) + " " + optHex(o.tmp, o.hasTmp)
		} else {
			modelScen = "FMEMBER " + optHex(o.gr, o.hasGr) + " " + optHex(o.tmp, o.hasTmp) + " " + e
		}
		obs = "IN=1"
	}
	c.Case(p.caseHead()+" "+modelScen, obs)
	c.Count("scenario=" + strings.SplitN(desc, ":", 2)[0])
	c.Count("statefile=" + cls)
	if o.hasTmp && (cls == "old" || cls == "both") {
		c.NonTrivial(p.name + "|" + desc)
	}
}

// ---- one scenario, described by a string (also the replay format):
//   crash:<point>            VERIF_CRASH_AT=<point>          point = start#1 | created#1 | write#k | write#k:n | written#1 | renamed#1
//   fail:write#k[:n]         VERIF_FAIL_AT                    (hook)
//   fail2:write#k[:n]        same, and AutoSave is called a second time
//   nofile                   setrlimit(NOFILE): CreateTemp fails      (hook-free)
//   fsize:<L>                setrlimit(FSIZE, L): the write reaching byte L fails     (hook-free)
//   unchanged | disabled | readonly | none
//   strace-kill:<syscalls>:<k>     strace -e inject=<syscalls>:signal=KILL:when=k      (hook-free)
//   strace-err:<syscalls>:<errno>:<k>   strace -e inject=<syscalls>:error=<errno>:when=k
//   timed:<microseconds>     SIGKILL from the parent that long after the child announced the save
func (h *harness) scenario(p *pair, desc string) {
	if !p.ok {
		return
	}
	dir := h.populate(p)
	defer os.RemoveAll(dir)
	h.scenarioIn(p, desc, dir)
}

// scenarioIn runs the session of p with scenario desc in an existing directory (one session of a history)
func (h *harness) scenarioIn(p *pair, desc, dir string) {
	h.flags = p.flags
	defer func() { h.flags = nil }()
	n := len(p.newChunks)
	src := Hx([]byte(p.newSrc))
	kind, arg, _ := strings.Cut(desc, ":")
	switch kind {
	case "none": // an undisturbed session
		r := h.run(nil, nil, -1, "session", dir, src, "record")
		h.check(p, desc, dir, r, "NONE", "none")
	case "crash":
		name, rest, _ := strings.Cut(arg, "#")
		var k, torn int
		switch name {
		case "start":
			k = 0
		case "created":
			k = 1
		case "written":
			k = 1 + n
		case "renamed":
			k = 2 + n
		case "write":
			js, ts, hasT := strings.Cut(rest, ":")
			j, _ := strconv.Atoi(js)
			if hasT {
				k = j
				torn, _ = strconv.Atoi(ts)
			} else {
				k = 1 + j
			}
		}
		r := h.run(nil, []string{"VERIF_CRASH_AT=" + arg}, -1, "session", dir, src)
		h.check(p, desc, dir, r, fmt.Sprintf("CRASH %d %d", k, torn), "crash")
	case "fail", "fail2":
		_, rest, _ := strings.Cut(arg, "#")
		js, ts, _ := strings.Cut(rest, ":")
		j, _ := strconv.Atoi(js)
		part, _ := strconv.Atoi(ts)
		args := []string{"session", dir, src}
		scen, kd := fmt.Sprintf("FAULT %d %d", j, part), "fault"
		if kind == "fail2" {
			args = append(args, "second")
			scen, kd = fmt.Sprintf("FAULT2 %d %d", j, part), "fault2"
		}
		r := h.run(nil, []string{"VERIF_FAIL_AT=" + arg}, -1, args...)
		h.check(p, desc, dir, r, scen, kd)
	case "nofile":
		r := h.run(nil, nil, -1, "session", dir, src, "nofile=0")
		h.check(p, desc, dir, r, "FAULT 0 0", "fault")
	case "fsize":
		L, _ := strconv.Atoi(arg)
		// the write that would pass byte L stores what fits and fails
		acc, idx, part := 0, -1, 0
		for i, ch := range p.newChunks {
			if acc+len(ch) > L {
				idx, part = i+1, L-acc
				break
			}
			acc += len(ch)
		}
		if idx < 0 {
			return // limit beyond the file: no fault
		}
		r := h.run(nil, nil, -1, "session", dir, src, "fsize="+arg)
		h.check(p, desc, dir, r, fmt.Sprintf("FAULT %d %d", idx, part), "fault")
	case "unchanged": // a session that sets nothing: the crash point `start` must never be reached
		r := h.run(nil, []string{"VERIF_CRASH_AT=start#1"}, -1, "session", dir, Hx(nil))
		h.checkSkip(p, desc, dir, r, "UNCHANGED", "unchanged")
	case "readonly": // a session that only reads globals
		r := h.run(nil, []string{"VERIF_CRASH_AT=start#1"}, -1, "session", dir, Hx([]byte("1+1\nlen(\"abc\")")))
		h.checkSkip(p, desc, dir, r, "UNCHANGED", "unchanged")
	case "disabled":
		r := h.run(nil, []string{"VERIF_CRASH_AT=start#1"}, -1, "session", dir, src, "noauto")
		h.checkSkip(p, desc, dir, r, "DISABLED", "disabled")
	case "strace-kill":
		sys, ks, _ := strings.Cut(arg, ":")
		r := h.run([]string{h.strace, "-f", "-o", "/dev/null", "-e", "trace=" + sys, "-e", "inject=" + sys + ":signal=KILL:when=" + ks}, nil, -1, "session", dir, src)
		h.check(p, desc, dir, r, "", "fmember")
	case "strace-err":
		f := strings.Split(arg, ":")
		r := h.run([]string{h.strace, "-f", "-o", "/dev/null", "-e", "trace=" + f[0], "-e", "inject=" + f[0] + ":error=" + f[1] + ":when=" + f[2]}, nil, -1, "session", dir, src)
		h.check(p, desc, dir, r, "", "fmember")
	case "timed":
		us, _ := strconv.Atoi(arg)
		r := h.run(nil, nil, time.Duration(us)*time.Microsecond, "session", dir, src)
		h.check(p, desc, dir, r, "", "fmember")
	default:
		panic("bad scenario " + desc)
	}
}

// a skipped save: "old" for the oracle is the previous file and the session has no new state
func (h *harness) checkSkip(p *pair, desc, dir string, r childResult, scen, kind string) {
	q := *p
	if kind == "unchanged" { // nothing was set: the state to be saved equals the loaded one
		q.newChunks, q.newBytes = p.oldChunks, p.oldBytes
	}
	h.check(&q, desc, dir, r, scen, kind)
}

// ---- multi-save histories: 2..4 sessions in ONE directory; some saves are interrupted or fail, later ones complete.
// Oracle after every session (through check): .gr is byte-equal to the last COMMITTED state - after a completed save
// that is exactly what SaveGlobals writes for the state of that session, computed in a clean control directory holding
// only the committed file (so nothing of an aborted save, no residue of a stale temporary file, can be part of it) -,
// stale temporary files of earlier aborted saves are not touched, and a restart auto-loads exactly the committed globals.
// A session is "<hex source>/<scenario>"; scenario templates use MID / LAST (write index) and HALF / MOST (byte count),
// resolved against the chunks of that session's state.
type histSession struct{ src, scen string }

func resolveScen(t string, chunks [][]byte) string {
	n := len(chunks)
	mid, last := (n+1)/2, n
	if mid < 1 {
		mid = 1
	}
	total := 0
	for _, ch := range chunks {
		total += len(ch)
	}
	widx := mid
	if strings.Contains(t, "#LAST") {
		widx = last
	}
	half := 0
	if widx >= 1 && widx <= n {
		half = len(chunks[widx-1]) / 2
	}
	if strings.HasPrefix(t, "fsize:") {
		t = strings.Replace(t, "HALF", strconv.Itoa(total/2), 1)
		t = strings.Replace(t, "MOST", strconv.Itoa(total-1), 1)
		return t
	}
	t = strings.Replace(t, "MID", strconv.Itoa(mid), 1)
	t = strings.Replace(t, "LAST", strconv.Itoa(last), 1)
	t = strings.Replace(t, "HALF", strconv.Itoa(half), 1)
	// a literal write index beyond this state's number of writes means its last write
	if pre, rest, ok := strings.Cut(t, "write#"); ok && n > 0 {
		ks, tail, hasTail := strings.Cut(rest, ":")
		if k, err := strconv.Atoi(ks); err == nil && k > n {
			t = pre + "write#" + strconv.Itoa(n)
			if hasTail {
				t += ":" + tail
			}
		}
	}
	return t
}

func histSpec(ss []histSession) string {
	parts := make([]string, len(ss))
	for i, x := range ss {
		parts[i] = Hx([]byte(x.src)) + "/" + x.scen
	}
	return "history " + strings.Join(parts, ";")
}

func parseHist(spec string) []histSession {
	var out []histSession
	for _, part := range strings.Split(strings.TrimPrefix(spec, "history "), ";") {
		hs, sc, ok := strings.Cut(part, "/")
		if !ok {
			return nil
		}
		out = append(out, histSession{string(Unhx(hs)), sc})
	}
	return out
}

func (h *harness) history(name string, sessions []histSession) {
	c := h.c
	dir := h.mkdir()
	defer os.RemoveAll(dir)
	var committed []byte
	var committedChunks [][]byte
	hasCommitted := false
	ctx := "after-none"
	var done []histSession
	for i, ss := range sessions {
		// what this session's state serialises to, from a clean control directory holding only the committed file
		ctl := h.mkdir()
		if hasCommitted {
			if err := os.WriteFile(filepath.Join(ctl, stateFile), committed, 0o600); err != nil {
				panic(err)
			}
		}
		cr := h.run(nil, nil, -1, "session", ctl, Hx([]byte(ss.src)), "record")
		ctlGr, err := os.ReadFile(filepath.Join(ctl, stateFile))
		os.RemoveAll(ctl)
		if cr.timeout {
			c.Count("harness-child-timeout")
			return
		}
		newChunks := parseChunks(cr.lines["CHUNKS"])
		if err != nil || cr.lines["ERR"] != "0" || cr.lines["LOADERR"] != "0" || !bytes.Equal(ctlGr, joinChunks(newChunks)) {
			c.Fail("history-control-session-failed", histSpec(append(done, ss)), cr.out)
			return
		}
		scen := resolveScen(ss.scen, newChunks)
		done = append(done, histSession{ss.src, scen})
		// every other file present before the session (stale temporary files of aborted saves) must stay as it is
		var extras []extraFile
		ents, _ := os.ReadDir(dir)
		for _, e := range ents {
			if e.Name() == stateFile {
				continue
			}
			b, err := os.ReadFile(filepath.Join(dir, e.Name()))
			if err != nil {
				panic(err)
			}
			extras = append(extras, extraFile{e.Name(), string(b)})
		}
		q := &pair{name: fmt.Sprintf("%s.s%d", name, i+1), hasOld: hasCommitted, newSrc: ss.src, extras: extras,
			oldBytes: committed, oldChunks: committedChunks, newBytes: ctlGr, newChunks: newChunks, ok: true,
			histCtx: ctx, replayCase: histSpec(done)}
		if strings.HasPrefix(scen, "fsize:") { // a limit at or beyond the file size is no fault
			if L, _ := strconv.Atoi(strings.TrimPrefix(scen, "fsize:")); L >= len(ctlGr) {
				scen = "none"
				done[len(done)-1].scen = scen
				q.replayCase = histSpec(done)
			}
		}
		nf := len(c.Failures)
		h.scenarioIn(q, scen, dir)
		c.Count("history-session=" + strings.SplitN(scen, ":", 2)[0])
		if len(c.Failures) > nf {
			return // the first failing session is the finding; later ones would only echo it
		}
		if scen == "none" || strings.HasPrefix(scen, "crash:renamed") {
			committed, committedChunks, hasCommitted = ctlGr, newChunks, true
		}
		ctx = "after-" + pointOf(scen)
	}
	c.Count("histories")
}

var abortTemplates = []string{
	// those that leave the most bytes in the temporary file first
	"crash:written#1", "crash:write#LAST", "fsize:MOST", "fail:write#LAST:HALF", "crash:write#MID:HALF", "crash:write#MID",
	"fail:write#MID", "fsize:HALF", "crash:write#1", "crash:created#1", "nofile", "crash:start#1", "crash:renamed#1",
}

func (h *harness) histories(thorough bool) {
	small, short := "a=1", "b=2"
	big := manyBindings("z", 40, 24, "zq")
	big2 := manyBindings("z", 25, 40, "ZQ") + "k=[1,2,3]"
	longer := manyBindings("y", 60, 30, "yl")
	shrink := "del(z000);del(z001);del(z002);del(z003);del(z004);del(z005);del(z006);del(z007);del(z008);del(z009);del(z010);del(z011);z012=0"
	templates := abortTemplates
	if thorough { // every write of the interrupted save, whole and torn
		for k := 1; k <= 41; k++ {
			templates = append(templates, fmt.Sprintf("crash:write#%d", k), fmt.Sprintf("fail:write#%d:7", k), fmt.Sprintf("crash:write#%d:11", k))
		}
		for L := 0; L < 1400; L += 97 {
			templates = append(templates, fmt.Sprintf("fsize:%d", L))
		}
	}
	for i, ab := range templates {
		// an interrupted / failed save of a large state, then a complete save of a SHORTER state, then of a longer one
		h.history(fmt.Sprintf("hA%d", i), []histSession{{small, "none"}, {big, ab}, {short, "none"}, {longer, "none"}})
		// ... then a complete save of a LONGER state, then a shrinking one
		h.history(fmt.Sprintf("hB%d", i), []histSession{{small, "none"}, {big, ab}, {longer, "none"}, {"del(y000);del(y001);y002=1", "none"}})
	}
	few := []string{"crash:write#MID:HALF", "fsize:MOST", "crash:written#1", "fail:write#LAST"}
	if thorough {
		few = templates
	}
	for i, ab := range few {
		// the interrupted save is the very first one (no state file yet)
		h.history(fmt.Sprintf("hE%d", i), []histSession{{big, ab}, {short, "none"}})
		// large committed state, interrupted rewrite, then a save that shrinks the state
		h.history(fmt.Sprintf("hC%d", i), []histSession{{big, "none"}, {big2, ab}, {shrink, "none"}})
		// two aborted saves in a row (different points), then a short and a long complete save
		h.history(fmt.Sprintf("hD%d", i), []histSession{{small, "none"}, {big, ab}, {big2, few[(i+1)%len(few)]}, {short, "none"}})
	}
}

// every system call that renames, links or unlinks a name; each OCCURRENCE in the reference run (when=1..total) gets
// its own kill and its own injected failure
const (
	renameCalls = "renameat,renameat2"
	unlinkCalls = "unlinkat,unlink,rmdir,linkat,link,symlinkat,symlink,rename"
)

// ---- syscall positions of the save path, from a reference run under strace
type tracePos struct {
	before map[string]int // per syscall class: calls of the main thread before the SAVING marker
	total  map[string]int
}

func (h *harness) traceRef(p *pair) (tracePos, bool) {
	tp := tracePos{map[string]int{}, map[string]int{}}
	dir := h.populate(p)
	defer os.RemoveAll(dir)
	tf := filepath.Join(h.scratch, "trace.txt")
	defer os.Remove(tf)
	r := h.run([]string{h.strace, "-f", "-o", tf, "-e", "trace=write,openat,"+renameCalls+","+unlinkCalls}, nil, -1, "session", dir, Hx([]byte(p.newSrc)))
	if _, ok := r.lines["DONE"]; !ok {
		return tp, false
	}
	b, err := os.ReadFile(tf)
	if err != nil {
		return tp, false
	}
	lines := strings.Split(string(b), "\n")
	mainPid := ""
	seen := false
	for _, l := range lines {
		f := strings.SplitN(l, " ", 2)
		if len(f) < 2 {
			continue
		}
		if mainPid == "" {
			mainPid = f[0]
		}
		if f[0] != mainPid {
			continue
		}
		rest := strings.TrimSpace(f[1])
		cls := ""
		switch {
		case strings.HasPrefix(rest, "write("):
			cls = "write"
		case strings.HasPrefix(rest, "openat("):
			cls = "openat"
		case strings.HasPrefix(rest, "rename"):
			cls = renameCalls
		case strings.HasPrefix(rest, "unlink"), strings.HasPrefix(rest, "rmdir("), strings.HasPrefix(rest, "link"), strings.HasPrefix(rest, "symlink"):
			cls = unlinkCalls
		default:
			continue
		}
		tp.total[cls]++
		if !seen {
			tp.before[cls]++
		}
		if cls == "write" && strings.Contains(rest, "\"SAVING\\n\"") {
			seen = true
		}
	}
	return tp, seen
}

// ---- the state pairs
func manyBindings(prefix string, n, valLen int, salt string) string {
	var sb strings.Builder
	for i := 0; i < n; i++ {
		fmt.Fprintf(&sb, "%s%03d=\"%s\"\n", prefix, i, strings.Repeat(salt, valLen/len(salt)+1)[:valLen])
	}
	return sb.String()
}

func manyMacros(n int) string {
	var sb strings.Builder
	for i := 1; i <= n; i++ {
		fmt.Fprintf(&sb, "m%02d=macro(x){quote(unquote(x)+%d)}\n", i, i)
	}
	return sb.String()
}

func basePairs() []*pair {
	return []*pair{
		{name: "absent-to-1", hasOld: false, newSrc: "a=1"},
		{name: "1-to-1", hasOld: true, oldSrc: "a=1", newSrc: "a=2"},
		{name: "small-to-small", hasOld: true, oldSrc: "a=1\nb=\"hello\"\nfunc f(x){x+1}\nm={1:2,\"a\":[1,2,3]}",
			newSrc: "a=2\nc=[1,2,3]\ng=func(x,y){x*y}"},
		{name: "1-to-0", hasOld: true, oldSrc: "a=1", newSrc: "del(a)"},
		{name: "0-to-2", hasOld: true, oldSrc: "a=1\ndel(a)", newSrc: "b=2\nc=\"x\""},
		{name: "same-value", hasOld: true, oldSrc: "a=1\nb=[1,2]", newSrc: "a=1"},
		{name: "many-to-many", hasOld: true, oldSrc: manyBindings("v", 40, 12, "ab"), newSrc: manyBindings("v", 7, 20, "xyz") + manyBindings("w", 5, 3, "q") + "del(v039)"},
		{name: "large-values", hasOld: true, oldSrc: "s=\"0123456789abcdef\"*4096\nt=1", newSrc: "s=\"fedcba9876543210\"*4096\narr=[1,2,3,4,5,6,7,8]*700\nt=2"},
		{name: "shrinking", hasOld: true, oldSrc: manyBindings("k", 12, 30, "old"), newSrc: "del(k000);del(k001);del(k002);del(k003);del(k004);del(k005);del(k006);del(k007);del(k008);del(k009);k011=1"},
		// a value longer than the save limit is left out of the file (and nothing else is written for it)
		{name: "over-limit", hasOld: true, oldSrc: "a=1\nc=0", newSrc: "c=3\nbig=\"y\"*300\nd=4\nfunc h(x){x}", flags: []string{"maxlen=100"}},
		// what a State holds beyond plain globals: macros (few; many, more than globals), functions made by / using macros,
		// lambdas, nested data.  Whatever SaveGlobals writes for them, every one of its writes is a fault point.
		{name: "macros-few", hasOld: true, allW: true, oldSrc: "a=1\nm1=macro(x){quote(unquote(x)+1)}",
			newSrc: "a=5\nm1=macro(x){quote(unquote(x)+1)}\nm2=macro(x,y){quote(unquote(x)*unquote(y))}\nb=m1(a)\nfunc viaMacro(v){m2(v,3)}\nc=viaMacro(2)"},
		{name: "macros-many", hasOld: true, allW: true, oldSrc: "a=1\n" + manyMacros(12),
			newSrc: "a=5\n" + manyMacros(12) + "g=func(y){m03(y)+m11(y)}\nfunc h(x){x}\nl=(p,q)=>p+q\nnested={\"k\":[1,{2:3}],\"f\":1.5}"},
		// previous files with lines that do NOT load (a corrupted line in the middle, a value that does not read back:
		// an extension value, a quoted tree printed over two lines, an unknown identifier): code that depends on load
		// errors runs in the session whose save is interrupted
		{name: "dirty-old", hasOld: true, allW: true,
			oldRaw: "a=1\nb=2\nr=rand([integer])\nq=quote(if x {\n1})\nbroken=)(\nz=9\n", newSrc: "c=3\ndel(b)"},
		{name: "dirty-old-only-garbage", hasOld: true, oldRaw: "\x00\xff not grol at all\n===\n", newSrc: "k=1"},
		{name: "leftovers", hasOld: true, oldSrc: "a=1\nb=\"hello\"", newSrc: "a=3\nz=[4,5]",
			extras: []extraFile{{".grol111.tmp", "a=0\nb=\"hel"}, {"notes.txt", "keep me\n"}, {".grol", "x"}}},
	}
}

func pick(n, max int) []int { // up to max indices 1..n, spread: first, second, middle, last
	if n <= max {
		out := make([]int, n)
		for i := range out {
			out[i] = i + 1
		}
		return out
	}
	set := map[int]bool{1: true, 2: true, n: true, n / 2: true, n - 1: true}
	var out []int
	for i := range set {
		if i >= 1 && i <= n {
			out = append(out, i)
		}
	}
	sort.Ints(out)
	if len(out) > max {
		out = out[:max]
	}
	return out
}

func tornPoints(l int, all bool) []int {
	if all && l <= 64 {
		out := make([]int, l+1)
		for i := range out {
			out[i] = i
		}
		return out
	}
	set := map[int]bool{0: true, 1: true, l / 2: true, l - 1: true, l: true}
	if l > 8192 {
		set[4096] = true
		set[4097] = true
	}
	var out []int
	for i := range set {
		if i >= 0 && i <= l {
			out = append(out, i)
		}
	}
	sort.Ints(out)
	return out
}

func (h *harness) hookSweep(p *pair, thorough bool) {
	if !p.ok {
		return
	}
	n := len(p.newChunks)
	maxW := 8
	if thorough || p.allW {
		maxW = 1000
	}
	h.scenario(p, "crash:start#1")
	h.scenario(p, "crash:created#1")
	for _, j := range pick(n, maxW) {
		h.scenario(p, fmt.Sprintf("crash:write#%d", j))
	}
	tw := pick(n, 2)
	if thorough {
		tw = pick(n, 6)
	}
	for _, j := range tw {
		for _, t := range tornPoints(len(p.newChunks[j-1]), thorough) {
			h.scenario(p, fmt.Sprintf("crash:write#%d:%d", j, t))
		}
	}
	h.scenario(p, "crash:written#1")
	h.scenario(p, "crash:renamed#1")
	// faults
	h.scenario(p, "nofile")
	for _, j := range pick(n, maxW) {
		h.scenario(p, fmt.Sprintf("fail:write#%d", j))
	}
	for _, j := range tw {
		for _, t := range tornPoints(len(p.newChunks[j-1]), false) {
			h.scenario(p, fmt.Sprintf("fail:write#%d:%d", j, t))
		}
	}
	if n > 0 {
		h.scenario(p, "fail2:write#1")
		total := len(p.newBytes)
		done := map[int]bool{}
		for _, L := range tornPoints(total-1, false) {
			done[L] = true
			h.scenario(p, fmt.Sprintf("fsize:%d", L))
		}
		// the hook counts the writes of ONE Environment.SaveGlobals call; the file-size limit counts bytes of the whole
		// temporary file, so it reaches every write the save makes, whoever makes it: one failure at the start and one in
		// the middle of each write of the reference run
		acc := 0
		for j, ch := range p.newChunks {
			sel := false
			for _, x := range pick(n, maxW) {
				sel = sel || x == j+1
			}
			if sel {
				for _, L := range []int{acc, acc + len(ch)/2} {
					if !done[L] && L < total {
						done[L] = true
						h.scenario(p, fmt.Sprintf("fsize:%d", L))
					}
				}
			}
			acc += len(ch)
		}
	}
	h.scenario(p, "unchanged")
	h.scenario(p, "readonly")
	h.scenario(p, "disabled")
}

// hook-free sweeps with strace: kill at the k-th call of each class, and make the k-th call fail
func (h *harness) straceSweep(p *pair, whole bool) {
	if !p.ok || h.strace == "" {
		return
	}
	tp, ok := h.traceRef(p)
	for try := 0; !ok && try < 3; try++ {
		tp, ok = h.traceRef(p)
	}
	if !ok {
		h.c.Fail("strace-reference-run-failed", p.name+" strace-ref", "no SAVING marker / child did not finish under strace")
		return
	}
	for _, sys := range []string{"write", "openat", renameCalls, unlinkCalls} {
		if tp.total[sys] == 0 && sys != renameCalls { // no such call in the reference run of this tree
			continue
		}
		from := tp.before[sys] // the call just before the save path, then every call of the save path, then one beyond
		if whole {
			from = 1
		}
		if from < 1 {
			from = 1
		}
		for k := from; k <= tp.total[sys]+1; k++ {
			h.scenario(p, fmt.Sprintf("strace-kill:%s:%d", sys, k))
		}
		// failing calls: only inside the save path (a failing call earlier changes what the session loads)
		errno := map[string]string{"write": "ENOSPC", "openat": "EMFILE", renameCalls: "EIO", unlinkCalls: "EIO"}[sys]
		for k := tp.before[sys] + 1; k <= tp.total[sys]+1; k++ {
			if sys == "write" && k > tp.total[sys]-2 { // the last two writes are the child's ERR / DONE lines on stdout
				break
			}
			h.scenario(p, fmt.Sprintf("strace-err:%s:%s:%d", sys, errno, k))
		}
	}
}

func failRank(sig string) int {
	switch {
	case strings.HasPrefix(sig, "statefile-"):
		return 0
	case strings.HasPrefix(sig, "fault-damaged-statefile"), strings.HasPrefix(sig, "autoload-differs"):
		return 1
	}
	return 2
}

func runC18(c *Ctx) {
	c.Rule = "child process per (state pair, crash point | fault point): hook crash points start/created/write#k/write#k:n(torn)/written/renamed, " +
		"hook and hook-free (RLIMIT_FSIZE, RLIMIT_NOFILE, strace error injection) failing calls, strace SIGKILL at the k-th write/openat/renameat, timed SIGKILL; " +
		"multi-save histories (2-4 sessions in one directory, a save aborted at each point followed by complete saves of shorter and longer states, oracle after every session against a clean control); " +
		"non-trivial = distinct (pair, point) after which a temporary file was on disk beside the intact previous state file"
	self, err := os.Executable()
	if err != nil {
		panic(err)
	}
	if err := os.MkdirAll(c.Out, 0o755); err != nil {
		panic(err)
	}
	scratch, err := os.MkdirTemp(c.Out, "scratch-")
	if err != nil {
		panic(err)
	}
	defer os.RemoveAll(scratch)
	h := &harness{c: c, self: self, scratch: scratch}
	if st, err := exec.LookPath("strace"); err == nil {
		h.strace = st
	}
	pairs := basePairs()
	byName := map[string]*pair{}
	for _, p := range pairs {
		byName[p.name] = p
	}
	if strings.HasPrefix(c.ReplayCase, "history ") {
		if ss := parseHist(c.ReplayCase); ss != nil {
			h.history("replay", ss)
		} else {
			fmt.Println("bad replay case (want: history <hexsrc>/<scenario>;...)")
		}
		return
	}
	if c.ReplayCase != "" {
		f := strings.SplitN(c.ReplayCase, " ", 2)
		p := byName[f[0]]
		if p == nil || len(f) < 2 {
			fmt.Println("bad replay case (want: <pair name> <scenario>)")
			return
		}
		h.prepare(p)
		h.scenario(p, f[1])
		return
	}
	for _, p := range pairs {
		h.prepare(p)
	}
	for _, p := range pairs {
		h.hookSweep(p, c.Thorough())
	}
	h.histories(c.Thorough())
	if h.strace == "" {
		c.Fail("strace-unavailable", "-", "strace not found: hook-free sweeps not run")
	}
	// hook-free: quick = the save path of one pair; thorough = the whole run of several pairs
	if !c.Thorough() {
		h.straceSweep(byName["small-to-small"], false)
		h.straceSweep(byName["macros-many"], false)
		h.straceSweep(byName["dirty-old"], false)
		for i := 0; i < 8; i++ {
			h.scenario(byName["many-to-many"], fmt.Sprintf("timed:%d", c.R.Intn(400)))
		}
	} else {
		for _, n := range []string{"small-to-small", "absent-to-1", "1-to-0", "leftovers", "dirty-old"} {
			h.straceSweep(byName[n], true)
		}
		h.straceSweep(byName["many-to-many"], false)
		// random pairs through the hooks
		for i := 0; i < 12; i++ {
			nOld, nNew := c.R.Intn(6), 1+c.R.Intn(6)
			p := &pair{name: fmt.Sprintf("random-%d", i), hasOld: nOld > 0 || c.R.Bool(),
				oldSrc: manyBindings("r", nOld, 1+c.R.Intn(40), "pq") + "zz=0\ndel(zz)", newSrc: manyBindings("r", nNew, 1+c.R.Intn(40), "uv") + manyBindings("n", c.R.Intn(3), 1+c.R.Intn(300), "w")}
			h.prepare(p)
			h.hookSweep(p, true)
		}
		// timed kills on a state with many bindings (300 writes: the save takes a few hundred microseconds)
		tp := &pair{name: "timed-many", hasOld: true, oldSrc: manyBindings("v", 200, 60, "old"), newSrc: manyBindings("v", 300, 60, "new")}
		h.prepare(tp)
		for i := 0; i < 200; i++ {
			h.scenario(tp, fmt.Sprintf("timed:%d", c.R.Intn(600)))
		}
	}
	// report damage to the state file before secondary symptoms (stray files, model-only differences)
	sort.SliceStable(c.Failures, func(i, j int) bool { return failRank(c.Failures[i].Sig) < failRank(c.Failures[j].Sig) })
	c.Extra["scratch_dirs_used"] = h.nDirs
	c.Extra["strace"] = h.strace != ""
	// leave nothing behind
	_ = os.RemoveAll(scratch)
	if ents, _ := os.ReadDir(c.Out); ents != nil {
		for _, e := range ents {
			if strings.HasPrefix(e.Name(), "scratch-") {
				c.Fail("scratch-not-removed", "-", e.Name())
			}
		}
	}
}
