package main

// Child-process side of the C18 harness: runs the REAL repl/eval packages of /repo in a scratch
// working directory.  The parent (main.go) starts this binary as `<bin> child <mode> ...`, possibly
// with VERIF_CRASH_AT / VERIF_FAIL_AT in the environment or under `strace -e inject=...`, and looks at
// what is on disk afterwards.
//
//	child session <dir> <hexsrc> [flags...]   one grol "session": chdir dir; AutoLoad; eval each line of src;
//	                                          AutoSave (this is where it may die).  flags:
//	     record     print `CHUNKS <hex,hex,..>`: the Write calls SaveGlobals makes for the state to be saved
//	     second     call AutoSave a second time after the first returned (the "only if changed" logic)
//	     noauto     Options.AutoSave=false
//	     maxlen=N   Options.MaxValueLen / State.MaxValueLen = N (values longer than N are not saved)
//	     nofile=N   setrlimit(RLIMIT_NOFILE) to <lowest free fd + N> just before AutoSave (hook-free CreateTemp failure when N=0)
//	     fsize=N    setrlimit(RLIMIT_FSIZE, N) just before AutoSave (hook-free write failure after N bytes of the temp file)
//	child load <dir>                          fresh session: chdir dir; AutoLoad; print `DUMP <hex>` = SaveGlobals of the loaded state

import (
	"fmt"
	"os"
	"runtime"
	"strconv"
	"strings"
	"syscall"

	"fortio.org/log"
	"grol.io/grol/eval"
	"grol.io/grol/repl"
	"verifharness/common"
)

type chunkRecorder struct{ chunks [][]byte }

func (r *chunkRecorder) Write(p []byte) (int, error) {
	r.chunks = append(r.chunks, append([]byte(nil), p...))
	return len(p), nil
}

func hexList(chunks [][]byte) string {
	if len(chunks) == 0 {
		return "-"
	}
	parts := make([]string, len(chunks))
	for i, c := range chunks {
		parts[i] = common.Hx(c)
	}
	return strings.Join(parts, ",")
}

func errBit(err error) int {
	if err != nil {
		return 1
	}
	return 0
}

func childMain(args []string) {
	runtime.LockOSThread() // the save path's system calls all come from one thread (makes strace's when=k deterministic)
	log.SetLogLevelQuiet(log.Error)
	log.Config.ConsoleColor = false
	if len(args) < 2 {
		fmt.Println("BAD child args")
		os.Exit(3)
	}
	mode, dir := args[0], args[1]
	if err := os.Chdir(dir); err != nil {
		fmt.Println("BAD chdir", err)
		os.Exit(3)
	}
	opts := repl.Options{AutoLoad: true, AutoSave: true}
	s := eval.NewState()
	switch mode {
	case "load":
		err := repl.AutoLoad(s, opts)
		rec := &chunkRecorder{}
		if _, e := s.SaveGlobals(rec); e != nil {
			fmt.Println("BAD save", e)
			os.Exit(3)
		}
		fmt.Printf("LOADERR=%d\nDUMP %s\n", errBit(err), hexList(rec.chunks))
	case "session":
		src := string(common.Unhx(args[2]))
		flags := map[string]string{}
		for _, f := range args[3:] {
			k, v, _ := strings.Cut(f, "=")
			flags[k] = v
		}
		if _, ok := flags["noauto"]; ok {
			opts.AutoSave = false
		}
		if v, ok := flags["maxlen"]; ok { // what repl.EvalStringWithOption / Interactive do with Options.MaxValueLen
			n, _ := strconv.Atoi(v)
			opts.MaxValueLen = n
			s.MaxValueLen = n
		}
		lerr := repl.AutoLoad(s, opts)
		fmt.Printf("LOADERR=%d\n", errBit(lerr))
		for _, line := range strings.Split(src, "\n") {
			if line == "" {
				continue
			}
			if _, err := eval.EvalString(s, line, false); err != nil {
				fmt.Printf("BAD eval %q: %v\n", line, err)
				os.Exit(3)
			}
		}
		if _, ok := flags["record"]; ok {
			// the recorder never fails: an error here is SaveGlobals reporting something else (not fatal for the
			// observation; what matters is what AutoSave then does with the real file)
			rec := &chunkRecorder{}
			if _, e := s.SaveGlobals(rec); e != nil {
				fmt.Printf("RECERR=1\n")
			}
			fmt.Printf("CHUNKS %s\n", hexList(rec.chunks))
		}
		if v, ok := flags["nofile"]; ok {
			n, _ := strconv.Atoi(v)
			// the lowest free descriptor number: with the limit set to it no further file can be opened
			maxfd, err := syscall.Open("/dev/null", syscall.O_RDONLY, 0)
			if err != nil {
				fmt.Println("BAD open /dev/null", err)
				os.Exit(3)
			}
			_ = syscall.Close(maxfd)
			lim := syscall.Rlimit{Cur: uint64(maxfd + n), Max: uint64(maxfd + n)}
			if err := syscall.Setrlimit(syscall.RLIMIT_NOFILE, &lim); err != nil {
				fmt.Println("BAD setrlimit", err)
				os.Exit(3)
			}
		}
		if v, ok := flags["fsize"]; ok {
			n, _ := strconv.Atoi(v)
			lim := syscall.Rlimit{Cur: uint64(n), Max: uint64(n)}
			if err := syscall.Setrlimit(syscall.RLIMIT_FSIZE, &lim); err != nil {
				fmt.Println("BAD setrlimit", err)
				os.Exit(3)
			}
		}
		os.Stdout.Sync()
		fmt.Println("SAVING") // marker: everything after this line is the save path
		err := repl.AutoSave(s, opts)
		fmt.Printf("ERR=%d\n", errBit(err))
		if _, ok := flags["second"]; ok {
			err2 := repl.AutoSave(s, opts)
			fmt.Printf("ERR2=%d\n", errBit(err2))
		}
		fmt.Println("DONE")
	default:
		fmt.Println("BAD mode")
		os.Exit(3)
	}
}
