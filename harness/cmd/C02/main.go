package main

// C02: formatting preserves the program (print then parse gives the same tree), both print modes.
// Correspondence: round-trip classification and the (tree, printed bytes) observation of the real
// lexer+parser+formatter vs the Coq front-end models.  Direct oracle: dump(parse(x)) ==
// dump(parse(print_m(parse(x)))) on the real packages.

import (
	"fmt"
	"os"
	"path/filepath"
	"strings"

	"fortio.org/log"
	"grol.io/grol/ast"
	"grol.io/grol/eval"
	"grol.io/grol/lexer"
	"grol.io/grol/object"
	"grol.io/grol/token"
	"verifharness/common"
	. "verifharness/common"
)

func main() { common.Main("C02", run) }

type st struct{ same, differs, rejected, notclean, known int }

func hasPattern(prog *ast.Statements, p string) bool {
	for _, k := range KnownPatterns(prog) {
		if k == p {
			return true
		}
	}
	return false
}

func sameMultiset(a, b []string) bool {
	if len(a) != len(b) {
		return false
	}
	m := map[string]int{}
	for _, x := range a {
		m[x]++
	}
	for _, x := range b {
		m[x]--
	}
	for _, v := range m {
		if v != 0 {
			return false
		}
	}
	return true
}

func one(c *Ctx, src []byte, toModel bool, s *st) {
	c.Eval()
	prog, ok := ParseClean(src)
	if !ok {
		s.notclean++
		if toModel {
			c.Case(fmt.Sprintf("RT %s %s", Hx(src), Convs(src)), "N=notclean C=notclean")
		}
		return
	}
	var res [2]string
	var txts [2][]byte
	for i, compact := range []bool{false, true} {
		res[i], txts[i] = RoundTrip(src, compact)
		mode := "normal"
		if compact {
			mode = "compact"
		}
		switch res[i] {
		case "same":
			s.same++
		default:
			if res[i] == "differs" {
				s.differs++
			} else {
				s.rejected++
			}
			sig := RTSig(prog, mode, res[i])
			// none of the recorded formatter findings changes the TEXT of a comment: in normal mode (comments are kept) the
			// comment literals of the source and of the printed text must be the same sequence up to order
			// (except comment-in-expression-position, where a line comment swallows the rest of its line)
			if !compact && strings.HasPrefix(sig, "roundtrip:") && !hasPattern(prog, "comment-in-expression-position") && !sameMultiset(CommentTexts(src), CommentTexts(txts[i])) {
				sig = "roundtrip-unclassified:normal:comment-text-changed"
			}
			if strings.HasPrefix(sig, "roundtrip:") {
				s.known++
			}
			c.Fail(sig, "RT "+Hx(src), fmt.Sprintf("mode=%s outcome=%s src=%q printed=%q", mode, res[i], src, txts[i]))
		}
	}
	c.NonTrivial(DumpAST(prog))
	if toModel {
		if !StringsInQuoteDomain(src, false) {
			c.Case(fmt.Sprintf("RT %s %s", Hx(src), Convs(src, txts[0], txts[1])), "N=U C=U")
		} else {
			c.Case(fmt.Sprintf("RT %s %s", Hx(src), Convs(src, txts[0], txts[1])), fmt.Sprintf("N=%s C=%s", res[0], res[1]))
			fr := Front(src, false)
			c.Case(fmt.Sprintf("FRONT F %s %s", Hx(src), Convs(src)), fr.Obs)
		}
	}
}

// ---- the fragment of the proved theorem (coq/proofs/Roundtrip_expr.v): identifiers, integer literals, prefix and binary
// infix operators.  The theorem is about the token sequence body(e); this stream ties that sequence to the real formatter:
// lexing what the formatter prints (both modes) must give exactly the tokens the Coq definition computes.

func inFragment(n ast.Node) bool {
	switch v := n.(type) {
	case *ast.Identifier:
		return v.Type() == token.IDENT
	case *ast.IntegerLiteral, *ast.FloatLiteral, *ast.StringLiteral, *ast.Boolean, *ast.ControlExpression:
		return true
	case *ast.PrefixExpression:
		return v.Right != nil && inFragment(v.Right)
	case *ast.InfixExpression:
		if v.Left == nil || v.Right == nil {
			return false
		}
		if r, ok := v.Right.(*ast.InfixExpression); ok && v.Type() == token.PLUS && r.Type() == token.PLUS {
			return false // a + (b + c): recorded finding, excluded from the theorem's fragment (wf_ex)
		}
		return inFragment(v.Left) && inFragment(v.Right)
	case *ast.CallExpression:
		if v.Function == nil || v.Arguments == nil || !inFragment(v.Function) {
			return false
		}
		for _, a := range v.Arguments {
			if a == nil || !inFragment(a) {
				return false
			}
		}
		return true
	case *ast.IndexExpression:
		return v.Type() == token.LBRACKET && v.Left != nil && v.Index != nil && inFragment(v.Left) && inFragment(v.Index)
	}
	return false
}

func lexedTokens(txt []byte) string {
	l := lexer.NewBytes(txt)
	var out []string
	for i := 0; i < len(txt)+3; i++ {
		t := l.NextToken()
		if t.Type() == token.EOF {
			break
		}
		out = append(out, fmt.Sprintf("%d.%s", t.Type(), Hx([]byte(t.Literal()))))
	}
	return strings.Join(out, ",")
}

func fragCase(c *Ctx, src []byte) {
	c.Eval()
	line := fmt.Sprintf("TL %s %s", Hx(src), Convs(src))
	prog, ok := ParseClean(src)
	if !ok {
		c.Case(line, "N=notclean C=notclean")
		c.Count("frag=notclean")
		return
	}
	infrag := len(prog.Statements) > 0
	for _, st := range prog.Statements {
		infrag = infrag && inFragment(st)
	}
	if !infrag {
		c.Case(line, "N=notfrag C=notfrag")
		c.Count("frag=notfrag")
		return
	}
	var obs [2]string
	for i, compact := range []bool{false, true} {
		txt, panicked := Format(prog, compact)
		if panicked {
			obs[i] = "printpanic"
			continue
		}
		obs[i] = lexedTokens(txt)
		// direct oracle: the round trip itself
		if r, _ := RoundTrip(src, compact); r != "same" {
			mode := "normal"
			if compact {
				mode = "compact"
			}
			sig := RTSig(prog, mode, r) // a recorded finding (a following statement that starts with - + ^ ...) keeps its own sig
			if !strings.HasPrefix(sig, "roundtrip:") {
				sig = "fragment-roundtrip:" + r
			}
			c.Fail(sig, "TL "+Hx(src), fmt.Sprintf("compact=%v src=%q printed=%q", compact, src, txt))
		}
	}
	c.Case(line, "N="+obs[0]+" C="+obs[1])
	c.Count("frag=in")
	c.NonTrivial("frag:" + DumpAST(prog))
}

var fragBin = []string{"+", "-", "*", "/", "%", "==", "!=", "<", "<=", ">", ">=", "<<", ">>", "&&", "||", "&", "|", "^", ":", "=", ":="}
var fragPre = []string{"!", "-", "+", "~", "^", "++", "--"}

func fragExpr(r *Rng, d int) string {
	k := r.Intn(10)
	if d <= 0 || k < 2 {
		switch k := r.Intn(20); {
		case k < 11:
			return genFragIdents[r.Intn(len(genFragIdents))]
		case k < 15:
			return genFragInts[r.Intn(len(genFragInts))]
		case k < 17:
			return genFragFloats[r.Intn(len(genFragFloats))]
		case k < 19:
			return genFragStrings[r.Intn(len(genFragStrings))]
		default:
			return []string{"true", "false"}[r.Intn(2)]
		}
	}
	par := func(s string, pct int) string {
		if r.Pct(pct) {
			return "(" + s + ")"
		}
		return s
	}
	if k < 4 {
		return fragPre[r.Intn(len(fragPre))] + par(fragExpr(r, d-1), 60)
	}
	if k < 5 { // call: callee parenthesised at random, 0-3 arguments
		n := r.Intn(4)
		var as []string
		for i := 0; i < n; i++ {
			as = append(as, par(fragExpr(r, d-1), 20))
		}
		return par(fragExpr(r, d-1), 50) + "(" + strings.Join(as, []string{",", ", "}[r.Intn(2)]) + ")"
	}
	if k < 6 { // index
		return par(fragExpr(r, d-1), 50) + "[" + par(fragExpr(r, d-1), 20) + "]"
	}
	sp := []string{" ", ""}[r.Intn(2)]
	return par(fragExpr(r, d-1), 45) + sp + fragBin[r.Intn(len(fragBin))] + sp + par(fragExpr(r, d-1), 55)
}

var genFragIdents = []string{"a", "b", "c", "x", "foo", "_z1", "n"}
var genFragFloats = []string{"1.5", ".5", "2.", "1e3", "1.5e-3", "0.25"}
var genFragStrings = []string{`"s"`, `""`, `"a b"`, `"a\"b"`, "`raw`", `"\n\t"`, `"it's"`}
var genFragInts = []string{"0", "1", "42", "007", "0x1F", "0b101", "1_000", "9223372036854775807"}

// ---- function values: object.Function.Inspect (what println(f), save() and the auto-save write) reuses the compact printer
// plus its own lambda form; the text must parse back to the function literal it came from.

func inspectCase(c *Ctx, lit string) {
	c.Eval()
	src := []byte("f = " + lit)
	prog, ok := ParseClean(src)
	if !ok {
		c.Count("inspect=notclean")
		return
	}
	var txt string
	func() {
		defer func() {
			if r := recover(); r != nil {
				txt = ""
				// the literal is EVALUATED to obtain the function object: the documented guards (memory budget, depth) of the
				// evaluator are not formatter failures (e.g. `(a,b) => x || 2 : 9223372036854775807` is a range with a huge bound)
				if msg := fmt.Sprint(r); strings.HasPrefix(msg, "would exceed memory") || strings.HasPrefix(msg, "max depth") {
					c.Count("inspect=evaluation-guard")
					return
				}
				c.Fail("inspect-panic", "INSPECT "+Hx([]byte(lit)), fmt.Sprint(r))
			}
		}()
		st := eval.NewState()
		st.NoLog = true
		obj := st.Eval(prog)
		if fn, isf := obj.(object.Function); isf {
			txt = fn.Inspect()
		}
	}()
	if txt == "" {
		c.Count("inspect=notfunction")
		return
	}
	c.Count("inspect=function")
	prog2, ok2 := ParseClean([]byte("f = " + txt))
	outcome := "same"
	if !ok2 {
		outcome = "rejected"
	} else if DumpNoComments(prog) != DumpNoComments(prog2) {
		outcome = "differs"
	}
	if outcome != "same" {
		sig := RTSig(prog, "inspect", outcome)
		c.Fail(sig, "INSPECT "+Hx([]byte(lit)), fmt.Sprintf("outcome=%s literal=%q inspect=%q", outcome, lit, txt))
	}
	c.NonTrivial("inspect:" + txt)
}

// unquoteCase: a tree that the PARSER did not build - quote(T) with unquote(E) of a computed value inside - printed in
// both modes must parse back to that very tree (what a macro puts into a function body is what Inspect, save and history
// print later). E is evaluated; a value kind unquote does not support becomes an error(...) call node, which round-trips too.
func unquoteCase(c *Ctx, tmpl, e string) {
	c.Eval()
	src := "q = quote(" + strings.ReplaceAll(tmpl, "@", "unquote("+e+")") + ")"
	cs := "UNQ " + Hx([]byte(tmpl)) + " " + Hx([]byte(e))
	var node ast.Node
	func() {
		defer func() {
			if r := recover(); r != nil {
				if msg := fmt.Sprint(r); strings.HasPrefix(msg, "would exceed memory") || strings.HasPrefix(msg, "max depth") {
					c.Count("unquote=evaluation-guard")
					return
				}
				c.Fail("unquote-panic", cs, fmt.Sprint(r))
			}
		}()
		st := eval.NewState()
		st.NoLog = true
		prog, ok := ParseClean([]byte(src))
		if !ok {
			c.Count("unquote=notclean")
			return
		}
		if q, isq := st.Eval(prog).(object.Quote); isq {
			node = q.Node
		}
	}()
	if node == nil {
		c.Count("unquote=notquote")
		return
	}
	c.Count("unquote=quote")
	tree := &ast.Statements{Statements: []ast.Node{node}} // printed as a program, as Inspect / save / history print it
	want := DumpNoComments(tree)
	for _, compact := range []bool{false, true} {
		mode := []string{"normal", "compact"}[b2i(compact)]
		ps := ast.NewPrintState()
		ps.Compact = compact
		var txt string
		func() {
			defer func() {
				if r := recover(); r != nil {
					c.Fail("unquote-print-panic:"+mode, cs, fmt.Sprint(r))
				}
			}()
			txt = tree.PrettyPrint(ps).String()
		}()
		prog2, ok2 := ParseClean([]byte(txt))
		outcome := "same"
		if !ok2 {
			outcome = "rejected"
		} else if DumpNoComments(prog2) != want {
			outcome = "differs"
		}
		if outcome != "same" {
			sig := RTSig(tree, mode, outcome) // the recorded printer findings (e.g. 2.x for (2).x) apply to these trees too
			if strings.HasPrefix(sig, "roundtrip-unclassified") {
				sig = "unquoted-tree-roundtrip:" + mode + ":" + outcome
			}
			c.Fail(sig, cs, fmt.Sprintf("source=%q printed=%q tree=%s reparsed=%s", src, txt, want, func() string {
				if ok2 {
					return DumpNoComments(prog2)
				}
				return "-"
			}()))
		}
	}
	c.NonTrivial("unq:" + src)
}

func b2i(b bool) int {
	if b {
		return 1
	}
	return 0
}

// an expression that starts with a map / array literal or a parenthesised lambda some levels down its left spine
func leadingLiteral(g *Gen) string {
	e := g.Pick([]string{`({"a":1,"b":2})`, "({})", `({k:1})`, "([1,2,3])", "(a=>a)", `({1:{2:3}})`, "({})"})
	n := 1 + g.R.Intn(4)
	for i := 0; i < n; i++ {
		switch g.R.Intn(7) {
		case 0, 1:
			e += "[" + g.Pick([]string{"k", `"a"`, "1", "a"}) + "]"
		case 2:
			e += "." + g.Pick([]string{"a", "b"})
		case 3:
			e += "(" + g.Pick([]string{"", "1", "k"}) + ")"
		default:
			e += " " + g.Pick([]string{"*", "+", "==", "-", "&&", "||", "<", ":"}) + " " + g.Leaf()
		}
	}
	return e
}

func funcLiteral(g *Gen, d int) string {
	ps := g.Pick([]string{"k", "()", "(a,b)", "(a, b, c)", "a", "(..)"})
	// (an anonymous func(..){..} value is printed in lambda form by Inspect - same function, different IsLambda flag -
	// so the top-level literal is a lambda or a named function; anonymous func literals still occur inside bodies)
	switch g.R.Intn(7) {
	case 0, 1, 2:
		return ps + " => " + leadingLiteral(g)
	case 3, 4:
		return ps + " => " + g.Expr(d)
	case 5:
		return ps + " => " + g.Block(d)
	default:
		return "func " + g.Pick([]string{"g", "fact"}) + "(a) " + g.Block(d)
	}
}

// operator-pair matrix: every parent/child pair, child on either side, explicit source parentheses
func matrix(c *Ctx, s *st, depth3 bool) {
	type form struct {
		name string
		mk   func(x, y string) string // x: the child expression text (parenthesised by the caller), y: a leaf
	}
	var parents []form
	for _, op := range BinOps {
		op := op
		if op == "=" || op == ":=" {
			parents = append(parents, form{"bin" + op + "R", func(x, y string) string { return y + " " + op + " " + x }})
			continue
		}
		parents = append(parents, form{"bin" + op + "L", func(x, y string) string { return x + " " + op + " " + y }})
		parents = append(parents, form{"bin" + op + "R", func(x, y string) string { return y + " " + op + " " + x }})
	}
	for _, op := range []string{"!", "-", "+", "~", "^"} {
		op := op
		parents = append(parents, form{"pre" + op, func(x, y string) string { return op + x }})
	}
	parents = append(parents,
		form{"idxL", func(x, y string) string { return x + "[" + y + "]" }},
		form{"idxI", func(x, y string) string { return y + "[" + x + "]" }},
		form{"dotL", func(x, y string) string { return x + "." + y }},
		form{"callF", func(x, y string) string { return x + "(" + y + ")" }},
		form{"callA", func(x, y string) string { return y + "(" + x + ")" }},
		form{"lamB", func(x, y string) string { return y + " => " + x }},
		form{"arr", func(x, y string) string { return "[" + x + ", " + y + "]" }},
		form{"mapV", func(x, y string) string { return "{" + y + ":" + x + "}" }},
		form{"ret", func(x, y string) string { return "func(){return " + x + "}" }},
		form{"ifC", func(x, y string) string { return "if " + x + " {" + y + "}" }},
		form{"rngL", func(x, y string) string { return y + "[" + x + ":]" }},
	)
	var children []string
	for _, op := range BinOps {
		if op == "=" || op == ":=" {
			children = append(children, "b "+op+" c")
			continue
		}
		children = append(children, "b "+op+" c")
	}
	for _, op := range []string{"!", "-", "+", "~", "^", "++", "--"} {
		children = append(children, op+"b")
	}
	children = append(children, "b++", "b--", "b[c]", "b.c", "b(c)", "b => c", "(b,c) => b", "[b]", "{b:c}", "b", "1", "1.5", `"s"`, "b[c:d]", "b[c:]", "len(b)", "func(){b}", "if b {c}")
	for _, p := range parents {
		for _, ch := range children {
			src := p.mk("("+ch+")", "a")
			one(c, []byte(src), true, s)
			c.Count("matrix")
			if depth3 {
				for _, p2 := range parents {
					one(c, []byte(p2.mk("("+src+")", "z")), false, s)
					c.Count("matrix3")
				}
			}
		}
	}
}

func run(c *Ctx) {
	c.Rule = "operator-pair matrix (every parent form x every child form, child parenthesised in the source, both print modes; depth 3 in thorough); " +
		"grammar-generated programs (nesting <= 4, statements, blocks, functions, lambdas, comments; a stream avoiding recorded findings and a stream exercising them); " +
		"fragment stream for the proved theorem (identifiers, integer / float / string literals, true / false, prefix and infix operators with random redundant parentheses, depth <= 5: the formatter's output must lex to the Coq token sequence body(e) in both modes, and must round-trip); literal forms and strings over the byte universe; byte mutations of the shipped examples. non-trivial = distinct clean trees"
	if c.ReplayCase != "" {
		f := strings.Fields(c.ReplayCase)
		var s st
		if len(f) == 2 && f[0] == "RT" {
			one(c, Unhx(f[1]), true, &s)
		}
		if len(f) >= 2 && f[0] == "TL" {
			fragCase(c, Unhx(f[1]))
		}
		if len(f) >= 2 && f[0] == "INSPECT" {
			inspectCase(c, string(Unhx(f[1])))
		}
		if len(f) == 3 && f[0] == "UNQ" {
			unquoteCase(c, string(Unhx(f[1])), string(Unhx(f[2])))
		}
		return
	}
	var s st
	// corpus first: the historical failures (fixed ones must now pass, recorded ones carry their sig)
	for _, src := range []string{"a-(b-c)", "a/(b/c)", "a<(b<c)", "x[a:(b:c)]", "a=(b=c)", "a - -b", "a + ++b", "a + +b", "a;b", "1;2", "a;(b)",
		"func f(){return a;b}", "a;if b {1}", "1+(a=>a)", "x[1:]", "(a+b)(1)", "\"a\\x07b\\x08\\x0c\\x0b\"", "(a=>a)(1)", "(a=>a)+1", "-(-a)", "(-a).b", "a||(b&&c)",
		"a+(b+c)", "a;-b", "a;++b", "(1).x", "a;^b", "a +\n// c\n b", "func f(){return // c\na}", "{a:(b && c)}", "func f(){x};()=>y", "if b {c} else {return // t0\n}",
		// a prefix ++ / -- statement right after a line comment; identifiers starting with an underscore after keywords (round 6)
		"x = 1 // one\n++y", "// c\n--b", "f = func(n) { // bump\n ++n\n n }", "for i = 2 { println(i) // show\n++i }", "a /* c */\n++b",
		"f = func(_x) { return _x }", "if _ok {1} else {2}", "for _n {_n}", "return_x = 1; return_x", "f = func(){return -1}", "f = func(){return [a,b]}", "if !x {1}", "for (a) {1}"} {
		one(c, []byte(src), true, &s)
	}
	matrix(c, &s, c.Thorough())
	c.Extra["exhaustive"] = true
	// adjacent literals and operators against delicate operands (common.DelicatePrograms; shared with C03)
	dl := DelicatePrograms(c.Thorough())
	for _, src := range dl {
		one(c, []byte(src), false, &s)
	}
	c.Dist["delicate-literal-and-operator-programs"] = len(dl)
	// the shapes of an else block (common.ElseBlockPrograms; shared with C03): `else if` only for a block that IS one if
	eb := ElseBlockPrograms(c.Thorough())
	for _, src := range eb {
		one(c, []byte(src), true, &s)
	}
	c.Dist["else-block-shape-programs"] = len(eb)
	// deep chains: the formatter adds parentheses the source did not have (!!y prints as !(!y), a[0].f[0] as (a[0]).f[0]), so a
	// nesting that the parser accepts in the source must also be accepted in the formatted text
	ndeep := 0
	depths := []int{50, 400, 2000, 6000}
	if c.Thorough() {
		depths = append(depths, 9000, 9990)
	}
	for _, d := range depths {
		for _, src := range []string{
			"x = " + strings.Repeat("!", d) + "y", "x = " + strings.Repeat("-", 1) + strings.Repeat("(-", d/2) + "y" + strings.Repeat(")", d/2),
			"a" + strings.Repeat("[0].f", d), "a" + strings.Repeat("[0]", d), "a" + strings.Repeat(".f", d), "f" + strings.Repeat("(1)", d),
			"x = " + strings.Repeat("~ ", d) + "1", "x = 1" + strings.Repeat(" + 1", d), "x = 1" + strings.Repeat(" - (1", d/2) + strings.Repeat(")", d/2),
			"x = " + strings.Repeat("[", d/2) + "1" + strings.Repeat("]", d/2), "x = " + strings.Repeat("(", d/2) + "1" + strings.Repeat(")", d/2),
			"x = a" + strings.Repeat(" = a", d/4), "x = " + strings.Repeat("n => ", d/4) + "n"} {
			one(c, []byte(src), false, &s)
			ndeep++
		}
	}
	c.Dist["deep-chain-programs"] = ndeep
	// generated programs
	n := 1500
	if c.Thorough() {
		n = 60000
	}
	for i := 0; i < n; i++ {
		g := &Gen{R: c.R, O: GenOpts{AvoidKnown: i%5 != 0, Comments: i%3 == 0, MaxDepth: 4}}
		one(c, []byte(g.Program()), true, &s)
	}
	// the fragment of the proved theorem: formatter output lexes to body(e) (both modes), and round-trips
	for _, src := range []string{"a", "1", "-a", "-(-a)", "a+b", "a-(b-c)", "(a-b)-c", "a*(b+c)", "-(a+b)*c - d", "!(a&&b)||c", "a=b=c", "a=(b=c)",
		"a+(b+c)", "(a+b)+c", "a:b", "++a", "a - -b", "a + ++b", "~(a|b)^c", "a<(b<c)", "0x1F+007", "a+(b*c)+d", "((a))", "-(1)", "a := b := 1", "a:=(b:=1)", `"s"+"t"`, "1.5*(a+2.)", "f(a)", "f()", "f(a, b+c)(d)", "(a+b)(c)", "a[b]", "a[b][c]", "f(a)[b+c]", "(a+b)[c]", "-f(a)", "(-a)(b)", "f(g(a), h(b, c))*d",
		"a[f(b)] + c[d]", "a [b]", "f (a)", "a[1:2]", "a[b:]", "true&&!false", "-(1.5)", `a==("x"+b)`, "break", "!continue"} {
		fragCase(c, []byte(src))
	}
	nf := 2500
	if c.Thorough() {
		nf = 60000
	}
	for i := 0; i < nf; i++ {
		fragCase(c, []byte(fragExpr(c.R, 1+c.R.Intn(5))))
	}
	// sequences of fragment statements (theorem fragment_statements_roundtrip): separated by newline or `;`
	for _, src := range []string{"a\nb", "a;b;c", "a+b\n(c+d)*e", "a\n!b", "x=1\ny=x*(2+x)\n-y", "a\n-b", "a;++b", "(a)\n(b)", "a\n\"s\"+b\ntrue"} {
		fragCase(c, []byte(src))
	}
	for i := 0; i < nf/3; i++ {
		n := 2 + c.R.Intn(3)
		var parts []string
		for j := 0; j < n; j++ {
			parts = append(parts, fragExpr(c.R, 1+c.R.Intn(3)))
		}
		fragCase(c, []byte(strings.Join(parts, []string{"\n", ";", "\n\n", " ;\n"}[c.R.Intn(4)])))
	}
	// function values printed by Inspect parse back to the literal they came from
	log.SetLogLevelQuiet(log.Error)
	for _, lit := range []string{"a=>a+1", "k => ({\"a\":1})[k]", "k => ({\"a\":1,\"b\":2})[k] * 10", "k => ({})[k] == 1", "()=>{a||b}", "()=>{return 1}",
		"a=>({y:false})()", "(a,b)=>{a;b}", "func g(a){a+1}", "(a,b)=>if a {b} else {a}", "x=>y=>x+y", "a => ({1:{2:3}})[1][2] + a", "()=>[1,2][0]-1"} {
		inspectCase(c, lit)
	}
	ni := 1500
	if c.Thorough() {
		ni = 40000
	}
	for i := 0; i < ni; i++ {
		g := &Gen{R: c.R, O: GenOpts{AvoidKnown: true, Comments: false, MaxDepth: 3}}
		inspectCase(c, funcLiteral(g, 1+c.R.Intn(3)))
	}
	// trees built by quote / unquote of computed values, not by the parser
	uvals := []string{"1+1", "0-5", "0", "0-0", "9223372036854775807", "-9223372036854775807-1", "-9223372036854775807", "2*3", "1<2", "1>2", "!true", "4/2.", "1.5", "0-1.5", "0.0", "-0.0", "1e100", "1/3.", "2.0*1e15", "1e21", "1.0/0",
		"-1.0/0", "0.0/0", "\"a\"+\"b\"", "\"q\\\"q\"", "\"\"", "\"a\\nb\"", "\"`\"", "[1,2]", "[]", "[1.0]", "{1:2}", "{}", "nil", "x=>x", "func(a){a}", "len", "PI", "1:3", "[1,2,3][1:]", "first([7])", "n", "n+1", "info"}
	utmpl := []string{"@", "n / @", "n - @", "n + @", "-@", "- @", "!@", "@ - n", "[@, @]", "f(@)", "{@: @}", "@.x", "@[0]", "a - @ - b", "x = @", "func(n){n / @}", "n => n - @", "if @ {1} else {@}", "@ @", "(@)"}
	for _, t := range utmpl {
		for _, e := range uvals {
			unquoteCase(c, t, e)
		}
	}
	// strings over the byte universe and number forms
	for i := 0; i < 400; i++ {
		l := c.R.Intn(6)
		b := []byte{'"'}
		for j := 0; j < l; j++ {
			ch := byte(c.R.Intn(256))
			if ch == '"' || ch == '\\' || ch == 0 || ch == '\n' {
				b = append(b, '\\', 'x', "0123456789abcdef"[ch>>4], "0123456789abcdef"[ch&15])
			} else {
				b = append(b, ch)
			}
		}
		b = append(b, '"')
		one(c, append([]byte("x = "), b...), true, &s)
	}
	// unicode strings: direct oracle only (outside the go_quote model's byte universe)
	for _, u := range []string{`"é"`, `"╭─╮"`, `"日本"`, `"é"`, `"\U0001F600"`, "\"a\u0085b\"", "\"​\"", `"😀"`} {
		one(c, []byte("s="+u), true, &s)
	}
	// mutations of the shipped examples
	files, _ := filepath.Glob("/repo/examples/*.gr")
	more, _ := filepath.Glob("/repo/tests/*.gr")
	files = append(files, more...)
	for _, f := range files {
		b, err := os.ReadFile(f)
		if err != nil {
			continue
		}
		one(c, b, len(b) < 4000, &s)
		m := 6
		if c.Thorough() {
			m = 200
		}
		for i := 0; i < m; i++ {
			mb := append([]byte(nil), b...)
			pos := c.R.Intn(len(mb))
			switch c.R.Intn(3) {
			case 0:
				mb[pos] = " ()+-*;\n"[c.R.Intn(8)]
			case 1:
				mb = append(mb[:pos], mb[pos+1:]...)
			default:
				mb = append(mb[:pos], append([]byte{"()+-;"[c.R.Intn(5)]}, mb[pos:]...)...)
			}
			one(c, mb, false, &s)
		}
	}
	c.Dist["rt=same"] = s.same
	c.Dist["rt=differs"] = s.differs
	c.Dist["rt=rejected"] = s.rejected
	c.Dist["src=notclean"] = s.notclean
	c.Dist["rt=known-pattern"] = s.known
}
