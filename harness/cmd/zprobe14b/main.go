package main

import (
	"fmt"

	"fortio.org/log"
	"grol.io/grol/eval"
	"grol.io/grol/extensions"
	"grol.io/grol/object"
)

func main() {
	_ = extensions.Init(&extensions.Config{HasLoad: true, HasSave: true})
	log.SetLogLevelQuiet(log.Critical)
	s := eval.NewState()
	s.MaxDepth = 300
	o, err := eval.EvalString(s, "info.globals", false)
	fmt.Printf("%T %v %v\n", o, err, o.Inspect())
	m, ok := o.(object.Map)
	fmt.Println(ok, m)
}
