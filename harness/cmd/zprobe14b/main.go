package main

import (
	"bytes"
	"context"
	"encoding/hex"
	"fmt"
	"os"
	"strings"
	"time"

	"fortio.org/log"
	"grol.io/grol/eval"
	"grol.io/grol/extensions"
	"grol.io/grol/repl"
)

func ev(s *eval.State, out *bytes.Buffer, in string) {
	_, p, errs, _ := repl.EvalOne(context.Background(), s, in, out, repl.Options{All: true, ShowEval: true, NoColor: true, MaxDuration: 300 * time.Millisecond})
	s.Context, s.Cancel = nil, nil
	fmt.Printf("  eval %q -> panic=%v errs=%v out=%q\n", in, p, errs, out.String())
	out.Reset()
}

func main() {
	_ = extensions.Init(&extensions.Config{HasLoad: true, HasSave: true})
	log.SetLogLevelQuiet(log.Critical)
	b, _ := os.ReadFile(os.Args[1])
	f := strings.Fields(string(b))
	raw, _ := hex.DecodeString(f[2])
	stmts := strings.Split(string(raw), "\x00")
	s := eval.NewState()
	var out bytes.Buffer
	s.Out, s.LogOut, s.NoLog = &out, &out, true
	for _, st := range stmts {
		ev(s, &out, st)
	}
	var w bytes.Buffer
	s.SaveGlobals(&w)
	fmt.Printf("%s", w.String())
	s2 := eval.NewState()
	s2.Out, s2.LogOut, s2.NoLog = &out, &out, true
	for _, l := range strings.Split(strings.TrimSuffix(w.String(), "\n"), "\n") {
		_, err := eval.EvalString(s2, l, false)
		if err != nil {
			fmt.Println("LOADERR", l, err)
		}
	}
	for _, call := range os.Args[2:] {
		ev(s, &out, call)
		ev(s2, &out, call)
	}
}
