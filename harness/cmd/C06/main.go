package main

// C06: arrays and maps are values - no aliasing, at any size.
// Correspondence: sequences of statements run as grol source on ONE persistent eval.State (repl.EvalOne); after
// EVERY statement all live bindings are read (Inspect text + small/large representation) and compared with the
// container machine of coq/model/Containers.v (whose readings the theorems equate with the pure value model).
// Direct oracle (model-free): snapshot all bindings, run one statement, every binding the statement does not
// write must be byte-identical (in particular x+y leaves x and y identical).

import (
	"bufio"
	"context"
	"encoding/json"
	"fmt"
	"math"
	"os"
	"os/exec"
	"runtime"
	"runtime/debug"
	"sort"
	"strconv"
	"strings"
	"sync"
	"sync/atomic"
	"time"

	"fortio.org/log"
	"grol.io/grol/eval"
	"grol.io/grol/extensions"
	"grol.io/grol/object"
	"grol.io/grol/repl"
	"verifharness/common"
	. "verifharness/common"
)

// The interpreter is never run in the process that writes the evidence: every sequence is generated and executed in a
// child process (this same binary, C06_WORKER set) that streams its cases / failures / counters back as JSON lines.
// A fatal Go error (stack overflow while printing a cyclic value, out of memory, ...) or a hang of the interpreter on an
// input therefore kills only the child: the parent reports the statement that was in flight as a failing input
// (crash-<op> / hang-<op>) and restarts the child behind it.
func main() {
	if spec := os.Getenv("C06_WORKER"); spec != "" {
		workerMain(spec)
		return
	}
	common.Main("C06", runC06)
}

const paramVar = 99
const nVars = 8

// ---- statements (same encoding as ocaml/drv_C06.ml)
type elem struct {
	isVar bool
	n     int64
}

func (e elem) enc() string {
	if e.isVar {
		return "v" + strconv.FormatInt(e.n, 10)
	}
	return "i" + strconv.FormatInt(e.n, 10)
}
func (e elem) src() string {
	if e.isVar {
		return vname(int(e.n))
	}
	return strconv.FormatInt(e.n, 10)
}
func vname(v int) string {
	if v == paramVar {
		return "pp"
	}
	return "v" + strconv.Itoa(v)
}

type kv struct {
	k int64
	e elem
}

type prim struct {
	kind string // AL ML CP IS PL RP SL RS GT DL IN UB
	x, y int
	i, j int64
	e    elem
	es   []elem
	kvs  []kv
	via  byte // PL only: how the left operand is written: 0 y   'i' idf(y) (identity function)   'g' func(){y}() (getter)
}

func (p prim) enc() string {
	switch p.kind {
	case "AL":
		parts := make([]string, len(p.es))
		for i, e := range p.es {
			parts[i] = e.enc()
		}
		s := strings.Join(parts, "|")
		if s == "" {
			s = "-"
		}
		return fmt.Sprintf("AL,%d,%s", p.x, s)
	case "ML":
		parts := make([]string, len(p.kvs))
		for i, e := range p.kvs {
			parts[i] = fmt.Sprintf("%d:%s", e.k, e.e.enc())
		}
		s := strings.Join(parts, "|")
		if s == "" {
			s = "-"
		}
		return fmt.Sprintf("ML,%d,%s", p.x, s)
	case "CP", "RS":
		return fmt.Sprintf("%s,%d,%d", p.kind, p.x, p.y)
	case "IS":
		return fmt.Sprintf("IS,%d,%d,%s", p.x, p.i, p.e.enc())
	case "PL":
		if p.via != 0 {
			return fmt.Sprintf("PL,%d,%d,%s,%c", p.x, p.y, p.e.enc(), p.via)
		}
		return fmt.Sprintf("PL,%d,%d,%s", p.x, p.y, p.e.enc())
	case "RP", "GT":
		return fmt.Sprintf("%s,%d,%d,%d", p.kind, p.x, p.y, p.i)
	case "SL":
		return fmt.Sprintf("SL,%d,%d,%d,%d", p.x, p.y, p.i, p.j)
	case "DL", "IN":
		return fmt.Sprintf("%s,%d,%d", p.kind, p.x, p.i)
	case "UB":
		return fmt.Sprintf("UB,%d", p.x)
	}
	panic("bad prim " + p.kind)
}

func (p prim) src() string {
	x, y := vname(p.x), vname(p.y)
	switch p.kind {
	case "AL":
		parts := make([]string, len(p.es))
		for i, e := range p.es {
			parts[i] = e.src()
		}
		return x + "=[" + strings.Join(parts, ",") + "]"
	case "ML":
		parts := make([]string, len(p.kvs))
		for i, e := range p.kvs {
			parts[i] = fmt.Sprintf("%d:%s", e.k, e.e.src())
		}
		return x + "={" + strings.Join(parts, ",") + "}"
	case "CP":
		return x + "=" + y
	case "IS":
		return fmt.Sprintf("%s[%d]=%s", x, p.i, p.e.src())
	case "PL":
		switch p.via {
		case 'i':
			return x + "=idf(" + y + ")+" + p.e.src()
		case 'g':
			return x + "=func(){" + y + "}()+" + p.e.src()
		}
		return x + "=" + y + "+" + p.e.src()
	case "RP":
		return fmt.Sprintf("%s=%s*%d", x, y, p.i)
	case "SL":
		return fmt.Sprintf("%s=%s[%d:%d]", x, y, p.i, p.j)
	case "RS":
		return x + "=rest(" + y + ")"
	case "GT":
		return fmt.Sprintf("%s=%s[%d]", x, y, p.i)
	case "DL":
		return fmt.Sprintf("del(%s[%d])", x, p.i)
	case "IN":
		return fmt.Sprintf("%s[%d]=%s[%d]+1", x, p.i, x, p.i)
	case "UB":
		return "del(" + x + ")"
	}
	panic("bad prim " + p.kind)
}

// what kind of operation (for signatures)
func (p prim) opName() string {
	switch p.kind {
	case "AL", "ML":
		return "literal"
	case "CP":
		return "copy"
	case "IS":
		return "indexassign"
	case "PL":
		if p.e.isVar {
			return "plus"
		}
		return "append"
	case "RP":
		return "repeat"
	case "SL":
		return "slice"
	case "RS":
		return "rest"
	case "GT":
		return "get"
	case "DL":
		return "del"
	case "IN":
		return "incr"
	case "UB":
		return "unbind"
	}
	return p.kind
}

type op struct {
	kind byte // 'P' 'F' 'C'
	p    prim
	a, b int // F: e,y   C: r,y
	body []prim
	// C only: how the call is written. form: 0/'f' r=func(pp){..;pp}(y)   'l' r=(pp=>{..;pp})(y)   'n' func cf(pp){..;pp};r=cf(y)
	// wrap: the body statements sit inside these constructs, outermost first: 'f' func(){..}()  'l' (()=>{..})()
	// 'i' if true {..}  'o' for 1 {..}.  Inside 'f'/'l' the parameter pp and every v<n> are OUTER variables (References).
	// The container machine has one OCall: parameter and outer names behave alike at any depth, so the driver drops form and wrap.
	form byte
	wrap string
	v    *vcall // kind 'V': a = result variable, wrap = where the call is made
	// kind 'X': ONE source statement (xsrc) whose effect on the machine is the statements xops in a row, on hidden
	// variables (>= 16: the local array of a closure, the result of a memoized maker) and on xw
	xsrc  string
	xops  []op
	xw    []int
	xname string
	// kind 'Y': a raw statement outside the machine's values (floats, -0.0, function values, extension calls): direct
	// oracle only (the driver prints SKIP for the sequence). xsrc, xw, xname as above; after it, ychk must render (exactly:
	// floats with a fraction) as ywant
	ychk, ywant string
}

// ---- variadic calls (direct oracle only: the container machine has no variadic functions, the driver prints SKIP for a
// sequence that contains one).   [func vf(p0,..,..){BODY};] r = <call site>( vf(args) )
type varg struct {
	kind byte  // 'v' the variable named directly (inside a function body: an outer variable, a Reference)  'e' an expression [vN][0]
	n    int64 // 'l' a local of the calling function holding a copy   'p' the parameter pp of the calling function   'i' integer n
}
type vcall struct {
	np   int  // named parameters p0.. before `..`
	ret  byte // what outlives the call: 'd' `..`  's' `..[1:]`  'a' `[..,7]`  'm' `{1:..}`  'p' `[p0,..]`  'o' outer variable out=.. (result 7)
	ff   byte // 'n' func vf(..){}   'f' vf=func(..){}   'l' ((..)=>{..}) called in place
	pv   int  // the variable passed as pp when some argument is 'p'
	out  int
	args []varg
}

func (v *vcall) hasP() bool {
	for _, a := range v.args {
		if a.kind == 'p' {
			return true
		}
	}
	return false
}

func (o op) vEnc() string {
	v := o.v
	as := make([]string, len(v.args))
	for i, a := range v.args {
		if a.kind == 'p' {
			as[i] = "p"
		} else {
			as[i] = string(a.kind) + strconv.FormatInt(a.n, 10)
		}
	}
	w, al := o.wrap, strings.Join(as, "|")
	if w == "" {
		w = "-"
	}
	if al == "" {
		al = "-"
	}
	return fmt.Sprintf("V:%d,%d,%d%c%c,%s,%d:%s", o.a, v.out, v.np, v.ret, v.ff, w, v.pv, al)
}

func decV(rest string) op {
	i := strings.IndexByte(rest, ':')
	hd := strings.Split(rest[:i], ",")
	v := &vcall{out: atoi(hd[1]), np: int(hd[2][0] - '0'), ret: hd[2][1], ff: hd[2][2], pv: atoi(hd[4])}
	o := op{kind: 'V', a: atoi(hd[0]), v: v}
	if hd[3] != "-" {
		o.wrap = hd[3]
	}
	if rest[i+1:] != "-" {
		for _, a := range strings.Split(rest[i+1:], "|") {
			if a == "p" {
				v.args = append(v.args, varg{kind: 'p'})
			} else {
				v.args = append(v.args, varg{kind: a[0], n: atoi64(a[1:])})
			}
		}
	}
	return o
}

func wrapSrc(wrap, inner string) string {
	for i := len(wrap) - 1; i >= 0; i-- {
		switch wrap[i] {
		case 'f':
			inner = "func(){" + inner + "}()"
		case 'l':
			inner = "(()=>{" + inner + "})()"
		case 'i':
			inner = "if true {" + inner + "}"
		default:
			inner = "for 1 {" + inner + "}"
		}
	}
	return inner
}

func (o op) vSrc() string {
	v := o.v
	var params []string
	for i := 0; i < v.np; i++ {
		params = append(params, "p"+strconv.Itoa(i))
	}
	params = append(params, "..")
	body := ".."
	switch v.ret {
	case 's':
		body = "..[1:]"
	case 'a':
		body = "[..,7]"
	case 'm':
		body = "{1:..}"
	case 'p':
		body = "[..,7]"
		if v.np > 0 {
			body = "[p0,..]"
		}
	case 'o':
		body = vname(v.out) + "=..;7"
	}
	// one name per body: a function re-defined with another body is a matter of the memoization cache (C04), not of this property
	def, callee := "", fmt.Sprintf("vf%d%c", v.np, v.ret)
	if v.ret == 'o' {
		callee += strconv.Itoa(v.out)
	}
	switch v.ff {
	case 'n':
		def = "func " + callee + "(" + strings.Join(params, ",") + "){" + body + "};"
	case 'f':
		def = callee + "=func(" + strings.Join(params, ",") + "){" + body + "};"
	default:
		callee = "((" + strings.Join(params, ",") + ")=>{" + body + "})"
	}
	var pre, as []string
	for i, a := range v.args {
		switch a.kind {
		case 'v':
			as = append(as, vname(int(a.n)))
		case 'e':
			as = append(as, "["+vname(int(a.n))+"][0]")
		case 'l':
			l := "ll" + strconv.Itoa(i)
			pre = append(pre, l+"="+vname(int(a.n)))
			as = append(as, l)
		case 'p':
			as = append(as, "pp")
		default:
			as = append(as, strconv.FormatInt(a.n, 10))
		}
	}
	inner := wrapSrc(o.wrap, strings.Join(append(pre, callee+"("+strings.Join(as, ",")+")"), ";"))
	if v.hasP() {
		inner = "func(pp){" + inner + "}(" + vname(v.pv) + ")"
	}
	return def + vname(o.a) + "=" + inner
}

// the elements of a rendered array, split at the top level (values are integers, nil, arrays and maps: no quotes)
func splitTop(txt string) []string {
	txt = txt[1 : len(txt)-1]
	if txt == "" {
		return nil
	}
	var parts []string
	depth, start := 0, 0
	for i := 0; i < len(txt); i++ {
		switch txt[i] {
		case '[', '{':
			depth++
		case ']', '}':
			depth--
		case ',':
			if depth == 0 {
				parts = append(parts, txt[start:i])
				start = i + 1
			}
		}
	}
	return append(parts, txt[start:])
}

type vexp struct {
	err              bool
	res, out         string // renderings of the result variable and (ret 'o', outer variable bound) of `out`
	resKind, outKind byte
	setsOut          bool
}

func arrKind(n int) byte {
	if n > 8 {
		return 'b'
	}
	return 's'
}

// the harness's own reference semantics of a variadic call, on renderings: arguments are VALUES taken when the call is made;
// a last argument that is an array is spread; p0.. take the first np, `..` is the array of the others
func (o op) vExpect(before [nVars]binding) vexp {
	v := o.v
	var vals []string
	lastArr := false
	for _, a := range v.args {
		lastArr = false
		switch a.kind {
		case 'i':
			vals = append(vals, strconv.FormatInt(a.n, 10))
		default:
			n := int(a.n)
			if a.kind == 'p' {
				n = v.pv
			}
			if !before[n].present {
				return vexp{err: true}
			}
			vals = append(vals, before[n].text)
			lastArr = isArr(before[n])
		}
	}
	if lastArr {
		vals = append(vals[:len(vals)-1:len(vals)-1], splitTop(vals[len(vals)-1])...)
	}
	if len(vals) < v.np {
		return vexp{err: true}
	}
	extra := vals[v.np:]
	dd := "[" + strings.Join(extra, ",") + "]"
	switch v.ret {
	case 'd':
		return vexp{res: dd, resKind: arrKind(len(extra))}
	case 's':
		if len(extra) == 0 {
			return vexp{err: true}
		}
		return vexp{res: "[" + strings.Join(extra[1:], ",") + "]", resKind: arrKind(len(extra) - 1)}
	case 'a':
		return vexp{res: "[" + dd + ",7]", resKind: 's'}
	case 'm':
		return vexp{res: "{1:" + dd + "}", resKind: 'S'}
	case 'p':
		if v.np > 0 {
			return vexp{res: "[" + vals[0] + "," + dd + "]", resKind: 's'}
		}
		return vexp{res: "[" + dd + ",7]", resKind: 's'}
	default:
		// an assignment inside vf to a name that is not bound outside makes a local of vf
		return vexp{res: "7", resKind: 'i', out: dd, outKind: arrKind(len(extra)), setsOut: before[v.out].present}
	}
}

func (o op) callTag() string {
	f := o.form
	if f == 0 {
		f = 'f'
	}
	return string(f) + o.wrap
}

func bodyEnc(b []prim) string {
	if len(b) == 0 {
		return "-"
	}
	parts := make([]string, len(b))
	for i, p := range b {
		parts[i] = p.enc()
	}
	return strings.Join(parts, "/")
}
func (o op) enc() string {
	switch o.kind {
	case 'Y':
		ws := make([]string, len(o.xw))
		for i, v := range o.xw {
			ws[i] = strconv.Itoa(v)
		}
		return "Y:" + o.xname + "." + Hx([]byte(o.xsrc)) + "." + Hx([]byte(o.ychk)) + "." + Hx([]byte(o.ywant)) + ":" + strings.Join(ws, ",")
	case 'X':
		parts := make([]string, len(o.xops))
		for i, q := range o.xops {
			parts[i] = q.enc()
		}
		return "X:" + o.xname + "." + Hx([]byte(o.xsrc)) + ":" + strings.Join(parts, "&")
	case 'V':
		return o.vEnc()
	case 'P':
		return "P:" + o.p.enc()
	case 'F':
		return fmt.Sprintf("F:%d,%d:%s", o.a, o.b, bodyEnc(o.body))
	default:
		if o.callTag() == "f" {
			return fmt.Sprintf("C:%d,%d:%s", o.a, o.b, bodyEnc(o.body))
		}
		return fmt.Sprintf("C:%d,%d,%s:%s", o.a, o.b, o.callTag(), bodyEnc(o.body))
	}
}
func (o op) src() string {
	parts := make([]string, len(o.body))
	for i, p := range o.body {
		parts[i] = p.src()
	}
	switch o.kind {
	case 'X', 'Y':
		return o.xsrc
	case 'V':
		return o.vSrc()
	case 'P':
		return o.p.src()
	case 'F':
		return fmt.Sprintf("for %s=%s{%s}", vname(o.a), vname(o.b), strings.Join(parts, ";"))
	default:
		inner := strings.Join(parts, ";")
		if inner != "" {
			inner = wrapSrc(o.wrap, inner) + ";"
		}
		inner += "pp"
		switch o.form {
		case 'l':
			return fmt.Sprintf("%s=(pp=>{%s})(%s)", vname(o.a), inner, vname(o.b))
		case 'n':
			return fmt.Sprintf("func cf(pp){%s};%s=cf(%s)", inner, vname(o.a), vname(o.b))
		}
		return fmt.Sprintf("%s=func(pp){%s}(%s)", vname(o.a), inner, vname(o.b))
	}
}
func (o op) writes() map[int]bool {
	w := map[int]bool{}
	switch o.kind {
	case 'X', 'Y':
		for _, v := range o.xw {
			w[v] = true
		}
	case 'V':
		w[o.a] = true
		if o.v.ret == 'o' {
			w[o.v.out] = true
		}
	case 'P':
		w[o.p.x] = true
	case 'F':
		w[o.a] = true
		for _, p := range o.body {
			w[p.x] = true
		}
	default:
		w[o.a] = true
		for _, p := range o.body {
			w[p.x] = true
		}
	}
	return w
}
func (o op) opName() string {
	switch o.kind {
	case 'X', 'Y':
		return o.xname
	case 'V':
		return "variadic"
	case 'P':
		return o.p.opName()
	case 'F':
		return "loop"
	default:
		if o.fnDepth() > 0 {
			return "nestedcall"
		}
		return "call"
	}
}

// number of function bodies between the statements and the body of the called function
func (o op) fnDepth() int { return strings.Count(o.wrap, "f") + strings.Count(o.wrap, "l") }

func encOps(ops []op) string {
	parts := make([]string, len(ops))
	for i, o := range ops {
		parts[i] = o.enc()
	}
	return strings.Join(parts, ";")
}

// ---- decoding (replay)
func decElem(s string) elem {
	n, _ := strconv.ParseInt(s[1:], 10, 64)
	return elem{isVar: s[0] == 'v', n: n}
}
func atoi(s string) int     { n, _ := strconv.Atoi(s); return n }
func atoi64(s string) int64 { n, _ := strconv.ParseInt(s, 10, 64); return n }
func decPrim(s string) prim {
	f := strings.Split(s, ",")
	p := prim{kind: f[0]}
	switch f[0] {
	case "AL":
		p.x = atoi(f[1])
		if f[2] != "-" {
			for _, e := range strings.Split(f[2], "|") {
				p.es = append(p.es, decElem(e))
			}
		}
	case "ML":
		p.x = atoi(f[1])
		if f[2] != "-" {
			for _, e := range strings.Split(f[2], "|") {
				kvp := strings.SplitN(e, ":", 2)
				p.kvs = append(p.kvs, kv{atoi64(kvp[0]), decElem(kvp[1])})
			}
		}
	case "CP", "RS":
		p.x, p.y = atoi(f[1]), atoi(f[2])
	case "IS":
		p.x, p.i, p.e = atoi(f[1]), atoi64(f[2]), decElem(f[3])
	case "PL":
		p.x, p.y, p.e = atoi(f[1]), atoi(f[2]), decElem(f[3])
		if len(f) > 4 && f[4] != "" {
			p.via = f[4][0]
		}
	case "RP", "GT":
		p.x, p.y, p.i = atoi(f[1]), atoi(f[2]), atoi64(f[3])
	case "SL":
		p.x, p.y, p.i, p.j = atoi(f[1]), atoi(f[2]), atoi64(f[3]), atoi64(f[4])
	case "DL", "IN":
		p.x, p.i = atoi(f[1]), atoi64(f[2])
	case "UB":
		p.x = atoi(f[1])
	}
	return p
}
func decOps(s string) []op {
	var ops []op
	for _, os := range strings.Split(s, ";") {
		k := os[0]
		rest := os[2:]
		if k == 'P' {
			ops = append(ops, op{kind: 'P', p: decPrim(rest)})
			continue
		}
		if k == 'V' {
			ops = append(ops, decV(rest))
			continue
		}
		if k == 'Y' {
			i := strings.IndexByte(rest, ':')
			hd := strings.Split(rest[:i], ".")
			o := op{kind: 'Y', xname: hd[0], xsrc: string(Unhx(hd[1])), ychk: string(Unhx(hd[2])), ywant: string(Unhx(hd[3]))}
			if rest[i+1:] != "" {
				for _, w := range strings.Split(rest[i+1:], ",") {
					o.xw = append(o.xw, atoi(w))
				}
			}
			ops = append(ops, o)
			continue
		}
		if k == 'X' {
			i := strings.IndexByte(rest, ':')
			hd := strings.SplitN(rest[:i], ".", 2)
			o := op{kind: 'X', xname: hd[0], xsrc: string(Unhx(hd[1]))}
			for _, q := range decOps(strings.ReplaceAll(rest[i+1:], "&", ";")) {
				o.xops = append(o.xops, q)
				for v := range q.writes() {
					if v < nVars {
						o.xw = append(o.xw, v)
					}
				}
			}
			ops = append(ops, o)
			continue
		}
		i := strings.IndexByte(rest, ':')
		hd := strings.Split(rest[:i], ",")
		o := op{kind: k, a: atoi(hd[0]), b: atoi(hd[1])}
		if len(hd) > 2 && hd[2] != "" {
			o.form, o.wrap = hd[2][0], hd[2][1:]
		}
		if rest[i+1:] != "-" {
			for _, ps := range strings.Split(rest[i+1:], "/") {
				o.body = append(o.body, decPrim(ps))
			}
		}
		ops = append(ops, o)
	}
	return ops
}

// ---- running on the real interpreter
type binding struct {
	kind    byte // i n s b S B ?
	text    string
	length  int
	present bool
}

type session struct {
	s    *eval.State
	opts repl.Options
}

func newSession() *session {
	s := eval.NewState()
	out := &strings.Builder{}
	s.Out, s.LogOut, s.NoLog = out, out, true
	se := &session{s: s, opts: repl.Options{All: true, ShowEval: true, NoColor: true, NilAndErr: true}}
	se.exec("idf=func(x){x}")       // hands its argument back as is
	se.exec("mkp=func(n){(0:9)+n}") // pure: its result is memoized, every call with the same n returns the same array
	se.exec("vfn=func(..){..}")     // hands back its `..`: an array made by the evaluator from the call's arguments
	se.exec("mkc=func(n){()=>n}")   // closures that print alike
	return se
}

// run one statement through repl.EvalOne: ("ok=<inspect>" | "err", panicked)
func (se *session) exec(src string) (string, bool, []string) {
	out := &strings.Builder{}
	se.s.Out, se.s.LogOut = out, out
	_, panicked, errs, _ := repl.EvalOne(context.Background(), se.s, src, out, se.opts)
	se.s.Context = nil // EvalOne leaves its cancelled context behind; reads below go through EvalString
	if panicked {
		return "panic", true, errs
	}
	if len(errs) > 0 {
		return "err", false, errs
	}
	return "ok=" + strings.TrimSpace(out.String()), false, nil
}

// exact rendering: floats with a fraction (1.0, -0.0), so that an integer and the float of the same value differ
func exact(o object.Object) string {
	switch x := o.(type) {
	case object.Integer:
		return strconv.FormatInt(x.Value, 10)
	case object.Float:
		if x.Value == 0 && math.Signbit(x.Value) {
			return "-0.0"
		}
		s := strconv.FormatFloat(x.Value, 'f', -1, 64)
		if !strings.ContainsAny(s, ".eIN") {
			s += ".0"
		}
		return s
	}
	if o.Type() == object.ARRAY {
		els := object.Elements(o)
		parts := make([]string, len(els))
		for i, e := range els {
			parts[i] = exact(e)
		}
		return "[" + strings.Join(parts, ",") + "]"
	}
	if m, ok := o.(object.Map); ok {
		keys := object.Elements(o)
		parts := make([]string, len(keys))
		for i, k := range keys {
			v, _ := m.Get(k)
			parts[i] = exact(k) + ":" + exact(v)
		}
		return "{" + strings.Join(parts, ",") + "}"
	}
	return o.Inspect()
}

func kindOf(o object.Object) byte {
	switch o.(type) {
	case object.Integer:
		return 'i'
	case object.Null:
		return 'n'
	case object.SmallArray:
		return 's'
	case object.BigArray:
		return 'b'
	case object.SmallMap, *object.SmallMap:
		return 'S'
	case *object.BigMap:
		return 'B'
	}
	return '?'
}

func (se *session) read() [nVars]binding {
	var bs [nVars]binding
	for v := 0; v < nVars; v++ {
		o, err := eval.EvalString(se.s, vname(v), false)
		if err != nil {
			continue
		}
		bs[v] = binding{kind: kindOf(o), text: safeInspect(o), length: object.Len(o), present: true}
	}
	return bs
}

// a value corrupted by in-place sharing can hold nil objects: Inspect then crashes at the Go level
func safeInspect(o object.Object) (txt string) {
	defer func() {
		if r := recover(); r != nil {
			txt = fmt.Sprintf("<INSPECT PANIC %v>", r)
		}
	}()
	return o.Inspect()
}

func obsBindings(bs [nVars]binding) string {
	var parts []string
	for v := 0; v < nVars; v++ {
		if bs[v].present {
			parts = append(parts, fmt.Sprintf("v%d=%c%s", v, bs[v].kind, bs[v].text))
		}
	}
	return strings.Join(parts, " ")
}

func reprName(k byte) string {
	switch k {
	case 'b':
		return "bigarray"
	case 's':
		return "smallarray"
	case 'B':
		return "bigmap"
	case 'S':
		return "smallmap"
	}
	return "scalar"
}

// one sequence = one correspondence case + the direct oracle on every step.
// The statements come from `next` (given the bindings read back so far), so a generator can aim at the live state;
// a failure is reported with the prefix of the sequence that ends at the failing statement.
// The same statement with a call FLATTENED: pp=<arg>; the body statements one by one at top level (stopping at the
// first error, as the function would); r=pp; del(pp). With containers as values this is what the call does, whatever
// the nesting of functions the body sits in - so a second session running the flattened form must show the same
// bindings after every statement (model-free: the implementation against itself in another scope).
// ok = false: the statement cannot be flattened (a body statement assigns a name that is unbound: a local).
func (tw *session) execFlat(o op, before [nVars]binding) bool {
	if o.kind != 'C' {
		tw.exec(o.src())
		return true
	}
	for _, p := range o.body {
		if p.kind == "UB" || (p.x != paramVar && (p.x >= nVars || !before[p.x].present)) {
			tw.exec(o.src())
			return false
		}
	}
	if res, _, _ := tw.exec("pp=" + vname(o.b)); res != "err" {
		ok := true
		for _, p := range o.body {
			if r, _, _ := tw.exec(p.src()); r == "err" {
				ok = false
				break
			}
		}
		if ok {
			tw.exec(vname(o.a) + "=pp")
		}
	}
	tw.exec("del(pp)")
	return true
}

func c06Run(c *wctx, slack int, next func(step int, bs [nVars]binding) (op, bool)) {
	se := newSession()
	tw := newSession() // the flattened twin
	twValid := true
	prefix := fmt.Sprintf("SEQ F %d ", slack)
	c.emit("B", prefix)
	var encs, obs []string
	var srcs, results, opNames []string // what ran, and what each statement printed: replayed UNOBSERVED below
	var seen [][nVars]binding            // the bindings read after each statement
	before := se.read()
	sensitive := false
	line := ""
	var fromVariadic [nVars]bool // the binding holds what a variadic call kept of its `..`
	for idx := 0; ; idx++ {
		o, more := next(idx, before)
		if !more {
			break
		}
		encs = append(encs, o.enc())
		line = prefix + strings.Join(encs, ";")
		c.inflight(o.enc(), o.opName()) // flushed before the interpreter runs: the parent knows what was running if this process dies
		var want vexp
		if o.kind == 'V' {
			want = o.vExpect(before)
		}
		res, panicked, errs := se.exec(o.src())
		c.Eval()
		srcs, results, opNames = append(srcs, o.src()), append(results, res), append(opNames, o.opName())
		if panicked {
			c.Fail("panic-"+o.opName(), line, fmt.Sprintf("step %d %q: %v", idx, o.src(), errs))
		}
		if res == "err" && len(errs) > 0 && strings.Contains(errs[0], "parse") {
			c.Fail("harness-unparsable-statement", line, fmt.Sprintf("step %d %q: %v", idx, o.src(), errs))
		}
		after := se.read()
		if o.kind == 'Y' && o.ychk != "" && res != "err" {
			got := "<error>"
			if r, err := eval.EvalString(se.s, o.ychk, false); err == nil {
				got = exact(r)
			}
			if got != o.ywant {
				c.Fail("write-lost-"+o.xname, line, fmt.Sprintf("step %d %q: %s is %s afterwards, expected %s", idx, o.src(), o.ychk, got, o.ywant))
			}
		}
		if twValid {
			twValid = tw.execFlat(o, before)
			if twValid {
				flat := tw.read()
				for v := 0; v < nVars; v++ {
					if flat[v].present != after[v].present || flat[v].text != after[v].text {
						c.Fail("infunction-differs-"+reprName(after[v].kind)+"-"+o.opName(), line,
							fmt.Sprintf("step %d %q: %s is %s, the same statements at top level give %s", idx, o.src(), vname(v), after[v].text, flat[v].text))
						twValid = false // report the first divergence only
						break
					}
				}
			}
		}
		for v := 0; v < nVars; v++ {
			if after[v].present && strings.HasPrefix(after[v].text, "<INSPECT PANIC") {
				c.Fail("corrupt-value-"+o.opName(), line, fmt.Sprintf("step %d %q: %s holds a nil object: %s", idx, o.src(), vname(v), after[v].text))
			}
		}
		w := o.writes()
		for v := 0; v < nVars; v++ {
			if !before[v].present || w[v] {
				continue
			}
			if before[v].kind == 'b' || before[v].kind == 'B' {
				// another live large container while something is written: the aliasing-sensitive situation
				if o.opName() != "literal" && o.opName() != "get" {
					sensitive = true
				}
			}
			if !after[v].present || after[v].text != before[v].text {
				what := reprName(before[v].kind)
				if fromVariadic[v] {
					what = "variadic" // narrower: the changed value is what a variadic call made of its extra arguments
				}
				c.Fail("alias-"+what+"-"+o.opName(), line,
					fmt.Sprintf("step %d %q changed %s: %s -> %s", idx, o.src(), vname(v), before[v].text, after[v].text))
			}
		}
		for v := range w {
			if v < nVars {
				fromVariadic[v] = false
			}
		}
		if o.kind == 'V' {
			// the call itself, against the harness's reference semantics (values of the arguments when the call is made)
			r := o.a
			switch {
			case want.err:
				if res != "err" {
					c.Fail("variadic-call-accepted", line, fmt.Sprintf("step %d %q: an error was expected (unbound argument / too few arguments / empty `..` sliced), got %s", idx, o.src(), res))
				}
			case res == "err":
				c.Fail("variadic-call-error", line, fmt.Sprintf("step %d %q: %v, expected %s=%s", idx, o.src(), errs, vname(r), want.res))
			default:
				if !after[r].present || after[r].text != want.res || after[r].kind != want.resKind {
					c.Fail("variadic-result-"+string(o.v.ret), line, fmt.Sprintf("step %d %q: %s=%c%s, expected %c%s", idx, o.src(), vname(r), after[r].kind, after[r].text, want.resKind, want.res))
				}
				fromVariadic[r] = o.v.ret != 'o'
				if q := o.v.out; want.setsOut && q != r {
					if !after[q].present || after[q].text != want.out || after[q].kind != want.outKind {
						c.Fail("variadic-result-o", line, fmt.Sprintf("step %d %q: %s=%c%s, expected %c%s", idx, o.src(), vname(q), after[q].kind, after[q].text, want.outKind, want.out))
					}
					fromVariadic[q] = true
				}
			}
			d := o.fnDepth()
			if o.v.hasP() {
				d++
			}
			c.Count("variadic=" + string(o.v.ret) + string(o.v.ff) + "/site-depth" + strconv.Itoa(d))
		}
		c.Count("op=" + o.opName())
		if o.kind == 'C' {
			c.Count("callform=" + o.callTag()[:1] + "/depth" + strconv.Itoa(o.fnDepth()))
		}
		if res == "err" {
			c.Count("outcome=err")
		} else {
			c.Count("outcome=ok")
		}
		if o.kind == 'X' && strings.HasPrefix(res, "ok=") {
			res = "ok" // the value of such a statement (a function text, ...) is not part of the observation
		}
		obs = append(obs, strings.TrimSpace(res+" "+obsBindings(after)))
		seen = append(seen, after)
		before = after
		tooBig := false
		for v := 0; v < nVars; v++ {
			if after[v].present && len(after[v].text) > 3000 {
				tooBig = true
			}
		}
		if tooBig { // a value blew up (nesting doubles renderings): end the sequence here
			break
		}
	}
	if len(encs) == 0 {
		return
	}
	// The same statements on a fresh state with NOTHING read in between (reading a name goes through Environment.Get,
	// which an implementation may use as its signal that the value has been handed out): what every statement prints
	// and every binding read once at the end must be what the observed run saw.
	// The whole sequence, and two of its prefixes (a later statement may overwrite the binding that would tell).
	cuts := []int{len(srcs)}
	if n := len(srcs); n > 2 {
		h := 0
		for _, ch := range []byte(line) {
			h = (h*31 + int(ch)) & 0xffffff
		}
		k1, k2 := 2+h%(n-2), 2+(h/97)%(n-2)
		cuts = append(cuts, k1)
		if k2 != k1 {
			cuts = append(cuts, k2)
		}
	}
	for _, k := range cuts {
		un := newSession()
		lastOp, ok := opNames[k-1], true
		cutLine := prefix + strings.Join(encs[:k], ";")
		for i, src := range srcs[:k] {
			r, _, _ := un.exec(src)
			c.Eval()
			if r != results[i] {
				c.Fail("unobserved-differs-result-"+opNames[i], prefix+strings.Join(encs[:i+1], ";"),
					fmt.Sprintf("step %d %q prints %s when no binding is read between the statements, %s when all are", i, src, r, results[i]))
				ok = false
				break
			}
		}
		if !ok {
			break
		}
		final, want := un.read(), seen[k-1]
		for v := 0; v < nVars; v++ {
			if final[v].present != want[v].present || final[v].text != want[v].text {
				c.Fail("unobserved-differs-"+reprName(want[v].kind)+"-"+lastOp, cutLine,
					fmt.Sprintf("%s is %s after the last statement when no binding is read between the statements, %s when all are read after every statement", vname(v), final[v].text, want[v].text))
				ok = false
				break
			}
		}
		if !ok {
			break
		}
	}
	for v := 0; v < nVars; v++ {
		if before[v].present {
			c.Count(fmt.Sprintf("final=%c", before[v].kind))
		}
	}
	if sensitive {
		c.NonTrivial(line)
	}
	c.Case(line, strings.Join(obs, " | "))
}

func c06Seq(c *wctx, ops []op, slack int) {
	c06Run(c, slack, func(i int, _ [nVars]binding) (op, bool) {
		if i < len(ops) {
			return ops[i], true
		}
		return op{}, false
	})
}

// ---- generators
func ints(from, n int) []elem {
	es := make([]elem, n)
	for i := range es {
		es[i] = elem{n: int64(from + i)}
	}
	return es
}
func arrLit(x, n int) op { return op{kind: 'P', p: prim{kind: "AL", x: x, es: ints(1, n)}} }
func mapLit(x, n int) op {
	p := prim{kind: "ML", x: x}
	for i := 1; i <= n; i++ {
		p.kvs = append(p.kvs, kv{int64(i), elem{n: int64(i)}})
	}
	return op{kind: 'P', p: p}
}
func P(kind string, x, y int, i, j int64, e elem) op {
	return op{kind: 'P', p: prim{kind: kind, x: x, y: y, i: i, j: j, e: e}}
}
func I(n int64) elem { return elem{n: n} }
func V(v int) elem   { return elem{isVar: true, n: int64(v)} }

// c<slot> = a closure over a LOCAL array of n zeros that increments element 0 and returns the array
func mkCounter(slot, n int) op {
	zs := make([]string, n)
	for i := range zs {
		zs[i] = "0"
	}
	es := make([]elem, n)
	return op{kind: 'X', xname: "closure", xsrc: fmt.Sprintf("c%d=func(){st=[%s];()=>{st[0]=st[0]+1;st}}()", slot, strings.Join(zs, ",")),
		xops: []op{{kind: 'P', p: prim{kind: "AL", x: 20 + slot, es: es}}}}
}

// v<x> = c<slot>()
func callCounter(x, slot int) op {
	return op{kind: 'X', xname: "closurecall", xsrc: fmt.Sprintf("%s=c%d()", vname(x), slot), xw: []int{x},
		xops: []op{{kind: 'P', p: prim{kind: "IN", x: 20 + slot, i: 0}}, {kind: 'P', p: prim{kind: "CP", x: x, y: 20 + slot}}}}
}

// v<x> = mkp(n)+e : the left operand is the memoized result of a pure function ([0..8,n], with spare capacity)
func memoPlus(x int, n int64, e elem) op {
	es := append(ints(0, 9), I(n))
	return op{kind: 'X', xname: "memoplus", xsrc: fmt.Sprintf("%s=mkp(%d)+%s", vname(x), n, e.src()), xw: []int{x},
		xops: []op{{kind: 'P', p: prim{kind: "AL", x: 22, es: es}}, {kind: 'P', p: prim{kind: "PL", x: x, y: 22, e: e}}}}
}

// v<x> = vfn(e1,...,en): the `..` array of a variadic call, handed back (an array the evaluator made from the arguments)
func variadicLit(x int, es []elem) op {
	parts := make([]string, len(es))
	for i, e := range es {
		parts[i] = e.src()
	}
	return op{kind: 'X', xname: "variadicresult", xsrc: vname(x) + "=vfn(" + strings.Join(parts, ",") + ")", xw: []int{x},
		xops: []op{{kind: 'P', p: prim{kind: "AL", x: x, es: es}}}}
}

// a raw statement, direct oracle only
func raw(name, src string, w []int, chk, want string) op {
	return op{kind: 'Y', xname: name, xsrc: src, xw: w, ychk: chk, ywant: want}
}

func plusVia(x, y int, e elem, via byte) op {
	return op{kind: 'P', p: prim{kind: "PL", x: x, y: y, e: e, via: via}}
}
func bodyCall(r, y int, wrap string, body ...prim) op {
	return op{kind: 'C', a: r, b: y, form: 'f', wrap: wrap, body: body}
}

func corpus() [][]op {
	base := corpusBase()
	// write / copy / write INSIDE one function on OUTER variables; closures over a local array called twice
	for _, n := range []int{3, 8, 9, 12} {
		for _, wrap := range []string{"", "f", "l", "fo"} {
			base = append(base, []op{arrLit(0, n), arrLit(1, 1), arrLit(2, 2),
				bodyCall(3, 2, wrap, prim{kind: "IS", x: 0, i: 0, e: I(100)}, prim{kind: "CP", x: 1, y: 0}, prim{kind: "IS", x: 0, i: 1, e: I(200)}),
				bodyCall(3, 0, wrap, prim{kind: "IS", x: paramVar, i: 0, e: I(7)}, prim{kind: "CP", x: 1, y: paramVar}, prim{kind: "IS", x: paramVar, i: 1, e: I(8)},
					prim{kind: "IS", x: 0, i: 2, e: I(9)}, prim{kind: "CP", x: 2, y: 0}, prim{kind: "IS", x: 0, i: -1, e: I(10)}),
				bodyCall(4, 0, wrap, prim{kind: "PL", x: 0, y: 0, e: I(5)}, prim{kind: "CP", x: 1, y: 0}, prim{kind: "IS", x: 0, i: 0, e: I(1)}, prim{kind: "IN", x: 0, i: 1})})
		}
		base = append(base, []op{mkCounter(0, n), callCounter(0, 0), callCounter(1, 0), mkCounter(1, n), callCounter(2, 1), callCounter(3, 0),
			P("IS", 0, 0, 1, 0, I(55)), callCounter(4, 0), callCounter(5, 1)})
	}
	// + whose left operand is a CALL returning a shared array (identity, getter, memoized maker), twice from one source
	for _, n := range []int{3, 8, 9, 12} {
		for _, via := range []byte{'i', 'g'} {
			base = append(base, []op{arrLit(0, n), P("PL", 1, 0, 0, 0, I(9)), arrLit(5, 1),
				plusVia(2, 1, V(5), via), plusVia(3, 1, V(5), via), plusVia(4, 1, I(60), via), plusVia(6, 1, I(70), via),
				P("IS", 2, 0, -1, 0, I(0)), plusVia(7, 2, I(1), via)})
		}
	}
	// arrays made by the evaluator from call arguments (`..`), 8 / 9 / 12 of them, kept, copied, stored, and observed after
	// FURTHER calls of every kind
	for _, n := range []int{3, 8, 9, 12} {
		base = append(base, []op{variadicLit(0, ints(1, n)), P("CP", 1, 0, 0, 0, elem{}), plusVia(2, 1, I(5), 'i'), variadicLit(3, ints(11, n)),
			op{kind: 'P', p: prim{kind: "AL", x: 4, es: []elem{V(0), V(3)}}}, bodyCall(5, 3, "", prim{kind: "IS", x: paramVar, i: 0, e: I(7)}),
			callCounter(6, 0), memoPlus(6, 1, I(2)), variadicLit(7, []elem{V(0), I(1), I(2)}), P("IS", 0, 0, 0, 0, I(99)), variadicLit(7, ints(21, 3)),
			plusVia(2, 0, I(1), 'g')})
	}
	// a write of a value that is == to the current one but not identical (1 / 1.0, 0.0 / -0.0, closures that print
	// alike), in small and large containers, with another holder of the container: the element must be the new value
	for _, n := range []int{3, 8, 9, 12} {
		base = append(base, []op{arrLit(0, n), P("CP", 1, 0, 0, 0, elem{}),
			raw("indexassign-equalvalue", "v0[0]=1.00", []int{0}, "v0[0]", "1.0"), raw("indexassign-equalvalue", "v0[1]=0.00", []int{0}, "v0[1]", "0.0"),
			raw("indexassign-equalvalue", "v0[1]=-0.0", []int{0}, "v0[1]", "-0.0"), raw("indexassign-equalvalue", "v0[1]=0", []int{0}, "v0[1]", "0"),
			raw("indexassign-equalvalue", "v0[2]=mkc(1)", []int{0}, "v0[2]()", "1"), raw("indexassign-equalvalue", "v0[2]=mkc(2)", []int{0}, "v0[2]()", "2"),
			raw("read", "v2=v1", []int{2}, "v1", func() string {
				p := make([]string, n)
				for i := range p {
					p[i] = strconv.Itoa(i + 1)
				}
				return "[" + strings.Join(p, ",") + "]"
			}())})
	}
	for _, n := range []int{3, 4, 5, 7} {
		base = append(base, []op{mapLit(0, n), P("CP", 1, 0, 0, 0, elem{}),
			raw("indexassign-equalvalue", "v0[1]=1.00", []int{0}, "v0[1]", "1.0"), raw("indexassign-equalvalue", "v0[2]=mkc(1)", []int{0}, "v0[2]()", "1"),
			raw("indexassign-equalvalue", "v0[2]=mkc(2)", []int{0}, "v0[2]()", "2"), raw("indexassign-equalvalue", "v0[3]=-0.0", []int{0}, "v0[3]", "-0.0"),
			raw("indexassign-equalvalue", "v0[3]=0.00", []int{0}, "v0[3]", "0.0"), raw("read", "v2=v1[1]", []int{2}, "v1[1]", "1")})
	}
	// VIEWS of a grown array (rest, [1:], [:n-1], rest of rest, first+rest, a + result that kept spare capacity), then +
	// on the view and on the original, in both orders, and the original re-bound to its own + in between
	for _, n := range []int{7, 8, 9, 10, 12} {
		for grow := 0; grow <= 3; grow++ {
			ln := int64(n + grow)
			views := [][]op{
				{P("RS", 1, 0, 0, 0, elem{})}, {P("SL", 1, 0, 1, ln, elem{})}, {P("SL", 1, 0, 0, ln-1, elem{})},
				{P("RS", 1, 0, 0, 0, elem{}), P("RS", 1, 1, 0, 0, elem{})}, {P("SL", 1, 0, 2, ln, elem{})}, {P("PL", 1, 0, 0, 0, I(40))},
				{P("RS", 6, 0, 0, 0, elem{}), P("RS", 1, 6, 0, 0, elem{})},
			}
			for _, view := range views {
				pre := []op{arrLit(0, n)}
				for g := 0; g < grow; g++ {
					pre = append(pre, P("PL", 0, 0, 0, 0, I(int64(30+g))))
				}
				pre = append(pre, view...)
				seq := func(tail ...op) []op { return append(append([]op{}, pre...), tail...) }
				base = append(base,
					seq(P("PL", 2, 1, 0, 0, I(77)), P("PL", 3, 0, 0, 0, I(88)), P("PL", 4, 1, 0, 0, I(66)), P("IS", 1, 0, 0, 0, I(55)), P("IS", 0, 0, -1, 0, I(54))),
					seq(P("PL", 3, 0, 0, 0, I(88)), P("PL", 2, 1, 0, 0, I(77)), P("PL", 0, 0, 0, 0, I(11)), P("PL", 4, 1, 0, 0, I(99)), P("PL", 1, 1, 0, 0, I(12)), P("PL", 5, 0, 0, 0, I(13))),
					seq(P("PL", 0, 0, 0, 0, I(11)), P("PL", 4, 1, 0, 0, I(99)), call(5, 1, 'f', "f", prim{kind: "PL", x: paramVar, y: paramVar, e: I(-1)}),
						call(5, 0, 'l', "", prim{kind: "PL", x: paramVar, y: paramVar, e: I(-2)}), P("PL", 1, 1, 0, 0, V(0))))
			}
		}
	}
	// write - read THROUGH A CLOSURE - write: the copy is taken by a function that reads the variable as an outer variable
	// (returned, stored in another global, stored inside a container); the name itself is not read in between - so these
	// only tell in the unobserved replay of the sequence
	for _, n := range []int{3, 8, 9, 12} {
		for _, m := range []bool{false, true} {
			lit := arrLit(0, n)
			if m {
				lit = mapLit(0, n/2+1) // 2, 5, 5, 7
			}
			takes := func(d int) []op { // v<d> is bound beforehand: a function body assigning it writes the outer variable
				dn := vname(d)
				return []op{
					call(4, 2, 'f', "", prim{kind: "CP", x: d, y: 0}), call(4, 2, 'l', "f", prim{kind: "CP", x: d, y: 0}), call(4, 2, 'n', "", prim{kind: "CP", x: d, y: 0}),
					raw("closurecopy", dn+"=func(){v0}()", []int{d}, "", ""), raw("closurecopy", dn+"=[0];func(){"+dn+"[0]=v0}()", []int{d}, "", ""),
					raw("closurecopy", dn+"=func(){[v0,1]}()", []int{d}, "", ""), raw("closurecopy", dn+"=func(){{1:v0}}()", []int{d}, "", ""),
					raw("closurecopy", "for 1{"+dn+"=func(){v0}()}", []int{d}, "", ""),
				}
			}
			t1, t3 := takes(1), takes(3)
			for i := range t1 {
				base = append(base, []op{lit, arrLit(1, 1), arrLit(2, 1), arrLit(3, 1), P("IS", 0, 0, 1, 0, I(100)), t1[i], P("IS", 0, 0, 2, 0, I(200)), P("IS", 0, 0, 1, 0, I(300)),
					t3[i], P("IS", 0, 0, 2, 0, I(400)), P("IN", 0, 0, 1, 0, elem{}), P("DL", 0, 0, 2, 0, elem{})})
			}
		}
	}
	base = append(base, []op{arrLit(5, 1), memoPlus(0, 1, V(5)), memoPlus(1, 1, V(5)), memoPlus(2, 1, I(6)), memoPlus(3, 2, I(7)), memoPlus(4, 1, I(8)),
		P("IS", 0, 0, 0, 0, I(99)), memoPlus(6, 1, I(9))})
	return base
}

func corpusBase() [][]op {
	return [][]op{
		// a=[1..10];b=a;b[0]=99;a[0]
		{arrLit(0, 10), P("CP", 1, 0, 0, 0, elem{}), P("IS", 1, 0, 0, 0, I(99)), P("GT", 2, 0, 0, 0, elem{})},
		// a=[1..9];b=a+[10];x=b+[11];y=b+[12];x   (element and array forms)
		{arrLit(0, 9), P("PL", 1, 0, 0, 0, I(10)), P("PL", 2, 1, 0, 0, I(11)), P("PL", 3, 1, 0, 0, I(12))},
		{arrLit(0, 9), op{kind: 'P', p: prim{kind: "AL", x: 4, es: ints(10, 1)}}, P("PL", 1, 0, 0, 0, V(4)), P("PL", 2, 1, 0, 0, V(4)), P("PL", 3, 1, 0, 0, V(0))},
		// big map: n=m;n[1]=99;m[1] ; del(n[2]) ; callee x[1]=42
		{mapLit(0, 5), P("CP", 1, 0, 0, 0, elem{}), P("IS", 1, 0, 1, 0, I(99)), P("GT", 2, 0, 1, 0, elem{}), P("DL", 1, 0, 2, 0, elem{}),
			{kind: 'C', a: 3, b: 0, body: []prim{{kind: "IS", x: paramVar, i: 1, e: I(42)}}}},
		// insertion of a new key into a shared big map, and into a re-sliced one
		{mapLit(0, 6), P("CP", 1, 0, 0, 0, elem{}), P("IS", 1, 0, 9, 0, I(7)), P("SL", 2, 0, 0, 5, elem{}), P("IS", 2, 0, 0, 0, I(5)), P("RS", 3, 0, 0, 0, elem{}), P("DL", 3, 0, 3, 0, elem{})},
		// slice of a big array then append: writes into the parent's elements
		{arrLit(0, 12), P("SL", 1, 0, 0, 9, elem{}), P("PL", 2, 1, 0, 0, I(77)), P("RS", 3, 0, 0, 0, elem{}), P("IS", 3, 0, 0, 0, I(55))},
		// array literal inside a function holding an outer variable: g=[1,2];r=func(){[g,7]}();g=5;r
		{arrLit(0, 2), arrLit(1, 1), {kind: 'C', a: 2, b: 1, body: []prim{{kind: "AL", x: paramVar, es: []elem{V(0), I(7)}}}}, op{kind: 'P', p: prim{kind: "AL", x: 0, es: ints(5, 1)}}},
		// nested: store a big array inside another container, then mutate either
		{arrLit(0, 10), arrLit(1, 3), P("IS", 1, 0, 0, 0, V(0)), P("IS", 0, 0, 0, 0, I(99)), P("GT", 2, 1, 0, 0, elem{}), P("IS", 2, 0, 1, 0, I(98)), P("IN", 1, 0, 0, 0, elem{})},
		// loop variable bound to nested big containers and mutated in the body
		{arrLit(0, 9), mapLit(1, 5), op{kind: 'P', p: prim{kind: "AL", x: 2, es: []elem{V(0), V(0)}}},
			{kind: 'F', a: 3, b: 2, body: []prim{{kind: "IS", x: 3, i: 0, e: I(99)}, {kind: "PL", x: 4, y: 3, e: I(1)}}}},
		// crossing the thresholds downwards and upwards
		{mapLit(0, 5), P("CP", 1, 0, 0, 0, elem{}), P("DL", 0, 0, 1, 0, elem{}), P("DL", 0, 0, 2, 0, elem{}), P("IS", 0, 0, 7, 0, I(7)), P("IS", 0, 0, 8, 0, I(8)),
			arrLit(2, 8), P("PL", 3, 2, 0, 0, I(9)), P("SL", 4, 3, 0, 8, elem{}), P("IS", 4, 0, 0, 0, I(0)), P("RP", 5, 2, 2, 0, elem{}), P("IS", 5, 0, -1, 0, I(0))},
		// index assignment to an OUTER large array inside a function body (reached through a Reference), depth 0 and 2, lambda, named
		{arrLit(0, 12), P("CP", 1, 0, 0, 0, elem{}), call(4, 1, 'f', "", prim{kind: "IS", x: 0, i: 0, e: I(99)}),
			call(4, 1, 'l', "fl", prim{kind: "IS", x: 0, i: 1, e: I(98)}), call(5, 0, 'n', "o", prim{kind: "IS", x: 1, i: 2, e: I(97)}, prim{kind: "IN", x: 0, i: 3})},
		// the same for a large map, and for a container stored inside another one
		{mapLit(0, 6), op{kind: 'P', p: prim{kind: "AL", x: 1, es: []elem{V(0), I(1)}}}, call(4, 1, 'f', "f", prim{kind: "IS", x: 0, i: 1, e: I(99)}, prim{kind: "DL", x: 0, i: 2}),
			arrLit(2, 9), op{kind: 'P', p: prim{kind: "ML", x: 3, kvs: []kv{{1, V(2)}}}}, call(4, 3, 'f', "i", prim{kind: "IS", x: 2, i: 0, e: I(96)}, prim{kind: "PL", x: 2, y: 2, e: I(5)})},
		// fork: m grown by a merge (spare capacity), then two merges from the same m; and a window of a bigger map merged
		{mapLit(0, 5), op{kind: 'P', p: prim{kind: "ML", x: 6, kvs: []kv{{6, I(6)}}}}, P("PL", 0, 0, 0, 0, V(6)),
			op{kind: 'P', p: prim{kind: "ML", x: 5, kvs: []kv{{7, I(7)}}}}, op{kind: 'P', p: prim{kind: "ML", x: 7, kvs: []kv{{8, I(8)}}}},
			P("PL", 2, 0, 0, 0, V(5)), P("PL", 3, 0, 0, 0, V(7))},
		{mapLit(7, 8), P("SL", 0, 7, 0, 6, elem{}), op{kind: 'P', p: prim{kind: "ML", x: 6, kvs: []kv{{9, I(9)}}}}, P("PL", 2, 0, 0, 0, V(6)),
			P("DL", 0, 0, 1, 0, elem{}), P("PL", 3, 0, 0, 0, V(6)), P("PL", 4, 0, 0, 0, V(2))},
		// fork of an array with spare capacity: grown by append, shrunk by a slice
		{arrLit(0, 8), P("PL", 0, 0, 0, 0, I(9)), P("PL", 0, 0, 0, 0, I(10)), P("PL", 2, 0, 0, 0, I(11)), P("PL", 3, 0, 0, 0, I(12)),
			P("SL", 0, 0, 0, 9, elem{}), P("PL", 4, 0, 0, 0, I(13)), call(5, 0, 'f', "f", prim{kind: "PL", x: paramVar, y: 0, e: I(14)})},
		// variadic calls made inside function bodies with outer variables as extra arguments; the arguments and the results change afterwards
		{arrLit(0, 3), mapLit(1, 5), vop(4, "f", 0, 'd', 'n', 0, 0, av(0), ai(5)), P("IS", 0, 0, 0, 0, I(99)), P("PL", 0, 0, 0, 0, I(4)),
			vop(5, "lf", 1, 'p', 'f', 0, 0, ai(1), av(1)), P("DL", 1, 0, 1, 0, elem{}), P("IS", 1, 0, 2, 0, I(98)), P("IS", 4, 0, 1, 0, I(97)), P("UB", 1, 0, 0, 0, elem{})},
		{arrLit(0, 12), mapLit(1, 3), arrLit(3, 1), vop(4, "o", 0, 'a', 'l', 0, 0, ap(), av(1), av(0)), vop(5, "ff", 2, 'o', 'n', 0, 3, al(1), ae(0), av(1), av(0), ai(2)),
			P("IS", 0, 0, -1, 0, I(99)), P("IS", 1, 0, 9, 0, I(98)), call(6, 1, 'f', "f", prim{kind: "IS", x: 0, i: 0, e: I(96)}), vop(6, "", 0, 's', 'n', 0, 0, av(1), av(0))},
		// a last argument that is an array is spread, also when it is an outer variable named inside a function body
		{arrLit(0, 3), arrLit(1, 9), vop(4, "", 0, 'd', 'n', 0, 0, av(0)), vop(5, "f", 0, 'd', 'n', 0, 0, av(0)), vop(6, "fl", 1, 'p', 'l', 0, 0, av(0), av(1)), vop(7, "", 0, 'm', 'f', 1, 0, ap())},
		// merge
		{mapLit(0, 3), mapLit(1, 5), P("PL", 2, 0, 0, 0, V(1)), P("PL", 3, 1, 0, 0, V(0)), P("IS", 2, 0, 1, 0, I(9)), P("IS", 3, 0, 1, 0, I(8)), op{kind: 'P', p: prim{kind: "ML", x: 4}}, P("PL", 5, 0, 0, 0, V(4))},
	}
}

type genState struct {
	bs [nVars]binding
}

func (g *genState) pick(c *wctx, pred func(b binding) bool) (int, bool) {
	var cands []int
	for v := 0; v < nVars; v++ {
		if g.bs[v].present && len(g.bs[v].text) <= 250 && pred(g.bs[v]) { // keeps renderings bounded (nesting doubles them)
			cands = append(cands, v)
		}
	}
	if len(cands) == 0 {
		return 0, false
	}
	return cands[c.R.Intn(len(cands))], true
}
func isArr(b binding) bool  { return b.kind == 's' || b.kind == 'b' }
func isMap(b binding) bool  { return b.kind == 'S' || b.kind == 'B' }
func isCont(b binding) bool { return isArr(b) || isMap(b) }
func anyB(b binding) bool   { return true }
func notInt(b binding) bool { return b.kind != 'i' }

var arrSizes = []int{0, 1, 2, 5, 7, 8, 8, 9, 9, 10, 12, 16, 20}
var mapSizes = []int{0, 1, 3, 4, 4, 5, 5, 6, 9, 20}

func (g *genState) randElem(c *wctx, allowVar bool) elem {
	if allowVar && c.R.Pct(25) {
		if v, ok := g.pick(c, anyB); ok {
			return V(v)
		}
	}
	return I(int64(c.R.Intn(50)))
}

func (g *genState) randIndex(c *wctx, b binding) int64 {
	if isMap(b) {
		return int64(c.R.Intn(24))
	}
	n := b.length
	if n > 0 && c.R.Pct(85) {
		i := int64(c.R.Intn(n))
		if c.R.Pct(20) {
			return i - int64(n)
		}
		return i
	}
	return int64(n + c.R.Intn(3))
}

// a random statement that stays inside the model's fragment; inFn: body of a call (targets must exist)
func (g *genState) randPrim(c *wctx, inFn bool, extra []int) prim {
	target := func() int {
		if inFn {
			if c.R.Pct(60) {
				return paramVar
			}
			if v, ok := g.pick(c, anyB); ok {
				return v
			}
			return paramVar
		}
		return c.R.Intn(nVars)
	}
	// a source variable: a bound one, or one of the extra names (param / loop variable)
	src := func(pred func(binding) bool) (int, bool) {
		if len(extra) > 0 && c.R.Pct(50) {
			return extra[c.R.Intn(len(extra))], true
		}
		return g.pick(c, pred)
	}
	for tries := 0; tries < 50; tries++ {
		switch k := c.R.Intn(100); {
		case k < 8:
			n := arrSizes[c.R.Intn(len(arrSizes))]
			p := prim{kind: "AL", x: target()}
			for i := 0; i < n; i++ {
				p.es = append(p.es, g.randElem(c, n <= 12))
			}
			return p
		case k < 14:
			n := mapSizes[c.R.Intn(len(mapSizes))]
			p := prim{kind: "ML", x: target()}
			off := int64(0)
			if c.R.Pct(35) { // a short map whose keys lie above most others: merged later, it only extends the left operand
				n = 1 + c.R.Intn(3)
				off = int64(18 + 3*c.R.Intn(12))
			}
			for i := 0; i < n; i++ {
				key := off + int64(i*2)
				if c.R.Pct(15) {
					key = int64(c.R.Intn(12))
				}
				p.kvs = append(p.kvs, kv{key, g.randElem(c, n <= 9)})
			}
			// literal order is arbitrary: rotate
			if len(p.kvs) > 1 {
				r := c.R.Intn(len(p.kvs))
				p.kvs = append(p.kvs[r:], p.kvs[:r]...)
			}
			return p
		case k < 24:
			if y, ok := src(anyB); ok {
				return prim{kind: "CP", x: target(), y: y}
			}
		case k < 46:
			if x, ok := src(isCont); ok {
				b := binding{kind: 's', length: 3}
				if x < nVars {
					b = g.bs[x]
				}
				return prim{kind: "IS", x: x, i: g.randIndex(c, b), e: g.randElem(c, true)}
			}
		case k < 62:
			if y, ok := src(isCont); ok {
				if x := target(); true {
					if y < nVars && g.bs[y].length > 40 {
						continue
					}
					e := g.randElem(c, false)
					if c.R.Pct(50) {
						if z, ok := src(notInt); ok {
							e = V(z)
						}
					}
					p := prim{kind: "PL", x: x, y: y, e: e}
					if !inFn && c.R.Pct(35) {
						p.via = []byte{'i', 'g'}[c.R.Intn(2)]
					}
					return p
				}
			}
		case k < 66:
			if y, ok := g.pick(c, func(b binding) bool { return b.kind != 'i' && b.length <= 12 }); ok {
				return prim{kind: "RP", x: target(), y: y, i: int64(c.R.Intn(4))}
			}
		case k < 74:
			if y, ok := g.pick(c, notInt); ok {
				n := g.bs[y].length
				l := c.R.Intn(n + 1)
				r := l + c.R.Intn(n-l+2)
				li, ri := int64(l), int64(r)
				if n > 0 && c.R.Pct(15) {
					li = int64(l - n)
					if li == 0 {
						li = int64(-n)
					}
				}
				if n > 0 && r <= n && r > 0 && c.R.Pct(15) {
					ri = int64(r - n)
					if ri == 0 {
						ri = int64(r)
					}
				}
				return prim{kind: "SL", x: target(), y: y, i: li, j: ri}
			}
		case k < 79:
			if y, ok := src(anyB); ok {
				return prim{kind: "RS", x: target(), y: y}
			}
		case k < 85:
			if y, ok := src(notInt); ok {
				b := binding{kind: 's', length: 3}
				if y < nVars {
					b = g.bs[y]
				}
				return prim{kind: "GT", x: target(), y: y, i: g.randIndex(c, b)}
			}
		case k < 92:
			if x, ok := src(anyB); ok {
				return prim{kind: "DL", x: x, i: int64(c.R.Intn(24))}
			}
		case k < 97:
			if x, ok := src(isCont); ok {
				b := binding{kind: 's', length: 3}
				if x < nVars {
					b = g.bs[x]
				}
				return prim{kind: "IN", x: x, i: g.randIndex(c, b)}
			}
		default:
			if !inFn {
				return prim{kind: "UB", x: c.R.Intn(nVars)}
			}
		}
	}
	return prim{kind: "AL", x: target(), es: ints(1, 9)}
}

// a statement for a loop body: no feedback that would double a value on every iteration
// (sources are the loop variable or integers; a target is read only as the left operand of +)
func (g *genState) loopPrim(c *wctx, e int) prim {
	x := c.R.Intn(nVars)
	if v, ok := g.pick(c, isCont); ok && c.R.Pct(70) {
		x = v
	}
	el := I(int64(c.R.Intn(50)))
	if c.R.Pct(50) {
		el = V(e)
	}
	switch c.R.Intn(8) {
	case 0, 1:
		return prim{kind: "IS", x: x, i: int64(c.R.Intn(12)), e: el}
	case 2:
		return prim{kind: "IS", x: e, i: int64(c.R.Intn(10)), e: I(int64(c.R.Intn(50)))}
	case 3:
		return prim{kind: "PL", x: x, y: x, e: el}
	case 4:
		return prim{kind: "PL", x: x, y: e, e: I(int64(c.R.Intn(50)))}
	case 5:
		return prim{kind: "DL", x: x, i: int64(c.R.Intn(24))}
	case 6:
		return prim{kind: "IN", x: x, i: int64(c.R.Intn(10))}
	default:
		return prim{kind: "CP", x: x, y: e}
	}
}

func (g *genState) randOp(c *wctx) op {
	nb := 0
	for v := 0; v < nVars; v++ {
		if g.bs[v].present && isCont(g.bs[v]) {
			nb++
		}
	}
	if nb < 2 {
		p := g.randPrim(c, false, nil)
		for p.kind != "AL" && p.kind != "ML" {
			p = g.randPrim(c, false, nil)
		}
		return op{kind: 'P', p: p}
	}
	switch k := c.R.Intn(100); {
	case k < 8:
		if y, ok := g.pick(c, isArr); ok {
			e := c.R.Intn(nVars)
			n := c.R.Intn(3)
			o := op{kind: 'F', a: e, b: y}
			for i := 0; i < n; i++ {
				o.body = append(o.body, g.loopPrim(c, e))
			}
			return o
		}
	case k < 22:
		if y, ok := g.pick(c, notInt); ok {
			o := op{kind: 'C', a: c.R.Intn(nVars), b: y}
			o.form, o.wrap = randWrap(c)
			n := c.R.Intn(4)
			for i := 0; i < n; i++ {
				o.body = append(o.body, g.randPrim(c, true, []int{paramVar}))
			}
			return o
		}
	case k < 28: // write / copy / write on OUTER variables (or the parameter) within one call
		if x, ok := g.pick(c, isCont); ok {
			if z, ok := g.pick(c, anyB); ok && z != x {
				o := op{kind: 'C', a: c.R.Intn(nVars), b: x}
				o.form, o.wrap = randWrap(c)
				t := x
				if c.R.Pct(35) {
					t = paramVar
				}
				b := g.bs[x]
				o.body = []prim{{kind: "IS", x: t, i: g.randIndex(c, b), e: I(int64(100 + c.R.Intn(50)))}, {kind: "CP", x: z, y: t},
					{kind: "IS", x: t, i: g.randIndex(c, b), e: I(int64(200 + c.R.Intn(50)))}}
				if c.R.Pct(40) {
					o.body = append(o.body, prim{kind: "CP", x: c.R.Intn(nVars), y: t}, prim{kind: "IN", x: t, i: g.randIndex(c, b)})
				}
				for _, p := range o.body { // only names that exist (a new name would be a local of the function)
					if p.x != paramVar && !g.bs[p.x].present {
						return op{kind: 'P', p: g.randPrim(c, false, nil)}
					}
				}
				return o
			}
		}
	case k < 32:
		slot := c.R.Intn(2)
		if c.R.Pct(30) {
			return mkCounter(slot, arrSizes[c.R.Intn(len(arrSizes))]%13+1)
		}
		return callCounter(c.R.Intn(nVars), slot)
	case k < 35:
		return memoPlus(c.R.Intn(nVars), int64(c.R.Intn(3)), g.randElem(c, true))
	case k < 40:
		n := arrSizes[c.R.Intn(len(arrSizes))]
		es := make([]elem, n)
		for i := range es {
			es[i] = g.randElem(c, n <= 12)
		}
		if n > 0 && es[n-1].isVar { // a last argument that is an array would be spread into the `..`
			es[n-1] = I(int64(c.R.Intn(50)))
		}
		return variadicLit(c.R.Intn(nVars), es)
	}
	return op{kind: 'P', p: g.randPrim(c, false, nil)}
}

// random sequence: every statement is generated against the live interpreter state (sizes and kinds are read back)
func c06Random(c *wctx, maxOps int) {
	g := &genState{}
	n := 4 + c.R.Intn(maxOps-3)
	c06Run(c, c.R.Intn(4), func(i int, bs [nVars]binding) (op, bool) {
		if i >= n {
			return op{}, false
		}
		g.bs = bs
		return g.randOp(c), true
	})
}

// ---- fork histories: ONE base container, grown / shrunk by a few operations (so that its backing array has spare
// capacity or is a window of a bigger one), other holders of it, then 2-3 values derived from the SAME base by + with
// operands whose keys lie above / below / between / on the base's keys, through plain statements, parameters, outer
// variables inside (nested) functions and loops; everything is observed after every statement, then mutated again.
// Variables: v0 base, v1 other holder, v2 v3 v4 derived, v5 v6 operands, v7 parent of the base.
func randWrap(c *wctx) (byte, string) {
	form := []byte{'f', 'f', 'l', 'n'}[c.R.Intn(4)]
	wrap := ""
	if c.R.Pct(60) {
		for d := 1 + c.R.Intn(3); d > 0; d-- {
			wrap += string("fflio"[c.R.Intn(5)])
		}
	}
	return form, wrap
}

func forkMap(c *wctx) []op {
	var ops []op
	n := []int{2, 3, 4, 4, 5, 5, 5, 6, 6, 7, 9}[c.R.Intn(11)]
	val := func() elem { return I(int64(c.R.Intn(90))) }
	lit := func(x int, keys []int64) op {
		p := prim{kind: "ML", x: x}
		for _, k := range keys {
			p.kvs = append(p.kvs, kv{k, val()})
		}
		if len(p.kvs) > 1 && c.R.Pct(30) { // literal order is arbitrary
			r := c.R.Intn(len(p.kvs))
			p.kvs = append(append([]kv(nil), p.kvs[r:]...), p.kvs[:r]...)
		}
		return op{kind: 'P', p: p}
	}
	seq := func(from int64, n int) []int64 {
		ks := make([]int64, n)
		for i := range ks {
			ks[i] = from + 2*int64(i)
		}
		return ks
	}
	// origin of the base; `keys` = the base's keys, tracked statically (sorted)
	var keys []int64
	switch c.R.Intn(5) {
	case 0, 1:
		keys = seq(10, n)
		ops = append(ops, lit(0, keys))
	case 2: // left window of a bigger map: spare capacity holds the parent's later pairs
		extra := 1 + c.R.Intn(3)
		all := seq(10, n+extra)
		keys = all[:n]
		ops = append(ops, lit(7, all), P("SL", 0, 7, 0, int64(n), elem{}))
	case 3: // inner window
		extra := 1 + c.R.Intn(2)
		all := seq(10, n+2*extra)
		keys = all[extra : extra+n]
		ops = append(ops, lit(7, all), P("SL", 0, 7, int64(extra), int64(extra+n), elem{}))
	default: // rest
		all := seq(10, n+1)
		keys = all[1:]
		ops = append(ops, lit(7, all), P("RS", 0, 7, 0, 0, elem{}))
	}
	maxK := func() int64 {
		if len(keys) == 0 {
			return 10
		}
		return keys[len(keys)-1]
	}
	minK := func() int64 {
		if len(keys) == 0 {
			return 10
		}
		return keys[0]
	}
	addKey := func(k int64) {
		for i, x := range keys {
			if x == k {
				return
			}
			if x > k {
				keys = append(keys[:i], append([]int64{k}, keys[i:]...)...)
				return
			}
		}
		keys = append(keys, k)
	}
	if c.R.Pct(30) { // another holder before the base changes
		ops = append(ops, P("CP", 1, 0, 0, 0, elem{}))
	}
	// grow / shrink
	for g := c.R.Intn(4); g > 0; g-- {
		switch c.R.Intn(7) {
		case 0, 1: // merge with keys above (the accumulate pattern)
			k := maxK() + 1 + int64(c.R.Intn(2))
			ops = append(ops, lit(6, []int64{k}), P("PL", 0, 0, 0, 0, V(6)))
			addKey(k)
		case 2: // new key by index assignment: above / between
			k := maxK() + 1
			if c.R.Bool() {
				k = minK() + 1
			}
			ops = append(ops, P("IS", 0, 0, k, 0, val()))
			addKey(k)
		case 3, 4: // delete a key: first / middle / last
			if len(keys) > 0 {
				i := []int{0, len(keys) / 2, len(keys) - 1}[c.R.Intn(3)]
				ops = append(ops, P("DL", 0, 0, keys[i], 0, elem{}))
				keys = append(keys[:i:i], keys[i+1:]...)
			}
		case 5: // grown inside a function, through the parameter or as an outer variable
			k := maxK() + 1
			form, wrap := randWrap(c)
			tgt := paramVar
			if c.R.Bool() {
				tgt = 0
			}
			o := op{kind: 'C', a: 0, b: 0, form: form, wrap: wrap, body: []prim{{kind: "IS", x: tgt, i: k, e: val()}}}
			if tgt == 0 {
				o.a = 4 // the call's result goes elsewhere: the base was changed as an outer variable
			}
			ops = append(ops, o)
			addKey(k)
		default: // shrink by re-slicing
			if len(keys) > 1 {
				ops = append(ops, P("SL", 0, 0, 0, int64(len(keys)-1), elem{}))
				keys = keys[:len(keys)-1]
			}
		}
	}
	switch c.R.Intn(5) { // another holder: plain copy, inside an array, inside a map
	case 0:
		ops = append(ops, P("CP", 1, 0, 0, 0, elem{}))
	case 1:
		ops = append(ops, op{kind: 'P', p: prim{kind: "AL", x: 1, es: []elem{V(0), I(1)}}})
	case 2:
		ops = append(ops, op{kind: 'P', p: prim{kind: "ML", x: 1, kvs: []kv{{1, V(0)}}}})
	}
	// operand keys relative to the base
	operand := func(t int) []int64 {
		m := 1 + c.R.Intn(3)
		var ks []int64
		switch c.R.Intn(8) {
		case 0, 1, 2, 3: // all above
			ks = seq(maxK()+1+int64(t), m)
		case 4: // all below
			ks = seq(minK()-int64(2*m+t), m)
		case 5: // between
			ks = seq(minK()+1, m)
		case 6: // on existing keys
			for i := 0; i < m && i < len(keys); i++ {
				ks = append(ks, keys[(t+i)%len(keys)])
			}
			if len(ks) == 0 {
				ks = []int64{10}
			}
		default: // between and above
			ks = []int64{minK() + 1, maxK() + 3 + int64(t)}
		}
		return ks
	}
	derived := []int{2, 3, 4}[:2+c.R.Intn(2)]
	if c.R.Pct(20) && len(derived) >= 2 {
		// both forks inside one loop over an array of operands: for v3=v4{v1=v2;v2=v0+v3}
		ops = append(ops, lit(5, operand(0)), lit(6, operand(1)),
			op{kind: 'P', p: prim{kind: "AL", x: 4, es: []elem{V(5), V(6)}}},
			op{kind: 'P', p: prim{kind: "AL", x: 2}},
			op{kind: 'F', a: 3, b: 4, body: []prim{{kind: "CP", x: 1, y: 2}, {kind: "PL", x: 2, y: 0, e: V(3)}}})
		derived = []int{1, 2}
	} else {
		for t, d := range derived {
			tmp := 5 + t%2
			ops = append(ops, lit(tmp, operand(t)))
			switch c.R.Intn(6) {
			case 0, 1, 2:
				ops = append(ops, P("PL", d, 0, 0, 0, V(tmp)))
			case 3: // the base arrives as an argument
				form, wrap := randWrap(c)
				ops = append(ops, op{kind: 'C', a: d, b: 0, form: form, wrap: wrap, body: []prim{{kind: "PL", x: paramVar, y: paramVar, e: V(tmp)}}})
			case 4: // the base is an outer variable of the function
				form, wrap := randWrap(c)
				ops = append(ops, op{kind: 'C', a: d, b: tmp, form: form, wrap: wrap, body: []prim{{kind: "PL", x: paramVar, y: 0, e: V(paramVar)}}})
			default: // the base itself moves on (m = m + ..) after a copy was taken
				ops = append(ops, P("CP", d, 0, 0, 0, elem{}), P("PL", 0, 0, 0, 0, V(tmp)))
			}
		}
	}
	// afterwards: mutate one of them, all others are observed
	all := append([]int{0}, derived...)
	for m := c.R.Intn(3); m > 0; m-- {
		x := all[c.R.Intn(len(all))]
		k := maxK() + int64(c.R.Intn(3))
		switch c.R.Intn(4) {
		case 0:
			ops = append(ops, P("IS", x, 0, k, 0, val()))
		case 1:
			ops = append(ops, P("DL", x, 0, k, 0, elem{}))
		case 2:
			ops = append(ops, P("IN", x, 0, minK(), 0, elem{}))
		default:
			form, wrap := randWrap(c)
			ops = append(ops, op{kind: 'C', a: 4, b: 0, form: form, wrap: wrap, body: []prim{{kind: "IS", x: x, i: k, e: val()}}})
		}
	}
	return ops
}

func forkArr(c *wctx) []op {
	var ops []op
	n := []int{5, 6, 7, 7, 8, 8, 8, 9, 9, 10, 12, 17}[c.R.Intn(12)]
	val := func() elem { return I(int64(c.R.Intn(90))) }
	ln := n // length of the base, tracked statically
	switch c.R.Intn(5) {
	case 0, 1:
		ops = append(ops, arrLit(0, n))
	case 2:
		ops = append(ops, arrLit(7, n+1+c.R.Intn(3)), P("SL", 0, 7, 0, int64(n), elem{}))
	case 3:
		e := 1 + c.R.Intn(2)
		ops = append(ops, arrLit(7, n+2*e), P("SL", 0, 7, int64(e), int64(e+n), elem{}))
	default:
		ops = append(ops, arrLit(7, n+1), P("RS", 0, 7, 0, 0, elem{}))
	}
	if c.R.Pct(30) {
		ops = append(ops, P("CP", 1, 0, 0, 0, elem{}))
	}
	for g := c.R.Intn(4); g > 0; g-- {
		switch c.R.Intn(7) {
		case 0, 1: // append one element: growslice leaves spare capacity
			ops = append(ops, P("PL", 0, 0, 0, 0, val()))
			ln++
		case 2: // append an array
			m := 1 + c.R.Intn(3)
			ops = append(ops, op{kind: 'P', p: prim{kind: "AL", x: 6, es: ints(50, m)}}, P("PL", 0, 0, 0, 0, V(6)))
			ln += m
		case 3, 4: // shrink: the dropped tail is spare capacity
			if ln > 1 {
				ops = append(ops, P("SL", 0, 0, 0, int64(ln-1), elem{}))
				ln--
			}
		case 5: // inside a function, through the parameter or as an outer variable
			form, wrap := randWrap(c)
			tgt := paramVar
			if c.R.Bool() {
				tgt = 0
			}
			b := prim{kind: "PL", x: tgt, y: tgt, e: val()}
			if c.R.Bool() && ln > 0 {
				b = prim{kind: "IS", x: tgt, i: int64(c.R.Intn(ln)), e: val()}
			} else {
				ln++
			}
			o := op{kind: 'C', a: 0, b: 0, form: form, wrap: wrap, body: []prim{b}}
			if tgt == 0 {
				o.a = 4
			}
			ops = append(ops, o)
		default:
			if ln > 0 {
				ops = append(ops, P("IS", 0, 0, int64(c.R.Intn(ln)), 0, val()))
			}
		}
	}
	switch c.R.Intn(5) {
	case 0:
		ops = append(ops, P("CP", 1, 0, 0, 0, elem{}))
	case 1:
		ops = append(ops, op{kind: 'P', p: prim{kind: "AL", x: 1, es: []elem{V(0), I(1)}}})
	case 2:
		ops = append(ops, op{kind: 'P', p: prim{kind: "ML", x: 1, kvs: []kv{{1, V(0)}}}})
	}
	srcVars := []int{0}
	if c.R.Pct(40) && ln > 2 { // a VIEW of the base in v1: the derived values come from either
		switch c.R.Intn(5) {
		case 0, 1:
			ops = append(ops, P("RS", 1, 0, 0, 0, elem{}))
		case 2:
			ops = append(ops, P("SL", 1, 0, int64(1+c.R.Intn(2)), int64(ln), elem{}))
		case 3:
			ops = append(ops, P("SL", 1, 0, 0, int64(ln-1), elem{}))
		default:
			ops = append(ops, P("RS", 1, 0, 0, 0, elem{}), P("RS", 1, 1, 0, 0, elem{}))
		}
		srcVars = []int{0, 1, 1}
	}
	derived := []int{2, 3, 4}[:2+c.R.Intn(2)]
	if c.R.Pct(20) && len(srcVars) == 1 {
		// for v3=v4{v1=v2;v2=v0+v3}
		ops = append(ops, op{kind: 'P', p: prim{kind: "AL", x: 4, es: ints(70, 2)}},
			op{kind: 'P', p: prim{kind: "AL", x: 2}},
			op{kind: 'F', a: 3, b: 4, body: []prim{{kind: "CP", x: 1, y: 2}, {kind: "PL", x: 2, y: 0, e: V(3)}}})
		derived = []int{1, 2}
	} else {
		for t, d := range derived {
			e := val()
			if c.R.Pct(40) {
				tmp := 5 + t%2
				ops = append(ops, op{kind: 'P', p: prim{kind: "AL", x: tmp, es: ints(60+10*t, 1+c.R.Intn(3))}})
				e = V(tmp)
			}
			sv := srcVars[c.R.Intn(len(srcVars))]
			switch c.R.Intn(6) {
			case 0, 1, 2:
				ops = append(ops, P("PL", d, sv, 0, 0, e))
			case 3:
				form, wrap := randWrap(c)
				ops = append(ops, op{kind: 'C', a: d, b: sv, form: form, wrap: wrap, body: []prim{{kind: "PL", x: paramVar, y: paramVar, e: e}}})
			case 4:
				form, wrap := randWrap(c)
				ops = append(ops, op{kind: 'C', a: d, b: sv, form: form, wrap: wrap, body: []prim{{kind: "PL", x: paramVar, y: sv, e: e}}})
			default:
				ops = append(ops, P("CP", d, sv, 0, 0, elem{}), P("PL", sv, sv, 0, 0, e))
			}
		}
	}
	all := append([]int{0}, derived...)
	for m := c.R.Intn(3); m > 0; m-- {
		x := all[c.R.Intn(len(all))]
		i := int64(c.R.Intn(ln + 1))
		switch c.R.Intn(4) {
		case 0:
			ops = append(ops, P("IS", x, 0, i, 0, val()))
		case 1:
			ops = append(ops, P("PL", x, x, 0, 0, val()))
		case 2:
			ops = append(ops, P("IN", x, 0, i, 0, elem{}))
		default:
			form, wrap := randWrap(c)
			ops = append(ops, op{kind: 'C', a: 4, b: 0, form: form, wrap: wrap, body: []prim{{kind: "IS", x: x, i: i, e: val()}}})
		}
	}
	return ops
}

func c06Fork(c *wctx) {
	var ops []op
	if c.R.Bool() {
		ops = forkMap(c)
	} else {
		ops = forkArr(c)
	}
	c06Seq(c, ops, c.R.Intn(4))
}

// exhaustive: every sequence of k statements from a fixed alphabet after a fixed prelude
type family struct {
	prelude, alpha []op
}

func call(r, y int, form byte, wrap string, body ...prim) op {
	return op{kind: 'C', a: r, b: y, form: form, wrap: wrap, body: body}
}

// family A: a 9-array, a 5-map and a copy of each; writes through every construct
func famA() family {
	return family{
		prelude: []op{arrLit(0, 9), mapLit(1, 5), P("CP", 2, 0, 0, 0, elem{}), P("CP", 3, 1, 0, 0, elem{})},
		alpha: []op{
			P("IS", 2, 0, 0, 0, I(99)), P("IS", 0, 0, -1, 0, V(1)), P("IS", 3, 0, 1, 0, I(99)), P("IS", 1, 0, 9, 0, V(0)),
			P("PL", 2, 0, 0, 0, I(10)), P("PL", 4, 2, 0, 0, I(11)), P("PL", 5, 2, 0, 0, V(0)), P("PL", 3, 1, 0, 0, V(3)),
			P("DL", 3, 0, 2, 0, elem{}), P("DL", 1, 0, 1, 0, elem{}), P("IN", 2, 0, 1, 0, elem{}), P("IN", 3, 0, 3, 0, elem{}),
			P("SL", 4, 0, 0, 8, elem{}), P("SL", 2, 2, 1, 99, elem{}), P("RS", 3, 3, 0, 0, elem{}), P("CP", 0, 4, 0, 0, elem{}),
			P("GT", 5, 0, -1, 0, elem{}), P("IS", 5, 0, 0, 0, I(7)),
			call(4, 0, 'f', "", prim{kind: "IS", x: paramVar, i: 0, e: I(42)}),
			call(4, 1, 'f', "", prim{kind: "DL", x: paramVar, i: 1}, prim{kind: "IS", x: 3, i: 5, e: V(paramVar)}),
			{kind: 'F', a: 5, b: 0, body: []prim{{kind: "PL", x: 2, y: 2, e: V(5)}}},
			// outer variables written from inside function bodies, at depth 0 1 2 3, through func / lambda / named function
			call(4, 1, 'f', "", prim{kind: "IS", x: 0, i: 0, e: I(43)}),
			call(4, 0, 'l', "f", prim{kind: "IS", x: 2, i: 1, e: I(44)}, prim{kind: "IS", x: paramVar, i: 2, e: I(45)}),
			call(5, 3, 'n', "lf", prim{kind: "IS", x: 1, i: 1, e: I(46)}, prim{kind: "DL", x: 3, i: 2}),
			call(5, 1, 'f', "fol", prim{kind: "IN", x: 0, i: 3}, prim{kind: "PL", x: 2, y: 2, e: I(47)}, prim{kind: "DL", x: paramVar, i: 3}),
		},
	}
}

// family B (forks): an 8-array and a 5-map grown / shrunk, then several values derived from the same base
func famB() family {
	one := func(x int, k, v int64) op { return op{kind: 'P', p: prim{kind: "ML", x: x, kvs: []kv{{k, I(v)}}}} }
	return family{
		prelude: []op{arrLit(0, 8), mapLit(1, 5), one(5, 20, 1), one(6, 21, 2), one(7, 22, 3)},
		alpha: []op{
			P("PL", 1, 1, 0, 0, V(5)), P("PL", 1, 1, 0, 0, V(6)), // m = m + {20:1} / {21:2}
			P("PL", 2, 1, 0, 0, V(5)), P("PL", 3, 1, 0, 0, V(6)), P("PL", 4, 1, 0, 0, V(7)), // x y z = m + ..
			P("IS", 1, 0, 9, 0, I(9)), P("DL", 1, 0, 1, 0, elem{}), P("SL", 1, 1, 0, 4, elem{}), P("SL", 1, 1, 0, 5, elem{}),
			call(4, 1, 'f', "", prim{kind: "PL", x: paramVar, y: paramVar, e: V(7)}),
			call(3, 6, 'l', "f", prim{kind: "PL", x: paramVar, y: 1, e: V(paramVar)}),
			P("PL", 0, 0, 0, 0, I(9)), P("PL", 2, 0, 0, 0, I(10)), P("PL", 3, 0, 0, 0, I(11)), P("SL", 0, 0, 0, 8, elem{}),
			P("IS", 0, 0, 0, 0, I(7)),
			call(4, 0, 'n', "f", prim{kind: "PL", x: paramVar, y: 0, e: I(12)}),
		},
	}
}

func av(n int) varg   { return varg{kind: 'v', n: int64(n)} }
func ae(n int) varg   { return varg{kind: 'e', n: int64(n)} }
func al(n int) varg   { return varg{kind: 'l', n: int64(n)} }
func ap() varg        { return varg{kind: 'p'} }
func ai(n int64) varg { return varg{kind: 'i', n: n} }
func vop(r int, wrap string, np int, ret, ff byte, pv, out int, args ...varg) op {
	return op{kind: 'V', a: r, wrap: wrap, v: &vcall{np: np, ret: ret, ff: ff, pv: pv, out: out, args: args}}
}

// family C (variadic calls): a 3-array, a 9-array, a 5-map and a 1-array; calls that keep their `..` in every way, made at top level
// and 1-3 function bodies deep with outer variables, locals, the parameter and expressions; then the arguments and the results change
func famC() family {
	return family{
		prelude: []op{arrLit(0, 3), arrLit(1, 9), mapLit(2, 5), arrLit(3, 1)},
		alpha: []op{
			vop(4, "", 0, 'd', 'n', 0, 0, av(0), av(2)),
			vop(4, "f", 0, 'd', 'n', 0, 0, av(0), av(2)),
			vop(5, "lf", 1, 'p', 'f', 0, 0, av(2), av(1), ai(5)),
			vop(5, "o", 0, 'a', 'l', 1, 0, ap(), av(0), av(2)),
			vop(6, "f", 0, 'o', 'n', 0, 3, av(2), av(0), ai(1)),
			vop(4, "ff", 0, 'm', 'n', 0, 0, al(0), ae(1), av(2)),
			vop(6, "f", 0, 'd', 'f', 0, 0, av(0)),
			vop(6, "if", 1, 's', 'l', 0, 0, ai(1), av(1), av(2)),
			P("IS", 0, 0, 0, 0, I(99)), P("PL", 0, 0, 0, 0, I(7)), P("IS", 1, 0, -1, 0, I(98)), P("IS", 2, 0, 1, 0, I(97)), P("DL", 2, 0, 2, 0, elem{}),
			P("IS", 4, 0, 0, 0, I(50)), P("IN", 3, 0, 0, 0, elem{}), P("UB", 2, 0, 0, 0, elem{}),
			call(7, 2, 'f', "f", prim{kind: "IS", x: 0, i: 1, e: I(44)}, prim{kind: "IS", x: 2, i: 3, e: I(45)}),
		},
	}
}

func (g *genState) randVariadic(c *wctx) op {
	v := &vcall{np: c.R.Intn(3), ret: "ddsampo"[c.R.Intn(7)], ff: "nnfl"[c.R.Intn(4)]}
	o := op{kind: 'V', a: c.R.Intn(nVars), v: v}
	if c.R.Pct(75) {
		for d := 1 + c.R.Intn(3); d > 0; d-- {
			o.wrap += string("fflio"[c.R.Intn(5)])
		}
	}
	if q, ok := g.pick(c, func(b binding) bool { return true }); ok {
		v.out = q
	}
	for v.out == o.a {
		o.a = c.R.Intn(nVars)
	}
	n := v.np + c.R.Intn(4)
	if c.R.Pct(5) && n > 0 {
		n--
	}
	inFn := o.fnDepth() > 0
	for i := 0; i < n; i++ {
		x, ok := g.pick(c, isCont)
		if !ok || c.R.Pct(12) {
			v.args = append(v.args, ai(int64(c.R.Intn(50))))
			continue
		}
		if c.R.Pct(25) {
			x, _ = g.pick(c, anyB)
		}
		switch k := c.R.Intn(100); {
		case k < 55:
			v.args = append(v.args, av(x))
		case k < 67:
			v.args = append(v.args, ae(x))
		case k < 80 && inFn:
			v.args = append(v.args, al(x))
		case k < 92 && !v.hasP():
			v.pv = x
			v.args = append(v.args, ap())
			inFn = true
		default:
			v.args = append(v.args, av(x))
		}
	}
	return o
}

// random sequences around variadic calls: a few containers, then calls and changes of the arguments / results interleaved
func c06Variadic(c *wctx, maxOps int) {
	g := &genState{}
	n := 5 + c.R.Intn(maxOps-4)
	c06Run(c, 0, func(i int, bs [nVars]binding) (op, bool) {
		if i >= n {
			return op{}, false
		}
		g.bs = bs
		if i < 3 {
			if c.R.Bool() {
				return arrLit(i, []int{1, 3, 3, 8, 9, 12}[c.R.Intn(6)]), true
			}
			return mapLit(i, []int{1, 4, 5, 6}[c.R.Intn(4)]), true
		}
		if c.R.Pct(40) {
			return g.randVariadic(c), true
		}
		return g.randOp(c), true
	})
}

func pow(a, k int) int {
	r := 1
	for ; k > 0; k-- {
		r *= a
	}
	return r
}

// the n-th sequence of the family (digits of n in base len(alpha), most significant first)
func (f family) seq(k, n int) []op {
	ops := append([]op(nil), f.prelude...)
	idx := make([]int, k)
	for j := k - 1; j >= 0; j-- {
		idx[j] = n % len(f.alpha)
		n /= len(f.alpha)
	}
	for _, i := range idx {
		ops = append(ops, f.alpha[i])
	}
	return ops
}

// ---- worker side: a context with the same verbs as common.Ctx, whose effects are streamed to the parent
type wctx struct {
	R     *common.Rng
	w     *bufio.Writer
	dist  map[string]int
	evals int
}

func (c *wctx) emit(parts ...string) {
	b, _ := json.Marshal(parts)
	c.w.Write(b)
	c.w.WriteByte('\n')
}
func (c *wctx) Case(line, obs string)  { c.emit("C", line, obs) }
func (c *wctx) Fail(sig, cs, d string) { c.emit("F", sig, cs, d); c.w.Flush() }
func (c *wctx) NonTrivial(k string)    { c.emit("N", k) }
func (c *wctx) Count(k string)         { c.dist[k]++ }
func (c *wctx) Eval()                  { c.evals++ }
func (c *wctx) inflight(enc, opn string) {
	c.emit("I", enc, opn)
	c.w.Flush()
}
func (c *wctx) endSeq() {
	for k, n := range c.dist {
		c.emit("K", k, strconv.Itoa(n))
		delete(c.dist, k)
	}
	if c.evals > 0 {
		c.emit("E", strconv.Itoa(c.evals))
		c.evals = 0
	}
}

func mix(seed uint64, n int) uint64 {
	x := seed + uint64(n+1)*0x9E3779B97F4A7C15
	x ^= x >> 30
	x *= 0xBF58476D1CE4E5B9
	x ^= x >> 27
	x *= 0x94D049BB133111EB
	x ^= x >> 31
	return x
}

type job struct {
	kind      string // corpus exhA exhB rand fork replay
	seed      uint64
	from, to  int // sequence numbers [from,to)
	k, maxOps int
	replay    string
}

func (j job) spec() string {
	return fmt.Sprintf("%s:%d:%d:%d:%d:%d", j.kind, j.seed, j.from, j.to, j.k, j.maxOps)
}

func workerMain(spec string) {
	debug.SetMaxStack(256 << 20) // a cyclic value must end its printer quickly
	log.SetLogLevelQuiet(log.Critical)
	f := strings.Split(spec, ":")
	j := job{kind: f[0], from: atoi(f[2]), to: atoi(f[3]), k: atoi(f[4]), maxOps: atoi(f[5])}
	j.seed, _ = strconv.ParseUint(f[1], 10, 64)
	c := &wctx{w: bufio.NewWriterSize(os.Stdout, 1<<16), dist: map[string]int{}}
	for n := j.from; n < j.to; n++ {
		c.emit("S", strconv.Itoa(n))
		c.R = common.NewRng(mix(j.seed, n))
		switch j.kind {
		case "replay":
			rf := strings.Fields(os.Getenv("C06_CASE"))
			c06Seq(c, decOps(rf[3]), atoi(rf[2]))
		case "corpus":
			c06Seq(c, corpus()[n], n%4)
		case "exhA":
			c06Seq(c, famA().seq(j.k, n), n%4)
		case "exhB":
			c06Seq(c, famB().seq(j.k, n), n%4)
		case "rand":
			c06Random(c, j.maxOps)
		case "fork":
			c06Fork(c)
		case "exhC":
			c06Seq(c, famC().seq(j.k, n), 0)
		case "vari":
			c06Variadic(c, j.maxOps)
		}
		c.endSeq()
	}
	c.emit("D")
	c.w.Flush()
}

// ---- parent side
type capBuf struct {
	mu sync.Mutex
	b  []byte
}

func (w *capBuf) Write(p []byte) (int, error) {
	w.mu.Lock()
	if room := 1500 - len(w.b); room > 0 {
		if len(p) < room {
			room = len(p)
		}
		w.b = append(w.b, p[:room]...)
	}
	w.mu.Unlock()
	return len(p), nil
}
func (w *capBuf) String() string { w.mu.Lock(); defer w.mu.Unlock(); return string(w.b) }

const stallLimit = 45 * time.Second // one statement (plus reading 8 bindings) taking longer than this is a hang

// runs one child over [j.from, j.to); returns its records, whether it finished, and if not: the number of the sequence it
// died in (-1: before any), the case line and operation in flight, and what it said
func spawn(j job) (recs [][]string, done bool, cur int, inflight, opn, diag string) {
	cur = -1
	self, err := os.Executable()
	if err != nil {
		return nil, false, -1, "", "", "os.Executable: " + err.Error()
	}
	cmd := exec.Command(self)
	cmd.Env = append(os.Environ(), "C06_WORKER="+j.spec(), "C06_CASE="+j.replay)
	stderr := &capBuf{}
	cmd.Stderr = stderr
	out, err := cmd.StdoutPipe()
	if err != nil {
		return nil, false, -1, "", "", "pipe: " + err.Error()
	}
	if err := cmd.Start(); err != nil {
		return nil, false, -1, "", "", "start: " + err.Error()
	}
	var last atomic.Int64
	last.Store(time.Now().UnixNano())
	var hung atomic.Bool
	stop := make(chan struct{})
	go func() {
		t := time.NewTicker(time.Second)
		defer t.Stop()
		for {
			select {
			case <-stop:
				return
			case <-t.C:
				if time.Duration(time.Now().UnixNano()-last.Load()) > stallLimit {
					hung.Store(true)
					cmd.Process.Kill()
					return
				}
			}
		}
	}()
	rd := bufio.NewReaderSize(out, 1<<16)
	prefix := ""
	var encs []string
	for {
		lineB, err := rd.ReadBytes('\n')
		if len(lineB) > 0 && lineB[len(lineB)-1] == '\n' {
			var r []string
			if json.Unmarshal(lineB, &r) == nil && len(r) > 0 {
				switch r[0] {
				case "S":
					cur = atoi(r[1])
					prefix, encs, opn = "", nil, ""
					last.Store(time.Now().UnixNano())
				case "B":
					prefix, encs, opn = r[1], nil, ""
				case "I":
					encs = append(encs, r[1])
					opn = r[2]
					last.Store(time.Now().UnixNano())
				case "D":
					done = true
				default:
					recs = append(recs, r)
				}
			}
		}
		if err != nil {
			break
		}
	}
	close(stop)
	werr := cmd.Wait()
	if done {
		return recs, true, cur, "", "", ""
	}
	if len(encs) > 0 {
		inflight = prefix + strings.Join(encs, ";")
	}
	what := "the interpreter process died"
	if hung.Load() {
		what = fmt.Sprintf("no progress for %v, killed", stallLimit)
		opn = "hang:" + opn
	}
	diag = fmt.Sprintf("%s (%v) while running the last statement of the case; stderr: %s", what, werr, stderr.String())
	return recs, false, cur, inflight, opn, diag
}

const maxCrashes = 60 // children restarted behind a crash, per run; beyond that the rest of each job is dropped (and said so)

func runJob(j job, crashes *atomic.Int32) [][]string {
	var recs [][]string
	for j.from < j.to {
		r, done, cur, inflight, opn, diag := spawn(j)
		recs = append(recs, r...)
		if done {
			break
		}
		switch {
		case inflight == "":
			recs = append(recs, []string{"F", "harness-worker-died", j.spec(), diag})
		case strings.HasPrefix(opn, "hang:"):
			recs = append(recs, []string{"F", "hang-" + opn[5:], inflight, diag})
		default:
			recs = append(recs, []string{"F", "crash-" + opn, inflight, diag})
		}
		if cur < j.from {
			cur = j.from
		}
		j.from = cur + 1
		if crashes.Add(1) > maxCrashes {
			recs = append(recs, []string{"K", "dropped-after-crash-cap", strconv.Itoa(j.to - j.from)})
			break
		}
	}
	return recs
}

func apply(c *Ctx, recs [][]string) {
	for _, r := range recs {
		switch r[0] {
		case "C":
			c.Case(r[1], r[2])
		case "F":
			c.Fail(r[1], r[2], r[3])
		case "N":
			c.NonTrivial(r[1])
		case "K":
			c.Dist[r[1]] += atoi(r[2])
		case "E":
			c.Evals += atoi(r[1])
		}
	}
}

// jobs run in up to `par` children at a time; their records are applied in job order, so the output does not depend on timing
func runJobs(c *Ctx, jobs []job) {
	par := runtime.NumCPU() / 2
	if par > 6 {
		par = 6
	}
	if par < 1 {
		par = 1
	}
	var crashes atomic.Int32
	results := make([]chan [][]string, len(jobs))
	sem := make(chan struct{}, par)
	for i := range jobs {
		results[i] = make(chan [][]string, 1)
	}
	go func() {
		for i := range jobs {
			sem <- struct{}{}
			go func(i int) {
				results[i] <- runJob(jobs[i], &crashes)
				<-sem
			}(i)
		}
	}()
	for i := range jobs {
		apply(c, <-results[i])
	}
	c.Extra["interpreter_crashes_contained"] = int(crashes.Load())
}

func split(kind string, seed uint64, n, chunk, k, maxOps int) []job {
	var js []job
	for from := 0; from < n; from += chunk {
		to := from + chunk
		if to > n {
			to = n
		}
		js = append(js, job{kind: kind, seed: seed, from: from, to: to, k: k, maxOps: maxOps})
	}
	return js
}

// ---- containers the program did not build itself: everything a fresh state hands out - info and every array / map
// reachable from it, the result of every registered extension function and root function called with default arguments,
// and first / rest / slices of those. Each is copied, the copy is written (index assignment, del, +), and the other
// holder and the source re-evaluated - at once and in a later input - must be what they were. (Direct oracle only; this is
// the one place where the harness loads the extension layer.)
func defaultArg(t object.Type) string {
	switch t { //nolint:exhaustive // the rest gets an integer
	case object.FLOAT:
		return "1.5"
	case object.STRING:
		return "\"a,b,c,d,e,f,g,h,i,j\""
	case object.ARRAY:
		return "[3,1,2]"
	case object.MAP:
		return "{1:1,2:2,3:3,4:4,5:5}"
	case object.BOOLEAN:
		return "true"
	case object.FUNC:
		return "func(x){x}"
	}
	return "12"
}

func isContainer(o object.Object) bool { return o.Type() == object.ARRAY || o.Type() == object.MAP }

func handedOutExprs() []string {
	var exprs []string
	st := eval.NewState()
	var walk func(e string, depth int)
	walk = func(e string, depth int) {
		o, err := eval.EvalString(st, e, false)
		if err != nil || !isContainer(o) {
			return
		}
		exprs = append(exprs, e)
		if depth == 0 {
			return
		}
		if o.Type() == object.MAP {
			for _, k := range object.Elements(o) {
				walk(e+"["+k.Inspect()+"]", depth-1)
			}
		} else if n := object.Len(o); n > 0 {
			walk(e+"[0]", depth-1)
			walk(e+"[-1]", depth-1)
		}
	}
	walk("info", 2)
	skip := map[string]bool{"exec": true, "run": true, "load": true, "save": true, "exit": true, "sleep": true, "read": true, "eof": true, "image.save": true, "image.png": true, "rand": true, "time.now": true}
	var names []string
	for n := range object.ExtraFunctions() {
		names = append(names, n)
	}
	sort.Strings(names)
	for _, n := range names {
		e := object.ExtraFunctions()[n]
		if skip[n] {
			continue
		}
		for na := e.MinArgs; na <= e.MinArgs+1 && (e.MaxArgs < 0 || na <= e.MaxArgs); na++ {
			args := make([]string, na)
			for i := range args {
				t := object.ANY
				if i < len(e.ArgTypes) {
					t = e.ArgTypes[i]
				}
				args[i] = defaultArg(t)
			}
			exprs = append(exprs, n+"("+strings.Join(args, ",")+")")
		}
	}
	if o, err := eval.EvalString(st, "info.globals", false); err == nil { // root functions written in grol
		for _, k := range object.Elements(o) {
			if ks, ok := k.(object.String); ok {
				if v, err := eval.EvalString(st, ks.Value, false); err == nil && v.Type() == object.FUNC {
					exprs = append(exprs, ks.Value+"([3,1,2])", ks.Value+"({1:1,2:2,3:3,4:4,5:5})", ks.Value+"(0:12)")
				}
			}
		}
	}
	exprs = append(exprs, "0:12", "0:9", "(0:12)[1:]", "rest(0:12)", "[0]*12", "(0:9)+[9]")
	return exprs
}

func c06HandedOut(c *Ctx) {
	_ = extensions.Init(nil)
	log.SetLogLevelQuiet(log.Critical)
	n := 0
	for _, base := range handedOutExprs() {
		for _, der := range []string{"%s", "rest(%s)", "%s[1:]", "first(%s)", "%s[0:100]"} {
			e := fmt.Sprintf(der, base)
			se := newSession()
			se.exec("c=0;d=0;zz=0") // bound beforehand: info.globals does not change when they are assigned below
			o, err := eval.EvalString(se.s, e, false)
			if err != nil || !isContainer(o) || object.Len(o) == 0 {
				continue
			}
			o2, err2 := eval.EvalString(se.s, e, false)
			stable := err2 == nil && safeInspect(o2) == safeInspect(o) // rand / time results are not compared with a re-evaluation
			want := safeInspect(o)
			n++
			key := "0"
			if o.Type() == object.MAP {
				key = object.Elements(o)[0].Inspect()
			}
			grow := "c=c+[\"ZZ\"];c[0]=\"YY\""
			if o.Type() == object.MAP {
				grow = "c=c+{\"ZZ\":1};c[" + key + "]=\"YY\""
			}
			for _, write := range []string{"c[" + key + "]=\"ZZ\"", "del(c[" + key + "])", grow, "func(){c[" + key + "]=\"WW\"}()", "func(p){p[" + key + "]=\"VV\";p}(c)"} {
				se.exec("c=" + e)
				se.exec("d=c")
				se.exec(write)
				c.Eval()
				line := fmt.Sprintf("HANDED c=%s; d=c; %s", e, write)
				check := func(when string) {
					if d, err := eval.EvalString(se.s, "d", false); err != nil || safeInspect(d) != want {
						got := "<error>"
						if err == nil {
							got = safeInspect(d)
						}
						c.Fail("alias-handedout-copy", line, fmt.Sprintf("%s: d was %s, now %s", when, want, got))
					}
					if stable {
						if r, err := eval.EvalString(se.s, e, false); err != nil || safeInspect(r) != want {
							got := "<error>"
							if err == nil {
								got = safeInspect(r)
							}
							c.Fail("alias-handedout-source", line, fmt.Sprintf("%s: %s was %s, now evaluates to %s", when, e, want, got))
						}
					}
				}
				check("right after")
				se.exec("zz=1") // a later input of the session
				check("in a later input")
			}
		}
	}
	c.Extra["handed_out_containers"] = n
}

// ---- aliasing through LAZILY dereferenced outer variables: inside a function an outer variable evaluates to a reference
// that an array literal / call / map literal dereferences after all its elements are evaluated. r = [a, f()] (f writes
// a[i], or a later element writes it inline), then another write to a, then the first element is read again: whatever it
// was right after r was built, it must still be. a is a global or a local of an enclosing function; sizes around 8 and 4.
func c06LazyRefs(c *Ctx) {
	forms := []struct{ name, build, read string }{
		{"arrayliteral", "r=[a,bump()]", "r[0]"}, {"callargs", "r=keep(a,bump())", "r"}, {"mapliteral", "r={1:a,2:bump()}", "r[1]"},
		{"inlinewrite", "r=[a,(a[1]=11)]", "r[0]"}, {"mapinline", "r={1:a,2:(a[1]=11)}", "r[1]"}, {"nested", "r=[[a],bump()]", "r[0][0]"},
		{"variadic", "r=vfn(a,bump(),0)", "r[0]"}, {"twice", "r=[a,bump(),a,bump()]", "r[2]"},
	}
	lits := []struct{ name, src string }{}
	for _, n := range []int{3, 8, 9, 12} {
		lits = append(lits, struct{ name, src string }{fmt.Sprintf("array%d", n), fmt.Sprintf("0:%d", n)})
	}
	for _, n := range []int{3, 4, 5, 7} {
		parts := make([]string, n)
		for i := range parts {
			parts[i] = fmt.Sprintf("%d:%d", i, i)
		}
		lits = append(lits, struct{ name, src string }{fmt.Sprintf("map%d", n), "{" + strings.Join(parts, ",") + "}"})
	}
	for _, f := range forms {
		for _, l := range lits {
			for _, where := range []string{"global", "local"} {
				for _, second := range []string{"a[2]=22", "a[1]=33", "bump()", "a=a+[5];a[0]=44", "del(a[2])"} {
					if strings.HasPrefix(second, "del") != strings.HasPrefix(l.name, "map") && (strings.HasPrefix(second, "del") || strings.Contains(second, "a+[5]")) {
						continue // del is for maps, + [..] for arrays
					}
					body := fmt.Sprintf("%s;x=json(%s);%s;[x,json(%s)]", f.build, f.read, second, f.read)
					var prog []string
					if where == "global" {
						prog = []string{"a=" + l.src, "bump=func(){a[1]=a[1]+10}", "keep=func(p,q){p}", "h=func(){" + body + "}", "res=h()"}
					} else {
						prog = []string{"keep=func(p,q){p}", "outer=func(){a=" + l.src + ";bump=func(){a[1]=a[1]+10};h=func(){" + body + "};h()}", "res=outer()"}
					}
					se := newSession()
					for _, st := range prog {
						se.exec(st)
						c.Eval()
					}
					line := "LAZY " + strings.Join(prog, "; ")
					r0, e0 := eval.EvalString(se.s, "res[0]", false)
					r1, e1 := eval.EvalString(se.s, "res[1]", false)
					if e0 != nil || e1 != nil {
						continue // the form is not accepted (an error inside): nothing was built
					}
					if r0.Inspect() != r1.Inspect() {
						c.Fail("alias-lazyref-"+f.name+"-"+where+"-"+l.name, line,
							fmt.Sprintf("%s was %s right after it was built, %s after %q", f.read, r0.Inspect(), r1.Inspect(), second))
					}
				}
			}
		}
	}
}

// ---- write - read through a closure - write, with NOTHING observed in between: one program, one input; the values are
// taken by closures (returned, stored in an outer variable, inside a map / array, through a recursive callee) and printed
// once at the end. The container is a global or a local of a function; the expected copy is computed here.
func c06Unobserved(c *Ctx) {
	type shape struct {
		name, src, afterFirst string
	}
	var shapes []shape
	for _, n := range []int{3, 8, 9, 12, 17} {
		p := make([]string, n)
		for i := range p {
			p[i] = strconv.Itoa(i)
		}
		p[0] = "100"
		shapes = append(shapes, shape{fmt.Sprintf("array%d", n), fmt.Sprintf("0:%d", n), "[" + strings.Join(p, ",") + "]"})
	}
	for _, n := range []int{3, 4, 5, 7} {
		p, q := make([]string, n), make([]string, n)
		for i := range p {
			p[i], q[i] = fmt.Sprintf("%d:%d", i, i), fmt.Sprintf("%d:%d", i, i)
		}
		q[0] = "0:100"
		shapes = append(shapes, shape{fmt.Sprintf("map%d", n), "{" + strings.Join(p, ",") + "}", "{" + strings.Join(q, ",") + "}"})
	}
	takes := []struct{ name, decl, take, read string }{
		{"getter", "get=func(){a}", "b=get()", "b"},
		{"lambda", "get=()=>a", "b=get()", "b"},
		{"snapshot", "b=0;snap=func(){b=a}", "snap()", "b"},
		{"intomap", "m={};keep=()=>{m={\"k\":a}}", "keep()", "m.k"},
		{"intoarray", "m=[0];keep=func(){m[0]=a}", "keep()", "m[0]"},
		{"literal", "get=func(){[a,1]}", "b=get()", "b[0]"},
		{"nested", "get=func(){func(){a}()}", "b=get()", "b"},
		{"recursive", "get=func(n){if n==0{a}else{get(n-1)}}", "b=get(3)", "b"},
		{"closurekept", "mk=func(){v=a;()=>v}", "g=mk()", "g()"},
		{"plusnothing", "get=func(){a+[]}", "b=get()", "b"},
	}
	seconds := []string{"a[1]=200", "a[0]=300", "a[1]=200;a[2]=201", "for i=2{a[i]=400+i}", "bump=func(){a[1]=500};bump()"}
	for _, sh := range shapes {
		for _, t := range takes {
			if t.name == "plusnothing" && strings.HasPrefix(sh.name, "map") {
				continue
			}
			for _, second := range seconds {
				for _, where := range []string{"global", "local"} {
					body := fmt.Sprintf("a=%s;%s;a[0]=100;%s;%s;[a,%s]", sh.src, t.decl, t.take, second, t.read)
					prog := "res=func(){" + body + "}()"
					if where == "global" {
						prog = body[:strings.LastIndex(body, ";")] + ";res=" + body[strings.LastIndex(body, ";")+1:]
					}
					se := newSession()
					r, _, errs := se.exec(prog)
					c.Eval()
					line := "UNOBSERVED " + prog
					if r == "err" {
						c.Fail("harness-unparsable-statement", line, fmt.Sprint(errs))
						continue
					}
					got, err := eval.EvalString(se.s, "res[1]", false)
					if err != nil || got.Inspect() != sh.afterFirst {
						g := "<error>"
						if err == nil {
							g = got.Inspect()
						}
						c.Fail("alias-unobserved-"+t.name+"-"+where+"-"+sh.name, line,
							fmt.Sprintf("%s, taken after a[0]=100 and before %q, is %s at the end: expected %s", t.read, second, g, sh.afterFirst))
					}
				}
			}
		}
	}
}

// ---- size independence seen through TYPE-REVEALING observations. 1 and 1.0, 0.0 and -0.0 are the same key / compare
// equal, and Inspect prints them alike: which of the two spellings an operation keeps cannot be seen in the printed
// containers. Here every operation is run on a SMALL container and on its LARGE twin (the same pairs / elements plus
// extras >= 1000 that sort last and are removed from the rendering; the twin written as a literal, grown from the small
// one, and the small one shrunk from the twin); the results are rendered exactly (integers without, floats with a
// fraction, -0.0) at any depth, keys included, and must be equal - plus in-program probes (type(k), k/2, 1/k).
func renderNoExtras(o object.Object) string {
	isExtra := func(x object.Object) bool {
		i, ok := x.(object.Integer)
		return ok && i.Value >= 1000
	}
	switch {
	case o.Type() == object.ARRAY:
		var parts []string
		for _, e := range object.Elements(o) {
			if !isExtra(e) {
				parts = append(parts, renderNoExtras(e))
			}
		}
		return "[" + strings.Join(parts, ",") + "]"
	case o.Type() == object.MAP:
		m := o.(object.Map)
		var parts []string
		for _, k := range object.Elements(o) {
			if v, _ := m.Get(k); !isExtra(k) {
				parts = append(parts, renderNoExtras(k)+":"+renderNoExtras(v))
			}
		}
		return "{" + strings.Join(parts, ",") + "}"
	}
	return exact(o)
}

func c06SizeTwins(c *Ctx) {
	type twin struct {
		kind, name string
		small      string
		extras     []string // appended one by one: the last makes it large
	}
	var twins []twin
	mapBases := map[string][]string{
		"intkeys":   {"1:\"a\"", "2:\"b\"", "3:\"c\"", "4:\"d\""},
		"floatkeys": {"1.0:\"a\"", "2.0:\"b\"", "3.0:\"c\"", "4.5:\"d\""},
		"zerokey":   {"0.0:\"a\"", "2:\"b\"", "3:\"c\""},
		"negzero":   {"-0.0:\"a\"", "1:1.0", "2:-0.0", "3:[1,1.0]"},
		"intzero":   {"0:0", "1:1"},
		"one":       {"1:\"a\""},
	}
	for _, n := range []string{"intkeys", "floatkeys", "zerokey", "negzero", "intzero", "one"} {
		b := mapBases[n]
		var ex []string
		for i := 0; len(b)+i < 5; i++ {
			ex = append(ex, fmt.Sprintf("%d:%d", 1000+i, 1000+i))
		}
		twins = append(twins, twin{"map", n, "{" + strings.Join(b, ",") + "}", ex})
	}
	arrBases := map[string][]string{
		"mixed8": {"1", "1.0", "0.0", "-0.0", "2", "\"a\"", "3", "4.5"},
		"ints8":  {"1", "2", "3", "4", "5", "6", "7", "8"},
		"mixed5": {"1.0", "0", "-0.0", "[1,1.0]", "{1.0:1}"},
	}
	for _, n := range []string{"mixed8", "ints8", "mixed5"} {
		b := arrBases[n]
		var ex []string
		for i := 0; len(b)+i < 9; i++ {
			ex = append(ex, strconv.Itoa(1000+i))
		}
		twins = append(twins, twin{"array", n, "[" + strings.Join(b, ",") + "]", ex})
	}
	type opT struct{ name, stmts, expr string }
	var mapOps, arrOps []opT
	for i, u := range []string{"{1.0:\"z\"}", "{1:\"z\"}", "{-0.0:\"z\"}", "{0.0:\"z\"}", "{0:\"z\"}", "{2.0:\"z\",3.5:\"y\",4:1.0}",
		"{1.0:1,2.0:2,3.0:3,4.0:4,5.0:5,0.0:0}", "{1:1,2:2,3:3,4:4,5:5,-0.0:0}"} {
		t := strconv.Itoa(i)
		mapOps = append(mapOps, opT{"merge-left" + t, "", "x+" + u}, opT{"merge-right" + t, "", u + "+x"}, opT{"merge-twice" + t, "", "x+" + u + "+x"},
			opT{"merge-keytype" + t, "", "type(first(x+" + u + ").key)"}, opT{"merge-keyhalf" + t, "", "first(x+" + u + ").key/2"},
			opT{"merge-keyinverse" + t, "", "1.0/(first(x+" + u + ").key+0.0)"}, opT{"merge-rebind" + t, "x=x+" + u, "x"},
			opT{"merge-infunction" + t, "f=func(p,q){p+q}", "[f(x," + u + "),f(" + u + ",x)]"})
	}
	for i, k := range []string{"1.0", "1", "-0.0", "0.0", "0", "2.0", "3", "4.5", "7.0", "7"} {
		t := strconv.Itoa(i)
		mapOps = append(mapOps, opT{"set" + t, "x[" + k + "]=\"w\"", "x"}, opT{"set-samevalue" + t, "x[" + k + "]=x[" + k + "]", "x"},
			opT{"set-copy" + t, "y=x;y[" + k + "]=1.0", "[x,y]"}, opT{"set-param" + t, "", "func(p){p[" + k + "]=-0.0;p}(x)"},
			opT{"set-outer" + t, "func(){x[" + k + "]=1}()", "x"}, opT{"del" + t, "del(x[" + k + "])", "x"}, opT{"get" + t, "", "x[" + k + "]"},
			opT{"set-keytype" + t, "x[" + k + "]=5", "[type(first(x).key),first(x).key/2]"}, opT{"del-set" + t, "del(x[" + k + "]);x[" + k + "]=2", "x"})
	}
	mapOps = append(mapOps, opT{"first", "", "first(x)"}, opT{"rest", "", "rest(x)"}, opT{"keys", "", "keys(x)"}, opT{"range", "", "x[0:2]"}, opT{"range1", "", "x[1:3]"},
		opT{"copy", "y=x", "[x,y]"}, opT{"inarray", "", "[x,x]"}, opT{"json", "", "json(x[0:1])"}, opT{"firstkey-type", "", "type(first(x).key)"},
		opT{"keys-halves", "", "func h(a){if len(a)==0{return []};[first(a)/2]+h(rest(a))}(keys(x)[0:1])"}, opT{"equal-self", "y=x", "x==y"})
	for i, e := range []string{"1.0", "1", "-0.0", "0.0", "0", "[1.0]", "[1,1.0,-0.0]"} {
		t := strconv.Itoa(i)
		arrOps = append(arrOps, opT{"append" + t, "", "x+" + e}, opT{"append-rebind" + t, "x=x+" + e, "x"}, opT{"prepend" + t, "", "[" + e + "]+x"},
			opT{"set" + t, "x[0]=" + e, "x"}, opT{"set1" + t, "x[1]=" + e + ";x[2]=" + e + ";x[3]=" + e, "x"}, opT{"set-copy" + t, "y=x;y[2]=" + e, "[x,y]"},
			opT{"set-param" + t, "", "func(p){p[3]=" + e + ";p}(x)"}, opT{"set-outer" + t, "func(){x[1]=" + e + "}()", "x"},
			opT{"set-types" + t, "x[0]=" + e + ";x[2]=" + e, "[type(x[0]),type(x[2]),type(x[1])]"})
	}
	arrOps = append(arrOps, opT{"first", "", "first(x)"}, opT{"rest", "", "rest(x)"}, opT{"slice", "", "x[0:3]"}, opT{"slice1", "", "x[1:]"}, opT{"repeat", "", "x*2"},
		opT{"copy", "y=x", "[x,y]"}, opT{"nest", "", "[x,{1.0:x}]"}, opT{"elem-types", "", "[type(x[0]),type(x[1]),type(x[2]),type(x[3]),type(x[4])]"},
		opT{"elem-halves", "", "[x[0]/2,x[1]/2,x[4]/2]"}, opT{"elem-inverse", "", "[1.0/(x[2]+0.0),1.0/(x[3]+0.0)]"}, opT{"variadic", "", "vfn(x[0],x[1],x[2],x[3])"},
		opT{"loop-types", "r=[];for i=4{r=r+[type(x[i])]}", "r"}, opT{"forin-first", "r=[];for e=x[0:4]{r=r+[e]}", "r"}, opT{"equal-self", "y=x", "x==y"},
		opT{"index-float", "", "x[1.0]"}, opT{"set-index-float", "x[1.0]=7", "x"})
	n := 0
	for _, tw := range twins {
		ops := mapOps
		if tw.kind == "array" {
			ops = arrOps
		}
		open, closeB, del := tw.small[:1], tw.small[len(tw.small)-1:], ""
		inner := tw.small[1 : len(tw.small)-1]
		large := open + inner + "," + strings.Join(tw.extras, ",") + closeB
		grown := "x=" + tw.small
		for i, e := range tw.extras {
			if tw.kind == "map" {
				kv := strings.SplitN(e, ":", 2)
				grown += ";x[" + kv[0] + "]=" + kv[1]
				del += ";del(x[" + kv[0] + "])"
			} else {
				grown += ";x=x+" + e
				_ = i
			}
		}
		builds := []struct{ name, src string }{{"literal", "x=" + large}, {"grown", grown}, {"copied", "z=" + large + ";x=z"}}
		smalls := []struct{ name, src string }{{"literal", "x=" + tw.small}}
		if tw.kind == "map" {
			smalls = append(smalls, struct{ name, src string }{"shrunk", "x=" + large + del})
		} else {
			smalls = append(smalls, struct{ name, src string }{"sliced", fmt.Sprintf("x=%s[0:%d]", large, strings.Count(large, ",")+1-len(tw.extras))})
		}
		run := func(build string, o opT) (string, string) {
			se := newSession()
			prog := build
			if o.stmts != "" {
				prog += ";" + o.stmts
			}
			r, _, _ := se.exec(prog)
			c.Eval()
			if r == "err" {
				return "<error>", prog + "; " + o.expr
			}
			res, err := eval.EvalString(se.s, o.expr, false)
			if err != nil {
				return "<error>", prog + "; " + o.expr
			}
			return renderNoExtras(res), prog + "; " + o.expr
		}
		for _, o := range ops {
			if o.name == "rest" && tw.name == "one" {
				continue // rest of a single pair is nil, of the twin a map of extras: emptiness, not representation
			}
			want, smallProg := run(smalls[0].src, o)
			for _, sm := range smalls[1:] {
				n++
				if got, prog := run(sm.src, o); got != want {
					c.Fail("size-dependent-"+tw.kind+"-"+strings.TrimRight(o.name, "0123456789"), "TWIN "+prog,
						fmt.Sprintf("%s gives %s on the %s small %s, %s on the literal one (%s)", o.expr, got, sm.name, tw.kind, want, smallProg))
				}
			}
			for _, b := range builds {
				n++
				if got, prog := run(b.src, o); got != want {
					c.Fail("size-dependent-"+tw.kind+"-"+strings.TrimRight(o.name, "0123456789"), "TWIN "+prog,
						fmt.Sprintf("%s gives %s on the large %s (%s; extras >= 1000 left out), %s on the small one (%s)", o.expr, got, tw.kind, b.name, want, smallProg))
				}
			}
		}
	}
	c.Extra["size_twin_programs"] = n
}

func runC06(c *Ctx) {
	c.Rule = "sequences of bind / copy / index-assign / + element / + array / * / slice / rest / get / map set / merge / del / " +
		"element increment / store into another container / call mutating its parameter and OUTER variables (func, lambda, named function; " +
		"statements 0-3 function bodies deep, inside if / for) / loop variable, sizes 0..20 crossing 8 and 4 both ways, nested containers; " +
		"fork histories (one base grown, shrunk or cut out of a bigger container, then 2-3 values derived from the same base by + with keys " +
		"above / below / between / on the base's, via statements, parameters, outer variables, loops); variadic calls (0-2 named parameters + .., " +
		"keeping .. itself / a slice / inside an array or map / in an outer variable; called at top level and 1-3 function bodies deep with outer variables, " +
		"locals, the parameter and expressions as arguments, which then change - direct oracle only), on one persistent eval.State; " +
		"every binding read after every statement; each sequence runs in a child process (a crash or hang of the interpreter is a failing input). " +
		"non-trivial = distinct sequences in which a statement (other than a literal or a read) ran while another live binding held a large array or map"
	if c.ReplayCase != "" {
		f := strings.Fields(c.ReplayCase)
		if len(f) == 4 && f[0] == "SEQ" {
			runJobs(c, []job{{kind: "replay", from: 0, to: 1, replay: c.ReplayCase}})
		} else if len(f) > 0 && (f[0] == "HANDED" || f[0] == "LAZY" || f[0] == "UNOBSERVED" || f[0] == "TWIN") { // direct phases: cheap, replayed as a whole
			c06HandedOut(c)
			c06LazyRefs(c)
			c06Unobserved(c)
			c06SizeTwins(c)
		} else {
			fmt.Println("bad replay case")
		}
		return
	}
	c06HandedOut(c)
	c06LazyRefs(c)
	c06Unobserved(c)
	c06SizeTwins(c)
	jobs := split("corpus", 0, len(corpus()), 100, 0, 0)
	if os.Getenv("C06_CORPUS_ONLY") != "" { // reproduction of the recorded defects on a pre-repair tree
		runJobs(c, jobs)
		return
	}
	kA, kB, kC, nRandom, nFork, nVari, maxOps := 2, 3, 3, 8000, 6000, 4000, 14
	if c.Thorough() {
		kA, kB, kC, nRandom, nFork, nVari, maxOps = 3, 4, 4, 120000, 60000, 60000, 16
	}
	nA, nB, nC := pow(len(famA().alpha), kA), pow(len(famB().alpha), kB), pow(len(famC().alpha), kC)
	jobs = append(jobs, split("exhA", 0, nA, 400, kA, 0)...)
	jobs = append(jobs, split("exhB", 0, nB, 400, kB, 0)...)
	jobs = append(jobs, split("exhC", 0, nC, 400, kC, 0)...)
	jobs = append(jobs, split("fork", c.R.Next(), nFork, 400, 0, 0)...)
	jobs = append(jobs, split("rand", c.R.Next(), nRandom, 250, 0, maxOps)...)
	jobs = append(jobs, split("vari", c.R.Next(), nVari, 400, 0, maxOps)...)
	c.Extra["exhaustive"] = true
	c.Extra["exhaustive_sequences"] = nA + nB + nC
	runJobs(c, jobs)
}
