package main

// C06: arrays and maps are values - no aliasing, at any size.
// Correspondence: sequences of statements run as grol source on ONE persistent eval.State (repl.EvalOne); after
// EVERY statement all live bindings are read (Inspect text + small/large representation) and compared with the
// container machine of coq/model/Containers.v (whose readings the theorems equate with the pure value model).
// Direct oracle (model-free): snapshot all bindings, run one statement, every binding the statement does not
// write must be byte-identical (in particular x+y leaves x and y identical).

import (
	"context"
	"fmt"
	"os"
	"strconv"
	"strings"

	"fortio.org/log"
	"grol.io/grol/eval"
	"grol.io/grol/object"
	"grol.io/grol/repl"
	"verifharness/common"
	. "verifharness/common"
)

func main() { common.Main("C06", runC06) }

const paramVar = 99
const nVars = 8

// ---- statements (same encoding as ocaml/drv_C06.ml)
type elem struct {
	isVar bool
	n     int64
}

func (e elem) enc() string {
	if e.isVar {
		return "v" + strconv.FormatInt(e.n, 10)
	}
	return "i" + strconv.FormatInt(e.n, 10)
}
func (e elem) src() string {
	if e.isVar {
		return vname(int(e.n))
	}
	return strconv.FormatInt(e.n, 10)
}
func vname(v int) string {
	if v == paramVar {
		return "pp"
	}
	return "v" + strconv.Itoa(v)
}

type kv struct {
	k int64
	e elem
}

type prim struct {
	kind string // AL ML CP IS PL RP SL RS GT DL IN UB
	x, y int
	i, j int64
	e    elem
	es   []elem
	kvs  []kv
}

func (p prim) enc() string {
	switch p.kind {
	case "AL":
		parts := make([]string, len(p.es))
		for i, e := range p.es {
			parts[i] = e.enc()
		}
		s := strings.Join(parts, "|")
		if s == "" {
			s = "-"
		}
		return fmt.Sprintf("AL,%d,%s", p.x, s)
	case "ML":
		parts := make([]string, len(p.kvs))
		for i, e := range p.kvs {
			parts[i] = fmt.Sprintf("%d:%s", e.k, e.e.enc())
		}
		s := strings.Join(parts, "|")
		if s == "" {
			s = "-"
		}
		return fmt.Sprintf("ML,%d,%s", p.x, s)
	case "CP", "RS":
		return fmt.Sprintf("%s,%d,%d", p.kind, p.x, p.y)
	case "IS":
		return fmt.Sprintf("IS,%d,%d,%s", p.x, p.i, p.e.enc())
	case "PL":
		return fmt.Sprintf("PL,%d,%d,%s", p.x, p.y, p.e.enc())
	case "RP", "GT":
		return fmt.Sprintf("%s,%d,%d,%d", p.kind, p.x, p.y, p.i)
	case "SL":
		return fmt.Sprintf("SL,%d,%d,%d,%d", p.x, p.y, p.i, p.j)
	case "DL", "IN":
		return fmt.Sprintf("%s,%d,%d", p.kind, p.x, p.i)
	case "UB":
		return fmt.Sprintf("UB,%d", p.x)
	}
	panic("bad prim " + p.kind)
}

func (p prim) src() string {
	x, y := vname(p.x), vname(p.y)
	switch p.kind {
	case "AL":
		parts := make([]string, len(p.es))
		for i, e := range p.es {
			parts[i] = e.src()
		}
		return x + "=[" + strings.Join(parts, ",") + "]"
	case "ML":
		parts := make([]string, len(p.kvs))
		for i, e := range p.kvs {
			parts[i] = fmt.Sprintf("%d:%s", e.k, e.e.src())
		}
		return x + "={" + strings.Join(parts, ",") + "}"
	case "CP":
		return x + "=" + y
	case "IS":
		return fmt.Sprintf("%s[%d]=%s", x, p.i, p.e.src())
	case "PL":
		return x + "=" + y + "+" + p.e.src()
	case "RP":
		return fmt.Sprintf("%s=%s*%d", x, y, p.i)
	case "SL":
		return fmt.Sprintf("%s=%s[%d:%d]", x, y, p.i, p.j)
	case "RS":
		return x + "=rest(" + y + ")"
	case "GT":
		return fmt.Sprintf("%s=%s[%d]", x, y, p.i)
	case "DL":
		return fmt.Sprintf("del(%s[%d])", x, p.i)
	case "IN":
		return fmt.Sprintf("%s[%d]=%s[%d]+1", x, p.i, x, p.i)
	case "UB":
		return "del(" + x + ")"
	}
	panic("bad prim " + p.kind)
}

// what kind of operation (for signatures)
func (p prim) opName() string {
	switch p.kind {
	case "AL", "ML":
		return "literal"
	case "CP":
		return "copy"
	case "IS":
		return "indexassign"
	case "PL":
		if p.e.isVar {
			return "plus"
		}
		return "append"
	case "RP":
		return "repeat"
	case "SL":
		return "slice"
	case "RS":
		return "rest"
	case "GT":
		return "get"
	case "DL":
		return "del"
	case "IN":
		return "incr"
	case "UB":
		return "unbind"
	}
	return p.kind
}

type op struct {
	kind byte // 'P' 'F' 'C'
	p    prim
	a, b int // F: e,y   C: r,y
	body []prim
}

func bodyEnc(b []prim) string {
	if len(b) == 0 {
		return "-"
	}
	parts := make([]string, len(b))
	for i, p := range b {
		parts[i] = p.enc()
	}
	return strings.Join(parts, "/")
}
func (o op) enc() string {
	switch o.kind {
	case 'P':
		return "P:" + o.p.enc()
	case 'F':
		return fmt.Sprintf("F:%d,%d:%s", o.a, o.b, bodyEnc(o.body))
	default:
		return fmt.Sprintf("C:%d,%d:%s", o.a, o.b, bodyEnc(o.body))
	}
}
func (o op) src() string {
	parts := make([]string, len(o.body))
	for i, p := range o.body {
		parts[i] = p.src()
	}
	switch o.kind {
	case 'P':
		return o.p.src()
	case 'F':
		return fmt.Sprintf("for %s=%s{%s}", vname(o.a), vname(o.b), strings.Join(parts, ";"))
	default:
		parts = append(parts, "pp")
		return fmt.Sprintf("%s=func(pp){%s}(%s)", vname(o.a), strings.Join(parts, ";"), vname(o.b))
	}
}
func (o op) writes() map[int]bool {
	w := map[int]bool{}
	switch o.kind {
	case 'P':
		w[o.p.x] = true
	case 'F':
		w[o.a] = true
		for _, p := range o.body {
			w[p.x] = true
		}
	default:
		w[o.a] = true
		for _, p := range o.body {
			w[p.x] = true
		}
	}
	return w
}
func (o op) opName() string {
	switch o.kind {
	case 'P':
		return o.p.opName()
	case 'F':
		return "loop"
	default:
		return "call"
	}
}

func encOps(ops []op) string {
	parts := make([]string, len(ops))
	for i, o := range ops {
		parts[i] = o.enc()
	}
	return strings.Join(parts, ";")
}

// ---- decoding (replay)
func decElem(s string) elem {
	n, _ := strconv.ParseInt(s[1:], 10, 64)
	return elem{isVar: s[0] == 'v', n: n}
}
func atoi(s string) int     { n, _ := strconv.Atoi(s); return n }
func atoi64(s string) int64 { n, _ := strconv.ParseInt(s, 10, 64); return n }
func decPrim(s string) prim {
	f := strings.Split(s, ",")
	p := prim{kind: f[0]}
	switch f[0] {
	case "AL":
		p.x = atoi(f[1])
		if f[2] != "-" {
			for _, e := range strings.Split(f[2], "|") {
				p.es = append(p.es, decElem(e))
			}
		}
	case "ML":
		p.x = atoi(f[1])
		if f[2] != "-" {
			for _, e := range strings.Split(f[2], "|") {
				kvp := strings.SplitN(e, ":", 2)
				p.kvs = append(p.kvs, kv{atoi64(kvp[0]), decElem(kvp[1])})
			}
		}
	case "CP", "RS":
		p.x, p.y = atoi(f[1]), atoi(f[2])
	case "IS":
		p.x, p.i, p.e = atoi(f[1]), atoi64(f[2]), decElem(f[3])
	case "PL":
		p.x, p.y, p.e = atoi(f[1]), atoi(f[2]), decElem(f[3])
	case "RP", "GT":
		p.x, p.y, p.i = atoi(f[1]), atoi(f[2]), atoi64(f[3])
	case "SL":
		p.x, p.y, p.i, p.j = atoi(f[1]), atoi(f[2]), atoi64(f[3]), atoi64(f[4])
	case "DL", "IN":
		p.x, p.i = atoi(f[1]), atoi64(f[2])
	case "UB":
		p.x = atoi(f[1])
	}
	return p
}
func decOps(s string) []op {
	var ops []op
	for _, os := range strings.Split(s, ";") {
		k := os[0]
		rest := os[2:]
		if k == 'P' {
			ops = append(ops, op{kind: 'P', p: decPrim(rest)})
			continue
		}
		i := strings.IndexByte(rest, ':')
		hd := strings.Split(rest[:i], ",")
		o := op{kind: k, a: atoi(hd[0]), b: atoi(hd[1])}
		if rest[i+1:] != "-" {
			for _, ps := range strings.Split(rest[i+1:], "/") {
				o.body = append(o.body, decPrim(ps))
			}
		}
		ops = append(ops, o)
	}
	return ops
}

// ---- running on the real interpreter
type binding struct {
	kind    byte // i n s b S B ?
	text    string
	length  int
	present bool
}

type session struct {
	s    *eval.State
	opts repl.Options
}

func newSession() *session {
	s := eval.NewState()
	out := &strings.Builder{}
	s.Out, s.LogOut, s.NoLog = out, out, true
	return &session{s: s, opts: repl.Options{All: true, ShowEval: true, NoColor: true, NilAndErr: true}}
}

// run one statement through repl.EvalOne: ("ok=<inspect>" | "err", panicked)
func (se *session) exec(src string) (string, bool, []string) {
	out := &strings.Builder{}
	se.s.Out, se.s.LogOut = out, out
	_, panicked, errs, _ := repl.EvalOne(context.Background(), se.s, src, out, se.opts)
	se.s.Context = nil // EvalOne leaves its cancelled context behind; reads below go through EvalString
	if panicked {
		return "panic", true, errs
	}
	if len(errs) > 0 {
		return "err", false, errs
	}
	return "ok=" + strings.TrimSpace(out.String()), false, nil
}

func kindOf(o object.Object) byte {
	switch o.(type) {
	case object.Integer:
		return 'i'
	case object.Null:
		return 'n'
	case object.SmallArray:
		return 's'
	case object.BigArray:
		return 'b'
	case object.SmallMap, *object.SmallMap:
		return 'S'
	case *object.BigMap:
		return 'B'
	}
	return '?'
}

func (se *session) read() [nVars]binding {
	var bs [nVars]binding
	for v := 0; v < nVars; v++ {
		o, err := eval.EvalString(se.s, vname(v), false)
		if err != nil {
			continue
		}
		bs[v] = binding{kind: kindOf(o), text: safeInspect(o), length: object.Len(o), present: true}
	}
	return bs
}

// a value corrupted by in-place sharing can hold nil objects: Inspect then crashes at the Go level
func safeInspect(o object.Object) (txt string) {
	defer func() {
		if r := recover(); r != nil {
			txt = fmt.Sprintf("<INSPECT PANIC %v>", r)
		}
	}()
	return o.Inspect()
}

func obsBindings(bs [nVars]binding) string {
	var parts []string
	for v := 0; v < nVars; v++ {
		if bs[v].present {
			parts = append(parts, fmt.Sprintf("v%d=%c%s", v, bs[v].kind, bs[v].text))
		}
	}
	return strings.Join(parts, " ")
}

func reprName(k byte) string {
	switch k {
	case 'b':
		return "bigarray"
	case 's':
		return "smallarray"
	case 'B':
		return "bigmap"
	case 'S':
		return "smallmap"
	}
	return "scalar"
}

// one sequence = one correspondence case + the direct oracle on every step
func c06Seq(c *Ctx, ops []op, slack int) {
	se := newSession()
	line := fmt.Sprintf("SEQ F %d %s", slack, encOps(ops))
	var obs []string
	before := se.read()
	sensitive := false
	for idx, o := range ops {
		res, panicked, errs := se.exec(o.src())
		c.Eval()
		if panicked {
			c.Fail("panic-"+o.opName(), line, fmt.Sprintf("step %d %q: %v", idx, o.src(), errs))
		}
		if res == "err" && len(errs) > 0 && strings.Contains(errs[0], "parse") {
			c.Fail("harness-unparsable-statement", line, fmt.Sprintf("step %d %q: %v", idx, o.src(), errs))
		}
		after := se.read()
		for v := 0; v < nVars; v++ {
			if after[v].present && strings.HasPrefix(after[v].text, "<INSPECT PANIC") {
				c.Fail("corrupt-value-"+o.opName(), line, fmt.Sprintf("step %d %q: %s holds a nil object: %s", idx, o.src(), vname(v), after[v].text))
			}
		}
		w := o.writes()
		for v := 0; v < nVars; v++ {
			if !before[v].present || w[v] {
				continue
			}
			if before[v].kind == 'b' || before[v].kind == 'B' {
				// another live large container while something is written: the aliasing-sensitive situation
				if o.opName() != "literal" && o.opName() != "get" {
					sensitive = true
				}
			}
			if !after[v].present || after[v].text != before[v].text {
				c.Fail("alias-"+reprName(before[v].kind)+"-"+o.opName(), line,
					fmt.Sprintf("step %d %q changed %s: %s -> %s", idx, o.src(), vname(v), before[v].text, after[v].text))
			}
		}
		c.Count("op=" + o.opName())
		if res == "err" {
			c.Count("outcome=err")
		} else {
			c.Count("outcome=ok")
		}
		obs = append(obs, strings.TrimSpace(res+" "+obsBindings(after)))
		before = after
	}
	for v := 0; v < nVars; v++ {
		if before[v].present {
			c.Count(fmt.Sprintf("final=%c", before[v].kind))
		}
	}
	if sensitive {
		c.NonTrivial(line)
	}
	c.Case(line, strings.Join(obs, " | "))
}

// ---- generators
func ints(from, n int) []elem {
	es := make([]elem, n)
	for i := range es {
		es[i] = elem{n: int64(from + i)}
	}
	return es
}
func arrLit(x, n int) op { return op{kind: 'P', p: prim{kind: "AL", x: x, es: ints(1, n)}} }
func mapLit(x, n int) op {
	p := prim{kind: "ML", x: x}
	for i := 1; i <= n; i++ {
		p.kvs = append(p.kvs, kv{int64(i), elem{n: int64(i)}})
	}
	return op{kind: 'P', p: p}
}
func P(kind string, x, y int, i, j int64, e elem) op {
	return op{kind: 'P', p: prim{kind: kind, x: x, y: y, i: i, j: j, e: e}}
}
func I(n int64) elem { return elem{n: n} }
func V(v int) elem   { return elem{isVar: true, n: int64(v)} }

func corpus() [][]op {
	return [][]op{
		// a=[1..10];b=a;b[0]=99;a[0]
		{arrLit(0, 10), P("CP", 1, 0, 0, 0, elem{}), P("IS", 1, 0, 0, 0, I(99)), P("GT", 2, 0, 0, 0, elem{})},
		// a=[1..9];b=a+[10];x=b+[11];y=b+[12];x   (element and array forms)
		{arrLit(0, 9), P("PL", 1, 0, 0, 0, I(10)), P("PL", 2, 1, 0, 0, I(11)), P("PL", 3, 1, 0, 0, I(12))},
		{arrLit(0, 9), op{kind: 'P', p: prim{kind: "AL", x: 4, es: ints(10, 1)}}, P("PL", 1, 0, 0, 0, V(4)), P("PL", 2, 1, 0, 0, V(4)), P("PL", 3, 1, 0, 0, V(0))},
		// big map: n=m;n[1]=99;m[1] ; del(n[2]) ; callee x[1]=42
		{mapLit(0, 5), P("CP", 1, 0, 0, 0, elem{}), P("IS", 1, 0, 1, 0, I(99)), P("GT", 2, 0, 1, 0, elem{}), P("DL", 1, 0, 2, 0, elem{}),
			{kind: 'C', a: 3, b: 0, body: []prim{{kind: "IS", x: paramVar, i: 1, e: I(42)}}}},
		// insertion of a new key into a shared big map, and into a re-sliced one
		{mapLit(0, 6), P("CP", 1, 0, 0, 0, elem{}), P("IS", 1, 0, 9, 0, I(7)), P("SL", 2, 0, 0, 5, elem{}), P("IS", 2, 0, 0, 0, I(5)), P("RS", 3, 0, 0, 0, elem{}), P("DL", 3, 0, 3, 0, elem{})},
		// slice of a big array then append: writes into the parent's elements
		{arrLit(0, 12), P("SL", 1, 0, 0, 9, elem{}), P("PL", 2, 1, 0, 0, I(77)), P("RS", 3, 0, 0, 0, elem{}), P("IS", 3, 0, 0, 0, I(55))},
		// array literal inside a function holding an outer variable: g=[1,2];r=func(){[g,7]}();g=5;r
		{arrLit(0, 2), arrLit(1, 1), {kind: 'C', a: 2, b: 1, body: []prim{{kind: "AL", x: paramVar, es: []elem{V(0), I(7)}}}}, op{kind: 'P', p: prim{kind: "AL", x: 0, es: ints(5, 1)}}},
		// nested: store a big array inside another container, then mutate either
		{arrLit(0, 10), arrLit(1, 3), P("IS", 1, 0, 0, 0, V(0)), P("IS", 0, 0, 0, 0, I(99)), P("GT", 2, 1, 0, 0, elem{}), P("IS", 2, 0, 1, 0, I(98)), P("IN", 1, 0, 0, 0, elem{})},
		// loop variable bound to nested big containers and mutated in the body
		{arrLit(0, 9), mapLit(1, 5), op{kind: 'P', p: prim{kind: "AL", x: 2, es: []elem{V(0), V(0)}}},
			{kind: 'F', a: 3, b: 2, body: []prim{{kind: "IS", x: 3, i: 0, e: I(99)}, {kind: "PL", x: 4, y: 3, e: I(1)}}}},
		// crossing the thresholds downwards and upwards
		{mapLit(0, 5), P("CP", 1, 0, 0, 0, elem{}), P("DL", 0, 0, 1, 0, elem{}), P("DL", 0, 0, 2, 0, elem{}), P("IS", 0, 0, 7, 0, I(7)), P("IS", 0, 0, 8, 0, I(8)),
			arrLit(2, 8), P("PL", 3, 2, 0, 0, I(9)), P("SL", 4, 3, 0, 8, elem{}), P("IS", 4, 0, 0, 0, I(0)), P("RP", 5, 2, 2, 0, elem{}), P("IS", 5, 0, -1, 0, I(0))},
		// merge
		{mapLit(0, 3), mapLit(1, 5), P("PL", 2, 0, 0, 0, V(1)), P("PL", 3, 1, 0, 0, V(0)), P("IS", 2, 0, 1, 0, I(9)), P("IS", 3, 0, 1, 0, I(8)), op{kind: 'P', p: prim{kind: "ML", x: 4}}, P("PL", 5, 0, 0, 0, V(4))},
	}
}

type genState struct {
	bs [nVars]binding
}

func (g *genState) pick(c *Ctx, pred func(b binding) bool) (int, bool) {
	var cands []int
	for v := 0; v < nVars; v++ {
		if g.bs[v].present && len(g.bs[v].text) <= 250 && pred(g.bs[v]) { // keeps renderings bounded (nesting doubles them)
			cands = append(cands, v)
		}
	}
	if len(cands) == 0 {
		return 0, false
	}
	return cands[c.R.Intn(len(cands))], true
}
func isArr(b binding) bool  { return b.kind == 's' || b.kind == 'b' }
func isMap(b binding) bool  { return b.kind == 'S' || b.kind == 'B' }
func isCont(b binding) bool { return isArr(b) || isMap(b) }
func anyB(b binding) bool   { return true }
func notInt(b binding) bool { return b.kind != 'i' }

var arrSizes = []int{0, 1, 2, 5, 7, 8, 8, 9, 9, 10, 12, 16, 20}
var mapSizes = []int{0, 1, 3, 4, 4, 5, 5, 6, 9, 20}

func (g *genState) randElem(c *Ctx, allowVar bool) elem {
	if allowVar && c.R.Pct(25) {
		if v, ok := g.pick(c, anyB); ok {
			return V(v)
		}
	}
	return I(int64(c.R.Intn(50)))
}

func (g *genState) randIndex(c *Ctx, b binding) int64 {
	if isMap(b) {
		return int64(c.R.Intn(24))
	}
	n := b.length
	if n > 0 && c.R.Pct(85) {
		i := int64(c.R.Intn(n))
		if c.R.Pct(20) {
			return i - int64(n)
		}
		return i
	}
	return int64(n + c.R.Intn(3))
}

// a random statement that stays inside the model's fragment; inFn: body of a call (targets must exist)
func (g *genState) randPrim(c *Ctx, inFn bool, extra []int) prim {
	target := func() int {
		if inFn {
			if c.R.Pct(60) {
				return paramVar
			}
			if v, ok := g.pick(c, anyB); ok {
				return v
			}
			return paramVar
		}
		return c.R.Intn(nVars)
	}
	// a source variable: a bound one, or one of the extra names (param / loop variable)
	src := func(pred func(binding) bool) (int, bool) {
		if len(extra) > 0 && c.R.Pct(50) {
			return extra[c.R.Intn(len(extra))], true
		}
		return g.pick(c, pred)
	}
	for tries := 0; tries < 50; tries++ {
		switch k := c.R.Intn(100); {
		case k < 8:
			n := arrSizes[c.R.Intn(len(arrSizes))]
			p := prim{kind: "AL", x: target()}
			for i := 0; i < n; i++ {
				p.es = append(p.es, g.randElem(c, n <= 12))
			}
			return p
		case k < 14:
			n := mapSizes[c.R.Intn(len(mapSizes))]
			p := prim{kind: "ML", x: target()}
			for i := 0; i < n; i++ {
				key := int64(i * 2)
				if c.R.Pct(15) {
					key = int64(c.R.Intn(12))
				}
				p.kvs = append(p.kvs, kv{key, g.randElem(c, n <= 9)})
			}
			// literal order is arbitrary: rotate
			if len(p.kvs) > 1 {
				r := c.R.Intn(len(p.kvs))
				p.kvs = append(p.kvs[r:], p.kvs[:r]...)
			}
			return p
		case k < 24:
			if y, ok := src(anyB); ok {
				return prim{kind: "CP", x: target(), y: y}
			}
		case k < 46:
			if x, ok := src(isCont); ok {
				b := binding{kind: 's', length: 3}
				if x < nVars {
					b = g.bs[x]
				}
				return prim{kind: "IS", x: x, i: g.randIndex(c, b), e: g.randElem(c, true)}
			}
		case k < 62:
			if y, ok := src(isCont); ok {
				if x := target(); true {
					if y < nVars && g.bs[y].length > 40 {
						continue
					}
					e := g.randElem(c, false)
					if c.R.Pct(50) {
						if z, ok := src(notInt); ok {
							e = V(z)
						}
					}
					return prim{kind: "PL", x: x, y: y, e: e}
				}
			}
		case k < 66:
			if y, ok := g.pick(c, func(b binding) bool { return b.kind != 'i' && b.length <= 12 }); ok {
				return prim{kind: "RP", x: target(), y: y, i: int64(c.R.Intn(4))}
			}
		case k < 74:
			if y, ok := g.pick(c, notInt); ok {
				n := g.bs[y].length
				l := c.R.Intn(n + 1)
				r := l + c.R.Intn(n-l+2)
				li, ri := int64(l), int64(r)
				if n > 0 && c.R.Pct(15) {
					li = int64(l - n)
					if li == 0 {
						li = int64(-n)
					}
				}
				if n > 0 && r <= n && r > 0 && c.R.Pct(15) {
					ri = int64(r - n)
					if ri == 0 {
						ri = int64(r)
					}
				}
				return prim{kind: "SL", x: target(), y: y, i: li, j: ri}
			}
		case k < 79:
			if y, ok := src(anyB); ok {
				return prim{kind: "RS", x: target(), y: y}
			}
		case k < 85:
			if y, ok := src(notInt); ok {
				b := binding{kind: 's', length: 3}
				if y < nVars {
					b = g.bs[y]
				}
				return prim{kind: "GT", x: target(), y: y, i: g.randIndex(c, b)}
			}
		case k < 92:
			if x, ok := src(anyB); ok {
				return prim{kind: "DL", x: x, i: int64(c.R.Intn(24))}
			}
		case k < 97:
			if x, ok := src(isCont); ok {
				b := binding{kind: 's', length: 3}
				if x < nVars {
					b = g.bs[x]
				}
				return prim{kind: "IN", x: x, i: g.randIndex(c, b)}
			}
		default:
			if !inFn {
				return prim{kind: "UB", x: c.R.Intn(nVars)}
			}
		}
	}
	return prim{kind: "AL", x: target(), es: ints(1, 9)}
}

// a statement for a loop body: no feedback that would double a value on every iteration
// (sources are the loop variable or integers; a target is read only as the left operand of +)
func (g *genState) loopPrim(c *Ctx, e int) prim {
	x := c.R.Intn(nVars)
	if v, ok := g.pick(c, isCont); ok && c.R.Pct(70) {
		x = v
	}
	el := I(int64(c.R.Intn(50)))
	if c.R.Pct(50) {
		el = V(e)
	}
	switch c.R.Intn(8) {
	case 0, 1:
		return prim{kind: "IS", x: x, i: int64(c.R.Intn(12)), e: el}
	case 2:
		return prim{kind: "IS", x: e, i: int64(c.R.Intn(10)), e: I(int64(c.R.Intn(50)))}
	case 3:
		return prim{kind: "PL", x: x, y: x, e: el}
	case 4:
		return prim{kind: "PL", x: x, y: e, e: I(int64(c.R.Intn(50)))}
	case 5:
		return prim{kind: "DL", x: x, i: int64(c.R.Intn(24))}
	case 6:
		return prim{kind: "IN", x: x, i: int64(c.R.Intn(10))}
	default:
		return prim{kind: "CP", x: x, y: e}
	}
}

func (g *genState) randOp(c *Ctx) op {
	nb := 0
	for v := 0; v < nVars; v++ {
		if g.bs[v].present && isCont(g.bs[v]) {
			nb++
		}
	}
	if nb < 2 {
		p := g.randPrim(c, false, nil)
		for p.kind != "AL" && p.kind != "ML" {
			p = g.randPrim(c, false, nil)
		}
		return op{kind: 'P', p: p}
	}
	switch k := c.R.Intn(100); {
	case k < 8:
		if y, ok := g.pick(c, isArr); ok {
			e := c.R.Intn(nVars)
			n := c.R.Intn(3)
			o := op{kind: 'F', a: e, b: y}
			for i := 0; i < n; i++ {
				o.body = append(o.body, g.loopPrim(c, e))
			}
			return o
		}
	case k < 18:
		if y, ok := g.pick(c, notInt); ok {
			o := op{kind: 'C', a: c.R.Intn(nVars), b: y}
			n := c.R.Intn(4)
			for i := 0; i < n; i++ {
				o.body = append(o.body, g.randPrim(c, true, []int{paramVar}))
			}
			return o
		}
	}
	return op{kind: 'P', p: g.randPrim(c, false, nil)}
}

// random sequence: generated against the live interpreter state (sizes and kinds are read back), then
// replayed from scratch by c06Seq
func c06Random(c *Ctx, maxOps int) {
	se := newSession()
	g := &genState{}
	var ops []op
	n := 4 + c.R.Intn(maxOps-3)
	for i := 0; i < n; i++ {
		o := g.randOp(c)
		se.exec(o.src())
		g.bs = se.read()
		tooBig := false
		for v := 0; v < nVars; v++ {
			if g.bs[v].present && len(g.bs[v].text) > 3000 {
				tooBig = true
			}
		}
		if tooBig { // drop the statement that blew a value up and end the sequence here
			break
		}
		ops = append(ops, o)
	}
	if len(ops) == 0 {
		return
	}
	c06Seq(c, ops, c.R.Intn(4))
}

// exhaustive: every sequence of k statements from a fixed alphabet after a fixed prelude
func c06Exhaustive(c *Ctx, k int) int {
	prelude := []op{arrLit(0, 9), mapLit(1, 5), P("CP", 2, 0, 0, 0, elem{}), P("CP", 3, 1, 0, 0, elem{})}
	alpha := []op{
		P("IS", 2, 0, 0, 0, I(99)), P("IS", 0, 0, -1, 0, V(1)), P("IS", 3, 0, 1, 0, I(99)), P("IS", 1, 0, 9, 0, V(0)),
		P("PL", 2, 0, 0, 0, I(10)), P("PL", 4, 2, 0, 0, I(11)), P("PL", 5, 2, 0, 0, V(0)), P("PL", 3, 1, 0, 0, V(3)),
		P("DL", 3, 0, 2, 0, elem{}), P("DL", 1, 0, 1, 0, elem{}), P("IN", 2, 0, 1, 0, elem{}), P("IN", 3, 0, 3, 0, elem{}),
		P("SL", 4, 0, 0, 8, elem{}), P("SL", 2, 2, 1, 99, elem{}), P("RS", 3, 3, 0, 0, elem{}), P("CP", 0, 4, 0, 0, elem{}),
		P("GT", 5, 0, -1, 0, elem{}), P("IS", 5, 0, 0, 0, I(7)),
		{kind: 'C', a: 4, b: 0, body: []prim{{kind: "IS", x: paramVar, i: 0, e: I(42)}}},
		{kind: 'C', a: 4, b: 1, body: []prim{{kind: "DL", x: paramVar, i: 1}, {kind: "IS", x: 3, i: 5, e: V(paramVar)}}},
		{kind: 'F', a: 5, b: 0, body: []prim{{kind: "PL", x: 2, y: 2, e: V(5)}}},
	}
	count := 0
	idx := make([]int, k)
	for {
		ops := append([]op(nil), prelude...)
		for _, i := range idx {
			ops = append(ops, alpha[i])
		}
		c06Seq(c, ops, count%4)
		count++
		j := k - 1
		for j >= 0 {
			idx[j]++
			if idx[j] < len(alpha) {
				break
			}
			idx[j] = 0
			j--
		}
		if j < 0 {
			break
		}
	}
	return count
}

func runC06(c *Ctx) {
	log.SetLogLevelQuiet(log.Critical)
	c.Rule = "sequences of bind / copy / index-assign / + element / + array / * / slice / rest / get / map set / merge / del / " +
		"element increment / store into another container / call mutating its parameter / loop variable, sizes 0..20 crossing 8 and 4 " +
		"both ways, nested containers, on one persistent eval.State; every binding read after every statement. " +
		"non-trivial = distinct sequences in which a statement (other than a literal or a read) ran while another live binding held a large array or map"
	if c.ReplayCase != "" {
		f := strings.Fields(c.ReplayCase)
		if len(f) == 4 && f[0] == "SEQ" {
			c06Seq(c, decOps(f[3]), atoi(f[2]))
		} else {
			fmt.Println("bad replay case")
		}
		return
	}
	for i, ops := range corpus() {
		c06Seq(c, ops, i%4)
	}
	if os.Getenv("C06_CORPUS_ONLY") != "" { // reproduction of the recorded defects on a pre-repair tree (random runs build cyclic values there)
		return
	}
	k, nRandom, maxOps := 2, 5000, 14
	if c.Thorough() {
		k, nRandom, maxOps = 3, 150000, 16
	}
	n := c06Exhaustive(c, k)
	c.Extra["exhaustive"] = true
	c.Extra["exhaustive_sequences"] = n
	for i := 0; i < nRandom; i++ {
		c06Random(c, maxOps)
	}
}
