package main

// C04: automatic memoization is unobservable.
//
// Every session (a REPL history over one persistent eval.State) is generated as an ABSTRACT program of the
// small language of coq/model/Memo.v, printed as grol source, and run four ways:
//   implementation, cache on  |  implementation, cache off (eval.VerifCacheOff hook)      -> direct, model-free oracle
//   extracted Coq model, on   |  extracted Coq model, off                                 -> correspondence (./check diffs)
// Observed per input: result (class + Inspect text), bytes printed to State.Out, bytes logged to State.LogOut
// (log() is not captured by the per-call buffer, so its multiplicity counts body executions = cache misses),
// number of cache entries and the NEW cache entries (key text, arguments, remembered result and output) read
// through eval.VerifCacheEntries: so the model's prediction of WHEN a store / a hit happens is compared too.

import (
	"bytes"
	"context"
	"fmt"
	"io"
	"os"
	"os/exec"
	"path/filepath"
	"sort"
	"strconv"
	"strings"

	"fortio.org/log"
	"grol.io/grol/ast"
	"grol.io/grol/eval"
	"grol.io/grol/extensions"
	"grol.io/grol/lexer"
	"grol.io/grol/object"
	"grol.io/grol/parser"
	"grol.io/grol/repl"
	"verifharness/common"
	. "verifharness/common"
)

func main() { common.Main("C04", runC04) }

// ---------------------------------------------------------------- abstract syntax (mirror of Memo.v)
type Val struct {
	K byte // i int, z +0.0, m -0.0, N NaN, w whole float, h half float, s string, b bool, n nil, a array
	Z int64
	S string
	B bool
	A []Val
}

type Expr struct {
	K   byte // L V A F C R B I S P G E X D
	V   Val
	X   string
	D   int
	Op  string
	Sub []*Expr
}

type Def struct {
	Name   string // "" = anonymous
	Params []string
	Body   *Expr
	Key    string // real object.Function.CacheKey
}

type Session struct {
	Tag    string
	Defs   []*Def
	Inputs []*Expr
	// definitions of which EVERY execution is impure - writes an existing root binding, reads a mutable or an unbound
	// global - (Writers), or calls such a definition (Callers): the generator asserts it; no call of theirs may ever
	// be remembered (model-free store oracle, signatures remembered:impure-call / remembered:caller-of-impure-call)
	Writers, Callers []int
	// definitions of which every successful call returns a closure (makers and wrappers): never remembered either
	Closures []int
	// NoNew[i] = definitions that must not get a NEW cache entry at input i (the call reads a global that holds plain data
	// at that moment; an older entry, stored while the name held a function, may legitimately still be there)
	NoNew map[int][]int
}

func vi(z int64) Val   { return Val{K: 'i', Z: z} }
func vs(s string) Val  { return Val{K: 's', S: s} }
func va(a ...Val) Val  { return Val{K: 'a', A: a} }
func lit(v Val) *Expr  { return &Expr{K: 'L', V: v} }
func li(z int64) *Expr { return lit(vi(z)) }
func v(x string) *Expr { return &Expr{K: 'V', X: x} }
func asg(x string, e *Expr) *Expr {
	return &Expr{K: 'A', X: x, Sub: []*Expr{e}}
}
func call(f *Expr, args ...*Expr) *Expr { return &Expr{K: 'C', Sub: append([]*Expr{f}, args...)} }
func cn(name string, args ...*Expr) *Expr {
	return call(v(name), args...)
}
func arr(es ...*Expr) *Expr   { return &Expr{K: 'R', Sub: es} }
func add(a, b *Expr) *Expr    { return &Expr{K: 'B', Op: "add", Sub: []*Expr{a, b}} }
func sub(a, b *Expr) *Expr    { return &Expr{K: 'B', Op: "sub", Sub: []*Expr{a, b}} }
func lt(a, b *Expr) *Expr     { return &Expr{K: 'B', Op: "lt", Sub: []*Expr{a, b}} }
func iff(c, a, b *Expr) *Expr { return &Expr{K: 'I', Sub: []*Expr{c, a, b}} }
func prt(es ...*Expr) *Expr   { return &Expr{K: 'P', Sub: es} }
func lg(s string) *Expr       { return &Expr{K: 'G', X: s} }
func er(s string) *Expr       { return &Expr{K: 'E', X: s} }
func ext(k string) *Expr      { return &Expr{K: 'X', X: k} }
func del(x string) *Expr      { return &Expr{K: 'D', X: x} }
func cerr(e *Expr) *Expr      { return &Expr{K: 'K', Sub: []*Expr{e}} } // catch(e).err
func seq(es ...*Expr) *Expr {
	if len(es) == 1 {
		return es[0]
	}
	return &Expr{K: 'S', Sub: []*Expr{es[0], seq(es[1:]...)}}
}

// ---------------------------------------------------------------- rendering: grol source and case tokens
func (x Val) src() string {
	switch x.K {
	case 'i':
		return strconv.FormatInt(x.Z, 10)
	case 'z':
		return "0.0"
	case 'm':
		return "-0.0"
	case 'N':
		return "(0.0/0.0)"
	case 'w':
		return strconv.FormatInt(x.Z, 10) + ".0"
	case 'h':
		return strconv.FormatInt(x.Z, 10) + ".5"
	case 's':
		return strconv.Quote(x.S)
	case 'b':
		if x.B {
			return "true"
		}
		return "false"
	case 'n':
		return "nil"
	case 'a':
		parts := make([]string, len(x.A))
		for i, e := range x.A {
			parts[i] = e.src()
		}
		return "[" + strings.Join(parts, ",") + "]"
	}
	panic("bad val")
}

func (x Val) enc() string {
	switch x.K {
	case 'i':
		return "i" + strconv.FormatInt(x.Z, 10)
	case 'z':
		return "fz"
	case 'm':
		return "fm"
	case 'N':
		return "fn"
	case 'w':
		return "fw" + strconv.FormatInt(x.Z, 10)
	case 'h':
		return "fh" + strconv.FormatInt(x.Z, 10)
	case 's':
		return "s" + Hx([]byte(x.S))
	case 'b':
		if x.B {
			return "bt"
		}
		return "bf"
	case 'n':
		return "n"
	case 'a':
		parts := []string{"a" + strconv.Itoa(len(x.A))}
		for _, e := range x.A {
			parts = append(parts, e.enc())
		}
		return strings.Join(parts, " ")
	}
	panic("bad val")
}

func (d *Def) src(s *Session) string {
	head := "func"
	if d.Name != "" {
		head += " " + d.Name
	}
	return head + "(" + strings.Join(d.Params, ",") + "){" + d.Body.src(s) + "}"
}

func srcList(s *Session, es []*Expr) string {
	parts := make([]string, len(es))
	for i, e := range es {
		parts[i] = e.src(s)
	}
	return strings.Join(parts, ",")
}

func (e *Expr) src(s *Session) string {
	switch e.K {
	case 'L':
		return e.V.src()
	case 'V':
		return e.X
	case 'A':
		return e.X + " = " + e.Sub[0].src(s)
	case 'F':
		return s.Defs[e.D].src(s)
	case 'C':
		f := e.Sub[0]
		fs := f.src(s)
		if f.K != 'V' {
			fs = "(" + fs + ")"
		}
		return fs + "(" + srcList(s, e.Sub[1:]) + ")"
	case 'R':
		return "[" + srcList(s, e.Sub) + "]"
	case 'B':
		op := map[string]string{"add": "+", "sub": "-", "lt": "<"}[e.Op]
		return "(" + e.Sub[0].src(s) + op + e.Sub[1].src(s) + ")"
	case 'I':
		return "if " + e.Sub[0].src(s) + " {" + e.Sub[1].src(s) + "} else {" + e.Sub[2].src(s) + "}"
	case 'S':
		return e.Sub[0].src(s) + "\n" + e.Sub[1].src(s)
	case 'P':
		return "print(" + srcList(s, e.Sub) + ")"
	case 'G':
		return "log(" + strconv.Quote(e.X) + ")"
	case 'E':
		return "error(" + strconv.Quote(e.X) + ")"
	case 'X':
		if e.X == "r" {
			return "rand(1)"
		}
		return "(time.now()>0)"
	case 'D':
		return "del(" + e.X + ")"
	case 'K':
		return "catch(" + e.Sub[0].src(s) + ").err"
	case 'Z':
		return e.X
	case 'Q':
		return "cancelonce()"
	}
	panic("bad expr")
}

func encList(es []*Expr) string {
	parts := []string{strconv.Itoa(len(es))}
	for _, e := range es {
		parts = append(parts, e.enc())
	}
	return strings.Join(parts, " ")
}

func (e *Expr) enc() string {
	switch e.K {
	case 'L':
		return "L " + e.V.enc()
	case 'V':
		return "V " + Hx([]byte(e.X))
	case 'A':
		return "A " + Hx([]byte(e.X)) + " " + e.Sub[0].enc()
	case 'F':
		return "F " + strconv.Itoa(e.D)
	case 'C':
		return "C " + e.Sub[0].enc() + " " + encList(e.Sub[1:])
	case 'R':
		return "R " + encList(e.Sub)
	case 'B':
		return "B " + e.Op + " " + e.Sub[0].enc() + " " + e.Sub[1].enc()
	case 'I':
		return "I " + e.Sub[0].enc() + " " + e.Sub[1].enc() + " " + e.Sub[2].enc()
	case 'S':
		return "S " + e.Sub[0].enc() + " " + e.Sub[1].enc()
	case 'P':
		return "P " + encList(e.Sub)
	case 'G':
		return "G " + Hx([]byte(e.X))
	case 'E':
		return "E " + Hx([]byte(e.X))
	case 'X':
		return "X " + e.X
	case 'D':
		return "D " + Hx([]byte(e.X))
	case 'K':
		return "K " + e.Sub[0].enc()
	case 'Z':
		return "Z " + Hx([]byte(e.X))
	case 'Q':
		return "Z " + Hx([]byte("cancelonce()")) // no deadlines / cancellation in the model: SKIP
	}
	panic("bad expr")
}

func (d *Def) enc() string {
	name := "~"
	if d.Name != "" {
		name = Hx([]byte(d.Name))
	}
	parts := []string{Hx([]byte(d.Key)), name, strconv.Itoa(len(d.Params))}
	for _, p := range d.Params {
		parts = append(parts, Hx([]byte(p)))
	}
	return strings.Join(parts, " ") + " " + d.Body.enc()
}

const modelFuel = 400

func (s *Session) caseLine(on bool) string {
	parts := []string{"MEMO", map[bool]string{true: "1", false: "0"}[on], strconv.Itoa(modelFuel), strconv.Itoa(len(s.Defs))}
	for _, d := range s.Defs {
		parts = append(parts, d.enc())
	}
	parts = append(parts, encList(s.Inputs))
	return strings.Join(parts, " ")
}

// fn adds (or shares) a definition and returns the literal expression for it.
func (s *Session) fn(name string, params []string, body *Expr) *Expr {
	d := &Def{Name: name, Params: params, Body: body}
	text := d.src(s)
	for i, o := range s.Defs {
		if o.src(s) == text {
			return &Expr{K: 'F', D: i}
		}
	}
	d.Key = realCacheKey(text)
	s.Defs = append(s.Defs, d)
	return &Expr{K: 'F', D: len(s.Defs) - 1}
}

// realCacheKey parses the literal with the real parser and asks object.SetCacheKey for the key text.
func realCacheKey(text string) string {
	p := parser.New(lexer.New(text))
	prog := p.ParseProgram()
	if len(p.Errors()) != 0 || len(prog.Statements) != 1 {
		panic(fmt.Sprintf("harness: cannot parse generated function %q: %v", text, p.Errors()))
	}
	node, ok := prog.Statements[0].(*ast.FunctionLiteral)
	if !ok {
		panic(fmt.Sprintf("harness: %q is not a function literal but %T", text, prog.Statements[0]))
	}
	fn := object.Function{Parameters: node.Parameters, Name: node.Name, Body: node.Body, Variadic: node.Variadic, Lambda: node.IsLambda}
	if !fn.Lambda && fn.Name == nil {
		fn.Lambda = true
	}
	return object.SetCacheKey(&fn)
}

// ---------------------------------------------------------------- Go mirror of closed_fn / closed_hist (compared with the model's K=)
func constantName(s string) bool {
	for i, c := range []byte(s) {
		if i != 0 && (c == '_' || (c >= '0' && c <= '9')) {
			continue
		}
		if c < 'A' || c > 'Z' {
			return false
		}
	}
	return true
}

func valHasFunction(Val) bool { return false }

func member(x string, l []string) bool {
	for _, y := range l {
		if x == y {
			return true
		}
	}
	return false
}

func closedExpr(self func(string) bool, params []string, e *Expr) bool {
	all := func(es []*Expr) bool {
		for _, a := range es {
			if !closedExpr(self, params, a) {
				return false
			}
		}
		return true
	}
	switch e.K {
	case 'L':
		return true
	case 'V':
		return member(e.X, params)
	case 'C':
		f := e.Sub[0]
		return f.K == 'V' && self(f.X) && !member(f.X, params) && f.X != "info" && all(e.Sub[1:])
	case 'R', 'P', 'B', 'S', 'I':
		return all(e.Sub)
	case 'E':
		return true
	}
	return false
}

func closedFn(d *Def) bool {
	self := func(x string) bool { return x == "self" || (d.Name != "" && x == d.Name) }
	seen := map[string]bool{}
	for _, p := range d.Params {
		if constantName(p) || self(p) || p == "info" || p == ".." || seen[p] {
			return false
		}
		seen[p] = true
	}
	return closedExpr(self, d.Params, d.Body)
}

func (s *Session) closed() bool {
	var opaque func(e *Expr) bool
	opaque = func(e *Expr) bool {
		if e.K == 'Z' || e.K == 'Q' { // raw source, cancellation: outside the model's language, so outside its fragment
			return true
		}
		for _, x := range e.Sub {
			if opaque(x) {
				return true
			}
		}
		return false
	}
	for _, in := range s.Inputs {
		if opaque(in) {
			return false
		}
	}
	keys := map[string]bool{}
	for _, d := range s.Defs {
		if !closedFn(d) || keys[d.Key] {
			return false
		}
		keys[d.Key] = true
	}
	return true
}

// ---------------------------------------------------------------- running the implementation
type seg struct {
	R, O, L string
	N       int
	Entries []string // full sorted snapshot
}

func renderEntry(e eval.VerifCacheEntry) string {
	var args []string
	for _, a := range e.Key.Args {
		var slot any = a // whatever the slot type is (object.Object today): the harness must keep compiling
		if slot == nil {
			break
		}
		if o, ok := slot.(object.Object); ok {
			args = append(args, object.Value(o).Inspect())
		} else {
			args = append(args, fmt.Sprintf("?%T:%v", slot, slot))
		}
	}
	return fmt.Sprintf("%s(%s)=%s/%s", Hx([]byte(e.Key.Fn)), Hx([]byte(strings.Join(args, ","))),
		Hx([]byte(object.Value(e.Value.Result).Inspect())), Hx(e.Value.Output))
}

func evalProtected(s *eval.State, prog any) (res object.Object, panicked string) {
	defer func() {
		if r := recover(); r != nil {
			panicked = fmt.Sprint(r)
			s.Reset()
		}
	}()
	return s.Eval(prog), ""
}

// runImpl runs the session on a fresh state through the eval API; ok=false on a harness-level problem.
func runImpl(c *Ctx, s *Session, off bool) ([]seg, string) {
	eval.VerifCacheOff = off
	defer func() { eval.VerifCacheOff = false }()
	st := eval.NewState()
	st.NoLog = true
	var segs []seg
	for _, in := range s.Inputs {
		src := in.src(s)
		var out, lg bytes.Buffer
		st.Out = &out
		st.LogOut = &lg
		p := parser.New(lexer.New(src))
		prog := p.ParseProgram()
		if len(p.Errors()) != 0 {
			return nil, fmt.Sprintf("parse error on %q: %v", src, p.Errors())
		}
		c.Eval()
		cancel := st.SetContext(context.Background(), 0) // a live, cancellable context per input, as repl.EvalOne does
		var prog2 any = prog
		if perr := func() (msg string) { // macros are defined and expanded before evaluation, as repl.EvalOne does
			defer func() {
				if r := recover(); r != nil {
					msg = fmt.Sprint(r)
				}
			}()
			st.DefineMacros(prog)
			if st.NumMacros() > 0 {
				prog2 = st.ExpandMacros(prog)
			}
			return ""
		}(); perr != "" {
			cancel()
			return nil, fmt.Sprintf("panic on %q (macro expansion): %s", src, perr)
		}
		res, pan := evalProtected(st, prog2)
		cancel()
		if pan != "" {
			return nil, fmt.Sprintf("panic on %q: %s", src, pan)
		}
		res = object.Value(res)
		var r string
		switch {
		case res.Type() == object.ERROR:
			r = "E"
		case object.HasFunction(res):
			r = "F"
		default:
			r = "V:" + Hx([]byte(res.Inspect()))
		}
		ents := eval.VerifCacheEntries(st)
		rendered := make([]string, len(ents))
		for i, e := range ents {
			rendered[i] = renderEntry(e)
		}
		sort.Strings(rendered)
		segs = append(segs, seg{R: r, O: Hx(out.Bytes()), L: Hx(lg.Bytes()), N: len(ents), Entries: rendered})
	}
	return segs, ""
}

func obsLine(closed bool, segs []seg) string {
	prev := map[string]bool{}
	parts := make([]string, len(segs))
	for i, sg := range segs {
		var fresh []string
		cur := map[string]bool{}
		for _, e := range sg.Entries {
			cur[e] = true
			if !prev[e] {
				fresh = append(fresh, e)
			}
		}
		prev = cur
		f := "-"
		if len(fresh) > 0 {
			f = strings.Join(fresh, ",")
		}
		parts[i] = fmt.Sprintf("R=%s O=%s L=%s N=%d S=%s", sg.R, sg.O, sg.L, sg.N, f)
	}
	k := 0
	if closed {
		k = 1
	}
	return fmt.Sprintf("K=%d %s", k, strings.Join(parts, "|"))
}

// runRepl runs the session through repl.EvalOne (what a REPL user sees): one string per input.
func runRepl(s *Session, off bool) []string {
	eval.VerifCacheOff = off
	defer func() { eval.VerifCacheOff = false }()
	st := eval.NewState()
	st.NoLog = true
	opts := repl.Options{All: true, ShowEval: true, NoColor: true, NilAndErr: true}
	var res []string
	for _, in := range s.Inputs {
		var out bytes.Buffer
		st.Out = &out
		st.LogOut = io.Discard
		_, pan, errs, _ := repl.EvalOne(context.Background(), st, in.src(s), &out, opts)
		res = append(res, fmt.Sprintf("%q panic=%v errs=%d", out.String(), pan, len(errs)))
	}
	return res
}

// rebinds decides whether a cache on/off difference at input upTo can be the ONE known finding (a remembered caller whose
// callee was rebound): some definition C calls a global function by name n (callee position, not its own name, not
// self, not a parameter) and n was bound again after having held a function - at the top level before that input, or
// by the body of ANOTHER definition W. A function that itself reads and rewrites the binding it calls does not
// qualify (it must never be remembered at all: that is the store oracle below), nor do writes to data variables.
func (s *Session) rebinds(upTo int) bool {
	// names written by each definition body (assignment, named function literal, del)
	written := make([]map[string]bool, len(s.Defs))
	callees := make([]map[string]bool, len(s.Defs))
	for di, d := range s.Defs {
		w, cs := map[string]bool{}, map[string]bool{}
		var walk func(e *Expr)
		walk = func(e *Expr) {
			switch e.K {
			case 'A', 'D':
				w[e.X] = true
			case 'F':
				if n := s.Defs[e.D].Name; n != "" {
					w[n] = true
				}
			case 'C':
				if f := e.Sub[0]; f.K == 'V' && f.X != "self" && f.X != d.Name && !member(f.X, d.Params) {
					cs[f.X] = true
				}
			}
			for _, x := range e.Sub {
				walk(x)
			}
		}
		walk(d.Body)
		written[di], callees[di] = w, cs
	}
	// names rebound at the top level before the input, after having held a function
	held, top := map[string]bool{}, map[string]bool{}
	var walkTop func(e *Expr)
	walkTop = func(e *Expr) {
		switch e.K {
		case 'A':
			if held[e.X] {
				top[e.X] = true
			}
			held[e.X] = e.Sub[0].K == 'F' || e.Sub[0].K == 'C' || e.Sub[0].K == 'V'
		case 'F':
			if n := s.Defs[e.D].Name; n != "" {
				if held[n] {
					top[n] = true
				}
				held[n] = true
			}
		}
		for _, x := range e.Sub {
			walkTop(x)
		}
	}
	for i := 0; i < upTo && i < len(s.Inputs); i++ {
		walkTop(s.Inputs[i])
	}
	for ci := range s.Defs {
		for n := range callees[ci] {
			if top[n] {
				return true
			}
			for wi := range s.Defs {
				if wi != ci && written[wi][n] {
					return true
				}
			}
		}
	}
	return false
}

// readsRebound: some definition reads (not in callee position) a global name that held a FUNCTION and was bound again at the
// top level before the input. Reading a function-valued root binding is not a miss, so a result computed from it without
// calling it (e.g. an error swallowed by catch) is remembered and goes stale when the name is rebound: the same root cause
// as the redefined callee, recorded as its own narrow finding.
func (s *Session) readsRebound(upTo int) bool {
	held, top := map[string]bool{}, map[string]bool{}
	var walkTop func(e *Expr)
	walkTop = func(e *Expr) {
		switch e.K {
		case 'A':
			if held[e.X] {
				top[e.X] = true
			}
			held[e.X] = e.Sub[0].K == 'F'
		case 'F':
			if n := s.Defs[e.D].Name; n != "" {
				if held[n] {
					top[n] = true
				}
				held[n] = true
			}
		}
		for _, x := range e.Sub {
			walkTop(x)
		}
	}
	for i := 0; i < upTo && i < len(s.Inputs); i++ {
		walkTop(s.Inputs[i])
	}
	for _, d := range s.Defs {
		found := false
		var walk func(e *Expr, callee bool)
		walk = func(e *Expr, callee bool) {
			if e.K == 'V' && !callee && top[e.X] && e.X != d.Name && !member(e.X, d.Params) {
				found = true
			}
			for i, x := range e.Sub {
				walk(x, e.K == 'C' && i == 0)
			}
		}
		walk(d.Body, false)
		if found {
			return true
		}
	}
	return false
}

// constParamClash: some definition has a constant-named parameter P and the top level bound the constant P before the input
// (a call remembered before that binding hides the "attempt to change constant" error of the same call afterwards)
func (s *Session) constParamClash(upTo int) bool {
	bound := map[string]bool{}
	for i := 0; i < upTo && i < len(s.Inputs); i++ {
		if in := s.Inputs[i]; in.K == 'A' && constantName(in.X) {
			bound[in.X] = true
		}
	}
	for _, d := range s.Defs {
		for _, p := range d.Params {
			if constantName(p) && bound[p] {
				return true
			}
		}
	}
	return false
}

func (s *Session) text() string {
	parts := make([]string, len(s.Inputs))
	for i, in := range s.Inputs {
		parts[i] = strings.ReplaceAll(in.src(s), "\n", "; ")
	}
	return strings.Join(parts, " ;; ")
}

// one session: 2 implementation runs (direct oracle) + 2 correspondence cases.
func (c *Ctx2) session(s *Session) {
	c.Count("sessions")
	c.Count("kind=" + s.Tag)
	closed := s.closed()
	if closed {
		c.Count("closed_fragment")
	}
	on, err1 := runImpl(c.Ctx, s, false)
	offr, err2 := runImpl(c.Ctx, s, true)
	if err1 != "" || err2 != "" {
		sig := "harness:session-did-not-run"
		switch {
		case strings.HasPrefix(err1, "panic") && err2 == "":
			sig = "go-panic:cache-on-only" // e.g. "hash of unhashable type": the cache key is hashed as a whole Go value
		case strings.HasPrefix(err1, "panic") || strings.HasPrefix(err2, "panic"):
			sig = "go-panic:cache-on-and-off"
		}
		c.Fail(sig, s.text(), err1+" / "+err2)
		return
	}
	lineOn, lineOff := s.caseLine(true), s.caseLine(false)
	c.Case(lineOn, obsLine(closed, on))
	c.Case(lineOff, obsLine(closed, offr))
	if len(on) > 0 && on[len(on)-1].N > 0 {
		c.NonTrivial(s.text())
	}
	// store oracle (model-free): a call that writes an outer binding, or calls one that does, is never remembered
	for i, sg := range on {
		bad := ""
		for _, e := range sg.Entries {
			for _, w := range s.Writers {
				if strings.HasPrefix(e, Hx([]byte(s.Defs[w].Key))+"(") {
					bad = "remembered:impure-call"
				}
			}
			for _, w := range s.Callers {
				if bad == "" && strings.HasPrefix(e, Hx([]byte(s.Defs[w].Key))+"(") {
					bad = "remembered:caller-of-impure-call"
				}
			}
			for _, w := range s.Closures {
				if bad == "" && strings.HasPrefix(e, Hx([]byte(s.Defs[w].Key))+"(") {
					bad = "remembered:call-returning-closure"
				}
			}
			if bad != "" {
				c.Count("diff=" + bad)
				c.Fail(bad, s.text(), fmt.Sprintf("after input %d %q the cache holds %s", i, s.Inputs[i].src(s), e))
				break
			}
		}
		if bad != "" {
			break
		}
	}
	for i, ds := range s.NoNew {
		if i == 0 || i >= len(on) {
			continue
		}
		before := map[string]bool{}
		for _, e := range on[i-1].Entries {
			before[e] = true
		}
		for _, e := range on[i].Entries {
			for _, d := range ds {
				if !before[e] && strings.HasPrefix(e, Hx([]byte(s.Defs[d].Key))+"(") {
					c.Count("diff=remembered:read-of-data-variable")
					c.Fail("remembered:read-of-data-variable", s.text(), fmt.Sprintf("input %d %q added the cache entry %s", i, s.Inputs[i].src(s), e))
					return
				}
			}
		}
	}
	// direct oracle: cache on vs cache off, per input
	for i := range on {
		if offr[i].N != 0 {
			c.Fail("hook:cache-off-still-stores", s.text(), fmt.Sprintf("input %d: %d cache entries with VerifCacheOff", i, offr[i].N))
			return
		}
		if on[i].R == offr[i].R && on[i].O == offr[i].O && on[i].L == offr[i].L {
			continue
		}
		detail := fmt.Sprintf("input %d %q: cache on R=%s O=%s L=%s / cache off R=%s O=%s L=%s", i,
			s.Inputs[i].src(s), on[i].R, on[i].O, on[i].L, offr[i].R, offr[i].O, offr[i].L)
		var sig string
		switch {
		case on[i].R == offr[i].R && on[i].O == offr[i].O:
			sig = "log-not-replayed"
		case s.collisionSig() != "":
			sig = s.collisionSig()
		case s.Tag == "finding:constant-parameter-then-global" && s.constParamClash(i) && (on[i].R == "E") != (offr[i].R == "E"):
			sig = "stale-hit:constant-parameter-then-global"
		case closed:
			sig = "closed-fragment-differs"
		case s.rebinds(i):
			sig = "stale-hit:redefined-callee"
		case s.readsRebound(i):
			sig = "stale-hit:function-valued-binding-read-then-rebound"
		default:
			sig = "cache-observable:unexplained"
		}
		if strings.HasPrefix(s.Tag, "regress:") && sig != "log-not-replayed" {
			sig = "regressed:" + strings.TrimPrefix(s.Tag, "regress:")
		}
		c.Count("diff=" + sig)
		// the two known findings are recorded 40 times each (every further one is only counted), so that the
		// failure list of common.Ctx (capped) always has room for anything else
		c.seen[sig]++
		known := sig == "log-not-replayed" || sig == "stale-hit:redefined-callee" || sig == "stale-hit:function-name-via-self" ||
			sig == "stale-hit:constant-parameter-then-global" ||
			sig == "stale-hit:function-valued-binding-read-then-rebound" ||
			(strings.HasPrefix(sig, "stale-hit:printed-text-collision:") && !strings.HasSuffix(sig, ":unclassified"))
		if !known || c.seen[sig] <= 40 {
			c.Fail(sig, s.text(), detail)
		}
		break
	}
	// what a REPL user sees (printed text incl. the echoed result), cache on vs off
	ra, rb := runRepl(s, false), runRepl(s, true)
	for i := range ra {
		if ra[i] != rb[i] {
			same := i < len(on) && (on[i].R != offr[i].R || on[i].O != offr[i].O)
			if !same {
				// same result class and printed bytes, different text: only error messages are not part of the API
				// observation. A stale hit of the known finding can let the evaluation run on to a DIFFERENT error
				// (g() remembered, its callee h rebound with another arity: hit + later error vs arity error).
				sig := "repl-differs-but-api-agrees"
				if on[i].R == "E" && offr[i].R == "E" && s.rebinds(i) && !strings.HasPrefix(s.Tag, "regress:") {
					sig = "stale-hit:redefined-callee"
				}
				c.Count("diff=" + sig)
				c.seen[sig]++
				if sig != "stale-hit:redefined-callee" || c.seen[sig] <= 40 {
					c.Fail(sig, s.text(), fmt.Sprintf("input %d: on %s / off %s", i, ra[i], rb[i]))
				}
			}
			break
		}
	}
}

type Ctx2 struct {
	*Ctx
	seen map[string]int
}

// ---------------------------------------------------------------- corpus
func corpus() []*Session {
	var out []*Session
	mk := func(tag string, build func(s *Session)) {
		s := &Session{Tag: tag}
		build(s)
		out = append(out, s)
	}
	// the known finding: callee redefined between two calls of its caller
	mk("finding:redefined-callee", func(s *Session) {
		s.Inputs = []*Expr{s.fn("g", nil, li(1)), s.fn("f", nil, cn("g")), cn("f"), s.fn("g", nil, li(2)), cn("f")}
	})
	mk("finding:redefined-callee", func(s *Session) { // function replaced by a non-function
		s.Inputs = []*Expr{asg("g", s.fn("", nil, li(1))), asg("f", s.fn("", nil, cn("g"))), cn("f"), asg("g", li(5)), cn("f")}
	})
	// known findings: two functions that print alike share a key (derived from recorded C02 printer findings)
	mk("keycollision:plus-in-plus-right-operand", func(s *Session) {
		ps := []string{"p", "q", "r"}
		a := []*Expr{lit(va(vi(1))), li(2), li(3)}
		s.Inputs = []*Expr{asg("f", s.fn("", ps, add(v("p"), add(v("q"), v("r"))))), cn("f", a...), asg("f", s.fn("", ps, add(add(v("p"), v("q")), v("r")))), cn("f", a...)}
	})
	mk("keycollision:statement-starts-with-prefix-operator", func(s *Session) {
		s.Inputs = []*Expr{s.fn("f", []string{"p"}, raw("(if p {1} else {2})+3")), raw("f(true)"), s.fn("g", []string{"p"}, raw("if p {1} else {2}; +3")), raw("g(true)")}
	})
	// helper closures called during macro expansion read the macro's parameters: one result per expansion (direct oracle only)
	mk("mech:macro-helper-reads-parameter", func(s *Session) {
		s.Inputs = []*Expr{raw("sq = macro(X) {get = () => X; quote(unquote(get()) * unquote(get()))}"), raw("println(sq(3))"), raw("println(sq(4))"), raw("println(sq(2+3))"),
			raw("println(sq(3), sq(6))"), raw("m2 = macro(x, Y) {gx = func(){x}; gy = func(){Y}; quote(unquote(gx()) - unquote(gy()))}"), raw("println(m2(9,1), m2(1,9))"), raw("println(m2(5,5))")}
	})
	// a sliced small map whose dropped pair holds a big array must still be usable as a cache key (direct oracle only)
	mk("mech:sliced-small-map-as-key", func(s *Session) {
		s.Inputs = []*Expr{raw(`m = {"a":1,"b":2,"c":[1,2,3,4,5,6,7,8,9]}`), raw(`f = func(x){println("in f", x); len(x)}`), raw("f(m[0:2])"), raw("f(m[0:2])"),
			raw(`f({"a":1,"b":2})`), raw("a = [1,2,func(){1}]"), raw("f(a[0:2])"), raw("f([1,2])"), raw("f(rest(m))")}
	})
	// a function-valued name rebound to data, read by a closure through its maker's frame and by a recursion child
	mk("mech:kind-of-value-changes", func(s *Session) {
		lam := func(k int64) *Expr { return s.fn("", nil, li(k)) }
		s.Inputs = []*Expr{asg("v", lam(1)), s.fn("mk", nil, seq(v("v"), s.fn("", nil, v("v")))), asg("c", cn("mk")), asg("v", li(5)), cn("c"), asg("v", li(6)), cn("c"),
			asg("v", li(7)), cn("c"), asg("v", lam(2)), cn("c"), asg("v", li(8)), cn("c"),
			s.fn("rr", []string{"n"}, iff(lt(v("n"), li(1)), v("v"), seq(v("v"), asg("v", li(5)), cn("rr", sub(v("n"), li(1)))))), asg("v", lam(3)), cn("rr", li(1)),
			asg("v", li(6)), cn("rr", li(0)), cn("rr", li(0))}
	})
	// closures handed out through wrappers without a literal of their own: instances stay independent
	mk("mech:closure-through-wrappers", func(s *Session) {
		counter := s.fn("counter", []string{"p"}, s.fn("", nil, asg("p", add(v("p"), li(1)))))
		nc := s.fn("nc", []string{"p"}, seq(prt(lit(vs("new")), v("p")), cn("counter", v("p"))))
		nc2 := s.fn("nc2", []string{"p"}, cn("nc", v("p")))
		s.Closures = []int{counter.D, nc.D, nc2.D}
		s.Inputs = []*Expr{counter, nc, nc2, asg("a", cn("nc", li(0))), asg("b", cn("nc", li(0))), cn("a"), cn("a"), cn("b"), asg("c", cn("nc2", li(0))), asg("d", cn("nc2", li(0))),
			cn("c"), cn("d"), cn("c"), cn("a")}
	})
	// text evaluated in a blank state (unjson) defines and calls a function textually identical to a session function
	mk("mech:text-evaluated-in-another-state", func(s *Session) {
		s.Inputs = []*Expr{raw("f = x => abs(x)"), raw("f(-2)"), raw(`catch(unjson("f = x => abs(x); f(-2)")).err`), raw("area = func(r){PI*r*r}"), raw("area(1)"),
			raw(`catch(unjson("area = func(r){PI*r*r}; area(1)"))`), raw(`catch(eval("f(-2)"))`), raw(`unjson("g = x => x+1; g(1)")`), raw("g = x => x+1"), raw("g(1)")}
	})
	// typed twins: == equal big containers that differ in the type of one element / key
	mk("mech:typed-twin-containers", func(s *Session) {
		s.Inputs = []*Expr{raw("h = func(x){x[0]/2}"), raw("h([3,0,0,0,0,0,0,0,0])"), raw("h([3.0,0,0,0,0,0,0,0,0])"), raw("h([3,0,0,0,0,0,0,0,0])"),
			raw("kind = func(x){type(first(x).key)}"), raw("kind({1.0:1,2:2,3:3,4:4,5:5})"), raw("kind({1:1,2:2,3:3,4:4,5:5})"), raw("kind({1.0:1,2:2,3:3,4:4,5:5})")}
	})
	// known finding: a function-valued root binding read (not called) under catch, then rebound to data
	mk("finding:function-valued-binding-read-then-rebound", func(s *Session) {
		s.Inputs = []*Expr{asg("v", s.fn("", nil, li(0))), asg("f", s.fn("", nil, cerr(add(v("v"), li(1))))), cn("f"), asg("v", li(1)), cn("f")}
	})
	// known finding: the function's name is not in the key but visible through self
	mk("keycollision:function-name-via-self", func(s *Session) {
		s.Inputs = []*Expr{s.fn("f", nil, raw("print(self)")), raw("f()"), s.fn("g", nil, raw("print(self)")), raw("g()"), raw("f()")}
	})
	// known finding: a call remembered before a global constant named like its parameter exists hides the later clash
	mk("finding:constant-parameter-then-global", func(s *Session) {
		s.Inputs = []*Expr{asg("f", s.fn("", []string{"N"}, add(v("N"), li(1)))), cn("f", li(1)), asg("N", li(5)), cn("f", li(1)), cn("f", li(2))}
	})
	// counted loops over an upper-case variable read by remembered functions (direct oracle only)
	mk("mech:loop-over-constant-named-variable", func(s *Session) {
		s.Inputs = []*Expr{raw("scaled=func(){LEVEL*10}"), raw("fresh=func(){rand(1) LEVEL*10}"), raw("for LEVEL = 3 {println(LEVEL, scaled(), fresh())}"),
			raw("println(LEVEL, scaled(), fresh())"), raw("for LEVEL = 2:5 {println(LEVEL, scaled(), fresh())}"), raw("println(LEVEL, scaled(), fresh())")}
	})
	// the known finding: log() inside a remembered call is emitted once
	mk("finding:log-not-replayed", func(s *Session) {
		s.Inputs = []*Expr{asg("f", s.fn("", []string{"n"}, seq(lg("hi"), prt(v("n")), v("n")))), cn("f", li(1)), cn("f", li(1))}
	})
	// repaired defects (must not come back)
	mk("regress:closure-captured-constant", func(s *Session) {
		s.Inputs = []*Expr{s.fn("mk", []string{"N"}, s.fn("", nil, v("N"))), asg("a", cn("mk", li(1))), asg("b", cn("mk", li(2))), cn("a"), cn("b"), cn("a")}
	})
	mk("regress:closure-captured-function", func(s *Session) {
		s.Inputs = []*Expr{s.fn("mk", []string{"F"}, s.fn("", nil, cn("F"))), asg("a", cn("mk", s.fn("", nil, li(1)))),
			asg("b", cn("mk", s.fn("", nil, li(2)))), cn("a"), cn("b")}
	})
	mk("regress:deleted-constant", func(s *Session) {
		s.Inputs = []*Expr{asg("X", li(1)), asg("f", s.fn("", nil, v("X"))), cn("f"), del("X"), asg("X", li(2)), cn("f")}
	})
	mk("regress:negzero-arg", func(s *Session) {
		s.Inputs = []*Expr{asg("f", s.fn("", []string{"p"}, seq(prt(v("p")), v("p")))), cn("f", lit(Val{K: 'z'})), cn("f", lit(Val{K: 'm'})),
			cn("f", lit(Val{K: 'N'})), cn("f", lit(Val{K: 'N'})), cn("f", lit(Val{K: 'z'}))}
	})
	mk("regress:transitive-outer-read", func(s *Session) {
		s.Inputs = []*Expr{asg("x", li(1)), asg("g", s.fn("", nil, v("x"))), asg("f", s.fn("", nil, cn("g"))), cn("f"), asg("x", li(2)), cn("f")}
	})
	mk("regress:transitive-outer-write", func(s *Session) {
		s.Inputs = []*Expr{asg("x", li(0)), asg("g", s.fn("", nil, asg("x", add(v("x"), li(1))))), asg("f", s.fn("", nil, cn("g"))), cn("f"), cn("f"), v("x")}
	})
	mk("regress:closure-result-shared", func(s *Session) {
		s.Inputs = []*Expr{s.fn("mk", []string{"p"}, s.fn("", nil, asg("p", add(v("p"), li(1))))), asg("a", cn("mk", li(0))), asg("b", cn("mk", li(0))),
			cn("a"), cn("a"), cn("b")}
	})
	mk("regress:closure-in-array-result-shared", func(s *Session) {
		s.Inputs = []*Expr{s.fn("mk", []string{"p"}, arr(s.fn("", nil, asg("p", add(v("p"), li(1)))))), asg("a", cn("mk", li(0))), asg("b", cn("mk", li(0)))}
	})
	mk("regress:function-rebound-in-call", func(s *Session) {
		s.Inputs = []*Expr{asg("g", s.fn("", nil, li(1))), asg("f", s.fn("", nil, seq(asg("g", s.fn("", nil, li(2))), li(0)))), cn("f"),
			asg("g", s.fn("", nil, li(3))), cn("f"), cn("g")}
	})
	// a function that calls a function-valued global and THEN rebinds it (the read of a root function is not a miss:
	// only the write through the already created reference makes the call uncacheable), alone and through callers
	mk("regress:read-then-write-function-binding", func(s *Session) {
		lam := func(k int64) *Expr { return s.fn("", nil, li(k)) }
		nx := s.fn("", nil, seq(asg("v", cn("g")), iff(lt(v("v"), li(1)), asg("g", lam(1)), asg("g", lam(0))), prt(lit(vs("s")), v("v")), v("v")))
		tw := s.fn("", nil, add(cn("nx"), cn("nx")))
		tt := s.fn("", nil, add(cn("tw"), li(10)))
		s.Writers, s.Callers = []int{nx.D}, []int{tw.D, tt.D}
		s.Inputs = []*Expr{asg("g", lam(0)), asg("nx", nx), cn("nx"), cn("nx"), cn("nx"), cn("g"), asg("tw", tw), asg("tt", tt), cn("tw"), cn("tw"), cn("tt"), cn("tt"),
			cn("nx"), cn("g")}
	})
	// variadic spread must not change the key under which the result is stored
	mk("regress:variadic-spread-key", func(s *Session) {
		s.Inputs = []*Expr{asg("f", s.fn("", []string{"p", ".."}, seq(prt(lit(vs("called"))), v("..")))), cn("f", li(1), lit(va(va(vi(5))))), cn("f", li(1), lit(va(vi(5)))),
			cn("f", li(1), li(5)), cn("f", li(1), lit(va(va(vi(5))))), asg("g", s.fn("", []string{".."}, arr(v(".."), v("..")))), cn("g", lit(va(va(vi(1), vi(2))))), cn("g", lit(va(vi(1), vi(2)))),
			cn("g", li(1), li(2)), cn("g"), cn("f")}
	})
	// an unbound identifier swallowed by catch() must not be remembered
	mk("regress:unbound-identifier-in-catch", func(s *Session) {
		f := s.fn("", nil, cerr(add(li(1), v("a"))))
		k := s.fn("", nil, iff(cerr(add(li(1), v("A"))), li(-1), add(li(1), v("A"))))
		s.Writers = []int{f.D}
		s.Inputs = []*Expr{asg("f", f), cn("f"), cn("f"), asg("a", li(2)), cn("f"), del("a"), cn("f"), asg("k", k), cn("k"), asg("A", li(2)), cn("k"), cn("k")}
	})
	// an impure callee whose result is a closure / an error still poisons its caller
	mk("mech:impure-callee-returns-closure-or-error", func(s *Session) {
		lam := func(k int64) *Expr { return s.fn("", nil, li(k)) }
		pick := s.fn("", nil, iff(lt(v("x"), li(1)), lam(10), lam(20)))
		g := s.fn("", nil, call(cn("pick")))
		e := s.fn("", nil, iff(lt(li(0), v("x")), er("bad"), li(1)))
		f := s.fn("", nil, cerr(cn("e")))
		s.Writers, s.Callers = []int{pick.D, e.D}, []int{g.D, f.D}
		s.Inputs = []*Expr{asg("x", li(0)), asg("pick", pick), asg("g", g), cn("g"), cn("g"), asg("x", li(1)), cn("g"), asg("e", e), asg("f", f), cn("f"), cn("f"),
			asg("x", li(0)), cn("f"), cn("g")}
	})
	// an interrupted evaluation swallowed by catch() is not a result: never remembered (direct oracle only)
	mk("regress:interrupted-call-remembered", func(s *Session) {
		s.Inputs = []*Expr{asg("slow", s.fn("", []string{"n"}, seq(prt(lit(vs("s"))), cancelOnce(), add(v("n"), li(1))))),
			asg("g", s.fn("", []string{"n"}, cerr(cn("slow", v("n"))))), asg("f", s.fn("", []string{"n"}, seq(asg("t", cn("g", v("n"))), v("t")))),
			cn("f", li(1)), cn("g", li(1)), cn("f", li(1)), cn("g", li(1)), cn("slow", li(1))}
	})
	// big arguments that print alike (1 vs 1.0) must not share an entry; direct oracle only (outside the model)
	mk("mech:big-arguments-int-vs-float", func(s *Session) {
		s.Inputs = []*Expr{raw("avg = func(a){tot=0; for v=a {tot=tot+v}; tot/len(a)}"), raw("avg([1,2,3,4,5,6,7,8,10])"), raw("avg([1.0,2,3,4,5,6,7,8,10])"),
			raw("half = func(m){println(\"half of\", m[9], type(m[9])); m[9]/2}"), raw("half({1:1,2:2,3:3,4:4,5:5,6:6,7:7,8:8,9:9})"),
			raw("half({1:1,2:2,3:3,4:4,5:5,6:6,7:7,8:8,9:9.0})"), raw("half({9:9,8:8,7:7,6:6,5:5,4:4,3:3,2:2,1:1})")}
	})
	// mechanism: output replay, errors, DontCache, > MaxArgs, unhashable, fib
	mk("mech:print-replay", func(s *Session) {
		s.Inputs = []*Expr{asg("f", s.fn("", []string{"n"}, seq(prt(lit(vs("p")), v("n")), add(v("n"), li(1))))), cn("f", li(1)), cn("f", li(1)),
			prt(cn("f", li(1)), cn("f", li(2)))}
	})
	mk("mech:errors-not-cached", func(s *Session) {
		s.Inputs = []*Expr{asg("f", s.fn("", []string{"n"}, iff(lt(v("n"), li(0)), er("neg"), v("n")))), cn("f", li(-1)), cn("f", li(-1)), cn("f", li(2)), cn("f"), cn("f", li(1), li(2))}
	})
	mk("mech:dontcache-poisons-callers", func(s *Session) {
		s.Inputs = []*Expr{asg("g", s.fn("", []string{"n"}, add(v("n"), ext("r")))), asg("f", s.fn("", []string{"n"}, add(cn("g", v("n")), li(1)))),
			asg("h", s.fn("", []string{"n"}, cn("f", v("n")))), cn("h", li(1)), cn("h", li(1)), asg("k", s.fn("", nil, ext("t"))), cn("k")}
	})
	mk("mech:maxargs-unhashable", func(s *Session) {
		big := va(vi(1), vi(2), vi(3), vi(4), vi(5), vi(6), vi(7), vi(8), vi(9))
		s.Inputs = []*Expr{asg("f", s.fn("", []string{"p", "q", "r", "s", "t"}, seq(prt(lit(vs("5"))), v("t")))), cn("f", li(1), li(2), li(3), li(4), li(5)),
			cn("f", li(1), li(2), li(3), li(4), li(5)), cn("f", li(1), li(2), li(3), li(4), li(6)), cn("f", li(2), li(2), li(3), li(4), li(6)),
			asg("k4", s.fn("", []string{"p", "q", "r", "s"}, seq(prt(lit(vs("4"))), v("s")))), cn("k4", li(1), li(2), li(3), li(4)), cn("k4", li(1), li(2), li(3), li(4)),
			cn("k4", li(1), li(2), li(3), li(5)),
			asg("id", s.fn("", []string{"p"}, seq(prt(v("p")), v("p")))), cn("id", lit(big)), cn("id", lit(big)), cn("id", lit(va(vi(1), vi(2)))), cn("id", lit(va(vi(1), vi(2)))),
			cn("id", lit(vs("ab"))), cn("id", lit(vs("ab"))), cn("id", lit(Val{K: 'n'})), cn("id", lit(Val{K: 'b', B: true})), cn("id", li(1)), cn("id", lit(Val{K: 'w', Z: 1})),
			cn("id", lit(Val{K: 'h', Z: 1})), cn("id", lit(va(Val{K: 'm'}))), cn("id", lit(va(Val{K: 'z'})))}
	})
	mk("mech:fib", func(s *Session) {
		fib := func(self string) *Expr {
			return iff(lt(v("n"), li(2)), v("n"), add(cn(self, sub(v("n"), li(1))), cn(self, sub(v("n"), li(2)))))
		}
		s.Inputs = []*Expr{s.fn("fib", []string{"n"}, fib("fib")), cn("fib", li(12)), cn("fib", li(13)),
			asg("f2", s.fn("", []string{"n"}, seq(lg("b"), fib("self")))), cn("f2", li(6)), cn("f2", li(7))}
	})
	mk("mech:outer-variable", func(s *Session) {
		s.Inputs = []*Expr{asg("x", li(1)), asg("X", li(5)), asg("f", s.fn("", []string{"n"}, add(v("n"), v("x")))), asg("g", s.fn("", []string{"n"}, add(v("n"), v("X")))),
			cn("f", li(1)), cn("g", li(1)), asg("x", li(2)), cn("f", li(1)), cn("g", li(1)), asg("X", li(6)), cn("g", li(1)),
			asg("h", s.fn("", []string{"n"}, seq(asg("t", add(v("n"), li(1))), add(v("t"), v("t"))))), cn("h", li(1)), cn("h", li(1))}
	})
	// two closures of one maker calling each other: "same function" means same closure, not same text
	mk("mech:closure-calls-sibling", func(s *Session) {
		s.Inputs = []*Expr{s.fn("mk", []string{"p", "F"}, s.fn("", nil, add(cn("F"), v("p")))), asg("a", cn("mk", li(1), s.fn("", nil, li(0)))),
			asg("b", cn("mk", li(2), v("a"))), cn("b"), cn("a"), cn("b")}
	})
	// a condition and an argument that are References to outer variables; a function-valued argument
	mk("mech:references", func(s *Session) {
		s.Inputs = []*Expr{asg("y", lit(Val{K: 'b', B: true})), asg("x", li(3)), asg("X", li(4)), asg("id", s.fn("", []string{"p"}, seq(lg("I"), v("p")))),
			asg("f", s.fn("", []string{"n"}, iff(v("y"), cn("id", v("x")), cn("id", v("n"))))), cn("f", li(1)), cn("f", li(1)),
			asg("g", s.fn("", []string{"n"}, add(cn("id", v("X")), cn("id", v("n"))))), cn("g", li(1)), cn("g", li(1)), cn("id", li(4)), cn("id", li(3)),
			asg("h", s.fn("", []string{"F", "n"}, cn("F", v("n")))), cn("h", v("id"), li(7)), cn("h", v("id"), li(7)), cn("id", li(7))}
	})
	mk("mech:del-in-function", func(s *Session) {
		s.Inputs = []*Expr{asg("y", li(1)), asg("f", s.fn("", []string{"n"}, add(v("n"), li(1)))), cn("f", li(1)), asg("d", s.fn("", nil, del("y"))),
			asg("w", s.fn("", nil, seq(cn("d"), li(7)))), cn("w"), cn("w"), cn("f", li(1)), v("y")}
	})
	return out
}

// ---------------------------------------------------------------- random sessions
type gen struct {
	r *Rng
	s *Session
	// names currently bound at the root (abstractly), by class
	intFuns  map[string]int // name -> arity
	closures []string
	mkKind   int
	rank     int // index in intFunNames of the function being defined
}

var intFunNames = []string{"f", "g", "h"}

func (g *gen) pick(l []string) string { return l[g.r.Intn(len(l))] }

func (g *gen) intAtom(params []string, closed bool) *Expr {
	k := g.r.Intn(10)
	switch {
	case k < 5 && len(params) > 0:
		return v(g.pick(params))
	case k < 7 || closed:
		return li(int64(g.r.Intn(4)))
	case k < 8:
		return v("x")
	case k < 9:
		return v("X")
	default:
		return ext("r")
	}
}

// callees: only int functions of a LOWER rank than the one being defined (f may call g and h, g may call h), so
// that no session recurses without bound whatever the redefinitions; recursion only through the guarded pattern.
func (g *gen) callees() []string {
	var l []string
	for i, n := range intFunNames {
		if i > g.rank {
			l = append(l, n)
		}
	}
	return l
}

func (g *gen) intExpr(params []string, self string, depth int, closed bool) *Expr {
	if depth <= 0 {
		return g.intAtom(params, closed)
	}
	k := g.r.Intn(12)
	switch {
	case k < 3:
		return add(g.intExpr(params, self, depth-1, closed), g.intExpr(params, self, depth-1, closed))
	case k < 4:
		return sub(g.intExpr(params, self, depth-1, closed), g.intAtom(params, closed))
	case k < 6 && !closed && len(g.callees()) > 0:
		name := g.pick(g.callees())
		return cn(name, g.intExpr(params, self, depth-1, closed))
	default:
		return g.intAtom(params, closed)
	}
}

// an int-valued function body over params
func (g *gen) intBody(name string, params []string, closed bool) *Expr {
	self := "self"
	if name != "" && g.r.Bool() {
		self = name
	}
	var stmts []*Expr
	for i := g.r.Intn(3); i > 0; i-- {
		k := g.r.Intn(10)
		switch {
		case k < 4:
			if len(params) > 0 && g.r.Bool() {
				stmts = append(stmts, prt(lit(vs(g.pick([]string{"a", "b"}))), v(g.pick(params))))
			} else {
				stmts = append(stmts, prt(lit(vs(g.pick([]string{"a", "b", "c d"})))))
			}
		case k < 6 && !closed:
			stmts = append(stmts, lg(g.pick([]string{"L1", "L2"})))
		case k < 7 && !closed:
			stmts = append(stmts, asg("x", add(v("x"), li(1))))
		case k < 8 && !closed:
			stmts = append(stmts, asg("t", g.intExpr(params, self, 1, closed)))
		case k < 9 && !closed:
			stmts = append(stmts, ext(g.pick([]string{"r", "t"})))
		default:
			stmts = append(stmts, prt(g.intExpr(params, self, 1, closed)))
		}
	}
	var core *Expr
	k := g.r.Intn(10)
	switch {
	case k < 2 && len(params) > 0: // recursion (fib / countdown)
		n := params[0]
		rec := cn(self, sub(v(n), li(1)))
		if g.r.Bool() {
			rec = add(rec, cn(self, sub(v(n), li(2))))
		} else {
			rec = add(rec, g.intAtom(params, closed))
		}
		if len(params) > 1 {
			rec = add(cn(self, sub(v(n), li(1)), v(params[1])), li(1))
		}
		// recursion only for 1 <= n <= 6: callers may pass a global counter that keeps growing, and an uncached
		// (impure) fib-shaped body on it is exponential for the implementation and worse for the model's frame list
		core = iff(lt(v(n), li(1)), g.intAtom(params, closed), iff(lt(li(6), v(n)), g.intAtom(params, closed), rec))
	case k < 3 && len(params) > 0:
		core = iff(lt(v(params[0]), li(1)), er("neg"), g.intExpr(params, self, 1, closed))
	case k < 4 && len(params) > 0:
		core = iff(lt(v(params[0]), li(2)), g.intExpr(params, self, 1, closed), g.intExpr(params, self, 1, closed))
	default:
		core = g.intExpr(params, self, 2, closed)
	}
	return seq(append(stmts, core)...)
}

func (g *gen) argPool() *Expr { return li(int64(g.r.Intn(3))) }

func (g *gen) callInt() *Expr {
	names := make([]string, 0, len(g.intFuns))
	for _, n := range intFunNames {
		if _, ok := g.intFuns[n]; ok {
			names = append(names, n)
		}
	}
	if len(names) == 0 {
		return li(0)
	}
	name := g.pick(names)
	ar := g.intFuns[name]
	if g.r.Pct(5) {
		ar = g.r.Intn(3)
	}
	args := make([]*Expr, ar)
	for i := range args {
		args[i] = g.argPool()
	}
	return cn(name, args...)
}

var anyVals = []Val{vi(0), vi(1), {K: 'z'}, {K: 'm'}, {K: 'N'}, {K: 'w', Z: 1}, {K: 'h', Z: 1}, {K: 'h', Z: 0}, vs("ab"), vs(""), {K: 'n'}, {K: 'b', B: true},
	{K: 'b'}, va(vi(1), vi(2)), va(), va(vi(1), vi(2), vi(3), vi(4), vi(5), vi(6), vi(7), vi(8), vi(9)), va(Val{K: 'm'}), va(Val{K: 'z'}), va(vs("q"), va(vi(1)))}

func (g *gen) step(closed bool) *Expr {
	s := g.s
	k := g.r.Intn(100)
	switch {
	case k < 22: // define or redefine an int function
		name := g.pick(intFunNames)
		if closed {
			// in a closed session every text must be its own definition: keep the name tied to the text
			name = g.pick(intFunNames)
		}
		params := [][]string{{"n"}, {"n", "m"}, {}}[g.r.Intn(3)]
		g.intFuns[name] = len(params)
		for i, n := range intFunNames {
			if n == name {
				g.rank = i
			}
		}
		if g.r.Bool() {
			return s.fn(name, params, g.intBody(name, params, closed))
		}
		return asg(name, s.fn("", params, g.intBody("", params, closed)))
	case k < 60:
		c := g.callInt()
		switch g.r.Intn(6) {
		case 0:
			return prt(c, g.callInt())
		case 1:
			return add(c, g.callInt())
		case 2:
			return seq(c, g.callInt())
		}
		return c
	case k < 66 && !closed:
		return asg("x", li(int64(g.r.Intn(3))))
	case k < 69 && !closed:
		return asg("X", li(int64(5+g.r.Intn(2))))
	case k < 72 && !closed:
		return del(g.pick([]string{"x", "X", "g", "t"}))
	case k < 80: // generic one-argument functions and values of every kind
		if _, ok := g.intFuns["id"]; !ok || g.r.Pct(10) {
			g.intFuns["id"] = -1
			body := seq(prt(v("p")), v("p"))
			if !closed && g.r.Bool() {
				body = seq(lg("I"), prt(v("p")), v("p"))
			}
			return asg("id", s.fn("", []string{"p"}, body))
		}
		return cn("id", lit(anyVals[g.r.Intn(len(anyVals))]))
	case k < 92 && !closed: // closures
		if len(g.closures) == 0 || g.r.Pct(30) {
			kind := g.r.Intn(5)
			var mk *Expr
			switch kind {
			case 0:
				mk = s.fn("mk", []string{"N"}, s.fn("", nil, v("N")))
			case 1:
				mk = s.fn("mk", []string{"p"}, s.fn("", nil, add(v("p"), li(1))))
			case 2:
				mk = s.fn("mk", []string{"p"}, s.fn("", nil, asg("p", add(v("p"), li(1)))))
			case 3:
				mk = s.fn("mk", []string{"N"}, seq(prt(lit(vs("mk"))), arr(s.fn("", nil, v("N")), v("N"))))
			default:
				mk = s.fn("mk", []string{"F"}, s.fn("", nil, add(cn("F", li(1)), li(1))))
			}
			g.closures = nil
			g.mkKind = kind
			return mk
		}
		fallthrough
	default:
		if closed {
			return g.callInt()
		}
		if g.mkKind < 0 {
			return g.callInt()
		}
		if len(g.closures) < 2 || g.r.Pct(25) {
			name := g.pick([]string{"a", "b", "c"})
			var arg *Expr = li(int64(g.r.Intn(2)))
			if g.mkKind == 4 {
				arg = v(g.pick(intFunNames))
				if g.r.Bool() {
					arg = s.fn("", []string{"n"}, add(v("n"), li(int64(g.r.Intn(2)))))
				}
			}
			if !member(name, g.closures) {
				g.closures = append(g.closures, name)
			}
			if g.mkKind == 3 {
				return asg(name, cn("mk", arg))
			}
			return asg(name, cn("mk", arg))
		}
		name := g.pick(g.closures)
		if g.mkKind == 3 {
			return v(name)
		}
		return cn(name)
	}
}

func (c *Ctx2) randomSession(closed bool) *Session {
	s := &Session{Tag: "random"}
	if closed {
		s.Tag = "random-closed"
	}
	g := &gen{r: c.R, s: s, intFuns: map[string]int{}}
	g.mkKind = -1
	if !closed {
		s.Inputs = append(s.Inputs, asg("x", li(0)))
		if c.R.Bool() {
			s.Inputs = append(s.Inputs, asg("X", li(5)))
		}
	}
	n := 6 + c.R.Intn(14)
	for i := 0; i < n; i++ {
		s.Inputs = append(s.Inputs, g.step(closed))
	}
	return s
}

// a caller remembered, its callee rebound, the caller called again (the known finding, in many shapes)
func (c *Ctx2) redefSession() *Session {
	s := &Session{Tag: "random-redefine"}
	g := &gen{r: c.R, s: s, intFuns: map[string]int{}, mkKind: -1}
	r := c.R
	def := func(name string, params []string, body *Expr) *Expr {
		if r.Bool() {
			return s.fn(name, params, body)
		}
		return asg(name, s.fn("", params, body))
	}
	pure := func(params []string) *Expr { g.rank = 99; return g.intBody("", params, true) }
	params := [][]string{{"n"}, {}}[r.Intn(2)]
	args := func() []*Expr {
		if len(params) == 0 {
			return nil
		}
		return []*Expr{li(int64(r.Intn(2)))}
	}
	pv := func() []*Expr {
		if len(params) == 0 {
			return nil
		}
		return []*Expr{v("n")}
	}
	s.Inputs = append(s.Inputs, def("g", params, pure(params)))
	caller := add(cn("g", pv()...), li(int64(r.Intn(3))))
	if r.Bool() {
		caller = seq(prt(lit(vs("f"))), caller)
	}
	s.Inputs = append(s.Inputs, def("f", params, caller))
	top := "f"
	if r.Pct(40) {
		s.Inputs = append(s.Inputs, def("h", params, add(cn("f", pv()...), li(1))))
		top = "h"
	}
	a := args()
	s.Inputs = append(s.Inputs, cn(top, a...))
	if r.Bool() {
		s.Inputs = append(s.Inputs, cn(top, args()...))
	}
	switch r.Intn(4) {
	case 0:
		s.Inputs = append(s.Inputs, asg("g", li(int64(r.Intn(3)))))
	case 1:
		s.Inputs = append(s.Inputs, del("g"), def("g", params, pure(params)))
	default:
		s.Inputs = append(s.Inputs, def("g", params, pure(params)))
	}
	s.Inputs = append(s.Inputs, cn(top, a...), cn("g", a...), cn("f", a...))
	return s
}

// state machines: a function that READS (or calls) an outer binding and then WRITES it in the same call - the binding
// holds a lambda (flip-flop; the read of a root function is not a miss, so only the write makes the call uncacheable),
// a number (counter) or a container - called 3-5 times with equal arguments, directly and through 1-2 levels of callers.
func (c *Ctx2) toggleSession() *Session {
	s := &Session{Tag: "random-toggle"}
	r := c.R
	defIdx := func(e *Expr) int {
		if e.K == 'A' {
			e = e.Sub[0]
		}
		return e.D
	}
	def := func(name string, params []string, body *Expr) *Expr {
		if r.Bool() {
			return s.fn(name, params, body)
		}
		return asg(name, s.fn("", params, body))
	}
	params := [][]string{{}, {"n"}}[r.Intn(2)]
	args := func() []*Expr {
		if len(params) == 0 {
			return nil
		}
		return []*Expr{li(1)}
	}
	pv := func() []*Expr {
		if len(params) == 0 {
			return nil
		}
		return []*Expr{v("n")}
	}
	kind := r.Intn(6)
	var init, body *Expr
	lam := func(k int64) *Expr { return s.fn("", nil, li(k)) }
	switch kind {
	case 0: // flip-flop in a function-valued global: call, then rebind
		init = asg("g", lam(0))
		body = seq(asg("v", cn("g")), iff(lt(v("v"), li(1)), asg("g", lam(1)), asg("g", lam(0))), v("v"))
	case 1: // three-state machine
		init = asg("g", lam(0))
		body = seq(asg("v", cn("g")), iff(lt(v("v"), li(1)), asg("g", lam(1)), iff(lt(v("v"), li(2)), asg("g", lam(2)), asg("g", lam(0)))), v("v"))
	case 2: // read the function value (no call), rebind, call the old one
		init = asg("g", lam(0))
		body = seq(asg("t", v("g")), asg("v", cn("t")), iff(lt(v("v"), li(1)), asg("g", lam(1)), asg("g", lam(0))), v("v"))
	case 3: // named redefinition from inside, after the call
		init = s.fn("g", nil, li(0))
		body = seq(asg("v", cn("g")), iff(lt(v("v"), li(1)), s.fn("g", nil, li(1)), s.fn("g", nil, li(0))), v("v"))
	case 4: // counter in a number
		init = asg("x", li(0))
		body = seq(asg("v", v("x")), asg("x", add(v("v"), li(1))), v("v"))
	default: // container that grows
		init = asg("m", arr(li(0)))
		body = seq(asg("v", v("m")), asg("m", arr(v("v"), li(1))), prt(v("v")), li(0))
	}
	switch r.Intn(3) {
	case 0:
		body = seq(prt(lit(vs("s"))), body)
	case 1:
		if len(params) > 0 {
			body = seq(prt(v("n")), body)
		}
	}
	s.Inputs = append(s.Inputs, init)
	nx := def("nx", params, body)
	s.Writers = append(s.Writers, defIdx(nx))
	s.Inputs = append(s.Inputs, nx)
	names := []string{"nx"}
	if r.Pct(70) {
		var tb *Expr
		if kind == 5 {
			tb = seq(cn("nx", pv()...), cn("nx", pv()...))
		} else {
			tb = add(cn("nx", pv()...), cn("nx", pv()...))
		}
		tw := def("tw", params, tb)
		s.Callers = append(s.Callers, defIdx(tw))
		s.Inputs = append(s.Inputs, tw)
		names = append(names, "tw")
		if r.Bool() {
			tt := def("tt", params, seq(prt(lit(vs("t"))), cn("tw", pv()...)))
			s.Callers = append(s.Callers, defIdx(tt))
			s.Inputs = append(s.Inputs, tt)
			names = append(names, "tt")
		}
	}
	for i, n := 0, 3+r.Intn(3); i < n; i++ {
		s.Inputs = append(s.Inputs, cn("nx", args()...))
	}
	for i, n := 0, 2+r.Intn(4); i < n; i++ {
		s.Inputs = append(s.Inputs, cn(names[r.Intn(len(names))], args()...))
	}
	switch kind {
	case 4:
		s.Inputs = append(s.Inputs, v("x"))
	case 5:
		s.Inputs = append(s.Inputs, v("m"))
	default:
		s.Inputs = append(s.Inputs, cn("g"))
	}
	return s
}

// variadic callees whose last argument is an array / a nested array / a scalar: calls that differ only in nesting must
// not share a cache entry (the spread must not reach the caller's argument list, which is the key)
func (c *Ctx2) variadicSession() *Session {
	s := &Session{Tag: "random-variadic"}
	r := c.R
	named := r.Bool()
	params := []string{".."}
	if named {
		params = []string{"p", ".."}
	}
	var body *Expr
	switch r.Intn(4) {
	case 0:
		body = v("..")
	case 1:
		body = seq(prt(lit(vs("c"))), v(".."))
	case 2:
		body = seq(prt(v("..")), li(0))
	default:
		if named {
			body = arr(v("p"), v(".."))
		} else {
			body = arr(v(".."), v(".."))
		}
	}
	if r.Bool() {
		s.Inputs = append(s.Inputs, s.fn("vf", params, body))
	} else {
		s.Inputs = append(s.Inputs, asg("vf", s.fn("", params, body)))
	}
	pool := []Val{va(va(vi(5))), va(vi(5)), vi(5), va(), va(va()), va(vi(1), vi(2)), va(va(vi(1), vi(2))), va(va(vi(1)), vi(2)), vs("a"), va(vs("a"))}
	call := func(name string) *Expr {
		last := lit(pool[r.Intn(len(pool))])
		var args []*Expr
		if named && !r.Pct(8) {
			args = append(args, li(1))
		}
		switch r.Intn(10) {
		case 0: // no variadic argument at all
		case 1:
			args = append(args, last, lit(pool[r.Intn(len(pool))]))
		default:
			args = append(args, last)
		}
		return cn(name, args...)
	}
	through := r.Pct(40)
	if through { // the nesting arrives through a caller's parameter / an outer variable
		s.Inputs = append(s.Inputs, asg("w", s.fn("", []string{"q"}, cn("vf", li(1), v("q")))), asg("y", lit(va(vi(5)))),
			asg("wy", s.fn("", nil, cn("vf", li(1), v("y")))))
	}
	for i, n := 0, 6+r.Intn(8); i < n; i++ {
		switch {
		case through && r.Pct(30):
			s.Inputs = append(s.Inputs, cn("w", lit(pool[r.Intn(3)])))
		case through && r.Pct(15):
			s.Inputs = append(s.Inputs, cn("wy"))
		case through && r.Pct(10):
			s.Inputs = append(s.Inputs, asg("y", lit(pool[r.Intn(3)])))
		default:
			s.Inputs = append(s.Inputs, call("vf"))
		}
	}
	return s
}

// a function that reads a global inside catch(): unbound at first, bound between two calls, deleted again
func (c *Ctx2) catchSession() *Session {
	s := &Session{Tag: "random-catch"}
	r := c.R
	name := []string{"a", "A", "g"}[r.Intn(3)] // variable, constant, function
	var probe, bind *Expr
	switch name {
	case "g":
		probe, bind = cn("g"), asg("g", s.fn("", nil, li(2)))
		if r.Bool() {
			bind = s.fn("g", nil, li(2))
		}
	default:
		probe, bind = add(li(1), v(name)), asg(name, li(2))
	}
	var body *Expr
	switch r.Intn(3) {
	case 0:
		body = cerr(probe)
	case 1:
		body = iff(cerr(probe), li(-1), probe)
	default:
		body = seq(prt(cerr(probe)), li(7))
	}
	var f *Expr
	if r.Bool() {
		f = s.fn("f", nil, body)
	} else {
		f = asg("f", s.fn("", nil, body))
	}
	fd := f
	if fd.K == 'A' {
		fd = fd.Sub[0]
	}
	if name == "a" { // unbound = a miss (failed lookup), bound = a miss (mutable variable): never remembered
		s.Writers = append(s.Writers, fd.D)
	}
	s.Inputs = append(s.Inputs, f)
	names := []string{"f"}
	if r.Bool() {
		h := asg("h", s.fn("", nil, add(cn("f"), li(1))))
		if body.K == 'K' {
			h = asg("h", s.fn("", nil, iff(cn("f"), li(0), li(1))))
		}
		if name == "a" {
			s.Callers = append(s.Callers, h.Sub[0].D)
		}
		s.Inputs = append(s.Inputs, h)
		names = append(names, "h")
	}
	calls := func() {
		for i, n := 0, 2+r.Intn(2); i < n; i++ {
			s.Inputs = append(s.Inputs, cn(names[r.Intn(len(names))]))
		}
	}
	calls()
	s.Inputs = append(s.Inputs, bind)
	calls()
	s.Inputs = append(s.Inputs, del(name))
	calls()
	return s
}

// an impure callee (reads a mutable global) whose result is a closure or an error: the caller must still be poisoned
// (the "never remember errors / functions" tests come AFTER the miss propagation in applyFunction)
func (c *Ctx2) impureResultSession() *Session {
	s := &Session{Tag: "random-impure-result"}
	r := c.R
	never := func(e *Expr, caller bool) *Expr {
		f := e
		if f.K == 'A' {
			f = f.Sub[0]
		}
		if caller {
			s.Callers = append(s.Callers, f.D)
		} else {
			s.Writers = append(s.Writers, f.D)
		}
		return e
	}
	lam := func(k int64) *Expr { return s.fn("", nil, li(k)) }
	s.Inputs = append(s.Inputs, asg("x", li(0)))
	kind := r.Intn(5)
	top := "g"
	switch kind {
	case 0: // closure picked by a global, called at once
		s.Inputs = append(s.Inputs, never(asg("pick", s.fn("", nil, iff(lt(v("x"), li(1)), lam(10), lam(20)))), false),
			never(asg("g", s.fn("", nil, call(cn("pick")))), true))
	case 1: // closure stored in a local first; in an array
		s.Inputs = append(s.Inputs, never(asg("pick", s.fn("", nil, iff(lt(v("x"), li(1)), arr(lam(10)), arr(lam(20))))), false),
			never(asg("g", s.fn("", nil, seq(asg("t", cn("pick")), prt(lit(vs("g"))), li(3)))), true))
	case 2: // error or value, decided by a global, swallowed by catch in the caller
		s.Inputs = append(s.Inputs, never(asg("pick", s.fn("", nil, iff(lt(v("x"), li(1)), er("bad"), li(1)))), false),
			never(asg("g", s.fn("", nil, cerr(cn("pick")))), true))
	case 3: // the same through a lambda called inside the callee
		inner := s.fn("", nil, iff(lt(v("x"), li(1)), er("bad"), li(1)))
		s.Inputs = append(s.Inputs, never(asg("pick", s.fn("", nil, call(inner))), false),
			never(asg("g", s.fn("", nil, iff(cerr(cn("pick")), li(-1), li(5)))), true))
	default: // a DontCache extension and an error
		s.Inputs = append(s.Inputs, never(asg("pick", s.fn("", nil, seq(ext("r"), iff(lt(v("x"), li(1)), er("bad"), lam(1))))), false),
			never(asg("g", s.fn("", nil, seq(prt(cerr(cn("pick"))), li(2)))), true))
	}
	if r.Bool() {
		body := add(cn("g"), li(1))
		if kind == 2 {
			body = iff(cn("g"), li(0), li(1))
		}
		s.Inputs = append(s.Inputs, never(asg("h", s.fn("", nil, body)), true))
		top = "h"
	}
	names := []string{"g", top}
	for round := 0; round < 3; round++ {
		for i, n := 0, 2+r.Intn(2); i < n; i++ {
			s.Inputs = append(s.Inputs, cn(names[r.Intn(2)]))
		}
		s.Inputs = append(s.Inputs, asg("x", li(int64((round+1)%2))))
	}
	s.Inputs = append(s.Inputs, cn(top))
	return s
}

func raw(src string) *Expr { return &Expr{K: 'Z', X: src} }

// big (more than 8 elements) array and map arguments that differ only in int vs integral float, -0.0 vs 0.0, the type
// of a nested element, or the order of a map literal: indexing, division and type() tell them apart. Outside the
// model's language (the model answers SKIP): direct oracle only.
func (c *Ctx2) bigArgSession() *Session {
	s := &Session{Tag: "random-bigarg"}
	r := c.R
	type fam struct {
		def  string
		args []string
	}
	tail := ",3,4,5,6,7,8,9"
	fams := []fam{
		{"fa = func(a){println(a[0]/2); 1.0/a[1]}", []string{"[1,0.0" + tail + "]", "[1.0,0.0" + tail + "]", "[1,-0.0" + tail + "]", "[1.0,-0.0" + tail + "]", "[1,0.0,3]", "[1.0,0.0,3]"}},
		{"fa = func(a){type(a[0])}", []string{"[1,2" + tail + "]", "[1.0,2" + tail + "]", "[\"1\",2" + tail + "]", "[1,2,3]", "[1.0,2,3]"}},
		{"fa = func(a){print(\"n\"); a[0][0]/2}", []string{"[[1],2" + tail + "]", "[[1.0],2" + tail + "]", "[[1,0],2" + tail + "]", "[[1.0,0],2" + tail + "]"}},
		{"fa = func(m){println(m[9]/2, type(m[1]))}", []string{"{1:1,2:2,3:3,4:4,5:5,6:6,7:7,8:8,9:9}", "{9:9.0,8:8,7:7,6:6,5:5,4:4,3:3,2:2,1:1}",
			"{9:9,8:8,7:7,6:6,5:5,4:4,3:3,2:2,1:1}", "{1:1.0,2:2,3:3,4:4,5:5,6:6,7:7,8:8,9:9}", "{1:1,9:9}", "{1:1.0,9:9}"}},
		{"fa = func(a, b){a[8]/2 + b[0]/2}", []string{"[1,2" + tail + "],[1,2" + tail + "]", "[1,2,3,4,5,6,7,8,9.0],[1,2" + tail + "]", "[1,2" + tail + "],[1.0,2" + tail + "]"}},
	}
	f := fams[r.Intn(len(fams))]
	s.Inputs = append(s.Inputs, raw(f.def))
	if r.Bool() {
		s.Inputs = append(s.Inputs, raw("fb = func(){fa("+f.args[0]+")}"), raw("fb()"))
	}
	for i, n := 0, 5+r.Intn(6); i < n; i++ {
		s.Inputs = append(s.Inputs, raw("fa("+f.args[r.Intn(len(f.args))]+")"))
	}
	return s
}

// cancelonce(): a harness extension (not flagged DontCache, like sleep) that cancels the state's context the FIRST time
// it runs in a session and is a no-op afterwards - a deterministic stand-in for "the deadline hit during the first call".
var cancelSeen = map[*eval.State]bool{}

func registerCancelOnce() {
	extensions.MustCreate(object.Extension{
		Name: "cancelonce", MinArgs: 0, MaxArgs: 0, Help: "verification harness: cancel the evaluation context once",
		Callback: func(env any, _ string, _ []object.Object) object.Object {
			if st, ok := env.(*eval.State); ok && !cancelSeen[st] {
				cancelSeen[st] = true
				if st.Cancel != nil {
					st.Cancel()
				}
			}
			return object.NULL
		},
	})
}

func cancelOnce() *Expr { return &Expr{K: 'Q'} }

// an evaluation interrupted (context cancelled) inside a call whose error is swallowed by catch(): nothing computed from it
// may be remembered; the same calls are repeated afterwards with a live context. Outside the model (no deadlines there): SKIP.
func (c *Ctx2) interruptSession() *Session {
	s := &Session{Tag: "random-interrupt"}
	r := c.R
	var slow *Expr
	switch r.Intn(3) {
	case 0:
		slow = seq(cancelOnce(), add(v("n"), li(1)))
	case 1:
		slow = seq(prt(lit(vs("s"))), cancelOnce(), prt(lit(vs("t"))), add(v("n"), li(1)))
	default:
		slow = iff(lt(v("n"), li(0)), li(0), seq(cancelOnce(), arr(v("n"), li(1))))
	}
	s.Inputs = append(s.Inputs, asg("slow", s.fn("", []string{"n"}, slow)))
	var g *Expr
	switch r.Intn(3) {
	case 0:
		g = cerr(cn("slow", v("n")))
	case 1:
		g = iff(cerr(cn("slow", v("n"))), li(-1), li(1))
	default:
		g = seq(prt(cerr(cn("slow", v("n")))), li(3))
	}
	s.Inputs = append(s.Inputs, asg("g", s.fn("", []string{"n"}, g)))
	names := []string{"g"}
	if r.Bool() {
		s.Inputs = append(s.Inputs, asg("f", s.fn("", []string{"n"}, seq(asg("t", cn("g", v("n"))), prt(v("t")), v("t")))))
		names = append(names, "f")
	}
	first := names[len(names)-1]
	if r.Pct(20) { // interrupted at the top level, before the call
		s.Inputs = append(s.Inputs, seq(cancelOnce(), cn(first, li(1))))
	} else {
		s.Inputs = append(s.Inputs, cn(first, li(1)))
	}
	for i, n := 0, 3+r.Intn(4); i < n; i++ {
		s.Inputs = append(s.Inputs, cn(append(names, "slow")[r.Intn(len(names)+1)], li(int64(1+r.Intn(2)))))
	}
	return s
}

// two different functions that PRINT alike share a cache key (the key is the printed text; recorded C02 printer
// findings): tagged sessions name the C02 finding they derive from; any other collision is unclassified (a violation)
func (s *Session) collisionSig() string {
	for i, a := range s.Defs {
		for _, b := range s.Defs[i+1:] {
			// same text, different NAME (the name is deliberately not part of the key), and the body can see its own
			// function value through self: the name is observable
			if a.Key == b.Key && a.Name != b.Name && a.Body.src(s) == b.Body.src(s) && strings.Contains(a.Body.src(s), "self") &&
				s.Tag == "keycollision:function-name-via-self" {
				return "stale-hit:function-name-via-self"
			}
			if a.Key == b.Key && (a.Body.src(s) != b.Body.src(s) || strings.Join(a.Params, ",") != strings.Join(b.Params, ",")) {
				if strings.HasPrefix(s.Tag, "keycollision:") {
					return "stale-hit:printed-text-collision:" + strings.TrimPrefix(s.Tag, "keycollision:")
				}
				return "stale-hit:printed-text-collision:unclassified"
			}
		}
	}
	return ""
}

func (c *Ctx2) collisionSession() *Session {
	r := c.R
	if r.Bool() {
		s := &Session{Tag: "keycollision:plus-in-plus-right-operand"}
		ps := []string{"p", "q", "r"}
		right := s.fn("", ps, add(v("p"), add(v("q"), v("r"))))
		left := s.fn("", ps, add(add(v("p"), v("q")), v("r")))
		if r.Bool() {
			right, left = left, right
		}
		pools := [][]Val{{va(vi(1)), vi(2), vi(3)}, {va(va(vi(1))), va(vi(2)), vi(3)}, {vi(1), vi(2), vi(3)}, {vs("x"), vs("y"), vs("z")}, {va(), vi(0), va(vi(1))}}
		args := func() []*Expr {
			p := pools[r.Intn(len(pools))]
			return []*Expr{lit(p[0]), lit(p[1]), lit(p[2])}
		}
		a := args()
		s.Inputs = []*Expr{asg("f", right), cn("f", a...)}
		if r.Bool() {
			s.Inputs = append(s.Inputs, cn("f", args()...))
		}
		name := "f"
		if r.Bool() {
			name = "g"
		}
		s.Inputs = append(s.Inputs, asg(name, left), cn(name, a...), cn(name, args()...), cn("f", a...))
		return s
	}
	s := &Session{Tag: "keycollision:statement-starts-with-prefix-operator"}
	op := []string{"+", "-"}[r.Intn(2)]
	k := strconv.Itoa(1 + r.Intn(3))
	one := s.fn("f", []string{"p"}, raw("(if p {1} else {2})"+op+k))
	two := s.fn("g", []string{"p"}, raw("if p {1} else {2}; "+op+k))
	if r.Bool() {
		s.Inputs = []*Expr{one, raw("f(true)"), two, raw("g(true)"), raw("g(false)"), raw("f(false)")}
	} else {
		s.Inputs = []*Expr{two, raw("g(true)"), one, raw("f(true)"), raw("f(false)"), raw("g(false)")}
	}
	return s
}

// counted top-level loops over an UPPER-CASE (or lower-case) variable whose body, and later inputs, call functions reading
// that variable (remembered or not). Loops are outside the model's language: direct oracle only.
func (c *Ctx2) loopSession() *Session {
	s := &Session{Tag: "random-loop"}
	r := c.R
	name := []string{"K", "LEVEL", "k"}[r.Intn(3)]
	s.Inputs = append(s.Inputs, raw("sc = func(){"+name+"*10}"), raw("fr = func(){rand(1) "+name+"*10}"))
	if r.Bool() {
		s.Inputs = append(s.Inputs, raw("tw = func(){sc()+1}"))
	} else {
		s.Inputs = append(s.Inputs, raw("tw = func(){catch(sc()).err}"))
	}
	if r.Bool() {
		s.Inputs = append(s.Inputs, raw(name+" = 7"), raw("println(sc(), fr(), tw())"))
	}
	loops := []string{"for " + name + " = 3 {println(" + name + ", sc(), fr(), tw())}", "for " + name + " = 1:4 {print(sc(), tw())}",
		"for " + name + " = 2 {sc()}", "for " + name + " = 3 {print(" + name + ")}"}
	for i, n := 0, 2+r.Intn(3); i < n; i++ {
		s.Inputs = append(s.Inputs, raw(loops[r.Intn(len(loops))]), raw("println("+name+", sc(), fr(), tw())"))
	}
	return s
}

// ---------------------------------------------------------------- the grol BINARY on several files
// Without -shared-state every file gets a new interpreter state: running the files together must print what running
// each alone prints, and the same with memoization off (GROL_VERIF_CACHE_OFF, verif build).
func (c *Ctx2) multiFile() {
	// ./check runs the harness with the verification root as working directory; the harness module (with its replace
	// of grol.io/grol by the tree under test) is <root>/harness. VERIF_REPO (seeded-change experiments): go.alt.mod.
	wd, err := os.Getwd()
	if err != nil {
		c.Fail("harness:multifile-setup", "os.Getwd", err.Error())
		return
	}
	modDir := filepath.Join(wd, "harness")
	if _, err := os.Stat(filepath.Join(modDir, "go.mod")); err != nil {
		if exe, e2 := os.Executable(); e2 == nil {
			modDir = filepath.Dir(filepath.Dir(exe)) // <harness>/bin/C04 -> <harness>
		}
	}
	dir, err := filepath.Abs(filepath.Join(c.Out, "multifile"))
	if err != nil {
		c.Fail("harness:multifile-setup", c.Out, err.Error())
		return
	}
	_ = os.RemoveAll(dir)
	if err := os.MkdirAll(dir, 0o755); err != nil {
		c.Fail("harness:multifile-setup", dir, err.Error())
		return
	}
	bin := filepath.Join(dir, "grol")
	args := []string{"build", "-tags", "verif", "-o", bin}
	if r := os.Getenv("VERIF_REPO"); r != "" && r != "/repo" {
		args = append(args, "-modfile=go.alt.mod")
	}
	build := exec.Command("go", append(args, "grol.io/grol")...)
	build.Dir = modDir
	if out, err := build.CombinedOutput(); err != nil {
		c.Fail("harness:multifile-build", "go build grol.io/grol in "+modDir, err.Error()+": "+string(out))
		return
	}
	run := func(off bool, files ...string) string {
		cmd := exec.Command(bin, append([]string{"-quiet", "-no-auto", "-no-progress"}, files...)...)
		cmd.Dir = dir
		cmd.Env = append(os.Environ(), "GROL_VERIF_CACHE_OFF="+map[bool]string{true: "1", false: "0"}[off])
		var out bytes.Buffer
		cmd.Stdout = &out
		c.Eval()
		if err := cmd.Run(); err != nil {
			return out.String() + "\n[exit: " + err.Error() + "]"
		}
		return out.String()
	}
	r := c.R
	n := 12
	if c.Thorough() {
		n = 120
	}
	for k := 0; k < n; k++ {
		shape := r.Intn(4)
		var body, use string
		switch shape {
		case 0:
			body, use = `f=func(x){println("f called with",x) x+LIMIT}`, "println(f(1))"
		case 1:
			body, use = `f=func(x){println("f", x) x+h()}`, "println(f(1), f(2), f(1))"
		case 2:
			body, use = `func f(x){x*LIMIT+h()}`, "println(f(2))\nprintln(f(2))"
		default:
			body, use = `f=func(x){x+base}`, "println(f(1))"
		}
		nf := 2 + r.Intn(2)
		var files, texts []string
		for i := 0; i < nf; i++ {
			k1, k2 := 10*(1+r.Intn(3)), 1+r.Intn(3)
			text := fmt.Sprintf("LIMIT=%d\nh=func(){%d}\nbase=%d\n%s\n%s\n", k1, k2, k1+k2, body, use)
			name := fmt.Sprintf("s%d_%c.gr", k, 'a'+i)
			if err := os.WriteFile(filepath.Join(dir, name), []byte(text), 0o644); err != nil {
				c.Fail("harness:multifile-setup", name, err.Error())
				return
			}
			files, texts = append(files, name), append(texts, text)
		}
		c.Count("multifile_runs")
		together, togetherOff := run(false, files...), run(true, files...)
		alone := ""
		for _, f := range files {
			alone += run(false, f)
		}
		cs := "grol -quiet -no-auto -no-progress " + strings.Join(files, " ") + " :: " + strings.ReplaceAll(strings.Join(texts, " ;;; "), "\n", "; ")
		switch {
		case together != alone:
			c.Fail("multifile:function-cache-shared-between-files", cs, fmt.Sprintf("together %q / each file alone %q", together, alone))
			return
		case together != togetherOff:
			c.Fail("multifile:cache-observable", cs, fmt.Sprintf("cache on %q / cache off %q", together, togetherOff))
			return
		}
		if strings.Count(together, "\n") >= nf {
			c.NonTrivial(cs)
		}
	}
}

// small maps (<= 4 pairs) and small arrays (<= 8 elements) obtained by slicing / rest / del / merge from containers whose
// DROPPED pairs or elements hold values that cannot be (or must not be part of) a Go map key - big arrays, functions, big
// maps, NaN, -0.0 -, passed twice as arguments to remembered functions. The language only reads [:len]; the cache hashes
// the whole struct. Cache on vs off; a Go panic in either run is a failure. Raw grol: direct oracle only.
func (c *Ctx2) smallContainerSession() *Session {
	s := &Session{Tag: "random-small-container"}
	r := c.R
	big := "[1,2,3,4,5,6,7,8,9]"
	junk := []string{big, "func(){1}", "{1:1,2:2,3:3,4:4,5:5}", "(0.0/0.0)", "-0.0", "[" + big + "]", "\"s\""}[r.Intn(7)]
	s.Inputs = append(s.Inputs, raw(`fm = func(x){println("in fm", x); len(x)}`), raw(`fk = func(x, y){print("k"); [x, y]}`))
	if r.Bool() { // maps
		s.Inputs = append(s.Inputs, raw(`m = {"a":1,"b":2,"c":`+junk+`}`), raw(`m4 = {"a":1,"b":2,"c":`+junk+`,"d":4}`))
		exprs := []string{"m[0:2]", "m[0:1]", "m4[1:2]", "m4[0:3]", "rest(m)", "rest(rest(m4))", "m[0:2]+{\"z\":0}", "{\"a\":1,\"b\":2}", "m4[0:2]", "m[1:2]"}
		for i, n := 0, 5+r.Intn(5); i < n; i++ {
			e := exprs[r.Intn(len(exprs))]
			switch r.Intn(4) {
			case 0:
				s.Inputs = append(s.Inputs, raw("fk("+e+", 1)"))
			case 1:
				s.Inputs = append(s.Inputs, raw("t = "+e), raw("fm(t)"), raw("fm(t)"))
			default:
				s.Inputs = append(s.Inputs, raw("fm("+e+")"))
			}
		}
		s.Inputs = append(s.Inputs, raw("del(m.c)"), raw("fm(m)"), raw("fm(m)"), raw("del(m4.c)"), raw("fm(m4)"), raw("fm(m4[0:2])"))
		return s
	}
	s.Inputs = append(s.Inputs, raw("a = [1,2,"+junk+"]"), raw("a8 = [1,2,3,"+junk+",5,6,7,8]"))
	exprs := []string{"a[0:2]", "a[0:1]", "a8[0:3]", "a8[4:8]", "rest(a)", "a[0:2]+[0]", "[1,2]", "a8[0:2]", "a[1:2]", "first(a8[2:3])"}
	for i, n := 0, 5+r.Intn(5); i < n; i++ {
		e := exprs[r.Intn(len(exprs))]
		switch r.Intn(4) {
		case 0:
			s.Inputs = append(s.Inputs, raw("fk("+e+", 1)"))
		case 1:
			s.Inputs = append(s.Inputs, raw("t = "+e), raw("fm(t)"), raw("fm(t)"))
		default:
			s.Inputs = append(s.Inputs, raw("fm("+e+")"))
		}
	}
	return s
}

// function calls made DURING macro expansion: helpers defined in macro bodies that read the macro's parameters (named like
// constants or not), several expansions with different arguments in one input and across inputs. Macros are outside the
// model's language: direct oracle only (the API runs now define and expand macros as repl.EvalOne does).
func (c *Ctx2) macroSession() *Session {
	s := &Session{Tag: "random-macro"}
	r := c.R
	p := []string{"X", "x", "ARG", "N1"}[r.Intn(4)]
	var def string
	switch r.Intn(5) {
	case 0:
		def = "sq = macro(" + p + ") {get = () => " + p + "; quote(unquote(get()) * unquote(get()))}"
	case 1:
		def = "sq = macro(" + p + ") {get = func(){" + p + "}; quote(unquote(get()) + 1)}"
	case 2:
		def = "sq = macro(" + p + ") {func get(){" + p + "}; tw = func(){get()}; quote(unquote(tw()) * 2)}"
	case 3:
		def = "sq = macro(" + p + ") {id = func(q){q}; quote(unquote(id(" + p + ")) * unquote(id(" + p + ")))}"
	default:
		def = "sq = macro(" + p + ", Y) {get = () => " + p + "; gy = () => Y; quote(unquote(get()) - unquote(gy()))}"
	}
	two := strings.Contains(def, ", Y)")
	s.Inputs = append(s.Inputs, raw(def))
	argPool := []string{"3", "4", "2+3", "a", "a+1", "7"}
	s.Inputs = append(s.Inputs, raw("a = 10"))
	use := func() string {
		if two {
			return "sq(" + argPool[r.Intn(len(argPool))] + ", " + argPool[r.Intn(len(argPool))] + ")"
		}
		return "sq(" + argPool[r.Intn(len(argPool))] + ")"
	}
	for i, n := 0, 3+r.Intn(4); i < n; i++ {
		switch r.Intn(4) {
		case 0:
			s.Inputs = append(s.Inputs, raw("println("+use()+", "+use()+")"))
		case 1:
			s.Inputs = append(s.Inputs, raw("f = func(){"+use()+"}"), raw("f()"), raw("f()"))
		case 2:
			s.Inputs = append(s.Inputs, raw("a = a + 1"), raw("println("+use()+")"))
		default:
			s.Inputs = append(s.Inputs, raw("println("+use()+")"))
		}
	}
	return s
}

// a name whose KIND of value changes over the session (function -> data -> function ...), read through closures whose
// maker frame outlives the call (the maker read the name too, so the closure finds a Reference in an intermediate frame)
// and through recursion parents: whether a read is a miss must be judged by the CURRENT value
func (c *Ctx2) kindChangeSession() *Session {
	s := &Session{Tag: "random-kind-change"}
	r := c.R
	lam := func(k int64) *Expr { return s.fn("", nil, li(k)) }
	val := func(i int) *Expr { // alternates kinds, starting with a function
		if i%2 == 0 {
			return lam(int64(i))
		}
		return li(int64(10 + i))
	}
	s.Inputs = append(s.Inputs, asg("v", val(0)))
	recursion := r.Pct(35)
	if recursion {
		// the parent frame reads v (a function: no miss) and rebinds it; the child frame reads it through the parent's reference
		body := iff(lt(v("n"), li(1)), v("v"), seq(v("v"), asg("v", li(5)), cn("rr", sub(v("n"), li(1)))))
		if r.Bool() {
			body = iff(lt(v("n"), li(1)), seq(prt(lit(vs("r"))), v("v")), seq(v("v"), cn("rr", sub(v("n"), li(1)))))
		}
		rrDef := s.fn("rr", []string{"n"}, body)
		s.Inputs = append(s.Inputs, rrDef)
		s.NoNew = map[int][]int{}
		writes := body.Sub[2].K == 'S' && body.Sub[2].Sub[1].K == 'S' // the variant that sets v = 5 before recursing
		data := false                                                 // does v hold plain data now?
		call := func(k int64) {
			if data {
				s.NoNew[len(s.Inputs)] = []int{rrDef.D}
			}
			s.Inputs = append(s.Inputs, cn("rr", li(k)))
			if writes && k > 0 {
				data = true
			}
		}
		for i, n := 1, 4+r.Intn(4); i < n; i++ {
			call(int64(r.Intn(2)))
			if r.Bool() {
				s.Inputs = append(s.Inputs, asg("v", val(i)))
				data = i%2 == 1
				call(0)
				call(0)
			}
		}
		return s
	}
	var inner *Expr
	switch r.Intn(3) {
	case 0:
		inner = s.fn("", nil, v("v"))
	case 1:
		inner = s.fn("", nil, seq(prt(lit(vs("c"))), arr(v("v"), li(0))))
	default:
		inner = s.fn("", nil, iff(cerr(add(v("v"), li(1))), li(-1), add(v("v"), li(1))))
	}
	mkBody := seq(v("v"), inner)
	if r.Pct(30) {
		mkBody = inner // the maker does not read the name itself
	}
	s.Inputs = append(s.Inputs, s.fn("mk", nil, mkBody), asg("c", cn("mk")))
	closures := []string{"c"}
	s.NoNew = map[int][]int{}
	for i, n := 1, 4+r.Intn(4); i < n; i++ {
		s.Inputs = append(s.Inputs, asg("v", val(i)))
		for j, m := 0, 1+r.Intn(2); j < m; j++ {
			if i%2 == 1 { // v holds plain data: the closure's read of it is a miss, nothing new may be remembered for it
				s.NoNew[len(s.Inputs)] = []int{inner.D}
			}
			s.Inputs = append(s.Inputs, cn(closures[r.Intn(len(closures))]))
		}
		if r.Pct(25) && len(closures) < 3 {
			name := []string{"a", "b"}[len(closures)-1]
			s.Inputs = append(s.Inputs, asg(name, cn("mk")))
			closures = append(closures, name)
		}
	}
	return s
}

// closures returned THROUGH one or two wrapper functions that contain no function literal themselves (also stored in an
// array by the wrapper): several instances made with equal arguments, each instance's captured state stays independent
func (c *Ctx2) wrapperSession() *Session {
	s := &Session{Tag: "random-wrapper"}
	r := c.R
	mark := func(e *Expr) *Expr {
		f := e
		if f.K == 'A' {
			f = f.Sub[0]
		}
		s.Closures = append(s.Closures, f.D)
		return e
	}
	var inner *Expr
	switch r.Intn(3) {
	case 0:
		inner = s.fn("", nil, asg("p", add(v("p"), li(1))))
	case 1:
		inner = s.fn("", nil, seq(asg("p", add(v("p"), li(1))), prt(v("p")), v("p")))
	default:
		inner = s.fn("", []string{"q"}, asg("p", add(v("p"), v("q"))))
	}
	withArg := len(s.Defs[inner.D].Params) == 1
	s.Inputs = append(s.Inputs, mark(s.fn("counter", []string{"p"}, inner)))
	top := "counter"
	w1 := cn("counter", v("p"))
	if r.Bool() {
		w1 = seq(prt(lit(vs("new")), v("p")), cn("counter", v("p")))
	}
	s.Inputs = append(s.Inputs, mark(s.fn("nc", []string{"p"}, w1)))
	top = "nc"
	if r.Bool() {
		s.Inputs = append(s.Inputs, mark(asg("nc2", s.fn("", []string{"p"}, cn("nc", v("p"))))))
		top = "nc2"
	}
	boxed := r.Pct(30)
	if boxed { // the wrapper puts the closure into an array; taken out again with raw grol (indexing is not in the model)
		s.Inputs = append(s.Inputs, mark(asg("box", s.fn("", []string{"p"}, arr(cn(top, v("p")), v("p"))))))
		s.Inputs = append(s.Inputs, raw("b1 = box(0)"), raw("b2 = box(0)"), raw("b1[0]("+map[bool]string{true: "1", false: ""}[withArg]+")"),
			raw("b1[0]("+map[bool]string{true: "1", false: ""}[withArg]+")"), raw("b2[0]("+map[bool]string{true: "1", false: ""}[withArg]+")"))
		return s
	}
	insts := []string{"a", "b", "c"}[:2+r.Intn(2)]
	for _, n := range insts {
		s.Inputs = append(s.Inputs, asg(n, cn(top, li(0))))
	}
	for i, n := 0, 4+r.Intn(5); i < n; i++ {
		name := insts[r.Intn(len(insts))]
		if withArg {
			s.Inputs = append(s.Inputs, cn(name, li(1)))
		} else {
			s.Inputs = append(s.Inputs, cn(name))
		}
	}
	return s
}

// every route that evaluates TEXT in another interpreter state (unjson: a blank state without root functions, constants
// and extensions; eval: the same state) defining and calling functions textually identical to session functions whose
// bodies use predefined identifiers / extensions / constants: purity is judged per state, results must not travel
func (c *Ctx2) foreignStateSession() *Session {
	s := &Session{Tag: "random-foreign-state"}
	r := c.R
	type fam struct{ def, call string }
	fams := []fam{{"f = x => abs(x)", "f(-2)"}, {"area = func(r){PI*r*r}", "area(1)"}, {"func sq(x){pow(x,2)}", "sq(3)"}, {"h = func(x){print(\"h\"); x+1}", "h(1)"},
		{"k = func(s){len(str(s))}", "k(12)"}, {"func fib(n){if n<2 {n} else {fib(n-1)+fib(n-2)}}", "fib(7)"}}
	f := fams[r.Intn(len(fams))]
	text := f.def + "; " + f.call
	foreign := []string{"catch(unjson(" + strconv.Quote(text) + "))", "catch(unjson(" + strconv.Quote(text) + ")).err", "catch(eval(" + strconv.Quote(f.call) + "))",
		"catch(unjson(" + strconv.Quote(f.call) + ")).err", "catch(eval(" + strconv.Quote(text) + "))"}
	if r.Bool() { // the other state first: nothing may be remembered for the session either
		s.Inputs = append(s.Inputs, raw(foreign[r.Intn(2)]))
	}
	s.Inputs = append(s.Inputs, raw(f.def), raw(f.call))
	for i, n := 0, 3+r.Intn(4); i < n; i++ {
		if r.Pct(30) {
			s.Inputs = append(s.Inputs, raw(f.call))
		} else {
			s.Inputs = append(s.Inputs, raw(foreign[r.Intn(len(foreign))]))
		}
	}
	return s
}

// "typed twins": a big array / map and its ==-equal twin with ONE element, nested element or key written as a float
// (-0.0 for 0.0), passed to the same remembered function in both orders; the result reveals the typing
func (c *Ctx2) typedTwinSession() *Session {
	s := &Session{Tag: "random-typed-twin"}
	r := c.R
	n := 9 + r.Intn(4)
	pos := r.Intn(n)
	elems := func(float bool, zero bool) string {
		parts := make([]string, n)
		for i := range parts {
			parts[i] = strconv.Itoa(i + 1)
		}
		switch {
		case zero && float:
			parts[pos] = "-0.0"
		case zero:
			parts[pos] = "0.0"
		case float:
			parts[pos] += ".0"
		}
		return strings.Join(parts, ",")
	}
	var def, a, b string
	p := strconv.Itoa(pos)
	switch r.Intn(5) {
	case 0:
		def, a, b = "tw = func(x){print(\"t\"); x["+p+"]/2}", "["+elems(false, false)+"]", "["+elems(true, false)+"]"
	case 1:
		def, a, b = "tw = func(x){type(x["+p+"])}", "["+elems(false, false)+"]", "["+elems(true, false)+"]"
	case 2:
		def, a, b = "tw = func(x){1.0/x["+p+"]}", "["+elems(false, true)+"]", "["+elems(true, true)+"]"
	case 3:
		def, a, b = "tw = func(x){println(x[0][0]/2); len(x)}", "[[1],"+elems(false, false)+"]", "[[1.0],"+elems(false, false)+"]"
	default:
		pairs := func(float bool) string {
			parts := make([]string, 0, n)
			for i := 1; i <= 5+r.Intn(1); i++ {
				k := strconv.Itoa(i)
				if float && i == 1 {
					k += ".0"
				}
				parts = append(parts, k+":"+strconv.Itoa(i))
			}
			return "{" + strings.Join(parts, ",") + "}"
		}
		def, a, b = "tw = func(x){type(first(x).key)}", pairs(false), pairs(true)
	}
	if r.Bool() {
		a, b = b, a
	}
	s.Inputs = []*Expr{raw(def), raw("tw(" + a + ")"), raw("tw(" + b + ")"), raw("tw(" + a + ")"), raw("tw(" + b + ")")}
	if r.Bool() {
		s.Inputs = append(s.Inputs, raw("w = func(){tw("+b+")}"), raw("w()"), raw("w2 = func(){tw("+a+")}"), raw("w2()"))
	}
	return s
}

func runC04(c0 *Ctx) {
	c := &Ctx2{Ctx: c0, seen: map[string]int{}}
	log.SetOutput(io.Discard)
	log.SetLogLevelQuiet(log.Warning) // log() is a no-op at Error and above; nothing of fortio's own logging is kept
	if err := extensions.Init(nil); err != nil {
		panic(err)
	}
	registerCancelOnce()
	c.Rule = "sessions = REPL histories over one persistent eval.State, generated as abstract programs of coq/model/Memo.v and printed as grol: " +
		"corpus (known findings, repaired defects, mechanism cases) then random sessions (functions/lambdas defined and redefined, called with equal and " +
		"different arguments incl. +-0/NaN/strings/arrays/>4 args, closures over lower-case/upper-case/function-valued variables, outer reads and writes, " +
		"print, log, error, rand/time.now, del, recursion; state machines that read/call and then rewrite one outer binding - lambda flip-flops, " +
		"counters, growing containers - called 3-5 times with equal arguments directly and through 1-2 levels of callers, with a model-free store " +
		"oracle: no call of such a writer or of its callers may appear in the cache); each run cache on and cache off on the implementation (direct oracle) and on the extracted model. " +
		"non-trivial = distinct session that ends with a non-empty cache"
	// every identifier the generator uses must be free in a fresh state (not an extension, not a predefined function)
	for _, name := range []string{"f", "g", "h", "id", "mk", "a", "b", "c", "d", "w", "k", "x", "y", "t", "n", "m", "p", "q", "r", "s", "X", "N", "F", "fib", "f2", "k4", "v", "nx", "tw", "tt", "m", "vf", "wy", "A", "pick", "fa", "fb", "slow", "sc", "fr", "K", "LEVEL", "LIMIT", "base", "fm", "fk", "m4", "a8", "sq", "get", "gy", "ARG", "N1", "Y", "rr", "counter", "nc", "nc2", "box", "b1", "b2", "area", "w2"} {
		st := eval.NewState()
		st.Out, st.LogOut = io.Discard, io.Discard
		res, _ := evalProtected(st, parser.New(lexer.New(name)).ParseProgram())
		if res == nil || res.Type() != object.ERROR {
			c.Fail("harness:identifier-not-free", name, "predefined in a fresh state")
			return
		}
	}
	if c.ReplayCase != "" {
		c.replay(c.ReplayCase)
		return
	}
	for _, s := range corpus() {
		c.session(s)
	}
	n := 1500
	if c.Thorough() {
		n = 20000
	}
	for i := 0; i < n; i++ {
		switch i % 10 {
		case 0, 1, 2:
			c.session(c.randomSession(true))
		case 3:
			c.session(c.redefSession())
		case 4:
			switch (i / 10) % 3 {
			case 0:
				c.session(c.toggleSession())
			case 1:
				c.session(c.kindChangeSession())
			default:
				c.session(c.wrapperSession())
			}
		case 5:
			switch (i / 10) % 4 {
			case 0:
				c.session(c.variadicSession())
			case 1:
				c.session(c.catchSession())
			case 2:
				c.session(c.impureResultSession())
			default:
				switch (i / 40) % 8 {
				case 7:
					c.session(c.typedTwinSession())
				case 6:
					c.session(c.foreignStateSession())
				case 5:
					c.session(c.macroSession())
				case 4:
					c.session(c.smallContainerSession())
				case 0:
					c.session(c.bigArgSession())
				case 1:
					c.session(c.interruptSession())
				case 2:
					c.session(c.collisionSession())
				default:
					c.session(c.loopSession())
				}
			}
		default:
			c.session(c.randomSession(false))
		}
	}
	c.multiFile()
}

// replay re-runs the direct oracle on a session text "in1 ;; in2 ;; ..." (grol source).
func (c *Ctx2) replay(text string) {
	ins := strings.Split(text, " ;; ")
	run := func(off bool) []string {
		eval.VerifCacheOff = off
		defer func() { eval.VerifCacheOff = false }()
		st := eval.NewState()
		st.NoLog = true
		opts := repl.Options{All: true, ShowEval: true, NoColor: true, NilAndErr: true}
		var res []string
		for _, in := range ins {
			var out, lg bytes.Buffer
			st.Out, st.LogOut = &out, &lg
			_, pan, errs, _ := repl.EvalOne(context.Background(), st, strings.ReplaceAll(in, "; ", "\n"), &out, opts)
			res = append(res, fmt.Sprintf("out=%q log=%q panic=%v errs=%d", out.String(), lg.String(), pan, len(errs)))
		}
		return res
	}
	a, b := run(false), run(true)
	for i := range a {
		fmt.Printf("%-40s on : %s\n%-40s off: %s\n", ins[i], a[i], "", b[i])
		if a[i] != b[i] {
			c.Fail("replay:cache-on-off-differ", text, fmt.Sprintf("input %d %q: on %s / off %s", i, ins[i], a[i], b[i]))
			return
		}
	}
}
